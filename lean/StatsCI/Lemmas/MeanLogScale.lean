/-
  StatsCI.Lemmas.MeanLogScale — `Arith.ci` under scaling / shift as stand-alone lemmas, and the
  scale equivariance of the geometric and harmonic intervals at exact arithmetic.
-/
import StatsCI.Lemmas.MeanLog
import StatsCI.Lemmas.MeanSym

set_option linter.unusedSectionVars false

namespace StatsCI.MeanLemmas
open StatsCI NumOps Scalar

theorem Outcome.map_map {ε α β γ : Type} (f : α → β) (g : β → γ) (x : Outcome ε α) :
    (x.map f).map g = x.map (g ∘ f) := by
  cases x <;> rfl

theorem Geometric.ci_rex (crit : Crit Rex) (conf : Confidence Rex) (xs : List ℝ)
    (hpos : ∀ x ∈ xs, 0 < x) :
    Geometric.ci crit conf (xs.map inj) =
      (Arith.ci crit conf ((xs.map Real.log).map inj : List Rex)).map
        (Interval.map Scalar.exp) := by
  unfold Geometric.ci
  rw [Geometric.fromList_rex xs hpos, Outcome.bind_ok, Geometric.ciMean_rex]
  rfl

theorem Arith.ci_shift (crit : Crit Rex) (conf : Confidence Rex) (xs : List ℝ) (k : ℝ) :
    Arith.ci crit conf ((xs.map (fun x => x + k)).map inj) =
      (Arith.ci crit conf (xs.map inj : List Rex)).map (fun I => I.addScalar (inj k)) := by
  unfold Arith.ci
  rw [Arith.ciMean_eq_finish, Arith.ciMean_eq_finish, Arith.ciPrep_shift, finish_shift]

theorem Arith.ciMean_asmul {fl : ℝ → ℝ} {a : ℝ} (ha : 0 < a) (hfl : ∀ x, fl (a * x) = a * fl x)
    (crit : Crit (RR fl)) (conf : Confidence (RR fl)) (A : Arith (RR fl)) :
    (asmul a A).ciMean crit conf = (A.ciMean crit conf).map (Interval.map (smul a)) := by
  have habs : ∀ x, fl (|a| * x) = |a| * fl x := by rw [abs_of_pos ha]; exact hfl
  rw [Arith.ciMean_eq_finish, Arith.ciMean_eq_finish, Arith.ciPrep_smul ha.ne' hfl habs,
    abs_of_pos ha, finish_scale ha hfl]

theorem Arith.ci_scale {fl : ℝ → ℝ} {a : ℝ} (ha : 0 < a) (hfl : ∀ x, fl (a * x) = a * fl x)
    (crit : Crit (RR fl)) (conf : Confidence (RR fl)) (xs : List (RR fl)) :
    Arith.ci crit conf (xs.map (smul a)) =
      (Arith.ci crit conf xs).map (Interval.map (smul a)) := by
  unfold Arith.ci
  rw [Arith.fromList_smul hfl, Arith.ciMean_asmul ha hfl]

/-- geometric interval of `a·x` (`a > 0`): every bound multiplied by `a` -/
theorem Geometric.ci_scale_rex (crit : Crit Rex) (conf : Confidence Rex) (xs : List ℝ)
    (hpos : ∀ x ∈ xs, 0 < x) (a : ℝ) (ha : 0 < a) :
    Geometric.ci crit conf ((xs.map (fun x => a * x)).map inj) =
      (Geometric.ci crit conf (xs.map inj : List Rex)).map (Interval.map (smul a)) := by
  have hpos' : ∀ y ∈ xs.map (fun x => a * x), 0 < y := by
    intro y hy
    simp only [List.mem_map] at hy
    obtain ⟨x, hx, rfl⟩ := hy
    exact mul_pos ha (hpos x hx)
  have hlog : (xs.map (fun x => a * x)).map Real.log =
      (xs.map Real.log).map (fun y => y + Real.log a) := by
    rw [List.map_map, List.map_map]
    apply List.map_congr_left
    intro x hx
    simp only [Function.comp]
    rw [Real.log_mul ha.ne' (hpos x hx).ne', add_comm]
  rw [Geometric.ci_rex _ _ _ hpos', Geometric.ci_rex _ _ _ hpos, hlog, Arith.ci_shift,
    Outcome.map_map, Outcome.map_map]
  congr 1
  funext I
  have key : ∀ x : Rex, (Scalar.exp (add x (inj (Real.log a))) : Rex) = smul a (Scalar.exp x) := by
    intro x
    apply RR.ext'
    simp only [RR.exp_val, RR.add_val, inj_val, id_eq, smul_val, Real.exp_add, Real.exp_log ha]
    ring
  cases I <;>
    simp only [Function.comp, Interval.addScalar, Interval.appliedBoth, Interval.applied,
      Interval.map, key]

theorem highX_map_smul (c : ℝ) (I : Interval Rex) :
    @Interval.highX Rex ⟨negInf, posInf⟩ (I.map (smul c)) =
      smul c (@Interval.highX Rex ⟨negInf, posInf⟩ I) := by
  cases I <;> simp only [Interval.map, Interval.highX]
  apply RR.ext'
  show (0 : ℝ) = c * 0
  simp

theorem lowX_map_smul (c : ℝ) (I : Interval Rex) :
    @Interval.lowX Rex ⟨negInf, posInf⟩ (I.map (smul c)) =
      smul c (@Interval.lowX Rex ⟨negInf, posInf⟩ I) := by
  cases I <;> simp only [Interval.map, Interval.lowX]
  apply RR.ext'
  show (0 : ℝ) = c * 0
  simp

/-- scaling a reciprocal-space bound by `a⁻¹` (`a > 0`) keeps the sign test, scales `1/r` by `a`,
    and the stand-in `posInf = ⟨0⟩` of `Rex` is a fixed point of the scaling -/
theorem recipBound_smul_inv {a : ℝ} (ha : 0 < a) (x : Rex) :
    Harmonic.recipBound (smul a⁻¹ x) = smul a (Harmonic.recipBound x) := by
  have hg : gt (smul a⁻¹ x) (zero : Rex) = gt x (zero : Rex) := by
    rw [Bool.eq_iff_iff, RR.gt_iff, RR.gt_iff]
    simp only [smul_val, RR.zero_val]
    exact mul_pos_iff_of_pos_left (inv_pos.mpr ha)
  unfold Harmonic.recipBound
  rw [hg]
  by_cases h : gt x (zero : Rex) = true
  · simp only [h, if_true]
    apply RR.ext'
    simp only [RR.div_val, RR.one_val, smul_val, id_eq, one_div, mul_inv, inv_inv]
  · simp only [h, Bool.false_eq_true, if_false]
    apply RR.ext'
    show (0 : ℝ) = a * 0
    simp

/-- harmonic interval when the reciprocal-space state is scaled by `a⁻¹` -/
theorem Harmonic.ciMean_asmul_inv (crit : Crit Rex) (conf : Confidence Rex) (A : Arith Rex)
    (a : ℝ) (ha : 0 < a) :
    Harmonic.ciMean crit (⟨asmul a⁻¹ A⟩ : Harmonic Rex) conf =
      (Harmonic.ciMean crit (⟨A⟩ : Harmonic Rex) conf).map (Interval.map (smul a)) := by
  have hfl : ∀ x : ℝ, (id : ℝ → ℝ) (a⁻¹ * x) = a⁻¹ * id x := fun _ => rfl
  unfold Harmonic.ciMean
  simp only []
  rw [Arith.ciMean_asmul (inv_pos.mpr ha) hfl]
  cases A.ciMean crit conf.flipped with
  | err e => rfl
  | panic t => rfl
  | ok I =>
    simp only [Outcome.map_ok, Outcome.bind_ok]
    rw [highX_map_smul, lowX_map_smul, recipBound_smul_inv ha, recipBound_smul_inv ha]
    exact intervalOfKind_scale ha conf _ _

/-- harmonic interval of `a·x` (`a > 0`): every bound multiplied by `a` -/
theorem Harmonic.ci_scale_rex (crit : Crit Rex) (conf : Confidence Rex) (xs : List ℝ)
    (hpos : ∀ x ∈ xs, 0 < x) (a : ℝ) (ha : 0 < a) :
    Harmonic.ci crit conf ((xs.map (fun x => a * x)).map inj) =
      (Harmonic.ci crit conf (xs.map inj : List Rex)).map (Interval.map (smul a)) := by
  have hpos' : ∀ y ∈ xs.map (fun x => a * x), 0 < y := by
    intro y hy
    simp only [List.mem_map] at hy
    obtain ⟨x, hx, rfl⟩ := hy
    exact mul_pos ha (hpos x hx)
  have hfl : ∀ x : ℝ, (id : ℝ → ℝ) (a⁻¹ * x) = a⁻¹ * id x := fun _ => rfl
  have hrec : (((xs.map (fun x => a * x)).map (fun x => 1 / x)).map inj : List Rex) =
      ((xs.map (fun x => 1 / x)).map inj : List Rex).map (smul a⁻¹) := by
    simp only [List.map_map]
    apply List.map_congr_left
    intro x _
    apply RR.ext'
    simp only [Function.comp, inj_val, smul_val, one_div, mul_inv]
  unfold Harmonic.ci
  rw [Harmonic.fromList_rex _ hpos', Harmonic.fromList_rex _ hpos, Outcome.bind_ok,
    Outcome.bind_ok, hrec, Arith.fromList_smul hfl]
  exact Harmonic.ciMean_asmul_inv crit conf _ a ha

end StatsCI.MeanLemmas
