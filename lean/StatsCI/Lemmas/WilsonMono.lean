/-
  StatsCI.Lemmas.WilsonMono — the two Wilson numbers of the model (`Proportion.wilsonCentre`,
  `Proportion.wilsonSpan`) at exact real arithmetic (`Rex = RR id`): closed forms, the factorised
  score quadratic, monotonicity in `k`, mirror identity, bounds, and the counting lemma for order
  statistics of a sorted list.  Helper file of `Properties/C17.lean` and `Properties/C12.lean`.
-/
import StatsCI.Lemmas.RR
import StatsCI.Lemmas.Order
import Mathlib.Analysis.SpecialFunctions.Sqrt
import Mathlib.Tactic.Linarith
import Mathlib.Tactic.Ring
import Mathlib.Tactic.FieldSimp
import Mathlib.Tactic.Positivity
import Mathlib.Tactic.LinearCombination

namespace StatsCI.WilsonMono
open StatsCI Proportion Real

/-! ### the model numbers at `Rex`, as real functions of real arguments -/

/-- the value of the model's `wilsonCentre` at exact arithmetic -/
noncomputable def centreR (n k z : ℝ) : ℝ :=
  (wilsonCentre (⟨n⟩ : Rex) ⟨k⟩ ⟨z⟩).val
/-- the value of the model's `wilsonSpan` at exact arithmetic -/
noncomputable def spanR (n k z : ℝ) : ℝ :=
  (wilsonSpan (⟨n⟩ : Rex) ⟨k⟩ ⟨z⟩).val
/-- lower end `centre − span` exactly as `Proportion.finish` forms it (`Proportion.finishWilson`
    clamps it at `0`; on the domain it is non-negative, `lowerR_nonneg`) -/
noncomputable def lowerR (n k z : ℝ) : ℝ :=
  (wilsonCentre (⟨n⟩ : Rex) ⟨k⟩ ⟨z⟩).val - (wilsonSpan (⟨n⟩ : Rex) ⟨k⟩ ⟨z⟩).val
/-- upper end `centre + span` exactly as `Proportion.finish` forms it (`Proportion.finishWilson`
    clamps it at `1`; on the domain it is at most `1`, `upperR_le_one`) -/
noncomputable def upperR (n k z : ℝ) : ℝ :=
  (wilsonCentre (⟨n⟩ : Rex) ⟨k⟩ ⟨z⟩).val + (wilsonSpan (⟨n⟩ : Rex) ⟨k⟩ ⟨z⟩).val

/-- the radicand `k(n−k)/n + z²/4` -/
noncomputable def D (n k z : ℝ) : ℝ := k * (n - k) / n + z ^ 2 / 4

theorem centreR_eq (n k z : ℝ) : centreR n k z = (k + z ^ 2 / 2) / (n + z ^ 2) := by
  simp only [centreR, wilsonCentre, RR.div_val, RR.add_val, RR.mul_val, RR.one_val, id]
  rw [show (1 : ℝ) + 1 = 2 by norm_num, ← sq]

theorem spanR_eq (n k z : ℝ) : spanR n k z = z / (n + z ^ 2) * sqrt (D n k z) := by
  simp only [spanR, wilsonSpan, RR.div_val, RR.add_val, RR.mul_val, RR.sub_val, RR.sqrt_val,
    RR.one_val, id, D]
  rw [show (1 : ℝ) + 1 + (1 + 1) = 4 by norm_num, ← sq]

theorem lowerR_def (n k z : ℝ) : lowerR n k z = centreR n k z - spanR n k z := rfl
theorem upperR_def (n k z : ℝ) : upperR n k z = centreR n k z + spanR n k z := rfl

theorem lowerR_eq (n k z : ℝ) :
    lowerR n k z = (k + z ^ 2 / 2 - z * sqrt (D n k z)) / (n + z ^ 2) := by
  rw [lowerR_def, centreR_eq, spanR_eq]; ring

theorem upperR_eq (n k z : ℝ) :
    upperR n k z = (k + z ^ 2 / 2 + z * sqrt (D n k z)) / (n + z ^ 2) := by
  rw [upperR_def, centreR_eq, spanR_eq]; ring

/-! ### the radicand -/

theorem D_nonneg (n k z : ℝ) (hn : 0 < n) (hk0 : 0 ≤ k) (hkn : k ≤ n) : 0 ≤ D n k z := by
  unfold D
  have : 0 ≤ k * (n - k) / n := div_nonneg (mul_nonneg hk0 (by linarith)) hn.le
  positivity

theorem D_mirror (n k z : ℝ) : D n (n - k) z = D n k z := by
  unfold D; ring

theorem sq_sqrt_D (n k z : ℝ) (hn : 0 < n) (hk0 : 0 ≤ k) (hkn : k ≤ n) :
    n * sqrt (D n k z) ^ 2 = k * (n - k) + n * z ^ 2 / 4 := by
  rw [sq_sqrt (D_nonneg n k z hn hk0 hkn)]; unfold D
  have hn' : n ≠ 0 := hn.ne'
  field_simp

/-- key bound: √D ≥ |z (n - 2k) / (2n)| -/
theorem sqrtD_ge (n k z : ℝ) (hn : 0 < n) (hk0 : 0 ≤ k) (hkn : k ≤ n) :
    |z * (n - 2 * k) / (2 * n)| ≤ sqrt (D n k z) := by
  apply abs_le_sqrt
  unfold D
  have hn' : n ≠ 0 := hn.ne'
  have h0 : 0 ≤ k * (n - k) := mul_nonneg hk0 (by linarith)
  have key : k * (n - k) / n + z ^ 2 / 4 - (z * (n - 2 * k) / (2 * n)) ^ 2
      = k * (n - k) / n + z ^ 2 * (k * (n - k)) / n ^ 2 := by
    field_simp; ring
  have : 0 ≤ k * (n - k) / n + z ^ 2 * (k * (n - k)) / n ^ 2 := by positivity
  linarith

/-- z (√D(k') − √D(k)) ≤ k' − k : the lower root moves up at most as fast as k -/
theorem sqrt_step (n k k' z : ℝ) (hn : 0 < n) (hz : 0 ≤ z) (hk0 : 0 ≤ k) (hkk : k ≤ k')
    (hkn : k' ≤ n) : z * (sqrt (D n k' z) - sqrt (D n k z)) ≤ k' - k := by
  set A := sqrt (D n k z) with hA
  set A' := sqrt (D n k' z) with hA'
  have hA0 : 0 ≤ A := sqrt_nonneg _
  have hA'0 : 0 ≤ A' := sqrt_nonneg _
  by_cases hle : A' ≤ A
  · have : z * (A' - A) ≤ 0 := mul_nonpos_of_nonneg_of_nonpos hz (by linarith)
    linarith
  · have hle : A < A' := lt_of_not_ge hle
    have hpos : 0 < A' + A := by linarith
    have hk'0 : 0 ≤ k' := le_trans hk0 hkk
    have hkn' : k ≤ n := le_trans hkk hkn
    have sqA : A ^ 2 = D n k z := sq_sqrt (D_nonneg n k z hn hk0 hkn')
    have sqA' : A' ^ 2 = D n k' z := sq_sqrt (D_nonneg n k' z hn hk'0 hkn)
    have hn' : n ≠ 0 := hn.ne'
    have hdiff : (A' - A) * (A' + A) = (k' - k) * (n - k - k') / n := by
      have : (A' - A) * (A' + A) = A' ^ 2 - A ^ 2 := by ring
      rw [this, sqA, sqA']; unfold D; field_simp; ring
    have hb := sqrtD_ge n k z hn hk0 hkn'
    have hb' := sqrtD_ge n k' z hn hk'0 hkn
    have hw : z * (n - k - k') / n ≤ A' + A := by
      have e : z * (n - k - k') / n = z * (n - 2 * k') / (2 * n) + z * (n - 2 * k) / (2 * n) := by
        field_simp; ring
      have h1 := le_abs_self (z * (n - 2 * k') / (2 * n))
      have h2 := le_abs_self (z * (n - 2 * k) / (2 * n))
      rw [e]; linarith
    have hmul : z * (A' - A) * (A' + A) ≤ (k' - k) * (A' + A) := by
      have e : z * (A' - A) * (A' + A) = (k' - k) * (z * (n - k - k') / n) := by
        have : z * (A' - A) * (A' + A) = z * ((A' - A) * (A' + A)) := by ring
        rw [this, hdiff]; field_simp
      rw [e]
      exact mul_le_mul_of_nonneg_left hw (by linarith)
    exact le_of_mul_le_mul_right hmul hpos

/-! ### monotonicity in `k`, mirror -/

theorem lowerR_mono_k (n k k' z : ℝ) (hn : 0 < n) (hz : 0 ≤ z) (hk0 : 0 ≤ k) (hkk : k ≤ k')
    (hkn : k' ≤ n) : lowerR n k z ≤ lowerR n k' z := by
  rw [lowerR_eq, lowerR_eq]
  have hN : 0 < n + z ^ 2 := by positivity
  apply div_le_div_of_nonneg_right _ hN.le
  have := sqrt_step n k k' z hn hz hk0 hkk hkn
  nlinarith

theorem lowerR_mirror (n k z : ℝ) (hn : 0 < n) : lowerR n (n - k) z = 1 - upperR n k z := by
  rw [lowerR_eq, upperR_eq, D_mirror]
  have hN : n + z ^ 2 ≠ 0 := by positivity
  field_simp; ring

theorem upperR_mirror (n k z : ℝ) (hn : 0 < n) : upperR n (n - k) z = 1 - lowerR n k z := by
  rw [lowerR_eq, upperR_eq, D_mirror]
  have hN : n + z ^ 2 ≠ 0 := by positivity
  field_simp; ring

theorem upperR_mono_k (n k k' z : ℝ) (hn : 0 < n) (hz : 0 ≤ z) (hk0 : 0 ≤ k) (hkk : k ≤ k')
    (hkn : k' ≤ n) : upperR n k z ≤ upperR n k' z := by
  have h := lowerR_mono_k n (n - k') (n - k) z hn hz (by linarith) (by linarith) (by linarith)
  rw [lowerR_mirror n k' z hn, lowerR_mirror n k z hn] at h
  linarith

/-! ### bounds -/

theorem spanR_nonneg (n k z : ℝ) (hn : 0 < n) (hz : 0 ≤ z) : 0 ≤ spanR n k z := by
  rw [spanR_eq]
  have hN : 0 < n + z ^ 2 := by positivity
  exact mul_nonneg (div_nonneg hz hN.le) (sqrt_nonneg _)

theorem lowerR_le_upperR (n k z : ℝ) (hn : 0 < n) (hz : 0 ≤ z) : lowerR n k z ≤ upperR n k z := by
  rw [lowerR_def, upperR_def]; have := spanR_nonneg n k z hn hz; linarith

/-- `(k + z²/2)² − z² D = k² (n + z²)/n` in cleared form -/
theorem disc_id (n k z s : ℝ) (hs : n * s ^ 2 = k * (n - k) + n * z ^ 2 / 4) :
    n * ((k + z ^ 2 / 2) ^ 2 - (z * s) ^ 2) = k ^ 2 * (n + z ^ 2) := by
  linear_combination (-(z ^ 2)) * hs

/-- `lower · (k + z²/2 + z√D) = k²/n` -/
theorem lowerR_mul (n k z : ℝ) (hn : 0 < n) (hk0 : 0 ≤ k) (hkn : k ≤ n) :
    lowerR n k z * (k + z ^ 2 / 2 + z * sqrt (D n k z)) = k ^ 2 / n := by
  rw [lowerR_eq]
  have hN : n + z ^ 2 ≠ 0 := by positivity
  have hn' : n ≠ 0 := hn.ne'
  have h := disc_id n k z _ (sq_sqrt_D n k z hn hk0 hkn)
  field_simp
  linear_combination 4 * h

theorem lowerR_nonneg (n k z : ℝ) (hn : 0 < n) (hz : 0 ≤ z) (hk0 : 0 ≤ k) (hkn : k ≤ n) :
    0 ≤ lowerR n k z := by
  have hs0 : 0 ≤ sqrt (D n k z) := sqrt_nonneg _
  have hden : 0 ≤ k + z ^ 2 / 2 + z * sqrt (D n k z) := by positivity
  rcases hden.lt_or_eq with hpos | h0
  · have h := lowerR_mul n k z hn hk0 hkn
    have hr : 0 ≤ k ^ 2 / n := by positivity
    by_contra hneg
    have hneg : lowerR n k z < 0 := lt_of_not_ge hneg
    have := mul_neg_of_neg_of_pos hneg hpos
    linarith
  · -- k + z²/2 + z s = 0 forces k = 0, z = 0
    have hz2 : 0 ≤ z ^ 2 / 2 := by positivity
    have hzs : 0 ≤ z * sqrt (D n k z) := mul_nonneg hz hs0
    have hk : k = 0 := by linarith
    have hzz : z ^ 2 / 2 = 0 := by linarith
    rw [lowerR_eq]
    have hN : 0 < n + z ^ 2 := by positivity
    apply div_nonneg _ hN.le
    linarith

theorem lowerR_pos (n k z : ℝ) (hn : 0 < n) (hz : 0 ≤ z) (hk0 : 0 < k) (hkn : k ≤ n) :
    0 < lowerR n k z := by
  have hs0 : 0 ≤ sqrt (D n k z) := sqrt_nonneg _
  have hpos : 0 < k + z ^ 2 / 2 + z * sqrt (D n k z) := by positivity
  have h := lowerR_mul n k z hn hk0.le hkn
  have hr : 0 < k ^ 2 / n := by positivity
  by_contra hneg
  have hneg : lowerR n k z ≤ 0 := le_of_not_gt hneg
  have := mul_nonpos_of_nonpos_of_nonneg hneg hpos.le
  linarith

theorem upperR_le_one (n k z : ℝ) (hn : 0 < n) (hz : 0 ≤ z) (hk0 : 0 ≤ k) (hkn : k ≤ n) :
    upperR n k z ≤ 1 := by
  have h := lowerR_nonneg n (n - k) z hn hz (by linarith) (by linarith)
  rw [lowerR_mirror n k z hn] at h; linarith

theorem upperR_lt_one (n k z : ℝ) (hn : 0 < n) (hz : 0 ≤ z) (hk0 : 0 ≤ k) (hkn : k < n) :
    upperR n k z < 1 := by
  have h := lowerR_pos n (n - k) z hn hz (by linarith) (by linarith)
  rw [lowerR_mirror n k z hn] at h; linarith

theorem lowerR_le_ratio (n k z : ℝ) (hn : 0 < n) (hz : 0 ≤ z) (hk0 : 0 ≤ k) (hkn : k ≤ n) :
    lowerR n k z ≤ k / n := by
  rw [lowerR_eq]
  have hN : 0 < n + z ^ 2 := by positivity
  have hb := le_trans (le_abs_self _) (sqrtD_ge n k z hn hk0 hkn)
  have hb' : z * (z * (n - 2 * k) / (2 * n)) ≤ z * sqrt (D n k z) :=
    mul_le_mul_of_nonneg_left hb hz
  rw [div_le_div_iff₀ hN hn]
  have e : z * (z * (n - 2 * k) / (2 * n)) * n = z ^ 2 * (n - 2 * k) / 2 := by
    field_simp
  have h2 : z * (z * (n - 2 * k) / (2 * n)) * n ≤ z * sqrt (D n k z) * n :=
    mul_le_mul_of_nonneg_right hb' hn.le
  rw [e] at h2
  linarith

theorem ratio_le_upperR (n k z : ℝ) (hn : 0 < n) (hz : 0 ≤ z) (hk0 : 0 ≤ k) (hkn : k ≤ n) :
    k / n ≤ upperR n k z := by
  have h := lowerR_le_ratio n (n - k) z hn hz (by linarith) (by linarith)
  rw [lowerR_mirror n k z hn] at h
  have e : (n - k) / n = 1 - k / n := by field_simp
  rw [e] at h; linarith

theorem centreR_pos (n k z : ℝ) (hn : 0 < n) (hk0 : 0 ≤ k) (h : 0 < z ∨ 0 < k) :
    0 < centreR n k z := by
  rw [centreR_eq]
  have hN : 0 < n + z ^ 2 := by positivity
  apply div_pos _ hN
  rcases h with h | h
  · have : 0 < z ^ 2 / 2 := by positivity
    linarith
  · have : 0 ≤ z ^ 2 / 2 := by positivity
    linarith

theorem upperR_pos (n k z : ℝ) (hn : 0 < n) (hz : 0 ≤ z) (hk0 : 0 ≤ k) (h : 0 < z ∨ 0 < k) :
    0 < upperR n k z := by
  rw [upperR_def]
  have := centreR_pos n k z hn hk0 h
  have := spanR_nonneg n k z hn hz
  linarith

theorem lowerR_lt_one (n k z : ℝ) (hn : 0 < n) (hz : 0 ≤ z) (hkn : k ≤ n)
    (h : 0 < z ∨ k < n) : lowerR n k z < 1 := by
  have h' := upperR_pos n (n - k) z hn hz (by linarith)
    (h.elim Or.inl (fun h => Or.inr (by linarith)))
  rw [upperR_mirror n k z hn] at h'; linarith

/-! ### midpoint -/

theorem centreR_convex (n k z : ℝ) (hn : 0 < n) :
    centreR n k z = n / (n + z ^ 2) * (k / n) + z ^ 2 / (n + z ^ 2) * (1 / 2) := by
  rw [centreR_eq]
  have hN : n + z ^ 2 ≠ 0 := by positivity
  have hn' : n ≠ 0 := hn.ne'
  field_simp

theorem weights (n z : ℝ) (hn : 0 < n) :
    0 < n / (n + z ^ 2) ∧ 0 ≤ z ^ 2 / (n + z ^ 2) ∧ n / (n + z ^ 2) + z ^ 2 / (n + z ^ 2) = 1 := by
  have hN : 0 < n + z ^ 2 := by positivity
  refine ⟨by positivity, by positivity, ?_⟩
  field_simp

/-! ### the score quadratic factorises over the two roots -/

theorem score_factor_core (n k z s p : ℝ) (hn : 0 < n)
    (hs : n * s ^ 2 = k * (n - k) + n * z ^ 2 / 4) :
    (p - k / n) ^ 2 - z ^ 2 * (p * (1 - p)) / n
      = (n + z ^ 2) / n * ((p - (k + z ^ 2 / 2 - z * s) / (n + z ^ 2))
          * (p - (k + z ^ 2 / 2 + z * s) / (n + z ^ 2))) := by
  have hN : n + z ^ 2 ≠ 0 := by positivity
  have hn' : n ≠ 0 := hn.ne'
  field_simp
  linear_combination (4 * z ^ 2) * hs

theorem score_factor (n k z p : ℝ) (hn : 0 < n) (hk0 : 0 ≤ k) (hkn : k ≤ n) :
    (p - k / n) ^ 2 - z ^ 2 * (p * (1 - p)) / n
      = (n + z ^ 2) / n * ((p - lowerR n k z) * (p - upperR n k z)) := by
  rw [lowerR_eq, upperR_eq]
  exact score_factor_core n k z _ p hn (sq_sqrt_D n k z hn hk0 hkn)

/-- both ends solve the score equation -/
theorem score_root_lower (n k z : ℝ) (hn : 0 < n) (hk0 : 0 ≤ k) (hkn : k ≤ n) :
    (lowerR n k z - k / n) ^ 2 = z ^ 2 * (lowerR n k z * (1 - lowerR n k z)) / n := by
  have h := score_factor n k z (lowerR n k z) hn hk0 hkn
  rw [sub_self, zero_mul, mul_zero] at h; linarith

theorem score_root_upper (n k z : ℝ) (hn : 0 < n) (hk0 : 0 ≤ k) (hkn : k ≤ n) :
    (upperR n k z - k / n) ^ 2 = z ^ 2 * (upperR n k z * (1 - upperR n k z)) / n := by
  have h := score_factor n k z (upperR n k z) hn hk0 hkn
  rw [sub_self, mul_zero, mul_zero] at h; linarith

/-- test inversion: the interval is exactly the acceptance region of the score test -/
theorem duality (n k z p : ℝ) (hn : 0 < n) (hz : 0 ≤ z) (hk0 : 0 ≤ k) (hkn : k ≤ n) :
    (lowerR n k z ≤ p ∧ p ≤ upperR n k z) ↔ (p - k / n) ^ 2 ≤ z ^ 2 * (p * (1 - p)) / n := by
  have hf := score_factor n k z p hn hk0 hkn
  have hc : 0 < (n + z ^ 2) / n := by positivity
  have hlu := lowerR_le_upperR n k z hn hz
  constructor
  · rintro ⟨h1, h2⟩
    have : (p - lowerR n k z) * (p - upperR n k z) ≤ 0 :=
      mul_nonpos_of_nonneg_of_nonpos (by linarith) (by linarith)
    have := mul_nonpos_of_nonneg_of_nonpos hc.le this
    linarith
  · intro h
    have h0 : (n + z ^ 2) / n * ((p - lowerR n k z) * (p - upperR n k z)) ≤ 0 := by linarith
    have h1 : (p - lowerR n k z) * (p - upperR n k z) ≤ 0 := by
      by_contra hpos
      have := mul_pos hc (lt_of_not_ge hpos)
      linarith
    constructor
    · by_contra hlt
      have hlt : p < lowerR n k z := lt_of_not_ge hlt
      have := mul_pos_of_neg_of_neg (show p - lowerR n k z < 0 by linarith)
        (show p - upperR n k z < 0 by linarith)
      linarith
    · by_contra hgt
      have hgt : upperR n k z < p := lt_of_not_ge hgt
      have := mul_pos (show 0 < p - lowerR n k z by linarith)
        (show 0 < p - upperR n k z by linarith)
      linarith

/-- for `a > 0`, `z ≥ 0`: `a ≤ z √b ↔ a² ≤ z² b` (any real `b`) -/
theorem le_mul_sqrt_iff (a z b : ℝ) (ha : 0 < a) (hz : 0 ≤ z) :
    a ≤ z * sqrt b ↔ a ^ 2 ≤ z ^ 2 * b := by
  have hs0 : 0 ≤ sqrt b := sqrt_nonneg b
  by_cases hb : 0 ≤ b
  · have hsq : sqrt b ^ 2 = b := sq_sqrt hb
    have e : z ^ 2 * b = (z * sqrt b) ^ 2 := by rw [mul_pow, hsq]
    rw [e]
    have hzs : 0 ≤ z * sqrt b := mul_nonneg hz hs0
    constructor
    · intro h; exact pow_le_pow_left₀ ha.le h 2
    · intro h; exact le_of_sq_le_sq h hzs
  · have hb : b < 0 := lt_of_not_ge hb
    have : sqrt b = 0 := sqrt_eq_zero_of_nonpos hb.le
    rw [this, mul_zero]
    constructor
    · intro h; linarith
    · intro h
      have h1 : z ^ 2 * b ≤ 0 := mul_nonpos_of_nonneg_of_nonpos (by positivity) hb.le
      have h2 : 0 < a ^ 2 := by positivity
      linarith

theorem duality_lower (n k z p : ℝ) (hn : 0 < n) (hz : 0 ≤ z) (hk0 : 0 ≤ k) (hkn : k ≤ n) :
    lowerR n k z ≤ p ↔ k / n - p ≤ z * sqrt (p * (1 - p) / n) := by
  have hs0 : 0 ≤ z * sqrt (p * (1 - p) / n) := mul_nonneg hz (sqrt_nonneg _)
  by_cases hp : k / n ≤ p
  · have := lowerR_le_ratio n k z hn hz hk0 hkn
    constructor
    · intro _; linarith
    · intro _; linarith
  · have hp : p < k / n := lt_of_not_ge hp
    rw [le_mul_sqrt_iff _ _ _ (by linarith) hz]
    have hd := duality n k z p hn hz hk0 hkn
    have hu := ratio_le_upperR n k z hn hz hk0 hkn
    have e1 : (k / n - p) ^ 2 = (p - k / n) ^ 2 := by ring
    have e2 : z ^ 2 * (p * (1 - p) / n) = z ^ 2 * (p * (1 - p)) / n := by ring
    rw [e1, e2, ← hd]
    constructor
    · intro h; exact ⟨h, by linarith⟩
    · intro h; exact h.1

theorem duality_upper (n k z p : ℝ) (hn : 0 < n) (hz : 0 ≤ z) (hk0 : 0 ≤ k) (hkn : k ≤ n) :
    p ≤ upperR n k z ↔ p - k / n ≤ z * sqrt (p * (1 - p) / n) := by
  have hs0 : 0 ≤ z * sqrt (p * (1 - p) / n) := mul_nonneg hz (sqrt_nonneg _)
  by_cases hp : p ≤ k / n
  · have := ratio_le_upperR n k z hn hz hk0 hkn
    constructor
    · intro _; linarith
    · intro _; linarith
  · have hp : k / n < p := lt_of_not_ge hp
    rw [le_mul_sqrt_iff _ _ _ (by linarith) hz]
    have hd := duality n k z p hn hz hk0 hkn
    have hl := lowerR_le_ratio n k z hn hz hk0 hkn
    have e2 : z ^ 2 * (p * (1 - p) / n) = z ^ 2 * (p * (1 - p)) / n := by ring
    rw [e2, ← hd]
    constructor
    · intro h; exact ⟨by linarith, h⟩
    · intro h; exact h.2

/-! ### monotonicity in `z` -/

theorem between_mono_z (n k z₁ z₂ p : ℝ) (hn : 0 < n) (hz₁ : 0 ≤ z₁) (hz : z₁ ≤ z₂)
    (hk0 : 0 ≤ k) (hkn : k ≤ n) (hp0 : 0 ≤ p) (hp1 : p ≤ 1)
    (hroot : (p - k / n) ^ 2 = z₁ ^ 2 * (p * (1 - p)) / n) :
    lowerR n k z₂ ≤ p ∧ p ≤ upperR n k z₂ := by
  rw [duality n k z₂ p hn (hz₁.trans hz) hk0 hkn, hroot]
  have hpp : 0 ≤ p * (1 - p) / n := div_nonneg (mul_nonneg hp0 (by linarith)) hn.le
  have hzz : z₁ ^ 2 ≤ z₂ ^ 2 := pow_le_pow_left₀ hz₁ hz 2
  have := mul_le_mul_of_nonneg_right hzz hpp
  have e1 : z₁ ^ 2 * (p * (1 - p)) / n = z₁ ^ 2 * (p * (1 - p) / n) := by ring
  have e2 : z₂ ^ 2 * (p * (1 - p)) / n = z₂ ^ 2 * (p * (1 - p) / n) := by ring
  rw [e1, e2]; exact this

theorem upperR_mono_z (n k z₁ z₂ : ℝ) (hn : 0 < n) (hz₁ : 0 ≤ z₁) (hz : z₁ ≤ z₂)
    (hk0 : 0 ≤ k) (hkn : k ≤ n) : upperR n k z₁ ≤ upperR n k z₂ :=
  (between_mono_z n k z₁ z₂ _ hn hz₁ hz hk0 hkn
    ((lowerR_nonneg n k z₁ hn hz₁ hk0 hkn).trans (lowerR_le_upperR n k z₁ hn hz₁))
    (upperR_le_one n k z₁ hn hz₁ hk0 hkn) (score_root_upper n k z₁ hn hk0 hkn)).2

theorem lowerR_anti_z (n k z₁ z₂ : ℝ) (hn : 0 < n) (hz₁ : 0 ≤ z₁) (hz : z₁ ≤ z₂)
    (hk0 : 0 ≤ k) (hkn : k ≤ n) : lowerR n k z₂ ≤ lowerR n k z₁ :=
  (between_mono_z n k z₁ z₂ _ hn hz₁ hz hk0 hkn
    (lowerR_nonneg n k z₁ hn hz₁ hk0 hkn)
    ((lowerR_le_upperR n k z₁ hn hz₁).trans (upperR_le_one n k z₁ hn hz₁ hk0 hkn))
    (score_root_lower n k z₁ hn hk0 hkn)).1

/-- two different `z` share a root only at `p(1−p) = 0` -/
theorem shared_root (n z₁ z₂ a p : ℝ) (hn : 0 < n) (hz₁ : 0 ≤ z₁) (hz : z₁ < z₂)
    (h1 : a = z₁ ^ 2 * (p * (1 - p)) / n) (h2 : a = z₂ ^ 2 * (p * (1 - p)) / n) :
    p * (1 - p) = 0 := by
  have hzz : z₁ ^ 2 < z₂ ^ 2 := pow_lt_pow_left₀ hz hz₁ (by norm_num)
  have hn' : n ≠ 0 := hn.ne'
  have h : z₁ ^ 2 * (p * (1 - p)) = z₂ ^ 2 * (p * (1 - p)) := by
    have := h1.symm.trans h2
    field_simp at this
    linarith
  have h' : (z₂ ^ 2 - z₁ ^ 2) * (p * (1 - p)) = 0 := by linarith
  rcases mul_eq_zero.mp h' with h0 | h0
  · linarith
  · exact h0

theorem upperR_strictMono_z (n k z₁ z₂ : ℝ) (hn : 0 < n) (hz₁ : 0 ≤ z₁) (hz : z₁ < z₂)
    (hk0 : 0 ≤ k) (hkn : k < n) : upperR n k z₁ < upperR n k z₂ := by
  refine lt_of_le_of_ne (upperR_mono_z n k z₁ z₂ hn hz₁ hz.le hk0 hkn.le) (fun heq => ?_)
  have r1 := score_root_upper n k z₁ hn hk0 hkn.le
  have r2 := score_root_upper n k z₂ hn hk0 hkn.le
  rw [← heq] at r2
  have h0 := shared_root n z₁ z₂ _ _ hn hz₁ hz r1 r2
  have hp1 := upperR_lt_one n k z₁ hn hz₁ hk0 hkn
  have hp0 := upperR_pos n k z₂ hn (hz₁.trans hz.le) hk0 (Or.inl (lt_of_le_of_lt hz₁ hz))
  rw [← heq] at hp0
  have : 0 < upperR n k z₁ * (1 - upperR n k z₁) := mul_pos hp0 (by linarith)
  linarith

theorem lowerR_strictAnti_z (n k z₁ z₂ : ℝ) (hn : 0 < n) (hz₁ : 0 ≤ z₁) (hz : z₁ < z₂)
    (hk0 : 0 < k) (hkn : k ≤ n) : lowerR n k z₂ < lowerR n k z₁ := by
  refine lt_of_le_of_ne (lowerR_anti_z n k z₁ z₂ hn hz₁ hz.le hk0.le hkn) (fun heq => ?_)
  have r1 := score_root_lower n k z₁ hn hk0.le hkn
  have r2 := score_root_lower n k z₂ hn hk0.le hkn
  rw [heq] at r2
  have h0 := shared_root n z₁ z₂ _ _ hn hz₁ hz r1 r2
  have hp0 := lowerR_pos n k z₁ hn hz₁ hk0 hkn
  have hp1 := lowerR_lt_one n k z₂ hn (hz₁.trans hz.le) hkn (Or.inl (lt_of_le_of_lt hz₁ hz))
  rw [heq] at hp1
  have : 0 < lowerR n k z₁ * (1 - lowerR n k z₁) := mul_pos hp0 (by linarith)
  linarith

/-! ### same proportion on a larger population -/

theorem D_scale (n k z m : ℝ) (hn : 0 < n) (hm : 0 < m) :
    D (m * n) (m * k) z = m * (k * (n - k) / n) + z ^ 2 / 4 := by
  unfold D
  have hn' : n ≠ 0 := hn.ne'
  have hm' : m ≠ 0 := hm.ne'
  field_simp

theorem shrink_poly (a c n m : ℝ) :
    (a + c / 4) * (m * n + c) ^ 2 - (m * a + c / 4) * (n + c) ^ 2
      = (m - 1) * (n + c) * (a * n + c * (n / 2 - a)) + (m - 1) ^ 2 * n ^ 2 * (a + c / 4) := by
  ring

theorem spanR_shrink (n k z m : ℝ) (hn : 0 < n) (hz : 0 < z) (hk0 : 0 ≤ k) (hkn : k ≤ n)
    (hm : 1 < m) : spanR (m * n) (m * k) z < spanR n k z := by
  have hm0 : 0 < m := by linarith
  rw [spanR_eq, spanR_eq, D_scale n k z m hn hm0]
  set a := k * (n - k) / n with ha
  have ha0 : 0 ≤ a := div_nonneg (mul_nonneg hk0 (by linarith)) hn.le
  have ha4 : a ≤ n / 4 := by
    rw [ha, div_le_iff₀ hn]
    nlinarith [sq_nonneg (n - 2 * k)]
  have hDa : D n k z = a + z ^ 2 / 4 := rfl
  rw [hDa]
  have hc : 0 < z ^ 2 := by positivity
  have hq : 0 < n + z ^ 2 := by positivity
  have hp : 0 < m * n + z ^ 2 := by positivity
  have hX : 0 ≤ m * a + z ^ 2 / 4 := by positivity
  have hY : 0 ≤ a + z ^ 2 / 4 := by positivity
  -- reduce to √X · q < √Y · p
  have hgoal : sqrt (m * a + z ^ 2 / 4) * (n + z ^ 2) < sqrt (a + z ^ 2 / 4) * (m * n + z ^ 2) := by
    apply lt_of_pow_lt_pow_left₀ 2 (mul_nonneg (sqrt_nonneg _) hp.le)
    rw [mul_pow, mul_pow, sq_sqrt hX, sq_sqrt hY]
    have key := shrink_poly a (z ^ 2) n m
    have t1 : 0 < (m - 1) * (n + z ^ 2) := mul_pos (by linarith) hq
    have t2 : 0 < a * n + z ^ 2 * (n / 2 - a) := by
      have : 0 < z ^ 2 * (n / 2 - a) := mul_pos hc (by linarith)
      have : 0 ≤ a * n := mul_nonneg ha0 hn.le
      linarith
    have t3 : 0 ≤ (m - 1) ^ 2 * n ^ 2 * (a + z ^ 2 / 4) := by positivity
    have := mul_pos t1 t2
    linarith
  have h1 : sqrt (m * a + z ^ 2 / 4) / (m * n + z ^ 2) < sqrt (a + z ^ 2 / 4) / (n + z ^ 2) := by
    rw [div_lt_div_iff₀ hp hq]; exact hgoal
  have h2 := mul_lt_mul_of_pos_left h1 hz
  calc z / (m * n + z ^ 2) * sqrt (m * a + z ^ 2 / 4)
      = z * (sqrt (m * a + z ^ 2 / 4) / (m * n + z ^ 2)) := by ring
    _ < z * (sqrt (a + z ^ 2 / 4) / (n + z ^ 2)) := h2
    _ = z / (n + z ^ 2) * sqrt (a + z ^ 2 / 4) := by ring

/-! ### the model function `ciWilson` at `Rex` -/

theorem new_ok {fl : ℝ → ℝ} (a b : RR fl) (h : a.val ≤ b.val) :
    Interval.new a b = .ok (.twoSided a b) := by
  have hg : gt a b = false := by
    rw [← Bool.not_eq_true, RR.gt_iff]; exact not_lt.mpr h
  simp [Interval.new, hg]

theorem new_err {fl : ℝ → ℝ} (a b : RR fl) (h : b.val < a.val) :
    Interval.new a b = .error .invalidBounds := by
  have hg : gt a b = true := by rw [RR.gt_iff]; exact h
  simp [Interval.new, hg]

/-- the three shapes `Proportion.finish` (and, on proportions, the clamped `Proportion.finishWilson`)
    returns, with ends given by the real functions -/
noncomputable def shape (conf : Confidence Rex) (n k z : ℝ) : Interval Rex :=
  match conf with
  | .twoSided _ => .twoSided ⟨lowerR n k z⟩ ⟨upperR n k z⟩
  | .upper _ => .twoSided ⟨lowerR n k z⟩ ⟨1⟩
  | .lower _ => .twoSided ⟨0⟩ ⟨upperR n k z⟩

theorem validLevel_iff (l : Rex) : Confidence.validLevel l = true ↔ 0 < l.val ∧ l.val < 1 := by
  simp [Confidence.validLevel]

theorem quantile_val (c : Confidence Rex) :
    c.quantile.val = match c with
      | .twoSided l => 1 - (1 - l.val) / 2
      | .upper l => l.val
      | .lower l => l.val := by
  cases c <;> simp [Confidence.quantile]
  norm_num

theorem probOk_of_valid (c : Confidence Rex) (h : Confidence.validLevel c.level = true) :
    probOk c.quantile = true := by
  rw [validLevel_iff] at h
  have hq := quantile_val c
  simp only [probOk, Bool.and_eq_true, RR.le_iff, RR.zero_val, RR.one_val]
  cases c <;> simp only [Confidence.level] at h <;> simp only at hq <;> rw [hq] <;>
    constructor <;> linarith [h.1, h.2]

/-- `ci_wilson` at exact arithmetic: for `2 ≤ k ≤ n − 2`, a probability the quantile routine accepts
    and a non-negative critical value, the call succeeds and returns the three shapes with the ends
    `lowerR`, `upperR`. -/
theorem ciWilson_eq (crit : Crit Rex) (conf : Confidence Rex) (n k : ℕ) (hk : 2 ≤ k)
    (hkn : k + 2 ≤ n) (hq : probOk conf.quantile = true)
    (hz : 0 ≤ (crit (.z conf.quantile)).val) :
    ciWilson crit conf n k = .ok (shape conf n k (crit (.z conf.quantile)).val) := by
  have h1 : ¬ (k > n) := by omega
  have h2 : ¬ (k < 2) := by omega
  have h3 : ¬ (n - k < 2) := by omega
  have hn : (0 : ℝ) < n := by exact_mod_cast (by omega : 0 < n)
  have hk0 : (0 : ℝ) ≤ k := by positivity
  have hkn' : (k : ℝ) ≤ n := by exact_mod_cast (by omega : k ≤ n)
  set z := (crit (.z conf.quantile)).val with hzdef
  have hlu := lowerR_le_upperR n k z hn hz
  have hl0 := lowerR_nonneg n k z hn hz hk0 hkn'
  have hu1 := upperR_le_one n k z hn hz hk0 hkn'
  simp only [ciWilson, h1, h2, h3, if_false, zValue, hq, if_true, Outcome.bind_ok]
  -- both roots are proportions, so the clamp of `ci_wilson` is the identity
  rw [finishWilson_eq_finish _ _ _ (by exact hl0) (by exact hu1) (by exact le_trans hlu hu1)
    (by exact le_trans hl0 hlu)]
  cases conf with
  | twoSided l =>
    simp only [finish, shape]
    rw [new_ok _ _ (by exact hlu)]; rfl
  | upper l =>
    simp only [finish, shape]
    rw [new_ok _ _ (by exact hlu.trans hu1)]; rfl
  | lower l =>
    simp only [finish, shape]
    rw [new_ok _ _ (by exact hl0.trans hlu)]; rfl

theorem flipped_quantile (c : Confidence Rex) : c.flipped.quantile = c.quantile := by
  cases c <;> rfl

/-- the mirror map `x ↦ 1 − x` on an interval, ends exchanged (the crate's `Sub`/`Neg` shape) -/
noncomputable def mirrorI (i : Interval Rex) : Interval Rex :=
  i.appliedFlipped (fun x => NumOps.sub NumOps.one x)

theorem centre_mirror_val (n k : ℕ) (hkn : k ≤ n) (hn : 0 < n) (z : Rex) :
    (wilsonCentre (Scalar.ofNat n : Rex) (Scalar.ofNat (n - k)) z).val
      = 1 - (wilsonCentre (Scalar.ofNat n : Rex) (Scalar.ofNat k) z).val := by
  have hn' : (0 : ℝ) < n := by exact_mod_cast hn
  have e : ((n - k : ℕ) : ℝ) = (n : ℝ) - k := by push_cast [Nat.cast_sub hkn]; ring
  have h1 := centreR_eq n (n - k) z.val
  have h2 := centreR_eq n k z.val
  have hN : (n : ℝ) + z.val ^ 2 ≠ 0 := by positivity
  have : centreR n ((n : ℝ) - k) z.val = 1 - centreR n k z.val := by
    rw [h1, h2]; field_simp; ring
  have e1 : (Scalar.ofNat (n - k) : Rex) = ⟨(n : ℝ) - k⟩ := RR.ext' (by simp [e])
  have e2 : (Scalar.ofNat n : Rex) = ⟨(n : ℝ)⟩ := rfl
  have e3 : (Scalar.ofNat k : Rex) = ⟨(k : ℝ)⟩ := rfl
  rw [e1, e2, e3]; exact this

theorem span_mirror_val (n k : ℕ) (hkn : k ≤ n) (z : Rex) :
    (wilsonSpan (Scalar.ofNat n : Rex) (Scalar.ofNat (n - k)) z).val
      = (wilsonSpan (Scalar.ofNat n : Rex) (Scalar.ofNat k) z).val := by
  have e : ((n - k : ℕ) : ℝ) = (n : ℝ) - k := by push_cast [Nat.cast_sub hkn]; ring
  have : spanR n ((n : ℝ) - k) z.val = spanR n k z.val := by
    rw [spanR_eq, spanR_eq, D_mirror]
  have e1 : (Scalar.ofNat (n - k) : Rex) = ⟨(n : ℝ) - k⟩ := RR.ext' (by simp [e])
  have e2 : (Scalar.ofNat n : Rex) = ⟨(n : ℝ)⟩ := rfl
  have e3 : (Scalar.ofNat k : Rex) = ⟨(k : ℝ)⟩ := rfl
  rw [e1, e2, e3]; exact this

/-- mirror symmetry of the model function itself: no hypothesis on the level or on the critical value
    (errors and the `inverse_cdf` panic are mirrored too) -/
theorem ciWilson_mirror (crit : Crit Rex) (conf : Confidence Rex) (n k : ℕ) (hk : 2 ≤ k)
    (hkn : k + 2 ≤ n) :
    ciWilson crit conf.flipped n (n - k) = (ciWilson crit conf n k).map mirrorI := by
  have h1 : ¬ (k > n) := by omega
  have h2 : ¬ (k < 2) := by omega
  have h3 : ¬ (n - k < 2) := by omega
  have h1' : ¬ (n - k > n) := by omega
  have h2' : ¬ (n - k < 2) := by omega
  have h3' : ¬ (n - (n - k) < 2) := by omega
  simp only [ciWilson, h1, h2, h3, h1', h3', if_false, zValue, flipped_quantile]
  by_cases hq : probOk conf.quantile = true
  swap
  · simp only [hq]; rfl
  simp only [hq, if_true, Outcome.bind_ok]
  set z := crit (.z conf.quantile) with hzdef
  have hc := centre_mirror_val n k (by omega) (by omega) z
  have hs := span_mirror_val n k (by omega) z
  generalize wilsonCentre (Scalar.ofNat n : Rex) (Scalar.ofNat (n - k)) z = c' at hc
  generalize wilsonSpan (Scalar.ofNat n : Rex) (Scalar.ofNat (n - k)) z = s' at hs
  generalize wilsonCentre (Scalar.ofNat n : Rex) (Scalar.ofNat k) z = c at hc
  generalize wilsonSpan (Scalar.ofNat n : Rex) (Scalar.ofNat k) z = s at hs
  -- the clamped ends mirror each other: `max (1 - c - s) 0 = 1 - min (c + s) 1` and
  -- `min (1 - c + s) 1 = 1 - max (c - s) 0`
  have hlo : (fmax (NumOps.sub c' s') (NumOps.zero : Rex)).val
      = 1 - (fmin (NumOps.add c s) (NumOps.one : Rex)).val := by
    rw [fmax_val, fmin_val]
    simp only [RR.sub_val, RR.add_val, RR.zero_val, RR.one_val, id, hc, hs]
    rcases le_total (c.val + s.val) 1 with h | h
    · rw [min_eq_left h, max_eq_left (by linarith)]; ring
    · rw [min_eq_right h, max_eq_right (by linarith)]; ring
  have hhi : (fmin (NumOps.add c' s') (NumOps.one : Rex)).val
      = 1 - (fmax (NumOps.sub c s) (NumOps.zero : Rex)).val := by
    rw [fmax_val, fmin_val]
    simp only [RR.sub_val, RR.add_val, RR.zero_val, RR.one_val, id, hc, hs]
    rcases le_total 0 (c.val - s.val) with h | h
    · rw [max_eq_left h, min_eq_left (by linarith)]; ring
    · rw [max_eq_right h, min_eq_right (by linarith)]; ring
  simp only [finishWilson]
  generalize fmax (NumOps.sub c' s') (NumOps.zero : Rex) = lo' at hlo
  generalize fmin (NumOps.add c' s') (NumOps.one : Rex) = hi' at hhi
  generalize fmin (NumOps.add c s) (NumOps.one : Rex) = hi at hlo
  generalize fmax (NumOps.sub c s) (NumOps.zero : Rex) = lo at hhi
  cases conf with
  | twoSided l =>
    simp only [Confidence.flipped]
    by_cases h : hi.val < lo.val
    · rw [new_err _ _ (by linarith), new_err _ _ (by linarith)]; rfl
    · have h : lo.val ≤ hi.val := not_lt.mp h
      rw [new_ok _ _ (by linarith), new_ok _ _ (by linarith)]
      simp only [liftI, Outcome.map, mirrorI, Interval.appliedFlipped]
      congr 2 <;> apply RR.ext' <;> simp <;> linarith
  | upper l =>
    simp only [Confidence.flipped]
    have a1 : (fmin lo (NumOps.one : Rex)).val ≤ (NumOps.one : Rex).val := by
      rw [fmin_val]; exact min_le_right _ _
    have a2 : (NumOps.zero : Rex).val ≤ (fmax hi' (NumOps.zero : Rex)).val := by
      rw [fmax_val]; exact le_max_right _ _
    rw [new_ok _ _ a1, new_ok _ _ a2]
    simp only [liftI, Outcome.map, mirrorI, Interval.appliedFlipped]
    congr 2 <;> apply RR.ext'
    · simp
    · simp only [fmax_val, fmin_val, RR.sub_val, RR.zero_val, RR.one_val, id]
      rw [hhi]
      rcases le_total lo.val 1 with h | h
      · rw [min_eq_left h, max_eq_left (by linarith)]
      · rw [min_eq_right h, max_eq_right (by linarith)]; ring
  | lower l =>
    simp only [Confidence.flipped]
    have a1 : (NumOps.zero : Rex).val ≤ (fmax hi (NumOps.zero : Rex)).val := by
      rw [fmax_val]; exact le_max_right _ _
    have a2 : (fmin lo' (NumOps.one : Rex)).val ≤ (NumOps.one : Rex).val := by
      rw [fmin_val]; exact min_le_right _ _
    rw [new_ok _ _ a1, new_ok _ _ a2]
    simp only [liftI, Outcome.map, mirrorI, Interval.appliedFlipped]
    congr 2 <;> apply RR.ext'
    · simp only [fmax_val, fmin_val, RR.sub_val, RR.zero_val, RR.one_val, id]
      rw [hlo]
      rcases le_total 0 hi.val with h | h
      · rw [max_eq_left h, min_eq_left (by linarith)]
      · rw [max_eq_right h, min_eq_right (by linarith)]; ring
    · simp

/-! ### the clamp of `ci_wilson` on a rounded carrier -/

theorem liftI_new_ok {fl : ℝ → ℝ} (a b : RR fl) (I : Interval (RR fl))
    (h : (liftI (Interval.new a b) : Outcome (Err (RR fl)) (Interval (RR fl))) = .ok I) :
    I = .twoSided a b ∧ a.val ≤ b.val := by
  by_cases hg : b.val < a.val
  · have hgt : gt a b = true := by rw [RR.gt_iff]; exact hg
    simp [Interval.new, hgt, liftI] at h
  · have hgt : gt a b = false := by rw [← Bool.not_eq_true, RR.gt_iff]; exact hg
    simp only [Interval.new, hgt, liftI] at h
    simp only [Bool.false_eq_true, if_false, Outcome.ok.injEq] at h
    exact ⟨h.symm, not_lt.mp hg⟩

/-- the clamped tail of `ci_wilson` on any rounded carrier: an `Ok` result is `[a, b]` with
    `0 ≤ a ≤ b ≤ 1` -/
theorem finishWilson_ok_unit {fl : ℝ → ℝ} (conf : Confidence (RR fl)) (m s : RR fl)
    (I : Interval (RR fl)) (h : finishWilson conf m s = .ok I) :
    ∃ a b : RR fl, I = .twoSided a b ∧ 0 ≤ a.val ∧ a.val ≤ b.val ∧ b.val ≤ 1 := by
  have hlo : 0 ≤ (fmax (NumOps.sub m s) (NumOps.zero : RR fl)).val := by
    rw [fmax_val]; exact le_max_right _ _
  have hhi : (fmin (NumOps.add m s) (NumOps.one : RR fl)).val ≤ 1 := by
    rw [fmin_val]; exact min_le_right _ _
  simp only [finishWilson] at h
  generalize fmax (NumOps.sub m s) (NumOps.zero : RR fl) = lo at hlo h
  generalize fmin (NumOps.add m s) (NumOps.one : RR fl) = hi at hhi h
  cases conf with
  | twoSided l =>
    obtain ⟨hI, hle⟩ := liftI_new_ok _ _ _ h
    exact ⟨_, _, hI, hlo, hle, hhi⟩
  | upper l =>
    obtain ⟨hI, hle⟩ := liftI_new_ok _ _ _ h
    refine ⟨_, _, hI, ?_, hle, le_rfl⟩
    rw [fmin_val]; exact le_min hlo (by simp)
  | lower l =>
    obtain ⟨hI, hle⟩ := liftI_new_ok _ _ _ h
    refine ⟨_, _, hI, le_rfl, hle, ?_⟩
    rw [fmax_val]; exact max_le hhi (by simp)

/-- every interval `ci_wilson` returns lies in `[0, 1]`, whatever the rounding function, the level
    and the value the quantile routine returns -/
theorem ciWilson_ok_unit {fl : ℝ → ℝ} (crit : Crit (RR fl)) (conf : Confidence (RR fl)) (n k : ℕ)
    (I : Interval (RR fl)) (h : ciWilson crit conf n k = .ok I) :
    ∃ a b : RR fl, I = .twoSided a b ∧ 0 ≤ a.val ∧ a.val ≤ b.val ∧ b.val ≤ 1 := by
  unfold ciWilson at h
  split_ifs at h with h1 h2 h3
  unfold zValue at h
  by_cases hp : probOk conf.quantile = true
  · simp only [hp, if_true, Outcome.bind_ok] at h
    exact finishWilson_ok_unit _ _ _ _ h
  · simp [hp] at h

/-! ### order statistics of a sorted list -/

section sorted
variable {α : Type} [LinearOrder α]

/-- in a sorted list the elements satisfying a downward-closed predicate form a prefix -/
theorem getElem_iff_lt_countP (P : α → Bool) (hP : ∀ a b, a ≤ b → P b = true → P a = true) :
    ∀ (s : List α), s.Pairwise (· ≤ ·) → ∀ (i : ℕ) (hi : i < s.length),
      (P s[i] = true ↔ i < s.countP P)
  | [], _, i, hi => absurd hi (by simp)
  | a :: t, hs, i, hi => by
    rw [List.pairwise_cons] at hs
    obtain ⟨ha, ht⟩ := hs
    by_cases hPa : P a = true
    · rw [List.countP_cons_of_pos hPa]
      cases i with
      | zero => simp [hPa]
      | succ j =>
        simp only [List.getElem_cons_succ]
        rw [getElem_iff_lt_countP P hP t ht j (by simpa using hi)]
        omega
    · have hall : ∀ b ∈ t, ¬ P b = true := fun b hb hPb => hPa (hP a b (ha b hb) hPb)
      have h0 : t.countP P = 0 := by rw [List.countP_eq_zero]; exact hall
      rw [List.countP_cons_of_neg hPa, h0]
      cases i with
      | zero => simp [hPa]
      | succ j =>
        simp only [List.getElem_cons_succ, Nat.not_lt_zero, iff_false]
        exact hall _ (List.getElem_mem _)

/-- the model's sort (`List.mergeSort` with the `≤` test) -/
def sortL (xs : List α) : List α := xs.mergeSort (fun a b => decide (a ≤ b))

theorem sortL_perm (xs : List α) : (sortL xs).Perm xs := List.mergeSort_perm _ _

theorem sortL_length (xs : List α) : (sortL xs).length = xs.length := List.length_mergeSort _

theorem sortL_sorted (xs : List α) : (sortL xs).Pairwise (· ≤ ·) := by
  have h := List.pairwise_mergeSort (le := fun a b : α => decide (a ≤ b))
    (by intro a b c; simp only [decide_eq_true_eq]; exact le_trans)
    (by intro a b; simp only [Bool.or_eq_true, decide_eq_true_eq]; exact le_total a b) xs
  simpa [sortL] using h

theorem sortL_le_iff (xs : List α) (ξ : α) (i : ℕ) (hi : i < (sortL xs).length) :
    (sortL xs)[i] ≤ ξ ↔ i + 1 ≤ xs.countP (fun x => decide (x ≤ ξ)) := by
  have h := getElem_iff_lt_countP (fun x => decide (x ≤ ξ))
    (by intro a b hab; simp only [decide_eq_true_eq]; exact fun hb => le_trans hab hb)
    (sortL xs) (sortL_sorted xs) i hi
  rw [(sortL_perm xs).countP_eq] at h
  simpa [Nat.succ_le_iff] using h

theorem le_sortL_iff (xs : List α) (ξ : α) (i : ℕ) (hi : i < (sortL xs).length) :
    ξ ≤ (sortL xs)[i] ↔ xs.countP (fun x => decide (x < ξ)) ≤ i := by
  have h := getElem_iff_lt_countP (fun x => decide (x < ξ))
    (by intro a b hab; simp only [decide_eq_true_eq]; exact fun hb => lt_of_le_of_lt hab hb)
    (sortL xs) (sortL_sorted xs) i hi
  rw [(sortL_perm xs).countP_eq] at h
  simp only [decide_eq_true_eq] at h
  rw [← not_lt, h, not_lt]

attribute [local instance] Cmp.ofLinearOrder in
/-- on a linear order the model's `sortData` never panics and is `sortL` -/
theorem sortData_eq {W : Type} [Scalar W] (xs : List α) :
    Quantile.sortData (W := W) xs = .ok (sortL xs) := by
  have h : xs.any (fun x => !(Cmp.le x x)) = false := by
    rw [List.any_eq_false]; intro x _; simp [Cmp.le]
  simp only [Quantile.sortData, h, Bool.and_false]
  rfl

end sorted

/-! ### coverage bookkeeping on the model -/

theorem contains_twoSided (a b : Rex) (p : ℝ) :
    (Interval.twoSided a b).contains (⟨p⟩ : Rex) = true ↔ a.val ≤ p ∧ p ≤ b.val := by
  simp [Interval.contains]

/-- does the interval returned by `ci_wilson` contain `p`?  An `.err`/panic outcome covers nothing. -/
noncomputable def coversB (crit : Crit Rex) (conf : Confidence Rex) (n k : ℕ) (p : ℝ) : Bool :=
  match ciWilson crit conf n k with
  | .ok i => i.contains ⟨p⟩
  | _ => false

theorem coversB_of_ok {crit : Crit Rex} {conf : Confidence Rex} {n k : ℕ} {i : Interval Rex}
    (h : ciWilson crit conf n k = .ok i) (p : ℝ) : coversB crit conf n k p = i.contains ⟨p⟩ := by
  simp [coversB, h]

/-- outside `2 ≤ k ≤ n − 2` the call is rejected, so nothing is covered -/
theorem coversB_outside (crit : Crit Rex) (conf : Confidence Rex) (n k : ℕ) (p : ℝ)
    (h : ¬ (2 ≤ k ∧ k + 2 ≤ n)) : coversB crit conf n k p = false := by
  unfold coversB ciWilson
  by_cases h1 : k > n
  · simp [h1]
  by_cases h2 : k < 2
  · simp [h1, h2]
  have h3 : n - k < 2 := by omega
  simp [h1, h2, h3]

end StatsCI.WilsonMono
