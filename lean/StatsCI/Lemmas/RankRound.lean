/-
  StatsCI.Lemmas.RankRound — helper lemmas for C03R: how far the ranks and the success count
  computed in rounded arithmetic `RR fl` can be from the ones computed in exact arithmetic.

  * `WithinOne i j`: two positions at most one apart; `IntervalWithinOne`: two rank intervals of
    the same kind whose ranks are pairwise `WithinOne`.
  * floors / rounds of two reals at distance `≤ δ`: equal when no integer (half-integer) lies
    within `δ`, at most one apart when `δ < 1`.
  * `rankFl fl n p = min ⌊fl (p · fl n)⌋₊ (n − 1)`, `succFl fl q n = (round (fl (q · fl n))).toNat`:
    what `Quantile.index` / the `successes` line of `Quantile.ciIndices` compute at `RR fl`
    (bridge lemmas `index_fl`, `roundToNat_fl`), and `prod_err`, the error radius
    `delta u ε p n = n·ε + u·n·(p + ε)` of the computed product.
  * the plumbing of `Quantile.ciIndices` at an arbitrary `RR fl`: `finishWilson_fl` (the clamped
    bounds `max (fl (m − s)) 0`, `min (fl (m + s)) 1`), `ciWilson_ok_inv` (an `Ok` result of
    `ci_wilson` is `[a, b]` with `0 ≤ a ≤ b ≤ 1`), `ciIndices_of_wilson`, `ciIndices_ok_inv`,
    `ciIndices_ne_indexError` (no `IndexError` at any rounding function).
  * `finishWilson_close`, `ciWilson_close`: the clamp never moves a computed bound further from
    an exact bound that is a proportion, so closeness of the unclamped bounds gives `WilsonClose`.
-/
import StatsCI.Lemmas.Quantile

namespace StatsCI
namespace RankRound
open NumOps Scalar QSpec

/-! ### positions at most one apart -/

/-- two positions at most one apart -/
def WithinOne (i j : ℕ) : Prop := i = j ∨ i = j + 1 ∨ i + 1 = j

theorem withinOne_iff_abs (i j : ℕ) : WithinOne i j ↔ |(i : ℤ) - j| ≤ 1 := by
  unfold WithinOne; rw [abs_le]; omega

theorem withinOne_iff_mem (i j : ℕ) : WithinOne i j ↔ (i : ℤ) - j ∈ ({-1, 0, 1} : Set ℤ) := by
  unfold WithinOne
  simp only [Set.mem_insert_iff, Set.mem_singleton_iff]
  omega

theorem WithinOne.refl (i : ℕ) : WithinOne i i := Or.inl rfl

theorem WithinOne.symm {i j : ℕ} (h : WithinOne i j) : WithinOne j i := by
  unfold WithinOne at *; omega

/-- clamping is 1-Lipschitz -/
theorem WithinOne.min {i j : ℕ} (h : WithinOne i j) (c : ℕ) : WithinOne (min i c) (min j c) := by
  unfold WithinOne at *; omega

/-- two rank intervals of the same kind whose ranks are pairwise at most one position apart -/
def IntervalWithinOne : Interval ℕ → Interval ℕ → Prop
  | .twoSided l h, .twoSided l' h' => WithinOne l l' ∧ WithinOne h h'
  | .upper l, .upper l' => WithinOne l l'
  | .lower h, .lower h' => WithinOne h h'
  | _, _ => False

theorem IntervalWithinOne.refl (I : Interval ℕ) : IntervalWithinOne I I := by
  cases I <;> simp [IntervalWithinOne, WithinOne.refl]

/-- `IntervalWithinOne` intervals have the same kind -/
theorem IntervalWithinOne.kind {I J : Interval ℕ} (h : IntervalWithinOne I J) :
    I.isTwoSided = J.isTwoSided ∧ I.isUpper = J.isUpper ∧ I.isLower = J.isLower := by
  cases I <;> cases J <;> simp [IntervalWithinOne] at h <;>
    simp [Interval.isTwoSided, Interval.isUpper, Interval.isLower]

/-! ### floors of two nearby reals -/

theorem natFloor_eq_of_close {x y δ : ℝ} (h : |x - y| ≤ δ) (hf : ⌊y - δ⌋₊ = ⌊y + δ⌋₊) :
    ⌊x⌋₊ = ⌊y⌋₊ := by
  have hδ : 0 ≤ δ := le_trans (abs_nonneg _) h
  obtain ⟨h1, h2⟩ := abs_le.mp h
  have a1 : ⌊y - δ⌋₊ ≤ ⌊x⌋₊ := Nat.floor_mono (by linarith)
  have a2 : ⌊x⌋₊ ≤ ⌊y + δ⌋₊ := Nat.floor_mono (by linarith)
  have b1 : ⌊y - δ⌋₊ ≤ ⌊y⌋₊ := Nat.floor_mono (by linarith)
  have b2 : ⌊y⌋₊ ≤ ⌊y + δ⌋₊ := Nat.floor_mono (by linarith)
  omega

/-- the clamped version: only the clamped floors of `y ∓ δ` have to agree -/
theorem clampFloor_eq_of_close {x y δ : ℝ} (c : ℕ) (h : |x - y| ≤ δ)
    (hf : min ⌊y - δ⌋₊ c = min ⌊y + δ⌋₊ c) : min ⌊x⌋₊ c = min ⌊y⌋₊ c := by
  have hδ : 0 ≤ δ := le_trans (abs_nonneg _) h
  obtain ⟨h1, h2⟩ := abs_le.mp h
  have a1 : ⌊y - δ⌋₊ ≤ ⌊x⌋₊ := Nat.floor_mono (by linarith)
  have a2 : ⌊x⌋₊ ≤ ⌊y + δ⌋₊ := Nat.floor_mono (by linarith)
  have b1 : ⌊y - δ⌋₊ ≤ ⌊y⌋₊ := Nat.floor_mono (by linarith)
  have b2 : ⌊y⌋₊ ≤ ⌊y + δ⌋₊ := Nat.floor_mono (by linarith)
  omega

theorem intFloor_eq_of_close {x y δ : ℝ} (h : |x - y| ≤ δ) (hf : ⌊y - δ⌋ = ⌊y + δ⌋) :
    ⌊x⌋ = ⌊y⌋ := by
  have hδ : 0 ≤ δ := le_trans (abs_nonneg _) h
  obtain ⟨h1, h2⟩ := abs_le.mp h
  have a1 : ⌊y - δ⌋ ≤ ⌊x⌋ := Int.floor_mono (by linarith)
  have a2 : ⌊x⌋ ≤ ⌊y + δ⌋ := Int.floor_mono (by linarith)
  have b1 : ⌊y - δ⌋ ≤ ⌊y⌋ := Int.floor_mono (by linarith)
  have b2 : ⌊y⌋ ≤ ⌊y + δ⌋ := Int.floor_mono (by linarith)
  omega

/-- agreeing integer floors force agreeing natural floors -/
theorem natFloor_eq_of_intFloor_eq {a b : ℝ} (h : ⌊a⌋ = ⌊b⌋) : ⌊a⌋₊ = ⌊b⌋₊ := by
  rw [← Int.floor_toNat, ← Int.floor_toNat, h]

theorem intFloor_sub_le_one {x y : ℝ} (h : |x - y| < 1) : |⌊x⌋ - ⌊y⌋| ≤ 1 := by
  obtain ⟨h1, h2⟩ := abs_lt.mp h
  have x1 := Int.floor_le x
  have x2 := Int.lt_floor_add_one x
  have y1 := Int.floor_le y
  have y2 := Int.lt_floor_add_one y
  have a : (⌊x⌋ : ℝ) < ((⌊y⌋ + 2 : ℤ) : ℝ) := by push_cast; linarith
  have b : (⌊y⌋ : ℝ) < ((⌊x⌋ + 2 : ℤ) : ℝ) := by push_cast; linarith
  have a' : ⌊x⌋ < ⌊y⌋ + 2 := by exact_mod_cast a
  have b' : ⌊y⌋ < ⌊x⌋ + 2 := by exact_mod_cast b
  rw [abs_le]; omega

theorem natFloor_withinOne {x y : ℝ} (h : |x - y| < 1) : WithinOne ⌊x⌋₊ ⌊y⌋₊ := by
  have := abs_le.mp (intFloor_sub_le_one h)
  rw [← Int.floor_toNat, ← Int.floor_toNat]
  unfold WithinOne; omega

/-! ### rounds of two nearby reals -/

theorem round_eq_of_close {x y δ : ℝ} (h : |x - y| ≤ δ)
    (hf : ⌊y + 1 / 2 - δ⌋ = ⌊y + 1 / 2 + δ⌋) : round x = round y := by
  rw [round_eq, round_eq]
  exact intFloor_eq_of_close (δ := δ) (by simpa using h) hf

theorem round_sub_le_one {x y : ℝ} (h : |x - y| < 1) : |round x - round y| ≤ 1 := by
  rw [round_eq, round_eq]
  exact intFloor_sub_le_one (by simpa using h)

theorem round_toNat_withinOne {x y : ℝ} (h : |x - y| < 1) :
    WithinOne (round x).toNat (round y).toNat := by
  have := abs_le.mp (round_sub_le_one h)
  unfold WithinOne; omega

/-- a real within `1/2` of an integer rounds to it -/
theorem round_eq_of_near {x : ℝ} {m : ℤ} (h : |x - m| < 1 / 2) : round x = m := by
  obtain ⟨h1, h2⟩ := abs_lt.mp h
  rw [round_eq, Int.floor_eq_iff]
  constructor <;> linarith

/-! ### what the model computes at `RR fl` -/

variable {fl : ℝ → ℝ}

/-- the rank `Quantile.index` computes at `RR fl`: `min ⌊fl (p · fl n)⌋ (n − 1)` -/
noncomputable def rankFl (fl : ℝ → ℝ) (n : ℕ) (p : ℝ) : ℕ := min ⌊fl (p * fl n)⌋₊ (n - 1)

/-- the success count `Quantile.ciIndices` computes at `RR fl`: `round (fl (q · fl n))` -/
noncomputable def succFl (fl : ℝ → ℝ) (q : ℝ) (n : ℕ) : ℕ := (round (fl (q * fl n))).toNat

theorem rankFl_id (n : ℕ) (p : ℝ) : rankFl id n p = rank n p := rfl

theorem succFl_id (q : ℝ) (n : ℕ) : succFl id q n = successes q n := rfl

theorem rankFl_le (n : ℕ) (p : ℝ) : rankFl fl n p ≤ n - 1 := min_le_right _ _

/-- `Stats::index` at `RR fl`, all branches -/
theorem index_fl (n : ℕ) (p : RR fl) :
    Quantile.index n p =
      if n = 0 then .err (.tooFewSamples n)
      else if p.val < 0 ∨ 1 < p.val then .err (.invalidQuantile p)
      else .ok (rankFl fl n p.val) := by
  simp [Quantile.index, rankFl]

theorem index_fl_ok (n : ℕ) (p : RR fl) (hn : n ≠ 0) (h0 : 0 ≤ p.val) (h1 : p.val ≤ 1) :
    Quantile.index n p = .ok (rankFl fl n p.val) := by
  rw [index_fl, if_neg hn, if_neg (not_or.mpr ⟨not_lt.mpr h0, not_lt.mpr h1⟩)]

/-- the `successes` line of `ci_indices` at `RR fl` -/
theorem roundToNat_fl (q : RR fl) (n : ℕ) :
    roundToNat (mul q (Scalar.ofNat n : RR fl)) = succFl fl q.val n := by
  simp [succFl]

/-- error radius of the computed product `fl (p̃ · n)` about `p · n` when `|p̃ − p| ≤ ε` -/
def delta (u ε p : ℝ) (n : ℕ) : ℝ := n * ε + u * n * (p + ε)

theorem delta_nonneg {u ε p : ℝ} (n : ℕ) (hu : 0 ≤ u) (hε : 0 ≤ ε) (hp : 0 ≤ p) :
    0 ≤ delta u ε p n := by
  unfold delta; positivity

/-- `p ≤ 1` and `(ε + u (1 + ε)) n < 1` make the radius smaller than one -/
theorem delta_lt_one {u ε p : ℝ} (n : ℕ) (hu : 0 ≤ u) (hp1 : p ≤ 1)
    (hs : (ε + u * (1 + ε)) * n < 1) : delta u ε p n < 1 := by
  unfold delta
  have hn0 : (0 : ℝ) ≤ n := Nat.cast_nonneg n
  have h : u * n * (p + ε) ≤ u * n * (1 + ε) :=
    mul_le_mul_of_nonneg_left (by linarith) (mul_nonneg hu hn0)
  nlinarith

/-- the product computed in `RR fl` from an `ε`-perturbed factor is within `delta` of the exact
    product -/
theorem prod_err {u ε p pt : ℝ} {n : ℕ} (hfl : ∀ x, |fl x - x| ≤ u * |x|) (hu : 0 ≤ u)
    (hn : fl n = n) (hp : 0 ≤ p) (hpp : |pt - p| ≤ ε) :
    |fl (pt * fl n) - p * n| ≤ delta u ε p n := by
  rw [hn]; unfold delta
  have hn0 : (0 : ℝ) ≤ n := Nat.cast_nonneg n
  have h1 := hfl (pt * n)
  have h2 : |pt * n| = |pt| * n := by rw [abs_mul, abs_of_nonneg hn0]
  have h3 : |pt| ≤ p + ε := by
    have := abs_le.mp hpp
    rw [abs_le]; constructor <;> linarith
  have h4 : u * (|pt| * n) ≤ u * ((p + ε) * n) :=
    mul_le_mul_of_nonneg_left (mul_le_mul_of_nonneg_right h3 hn0) hu
  have h5 : |pt * n - p * n| ≤ ε * n := by
    rw [← sub_mul, abs_mul, abs_of_nonneg hn0]
    exact mul_le_mul_of_nonneg_right hpp hn0
  have h6 : |fl (pt * n) - p * n| ≤ |fl (pt * n) - pt * n| + |pt * n - p * n| :=
    abs_sub_le _ _ _
  rw [h2] at h1
  linarith

/-! ### rank transfer -/

section transfer
variable {u ε p pt : ℝ} {n : ℕ}

/-- equal ranks when the clamped floors of `p·n ∓ delta` agree -/
theorem rankFl_eq_rank (hfl : ∀ x, |fl x - x| ≤ u * |x|) (hu : 0 ≤ u) (hn : fl n = n)
    (hp : 0 ≤ p) (hpp : |pt - p| ≤ ε)
    (hf : min ⌊p * n - delta u ε p n⌋₊ (n - 1) = min ⌊p * n + delta u ε p n⌋₊ (n - 1)) :
    rankFl fl n pt = rank n p :=
  clampFloor_eq_of_close (n - 1) (prod_err hfl hu hn hp hpp) hf

/-- ranks at most one position apart when `delta < 1` -/
theorem rankFl_withinOne (hfl : ∀ x, |fl x - x| ≤ u * |x|) (hu : 0 ≤ u) (hn : fl n = n)
    (hp : 0 ≤ p) (hpp : |pt - p| ≤ ε) (hδ : delta u ε p n < 1) :
    WithinOne (rankFl fl n pt) (rank n p) :=
  (natFloor_withinOne (lt_of_le_of_lt (prod_err hfl hu hn hp hpp) hδ)).min (n - 1)

/-- success counts: equal when no half-integer lies within `delta` of `q·n` -/
theorem succFl_eq_successes (hfl : ∀ x, |fl x - x| ≤ u * |x|) (hu : 0 ≤ u) (hn : fl n = n)
    (hp : 0 ≤ p) (hpp : |pt - p| ≤ ε)
    (hf : ⌊p * n + 1 / 2 - delta u ε p n⌋ = ⌊p * n + 1 / 2 + delta u ε p n⌋) :
    succFl fl pt n = successes p n := by
  unfold succFl successes
  rw [round_eq_of_close (prod_err hfl hu hn hp hpp) hf]

/-- success counts at most one apart when `delta < 1` -/
theorem succFl_withinOne (hfl : ∀ x, |fl x - x| ≤ u * |x|) (hu : 0 ≤ u) (hn : fl n = n)
    (hp : 0 ≤ p) (hpp : |pt - p| ≤ ε) (hδ : delta u ε p n < 1) :
    WithinOne (succFl fl pt n) (successes p n) :=
  round_toNat_withinOne (lt_of_le_of_lt (prod_err hfl hu hn hp hpp) hδ)

/-- both success counts are `m` when `q·n` is within `1/2 − delta` of the natural number `m` -/
theorem succ_eq_of_near (hfl : ∀ x, |fl x - x| ≤ u * |x|) (hu : 0 ≤ u) (hn : fl n = n)
    (hp : 0 ≤ p) (hpp : |pt - p| ≤ ε) (m : ℕ) (hm : |p * n - m| + delta u ε p n < 1 / 2) :
    succFl fl pt n = m ∧ successes p n = m := by
  have hε : 0 ≤ ε := le_trans (abs_nonneg _) hpp
  have hd := delta_nonneg (u := u) (ε := ε) (p := p) n hu hε hp
  have he := prod_err hfl hu hn hp hpp
  have t : |fl (pt * fl n) - m| ≤ |fl (pt * fl n) - p * n| + |p * n - m| := abs_sub_le _ _ _
  have r1 : round (fl (pt * fl n)) = (m : ℤ) :=
    round_eq_of_near (by push_cast; linarith)
  have r2 : round (p * (n : ℝ)) = (m : ℤ) :=
    round_eq_of_near (by push_cast; linarith)
  unfold succFl successes
  rw [r1, r2]; simp

end transfer

/-! ### the plumbing of `ciIndices` at an arbitrary `RR fl` -/

section plumbing
open Proportion

/-- `Proportion.finish` only ever succeeds with an ordered two-sided interval -/
theorem finish_ok_inv (conf : Confidence (RR fl)) (m s : RR fl) (I : Interval (RR fl))
    (h : Proportion.finish conf m s = .ok I) : ∃ a b, I = .twoSided a b ∧ a.val ≤ b.val := by
  cases conf <;> simp only [Proportion.finish, Interval.new] at h <;>
    split_ifs at h with hg <;> simp only [liftI] at h <;> cases h <;>
    exact ⟨_, _, rfl, by simpa using hg⟩

/-- `Proportion.finishWilson` at `RR fl`, all branches: the bounds are the clamped numbers
    `max (fl (m − s)) 0` and `min (fl (m + s)) 1` (and the far ends `1`, `0`); `Interval::new`
    rejects them exactly when they are inverted -/
theorem finishWilson_fl (conf : Confidence (RR fl)) (m s : RR fl) :
    Proportion.finishWilson conf m s =
      match (generalizing := false) conf with
      | .twoSided _ =>
          if min (fl (m.val + s.val)) 1 < max (fl (m.val - s.val)) 0 then
            .err (.interval .invalidBounds)
          else .ok (.twoSided (inj (max (fl (m.val - s.val)) 0)) (inj (min (fl (m.val + s.val)) 1)))
      | .upper _ =>
          .ok (.twoSided (inj (min (max (fl (m.val - s.val)) 0) 1)) (inj 1))
      | .lower _ =>
          .ok (.twoSided (inj 0) (inj (max (min (fl (m.val + s.val)) 1) 0))) := by
  have e1 : fmax (sub m s) (zero : RR fl) = inj (max (fl (m.val - s.val)) 0) := by
    apply RR.ext'; rw [fmax_val]; rfl
  have e2 : fmin (add m s) (one : RR fl) = inj (min (fl (m.val + s.val)) 1) := by
    apply RR.ext'; rw [fmin_val]; rfl
  have e3 : fmin (inj (max (fl (m.val - s.val)) 0) : RR fl) (one : RR fl)
      = inj (min (max (fl (m.val - s.val)) 0) 1) := by
    apply RR.ext'; rw [fmin_val]; rfl
  have e4 : fmax (inj (min (fl (m.val + s.val)) 1) : RR fl) (zero : RR fl)
      = inj (max (min (fl (m.val + s.val)) 1) 0) := by
    apply RR.ext'; rw [fmax_val]; rfl
  cases conf with
  | twoSided l =>
    simp only [Proportion.finishWilson, e1, e2, Interval.new, RR.gt_iff, inj_val]
    split_ifs <;> rfl
  | upper l =>
    simp only [Proportion.finishWilson, e1, e3, Interval.new, RR.gt_iff, inj_val, RR.one_val]
    rw [if_neg (not_lt.mpr (min_le_right _ _))]; rfl
  | lower l =>
    simp only [Proportion.finishWilson, e2, e4, Interval.new, RR.gt_iff, inj_val, RR.zero_val]
    rw [if_neg (not_lt.mpr (le_max_right _ _))]; rfl

/-- `Proportion.finishWilson` only ever succeeds with an ordered two-sided interval of
    proportions: both bounds lie in `[0, 1]`, whatever the rounding function does -/
theorem finishWilson_ok_inv (conf : Confidence (RR fl)) (m s : RR fl) (I : Interval (RR fl))
    (h : Proportion.finishWilson conf m s = .ok I) :
    ∃ a b, I = .twoSided a b ∧ 0 ≤ a.val ∧ a.val ≤ b.val ∧ b.val ≤ 1 := by
  rw [finishWilson_fl] at h
  cases conf with
  | twoSided l =>
    simp only at h
    split_ifs at h with hg
    cases h
    exact ⟨_, _, rfl, le_max_right _ _, not_lt.mp hg, min_le_right _ _⟩
  | upper l =>
    simp only at h
    cases h
    exact ⟨_, _, rfl, le_min (le_max_right _ _) zero_le_one, min_le_right _ _, le_refl _⟩
  | lower l =>
    simp only at h
    cases h
    exact ⟨_, _, rfl, le_refl _, le_max_right _ _, max_le (min_le_right _ _) zero_le_one⟩

/-- the only documented error `Proportion.finishWilson` can return is `InvalidBounds` -/
theorem finishWilson_err_inv (conf : Confidence (RR fl)) (m s : RR fl) (e : Err (RR fl))
    (h : Proportion.finishWilson conf m s = .err e) : e = .interval .invalidBounds := by
  rw [finishWilson_fl] at h
  cases conf <;> simp only at h
  · split_ifs at h <;> cases h <;> rfl
  · cases h
  · cases h

/-- `ci_wilson` only ever succeeds with an ordered two-sided interval whose bounds are
    proportions (`0 ≤ a ≤ b ≤ 1`): the clamp of `ci_wilson` holds at every rounding function -/
theorem ciWilson_ok_inv (crit : Crit (RR fl)) (conf : Confidence (RR fl)) (n k : ℕ)
    (I : Interval (RR fl)) (h : Proportion.ciWilson crit conf n k = .ok I) :
    ∃ a b, I = .twoSided a b ∧ 0 ≤ a.val ∧ a.val ≤ b.val ∧ b.val ≤ 1 := by
  simp only [Proportion.ciWilson] at h
  split_ifs at h
  cases hz : zValue crit conf with
  | ok z => rw [hz, Outcome.bind_ok] at h; exact finishWilson_ok_inv _ _ _ _ h
  | err e => rw [hz] at h; cases h
  | panic t => rw [hz] at h; cases h

/-- `ci_wilson` never returns an `IndexError` -/
theorem ciWilson_ne_indexError (crit : Crit (RR fl)) (conf : Confidence (RR fl)) (n k : ℕ)
    (x : RR fl) (m : ℕ) : Proportion.ciWilson crit conf n k ≠ .err (.indexError x m) := by
  intro h
  simp only [Proportion.ciWilson] at h
  split_ifs at h
  · cases h
  · cases h
  · cases h
  · cases hz : zValue crit conf with
    | ok z =>
      rw [hz, Outcome.bind_ok] at h
      have := finishWilson_err_inv _ _ _ _ h
      cases this
    | err e =>
      simp only [zValue] at hz
      split_ifs at hz
    | panic t => rw [hz] at h; cases h

variable (crit : Crit (RR fl)) (conf : Confidence (RR fl)) (n : ℕ) (q : RR fl)

/-- the outcome of `ci_indices` at `RR fl` once `ci_wilson` has produced `[a, b]`: the ranks of
    `a` and `b` in the shape of the confidence. (`ci_wilson` clamps its bounds into `[0, 1]`, so the
    two `IndexError` tests of `ci_indices` and the range test of `Stats::index` always pass.) -/
theorem ciIndices_of_wilson (hq : 0 < q.val ∧ q.val < 1) (hn4 : 4 ≤ n) (a b : RR fl)
    (hW : Proportion.ciWilson crit conf n (succFl fl q.val n) = .ok (.twoSided a b)) :
    Quantile.ciIndices crit conf n q =
      match (generalizing := false) conf with
        | .twoSided _ =>
            if rankFl fl n b.val < rankFl fl n a.val then .err (.interval .invalidBounds)
            else .ok (.twoSided (rankFl fl n a.val) (rankFl fl n b.val))
        | .upper _ => .ok (.upper (rankFl fl n a.val))
        | .lower _ => .ok (.lower (rankFl fl n b.val)) := by
  obtain ⟨a', b', hab, ha0, hle, hb1⟩ := ciWilson_ok_inv crit conf n _ _ hW
  cases hab
  have hn0 : n ≠ 0 := by omega
  unfold Quantile.ciIndices
  rw [roundToNat_fl]
  dsimp only
  have hb : (gt q (zero : RR fl) && lt q (one : RR fl)) = true := by simpa using hq
  simp only [hb, Bool.not_true, Bool.false_eq_true, if_false, if_neg (not_lt.mpr hn4), hW,
    Outcome.bind_ok, Interval.toPair, RR.lt_iff, RR.gt_iff, RR.zero_val, RR.one_val]
  rw [if_neg (not_lt.mpr ha0), if_neg (not_lt.mpr hb1)]
  rw [index_fl_ok n a hn0 ha0 (le_trans hle hb1), index_fl_ok n b hn0 (le_trans ha0 hle) hb1]
  simp only [Outcome.bind_ok]
  cases conf <;> rfl

/-- `ci_indices` at `RR fl` never returns an `IndexError`, whatever the rounding function: the
    clamp of `ci_wilson` keeps both computed bounds inside `[0, 1]` -/
theorem ciIndices_ne_indexError (x : RR fl) (m : ℕ) :
    Quantile.ciIndices crit conf n q ≠ .err (.indexError x m) := by
  intro h
  by_cases hq : 0 < q.val ∧ q.val < 1
  swap
  · have hb : (gt q (zero : RR fl) && lt q (one : RR fl)) = false := by
      rw [Bool.eq_false_iff]; intro hb; exact hq (by simpa using hb)
    simp [Quantile.ciIndices, hb] at h
  have hb : (gt q (zero : RR fl) && lt q (one : RR fl)) = true := by simpa using hq
  by_cases hn4 : n < 4
  · simp [Quantile.ciIndices, hb, hn4] at h
  have hn4' : 4 ≤ n := not_lt.mp hn4
  cases hW : Proportion.ciWilson crit conf n (succFl fl q.val n) with
  | err e =>
    unfold Quantile.ciIndices at h
    rw [roundToNat_fl] at h
    simp only [hb, Bool.not_true, Bool.false_eq_true, if_false, if_neg hn4, hW,
      Outcome.bind_err] at h
    cases h
    exact ciWilson_ne_indexError crit conf n _ x m hW
  | panic t =>
    unfold Quantile.ciIndices at h
    rw [roundToNat_fl] at h
    simp [hb, hn4, hW] at h
  | ok J =>
    obtain ⟨a, b, rfl, -, -, -⟩ := ciWilson_ok_inv crit conf n _ _ hW
    rw [ciIndices_of_wilson crit conf n q hq hn4' a b hW] at h
    cases conf with
    | twoSided l => simp only at h; split_ifs at h; cases h
    | upper l => simp only at h; cases h
    | lower l => simp only at h; cases h

/-- what a successful `ci_indices` at `RR fl` went through -/
theorem ciIndices_ok_inv (I : Interval ℕ) (h : Quantile.ciIndices crit conf n q = .ok I) :
    (0 < q.val ∧ q.val < 1) ∧ 4 ≤ n ∧ ∃ a b : RR fl,
      Proportion.ciWilson crit conf n (succFl fl q.val n) = .ok (.twoSided a b) ∧
      0 ≤ a.val ∧ a.val ≤ b.val ∧ b.val ≤ 1 ∧
      I = (match (generalizing := false) conf with
           | .twoSided _ => .twoSided (rankFl fl n a.val) (rankFl fl n b.val)
           | .upper _ => .upper (rankFl fl n a.val)
           | .lower _ => .lower (rankFl fl n b.val)) ∧
      (conf.isTwoSided = true → rankFl fl n a.val ≤ rankFl fl n b.val) := by
  by_cases hq : 0 < q.val ∧ q.val < 1
  swap
  · have hb : (gt q (zero : RR fl) && lt q (one : RR fl)) = false := by
      rw [Bool.eq_false_iff]; intro hb; exact hq (by simpa using hb)
    simp [Quantile.ciIndices, hb] at h
  have hb : (gt q (zero : RR fl) && lt q (one : RR fl)) = true := by simpa using hq
  by_cases hn4 : n < 4
  · simp [Quantile.ciIndices, hb, hn4] at h
  have hn4' : 4 ≤ n := not_lt.mp hn4
  refine ⟨hq, hn4', ?_⟩
  cases hW : Proportion.ciWilson crit conf n (succFl fl q.val n) with
  | err e =>
    exfalso
    unfold Quantile.ciIndices at h
    rw [roundToNat_fl] at h
    simp [hb, hn4, hW] at h
  | panic t =>
    exfalso
    unfold Quantile.ciIndices at h
    rw [roundToNat_fl] at h
    simp [hb, hn4, hW] at h
  | ok J =>
    obtain ⟨a, b, rfl, ha0, hle, hb1⟩ := ciWilson_ok_inv crit conf n _ _ hW
    rw [ciIndices_of_wilson crit conf n q hq hn4' a b hW] at h
    refine ⟨a, b, rfl, ha0, hle, hb1, ?_⟩
    cases conf with
    | twoSided l =>
      simp only at h
      by_cases ho : rankFl fl n b.val < rankFl fl n a.val
      · rw [if_pos ho] at h; cases h
      rw [if_neg ho] at h
      cases h
      exact ⟨rfl, fun _ => not_lt.mp ho⟩
    | upper l => simp only at h; cases h; exact ⟨rfl, by simp [Confidence.isTwoSided]⟩
    | lower l => simp only at h; cases h; exact ⟨rfl, by simp [Confidence.isTwoSided]⟩

end plumbing

/-! ### vocabulary of the C03R statements -/

/-- the floating-point hypotheses: relative error `u` per operation, naturals up to `n` exact -/
structure Rounds (fl : ℝ → ℝ) (u : ℝ) (n : ℕ) : Prop where
  nonneg : 0 ≤ u
  err : ∀ x, |fl x - x| ≤ u * |x|
  nat : ∀ m : ℕ, m ≤ n → fl m = m

/-- exact arithmetic meets the hypotheses for every `u ≥ 0` -/
theorem rounds_id {u : ℝ} (hu : 0 ≤ u) (n : ℕ) : Rounds id u n :=
  ⟨hu, fun x => by simpa using mul_nonneg hu (abs_nonneg x), fun _ _ => rfl⟩

/-- the Wilson bounds computed at `RR fl` are within `ε` of the exact ones (whenever both
    computations succeed) -/
def WilsonClose (ε : ℝ) (rF : Outcome (Err (RR fl)) (Interval (RR fl)))
    (r : Outcome (Err Rex) (Interval Rex)) : Prop :=
  ∀ aF bF a b, rF = .ok (.twoSided aF bF) → r = .ok (.twoSided a b) →
    |aF.val - a.val| ≤ ε ∧ |bF.val - b.val| ≤ ε

theorem wilsonClose_self {ε : ℝ} (hε : 0 ≤ ε) (r : Outcome (Err Rex) (Interval Rex)) :
    WilsonClose (fl := id) ε r r := by
  intro aF bF a b h1 h2
  rw [h1] at h2
  cases h2
  simpa using hε

/-- clamping from below at `0` never moves a number further from a point `y ≥ 0` -/
theorem abs_max_zero_sub_le {x y : ℝ} (hy : 0 ≤ y) : |max x 0 - y| ≤ |x - y| := by
  rcases le_total x 0 with h | h
  · rw [max_eq_right h, abs_of_nonpos (by linarith : 0 - y ≤ 0),
      abs_of_nonpos (by linarith : x - y ≤ 0)]
    linarith
  · rw [max_eq_left h]

/-- clamping from above at `1` never moves a number further from a point `y ≤ 1` -/
theorem abs_min_one_sub_le {x y : ℝ} (hy : y ≤ 1) : |min x 1 - y| ≤ |x - y| := by
  rcases le_total x 1 with h | h
  · rw [min_eq_left h]
  · rw [min_eq_right h, abs_of_nonneg (by linarith : 0 ≤ 1 - y),
      abs_of_nonneg (by linarith : 0 ≤ x - y)]
    linarith

/-- **the clamp does not hurt.** If the unclamped bounds `fl (m̃ − s̃)`, `fl (m̃ + s̃)` computed at
    `RR fl` are within `ε` of exact bounds `m − s`, `m + s` that are proportions, then so are the
    clamped bounds `Proportion.finishWilson` reports (same kind of confidence on both sides) -/
theorem finishWilson_close {ε : ℝ} (confF : Confidence (RR fl)) (conf : Confidence Rex)
    (hkind : confF.kind = conf.kind) (mF sF : RR fl) (m s : Rex)
    (hlo : 0 ≤ m.val - s.val) (hhi : m.val + s.val ≤ 1)
    (hlo1 : m.val - s.val ≤ 1) (hhi0 : 0 ≤ m.val + s.val)
    (h1 : |fl (mF.val - sF.val) - (m.val - s.val)| ≤ ε)
    (h2 : |fl (mF.val + sF.val) - (m.val + s.val)| ≤ ε) :
    WilsonClose ε (Proportion.finishWilson confF mF sF) (Proportion.finishWilson conf m s) := by
  have hε : 0 ≤ ε := le_trans (abs_nonneg _) h1
  have ea : max (m.val - s.val) 0 = m.val - s.val := max_eq_left hlo
  have eb : min (m.val + s.val) 1 = m.val + s.val := min_eq_left hhi
  have ea' : min (m.val - s.val) 1 = m.val - s.val := min_eq_left hlo1
  have eb' : max (m.val + s.val) 0 = m.val + s.val := max_eq_left hhi0
  have ca := le_trans (abs_max_zero_sub_le (x := fl (mF.val - sF.val)) hlo) h1
  have cb := le_trans (abs_min_one_sub_le (x := fl (mF.val + sF.val)) hhi) h2
  have ca' := le_trans (abs_min_one_sub_le (x := max (fl (mF.val - sF.val)) 0) hlo1) ca
  have cb' := le_trans (abs_max_zero_sub_le (x := min (fl (mF.val + sF.val)) 1) hhi0) cb
  intro aF bF a b hF hE
  rw [finishWilson_fl] at hF hE
  cases confF <;> cases conf <;> simp [Confidence.kind] at hkind <;>
    simp only at hF hE <;> (try split_ifs at hF hE) <;> cases hF <;> cases hE <;>
    simp only [inj_val, id, ea, eb, ea', eb', sub_self, abs_zero] <;>
    first | exact ⟨ca, cb⟩ | exact ⟨ca', hε⟩ | exact ⟨hε, cb'⟩

/-- the same for `ci_wilson`: closeness of the unclamped Wilson bounds computed at `RR fl` to the
    exact Wilson bounds `pLow`, `pHigh` gives `WilsonClose` (`0 < n`, `k ≤ n`; the exact bounds
    are proportions whatever the sign of the critical value) -/
theorem ciWilson_close {ε : ℝ} (critF : Crit (RR fl)) (confF : Confidence (RR fl))
    (crit : Crit Rex) (conf : Confidence Rex) (hkind : confF.kind = conf.kind) (n k : ℕ)
    (hn : 0 < n) (hkn : k ≤ n)
    (h1 : |fl ((Proportion.wilsonCentre (Scalar.ofNat n : RR fl) (Scalar.ofNat k)
                  (critF (.z confF.quantile))).val -
               (Proportion.wilsonSpan (Scalar.ofNat n : RR fl) (Scalar.ofNat k)
                  (critF (.z confF.quantile))).val) - pLow n k (zOf crit conf)| ≤ ε)
    (h2 : |fl ((Proportion.wilsonCentre (Scalar.ofNat n : RR fl) (Scalar.ofNat k)
                  (critF (.z confF.quantile))).val +
               (Proportion.wilsonSpan (Scalar.ofNat n : RR fl) (Scalar.ofNat k)
                  (critF (.z confF.quantile))).val) - pHigh n k (zOf crit conf)| ≤ ε) :
    WilsonClose ε (Proportion.ciWilson critF confF n k) (Proportion.ciWilson crit conf n k) := by
  intro aF bF a b hF hE
  simp only [Proportion.ciWilson] at hF hE
  split_ifs at hF hE
  simp only [zValue] at hF hE
  by_cases pF : probOk confF.quantile = true
  swap
  · rw [if_neg pF] at hF; cases hF
  by_cases pE : probOk conf.quantile = true
  swap
  · rw [if_neg pE] at hE; cases hE
  rw [if_pos pF, Outcome.bind_ok] at hF
  rw [if_pos pE, Outcome.bind_ok] at hE
  refine finishWilson_close confF conf hkind _ _ _ _ ?_ ?_ ?_ ?_ ?_ ?_ aF bF a b hF hE
  · rw [Quantile.wilsonCentre_val, Quantile.wilsonSpan_val]
    exact (lower_nonneg n k _ hn hkn).1
  · rw [Quantile.wilsonCentre_val, Quantile.wilsonSpan_val]
    exact (upper_le_one n k _ hn hkn).2
  · rw [Quantile.wilsonCentre_val, Quantile.wilsonSpan_val]
    exact (upper_le_one n k _ hn hkn).1
  · rw [Quantile.wilsonCentre_val, Quantile.wilsonSpan_val]
    exact (lower_nonneg n k _ hn hkn).2
  · rw [Quantile.wilsonCentre_val, Quantile.wilsonSpan_val]; exact h1
  · rw [Quantile.wilsonCentre_val, Quantile.wilsonSpan_val]; exact h2

/-- no rank boundary within `delta` of `p·n`: the clamped floors of `p·n ∓ delta` agree -/
def RankStable (u ε : ℝ) (n : ℕ) (p : ℝ) : Prop :=
  min ⌊p * n - delta u ε p n⌋₊ (n - 1) = min ⌊p * n + delta u ε p n⌋₊ (n - 1)

/-- in particular when no integer at all lies within `delta` of `p·n` -/
theorem rankStable_of_floor {u ε p : ℝ} {n : ℕ}
    (h : ⌊p * n - delta u ε p n⌋ = ⌊p * n + delta u ε p n⌋) : RankStable u ε n p := by
  unfold RankStable; rw [natFloor_eq_of_intFloor_eq h]

theorem rankFl_mono (hmono : Monotone fl) {n : ℕ} (hn : 0 ≤ fl n) {a b : ℝ} (h : a ≤ b) :
    rankFl fl n a ≤ rankFl fl n b :=
  min_le_min (Nat.floor_mono (hmono (mul_le_mul_of_nonneg_right h hn))) le_rfl

/-- a rounding function that moves the single value `a` to `b` and is exact elsewhere -/
noncomputable def nudge (a b : ℝ) : ℝ → ℝ := fun x => if x = a then b else x

theorem nudge_at (a b : ℝ) : nudge a b a = b := by simp [nudge]

theorem nudge_of_ne {a b x : ℝ} (h : x ≠ a) : nudge a b x = x := by simp [nudge, h]

theorem rounds_nudge {a b u : ℝ} (n : ℕ) (hu : 0 ≤ u) (hab : |b - a| ≤ u * |a|)
    (hnat : ∀ m : ℕ, (m : ℝ) ≠ a) : Rounds (nudge a b) u n := by
  refine ⟨hu, fun x => ?_, fun m _ => nudge_of_ne (hnat m)⟩
  by_cases hx : x = a
  · rw [hx, nudge_at]; exact hab
  · rw [nudge_of_ne hx]; simpa using mul_nonneg hu (abs_nonneg x)

/-! ### concrete rounding functions for the examples -/

/-- moves the product `3.001` just below `3`; exact elsewhere -/
noncomputable def flIdx : ℝ → ℝ := nudge (3001 / 1000) (2999 / 1000)

theorem rounds_flIdx : Rounds flIdx (1 / 1000) 10 := by
  refine rounds_nudge 10 (by norm_num) ?_ ?_
  · rw [abs_le]; constructor <;> norm_num
  · intro m h
    have h1 : ((1000 * m : ℕ) : ℝ) = ((3001 : ℕ) : ℝ) := by push_cast; rw [h]; norm_num
    have h2 : 1000 * m = 3001 := by exact_mod_cast h1
    omega

theorem rankFl_flIdx : rankFl flIdx 10 (3001 / 10000) = 2 := by
  unfold rankFl
  rw [rounds_flIdx.nat 10 le_rfl]
  have e : (3001 / 10000 : ℝ) * ((10 : ℕ) : ℝ) = 3001 / 1000 := by norm_num
  rw [e, flIdx, nudge_at]
  have : ⌊(2999 / 1000 : ℝ)⌋₊ = 2 := by
    rw [Nat.floor_eq_iff (by norm_num)]; constructor <;> norm_num
  rw [this]; rfl

theorem rank_idx : rank 10 (3001 / 10000) = 3 := by
  apply rank_eq_of <;> norm_num

/-- moves the product `2.4999` just above `2.5`; exact elsewhere -/
noncomputable def flRnd : ℝ → ℝ := nudge (24999 / 10000) (25001 / 10000)

theorem rounds_flRnd : Rounds flRnd (1 / 1000) 10 := by
  refine rounds_nudge 10 (by norm_num) ?_ ?_
  · rw [abs_le]; constructor <;> norm_num
  · intro m h
    have h1 : ((10000 * m : ℕ) : ℝ) = ((24999 : ℕ) : ℝ) := by push_cast; rw [h]; norm_num
    have h2 : 10000 * m = 24999 := by exact_mod_cast h1
    omega

theorem succFl_flRnd : succFl flRnd (24999 / 100000) 10 = 3 := by
  unfold succFl
  rw [rounds_flRnd.nat 10 le_rfl]
  have e : (24999 / 100000 : ℝ) * ((10 : ℕ) : ℝ) = 24999 / 10000 := by norm_num
  rw [e, flRnd, nudge_at]
  have : round (25001 / 10000 : ℝ) = ((3 : ℕ) : ℤ) :=
    round_eq_of_near (by rw [abs_lt]; constructor <;> norm_num)
  rw [this]; rfl

theorem successes_rnd : successes (24999 / 100000) 10 = 2 := by
  unfold successes
  have : round ((24999 / 100000 : ℝ) * ((10 : ℕ) : ℝ)) = ((2 : ℕ) : ℤ) :=
    round_eq_of_near (by rw [abs_lt]; constructor <;> norm_num)
  rw [this]; rfl


section fl16
open Proportion

/-- moves the product `12.8` up to `13`; exact elsewhere -/
noncomputable def fl16 : ℝ → ℝ := nudge (64 / 5) 13

theorem rounds_fl16 : Rounds fl16 (1 / 64) 16 := by
  refine rounds_nudge 16 (by norm_num) ?_ ?_
  · rw [abs_le]; constructor <;> norm_num
  · intro m h
    have h1 : ((5 * m : ℕ) : ℝ) = ((64 : ℕ) : ℝ) := by push_cast; rw [h]; norm_num
    have h2 : 5 * m = 64 := by exact_mod_cast h1
    omega

theorem sqrt_25 : Real.sqrt 25 = 5 := by
  rw [show (25 : ℝ) = 5 ^ 2 by norm_num, Real.sqrt_sq (by norm_num)]

theorem sqrt_4 : Real.sqrt 4 = 2 := by
  rw [show (4 : ℝ) = 2 ^ 2 by norm_num, Real.sqrt_sq (by norm_num)]

theorem centre_fl16 :
    wilsonCentre (Scalar.ofNat 16 : RR fl16) (Scalar.ofNat 8) (inj 3) = inj (1 / 2) := by
  apply RR.ext'
  simp [wilsonCentre]
  norm_num [fl16, nudge]

theorem span_fl16 :
    wilsonSpan (Scalar.ofNat 16 : RR fl16) (Scalar.ofNat 8) (inj 3) = inj (3 / 10) := by
  apply RR.ext'
  simp [wilsonSpan]
  norm_num [fl16, nudge, sqrt_25, sqrt_4]


theorem ciWilson_fl16 :
    Proportion.ciWilson (constCrit 3 : Crit (RR fl16)) (.lower (inj (9 / 10))) 16 8 =
      .ok (.twoSided (inj 0) (inj (4 / 5))) := by
  have hz : zValue (constCrit 3 : Crit (RR fl16)) (.lower (inj (9 / 10))) = .ok (inj 3) := by
    simp [zValue, probOk, Confidence.quantile, constCrit, inj]
    norm_num
  simp only [Proportion.ciWilson, hz, Outcome.bind_ok, centre_fl16, span_fl16]
  rw [finishWilson_fl]
  norm_num [fl16, nudge, inj]


theorem succFl_fl16 : succFl fl16 (1 / 2) 16 = 8 := by
  unfold succFl
  rw [rounds_fl16.nat 16 le_rfl]
  have e : (1 / 2 : ℝ) * ((16 : ℕ) : ℝ) = ((8 : ℕ) : ℝ) := by norm_num
  rw [e, rounds_fl16.nat 8 (by norm_num), round_natCast]; rfl

theorem rankFl_fl16 : rankFl fl16 16 (4 / 5) = 13 := by
  unfold rankFl
  rw [rounds_fl16.nat 16 le_rfl]
  have e : (4 / 5 : ℝ) * ((16 : ℕ) : ℝ) = 64 / 5 := by norm_num
  rw [e, fl16, nudge_at]
  have : ⌊(13 : ℝ)⌋₊ = 13 := by exact_mod_cast Nat.floor_natCast (R := ℝ) 13
  rw [this]; rfl

theorem successes_half_16 : successes (1 / 2) 16 = 8 := by
  unfold successes
  have : (1 / 2 : ℝ) * ((16 : ℕ) : ℝ) = ((8 : ℕ) : ℝ) := by norm_num
  rw [this, round_natCast]; rfl

theorem pHigh_16_8_3 : pHigh 16 8 3 = 4 / 5 := by
  unfold pHigh centre span
  have e : ((8 : ℕ) : ℝ) * (((16 : ℕ) : ℝ) - ((8 : ℕ) : ℝ)) / ((16 : ℕ) : ℝ) + (3 : ℝ) ^ 2 / 4
      = (5 / 2) ^ 2 := by norm_num
  rw [e, Real.sqrt_sq (by norm_num)]
  norm_num

theorem pLow_16_8_3 : pLow 16 8 3 = 1 / 5 := by
  unfold pLow centre span
  have e : ((8 : ℕ) : ℝ) * (((16 : ℕ) : ℝ) - ((8 : ℕ) : ℝ)) / ((16 : ℕ) : ℝ) + (3 : ℝ) ^ 2 / 4
      = (5 / 2) ^ 2 := by norm_num
  rw [e, Real.sqrt_sq (by norm_num)]
  norm_num

theorem rank_16 : rank 16 (4 / 5) = 12 := by
  apply rank_eq_of <;> norm_num


theorem ciIndices_fl16 :
    Quantile.ciIndices (constCrit 3 : Crit (RR fl16)) (.lower (inj (9 / 10))) 16 (inj (1 / 2)) =
      .ok (.lower 13) := by
  have hW : Proportion.ciWilson (constCrit 3 : Crit (RR fl16)) (.lower (inj (9 / 10))) 16
      (succFl fl16 (inj (1 / 2) : RR fl16).val 16) = .ok (.twoSided (inj 0) (inj (4 / 5))) := by
    rw [inj_val, succFl_fl16]; exact ciWilson_fl16
  rw [ciIndices_of_wilson _ _ 16 _ (by constructor <;> norm_num) (by norm_num) _ _ hW]
  simp only [inj_val, rankFl_fl16]

theorem validLevel_lower : ValidLevel (.lower (inj (9 / 10))) := by
  show 0 < (9 / 10 : ℝ) ∧ (9 / 10 : ℝ) < 1
  norm_num

theorem ciWilson_ex16 :
    Proportion.ciWilson (constCrit 3 : Crit Rex) (.lower (inj (9 / 10))) 16 8 =
      .ok (.twoSided (inj 0) (inj (4 / 5))) := by
  rw [Quantile.ciWilson_eq _ _ 16 8 validLevel_lower (by norm_num) (by norm_num) (by norm_num)]
  have hz : ((constCrit 3 : Crit Rex)
      (.z (Confidence.lower (inj (9 / 10)) : Confidence Rex).quantile)).val = 3 := rfl
  simp only [hz, pHigh_16_8_3]

theorem ciIndices_ex16 :
    Quantile.ciIndices (constCrit 3 : Crit Rex) (.lower (inj (9 / 10))) 16 (inj (1 / 2)) =
      .ok (.lower 12) := by
  have hk : successes (inj (1 / 2) : Rex).val 16 = 8 := successes_half_16
  rw [Quantile.ciIndices_main _ _ 16 _ validLevel_lower (by constructor <;> norm_num)
    (by norm_num) (by rw [hk]; norm_num) (by rw [hk]; norm_num)]
  have hz : ((constCrit 3 : Crit Rex)
      (.z (Confidence.lower (inj (9 / 10)) : Confidence Rex).quantile)).val = 3 := rfl
  simp only [hz, hk, pHigh_16_8_3, rank_16]

end fl16

section flC
open Proportion

/-- moves the sum `0.8` up to `1.1` (relative error `3/8`); exact elsewhere -/
noncomputable def flC : ℝ → ℝ := nudge (4 / 5) (11 / 10)

theorem rounds_flC : Rounds flC (1 / 2) 16 := by
  refine rounds_nudge 16 (by norm_num) ?_ ?_
  · rw [abs_le]; constructor <;> norm_num
  · intro m h
    have h1 : ((5 * m : ℕ) : ℝ) = ((4 : ℕ) : ℝ) := by push_cast; rw [h]; norm_num
    have h2 : 5 * m = 4 := by exact_mod_cast h1
    omega

theorem centre_flC :
    wilsonCentre (Scalar.ofNat 16 : RR flC) (Scalar.ofNat 8) (inj 3) = inj (1 / 2) := by
  apply RR.ext'
  simp [wilsonCentre]
  norm_num [flC, nudge]

theorem span_flC :
    wilsonSpan (Scalar.ofNat 16 : RR flC) (Scalar.ofNat 8) (inj 3) = inj (3 / 10) := by
  apply RR.ext'
  simp [wilsonSpan]
  norm_num [flC, nudge, sqrt_25, sqrt_4]

/-- the unclamped upper bound computed at `RR flC` is `1.1 > 1` -/
theorem unclamped_flC :
    (add (wilsonCentre (Scalar.ofNat 16 : RR flC) (Scalar.ofNat 8) (inj 3))
      (wilsonSpan (Scalar.ofNat 16 : RR flC) (Scalar.ofNat 8) (inj 3))).val = 11 / 10 := by
  rw [centre_flC, span_flC]
  norm_num [flC, nudge]

/-- … and `ci_wilson` reports the clamped bound `1` -/
theorem ciWilson_flC :
    Proportion.ciWilson (constCrit 3 : Crit (RR flC)) (.lower (inj (9 / 10))) 16 8 =
      .ok (.twoSided (inj 0) (inj 1)) := by
  have hz : zValue (constCrit 3 : Crit (RR flC)) (.lower (inj (9 / 10))) = .ok (inj 3) := by
    simp [zValue, probOk, Confidence.quantile, constCrit, inj]
    norm_num
  simp only [Proportion.ciWilson, hz, Outcome.bind_ok, centre_flC, span_flC]
  rw [finishWilson_fl]
  norm_num [flC, nudge, inj]

theorem succFl_flC : succFl flC (1 / 2) 16 = 8 := by
  unfold succFl
  rw [rounds_flC.nat 16 le_rfl]
  have e : (1 / 2 : ℝ) * ((16 : ℕ) : ℝ) = ((8 : ℕ) : ℝ) := by norm_num
  rw [e, rounds_flC.nat 8 (by norm_num), round_natCast]; rfl

theorem rankFl_flC : rankFl flC 16 1 = 15 := by
  unfold rankFl
  rw [rounds_flC.nat 16 le_rfl, one_mul, rounds_flC.nat 16 le_rfl, Nat.floor_natCast]
  rfl

/-- `ci_indices` at `RR flC` succeeds with the last position (before the clamp of `ci_wilson` it
    was `IndexError(1.1, 16)`) -/
theorem ciIndices_flC :
    Quantile.ciIndices (constCrit 3 : Crit (RR flC)) (.lower (inj (9 / 10))) 16 (inj (1 / 2)) =
      .ok (.lower 15) := by
  have hW : Proportion.ciWilson (constCrit 3 : Crit (RR flC)) (.lower (inj (9 / 10))) 16
      (succFl flC (inj (1 / 2) : RR flC).val 16) = .ok (.twoSided (inj 0) (inj 1)) := by
    rw [inj_val, succFl_flC]; exact ciWilson_flC
  rw [ciIndices_of_wilson _ _ 16 _ (by constructor <;> norm_num) (by norm_num) _ _ hW]
  simp only [inj_val, rankFl_flC]

end flC

end RankRound
end StatsCI
