/-
  StatsCI.Lemmas.Coherence — helper lemmas for C10 (coherence of the interval producers across
  confidence kinds and levels).

  * carrier-generic structure: every mean-type producer computes a pair of bounds that depends on
    the confidence only through `conf.quantile`, then applies the constructor of the kind
    (`boundsOf`, `finish_one_vs_two`, `KindMatch`, `shapeOf`);
  * exact arithmetic `Rex`: closed form of the common tail `finish` (`finish_ok_rex`), containment of
    the mean, inclusion for a larger critical value; the same for `Proportion.finish` (`propShape`);
    `ci_wilson` ends in the clamped `Proportion.finishWilson`, which at `Rex` equals `Proportion.finish`
    on the Wilson numbers for every real critical value (`finishWilson_rex_eq`);
  * the vocabulary of the hypotheses on the external quantile routine: `CritMono`, `CritHalf`;
  * Wilson bounds monotone in `z` over all of ℝ (`lowerR_anti`, `upperR_mono`).
-/
import StatsCI.Model.Instances
import StatsCI.Lemmas.MeanUnpaired
import StatsCI.Lemmas.MeanSym
import StatsCI.Lemmas.Wilson
import StatsCI.Lemmas.WilsonMono
import StatsCI.Lemmas.Quantile
import Mathlib.Analysis.SpecialFunctions.Exp

set_option linter.unusedSectionVars false
set_option linter.unusedVariables false
set_option linter.unusedSimpArgs false
set_option linter.unnecessarySimpa false
set_option linter.unnecessarySeqFocus false

namespace StatsCI.Coherence
open StatsCI NumOps Scalar MeanLemmas

/-! ## kinds -/

section kinds
variable {W α : Type}

/-- the interval of the kind of `conf` with the given bounds (the bound that the kind does not
    have is dropped) -/
def shapeOf (conf : Confidence W) (lo hi : α) : Interval α :=
  match conf with
  | .twoSided _ => .twoSided lo hi
  | .upper _ => .upper lo
  | .lower _ => .lower hi

/-- the constructor of an interval is the one of the kind of the confidence -/
def KindMatch (conf : Confidence W) (I : Interval α) : Prop :=
  match conf with
  | .twoSided _ => ∃ lo hi, I = .twoSided lo hi
  | .upper _ => ∃ lo, I = .upper lo
  | .lower _ => ∃ hi, I = .lower hi

theorem kindMatch_shapeOf (conf : Confidence W) (lo hi : α) : KindMatch conf (shapeOf conf lo hi) := by
  cases conf
  · exact ⟨lo, hi, rfl⟩
  · exact ⟨lo, rfl⟩
  · exact ⟨hi, rfl⟩

/-- the proportion producers always return a two-sided interval, the far end being exactly `1`
    (upper one-sided) or `0` (lower one-sided) -/
def PropKindMatch [NumOps α] (conf : Confidence W) (I : Interval α) : Prop :=
  match conf with
  | .twoSided _ => ∃ lo hi, I = .twoSided lo hi
  | .upper _ => ∃ lo, I = .twoSided lo (one : α)
  | .lower _ => ∃ hi, I = .twoSided (zero : α) hi

variable [Cmp α]

theorem new_ok_iff (lo hi : α) (I : Interval α) :
    Interval.new lo hi = .ok I ↔ (gt lo hi = false ∧ I = .twoSided lo hi) := by
  unfold Interval.new
  by_cases hg : gt lo hi = true
  · simp [hg]
  · simp only [hg, Bool.false_eq_true, if_false, Except.ok.injEq]
    constructor
    · intro h; exact ⟨by simpa using hg, h.symm⟩
    · intro h; exact h.2.symm

theorem liftI_new_ok_iff (lo hi : α) (I : Interval α) :
    (liftI (Interval.new lo hi) : Outcome (Err W) (Interval α)) = .ok I ↔
      (gt lo hi = false ∧ I = .twoSided lo hi) := by
  rw [← new_ok_iff]
  cases h : Interval.new lo hi with
  | ok J => simp [liftI]
  | error e => simp [liftI]

/-- a successful `intervalOfKind` returns the interval of the kind; the two-sided one passed
    `Interval::new` -/
theorem intervalOfKind_ok (conf : Confidence W) (lo hi : α) (I : Interval α)
    (h : intervalOfKind conf lo hi = .ok I) :
    I = shapeOf conf lo hi ∧ (conf.isTwoSided = true → gt lo hi = false) := by
  cases conf with
  | twoSided l =>
    simp only [intervalOfKind] at h
    rw [liftI_new_ok_iff] at h
    exact ⟨h.2, fun _ => h.1⟩
  | upper l =>
    simp only [intervalOfKind, Interval.newUpper, Outcome.ok.injEq] at h
    exact ⟨h.symm, fun h' => by simp [Confidence.isTwoSided] at h'⟩
  | lower l =>
    simp only [intervalOfKind, Interval.newLower, Outcome.ok.injEq] at h
    exact ⟨h.symm, fun h' => by simp [Confidence.isTwoSided] at h'⟩

theorem bind_ok_iff {ε β γ : Type} (x : Outcome ε β) (f : β → Outcome ε γ) (c : γ) :
    x.bind f = .ok c ↔ ∃ b, x = .ok b ∧ f b = .ok c := by
  cases x with
  | ok b => simp
  | err e => simp
  | panic t => simp

/-- any computation that ends in `intervalOfKind conf` returns the kind of `conf` -/
theorem bind_intervalOfKind_ok {β : Type} (x : Outcome (Err W) β) (f g : β → α)
    (conf : Confidence W) (I : Interval α)
    (h : (x.bind fun b => intervalOfKind conf (f b) (g b)) = .ok I) :
    ∃ b, x = .ok b ∧ I = shapeOf conf (f b) (g b) ∧
      (conf.isTwoSided = true → gt (f b) (g b) = false) := by
  obtain ⟨b, hb, hI⟩ := (bind_ok_iff _ _ _).mp h
  exact ⟨b, hb, intervalOfKind_ok conf _ _ I hI⟩

/-- from the forward direction and the kind of the two-sided result: the one-sided results
    determine a successful two-sided result -/
theorem converse_of_forward {ε α : Type} (two up low : Outcome ε (Interval α))
    (U L : α → Interval α) (hU : ∀ x y, U x = U y → x = y) (hL : ∀ x y, L x = L y → x = y)
    (hfw : ∀ lo hi, two = .ok (.twoSided lo hi) → up = .ok (U lo) ∧ low = .ok (L hi))
    (hkind : ∀ I, two = .ok I → ∃ lo hi, I = .twoSided lo hi)
    (lo hi : α) (hu : up = .ok (U lo)) (hl : low = .ok (L hi)) (I : Interval α)
    (h2 : two = .ok I) : I = .twoSided lo hi := by
  obtain ⟨x, y, rfl⟩ := hkind I h2
  obtain ⟨h1, h2'⟩ := hfw x y h2
  rw [hu] at h1; rw [hl] at h2'
  injection h1 with h1; injection h2' with h2'
  rw [hU _ _ h1, hL _ _ h2']

end kinds

/-! ## the common tail of the mean-type producers, any carrier -/

section generic
variable {F W : Type} [Scalar F] [Scalar W] [Widen F W]

/-- `interval_bounds` reads the confidence only through the probability it asks for -/
theorem intervalBounds_congr (crit : Crit W) (c₁ c₂ : Confidence W)
    (hq : c₁.quantile = c₂.quantile) (m s d : W) :
    intervalBounds crit c₁ m s d = intervalBounds crit c₂ m s d := by
  simp only [intervalBounds, tValue, zValue, hq]

/-- the request for the critical value reads the confidence only through `quantile` -/
theorem critReq_congr (c₁ c₂ : Confidence W) (hq : c₁.quantile = c₂.quantile) (d : W) :
    critReq c₁ d = critReq c₂ d := by
  simp only [critReq, hq]

/-- the pair of bounds of `ci_mean`, before the constructor of the kind is applied -/
def boundsOf (crit : Crit W) (conf : Confidence W) (P : Outcome (Err W) (Arith.Prep W)) :
    Outcome (Err W) (F × F) :=
  P.bind fun p => (intervalBounds crit conf p.mean p.sem p.dof).bind fun b =>
    .ok ((Widen.down b.1 : F), (Widen.down b.2 : F))

theorem finish_eq_boundsOf (crit : Crit W) (conf : Confidence W)
    (P : Outcome (Err W) (Arith.Prep W)) :
    (finish crit conf P : Outcome (Err W) (Interval F)) =
      (boundsOf crit conf P).bind fun b => intervalOfKind conf b.1 b.2 := by
  unfold finish boundsOf
  cases P with
  | err e => rfl
  | panic t => rfl
  | ok p =>
    simp only [Outcome.bind_ok]
    cases intervalBounds crit conf p.mean p.sem p.dof <;> rfl

theorem boundsOf_congr (crit : Crit W) (c₁ c₂ : Confidence W) (hq : c₁.quantile = c₂.quantile)
    (P : Outcome (Err W) (Arith.Prep W)) :
    (boundsOf crit c₁ P : Outcome (Err W) (F × F)) = boundsOf crit c₂ P := by
  unfold boundsOf
  cases P with
  | err e => rfl
  | panic t => rfl
  | ok p => simp only [Outcome.bind_ok, intervalBounds_congr crit c₁ c₂ hq]

/-- **one-sided at `l` versus two-sided at `l₂`** whenever both ask for the same probability:
    one and the same pair of bounds `B` (or error, or panic) is computed; the two-sided call
    passes it to `Interval::new`, the upper one-sided call keeps the first component, the lower
    one-sided call the second -/
theorem finish_one_vs_two (crit : Crit W) (l l₂ : W)
    (hq : l = (Confidence.twoSided l₂).quantile) (P : Outcome (Err W) (Arith.Prep W)) :
    ∃ B : Outcome (Err W) (F × F),
      (finish crit (.twoSided l₂) P : Outcome (Err W) (Interval F)) =
        B.bind (fun b => liftI (Interval.new b.1 b.2)) ∧
      (finish crit (.upper l) P : Outcome (Err W) (Interval F)) =
        B.map (fun b => Interval.upper b.1) ∧
      (finish crit (.lower l) P : Outcome (Err W) (Interval F)) =
        B.map (fun b => Interval.lower b.2) := by
  refine ⟨boundsOf crit (.twoSided l₂) P, ?_, ?_, ?_⟩
  · rw [finish_eq_boundsOf]; rfl
  · rw [finish_eq_boundsOf, boundsOf_congr crit (.upper l) (.twoSided l₂) hq]
    cases (boundsOf crit (.twoSided l₂) P : Outcome (Err W) (F × F)) <;> rfl
  · rw [finish_eq_boundsOf, boundsOf_congr crit (.lower l) (.twoSided l₂) hq]
    cases (boundsOf crit (.twoSided l₂) P : Outcome (Err W) (F × F)) <;> rfl

omit [Scalar W] in
/-- consequences of the common-bounds form: the two-sided result determines the one-sided
    results, the one-sided results determine the two-sided outcome, and failures are shared -/
theorem common_bounds_cases {α : Type} [Cmp α] (B : Outcome (Err W) (α × α))
    (two up low : Outcome (Err W) (Interval α))
    (h2 : two = B.bind (fun b => liftI (Interval.new b.1 b.2)))
    (hu : up = B.map (fun b => Interval.upper b.1))
    (hl : low = B.map (fun b => Interval.lower b.2)) :
    (∀ lo hi, two = .ok (.twoSided lo hi) → up = .ok (.upper lo) ∧ low = .ok (.lower hi)) ∧
    (∀ lo hi, up = .ok (.upper lo) → low = .ok (.lower hi) →
      two = liftI (Interval.new lo hi)) ∧
    (∀ lo, up = .ok (.upper lo) → ∃ hi, low = .ok (.lower hi)) ∧
    (∀ hi, low = .ok (.lower hi) → ∃ lo, up = .ok (.upper lo)) ∧
    (∀ e, up = .err e ↔ low = .err e) ∧ (∀ e, up = .err e → two = .err e) ∧
    (∀ t, up = .panic t ↔ low = .panic t) ∧ (∀ t, up = .panic t → two = .panic t) := by
  subst h2 hu hl
  cases B with
  | err e => simp [Outcome.map]
  | panic t => simp [Outcome.map]
  | ok b =>
    obtain ⟨b1, b2⟩ := b
    simp only [Outcome.bind_ok, Outcome.map, Outcome.ok.injEq, Interval.upper.injEq,
      Interval.lower.injEq, reduceCtorEq, false_iff, iff_false, not_false_eq_true, implies_true,
      false_imp_iff, and_true, exists_eq', forall_const]
    refine ⟨?_, ?_⟩
    · intro lo hi h
      rw [liftI_new_ok_iff] at h
      obtain ⟨_, h⟩ := h
      injection h with h1 h2
      exact ⟨h1.symm, h2.symm⟩
    · intro lo hi h1 h2
      rw [h1, h2]

omit [Scalar W] in
theorem bounds_two_ok {α : Type} [Cmp α] (B : Outcome (Err W) (α × α)) (J : Interval α)
    (h : B.bind (fun b => liftI (Interval.new b.1 b.2)) = .ok J) :
    ∃ a b, B = .ok (a, b) ∧ J = .twoSided a b ∧ gt a b = false := by
  obtain ⟨⟨a, b⟩, hB, hJ⟩ := (bind_ok_iff _ _ _).mp h
  rw [liftI_new_ok_iff] at hJ
  exact ⟨a, b, hB, hJ.2, hJ.1⟩

/-- the common tail returns the kind of the confidence -/
theorem finish_kind (crit : Crit W) (conf : Confidence W) (P : Outcome (Err W) (Arith.Prep W))
    (I : Interval F) (h : finish crit conf P = .ok I) : KindMatch conf I := by
  rw [finish_eq_boundsOf] at h
  obtain ⟨b, _, hI, _⟩ := bind_intervalOfKind_ok _ (fun b : F × F => b.1) (fun b => b.2) conf I h
  rw [hI]; exact kindMatch_shapeOf _ _ _

/-- forward direction of the one-sided/two-sided coherence on the common tail -/
theorem finish_one_vs_two_forward (crit : Crit W) (l l₂ : W)
    (hq : l = (Confidence.twoSided l₂).quantile) (P : Outcome (Err W) (Arith.Prep W)) (lo hi : F)
    (h : (finish crit (.twoSided l₂) P : Outcome (Err W) (Interval F)) = .ok (.twoSided lo hi)) :
    (finish crit (.upper l) P : Outcome (Err W) (Interval F)) = .ok (.upper lo) ∧
    (finish crit (.lower l) P : Outcome (Err W) (Interval F)) = .ok (.lower hi) := by
  obtain ⟨B, h2, hu, hl⟩ := finish_one_vs_two (F := F) crit l l₂ hq P
  exact (common_bounds_cases B _ _ _ h2 hu hl).1 lo hi h

/-! ### geometric and harmonic: a map of the bounds of the arithmetic interval -/

theorem Geometric.ciMean_kind (crit : Crit W) (g : Geometric F) (conf : Confidence W)
    (I : Interval F) (h : g.ciMean crit conf = .ok I) : KindMatch conf I := by
  unfold Geometric.ciMean at h
  obtain ⟨J, _, hI⟩ := (bind_ok_iff _ _ _).mp h
  rw [(intervalOfKind_ok conf _ _ I hI).1]; exact kindMatch_shapeOf _ _ _

theorem Harmonic.ciMean_kind (crit : Crit W) (g : Harmonic F) (conf : Confidence W)
    (I : Interval F) (h : g.ciMean crit conf = .ok I) : KindMatch conf I := by
  unfold Harmonic.ciMean at h
  obtain ⟨J, _, hI⟩ := (bind_ok_iff _ _ _).mp h
  rw [(intervalOfKind_ok conf _ _ I hI).1]; exact kindMatch_shapeOf _ _ _

/-- the geometric producer, one-sided versus two-sided, any carrier -/
theorem Geometric.one_vs_two (crit : Crit W) (g : Geometric F) (l l₂ : W)
    (hq : l = (Confidence.twoSided l₂).quantile) (lo hi : F)
    (h : g.ciMean crit (.twoSided l₂) = .ok (.twoSided lo hi)) :
    g.ciMean crit (.upper l) = .ok (.upper lo) ∧ g.ciMean crit (.lower l) = .ok (.lower hi) := by
  obtain ⟨B, h2, hu, hl⟩ := finish_one_vs_two (F := F) crit l l₂ hq (Arith.ciPrep g.logs)
  unfold Geometric.ciMean at h ⊢
  simp only [Arith.ciMean_eq_finish] at h ⊢
  obtain ⟨J, hJ, hI⟩ := (bind_ok_iff _ _ _).mp h
  rw [h2] at hJ
  obtain ⟨a, b, hB, rfl, _⟩ := bounds_two_ok B J hJ
  obtain ⟨hI, _⟩ := intervalOfKind_ok _ _ _ _ hI
  simp only [shapeOf, Interval.lowX, Interval.highX, Interval.twoSided.injEq] at hI
  rw [hu, hl, hB, hI.1, hI.2]
  exact ⟨rfl, rfl⟩

/-- the harmonic producer, one-sided versus two-sided, any carrier: the upper one-sided call uses
    the *lower* one-sided reciprocal-space interval (flipped confidence) and conversely -/
theorem Harmonic.one_vs_two (crit : Crit W) (g : Harmonic F) (l l₂ : W)
    (hq : l = (Confidence.twoSided l₂).quantile) (lo hi : F)
    (h : g.ciMean crit (.twoSided l₂) = .ok (.twoSided lo hi)) :
    g.ciMean crit (.upper l) = .ok (.upper lo) ∧ g.ciMean crit (.lower l) = .ok (.lower hi) := by
  obtain ⟨B, h2, hu, hl⟩ := finish_one_vs_two (F := F) crit l l₂ hq (Arith.ciPrep g.recip)
  unfold Harmonic.ciMean at h ⊢
  simp only [Arith.ciMean_eq_finish, Confidence.flipped] at h ⊢
  obtain ⟨J, hJ, hI⟩ := (bind_ok_iff _ _ _).mp h
  rw [h2] at hJ
  obtain ⟨a, b, hB, rfl, _⟩ := bounds_two_ok B J hJ
  obtain ⟨hI, _⟩ := intervalOfKind_ok _ _ _ _ hI
  simp only [shapeOf, Interval.lowX, Interval.highX, Interval.twoSided.injEq] at hI
  rw [hu, hl, hB, hI.1, hI.2]
  exact ⟨rfl, rfl⟩

end generic

/-! ## proportions and quantile ranks, any carrier -/

section prop
variable {W : Type} [Scalar W]
open Proportion

theorem pfinish_kind (conf : Confidence W) (m s : W) (I : Interval W)
    (h : Proportion.finish conf m s = .ok I) : PropKindMatch conf I := by
  cases conf <;> simp only [Proportion.finish] at h <;> rw [liftI_new_ok_iff] at h
  · exact ⟨_, _, h.2⟩
  · exact ⟨_, h.2⟩
  · exact ⟨_, h.2⟩

/-- the clamped tail of `ci_wilson` returns the same constructors as `Proportion.finish`: always
    two-sided, the far end exactly `1` / `0` -/
theorem pfinishWilson_kind (conf : Confidence W) (m s : W) (I : Interval W)
    (h : Proportion.finishWilson conf m s = .ok I) : PropKindMatch conf I := by
  cases conf <;> simp only [Proportion.finishWilson] at h <;> rw [liftI_new_ok_iff] at h
  · exact ⟨_, _, h.2⟩
  · exact ⟨_, h.2⟩
  · exact ⟨_, h.2⟩

/-- a successful `ci_wilson` passed the count tests and the probability test of `inverse_cdf`,
    and is `finishWilson` (the two bounds clamped into `[0, 1]`, then `Interval::new`) of the two
    Wilson numbers at the requested critical value -/
theorem ciWilson_ok (crit : Crit W) (conf : Confidence W) (n k : ℕ) (I : Interval W)
    (h : ciWilson crit conf n k = .ok I) :
    2 ≤ k ∧ k + 2 ≤ n ∧ probOk conf.quantile = true ∧
    Proportion.finishWilson conf
      (wilsonCentre (Scalar.ofNat n) (Scalar.ofNat k) (crit (.z conf.quantile)))
      (wilsonSpan (Scalar.ofNat n) (Scalar.ofNat k) (crit (.z conf.quantile))) = .ok I := by
  unfold ciWilson at h
  split_ifs at h with h1 h2 h3
  obtain ⟨z, hz, hI⟩ := (bind_ok_iff _ _ _).mp h
  unfold zValue at hz
  by_cases hp : probOk conf.quantile = true
  · simp only [hp, if_true, Outcome.ok.injEq] at hz
    subst hz
    exact ⟨by omega, by omega, hp, hI⟩
  · simp [hp] at hz

/-- past the count tests and the probability test, `ci_wilson` is its clamped tail, any carrier -/
theorem ciWilson_eq_finishWilson (crit : Crit W) (conf : Confidence W) (n k : ℕ) (hk : 2 ≤ k)
    (hkn : k + 2 ≤ n) (hp : probOk conf.quantile = true) :
    ciWilson crit conf n k =
      Proportion.finishWilson conf
        (wilsonCentre (Scalar.ofNat n) (Scalar.ofNat k) (crit (.z conf.quantile)))
        (wilsonSpan (Scalar.ofNat n) (Scalar.ofNat k) (crit (.z conf.quantile))) := by
  have h1 : ¬ (k > n) := by omega
  have h2 : ¬ (k < 2) := by omega
  have h3 : ¬ (n - k < 2) := by omega
  simp only [ciWilson, h1, h2, h3, if_false, zValue, hp, if_true, Outcome.bind_ok]

/-- the Wald standard deviation exactly as `ci_z_normal` forms it -/
def waldSdM (n k : ℕ) : W :=
  sqrt (div (mul (div (Scalar.ofNat k) (Scalar.ofNat n))
    (sub one (div (Scalar.ofNat k) (Scalar.ofNat n)))) (Scalar.ofNat n))

theorem ciZNormal_ok (crit : Crit W) (conf : Confidence W) (n k : ℕ) (I : Interval W)
    (h : ciZNormal crit conf n k = .ok I) :
    10 ≤ k ∧ k + 10 ≤ n ∧ probOk conf.quantile = true ∧
    Proportion.finish conf (div (Scalar.ofNat k) (Scalar.ofNat n))
      (mul (crit (.z conf.quantile)) (waldSdM n k)) = .ok I := by
  unfold ciZNormal at h
  split_ifs at h with h1 h2 h3
  obtain ⟨z, hz, hI⟩ := (bind_ok_iff _ _ _).mp h
  unfold zValue at hz
  by_cases hp : probOk conf.quantile = true
  · simp only [hp, if_true, Outcome.ok.injEq] at hz
    subst hz
    exact ⟨by omega, by omega, hp, hI⟩
  · simp [hp] at hz

theorem ciZNormal_eq_finish (crit : Crit W) (conf : Confidence W) (n k : ℕ) (hk : 10 ≤ k)
    (hkn : k + 10 ≤ n) (hp : probOk conf.quantile = true) :
    ciZNormal crit conf n k =
      Proportion.finish conf (div (Scalar.ofNat k) (Scalar.ofNat n))
        (mul (crit (.z conf.quantile)) (waldSdM n k)) := by
  have h1 : ¬ (k > n) := by omega
  have h2 : ¬ (k < 10) := by omega
  have h3 : ¬ (n - k < 10) := by omega
  simp only [ciZNormal, h1, h2, h3, if_false, zValue, hp, if_true, Outcome.bind_ok, waldSdM]

theorem ciWilson_kind (crit : Crit W) (conf : Confidence W) (n k : ℕ) (I : Interval W)
    (h : ciWilson crit conf n k = .ok I) : PropKindMatch conf I :=
  pfinishWilson_kind conf _ _ I (ciWilson_ok crit conf n k I h).2.2.2

theorem ciZNormal_kind (crit : Crit W) (conf : Confidence W) (n k : ℕ) (I : Interval W)
    (h : ciZNormal crit conf n k = .ok I) : PropKindMatch conf I :=
  pfinish_kind conf _ _ I (ciZNormal_ok crit conf n k I h).2.2.2

/-- the quantile ranks have the kind of the confidence, on every carrier -/
theorem ciIndices_kind (crit : Crit W) (conf : Confidence W) (n : ℕ) (q : W) (I : Interval ℕ)
    (h : Quantile.ciIndices crit conf n q = .ok I) : KindMatch conf I := by
  unfold Quantile.ciIndices at h
  split_ifs at h with h1 h2
  obtain ⟨pci, _, h⟩ := (bind_ok_iff _ _ _).mp h
  simp only [] at h
  split_ifs at h with h3 h4
  obtain ⟨lo, _, h⟩ := (bind_ok_iff _ _ _).mp h
  obtain ⟨hi, _, h⟩ := (bind_ok_iff _ _ _).mp h
  cases conf with
  | twoSided l =>
    simp only at h
    split_ifs at h
    simp only [Outcome.ok.injEq] at h
    exact ⟨lo, hi, h.symm⟩
  | upper l =>
    simp only [Outcome.ok.injEq] at h
    exact ⟨lo, h.symm⟩
  | lower l =>
    simp only [Outcome.ok.injEq] at h
    exact ⟨hi, h.symm⟩

end prop

/-! ## exact arithmetic: levels, quantiles and the hypotheses on the external quantile routine -/

section rex
open QSpec

/-- the two-sided confidence at level `2L − 1` asks for the probability `L`
    (the model computes `1 − (1 − (2L−1))/(1+1)`) -/
theorem quantile_two (L : ℝ) : (Confidence.twoSided (⟨2 * L - 1⟩ : Rex)).quantile = ⟨L⟩ := by
  apply RR.ext'
  simp only [Confidence.quantile, RR.sub_val, RR.div_val, RR.add_val, RR.one_val, id]
  ring

theorem quantile_val (c : Confidence Rex) :
    c.quantile.val = match c with
      | .twoSided l => (1 + l.val) / 2
      | .upper l => l.val
      | .lower l => l.val := by
  cases c <;> simp [Confidence.quantile]
  ring

/-- same kind, higher level: higher probability -/
theorem quantile_le_of_level (c₁ c₂ : Confidence Rex) (hk : c₁.kind = c₂.kind)
    (hl : c₁.level.val ≤ c₂.level.val) : c₁.quantile.val ≤ c₂.quantile.val := by
  rw [quantile_val, quantile_val]
  cases c₁ <;> cases c₂ <;> simp only [Confidence.kind, reduceCtorEq] at hk <;>
    simp only [Confidence.level] at hl ⊢ <;> linarith

/-- two-sided (level `≥ 0`) or one-sided at level `≥ 1/2`: the probability asked is `≥ 1/2` -/
theorem half_le_quantile (c : Confidence Rex) (h0 : 0 ≤ c.level.val)
    (hs : c.isTwoSided = true ∨ 1 / 2 ≤ c.level.val) : 1 / 2 ≤ c.quantile.val := by
  rw [quantile_val]
  cases c <;> simp only [Confidence.level, Confidence.isTwoSided, reduceCtorEq, false_or,
    Bool.false_eq_true] at h0 hs ⊢ <;> linarith

theorem flipped_kind_eq {W : Type} (c₁ c₂ : Confidence W) (hk : c₁.kind = c₂.kind) :
    c₁.flipped.kind = c₂.flipped.kind := by
  cases c₁ <;> cases c₂ <;> simp [Confidence.kind, Confidence.flipped] at hk ⊢

theorem flipped_level {W : Type} (c : Confidence W) : c.flipped.level = c.level := by
  cases c <;> rfl

theorem flipped_isTwoSided {W : Type} (c : Confidence W) : c.flipped.isTwoSided = c.isTwoSided := by
  cases c <;> rfl

/-- the external quantile routine is monotone in the probability (Student `t` at every `dof`,
    and normal) -/
def CritMono (crit : Crit Rex) : Prop :=
  (∀ dof p q : Rex, p.val ≤ q.val → (crit (.t dof p)).val ≤ (crit (.t dof q)).val) ∧
  (∀ p q : Rex, p.val ≤ q.val → (crit (.z p)).val ≤ (crit (.z q)).val)

/-- the external quantile routine returns `0` at probability `1/2` (symmetric distributions) -/
def CritHalf (crit : Crit Rex) : Prop :=
  (∀ dof : Rex, (crit (.t dof ⟨1 / 2⟩)).val = 0) ∧ (crit (.z ⟨1 / 2⟩)).val = 0

/-- a concrete oracle satisfying both (for non-vacuity): `p ↦ p − 1/2` -/
noncomputable def linCrit : Crit Rex := fun r =>
  match r with
  | .t _ p => ⟨p.val - 1 / 2⟩
  | .z p => ⟨p.val - 1 / 2⟩

theorem linCrit_mono : CritMono linCrit := by
  constructor
  · intro dof p q h; simp only [linCrit]; linarith
  · intro p q h; simp only [linCrit]; linarith

theorem linCrit_half : CritHalf linCrit := by
  constructor
  · intro dof; simp [linCrit]
  · simp [linCrit]

/-- the critical value the common tail asks for -/
noncomputable abbrev cOf (crit : Crit Rex) (conf : Confidence Rex) (dof : Rex) : ℝ :=
  (crit (critReq conf dof)).val

theorem cOf_mono {crit : Crit Rex} (hm : CritMono crit) (c₁ c₂ : Confidence Rex) (dof : Rex)
    (hq : c₁.quantile.val ≤ c₂.quantile.val) : cOf crit c₁ dof ≤ cOf crit c₂ dof := by
  unfold cOf critReq
  split
  · exact hm.1 _ _ _ hq
  · exact hm.2 _ _ hq

theorem cOf_nonneg {crit : Crit Rex} (hm : CritMono crit) (hh : CritHalf crit)
    (c : Confidence Rex) (dof : Rex) (hq : 1 / 2 ≤ c.quantile.val) : 0 ≤ cOf crit c dof := by
  unfold cOf critReq
  split
  · rw [← hh.1 dof]; exact hm.1 dof ⟨1 / 2⟩ _ hq
  · rw [← hh.2]; exact hm.2 ⟨1 / 2⟩ _ hq

theorem cOf_congr (crit : Crit Rex) (c₁ c₂ : Confidence Rex) (hq : c₁.quantile = c₂.quantile)
    (dof : Rex) : cOf crit c₁ dof = cOf crit c₂ dof := by
  unfold cOf; rw [critReq_congr c₁ c₂ hq]

theorem zOf_mono {crit : Crit Rex} (hm : CritMono crit) (c₁ c₂ : Confidence Rex)
    (hq : c₁.quantile.val ≤ c₂.quantile.val) : zOf crit c₁ ≤ zOf crit c₂ := hm.2 _ _ hq

theorem zOf_nonneg {crit : Crit Rex} (hm : CritMono crit) (hh : CritHalf crit)
    (c : Confidence Rex) (hq : 1 / 2 ≤ c.quantile.val) : 0 ≤ zOf crit c := by
  unfold zOf; rw [← hh.2]; exact hm.2 ⟨1 / 2⟩ _ hq

theorem probOk_of_valid (c : Confidence Rex) (hv : ValidLevel c) : probOk c.quantile = true :=
  MeanLemmas.probOk_quantile c hv.1 hv.2

/-! ## exact arithmetic: the common tail `finish` -/

theorem finish_rex_eq (crit : Crit Rex) (conf : Confidence Rex) (p : Arith.Prep Rex)
    (hd : 0 < p.dof.val) (hp : probOk conf.quantile = true) :
    (finish crit conf (.ok p) : Outcome (Err Rex) (Interval Rex)) =
      intervalOfKind conf (⟨p.mean.val - cOf crit conf p.dof * p.sem.val⟩ : Rex)
        ⟨p.mean.val + cOf crit conf p.dof * p.sem.val⟩ := by
  have hd' : gt p.dof (zero : Rex) = true := by simpa using hd
  unfold finish
  rw [Outcome.bind_ok, intervalBounds_eq crit conf _ _ _ hd' hp, Outcome.bind_ok]
  rfl

/-- a successful tail: positive degrees of freedom, admissible probability, `mean ∓ c·sem` in the
    shape of the kind, and for the two-sided kind `c·sem ≥ 0` (`Interval::new` accepted) -/
theorem finish_ok_rex (crit : Crit Rex) (conf : Confidence Rex) (p : Arith.Prep Rex)
    (I : Interval Rex) (h : finish crit conf (.ok p) = .ok I) :
    0 < p.dof.val ∧ probOk conf.quantile = true ∧
    I = shapeOf conf (⟨p.mean.val - cOf crit conf p.dof * p.sem.val⟩ : Rex)
        ⟨p.mean.val + cOf crit conf p.dof * p.sem.val⟩ ∧
    (conf.isTwoSided = true → 0 ≤ cOf crit conf p.dof * p.sem.val) := by
  by_cases hd : 0 < p.dof.val
  swap
  · exfalso
    have hlt : lt p.dof (populationLimit : Rex) = true := by
      simp only [populationLimit, RR.lt_iff, RR.ofNat_val, id_eq]
      push_cast
      linarith [not_lt.mp hd]
    have hg : gt p.dof (zero : Rex) = false := by
      rw [Bool.eq_false_iff, Ne, RR.gt_iff]; simpa using hd
    unfold finish at h
    simp only [Outcome.bind_ok, intervalBounds, hlt, if_true, tValue, hg, Bool.false_eq_true,
      if_false, Outcome.bind_panic, reduceCtorEq] at h
  by_cases hp : probOk conf.quantile = true
  swap
  · exfalso
    have hd' : gt p.dof (zero : Rex) = true := by simpa using hd
    unfold finish at h
    rw [Outcome.bind_ok, intervalBounds_panic crit conf _ _ _ hd' (by simpa using hp)] at h
    simp at h
  rw [finish_rex_eq crit conf p hd hp] at h
  obtain ⟨hI, h2⟩ := intervalOfKind_ok conf _ _ I h
  refine ⟨hd, hp, hI, fun ht => ?_⟩
  have := h2 ht
  rw [Bool.eq_false_iff, Ne, RR.gt_iff] at this
  simp only [not_lt] at this
  linarith

theorem finish_rex_ok (crit : Crit Rex) (conf : Confidence Rex) (p : Arith.Prep Rex)
    (hd : 0 < p.dof.val) (hp : probOk conf.quantile = true)
    (hc : conf.isTwoSided = true → 0 ≤ cOf crit conf p.dof * p.sem.val) :
    (finish crit conf (.ok p) : Outcome (Err Rex) (Interval Rex)) =
      .ok (shapeOf conf (⟨p.mean.val - cOf crit conf p.dof * p.sem.val⟩ : Rex)
        ⟨p.mean.val + cOf crit conf p.dof * p.sem.val⟩) := by
  rw [finish_rex_eq crit conf p hd hp, intervalOfKind_pm]
  cases conf with
  | twoSided l => simp only [shapeOf]; rw [if_pos (hc rfl)]
  | upper l => rfl
  | lower l => rfl

/-- the tail's interval contains the mean: always for the two-sided kind, and for a one-sided kind
    when the critical value is non-negative -/
theorem finish_contains (crit : Crit Rex) (conf : Confidence Rex) (p : Arith.Prep Rex)
    (I : Interval Rex) (h : finish crit conf (.ok p) = .ok I) (hs : 0 ≤ p.sem.val)
    (hc : conf.isTwoSided = true ∨ 0 ≤ cOf crit conf p.dof) : I.contains p.mean = true := by
  obtain ⟨_, _, hI, h2⟩ := finish_ok_rex crit conf p I h
  have hcs : 0 ≤ cOf crit conf p.dof * p.sem.val := by
    rcases hc with ht | hc
    · exact h2 ht
    · exact mul_nonneg hc hs
  subst hI
  cases conf <;> simp [shapeOf, Interval.contains] <;> linarith

/-- a larger critical value on the same statistics gives an including interval -/
theorem finish_nested (crit : Crit Rex) (c₁ c₂ : Confidence Rex) (hk : c₁.kind = c₂.kind)
    (p : Arith.Prep Rex) (i₁ i₂ : Interval Rex) (h₁ : finish crit c₁ (.ok p) = .ok i₁)
    (h₂ : finish crit c₂ (.ok p) = .ok i₂) (hs : 0 ≤ p.sem.val)
    (hc : cOf crit c₁ p.dof ≤ cOf crit c₂ p.dof) : i₂.includes i₁ = true := by
  obtain ⟨_, _, hI₁, _⟩ := finish_ok_rex crit c₁ p i₁ h₁
  obtain ⟨_, _, hI₂, _⟩ := finish_ok_rex crit c₂ p i₂ h₂
  have := mul_le_mul_of_nonneg_right hc hs
  subst hI₁ hI₂
  cases c₁ <;> cases c₂ <;> simp only [Confidence.kind, reduceCtorEq] at hk <;>
    simp [shapeOf, Interval.includes] <;> (try constructor) <;> linarith

/-- success is transferred between confidences of the same kind (the two-sided kind needs
    `c·sem ≥ 0` at the target) -/
theorem finish_ok_transfer (crit : Crit Rex) (c₁ c₂ : Confidence Rex) (p : Arith.Prep Rex)
    (i₂ : Interval Rex) (h₂ : finish crit c₂ (.ok p) = .ok i₂)
    (hp₁ : probOk c₁.quantile = true)
    (hc₁ : c₁.isTwoSided = true → 0 ≤ cOf crit c₁ p.dof * p.sem.val) :
    ∃ i₁ : Interval Rex, finish crit c₁ (.ok p) = .ok i₁ := by
  obtain ⟨hd, _, _, _⟩ := finish_ok_rex crit c₂ p i₂ h₂
  exact ⟨_, finish_rex_ok crit c₁ p hd hp₁ hc₁⟩

theorem finish_of_not_ok {F W : Type} [Scalar F] [Scalar W] [Widen F W] (crit : Crit W)
    (conf : Confidence W) (P : Outcome (Err W) (Arith.Prep W)) (I : Interval F)
    (h : finish crit conf P = .ok I) : ∃ p, P = .ok p := by
  cases P with
  | ok p => exact ⟨p, rfl⟩
  | err e => simp [finish] at h
  | panic t => simp [finish] at h

/-! ### the statistics handed to the tail -/

theorem Arith.ciPrep_ok_rex (a : Arith Rex) (p : Arith.Prep Rex)
    (h : (Arith.ciPrep a : Outcome (Err Rex) (Arith.Prep Rex)) = .ok p) :
    2 ≤ a.count ∧ p.mean = a.mean ∧ p.dof = sub (Scalar.ofNat a.count) one ∧ 0 ≤ p.sem.val := by
  unfold Arith.ciPrep at h
  split_ifs at h with h1
  simp only [RR.isFinite_eq, Bool.not_true, Bool.or_self, Bool.false_eq_true, if_false,
    Outcome.ok.injEq] at h
  subst h
  refine ⟨by omega, rfl, rfl, ?_⟩
  simp only [RR.div_val, RR.up_eq, Arith.stdDev, RR.sqrt_val, id_eq]
  exact div_nonneg (Real.sqrt_nonneg _) (Real.sqrt_nonneg _)

theorem Unpaired.ciPrep_ok_rex (u : Unpaired Rex) (p : Arith.Prep Rex)
    (h : (Unpaired.ciPrep u : Outcome (Err Rex) (Arith.Prep Rex)) = .ok p) :
    2 ≤ u.a.count ∧ 2 ≤ u.b.count ∧ p.mean = sub u.a.mean u.b.mean ∧ 0 ≤ p.sem.val := by
  unfold Unpaired.ciPrep at h
  split_ifs at h with h1 h2
  simp only [RR.isFinite_eq, Bool.not_true, Bool.or_self, Bool.false_eq_true, if_false,
    Outcome.ok.injEq] at h
  subst h
  refine ⟨by omega, by omega, rfl, ?_⟩
  simp only [RR.up_eq, RR.sqrt_val, id_eq]
  exact Real.sqrt_nonneg _

end rex

/-! ## exact arithmetic: the mean-type producers -/

section producers
open QSpec

/-- containment of the mean on the tail, for any prepared statistics with `sem ≥ 0` -/
theorem finish_contains' (crit : Crit Rex) (conf : Confidence Rex)
    (P : Outcome (Err Rex) (Arith.Prep Rex)) (I : Interval Rex) (h : finish crit conf P = .ok I)
    (hs : ∀ p, P = .ok p → 0 ≤ p.sem.val)
    (hc : conf.isTwoSided = true ∨ ∀ p, P = .ok p → 0 ≤ cOf crit conf p.dof) :
    ∃ p, P = .ok p ∧ I.contains p.mean = true := by
  obtain ⟨p, hP⟩ := finish_of_not_ok crit conf P I h
  refine ⟨p, hP, ?_⟩
  rw [hP] at h
  exact finish_contains crit conf p I h (hs p hP) (hc.imp id fun hc => hc p hP)

theorem finish_nested' {crit : Crit Rex} (hm : CritMono crit) (c₁ c₂ : Confidence Rex)
    (hk : c₁.kind = c₂.kind) (hl : c₁.level.val ≤ c₂.level.val)
    (P : Outcome (Err Rex) (Arith.Prep Rex)) (i₁ i₂ : Interval Rex)
    (h₁ : finish crit c₁ P = .ok i₁) (h₂ : finish crit c₂ P = .ok i₂)
    (hs : ∀ p, P = .ok p → 0 ≤ p.sem.val) : i₂.includes i₁ = true := by
  obtain ⟨p, hP⟩ := finish_of_not_ok crit c₁ P i₁ h₁
  rw [hP] at h₁ h₂
  exact finish_nested crit c₁ c₂ hk p i₁ i₂ h₁ h₂ (hs p hP)
    (cOf_mono hm c₁ c₂ p.dof (quantile_le_of_level c₁ c₂ hk hl))

/-- with a monotone routine that vanishes at `1/2`, success of the tail does not depend on the
    (valid) confidence at all -/
theorem finish_ok_transfer' {crit : Crit Rex} (hm : CritMono crit) (hh : CritHalf crit)
    (c₁ c₂ : Confidence Rex) (hv₁ : ValidLevel c₁)
    (P : Outcome (Err Rex) (Arith.Prep Rex)) (i₂ : Interval Rex)
    (h₂ : finish crit c₂ P = .ok i₂) (hs : ∀ p, P = .ok p → 0 ≤ p.sem.val) :
    ∃ i₁ : Interval Rex, finish crit c₁ P = .ok i₁ := by
  obtain ⟨p, hP⟩ := finish_of_not_ok crit c₂ P i₂ h₂
  rw [hP] at h₂ ⊢
  refine finish_ok_transfer crit c₁ c₂ p i₂ h₂ (probOk_of_valid c₁ hv₁) fun ht => ?_
  exact mul_nonneg (cOf_nonneg hm hh c₁ p.dof (half_le_quantile c₁ hv₁.1.le (Or.inl ht))) (hs p hP)

theorem Arith.sem_nonneg (a : Arith Rex) :
    ∀ p, (Arith.ciPrep a : Outcome (Err Rex) (Arith.Prep Rex)) = .ok p → 0 ≤ p.sem.val :=
  fun p hP => (Arith.ciPrep_ok_rex a p hP).2.2.2

theorem Unpaired.sem_nonneg (u : Unpaired Rex) :
    ∀ p, (Unpaired.ciPrep u : Outcome (Err Rex) (Arith.Prep Rex)) = .ok p → 0 ≤ p.sem.val :=
  fun p hP => (Unpaired.ciPrep_ok_rex u p hP).2.2.2

theorem Arith.contains_mean (crit : Crit Rex) (a : Arith Rex) (conf : Confidence Rex)
    (I : Interval Rex) (h : a.ciMean crit conf = .ok I)
    (hc : conf.isTwoSided = true ∨ 0 ≤ cOf crit conf (sub (Scalar.ofNat a.count) one)) :
    I.contains a.mean = true := by
  rw [Arith.ciMean_eq_finish] at h
  obtain ⟨p, hP, hI⟩ := finish_contains' crit conf _ I h (Arith.sem_nonneg a)
    (hc.imp id fun hc p hP => by rw [(Arith.ciPrep_ok_rex a p hP).2.2.1]; exact hc)
  rw [← (Arith.ciPrep_ok_rex a p hP).2.1]; exact hI

theorem Unpaired.contains_mean (crit : Crit Rex) (u : Unpaired Rex) (conf : Confidence Rex)
    (I : Interval Rex) (h : u.ciMean crit conf = .ok I)
    (hc : conf.isTwoSided = true ∨ ∀ dof, 0 ≤ cOf crit conf dof) :
    I.contains (sub u.a.mean u.b.mean) = true := by
  rw [Unpaired.ciMean_eq_finish] at h
  obtain ⟨p, hP, hI⟩ := finish_contains' crit conf _ I h (Unpaired.sem_nonneg u)
    (hc.imp id fun hc p _ => hc p.dof)
  rw [← (Unpaired.ciPrep_ok_rex u p hP).2.2.1]; exact hI

theorem Arith.nested {crit : Crit Rex} (hm : CritMono crit) (a : Arith Rex)
    (c₁ c₂ : Confidence Rex) (hk : c₁.kind = c₂.kind) (hl : c₁.level.val ≤ c₂.level.val)
    (i₁ i₂ : Interval Rex) (h₁ : a.ciMean crit c₁ = .ok i₁) (h₂ : a.ciMean crit c₂ = .ok i₂) :
    i₂.includes i₁ = true :=
  finish_nested' hm c₁ c₂ hk hl _ i₁ i₂ h₁ h₂ (Arith.sem_nonneg a)

theorem Unpaired.nested {crit : Crit Rex} (hm : CritMono crit) (u : Unpaired Rex)
    (c₁ c₂ : Confidence Rex) (hk : c₁.kind = c₂.kind) (hl : c₁.level.val ≤ c₂.level.val)
    (i₁ i₂ : Interval Rex) (h₁ : u.ciMean crit c₁ = .ok i₁) (h₂ : u.ciMean crit c₂ = .ok i₂) :
    i₂.includes i₁ = true :=
  finish_nested' hm c₁ c₂ hk hl _ i₁ i₂ h₁ h₂ (Unpaired.sem_nonneg u)

theorem Arith.ok_transfer {crit : Crit Rex} (hm : CritMono crit) (hh : CritHalf crit)
    (a : Arith Rex) (c₁ c₂ : Confidence Rex) (hv₁ : ValidLevel c₁) (i₂ : Interval Rex)
    (h₂ : a.ciMean crit c₂ = .ok i₂) : ∃ i₁ : Interval Rex, a.ciMean crit c₁ = .ok i₁ :=
  finish_ok_transfer' hm hh c₁ c₂ hv₁ _ i₂ h₂ (Arith.sem_nonneg a)

theorem Unpaired.ok_transfer {crit : Crit Rex} (hm : CritMono crit) (hh : CritHalf crit)
    (u : Unpaired Rex) (c₁ c₂ : Confidence Rex) (hv₁ : ValidLevel c₁) (i₂ : Interval Rex)
    (h₂ : u.ciMean crit c₂ = .ok i₂) : ∃ i₁ : Interval Rex, u.ciMean crit c₁ = .ok i₁ :=
  finish_ok_transfer' hm hh c₁ c₂ hv₁ _ i₂ h₂ (Unpaired.sem_nonneg u)

/-! ### geometric: `exp` of the log-space interval -/

theorem map_ok_iff {ε β γ : Type} (x : Outcome ε β) (f : β → γ) (c : γ) :
    x.map f = .ok c ↔ ∃ b, x = .ok b ∧ c = f b := by
  cases x with
  | ok b => simp [Outcome.map, eq_comm]
  | err e => simp [Outcome.map]
  | panic t => simp [Outcome.map]

/-- `Geometric::ci_mean` is `exp` of the log-space interval, bound by bound, same kind;
    errors and panics pass through -/
theorem Geometric.ciMean_map_exp (crit : Crit Rex) (g : Geometric Rex) (conf : Confidence Rex) :
    g.ciMean crit conf = (g.logs.ciMean crit conf).map (Interval.map Scalar.exp) := by
  unfold Geometric.ciMean
  cases h : g.logs.ciMean crit conf with
  | err e => rfl
  | panic t => rfl
  | ok I =>
    have hk := Arith.ciMean_ok_kind crit g.logs conf I h
    cases conf with
    | twoSided l =>
      obtain ⟨lo, hi, rfl, hg⟩ := hk
      have hle : lo.val ≤ hi.val := by
        rw [Bool.eq_false_iff, Ne, RR.gt_iff] at hg
        exact not_lt.mp hg
      have : gt (Scalar.exp lo : Rex) (Scalar.exp hi) = false := by
        rw [Bool.eq_false_iff, Ne, RR.gt_iff]
        simp only [RR.exp_val, id_eq, not_lt]
        exact Real.exp_le_exp.mpr hle
      simp only [Outcome.bind_ok, Outcome.map, intervalOfKind, Interval.new, Interval.lowX,
        Interval.highX, Interval.map, this, liftI, Bool.false_eq_true, if_false]
    | upper l =>
      obtain ⟨lo, rfl⟩ := hk
      simp [Outcome.map, intervalOfKind, Interval.newUpper, Interval.lowX, Interval.map]
    | lower l =>
      obtain ⟨hi, rfl⟩ := hk
      simp [Outcome.map, intervalOfKind, Interval.newLower, Interval.highX, Interval.map]

theorem contains_map_exp (J : Interval Rex) (x : Rex) (h : J.contains x = true) :
    (J.map Scalar.exp).contains (Scalar.exp x) = true := by
  cases J <;> simp only [Interval.map, Interval.contains, Bool.and_eq_true, RR.le_iff, RR.exp_val,
    id_eq, Real.exp_le_exp] at h ⊢ <;> exact h

theorem includes_map_exp (J₂ J₁ : Interval Rex) (h : J₂.includes J₁ = true) :
    (J₂.map Scalar.exp).includes (J₁.map Scalar.exp) = true := by
  cases J₂ <;> cases J₁ <;> simp only [Interval.map, Interval.includes, Bool.and_eq_true, RR.le_iff,
    RR.ge_iff, RR.exp_val, id_eq, Real.exp_le_exp, Bool.false_eq_true] at h ⊢ <;> exact h

theorem Geometric.contains_mean (crit : Crit Rex) (g : Geometric Rex) (conf : Confidence Rex)
    (I : Interval Rex) (h : g.ciMean crit conf = .ok I)
    (hc : conf.isTwoSided = true ∨ 0 ≤ cOf crit conf (sub (Scalar.ofNat g.logs.count) one)) :
    I.contains g.mean = true := by
  rw [Geometric.ciMean_map_exp, map_ok_iff] at h
  obtain ⟨J, hJ, rfl⟩ := h
  exact contains_map_exp J _ (Arith.contains_mean crit g.logs conf J hJ hc)

theorem Geometric.nested {crit : Crit Rex} (hm : CritMono crit) (g : Geometric Rex)
    (c₁ c₂ : Confidence Rex) (hk : c₁.kind = c₂.kind) (hl : c₁.level.val ≤ c₂.level.val)
    (i₁ i₂ : Interval Rex) (h₁ : g.ciMean crit c₁ = .ok i₁) (h₂ : g.ciMean crit c₂ = .ok i₂) :
    i₂.includes i₁ = true := by
  rw [Geometric.ciMean_map_exp, map_ok_iff] at h₁ h₂
  obtain ⟨J₁, hJ₁, rfl⟩ := h₁
  obtain ⟨J₂, hJ₂, rfl⟩ := h₂
  exact includes_map_exp J₂ J₁ (Arith.nested hm g.logs c₁ c₂ hk hl J₁ J₂ hJ₁ hJ₂)

theorem Geometric.ok_transfer {crit : Crit Rex} (hm : CritMono crit) (hh : CritHalf crit)
    (g : Geometric Rex) (c₁ c₂ : Confidence Rex) (hv₁ : ValidLevel c₁) (i₂ : Interval Rex)
    (h₂ : g.ciMean crit c₂ = .ok i₂) : ∃ i₁ : Interval Rex, g.ciMean crit c₁ = .ok i₁ := by
  rw [Geometric.ciMean_map_exp, map_ok_iff] at h₂
  obtain ⟨J₂, hJ₂, _⟩ := h₂
  obtain ⟨J₁, hJ₁⟩ := Arith.ok_transfer hm hh g.logs c₁ c₂ hv₁ J₂ hJ₂
  exact ⟨_, by rw [Geometric.ciMean_map_exp, hJ₁]; rfl⟩

end producers

/-! ## exact arithmetic: proportions -/

section proportion
open QSpec Proportion WilsonMono

/-- Wilson bounds under `z ↦ −z`: the ends are exchanged -/
theorem lowerR_neg (n k z : ℝ) : lowerR n k (-z) = upperR n k z := by
  rw [lowerR_eq, upperR_eq]; simp only [WilsonMono.D]; ring_nf

theorem upperR_neg (n k z : ℝ) : upperR n k (-z) = lowerR n k z := by
  rw [lowerR_eq, upperR_eq]; simp only [WilsonMono.D]; ring_nf

/-- the upper Wilson bound is monotone in `z` on all of ℝ -/
theorem upperR_mono (n k z₁ z₂ : ℝ) (hn : 0 < n) (hk0 : 0 ≤ k) (hkn : k ≤ n) (hz : z₁ ≤ z₂) :
    upperR n k z₁ ≤ upperR n k z₂ := by
  rcases le_or_gt 0 z₁ with h1 | h1
  · exact upperR_mono_z n k z₁ z₂ hn h1 hz hk0 hkn
  · rcases le_or_gt z₂ 0 with h2 | h2
    · have := lowerR_anti_z n k (-z₂) (-z₁) hn (by linarith) (by linarith) hk0 hkn
      rwa [lowerR_neg, lowerR_neg] at this
    · have a := lowerR_anti_z n k 0 (-z₁) hn le_rfl (by linarith) hk0 hkn
      rw [lowerR_neg] at a
      have b := lowerR_le_upperR n k 0 hn le_rfl
      have c := upperR_mono_z n k 0 z₂ hn le_rfl h2.le hk0 hkn
      linarith

/-- the lower Wilson bound is antitone in `z` on all of ℝ -/
theorem lowerR_anti (n k z₁ z₂ : ℝ) (hn : 0 < n) (hk0 : 0 ≤ k) (hkn : k ≤ n) (hz : z₁ ≤ z₂) :
    lowerR n k z₂ ≤ lowerR n k z₁ := by
  have := upperR_mono n k (-z₂) (-z₁) hn hk0 hkn (by linarith)
  rwa [upperR_neg, upperR_neg] at this

/-- the three shapes `Proportion.finish` / `Proportion.finishWilson` return -/
def propShape (conf : Confidence Rex) (lo hi : ℝ) : Interval Rex :=
  match conf with
  | .twoSided _ => .twoSided ⟨lo⟩ ⟨hi⟩
  | .upper _ => .twoSided ⟨lo⟩ ⟨1⟩
  | .lower _ => .twoSided ⟨0⟩ ⟨hi⟩

/-- what `Interval::new` checks inside `Proportion.finish` -/
def PropAdm (conf : Confidence Rex) (m s : ℝ) : Prop :=
  match conf with
  | .twoSided _ => 0 ≤ s
  | .upper _ => m - s ≤ 1
  | .lower _ => 0 ≤ m + s

theorem pfinish_rex_eq (conf : Confidence Rex) (m s : Rex) (h : PropAdm conf m.val s.val) :
    Proportion.finish conf m s = .ok (propShape conf (m.val - s.val) (m.val + s.val)) := by
  cases conf with
  | twoSided l => exact Wilson.finish_twoSided l m s h
  | upper l => exact Wilson.finish_upper l m s h
  | lower l => exact Wilson.finish_lower l m s h

theorem pfinish_ok_rex (conf : Confidence Rex) (m s : Rex) (I : Interval Rex)
    (h : Proportion.finish conf m s = .ok I) :
    I = propShape conf (m.val - s.val) (m.val + s.val) ∧ PropAdm conf m.val s.val := by
  have hadm : PropAdm conf m.val s.val := by
    by_contra hn
    cases conf with
    | twoSided l =>
      rw [Wilson.finish_twoSided_neg l m s (not_le.mp hn)] at h; cases h
    | upper l =>
      rw [Wilson.finish_upper_rej l m s (not_le.mp hn)] at h; cases h
    | lower l =>
      rw [Wilson.finish_lower_rej l m s (not_le.mp hn)] at h; cases h
  rw [pfinish_rex_eq conf m s hadm] at h
  simp only [Outcome.ok.injEq] at h
  exact ⟨h.symm, hadm⟩

theorem lowerR_bridge (n k : ℕ) (z : Rex) :
    (wilsonCentre (Scalar.ofNat n : Rex) (Scalar.ofNat k) z).val -
      (wilsonSpan (Scalar.ofNat n : Rex) (Scalar.ofNat k) z).val = lowerR n k z.val := rfl

theorem upperR_bridge (n k : ℕ) (z : Rex) :
    (wilsonCentre (Scalar.ofNat n : Rex) (Scalar.ofNat k) z).val +
      (wilsonSpan (Scalar.ofNat n : Rex) (Scalar.ofNat k) z).val = upperR n k z.val := rfl

theorem pLow_eq_lowerR (n k : ℕ) (z : ℝ) : pLow n k z = lowerR n k z := by
  rw [← lowerR_bridge n k ⟨z⟩, Quantile.wilsonCentre_val, Quantile.wilsonSpan_val]; rfl

theorem pHigh_eq_upperR (n k : ℕ) (z : ℝ) : pHigh n k z = upperR n k z := by
  rw [← upperR_bridge n k ⟨z⟩, Quantile.wilsonCentre_val, Quantile.wilsonSpan_val]; rfl

theorem wilson_adm (conf : Confidence Rex) (n k : ℕ) (hn : 0 < n) (hkn : k ≤ n) (z : Rex)
    (hz : conf.isTwoSided = true → 0 ≤ z.val) :
    PropAdm conf (wilsonCentre (Scalar.ofNat n : Rex) (Scalar.ofNat k) z).val
      (wilsonSpan (Scalar.ofNat n : Rex) (Scalar.ofNat k) z).val := by
  rw [Quantile.wilsonCentre_val, Quantile.wilsonSpan_val]
  cases conf with
  | twoSided l => exact QSpec.span_nonneg n k z.val hn (hz rfl)
  | upper l => exact (QSpec.upper_le_one n k z.val hn hkn).1
  | lower l => exact (QSpec.lower_nonneg n k z.val hn hkn).2

/-- at exact arithmetic both Wilson numbers `centre ∓ span` are proportions whatever the sign of the
    critical value (`QSpec.lower_nonneg`, `QSpec.upper_le_one`), so the clamp of `ci_wilson` is the
    identity and its tail is `Proportion.finish` -/
theorem finishWilson_rex_eq (conf : Confidence Rex) (n k : ℕ) (hn : 0 < n) (hkn : k ≤ n) (z : Rex) :
    Proportion.finishWilson conf (wilsonCentre (Scalar.ofNat n : Rex) (Scalar.ofNat k) z)
        (wilsonSpan (Scalar.ofNat n : Rex) (Scalar.ofNat k) z) =
      Proportion.finish conf (wilsonCentre (Scalar.ofNat n : Rex) (Scalar.ofNat k) z)
        (wilsonSpan (Scalar.ofNat n : Rex) (Scalar.ofNat k) z) := by
  apply Proportion.finishWilson_eq_finish <;>
    rw [Quantile.wilsonCentre_val, Quantile.wilsonSpan_val]
  · exact (QSpec.lower_nonneg n k z.val hn hkn).1
  · exact (QSpec.upper_le_one n k z.val hn hkn).2
  · exact (QSpec.upper_le_one n k z.val hn hkn).1
  · exact (QSpec.lower_nonneg n k z.val hn hkn).2

/-- `ci_wilson` at exact arithmetic, past the count tests and the probability test: the unclamped
    tail (every oracle, no sign condition on the critical value) -/
theorem ciWilson_eq_finish (crit : Crit Rex) (conf : Confidence Rex) (n k : ℕ) (hk : 2 ≤ k)
    (hkn : k + 2 ≤ n) (hp : probOk conf.quantile = true) :
    ciWilson crit conf n k =
      Proportion.finish conf
        (wilsonCentre (Scalar.ofNat n) (Scalar.ofNat k) (crit (.z conf.quantile)))
        (wilsonSpan (Scalar.ofNat n) (Scalar.ofNat k) (crit (.z conf.quantile))) := by
  rw [ciWilson_eq_finishWilson crit conf n k hk hkn hp,
    finishWilson_rex_eq conf n k (by omega) (by omega)]

/-- a successful `ci_wilson` at exact arithmetic: the shape of the kind with the Wilson ends; a
    two-sided success forces a non-negative critical value -/
theorem ciWilson_ok_rex (crit : Crit Rex) (conf : Confidence Rex) (n k : ℕ) (I : Interval Rex)
    (h : ciWilson crit conf n k = .ok I) :
    2 ≤ k ∧ k + 2 ≤ n ∧ probOk conf.quantile = true ∧
    I = propShape conf (lowerR n k (zOf crit conf)) (upperR n k (zOf crit conf)) ∧
    (conf.isTwoSided = true → 0 ≤ zOf crit conf) := by
  obtain ⟨hk, hkn, hp, hf⟩ := ciWilson_ok crit conf n k I h
  rw [finishWilson_rex_eq conf n k (by omega) (by omega)] at hf
  obtain ⟨hI, hadm⟩ := pfinish_ok_rex conf _ _ I hf
  refine ⟨hk, hkn, hp, hI, fun ht => ?_⟩
  by_contra hz
  cases conf with
  | twoSided l =>
    have := QSpec.span_neg n k (zOf crit (.twoSided l)) (by omega) (by omega) (not_le.mp hz)
    simp only [PropAdm, Quantile.wilsonSpan_val] at hadm
    linarith
  | upper l => simp [Confidence.isTwoSided] at ht
  | lower l => simp [Confidence.isTwoSided] at ht

theorem ciWilson_rex_eq (crit : Crit Rex) (conf : Confidence Rex) (n k : ℕ) (hk : 2 ≤ k)
    (hkn : k + 2 ≤ n) (hp : probOk conf.quantile = true)
    (hz : conf.isTwoSided = true → 0 ≤ zOf crit conf) :
    ciWilson crit conf n k =
      .ok (propShape conf (lowerR n k (zOf crit conf)) (upperR n k (zOf crit conf))) := by
  rw [ciWilson_eq_finish crit conf n k hk hkn hp]
  exact pfinish_rex_eq conf _ _ (wilson_adm conf n k (by omega) (by omega) _ hz)

/-- Wilson: one-sided at `L` versus two-sided at `2L − 1`, every `L`, every oracle -/
theorem Wilson.one_vs_two (crit : Crit Rex) (L : ℝ) (n k : ℕ) (lo hi : Rex)
    (h : ciWilson crit (.twoSided ⟨2 * L - 1⟩) n k = .ok (.twoSided lo hi)) :
    ciWilson crit (.upper ⟨L⟩) n k = .ok (.twoSided lo ⟨1⟩) ∧
    ciWilson crit (.lower ⟨L⟩) n k = .ok (.twoSided ⟨0⟩ hi) := by
  obtain ⟨hk, hkn, hp, hI, _⟩ := ciWilson_ok_rex crit _ n k _ h
  have hz : zOf crit (.twoSided ⟨2 * L - 1⟩) = (crit (.z ⟨L⟩)).val := by
    unfold zOf; rw [quantile_two]
  rw [quantile_two] at hp
  simp only [propShape, Interval.twoSided.injEq, hz] at hI
  rw [hI.1, hI.2]
  exact ⟨ciWilson_rex_eq crit (.upper ⟨L⟩) n k hk hkn hp (by simp [Confidence.isTwoSided]),
    ciWilson_rex_eq crit (.lower ⟨L⟩) n k hk hkn hp (by simp [Confidence.isTwoSided])⟩

theorem propShape_includes (c₁ c₂ : Confidence Rex) (hk : c₁.kind = c₂.kind)
    (lo₁ hi₁ lo₂ hi₂ : ℝ) (hlo : lo₂ ≤ lo₁) (hhi : hi₁ ≤ hi₂) :
    (propShape c₂ lo₂ hi₂).includes (propShape c₁ lo₁ hi₁) = true := by
  cases c₁ <;> cases c₂ <;> simp only [Confidence.kind, reduceCtorEq] at hk <;>
    simp [propShape, Interval.includes, hlo, hhi]

/-- Wilson: a higher level of the same kind gives an including interval; only monotonicity of the
    normal quantile routine is used (no sign condition: a two-sided success forces `z ≥ 0`, and the
    one-sided bounds are monotone in `z` on all of ℝ) -/
theorem Wilson.nested {crit : Crit Rex} (hm : CritMono crit) (c₁ c₂ : Confidence Rex)
    (hk : c₁.kind = c₂.kind) (hl : c₁.level.val ≤ c₂.level.val) (n k : ℕ)
    (i₁ i₂ : Interval Rex) (h₁ : ciWilson crit c₁ n k = .ok i₁)
    (h₂ : ciWilson crit c₂ n k = .ok i₂) : i₂.includes i₁ = true := by
  obtain ⟨hk2, hkn, _, hI₁, _⟩ := ciWilson_ok_rex crit c₁ n k i₁ h₁
  obtain ⟨_, _, _, hI₂, _⟩ := ciWilson_ok_rex crit c₂ n k i₂ h₂
  have hz := zOf_mono hm c₁ c₂ (quantile_le_of_level c₁ c₂ hk hl)
  have hn : (0 : ℝ) < n := by exact_mod_cast (by omega : 0 < n)
  have h0 : (0 : ℝ) ≤ k := Nat.cast_nonneg k
  have h2 : (k : ℝ) ≤ n := by exact_mod_cast (by omega : k ≤ n)
  rw [hI₁, hI₂]
  exact propShape_includes c₁ c₂ hk _ _ _ _ (lowerR_anti n k _ _ hn h0 h2 hz)
    (upperR_mono n k _ _ hn h0 h2 hz)

theorem Wilson.contains_ratio (crit : Crit Rex) (conf : Confidence Rex) (n k : ℕ)
    (I : Interval Rex) (h : ciWilson crit conf n k = .ok I)
    (hz : conf.isTwoSided = true ∨ 0 ≤ zOf crit conf) :
    I.contains (div (Scalar.ofNat k) (Scalar.ofNat n) : Rex) = true := by
  obtain ⟨hk2, hkn, _, hI, hz2⟩ := ciWilson_ok_rex crit conf n k I h
  have hz' : 0 ≤ zOf crit conf := hz.elim hz2 id
  have hn : (0 : ℝ) < n := by exact_mod_cast (by omega : 0 < n)
  have h0 : (0 : ℝ) ≤ k := Nat.cast_nonneg k
  have h2 : (k : ℝ) ≤ n := by exact_mod_cast (by omega : k ≤ n)
  have a := lowerR_le_ratio n k _ hn hz' h0 h2
  have b := ratio_le_upperR n k _ hn hz' h0 h2
  have hr0 : (0 : ℝ) ≤ (k : ℝ) / n := by positivity
  have hr1 : (k : ℝ) / n ≤ 1 := by rw [div_le_one hn]; exact h2
  rw [hI]
  cases conf <;> simp [propShape, Interval.contains] <;> constructor <;> assumption

theorem Wilson.ok_transfer (crit : Crit Rex) (c₁ c₂ : Confidence Rex) (hv₁ : ValidLevel c₁)
    (hz₁ : c₁.isTwoSided = true → 0 ≤ zOf crit c₁) (n k : ℕ) (i₂ : Interval Rex)
    (h₂ : ciWilson crit c₂ n k = .ok i₂) : ∃ i₁ : Interval Rex, ciWilson crit c₁ n k = .ok i₁ := by
  obtain ⟨hk2, hkn, _, _, _⟩ := ciWilson_ok_rex crit c₂ n k i₂ h₂
  exact ⟨_, ciWilson_rex_eq crit c₁ n k hk2 hkn (probOk_of_valid c₁ hv₁) hz₁⟩

/-! ### Wald -/

theorem waldSdM_nonneg (n k : ℕ) : 0 ≤ (waldSdM n k : Rex).val := by
  simp only [waldSdM, RR.sqrt_val, id_eq]; exact Real.sqrt_nonneg _

theorem ratio_val (n k : ℕ) : (div (Scalar.ofNat k) (Scalar.ofNat n) : Rex).val = (k : ℝ) / n := by
  simp

theorem wald_adm (conf : Confidence Rex) (n k : ℕ) (hn : 0 < n) (hkn : k ≤ n) (z : Rex)
    (hz : 0 ≤ z.val) :
    PropAdm conf (div (Scalar.ofNat k) (Scalar.ofNat n) : Rex).val
      (mul z (waldSdM n k) : Rex).val := by
  have hn' : (0 : ℝ) < n := by exact_mod_cast hn
  have h2 : (k : ℝ) ≤ n := by exact_mod_cast hkn
  have hr0 : (0 : ℝ) ≤ (k : ℝ) / n := by positivity
  have hr1 : (k : ℝ) / n ≤ 1 := by rw [div_le_one hn']; exact h2
  have hs : 0 ≤ z.val * (waldSdM n k : Rex).val := mul_nonneg hz (waldSdM_nonneg n k)
  rw [ratio_val]
  simp only [RR.mul_val, id_eq]
  cases conf <;> simp only [PropAdm] <;> linarith

/-- a successful `ci_z_normal` at exact arithmetic -/
theorem ciZNormal_ok_rex (crit : Crit Rex) (conf : Confidence Rex) (n k : ℕ) (I : Interval Rex)
    (h : ciZNormal crit conf n k = .ok I) :
    10 ≤ k ∧ k + 10 ≤ n ∧ probOk conf.quantile = true ∧
    I = propShape conf ((k : ℝ) / n - zOf crit conf * (waldSdM n k : Rex).val)
      ((k : ℝ) / n + zOf crit conf * (waldSdM n k : Rex).val) ∧
    (conf.isTwoSided = true → 0 ≤ zOf crit conf * (waldSdM n k : Rex).val) := by
  obtain ⟨hk, hkn, hp, hf⟩ := ciZNormal_ok crit conf n k I h
  obtain ⟨hI, hadm⟩ := pfinish_ok_rex conf _ _ I hf
  rw [ratio_val] at hI
  refine ⟨hk, hkn, hp, hI, fun ht => ?_⟩
  cases conf with
  | twoSided l => simpa [PropAdm] using hadm
  | upper l => simp [Confidence.isTwoSided] at ht
  | lower l => simp [Confidence.isTwoSided] at ht

theorem ciZNormal_rex_eq (crit : Crit Rex) (conf : Confidence Rex) (n k : ℕ) (hk : 10 ≤ k)
    (hkn : k + 10 ≤ n) (hp : probOk conf.quantile = true)
    (hadm : PropAdm conf ((k : ℝ) / n) (zOf crit conf * (waldSdM n k : Rex).val)) :
    ciZNormal crit conf n k =
      .ok (propShape conf ((k : ℝ) / n - zOf crit conf * (waldSdM n k : Rex).val)
        ((k : ℝ) / n + zOf crit conf * (waldSdM n k : Rex).val)) := by
  rw [ciZNormal_eq_finish crit conf n k hk hkn hp, pfinish_rex_eq conf _ _ (by
    rw [ratio_val]; simpa using hadm), ratio_val]
  rfl

theorem Wald.one_vs_two (crit : Crit Rex) (L : ℝ) (n k : ℕ) (lo hi : Rex)
    (h : ciZNormal crit (.twoSided ⟨2 * L - 1⟩) n k = .ok (.twoSided lo hi)) :
    ciZNormal crit (.upper ⟨L⟩) n k = .ok (.twoSided lo ⟨1⟩) ∧
    ciZNormal crit (.lower ⟨L⟩) n k = .ok (.twoSided ⟨0⟩ hi) := by
  obtain ⟨hk, hkn, hp, hI, hs⟩ := ciZNormal_ok_rex crit _ n k _ h
  have hz : zOf crit (.twoSided ⟨2 * L - 1⟩) = (crit (.z ⟨L⟩)).val := by
    unfold zOf; rw [quantile_two]
  rw [quantile_two] at hp
  have hs' := hs rfl
  rw [hz] at hs'
  simp only [propShape, Interval.twoSided.injEq, hz] at hI
  have hn : (0 : ℝ) < n := by exact_mod_cast (by omega : 0 < n)
  have h2 : (k : ℝ) ≤ n := by exact_mod_cast (by omega : k ≤ n)
  have hr0 : (0 : ℝ) ≤ (k : ℝ) / n := by positivity
  have hr1 : (k : ℝ) / n ≤ 1 := by rw [div_le_one hn]; exact h2
  rw [hI.1, hI.2]
  constructor
  · exact ciZNormal_rex_eq crit (.upper ⟨L⟩) n k hk hkn hp (by
      show (k : ℝ) / n - (crit (.z ⟨L⟩)).val * _ ≤ 1; linarith)
  · exact ciZNormal_rex_eq crit (.lower ⟨L⟩) n k hk hkn hp (by
      show 0 ≤ (k : ℝ) / n + (crit (.z ⟨L⟩)).val * _; linarith)

theorem Wald.nested {crit : Crit Rex} (hm : CritMono crit) (c₁ c₂ : Confidence Rex)
    (hk : c₁.kind = c₂.kind) (hl : c₁.level.val ≤ c₂.level.val) (n k : ℕ)
    (i₁ i₂ : Interval Rex) (h₁ : ciZNormal crit c₁ n k = .ok i₁)
    (h₂ : ciZNormal crit c₂ n k = .ok i₂) : i₂.includes i₁ = true := by
  obtain ⟨_, _, _, hI₁, _⟩ := ciZNormal_ok_rex crit c₁ n k i₁ h₁
  obtain ⟨_, _, _, hI₂, _⟩ := ciZNormal_ok_rex crit c₂ n k i₂ h₂
  have hz := zOf_mono hm c₁ c₂ (quantile_le_of_level c₁ c₂ hk hl)
  have := mul_le_mul_of_nonneg_right hz (waldSdM_nonneg n k)
  rw [hI₁, hI₂]
  exact propShape_includes c₁ c₂ hk _ _ _ _ (by linarith) (by linarith)

theorem Wald.contains_ratio (crit : Crit Rex) (conf : Confidence Rex) (n k : ℕ)
    (I : Interval Rex) (h : ciZNormal crit conf n k = .ok I)
    (hz : conf.isTwoSided = true ∨ 0 ≤ zOf crit conf) :
    I.contains (div (Scalar.ofNat k) (Scalar.ofNat n) : Rex) = true := by
  obtain ⟨hk2, hkn, _, hI, hs2⟩ := ciZNormal_ok_rex crit conf n k I h
  have hs : 0 ≤ zOf crit conf * (waldSdM n k : Rex).val :=
    hz.elim hs2 fun hz => mul_nonneg hz (waldSdM_nonneg n k)
  have hn : (0 : ℝ) < n := by exact_mod_cast (by omega : 0 < n)
  have h2 : (k : ℝ) ≤ n := by exact_mod_cast (by omega : k ≤ n)
  have hr0 : (0 : ℝ) ≤ (k : ℝ) / n := by positivity
  have hr1 : (k : ℝ) / n ≤ 1 := by rw [div_le_one hn]; exact h2
  rw [hI]
  cases conf <;> simp [propShape, Interval.contains] <;> (try constructor) <;> linarith

theorem Wald.ok_transfer (crit : Crit Rex) (c₁ c₂ : Confidence Rex) (hv₁ : ValidLevel c₁)
    (hz₁ : 0 ≤ zOf crit c₁) (n k : ℕ) (i₂ : Interval Rex)
    (h₂ : ciZNormal crit c₂ n k = .ok i₂) : ∃ i₁ : Interval Rex, ciZNormal crit c₁ n k = .ok i₁ := by
  obtain ⟨hk2, hkn, _, _, _⟩ := ciZNormal_ok_rex crit c₂ n k i₂ h₂
  have := wald_adm c₁ n k (by omega) (by omega) (crit (.z c₁.quantile)) hz₁
  rw [ratio_val] at this
  exact ⟨_, ciZNormal_rex_eq crit c₁ n k hk2 hkn (probOk_of_valid c₁ hv₁) (by simpa using this)⟩

end proportion

/-! ## exact arithmetic: quantile ranks -/

section quantile
open QSpec Quantile WilsonMono

theorem validLevel_two (L : ℝ) (h1 : 1 / 2 < L) (h2 : L < 1) :
    ValidLevel (.twoSided (⟨2 * L - 1⟩ : Rex)) := by
  constructor <;> simp only [Confidence.level] <;> linarith

theorem validLevel_upper (L : ℝ) (h1 : 1 / 2 < L) (h2 : L < 1) :
    ValidLevel (.upper (⟨L⟩ : Rex)) := by
  constructor <;> simp only [Confidence.level] <;> linarith

theorem validLevel_lower (L : ℝ) (h1 : 1 / 2 < L) (h2 : L < 1) :
    ValidLevel (.lower (⟨L⟩ : Rex)) := by
  constructor <;> simp only [Confidence.level] <;> linarith

/-- a two-sided success of `ci_indices` forces a non-negative critical value -/
theorem ciIndices_twoSided_nonneg (crit : Crit Rex) (conf : Confidence Rex) (hv : ValidLevel conf)
    (n : ℕ) (q : Rex) (I : Interval ℕ) (h : ciIndices crit conf n q = .ok I)
    (ht : conf.isTwoSided = true) : 0 ≤ zOf crit conf := by
  obtain ⟨hq, hn, hk, hf, _⟩ := ciIndices_ok crit conf n q hv I h
  rw [ciIndices_main crit conf n q hv hq hn hk hf] at h
  cases conf with
  | twoSided l =>
    simp only at h
    by_contra hz
    rw [if_pos (not_le.mp hz)] at h
    cases h
  | upper l => simp [Confidence.isTwoSided] at ht
  | lower l => simp [Confidence.isTwoSided] at ht

theorem Quantile.one_vs_two (crit : Crit Rex) (L : ℝ) (h1 : 1 / 2 < L) (h2 : L < 1) (n : ℕ)
    (q : Rex) (lo hi : ℕ)
    (h : ciIndices crit (.twoSided ⟨2 * L - 1⟩) n q = .ok (.twoSided lo hi)) :
    ciIndices crit (.upper ⟨L⟩) n q = .ok (.upper lo) ∧
    ciIndices crit (.lower ⟨L⟩) n q = .ok (.lower hi) := by
  have hv := validLevel_two L h1 h2
  obtain ⟨hq, hn, hk, hf, _⟩ := ciIndices_ok crit _ n q hv _ h
  rw [ciIndices_main crit _ n q hv hq hn hk hf] at h
  simp only [quantile_two] at h
  split_ifs at h with hz
  simp only [Outcome.ok.injEq, Interval.twoSided.injEq] at h
  rw [ciIndices_main crit _ n q (validLevel_upper L h1 h2) hq hn hk hf,
    ciIndices_main crit _ n q (validLevel_lower L h1 h2) hq hn hk hf]
  simp only [Confidence.quantile]
  rw [← h.1, ← h.2]
  exact ⟨rfl, rfl⟩

theorem Quantile.nested {crit : Crit Rex} (hm : CritMono crit) (c₁ c₂ : Confidence Rex)
    (hv₁ : ValidLevel c₁) (hv₂ : ValidLevel c₂) (hk : c₁.kind = c₂.kind)
    (hl : c₁.level.val ≤ c₂.level.val) (n : ℕ) (q : Rex) (i₁ i₂ : Interval ℕ)
    (h₁ : ciIndices crit c₁ n q = .ok i₁) (h₂ : ciIndices crit c₂ n q = .ok i₂) :
    i₂.includes i₁ = true := by
  obtain ⟨hq, hn, hk2, hf, _⟩ := ciIndices_ok crit c₁ n q hv₁ i₁ h₁
  rw [ciIndices_main crit c₁ n q hv₁ hq hn hk2 hf] at h₁
  rw [ciIndices_main crit c₂ n q hv₂ hq hn hk2 hf] at h₂
  have hz : zOf crit c₁ ≤ zOf crit c₂ := zOf_mono hm c₁ c₂ (quantile_le_of_level c₁ c₂ hk hl)
  have hkn : successes q.val n ≤ n := by omega
  have hn' : (0 : ℝ) < n := by exact_mod_cast (by omega : 0 < n)
  have h0 : (0 : ℝ) ≤ (successes q.val n : ℕ) := Nat.cast_nonneg _
  have hk' : ((successes q.val n : ℕ) : ℝ) ≤ n := by exact_mod_cast hkn
  have hlo : rank n (pLow n (successes q.val n) (zOf crit c₂)) ≤
      rank n (pLow n (successes q.val n) (zOf crit c₁)) := by
    apply rank_mono; rw [pLow_eq_lowerR, pLow_eq_lowerR]
    exact lowerR_anti n _ _ _ hn' h0 hk' hz
  have hhi : rank n (pHigh n (successes q.val n) (zOf crit c₁)) ≤
      rank n (pHigh n (successes q.val n) (zOf crit c₂)) := by
    apply rank_mono; rw [pHigh_eq_upperR, pHigh_eq_upperR]
    exact upperR_mono n _ _ _ hn' h0 hk' hz
  cases c₁ <;> cases c₂ <;> simp only [Confidence.kind, reduceCtorEq] at hk
  · simp only at h₁ h₂
    split_ifs at h₁ h₂
    simp only [Outcome.ok.injEq] at h₁ h₂
    subst h₁ h₂
    simp only [Interval.includes, Cmp.le, Bool.and_eq_true, decide_eq_true_eq]
    exact ⟨hlo, hhi⟩
  · simp only [Outcome.ok.injEq] at h₁ h₂
    subst h₁ h₂
    simp only [Interval.includes, Cmp.le, decide_eq_true_eq]
    exact hlo
  · simp only [Outcome.ok.injEq] at h₁ h₂
    subst h₁ h₂
    simp only [Interval.includes, ge, Cmp.le, decide_eq_true_eq]
    exact hhi

theorem Quantile.ok_transfer (crit : Crit Rex) (c₁ c₂ : Confidence Rex) (hv₁ : ValidLevel c₁)
    (hv₂ : ValidLevel c₂) (hz₁ : c₁.isTwoSided = true → 0 ≤ zOf crit c₁) (n : ℕ) (q : Rex)
    (i₂ : Interval ℕ) (h₂ : ciIndices crit c₂ n q = .ok i₂) :
    ∃ i₁ : Interval ℕ, ciIndices crit c₁ n q = .ok i₁ := by
  obtain ⟨hq, hn, hk2, hf, _⟩ := ciIndices_ok crit c₂ n q hv₂ i₂ h₂
  rw [ciIndices_main crit c₁ n q hv₁ hq hn hk2 hf]
  cases c₁ with
  | twoSided l => simp only; rw [if_neg (not_lt.mpr (hz₁ rfl))]; exact ⟨_, rfl⟩
  | upper l => exact ⟨_, rfl⟩
  | lower l => exact ⟨_, rfl⟩

end quantile

/-! ## exact arithmetic: harmonic (reciprocal-space interval at the flipped confidence) -/

section harmonic
open QSpec

/-- every finite bound of a reciprocal-space interval is strictly positive (where the model's
    `recipBound r` is `1/r`) -/
def PosBounds (J : Interval Rex) : Prop :=
  match J with
  | .twoSided a b => 0 < a.val ∧ 0 < b.val
  | .upper a => 0 < a.val
  | .lower b => 0 < b.val

theorem recipBound_pos (r : Rex) (h : 0 < r.val) : (Harmonic.recipBound r).val = 1 / r.val := by
  have : gt r (zero : Rex) = true := by simpa using h
  simp [Harmonic.recipBound, this]

/-- the ends of the reciprocal-space interval as `Harmonic::ci_mean` reads them -/
noncomputable abbrev hiX (J : Interval Rex) : Rex := @Interval.highX Rex ⟨negInf, posInf⟩ J
noncomputable abbrev loX (J : Interval Rex) : Rex := @Interval.lowX Rex ⟨negInf, posInf⟩ J

theorem Harmonic.ciMean_ok_rex (crit : Crit Rex) (g : Harmonic Rex) (conf : Confidence Rex)
    (I : Interval Rex) (h : g.ciMean crit conf = .ok I) :
    ∃ J, g.recip.ciMean crit conf.flipped = .ok J ∧ KindMatch conf.flipped J ∧
      I = shapeOf conf (Harmonic.recipBound (hiX J)) (Harmonic.recipBound (loX J)) := by
  unfold Harmonic.ciMean at h
  obtain ⟨J, hJ, hI⟩ := (bind_ok_iff _ _ _).mp h
  exact ⟨J, hJ, finish_kind crit conf.flipped _ J hJ, (intervalOfKind_ok conf _ _ I hI).1⟩

theorem Harmonic.contains_mean (crit : Crit Rex) (g : Harmonic Rex) (conf : Confidence Rex)
    (I : Interval Rex) (h : g.ciMean crit conf = .ok I)
    (hc : conf.isTwoSided = true ∨ 0 ≤ cOf crit conf (sub (Scalar.ofNat g.recip.count) one))
    (hmean : 0 < g.recip.mean.val)
    (hpos : ∀ J, g.recip.ciMean crit conf.flipped = .ok J → PosBounds J) :
    I.contains g.mean = true := by
  obtain ⟨J, hJ, hkind, hI⟩ := Harmonic.ciMean_ok_rex crit g conf I h
  have hcont := Arith.contains_mean crit g.recip conf.flipped J hJ (by
    rw [flipped_isTwoSided, cOf_congr crit conf.flipped conf (flipped_quantile conf)]; exact hc)
  have hp := hpos J hJ
  have hm : g.mean.val = 1 / g.recip.mean.val := by simp [Harmonic.mean]
  subst hI
  cases conf with
  | twoSided l =>
    obtain ⟨a, b, rfl⟩ := hkind
    simp only [Interval.contains, Bool.and_eq_true, RR.le_iff] at hcont
    simp only [shapeOf, Interval.contains, Bool.and_eq_true, RR.le_iff, hiX, loX, Interval.highX,
      Interval.lowX, recipBound_pos _ hp.1, recipBound_pos _ hp.2, hm]
    exact ⟨one_div_le_one_div_of_le hmean hcont.2, one_div_le_one_div_of_le hp.1 hcont.1⟩
  | upper l =>
    obtain ⟨b, rfl⟩ := hkind
    simp only [Interval.contains, RR.le_iff] at hcont
    simp only [shapeOf, Interval.contains, RR.le_iff, hiX, Interval.highX,
      recipBound_pos _ hp, hm]
    exact one_div_le_one_div_of_le hmean hcont
  | lower l =>
    obtain ⟨a, rfl⟩ := hkind
    simp only [Interval.contains, RR.le_iff] at hcont
    simp only [shapeOf, Interval.contains, RR.le_iff, loX, Interval.lowX,
      recipBound_pos _ hp, hm]
    exact one_div_le_one_div_of_le hp hcont

theorem Harmonic.nested {crit : Crit Rex} (hm : CritMono crit) (g : Harmonic Rex)
    (c₁ c₂ : Confidence Rex) (hk : c₁.kind = c₂.kind) (hl : c₁.level.val ≤ c₂.level.val)
    (i₁ i₂ : Interval Rex) (h₁ : g.ciMean crit c₁ = .ok i₁) (h₂ : g.ciMean crit c₂ = .ok i₂)
    (hpos₁ : ∀ J, g.recip.ciMean crit c₁.flipped = .ok J → PosBounds J)
    (hpos₂ : ∀ J, g.recip.ciMean crit c₂.flipped = .ok J → PosBounds J) :
    i₂.includes i₁ = true := by
  obtain ⟨J₁, hJ₁, hkind₁, hI₁⟩ := Harmonic.ciMean_ok_rex crit g c₁ i₁ h₁
  obtain ⟨J₂, hJ₂, hkind₂, hI₂⟩ := Harmonic.ciMean_ok_rex crit g c₂ i₂ h₂
  have hinc := Arith.nested hm g.recip c₁.flipped c₂.flipped (flipped_kind_eq c₁ c₂ hk)
    (by rw [flipped_level, flipped_level]; exact hl) J₁ J₂ hJ₁ hJ₂
  have hp₁ := hpos₁ J₁ hJ₁
  have hp₂ := hpos₂ J₂ hJ₂
  subst hI₁ hI₂
  cases c₁ <;> cases c₂ <;> simp only [Confidence.kind, reduceCtorEq] at hk
  · obtain ⟨a₁, b₁, rfl⟩ := hkind₁
    obtain ⟨a₂, b₂, rfl⟩ := hkind₂
    simp only [Interval.includes, Bool.and_eq_true, RR.le_iff] at hinc
    simp only [shapeOf, Interval.includes, Bool.and_eq_true, RR.le_iff, hiX, loX, Interval.highX,
      Interval.lowX, recipBound_pos _ hp₁.1, recipBound_pos _ hp₁.2, recipBound_pos _ hp₂.1,
      recipBound_pos _ hp₂.2]
    exact ⟨one_div_le_one_div_of_le hp₁.2 hinc.2, one_div_le_one_div_of_le hp₂.1 hinc.1⟩
  · obtain ⟨b₁, rfl⟩ := hkind₁
    obtain ⟨b₂, rfl⟩ := hkind₂
    simp only [Interval.includes, RR.ge_iff] at hinc
    simp only [shapeOf, Interval.includes, RR.le_iff, hiX, Interval.highX,
      recipBound_pos _ hp₁, recipBound_pos _ hp₂]
    exact one_div_le_one_div_of_le hp₁ hinc
  · obtain ⟨a₁, rfl⟩ := hkind₁
    obtain ⟨a₂, rfl⟩ := hkind₂
    simp only [Interval.includes, RR.le_iff] at hinc
    simp only [shapeOf, Interval.includes, RR.ge_iff, loX, Interval.lowX,
      recipBound_pos _ hp₁, recipBound_pos _ hp₂]
    exact one_div_le_one_div_of_le hp₂ hinc

end harmonic

/-! ## success for every valid confidence, and a concrete instance (used for non-vacuity) -/

section instances
open QSpec Proportion Quantile WilsonMono

theorem Arith.ciPrep_rex_eq (a : Arith Rex) (hn : 2 ≤ a.count) :
    (Arith.ciPrep a : Outcome (Err Rex) (Arith.Prep Rex)) =
      .ok ⟨a.mean, div a.stdDev (sqrt (Scalar.ofNat a.count)), sub (Scalar.ofNat a.count) one⟩ := by
  have h : ¬ a.count < 2 := by omega
  simp [Arith.ciPrep, h]

/-- two samples or more, a valid level, a monotone routine vanishing at `1/2`: `ci_mean` succeeds
    and returns `mean ∓ c·sd/√n` in the shape of the kind -/
theorem Arith.ciMean_ok_of_valid {crit : Crit Rex} (hm : CritMono crit) (hh : CritHalf crit)
    (a : Arith Rex) (hn : 2 ≤ a.count) (conf : Confidence Rex) (hv : ValidLevel conf) :
    a.ciMean crit conf = .ok (shapeOf conf
      (⟨a.mean.val - cOf crit conf (sub (Scalar.ofNat a.count) one) *
          (a.stdDev.val / Real.sqrt a.count)⟩ : Rex)
      ⟨a.mean.val + cOf crit conf (sub (Scalar.ofNat a.count) one) *
          (a.stdDev.val / Real.sqrt a.count)⟩) := by
  have hs : 0 ≤ a.stdDev.val / Real.sqrt a.count := by
    simp only [Arith.stdDev, RR.sqrt_val, id_eq]
    exact div_nonneg (Real.sqrt_nonneg _) (Real.sqrt_nonneg _)
  rw [Arith.ciMean_eq_finish, Arith.ciPrep_rex_eq a hn,
    finish_rex_ok crit conf _ ?_ (probOk_of_valid conf hv) fun ht => ?_]
  · simp
  · have : (2 : ℝ) ≤ a.count := by exact_mod_cast hn
    simp; linarith
  · have h := cOf_nonneg hm hh conf (sub (Scalar.ofNat a.count) one)
      (half_le_quantile conf hv.1.le (Or.inl ht))
    simpa using mul_nonneg h hs

theorem ciWilson_ok_of_valid {crit : Crit Rex} (hm : CritMono crit) (hh : CritHalf crit)
    (conf : Confidence Rex) (hv : ValidLevel conf) (n k : ℕ) (hk : 2 ≤ k) (hkn : k + 2 ≤ n) :
    ciWilson crit conf n k =
      .ok (propShape conf (lowerR n k (zOf crit conf)) (upperR n k (zOf crit conf))) :=
  ciWilson_rex_eq crit conf n k hk hkn (probOk_of_valid conf hv) fun ht =>
    zOf_nonneg hm hh conf (half_le_quantile conf hv.1.le (Or.inl ht))

theorem ciZNormal_ok_of_valid (crit : Crit Rex) (conf : Confidence Rex) (hv : ValidLevel conf)
    (hz : 0 ≤ zOf crit conf) (n k : ℕ) (hk : 10 ≤ k) (hkn : k + 10 ≤ n) :
    ciZNormal crit conf n k =
      .ok (propShape conf ((k : ℝ) / n - zOf crit conf * (waldSdM n k : Rex).val)
        ((k : ℝ) / n + zOf crit conf * (waldSdM n k : Rex).val)) := by
  have := wald_adm conf n k (by omega) (by omega) (crit (.z conf.quantile)) hz
  rw [ratio_val] at this
  exact ciZNormal_rex_eq crit conf n k hk hkn (probOk_of_valid conf hv) (by simpa using this)

theorem cOf_linCrit (conf : Confidence Rex) (dof : Rex) :
    cOf linCrit conf dof = conf.quantile.val - 1 / 2 := by
  unfold cOf critReq; split <;> rfl

theorem zOf_linCrit (conf : Confidence Rex) : zOf linCrit conf = conf.quantile.val - 1 / 2 := rfl

theorem quantile_bounds (conf : Confidence Rex) (hv : ValidLevel conf) :
    0 < conf.quantile.val ∧ conf.quantile.val < 1 := by
  rw [quantile_val]
  obtain ⟨h0, h1⟩ := hv
  cases conf <;> simp only [Confidence.level] at h0 h1 ⊢ <;> constructor <;> linarith

/-- the sample `1, 2, 4` -/
noncomputable def exData : List ℝ := [1, 2, 4]
/-- its arithmetic state -/
noncomputable def exArith : Arith Rex := Arith.fromList (exData.map inj)

theorem exArith_count : exArith.count = 3 := by
  simp [exArith, exData, Arith.fromList_count]

theorem exArith_mean : exArith.mean.val = 7 / 3 := by
  rw [exArith, Arith.fromList_mean]; norm_num [smean, exData]

theorem exArith_sd : exArith.stdDev.val = Real.sqrt (7 / 3) := by
  rw [exArith, Arith.fromList_stdDev _ (by simp [exData])]
  unfold ssd
  congr 1
  simp [svar, sdev2, smean, exData]
  norm_num

theorem exArith_sem : 0 ≤ exArith.stdDev.val / Real.sqrt exArith.count ∧
    exArith.stdDev.val / Real.sqrt exArith.count ≤ 2 := by
  rw [exArith_sd, exArith_count]
  have e : ((3 : ℕ) : ℝ) = 3 := by norm_num
  rw [e]
  have h1 : Real.sqrt (7 / 3) ≤ 2 := by
    rw [Real.sqrt_le_iff]; constructor <;> norm_num
  have h2 : (1 : ℝ) ≤ Real.sqrt 3 := by
    rw [Real.one_le_sqrt]; norm_num
  constructor
  · exact div_nonneg (Real.sqrt_nonneg _) (Real.sqrt_nonneg _)
  · rw [div_le_iff₀ (by linarith)]
    linarith

/-- on the sample `1, 2, 4`, with the oracle `p ↦ p − 1/2`, every valid confidence succeeds, and
    all finite bounds are positive -/
theorem exArith_ok (conf : Confidence Rex) (hv : ValidLevel conf) :
    ∃ J, exArith.ciMean linCrit conf = .ok J ∧ KindMatch conf J ∧ PosBounds J := by
  have h := Arith.ciMean_ok_of_valid linCrit_mono linCrit_half exArith
    (by rw [exArith_count]; norm_num) conf hv
  refine ⟨_, h, kindMatch_shapeOf _ _ _, ?_⟩
  obtain ⟨q0, q1⟩ := quantile_bounds conf hv
  obtain ⟨s0, s1⟩ := exArith_sem
  rw [cOf_linCrit, exArith_mean]
  set c := conf.quantile.val - 1 / 2 with hc
  set t := exArith.stdDev.val / Real.sqrt exArith.count with ht
  have hct : |c * t| ≤ 1 := by
    rw [abs_mul, abs_of_nonneg s0]
    have : |c| ≤ 1 / 2 := by rw [abs_le]; constructor <;> linarith
    nlinarith [abs_nonneg c]
  obtain ⟨h1, h2⟩ := abs_le.mp hct
  cases conf <;> simp only [shapeOf, PosBounds] <;> (try constructor) <;> linarith

/-- under positivity of the reciprocal-space bounds the harmonic call succeeds as soon as the
    reciprocal-space call does -/
theorem Harmonic.ciMean_ok_of_pos (crit : Crit Rex) (g : Harmonic Rex) (conf : Confidence Rex)
    (J : Interval Rex) (hJ : g.recip.ciMean crit conf.flipped = .ok J) (hp : PosBounds J) :
    ∃ I : Interval Rex, g.ciMean crit conf = .ok I := by
  unfold Harmonic.ciMean
  rw [hJ, Outcome.bind_ok]
  cases conf with
  | upper l => exact ⟨_, rfl⟩
  | lower l => exact ⟨_, rfl⟩
  | twoSided l =>
    obtain ⟨a, b, rfl, hg⟩ := Arith.ciMean_ok_kind crit g.recip (.twoSided l) J hJ
    have hle : a.val ≤ b.val := by
      rw [Bool.eq_false_iff, Ne, RR.gt_iff] at hg
      exact not_lt.mp hg
    have : gt (Harmonic.recipBound b : Rex) (Harmonic.recipBound a) = false := by
      rw [Bool.eq_false_iff, Ne, RR.gt_iff, recipBound_pos _ hp.1, recipBound_pos _ hp.2]
      simp only [not_lt]
      exact one_div_le_one_div_of_le hp.1 hle
    refine ⟨.twoSided (Harmonic.recipBound b) (Harmonic.recipBound a), ?_⟩
    simp only [intervalOfKind, Interval.new, Interval.highX, Interval.lowX, this, liftI,
      Bool.false_eq_true, if_false]

/-- the harmonic state whose reciprocal-space sample is `1, 2, 4` -/
noncomputable def exHarm : Harmonic Rex := ⟨exArith⟩
/-- the geometric state whose log-space sample is `1, 2, 4` -/
noncomputable def exGeo : Geometric Rex := ⟨exArith⟩
/-- the paired state whose differences are `1, 2, 4` -/
noncomputable def exPaired : Paired Rex := ⟨exArith⟩
/-- two samples `1, 2` and `3, 5` -/
noncomputable def exUnpaired : Unpaired Rex := Unpaired.fromLists ([1, 2].map inj) ([3, 5].map inj)

theorem exGeo_ok (conf : Confidence Rex) (hv : ValidLevel conf) :
    ∃ I, exGeo.ciMean linCrit conf = .ok I := by
  obtain ⟨J, hJ, _, _⟩ := exArith_ok conf hv
  exact ⟨_, by rw [Geometric.ciMean_map_exp]; show (exArith.ciMean linCrit conf).map _ = _
               rw [hJ]; rfl⟩

theorem exHarm_ok (conf : Confidence Rex) (hv : ValidLevel conf) :
    (∃ I, exHarm.ciMean linCrit conf = .ok I) ∧ 0 < exHarm.recip.mean.val ∧
    ∀ J, exHarm.recip.ciMean linCrit conf.flipped = .ok J → PosBounds J := by
  have hv' : ValidLevel conf.flipped := by unfold ValidLevel; rw [flipped_level]; exact hv
  obtain ⟨J, hJ, _, hp⟩ := exArith_ok conf.flipped hv'
  refine ⟨Harmonic.ciMean_ok_of_pos linCrit exHarm conf J hJ hp, ?_, ?_⟩
  · show 0 < exArith.mean.val; rw [exArith_mean]; norm_num
  · intro J' hJ'
    have : exArith.ciMean linCrit conf.flipped = .ok J' := hJ'
    rw [hJ] at this
    injection this with this
    rw [← this]; exact hp

theorem exUnpaired_ok (conf : Confidence Rex) (hv : ValidLevel conf) :
    ∃ I, exUnpaired.ciMean linCrit conf = .ok I := by
  have hs1 : svar [1, 2] = 1 / 2 := by simp [svar, sdev2, smean]; norm_num
  have hs2 : svar [3, 5] = 2 := by simp [svar, sdev2, smean]; norm_num
  have hA : welchA [1, 2] = 1 / 4 := by rw [welchA, hs1]; norm_num
  have hB : welchA [3, 5] = 1 := by rw [welchA, hs2]; norm_num
  have hd : 0 < welchNu [1, 2] [3, 5] := by
    have := welchDof_ge (welchA [1, 2]) (welchA [3, 5]) 2 2 le_rfl le_rfl (by rw [hA]; norm_num)
      (by rw [hB]; norm_num) (by rw [hA, hB]; norm_num)
    have e : welchNu [1, 2] [3, 5] = welchDof (welchA [1, 2]) (welchA [3, 5]) 2 2 := by
      simp [welchNu]
    rw [e]
    have : min (2 : ℝ) 2 - 1 = 1 := by norm_num
    linarith
  have hu : exUnpaired.ciMean linCrit (.upper ⟨9 / 10⟩) =
      intervalOfKind (.upper (⟨9 / 10⟩ : Rex)) _ _ :=
    Unpaired.ci_rex linCrit (.upper ⟨9 / 10⟩) [1, 2] [3, 5] (by simp) (by simp)
      (probOk_of_valid _ (by constructor <;> simp only [Confidence.level] <;> norm_num)) hd
  exact Unpaired.ok_transfer linCrit_mono linCrit_half exUnpaired conf _ hv _ hu

theorem exWilson_ok (conf : Confidence Rex) (hv : ValidLevel conf) :
    ∃ I, ciWilson linCrit conf 10 3 = .ok I :=
  ⟨_, ciWilson_ok_of_valid linCrit_mono linCrit_half conf hv 10 3 (by norm_num) (by norm_num)⟩

theorem exWald_ok (conf : Confidence Rex) (hv : ValidLevel conf)
    (hs : conf.isTwoSided = true ∨ 1 / 2 ≤ conf.level.val) :
    ∃ I, ciZNormal linCrit conf 30 12 = .ok I :=
  ⟨_, ciZNormal_ok_of_valid linCrit conf hv
    (zOf_nonneg linCrit_mono linCrit_half conf (half_le_quantile conf hv.1.le hs)) 30 12
    (by norm_num) (by norm_num)⟩

theorem exQuantile_ok (conf : Confidence Rex) (hv : ValidLevel conf) :
    ∃ I, ciIndices linCrit conf 10 (inj (1 / 2)) = .ok I := by
  have hq : ValidQuantile (inj (1 / 2)) := by
    show 0 < (1 / 2 : ℝ) ∧ (1 / 2 : ℝ) < 1; norm_num
  have hk : successes (inj (1 / 2) : Rex).val 10 = 5 := successes_half_ten
  rw [ciIndices_main linCrit conf 10 _ hv hq (by norm_num) (by rw [hk]; norm_num)
    (by rw [hk]; norm_num)]
  cases conf with
  | twoSided l =>
    have hz : 0 ≤ zOf linCrit (.twoSided l) :=
      zOf_nonneg linCrit_mono linCrit_half _ (half_le_quantile _ hv.1.le (Or.inl rfl))
    simp only
    rw [if_neg (not_lt.mpr hz)]
    exact ⟨_, rfl⟩
  | upper l => exact ⟨_, rfl⟩
  | lower l => exact ⟨_, rfl⟩

end instances

end StatsCI.Coherence
