/-
  StatsCI.Lemmas.IntervalAlg — the model's `NumOps` operations interpreted over an ordered ring /
  ordered field, and the algebra of the denoted sets of `Interval`s under the kind-preserving and
  the mirroring map of the bounds (`appliedBoth` / `appliedFlipped`).

  Helper lemmas for C13 / C14 / C15 / C19.
-/
import StatsCI.Lemmas.Order
import Mathlib.Algebra.Order.Field.Basic
import Mathlib.Algebra.Order.Ring.Defs
import Mathlib.Algebra.Order.Ring.Int
import Mathlib.Algebra.Order.Ring.Rat
import Mathlib.Data.Set.Image
import Mathlib.Data.Set.NAry
import Mathlib.Tactic.Linarith
import Mathlib.Tactic.Ring
import Mathlib.Tactic.FieldSimp
import Mathlib.Tactic.Order

namespace StatsCI

/-- the arithmetic of an ordered commutative ring (machine-independent integers, rationals, reals),
    over the comparison operations `Cmp.ofLinearOrder`. `div` is not a ring operation: it is a
    dummy here and no theorem stated over `ofRing` mentions a function that uses it. -/
@[reducible] def NumOps.ofRing (α : Type) [CommRing α] [LinearOrder α] [IsStrictOrderedRing α] :
    NumOps α where
  toCmp := Cmp.ofLinearOrder α
  add := (· + ·)
  sub := (· - ·)
  mul := (· * ·)
  div := fun a _ => a
  neg := fun a => -a
  zero := 0
  one := 1

/-- the arithmetic of an ordered field, over the comparison operations `Cmp.ofLinearOrder` -/
@[reducible] def NumOps.ofField (α : Type) [Field α] [LinearOrder α] [IsStrictOrderedRing α] :
    NumOps α where
  toCmp := Cmp.ofLinearOrder α
  add := (· + ·)
  sub := (· - ·)
  mul := (· * ·)
  div := (· / ·)
  neg := fun a => -a
  zero := 0
  one := 1

section ring
variable {α : Type} [CommRing α] [LinearOrder α] [IsStrictOrderedRing α]
attribute [local instance] NumOps.ofRing

@[simp] theorem ofRing_le_iff (a b : α) : (Cmp.le a b = true) ↔ a ≤ b := by simp [Cmp.le]
@[simp] theorem ofRing_lt_iff (a b : α) : (Cmp.lt a b = true) ↔ a < b := by simp [Cmp.lt]
@[simp] theorem ofRing_eq_iff (a b : α) : (Cmp.eq a b = true) ↔ a = b := by simp [Cmp.eq]
@[simp] theorem ofRing_add (a b : α) : NumOps.add a b = a + b := rfl
@[simp] theorem ofRing_sub (a b : α) : NumOps.sub a b = a - b := rfl
@[simp] theorem ofRing_mul (a b : α) : NumOps.mul a b = a * b := rfl
@[simp] theorem ofRing_neg (a : α) : NumOps.neg a = -a := rfl
@[simp] theorem ofRing_zero : (NumOps.zero : α) = 0 := rfl
@[simp] theorem ofRing_one : (NumOps.one : α) = 1 := rfl
end ring

section field
variable {α : Type} [Field α] [LinearOrder α] [IsStrictOrderedRing α]
attribute [local instance] NumOps.ofField

@[simp] theorem ofField_le_iff (a b : α) : (Cmp.le a b = true) ↔ a ≤ b := by simp [Cmp.le]
@[simp] theorem ofField_lt_iff (a b : α) : (Cmp.lt a b = true) ↔ a < b := by simp [Cmp.lt]
@[simp] theorem ofField_eq_iff (a b : α) : (Cmp.eq a b = true) ↔ a = b := by simp [Cmp.eq]
@[simp] theorem ofField_add (a b : α) : NumOps.add a b = a + b := rfl
@[simp] theorem ofField_sub (a b : α) : NumOps.sub a b = a - b := rfl
@[simp] theorem ofField_mul (a b : α) : NumOps.mul a b = a * b := rfl
@[simp] theorem ofField_div (a b : α) : NumOps.div a b = a / b := rfl
@[simp] theorem ofField_neg (a : α) : NumOps.neg a = -a := rfl
@[simp] theorem ofField_zero : (NumOps.zero : α) = 0 := rfl
@[simp] theorem ofField_one : (NumOps.one : α) = 1 := rfl
end field

namespace Interval
open Set

section bounds
variable {α : Type}
/-- the bounds of `appliedBoth f` are the images of the bounds -/
theorem left_appliedBoth (A : Interval α) (f : α → α) :
    (A.appliedBoth f).left = A.left.map f := by cases A <;> rfl
theorem right_appliedBoth (A : Interval α) (f : α → α) :
    (A.appliedBoth f).right = A.right.map f := by cases A <;> rfl
theorem left_appliedFlipped (A : Interval α) (f : α → α) :
    (A.appliedFlipped f).left = A.right.map f := by cases A <;> rfl
theorem right_appliedFlipped (A : Interval α) (f : α → α) :
    (A.appliedFlipped f).right = A.left.map f := by cases A <;> rfl

end bounds

section order
variable {α : Type} [LinearOrder α]

@[simp] theorem den_twoSided (lo hi : α) : (Interval.twoSided lo hi).den = Icc lo hi := rfl
@[simp] theorem den_upper (lo : α) : (Interval.upper lo).den = Ici lo := rfl
@[simp] theorem den_lower (hi : α) : (Interval.lower hi).den = Iic hi := rfl
@[simp] theorem WF_twoSided (lo hi : α) : (Interval.twoSided lo hi).WF ↔ lo ≤ hi := Iff.rfl
@[simp] theorem WF_upper (lo : α) : (Interval.upper lo).WF := trivial
@[simp] theorem WF_lower (hi : α) : (Interval.lower hi).WF := trivial

/-- a well-formed interval is not empty -/
theorem den_nonempty {A : Interval α} (hA : A.WF) : A.den.Nonempty := by
  cases A with
  | twoSided lo hi => exact ⟨lo, le_rfl, hA⟩
  | upper lo => exact ⟨lo, le_rfl⟩
  | lower hi => exact ⟨hi, le_rfl⟩

/-- an interval is well-formed exactly when it denotes a non-empty set -/
theorem WF_iff_nonempty (A : Interval α) : A.WF ↔ A.den.Nonempty := by
  refine ⟨den_nonempty, ?_⟩
  cases A with
  | twoSided lo hi => rintro ⟨z, h1, h2⟩; exact h1.trans h2
  | upper lo => intro _; trivial
  | lower hi => intro _; trivial

/-- every finite bound of a well-formed interval is a member -/
theorem left_mem_den {A : Interval α} (hA : A.WF) {b : α} (h : A.left = some b) : b ∈ A.den := by
  cases A <;> simp only [left, Option.some.injEq, reduceCtorEq] at h <;> subst h
  · exact ⟨le_rfl, hA⟩
  · simp [den]

theorem right_mem_den {A : Interval α} (hA : A.WF) {b : α} (h : A.right = some b) : b ∈ A.den := by
  cases A <;> simp only [right, Option.some.injEq, reduceCtorEq] at h <;> subst h
  · exact ⟨hA, le_rfl⟩
  · simp [den]

/-- a finite lower bound bounds every member -/
theorem left_le_of_mem {A : Interval α} {b x : α} (h : A.left = some b) (hx : x ∈ A.den) :
    b ≤ x := by
  cases A <;> simp only [left, Option.some.injEq, reduceCtorEq] at h <;> subst h
  · exact hx.1
  · exact hx

theorem le_right_of_mem {A : Interval α} {b x : α} (h : A.right = some b) (hx : x ∈ A.den) :
    x ≤ b := by
  cases A <;> simp only [right, Option.some.injEq, reduceCtorEq] at h <;> subst h
  · exact hx.2
  · exact hx

/-- kind-preserving map of the bounds by an increasing bijection: the denoted set is the image -/
theorem den_appliedBoth_of_mono (A : Interval α) (f g : α → α) (hf : Monotone f) (hg : Monotone g)
    (hfg : ∀ x, f (g x) = x) (hgf : ∀ x, g (f x) = x) :
    (A.appliedBoth f).den = f '' A.den := by
  ext z
  cases A <;> simp only [appliedBoth, applied, den, mem_image, mem_Icc, mem_Ici, mem_Iic]
  · constructor
    · rintro ⟨h1, h2⟩
      refine ⟨g z, ⟨?_, ?_⟩, hfg z⟩
      · have := hg h1; rwa [hgf] at this
      · have := hg h2; rwa [hgf] at this
    · rintro ⟨w, ⟨h1, h2⟩, rfl⟩; exact ⟨hf h1, hf h2⟩
  · constructor
    · intro h1
      refine ⟨g z, ?_, hfg z⟩
      have := hg h1; rwa [hgf] at this
    · rintro ⟨w, h1, rfl⟩; exact hf h1
  · constructor
    · intro h1
      refine ⟨g z, ?_, hfg z⟩
      have := hg h1; rwa [hgf] at this
    · rintro ⟨w, h1, rfl⟩; exact hf h1

/-- mirroring map of the bounds by a decreasing bijection: the denoted set is the image -/
theorem den_appliedFlipped_of_anti (A : Interval α) (f g : α → α) (hf : Antitone f)
    (hg : Antitone g) (hfg : ∀ x, f (g x) = x) (hgf : ∀ x, g (f x) = x) :
    (A.appliedFlipped f).den = f '' A.den := by
  ext z
  cases A <;> simp only [appliedFlipped, den, mem_image, mem_Icc, mem_Ici, mem_Iic]
  · constructor
    · rintro ⟨h1, h2⟩
      refine ⟨g z, ⟨?_, ?_⟩, hfg z⟩
      · have := hg h2; rwa [hgf] at this
      · have := hg h1; rwa [hgf] at this
    · rintro ⟨w, ⟨h1, h2⟩, rfl⟩; exact ⟨hf h2, hf h1⟩
  · constructor
    · intro h1
      refine ⟨g z, ?_, hfg z⟩
      have := hg h1; rwa [hgf] at this
    · rintro ⟨w, h1, rfl⟩; exact hf h1
  · constructor
    · intro h1
      refine ⟨g z, ?_, hfg z⟩
      have := hg h1; rwa [hgf] at this
    · rintro ⟨w, h1, rfl⟩; exact hf h1

/-- soundness alone needs monotonicity only (no inverse): ordered rings, `k ≥ 0` -/
theorem mem_appliedBoth_of_mono (A : Interval α) (f : α → α) (hf : Monotone f) {x : α}
    (hx : x ∈ A.den) : f x ∈ (A.appliedBoth f).den := by
  cases A <;> simp only [appliedBoth, applied, den, mem_Icc, mem_Ici, mem_Iic] at *
  · exact ⟨hf hx.1, hf hx.2⟩
  · exact hf hx
  · exact hf hx

theorem mem_appliedFlipped_of_anti (A : Interval α) (f : α → α) (hf : Antitone f) {x : α}
    (hx : x ∈ A.den) : f x ∈ (A.appliedFlipped f).den := by
  cases A <;> simp only [appliedFlipped, den, mem_Icc, mem_Ici, mem_Iic] at *
  · exact ⟨hf hx.2, hf hx.1⟩
  · exact hf hx
  · exact hf hx

theorem WF_appliedBoth_of_mono {A : Interval α} (f : α → α) (hf : Monotone f) (hA : A.WF) :
    (A.appliedBoth f).WF := by
  cases A <;> simp only [appliedBoth, applied, WF] at *
  exact hf hA

theorem WF_appliedFlipped_of_anti {A : Interval α} (f : α → α) (hf : Antitone f) (hA : A.WF) :
    (A.appliedFlipped f).WF := by
  cases A <;> simp only [appliedFlipped, WF] at *
  exact hf hA

/-! #### the derived `PartialEq` / `PartialOrd` through the bounds -/
section cmp
attribute [local instance] Cmp.ofLinearOrder

theorem beq_iff_eq (a b : Interval α) : a.beq b = true ↔ a = b := by
  cases a <;> cases b <;> simp [beq]

/-- `partial_cmp = Less` through the bounds: different, and the upper bound of `a` is at most the
    lower bound of `b` (both present) -/
theorem partialCmp_lt_iff_bounds (a b : Interval α) (ha : a.WF) (hb : b.WF) :
    partialCmp a b = some .lt ↔ a ≠ b ∧ ∃ h l, a.right = some h ∧ b.left = some l ∧ h ≤ l := by
  cases a <;> cases b <;> simp only [WF] at ha hb
  case twoSided.twoSided p q r s =>
    simp only [partialCmp, beq, left, right, ne_eq, Bool.and_eq_true, cmp_eq_iff, ge_iff',
      twoSided.injEq, Option.some.injEq, exists_and_left, exists_eq_left']
    by_cases he : p = r ∧ q = s
    · simp [he]
    · rw [if_neg he]
      by_cases h1 : s ≤ p
      · rw [if_pos h1]
        refine ⟨fun h => (by cases h), fun ⟨_, hc⟩ => absurd ⟨by order, by order⟩ he⟩
      · rw [if_neg h1]
        by_cases h2 : q ≤ r <;> simp [h2, he]
  all_goals
    simp only [partialCmp, beq, left, right, ne_eq, cmp_eq_iff, ge_iff',
      upper.injEq, lower.injEq, reduceCtorEq, not_false_eq_true, true_and,
      Option.some.injEq, exists_and_left, exists_eq_left', false_and, exists_false, and_false,
      Bool.false_eq_true, if_false]
    try split_ifs <;> simp_all

/-- `partial_cmp = Greater` through the bounds -/
theorem partialCmp_gt_iff_bounds (a b : Interval α) (ha : a.WF) (hb : b.WF) :
    partialCmp a b = some .gt ↔ a ≠ b ∧ ∃ l h, a.left = some l ∧ b.right = some h ∧ h ≤ l := by
  cases a <;> cases b <;> simp only [WF] at ha hb
  case twoSided.twoSided p q r s =>
    simp only [partialCmp, beq, left, right, ne_eq, Bool.and_eq_true, cmp_eq_iff, ge_iff',
      twoSided.injEq, Option.some.injEq, exists_and_left, exists_eq_left']
    by_cases he : p = r ∧ q = s
    · simp [he]
    · rw [if_neg he]
      by_cases h1 : s ≤ p
      · simp [h1, he]
      · rw [if_neg h1]
        by_cases h2 : q ≤ r <;> simp [h2, he, h1]
  all_goals
    simp only [partialCmp, beq, left, right, ne_eq, cmp_eq_iff, ge_iff',
      upper.injEq, lower.injEq, reduceCtorEq, not_false_eq_true, true_and,
      Option.some.injEq, exists_and_left, exists_eq_left', false_and, exists_false, and_false,
      Bool.false_eq_true, if_false]
    try split_ifs <;> simp_all

end cmp

/-- a missing upper bound: members above every value (order without maximum) -/
theorem exists_mem_gt_of_right_none [NoMaxOrder α] {A : Interval α} (h : A.right = none) (y : α) :
    ∃ x ∈ A.den, y < x := by
  cases A <;> simp only [right, reduceCtorEq] at h
  rename_i lo
  obtain ⟨w, hw⟩ := exists_gt (max lo y)
  exact ⟨w, le_of_lt (lt_of_le_of_lt (le_max_left _ _) hw), lt_of_le_of_lt (le_max_right _ _) hw⟩

/-- a missing lower bound: members below every value (order without minimum) -/
theorem exists_mem_lt_of_left_none [NoMinOrder α] {A : Interval α} (h : A.left = none) (y : α) :
    ∃ x ∈ A.den, x < y := by
  cases A <;> simp only [left, reduceCtorEq] at h
  rename_i hi
  obtain ⟨w, hw⟩ := exists_lt (min hi y)
  exact ⟨w, le_of_lt (lt_of_lt_of_le hw (min_le_left _ _)), lt_of_lt_of_le hw (min_le_right _ _)⟩

/-- every member of `a` is below every member of `b` exactly when the upper bound of `a` is at most
    the lower bound of `b` (both present) -/
theorem forall_mem_le_iff_bounds [NoMaxOrder α] [NoMinOrder α] (a b : Interval α) (ha : a.WF)
    (hb : b.WF) :
    (∀ x ∈ a.den, ∀ y ∈ b.den, x ≤ y) ↔ ∃ h l, a.right = some h ∧ b.left = some l ∧ h ≤ l := by
  constructor
  · intro H
    obtain ⟨x0, hx0⟩ := den_nonempty ha
    obtain ⟨y0, hy0⟩ := den_nonempty hb
    cases har : a.right with
    | none =>
      obtain ⟨x, hx, hlt⟩ := exists_mem_gt_of_right_none har y0
      exact absurd (H x hx y0 hy0) (not_le.mpr hlt)
    | some h =>
      cases hbl : b.left with
      | none =>
        obtain ⟨y, hy, hlt⟩ := exists_mem_lt_of_left_none hbl x0
        exact absurd (H x0 hx0 y hy) (not_le.mpr hlt)
      | some l =>
        exact ⟨h, l, rfl, rfl, H h (right_mem_den ha har) l (left_mem_den hb hbl)⟩
  · rintro ⟨h, l, h1, h2, h3⟩ x hx y hy
    exact (le_right_of_mem h1 hx).trans (h3.trans (left_le_of_mem h2 hy))

end order

section ring
variable {α : Type} [CommRing α] [LinearOrder α] [IsStrictOrderedRing α]
attribute [local instance] NumOps.ofRing

theorem addScalar_eq (A : Interval α) (k : α) : A.addScalar k = A.appliedBoth (· + k) := rfl
theorem subScalar_eq (A : Interval α) (k : α) : A.subScalar k = A.appliedBoth (· - k) := rfl
theorem negI_eq (A : Interval α) : A.negI = A.appliedFlipped (fun x => -x) := rfl

theorem mulScalar_of_neg (A : Interval α) {k : α} (hk : k < 0) :
    A.mulScalar k = A.appliedFlipped (· * k) := by
  simp [mulScalar, hk]

theorem mulScalar_of_pos (A : Interval α) {k : α} (hk : 0 < k) :
    A.mulScalar k = A.appliedBoth (· * k) := by
  simp [mulScalar, hk, not_lt.mpr hk.le, gt]

theorem mulScalar_zero (A : Interval α) :
    A.mulScalar 0 = match A with
      | .twoSided _ _ => .twoSided 0 0
      | .upper _ => .twoSided 0 0
      | .lower _ => .twoSided 0 0 := by
  cases A <;> simp [mulScalar, gt]

theorem mono_add_const (k : α) : Monotone (fun x : α => x + k) := fun _ _ h => by
  simpa using h
theorem mono_sub_const (k : α) : Monotone (fun x : α => x - k) := fun _ _ h => by
  simpa using h
theorem anti_neg : Antitone (fun x : α => -x) := fun _ _ h => by simpa using h
theorem mono_mul_const {k : α} (hk : 0 ≤ k) : Monotone (fun x : α => x * k) := fun _ _ h =>
  mul_le_mul_of_nonneg_right h hk
theorem anti_mul_const {k : α} (hk : k ≤ 0) : Antitone (fun x : α => x * k) := fun _ _ h =>
  mul_le_mul_of_nonpos_right h hk

end ring

section field
variable {α : Type} [Field α] [LinearOrder α] [IsStrictOrderedRing α]

/-- over a field the model functions that do not divide are the same under both instances -/
theorem addScalar_ofField (A : Interval α) (k : α) :
    @addScalar α (NumOps.ofField α) A k = @addScalar α (NumOps.ofRing α) A k := rfl
theorem subScalar_ofField (A : Interval α) (k : α) :
    @subScalar α (NumOps.ofField α) A k = @subScalar α (NumOps.ofRing α) A k := rfl
theorem mulScalar_ofField (A : Interval α) (k : α) :
    @mulScalar α (NumOps.ofField α) A k = @mulScalar α (NumOps.ofRing α) A k := rfl
theorem negI_ofField (A : Interval α) :
    @negI α (NumOps.ofField α) A = @negI α (NumOps.ofRing α) A := rfl
theorem addI_ofField (A B : Interval α) :
    @addI α (NumOps.ofField α) A B = @addI α (NumOps.ofRing α) A B := rfl
theorem subI_ofField (A B : Interval α) :
    @subI α (NumOps.ofField α) A B = @subI α (NumOps.ofRing α) A B := rfl
theorem width_ofField (A : Interval α) :
    @width α (NumOps.ofField α) A = @width α (NumOps.ofRing α) A := rfl

attribute [local instance] NumOps.ofField

theorem divScalar_of_neg (A : Interval α) {k : α} (hk : k < 0) :
    A.divScalar k = A.appliedFlipped (· / k) := by
  simp [divScalar, hk]

theorem divScalar_of_pos (A : Interval α) {k : α} (hk : 0 < k) :
    A.divScalar k = A.appliedBoth (· / k) := by
  simp [divScalar, not_lt.mpr hk.le]

theorem mono_div_const {k : α} (hk : 0 ≤ k) : Monotone (fun x : α => x / k) := fun _ _ h =>
  div_le_div_of_nonneg_right h hk
theorem anti_div_const {k : α} (hk : k ≤ 0) : Antitone (fun x : α => x / k) := fun _ _ h =>
  div_le_div_of_nonpos_of_le hk h

end field

/-! #### attained bounds, interval ⊕ interval -/
section order2
variable {α : Type} [LinearOrder α]

theorem bound_appliedBoth_attained {A : Interval α} (hA : A.WF) (f : α → α) {b : α}
    (h : (A.appliedBoth f).left = some b ∨ (A.appliedBoth f).right = some b) :
    ∃ x ∈ A.den, f x = b := by
  rw [left_appliedBoth, right_appliedBoth, Option.map_eq_some_iff, Option.map_eq_some_iff] at h
  rcases h with ⟨x, hx, rfl⟩ | ⟨x, hx, rfl⟩
  · exact ⟨x, left_mem_den hA hx, rfl⟩
  · exact ⟨x, right_mem_den hA hx, rfl⟩

theorem bound_appliedFlipped_attained {A : Interval α} (hA : A.WF) (f : α → α) {b : α}
    (h : (A.appliedFlipped f).left = some b ∨ (A.appliedFlipped f).right = some b) :
    ∃ x ∈ A.den, f x = b := by
  rw [left_appliedFlipped, right_appliedFlipped, Option.map_eq_some_iff,
    Option.map_eq_some_iff] at h
  rcases h with ⟨x, hx, rfl⟩ | ⟨x, hx, rfl⟩
  · exact ⟨x, right_mem_den hA hx, rfl⟩
  · exact ⟨x, left_mem_den hA hx, rfl⟩
end order2

section ring2
variable {α : Type} [CommRing α] [LinearOrder α] [IsStrictOrderedRing α]
attribute [local instance] NumOps.ofRing

theorem mem_mulScalar (A : Interval α) (k : α) {x : α} (hx : x ∈ A.den) :
    x * k ∈ (A.mulScalar k).den := by
  rcases lt_trichotomy k 0 with hk | rfl | hk
  · rw [mulScalar_of_neg A hk]; exact mem_appliedFlipped_of_anti A _ (anti_mul_const hk.le) hx
  · rw [mulScalar_zero]; cases A <;> simp
  · rw [mulScalar_of_pos A hk]; exact mem_appliedBoth_of_mono A _ (mono_mul_const hk.le) hx

theorem den_mulScalar_zero (A : Interval α) : (A.mulScalar 0).den = {0} := by
  rw [mulScalar_zero]; cases A <;> simp

theorem WF_mulScalar {A : Interval α} (hA : A.WF) (k : α) : (A.mulScalar k).WF := by
  rcases lt_trichotomy k 0 with hk | rfl | hk
  · rw [mulScalar_of_neg A hk]; exact WF_appliedFlipped_of_anti _ (anti_mul_const hk.le) hA
  · rw [mulScalar_zero]; cases A <;> simp
  · rw [mulScalar_of_pos A hk]; exact WF_appliedBoth_of_mono _ (mono_mul_const hk.le) hA

theorem bound_mulScalar_attained {A : Interval α} (hA : A.WF) (k : α) {b : α}
    (h : (A.mulScalar k).left = some b ∨ (A.mulScalar k).right = some b) :
    ∃ x ∈ A.den, x * k = b := by
  rcases lt_trichotomy k 0 with hk | rfl | hk
  · rw [mulScalar_of_neg A hk] at h; exact bound_appliedFlipped_attained hA _ h
  · obtain ⟨x, hx⟩ := den_nonempty hA
    refine ⟨x, hx, ?_⟩
    rw [mulScalar_zero] at h
    cases A <;> simp [left, right] at h <;> (subst h; simp)
  · rw [mulScalar_of_pos A hk] at h; exact bound_appliedBoth_attained hA _ h

/-- `Add<Interval>`: membership -/
theorem mem_addI {A B C : Interval α} (h : A.addI B = some C) {x y : α} (hx : x ∈ A.den)
    (hy : y ∈ B.den) : x + y ∈ C.den := by
  cases A <;> cases B <;> simp only [addI, Option.some.injEq, reduceCtorEq] at h <;> subst h <;>
    simp only [den_twoSided, den_upper, den_lower, mem_Icc, mem_Ici, mem_Iic, ofRing_add] at * <;>
    (try obtain ⟨hx1, hx2⟩ := hx) <;> (try obtain ⟨hy1, hy2⟩ := hy) <;> (try constructor) <;>
    linarith

/-- `Sub<Interval>`: membership -/
theorem mem_subI {A B C : Interval α} (h : A.subI B = some C) {x y : α} (hx : x ∈ A.den)
    (hy : y ∈ B.den) : x - y ∈ C.den := by
  cases A <;> cases B <;> simp only [subI, Option.some.injEq, reduceCtorEq] at h <;> subst h <;>
    simp only [den_twoSided, den_upper, den_lower, mem_Icc, mem_Ici, mem_Iic, ofRing_sub] at * <;>
    (try obtain ⟨hx1, hx2⟩ := hx) <;> (try obtain ⟨hy1, hy2⟩ := hy) <;> (try constructor) <;>
    linarith

/-- `Add<Interval>`: the denoted set of the result is exactly the set of sums of members -/
theorem den_addI {A B C : Interval α} (hA : A.WF) (hB : B.WF) (h : A.addI B = some C) :
    C.den = image2 (· + ·) A.den B.den := by
  ext z
  simp only [mem_image2]
  constructor
  · intro hz
    cases A <;> cases B <;> simp only [addI, Option.some.injEq, reduceCtorEq] at h <;> subst h <;>
      simp only [den_twoSided, den_upper, den_lower, mem_Icc, mem_Ici, mem_Iic, ofRing_add,
        WF_twoSided] at *
    case twoSided.twoSided a b x y =>
      have h1 : max a (z - y) ≤ z - x := max_le (by linarith [hz.1]) (by linarith)
      have h2 := le_max_right a (z - y)
      exact ⟨max a (z - y), ⟨le_max_left _ _, max_le hA (by linarith [hz.2])⟩, z - max a (z - y),
        ⟨by linarith, by linarith⟩, by ring⟩
    case twoSided.upper a b x => exact ⟨a, ⟨le_rfl, hA⟩, z - a, by linarith, by ring⟩
    case twoSided.lower a b y => exact ⟨b, ⟨hA, le_rfl⟩, z - b, by linarith, by ring⟩
    case upper.twoSided a x y => exact ⟨z - x, by linarith, x, ⟨le_rfl, hB⟩, by ring⟩
    case upper.upper a x => exact ⟨a, le_rfl, z - a, by linarith, by ring⟩
    case lower.twoSided b x y => exact ⟨z - y, by linarith, y, ⟨hB, le_rfl⟩, by ring⟩
    case lower.lower b y => exact ⟨b, le_rfl, z - b, by linarith, by ring⟩
  · rintro ⟨p, hp, q, hq, rfl⟩; exact mem_addI h hp hq

/-- `Sub<Interval>`: the denoted set of the result is exactly the set of differences of members -/
theorem den_subI {A B C : Interval α} (hA : A.WF) (hB : B.WF) (h : A.subI B = some C) :
    C.den = image2 (· - ·) A.den B.den := by
  ext z
  simp only [mem_image2]
  constructor
  · intro hz
    cases A <;> cases B <;> simp only [subI, Option.some.injEq, reduceCtorEq] at h <;> subst h <;>
      simp only [den_twoSided, den_upper, den_lower, mem_Icc, mem_Ici, mem_Iic, ofRing_sub,
        WF_twoSided] at *
    case twoSided.twoSided a b x y =>
      -- `z ∈ [a - y, b - x]`: take `p = max a (z + x)`, `q = p - z`
      have h1 : max a (z + x) ≤ z + y := max_le (by linarith [hz.1]) (by linarith)
      have h2 := le_max_right a (z + x)
      exact ⟨max a (z + x), ⟨le_max_left _ _, max_le hA (by linarith [hz.2])⟩, max a (z + x) - z,
        ⟨by linarith, by linarith⟩, by ring⟩
    case twoSided.upper a b x => exact ⟨b, ⟨hA, le_rfl⟩, b - z, by linarith, by ring⟩
    case twoSided.lower a b y => exact ⟨a, ⟨le_rfl, hA⟩, a - z, by linarith, by ring⟩
    case upper.twoSided a x y => exact ⟨z + y, by linarith, y, ⟨hB, le_rfl⟩, by ring⟩
    case upper.lower a y => exact ⟨a, le_rfl, a - z, by linarith, by ring⟩
    case lower.twoSided b x y => exact ⟨z + x, by linarith, x, ⟨le_rfl, hB⟩, by ring⟩
    case lower.upper b x => exact ⟨b, le_rfl, b - z, by linarith, by ring⟩
  · rintro ⟨p, hp, q, hq, rfl⟩; exact mem_subI h hp hq

theorem WF_addI {A B C : Interval α} (hA : A.WF) (hB : B.WF) (h : A.addI B = some C) : C.WF := by
  cases A <;> cases B <;> simp only [addI, Option.some.injEq, reduceCtorEq] at h <;> subst h <;>
    simp only [WF_twoSided, WF_upper, WF_lower, ofRing_add] at *
  linarith

theorem WF_subI {A B C : Interval α} (hA : A.WF) (hB : B.WF) (h : A.subI B = some C) : C.WF := by
  cases A <;> cases B <;> simp only [subI, Option.some.injEq, reduceCtorEq] at h <;> subst h <;>
    simp only [WF_twoSided, WF_upper, WF_lower, ofRing_sub] at *
  linarith

/-- the sums of the members of an upward and a downward unbounded interval: every value -/
theorem image2_add_upper_lower (a b : α) : image2 (· + ·) (Ici a) (Iic b) = univ := by
  ext z
  simp only [mem_image2, mem_Ici, mem_Iic, mem_univ, iff_true]
  exact ⟨max a (z - b), le_max_left _ _, z - max a (z - b),
    by linarith [le_max_right a (z - b)], by ring⟩

/-- the differences of the members of two upward (two downward) unbounded intervals: every value -/
theorem image2_sub_upper_upper (a b : α) : image2 (· - ·) (Ici a) (Ici b) = univ := by
  ext z
  simp only [mem_image2, mem_Ici, mem_univ, iff_true]
  exact ⟨max a (z + b), le_max_left _ _, max a (z + b) - z,
    by linarith [le_max_right a (z + b)], by ring⟩

theorem image2_sub_lower_lower (a b : α) : image2 (· - ·) (Iic a) (Iic b) = univ := by
  ext z
  simp only [mem_image2, mem_Iic, mem_univ, iff_true]
  exact ⟨min a (z + b), min_le_left _ _, min a (z + b) - z,
    by linarith [min_le_right a (z + b)], by ring⟩

end ring2

/-! #### division by a scalar, `relative_to` (ordered field) -/
section field2
variable {α : Type} [Field α] [LinearOrder α] [IsStrictOrderedRing α]
attribute [local instance] NumOps.ofField

theorem mem_divScalar (A : Interval α) {k : α} (hk : k ≠ 0) {x : α} (hx : x ∈ A.den) :
    x / k ∈ (A.divScalar k).den := by
  rcases lt_or_gt_of_ne hk with hk | hk
  · rw [divScalar_of_neg A hk]; exact mem_appliedFlipped_of_anti A _ (anti_div_const hk.le) hx
  · rw [divScalar_of_pos A hk]; exact mem_appliedBoth_of_mono A _ (mono_div_const hk.le) hx

theorem den_divScalar (A : Interval α) {k : α} (hk : k ≠ 0) :
    (A.divScalar k).den = (· / k) '' A.den := by
  rcases lt_or_gt_of_ne hk with hk' | hk'
  · rw [divScalar_of_neg A hk']
    exact den_appliedFlipped_of_anti A _ (· * k) (anti_div_const hk'.le) (anti_mul_const hk'.le)
      (fun x => mul_div_cancel_right₀ x hk) (fun x => div_mul_cancel₀ x hk)
  · rw [divScalar_of_pos A hk']
    exact den_appliedBoth_of_mono A _ (· * k) (mono_div_const hk'.le) (mono_mul_const hk'.le)
      (fun x => mul_div_cancel_right₀ x hk) (fun x => div_mul_cancel₀ x hk)

theorem den_mulScalar (A : Interval α) {k : α} (hk : k ≠ 0) :
    (A.mulScalar k).den = (· * k) '' A.den := by
  rw [mulScalar_ofField]
  rcases lt_or_gt_of_ne hk with hk' | hk'
  · rw [mulScalar_of_neg A hk']
    exact den_appliedFlipped_of_anti A _ (· / k) (anti_mul_const hk'.le) (anti_div_const hk'.le)
      (fun x => div_mul_cancel₀ x hk) (fun x => mul_div_cancel_right₀ x hk)
  · rw [mulScalar_of_pos A hk']
    exact den_appliedBoth_of_mono A _ (· / k) (mono_mul_const hk'.le) (mono_div_const hk'.le)
      (fun x => div_mul_cancel₀ x hk) (fun x => mul_div_cancel_right₀ x hk)

theorem WF_divScalar {A : Interval α} (hA : A.WF) {k : α} (hk : k ≠ 0) : (A.divScalar k).WF := by
  rcases lt_or_gt_of_ne hk with hk | hk
  · rw [divScalar_of_neg A hk]; exact WF_appliedFlipped_of_anti _ (anti_div_const hk.le) hA
  · rw [divScalar_of_pos A hk]; exact WF_appliedBoth_of_mono _ (mono_div_const hk.le) hA

theorem bound_divScalar_attained {A : Interval α} (hA : A.WF) {k : α} (hk : k ≠ 0) {b : α}
    (h : (A.divScalar k).left = some b ∨ (A.divScalar k).right = some b) :
    ∃ x ∈ A.den, x / k = b := by
  rcases lt_or_gt_of_ne hk with hk | hk
  · rw [divScalar_of_neg A hk] at h; exact bound_appliedFlipped_attained hA _ h
  · rw [divScalar_of_pos A hk] at h; exact bound_appliedBoth_attained hA _ h

/-! #### `relative_to` -/

/-- an interval all of whose members are non-negative is bounded below -/
theorem isLower_eq_false_of_nonneg {A : Interval α} (h : ∀ x ∈ A.den, 0 ≤ x) :
    A.isLower = false := by
  cases A with
  | twoSided lo hi => rfl
  | upper lo => rfl
  | lower hi =>
    exfalso
    have := h (min hi 0 - 1) (by simp only [den_lower, mem_Iic]; linarith [min_le_left hi 0])
    linarith [min_le_right hi 0]

/-- the only `None`s (panics) of `relative_to`: a zero bound of the reference, or both intervals
    unbounded on the same side -/
theorem relativeTo_eq_none_iff (A R : Interval α) :
    A.relativeTo R = none ↔ R.left = some 0 ∨ R.right = some 0 ∨
      (A.isUpper = true ∧ R.isUpper = true) ∨ (A.isLower = true ∧ R.isLower = true) := by
  cases R <;> cases A <;>
    simp only [relativeTo, left, right, isUpper, isLower, ofField_eq_iff, ofField_zero,
      Bool.or_eq_true, Option.some.injEq, reduceCtorEq, Bool.false_eq_true, and_false, and_true,
      or_false, false_or, and_self, or_true, iff_true] <;>
    split_ifs <;> simp_all

/-- the two order facts behind `relative_to`: for `0 ≤ x ≤ X` and `0 < r ≤ b`,
    `(x - b)/b ≤ (X - r)/r`; for `0 ≤ X ≤ y` and `0 < a ≤ r`, `(X - r)/r ≤ (y - a)/a` -/
theorem rel_lower_le {x X r b : α} (hx : 0 ≤ x) (hxX : x ≤ X) (hr : 0 < r) (hrb : r ≤ b) :
    (x - b) / b ≤ (X - r) / r := by
  have hb : 0 < b := lt_of_lt_of_le hr hrb
  have h1 : x * r ≤ X * b := mul_le_mul hxX hrb hr.le (hx.trans hxX)
  rw [div_le_div_iff₀ hb hr]
  linarith

theorem rel_le_upper {X y a r : α} (hX : 0 ≤ X) (hXy : X ≤ y) (ha : 0 < a) (har : a ≤ r) :
    (X - r) / r ≤ (y - a) / a := by
  have hr : 0 < r := lt_of_lt_of_le ha har
  have h1 : X * a ≤ y * r := mul_le_mul hXy har ha.le (hX.trans hXy)
  rw [div_le_div_iff₀ hr ha]
  linarith

/-- `relative_to` of a non-negative interval against a strictly positive reference encloses
    `(X - r)/r` for all members `X`, `r` -/
theorem mem_relativeTo {A R C : Interval α} (hA0 : ∀ x ∈ A.den, 0 ≤ x) (hR0 : ∀ r ∈ R.den, 0 < r)
    (h : A.relativeTo R = some C) {X r : α} (hX : X ∈ A.den) (hr : r ∈ R.den) :
    (X - r) / r ∈ C.den := by
  have hr0 := hR0 r hr
  have hX0 := hA0 X hX
  cases R with
  | twoSided a b =>
    have ha : 0 < a := hR0 a ⟨le_rfl, hr.1.trans hr.2⟩
    have hb : 0 < b := hR0 b ⟨hr.1.trans hr.2, le_rfl⟩
    cases A with
    | twoSided x y =>
      have hx : 0 ≤ x := hA0 x ⟨le_rfl, hX.1.trans hX.2⟩
      simp [relativeTo, ha.ne', hb.ne'] at h
      subst h
      exact ⟨rel_lower_le hx hX.1 hr0 hr.2, rel_le_upper hX0 hX.2 ha hr.1⟩
    | upper x =>
      have hx : 0 ≤ x := hA0 x (le_refl x)
      simp [relativeTo, ha.ne', hb.ne'] at h
      subst h
      exact rel_lower_le hx hX hr0 hr.2
    | lower y =>
      have := isLower_eq_false_of_nonneg hA0
      simp [isLower] at this
  | upper a =>
    have ha : 0 < a := hR0 a (le_refl a)
    cases A with
    | twoSided x y =>
      simp [relativeTo, ha.ne'] at h
      subst h
      exact rel_le_upper hX0 hX.2 ha hr
    | upper x =>
      simp [relativeTo, ha.ne'] at h
    | lower y =>
      have := isLower_eq_false_of_nonneg hA0
      simp [isLower] at this
  | lower b =>
    have : 0 < min b 0 - 1 :=
      hR0 _ (by simp only [den_lower, mem_Iic]; linarith [min_le_left b 0])
    linarith [min_le_right b 0]

/-- … and every finite bound of the result is `(X - r)/r` for some members `X`, `r` -/
theorem bound_relativeTo_attained {A R C : Interval α} (hA : A.WF) (hR : R.WF)
    (h : A.relativeTo R = some C) {β : α} (hβ : C.left = some β ∨ C.right = some β) :
    ∃ X ∈ A.den, ∃ r ∈ R.den, (X - r) / r = β := by
  cases R <;> cases A <;> simp only [relativeTo] at h <;> split_ifs at h <;>
    simp only [Option.some.injEq] at h <;> subst h <;>
    (try simp only [WF_twoSided] at hA hR) <;>
    rcases hβ with hβ | hβ <;>
    simp only [left, right, Option.some.injEq, reduceCtorEq, ofField_sub, ofField_div] at hβ <;>
    subst hβ <;>
    refine ⟨_, ?_, _, ?_, rfl⟩ <;> simp [hA, hR]

end field2

section field3
variable {α : Type} [Field α] [LinearOrder α] [IsStrictOrderedRing α]
attribute [local instance] NumOps.ofField

/-- two-sided against two-sided, `0 ≤ x ≤ y`, `0 < a ≤ b`: the result denotes exactly the set of
    the values `(X - r)/r` -/
theorem image2_rel_Icc {x y a b : α} (hx : 0 ≤ x) (hxy : x ≤ y) (ha : 0 < a) (hab : a ≤ b) :
    Icc ((x - b) / b) ((y - a) / a) = image2 (fun X r => (X - r) / r) (Icc x y) (Icc a b) := by
  have hb : 0 < b := lt_of_lt_of_le ha hab
  ext z
  simp only [mem_image2, mem_Icc]
  constructor
  · rintro ⟨h1, h2⟩
    rw [div_le_iff₀ hb] at h1
    rw [le_div_iff₀ ha] at h2
    by_cases hc : (z + 1) * b ≤ y
    · refine ⟨(z + 1) * b, ⟨by linarith, hc⟩, b, ⟨hab, le_rfl⟩, ?_⟩
      field_simp
      ring
    · have hc' : y < (z + 1) * b := not_le.mp hc
      have hy : 0 ≤ y := hx.trans hxy
      have hw : 0 < z + 1 := by
        by_contra hneg
        have : (z + 1) * b ≤ 0 := mul_nonpos_of_nonpos_of_nonneg (not_lt.mp hneg) hb.le
        linarith
      refine ⟨y, ⟨hxy, le_rfl⟩, y / (z + 1), ⟨?_, ?_⟩, ?_⟩
      · rw [le_div_iff₀ hw]; linarith
      · rw [div_le_iff₀ hw]; linarith
      · have hy0 : y ≠ 0 := by
          rintro rfl
          have : (z + 1) * a ≤ 0 := by linarith
          have : 0 < (z + 1) * a := mul_pos hw ha
          linarith
        field_simp
        ring
  · rintro ⟨X, ⟨hX1, hX2⟩, r, ⟨hr1, hr2⟩, rfl⟩
    have hr : 0 < r := lt_of_lt_of_le ha hr1
    exact ⟨rel_lower_le hx hX1 hr hr2, rel_le_upper (hx.trans hX1) hX2 ha hr1⟩

/-- against a reference that is unbounded above the result `(-∞, (y - a)/a]` is NOT tight on its
    unbounded side: every value `(X - r)/r` with `X ≥ 0`, `r > 0` is at least `-1` -/
theorem rel_ge_neg_one {X r : α} (hX : 0 ≤ X) (hr : 0 < r) : -1 ≤ (X - r) / r := by
  rw [le_div_iff₀ hr]; linarith

end field3

end Interval
end StatsCI
