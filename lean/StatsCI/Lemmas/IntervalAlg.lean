/-
  StatsCI.Lemmas.IntervalAlg — the model's `NumOps` operations interpreted over an ordered ring /
  ordered field, and the algebra of the denoted sets of `Interval`s under the kind-preserving and
  the mirroring map of the bounds (`appliedBoth` / `appliedFlipped`).

  Helper lemmas for C13 / C14 / C15 / C19.
-/
import StatsCI.Lemmas.Order
import Mathlib.Algebra.Order.Field.Basic
import Mathlib.Algebra.Order.Ring.Defs
import Mathlib.Algebra.Order.Ring.Int
import Mathlib.Algebra.Order.Ring.Rat
import Mathlib.Data.Set.Image
import Mathlib.Data.Set.NAry
import Mathlib.Tactic.Linarith
import Mathlib.Tactic.Ring
import Mathlib.Tactic.FieldSimp
import Mathlib.Tactic.Order

namespace StatsCI

/-- the arithmetic of an ordered commutative ring (machine-independent integers, rationals, reals),
    over the comparison operations `Cmp.ofLinearOrder`. `div` is not a ring operation: it is a
    dummy here and no theorem stated over `ofRing` mentions a function that uses it. -/
@[reducible] def NumOps.ofRing (α : Type) [CommRing α] [LinearOrder α] [IsStrictOrderedRing α] :
    NumOps α where
  toCmp := Cmp.ofLinearOrder α
  add := (· + ·)
  sub := (· - ·)
  mul := (· * ·)
  div := fun a _ => a
  neg := fun a => -a
  zero := 0
  one := 1

/-- the arithmetic of an ordered field, over the comparison operations `Cmp.ofLinearOrder` -/
@[reducible] def NumOps.ofField (α : Type) [Field α] [LinearOrder α] [IsStrictOrderedRing α] :
    NumOps α where
  toCmp := Cmp.ofLinearOrder α
  add := (· + ·)
  sub := (· - ·)
  mul := (· * ·)
  div := (· / ·)
  neg := fun a => -a
  zero := 0
  one := 1

section ring
variable {α : Type} [CommRing α] [LinearOrder α] [IsStrictOrderedRing α]
attribute [local instance] NumOps.ofRing

@[simp] theorem ofRing_le_iff (a b : α) : (Cmp.le a b = true) ↔ a ≤ b := by simp [Cmp.le]
@[simp] theorem ofRing_lt_iff (a b : α) : (Cmp.lt a b = true) ↔ a < b := by simp [Cmp.lt]
@[simp] theorem ofRing_eq_iff (a b : α) : (Cmp.eq a b = true) ↔ a = b := by simp [Cmp.eq]
@[simp] theorem ofRing_add (a b : α) : NumOps.add a b = a + b := rfl
@[simp] theorem ofRing_sub (a b : α) : NumOps.sub a b = a - b := rfl
@[simp] theorem ofRing_mul (a b : α) : NumOps.mul a b = a * b := rfl
@[simp] theorem ofRing_neg (a : α) : NumOps.neg a = -a := rfl
@[simp] theorem ofRing_zero : (NumOps.zero : α) = 0 := rfl
@[simp] theorem ofRing_one : (NumOps.one : α) = 1 := rfl
end ring

section field
variable {α : Type} [Field α] [LinearOrder α] [IsStrictOrderedRing α]
attribute [local instance] NumOps.ofField

@[simp] theorem ofField_le_iff (a b : α) : (Cmp.le a b = true) ↔ a ≤ b := by simp [Cmp.le]
@[simp] theorem ofField_lt_iff (a b : α) : (Cmp.lt a b = true) ↔ a < b := by simp [Cmp.lt]
@[simp] theorem ofField_eq_iff (a b : α) : (Cmp.eq a b = true) ↔ a = b := by simp [Cmp.eq]
@[simp] theorem ofField_add (a b : α) : NumOps.add a b = a + b := rfl
@[simp] theorem ofField_sub (a b : α) : NumOps.sub a b = a - b := rfl
@[simp] theorem ofField_mul (a b : α) : NumOps.mul a b = a * b := rfl
@[simp] theorem ofField_div (a b : α) : NumOps.div a b = a / b := rfl
@[simp] theorem ofField_neg (a : α) : NumOps.neg a = -a := rfl
@[simp] theorem ofField_zero : (NumOps.zero : α) = 0 := rfl
@[simp] theorem ofField_one : (NumOps.one : α) = 1 := rfl
end field

namespace Interval
open Set

section bounds
variable {α : Type}
/-- the bounds of `appliedBoth f` are the images of the bounds -/
theorem left_appliedBoth (A : Interval α) (f : α → α) :
    (A.appliedBoth f).left = A.left.map f := by cases A <;> rfl
theorem right_appliedBoth (A : Interval α) (f : α → α) :
    (A.appliedBoth f).right = A.right.map f := by cases A <;> rfl
theorem left_appliedFlipped (A : Interval α) (f : α → α) :
    (A.appliedFlipped f).left = A.right.map f := by cases A <;> rfl
theorem right_appliedFlipped (A : Interval α) (f : α → α) :
    (A.appliedFlipped f).right = A.left.map f := by cases A <;> rfl

end bounds

section order
variable {α : Type} [LinearOrder α]

@[simp] theorem den_twoSided (lo hi : α) : (Interval.twoSided lo hi).den = Icc lo hi := rfl
@[simp] theorem den_upper (lo : α) : (Interval.upper lo).den = Ici lo := rfl
@[simp] theorem den_lower (hi : α) : (Interval.lower hi).den = Iic hi := rfl
@[simp] theorem WF_twoSided (lo hi : α) : (Interval.twoSided lo hi).WF ↔ lo ≤ hi := Iff.rfl
@[simp] theorem WF_upper (lo : α) : (Interval.upper lo).WF := trivial
@[simp] theorem WF_lower (hi : α) : (Interval.lower hi).WF := trivial

/-- a well-formed interval is not empty -/
theorem den_nonempty {A : Interval α} (hA : A.WF) : A.den.Nonempty := by
  cases A with
  | twoSided lo hi => exact ⟨lo, le_rfl, hA⟩
  | upper lo => exact ⟨lo, le_rfl⟩
  | lower hi => exact ⟨hi, le_rfl⟩

/-- an interval is well-formed exactly when it denotes a non-empty set -/
theorem WF_iff_nonempty (A : Interval α) : A.WF ↔ A.den.Nonempty := by
  refine ⟨den_nonempty, ?_⟩
  cases A with
  | twoSided lo hi => rintro ⟨z, h1, h2⟩; exact h1.trans h2
  | upper lo => intro _; trivial
  | lower hi => intro _; trivial

/-- every finite bound of a well-formed interval is a member -/
theorem left_mem_den {A : Interval α} (hA : A.WF) {b : α} (h : A.left = some b) : b ∈ A.den := by
  cases A <;> simp only [left, Option.some.injEq, reduceCtorEq] at h <;> subst h
  · exact ⟨le_rfl, hA⟩
  · simp [den]

theorem right_mem_den {A : Interval α} (hA : A.WF) {b : α} (h : A.right = some b) : b ∈ A.den := by
  cases A <;> simp only [right, Option.some.injEq, reduceCtorEq] at h <;> subst h
  · exact ⟨hA, le_rfl⟩
  · simp [den]

/-- a finite lower bound bounds every member -/
theorem left_le_of_mem {A : Interval α} {b x : α} (h : A.left = some b) (hx : x ∈ A.den) :
    b ≤ x := by
  cases A <;> simp only [left, Option.some.injEq, reduceCtorEq] at h <;> subst h
  · exact hx.1
  · exact hx

theorem le_right_of_mem {A : Interval α} {b x : α} (h : A.right = some b) (hx : x ∈ A.den) :
    x ≤ b := by
  cases A <;> simp only [right, Option.some.injEq, reduceCtorEq] at h <;> subst h
  · exact hx.2
  · exact hx

/-- kind-preserving map of the bounds by an increasing bijection: the denoted set is the image -/
theorem den_appliedBoth_of_mono (A : Interval α) (f g : α → α) (hf : Monotone f) (hg : Monotone g)
    (hfg : ∀ x, f (g x) = x) (hgf : ∀ x, g (f x) = x) :
    (A.appliedBoth f).den = f '' A.den := by
  ext z
  cases A <;> simp only [appliedBoth, applied, den, mem_image, mem_Icc, mem_Ici, mem_Iic]
  · constructor
    · rintro ⟨h1, h2⟩
      refine ⟨g z, ⟨?_, ?_⟩, hfg z⟩
      · have := hg h1; rwa [hgf] at this
      · have := hg h2; rwa [hgf] at this
    · rintro ⟨w, ⟨h1, h2⟩, rfl⟩; exact ⟨hf h1, hf h2⟩
  · constructor
    · intro h1
      refine ⟨g z, ?_, hfg z⟩
      have := hg h1; rwa [hgf] at this
    · rintro ⟨w, h1, rfl⟩; exact hf h1
  · constructor
    · intro h1
      refine ⟨g z, ?_, hfg z⟩
      have := hg h1; rwa [hgf] at this
    · rintro ⟨w, h1, rfl⟩; exact hf h1

/-- mirroring map of the bounds by a decreasing bijection: the denoted set is the image -/
theorem den_appliedFlipped_of_anti (A : Interval α) (f g : α → α) (hf : Antitone f)
    (hg : Antitone g) (hfg : ∀ x, f (g x) = x) (hgf : ∀ x, g (f x) = x) :
    (A.appliedFlipped f).den = f '' A.den := by
  ext z
  cases A <;> simp only [appliedFlipped, den, mem_image, mem_Icc, mem_Ici, mem_Iic]
  · constructor
    · rintro ⟨h1, h2⟩
      refine ⟨g z, ⟨?_, ?_⟩, hfg z⟩
      · have := hg h2; rwa [hgf] at this
      · have := hg h1; rwa [hgf] at this
    · rintro ⟨w, ⟨h1, h2⟩, rfl⟩; exact ⟨hf h2, hf h1⟩
  · constructor
    · intro h1
      refine ⟨g z, ?_, hfg z⟩
      have := hg h1; rwa [hgf] at this
    · rintro ⟨w, h1, rfl⟩; exact hf h1
  · constructor
    · intro h1
      refine ⟨g z, ?_, hfg z⟩
      have := hg h1; rwa [hgf] at this
    · rintro ⟨w, h1, rfl⟩; exact hf h1

/-- soundness alone needs monotonicity only (no inverse): ordered rings, `k ≥ 0` -/
theorem mem_appliedBoth_of_mono (A : Interval α) (f : α → α) (hf : Monotone f) {x : α}
    (hx : x ∈ A.den) : f x ∈ (A.appliedBoth f).den := by
  cases A <;> simp only [appliedBoth, applied, den, mem_Icc, mem_Ici, mem_Iic] at *
  · exact ⟨hf hx.1, hf hx.2⟩
  · exact hf hx
  · exact hf hx

theorem mem_appliedFlipped_of_anti (A : Interval α) (f : α → α) (hf : Antitone f) {x : α}
    (hx : x ∈ A.den) : f x ∈ (A.appliedFlipped f).den := by
  cases A <;> simp only [appliedFlipped, den, mem_Icc, mem_Ici, mem_Iic] at *
  · exact ⟨hf hx.2, hf hx.1⟩
  · exact hf hx
  · exact hf hx

theorem WF_appliedBoth_of_mono {A : Interval α} (f : α → α) (hf : Monotone f) (hA : A.WF) :
    (A.appliedBoth f).WF := by
  cases A <;> simp only [appliedBoth, applied, WF] at *
  exact hf hA

theorem WF_appliedFlipped_of_anti {A : Interval α} (f : α → α) (hf : Antitone f) (hA : A.WF) :
    (A.appliedFlipped f).WF := by
  cases A <;> simp only [appliedFlipped, WF] at *
  exact hf hA

end order

section ring
variable {α : Type} [CommRing α] [LinearOrder α] [IsStrictOrderedRing α]
attribute [local instance] NumOps.ofRing

theorem addScalar_eq (A : Interval α) (k : α) : A.addScalar k = A.appliedBoth (· + k) := rfl
theorem subScalar_eq (A : Interval α) (k : α) : A.subScalar k = A.appliedBoth (· - k) := rfl
theorem negI_eq (A : Interval α) : A.negI = A.appliedFlipped (fun x => -x) := rfl

theorem mulScalar_of_neg (A : Interval α) {k : α} (hk : k < 0) :
    A.mulScalar k = A.appliedFlipped (· * k) := by
  simp [mulScalar, hk]

theorem mulScalar_of_pos (A : Interval α) {k : α} (hk : 0 < k) :
    A.mulScalar k = A.appliedBoth (· * k) := by
  simp [mulScalar, hk, not_lt.mpr hk.le, gt]

theorem mulScalar_zero (A : Interval α) :
    A.mulScalar 0 = match A with
      | .twoSided _ _ => .twoSided 0 0
      | .upper _ => .twoSided 0 0
      | .lower _ => .twoSided 0 0 := by
  cases A <;> simp [mulScalar, gt]

theorem mono_add_const (k : α) : Monotone (fun x : α => x + k) := fun _ _ h => by
  simpa using h
theorem mono_sub_const (k : α) : Monotone (fun x : α => x - k) := fun _ _ h => by
  simpa using h
theorem anti_neg : Antitone (fun x : α => -x) := fun _ _ h => by simpa using h
theorem mono_mul_const {k : α} (hk : 0 ≤ k) : Monotone (fun x : α => x * k) := fun _ _ h =>
  mul_le_mul_of_nonneg_right h hk
theorem anti_mul_const {k : α} (hk : k ≤ 0) : Antitone (fun x : α => x * k) := fun _ _ h =>
  mul_le_mul_of_nonpos_right h hk

end ring

section field
variable {α : Type} [Field α] [LinearOrder α] [IsStrictOrderedRing α]

/-- over a field the model functions that do not divide are the same under both instances -/
theorem addScalar_ofField (A : Interval α) (k : α) :
    @addScalar α (NumOps.ofField α) A k = @addScalar α (NumOps.ofRing α) A k := rfl
theorem subScalar_ofField (A : Interval α) (k : α) :
    @subScalar α (NumOps.ofField α) A k = @subScalar α (NumOps.ofRing α) A k := rfl
theorem mulScalar_ofField (A : Interval α) (k : α) :
    @mulScalar α (NumOps.ofField α) A k = @mulScalar α (NumOps.ofRing α) A k := rfl
theorem negI_ofField (A : Interval α) :
    @negI α (NumOps.ofField α) A = @negI α (NumOps.ofRing α) A := rfl
theorem addI_ofField (A B : Interval α) :
    @addI α (NumOps.ofField α) A B = @addI α (NumOps.ofRing α) A B := rfl
theorem subI_ofField (A B : Interval α) :
    @subI α (NumOps.ofField α) A B = @subI α (NumOps.ofRing α) A B := rfl
theorem width_ofField (A : Interval α) :
    @width α (NumOps.ofField α) A = @width α (NumOps.ofRing α) A := rfl

attribute [local instance] NumOps.ofField

theorem divScalar_of_neg (A : Interval α) {k : α} (hk : k < 0) :
    A.divScalar k = A.appliedFlipped (· / k) := by
  simp [divScalar, hk]

theorem divScalar_of_pos (A : Interval α) {k : α} (hk : 0 < k) :
    A.divScalar k = A.appliedBoth (· / k) := by
  simp [divScalar, not_lt.mpr hk.le]

theorem mono_div_const {k : α} (hk : 0 ≤ k) : Monotone (fun x : α => x / k) := fun _ _ h =>
  div_le_div_of_nonneg_right h hk
theorem anti_div_const {k : α} (hk : k ≤ 0) : Antitone (fun x : α => x / k) := fun _ _ h =>
  div_le_div_of_nonpos_of_le hk h

end field

end Interval
end StatsCI
