/-
  StatsCI.Lemmas.MeanRound — helper lemmas for C01R: forward rounding-error bounds for the
  one-sample mean interval of the model's `Arith` at the carrier `RR fl`.

  * pure real lemmas: one rounded operation (`fl_close`, `fl_step`), the clamp, square roots,
    `(Σ|x|)² ≤ n·Σx²`;
  * the two registers of `Arith.fromList (xs.map inj)` at `RR fl` through `kahan_sequential`;
  * the chains mean → variance → standard deviation → interval bounds.
-/
import StatsCI.Lemmas.Kahan
import StatsCI.Lemmas.MeanExact

set_option linter.unusedSectionVars false
set_option linter.unusedVariables false

namespace StatsCI.MeanRound
open StatsCI KahanLemmas MeanLemmas NumOps Scalar

variable {fl : ℝ → ℝ} {u : ℝ}

/-! ## one rounded operation -/

/-- a rounded operation applied to an approximation `a` of `b` -/
theorem fl_close (hfl : ∀ x, |fl x - x| ≤ u * |x|) (hu : 0 ≤ u) {a b e : ℝ}
    (h : |a - b| ≤ e) : |fl a - b| ≤ e + u * (|b| + e) := by
  have h1 := hfl a
  have h2 : |a| ≤ |b| + e := by
    have := abs_add_le (a - b) b
    simp only [sub_add_cancel] at this
    linarith
  have h3 : u * |a| ≤ u * (|b| + e) := mul_le_mul_of_nonneg_left h2 hu
  have h4 : |fl a - b| ≤ |fl a - a| + |a - b| := by
    have := abs_add_le (fl a - a) (a - b)
    simpa using this
  linarith

/-- the same with the error measured in units `u·Y` of a magnitude bound `Y` of the target:
    `k` units before the operation, `k + 2` after -/
theorem fl_step (hfl : ∀ x, |fl x - x| ≤ u * |x|) (hu : 0 ≤ u) (hu' : u ≤ 1 / 2048)
    {a b Y k : ℝ} (hk0 : 0 ≤ k) (hk : k ≤ 2048) (hb : |b| ≤ Y)
    (hab : |a - b| ≤ k * u * Y) : |fl a - b| ≤ (k + 2) * u * Y := by
  have hY : 0 ≤ Y := le_trans (abs_nonneg _) hb
  have h := fl_close hfl hu hab
  have huY : 0 ≤ u * Y := mul_nonneg hu hY
  have f1 : u * (u * Y) ≤ 1 / 2048 * (u * Y) := mul_le_mul_of_nonneg_right hu' huY
  have f2 : k * (u * (u * Y)) ≤ k * (1 / 2048 * (u * Y)) := mul_le_mul_of_nonneg_left f1 hk0
  have f3 : k * (u * Y) ≤ 2048 * (u * Y) := mul_le_mul_of_nonneg_right hk huY
  have f4 : u * |b| ≤ u * Y := mul_le_mul_of_nonneg_left hb hu
  have e1 : u * (|b| + k * u * Y) = u * |b| + k * (u * (u * Y)) := by ring
  rw [e1] at h
  have e2 : (k + 2) * u * Y = k * (u * Y) + 2 * (u * Y) := by ring
  have e3 : k * u * Y = k * (u * Y) := by ring
  rw [e2]; rw [e3] at h
  linarith

/-- clamping an approximation of a non-negative number at zero does not increase the error -/
theorem clamp_close {v vh : ℝ} (hv : 0 ≤ v) : |(if vh < 0 then 0 else vh) - v| ≤ |vh - v| := by
  split_ifs with h
  · rw [zero_sub, abs_neg, abs_of_nonneg hv]
    have : v ≤ -(vh - v) := by linarith
    exact le_trans this (neg_le_abs _)
  · exact le_refl _

theorem clamp_nonneg (vh : ℝ) : 0 ≤ (if vh < 0 then 0 else vh) := by
  split_ifs with h
  · exact le_refl _
  · exact not_lt.mp h

/-! ## square roots -/

/-- `|√a − √b| ≤ √|a − b|` -/
theorem abs_sqrt_sub_sqrt_le {a b : ℝ} (ha : 0 ≤ a) (hb : 0 ≤ b) :
    |Real.sqrt a - Real.sqrt b| ≤ Real.sqrt |a - b| := by
  have key : ∀ {p q : ℝ}, 0 ≤ q → q ≤ p → Real.sqrt p - Real.sqrt q ≤ Real.sqrt (p - q) := by
    intro p q hq hpq
    have hp : 0 ≤ p := le_trans hq hpq
    have h1 : Real.sqrt p ≤ Real.sqrt q + Real.sqrt (p - q) := by
      rw [Real.sqrt_le_left (add_nonneg (Real.sqrt_nonneg _) (Real.sqrt_nonneg _))]
      have s1 := Real.sq_sqrt hq
      have s2 := Real.sq_sqrt (sub_nonneg.mpr hpq)
      have s3 := mul_nonneg (Real.sqrt_nonneg q) (Real.sqrt_nonneg (p - q))
      nlinarith
    linarith
  rcases le_total b a with h | h
  · rw [abs_of_nonneg (sub_nonneg.mpr (Real.sqrt_le_sqrt h)), abs_of_nonneg (sub_nonneg.mpr h)]
    exact key hb h
  · rw [abs_sub_comm, abs_of_nonneg (sub_nonneg.mpr (Real.sqrt_le_sqrt h)), abs_sub_comm,
      abs_of_nonneg (sub_nonneg.mpr h)]
    exact key ha h

/-- `|√a − √b|·√b ≤ |a − b|` -/
theorem abs_sqrt_sub_sqrt_mul_le {a b : ℝ} (ha : 0 ≤ a) (hb : 0 ≤ b) :
    |Real.sqrt a - Real.sqrt b| * Real.sqrt b ≤ |a - b| := by
  have e : a - b = (Real.sqrt a - Real.sqrt b) * (Real.sqrt a + Real.sqrt b) := by
    have s1 := Real.mul_self_sqrt ha
    have s2 := Real.mul_self_sqrt hb
    ring_nf
    nlinarith
  rw [e, abs_mul, abs_of_nonneg (add_nonneg (Real.sqrt_nonneg a) (Real.sqrt_nonneg b))]
  exact mul_le_mul_of_nonneg_left (by linarith [Real.sqrt_nonneg a]) (abs_nonneg _)

/-! ## sums over lists -/

/-- `Σx²` -/
def sumSq (xs : List ℝ) : ℝ := (xs.map (fun x => x * x)).sum

theorem sumSq_nonneg (xs : List ℝ) : 0 ≤ sumSq xs := by
  unfold sumSq
  apply List.sum_nonneg
  intro y hy
  simp only [List.mem_map] at hy
  obtain ⟨x, _, rfl⟩ := hy
  exact mul_self_nonneg x

/-- Cauchy–Schwarz: `(Σ|x|)·(Σ|x|)/n ≤ Σx²` -/
theorem sumAbs_mul_le (xs : List ℝ) (hn : 1 ≤ xs.length) :
    sumAbs xs / xs.length * sumAbs xs ≤ sumSq xs := by
  have h := sdev2_eq (xs.map abs) (by simpa using hn)
  have h0 := sdev2_nonneg (xs.map abs)
  have e : ((xs.map abs).map (fun x => x * x)).sum = sumSq xs := by
    unfold sumSq
    rw [List.map_map]
    congr 1
    apply List.map_congr_left
    intro x _
    simp [abs_mul_abs_self]
  rw [e] at h
  unfold smean at h
  simp only [List.length_map] at h
  unfold sumAbs
  linarith

/-- `S·S/n ≤ Σx²`, i.e. `Σ(x − x̄)² ≥ 0` -/
theorem sum_mul_le (xs : List ℝ) (hn : 1 ≤ xs.length) :
    0 ≤ sumSq xs - xs.sum / xs.length * xs.sum := by
  have h := sdev2_eq xs hn
  have h0 := sdev2_nonneg xs
  unfold smean at h
  unfold sumSq
  linarith

/-- the list of rounded squares the `sum_sq` register is fed -/
def flSquares (fl : ℝ → ℝ) (xs : List ℝ) : List ℝ := xs.map (fun x => fl (x * x))

theorem flSquares_length (xs : List ℝ) : (flSquares fl xs).length = xs.length := by
  simp [flSquares]

theorem flSquares_bounds (hfl : ∀ x, |fl x - x| ≤ u * |x|) (hu : 0 ≤ u) (xs : List ℝ) :
    |(flSquares fl xs).sum - sumSq xs| ≤ u * sumSq xs ∧
    sumAbs (flSquares fl xs) ≤ (1 + u) * sumSq xs := by
  induction xs with
  | nil => simp [flSquares, sumSq]
  | cons x xs ih =>
    obtain ⟨i1, i2⟩ := ih
    have hx := hfl (x * x)
    have hx' := abs_fl_le hfl (x * x)
    rw [abs_mul_self] at hx hx'
    have e1 : (flSquares fl (x :: xs)).sum = fl (x * x) + (flSquares fl xs).sum := by
      simp [flSquares]
    have e2 : sumSq (x :: xs) = x * x + sumSq xs := by simp [sumSq]
    have e3 : sumAbs (flSquares fl (x :: xs)) = |fl (x * x)| + sumAbs (flSquares fl xs) := by
      simp [flSquares]
    rw [e1, e2, e3]
    constructor
    · have : fl (x * x) + (flSquares fl xs).sum - (x * x + sumSq xs) =
          (fl (x * x) - x * x) + ((flSquares fl xs).sum - sumSq xs) := by ring
      rw [this]
      have := abs_add_le (fl (x * x) - x * x) ((flSquares fl xs).sum - sumSq xs)
      linarith
    · linarith

/-! ## the two registers of `Arith.fromList (xs.map inj)` at `RR fl` -/

theorem fromList_sum (xs : List ℝ) :
    (Arith.fromList (xs.map inj) : Arith (RR fl)).sum =
      (Kahan.empty : Kahan (RR fl)).addList (xs.map inj) :=
  (extend_fields (xs.map inj) (Arith.empty : Arith (RR fl))).1

theorem fromList_sumSq (xs : List ℝ) :
    (Arith.fromList (xs.map inj) : Arith (RR fl)).sumSq =
      (Kahan.empty : Kahan (RR fl)).addList ((flSquares fl xs).map inj) := by
  have h := (extend_fields (xs.map inj) (Arith.empty : Arith (RR fl))).2.1
  have e : (xs.map (inj : ℝ → RR fl)).map (fun x => NumOps.mul x x) =
      (flSquares fl xs).map inj := by
    simp only [flSquares, List.map_map]
    apply List.map_congr_left
    intro x _
    rfl
  rw [e] at h
  exact h

theorem fromList_count' (xs : List ℝ) :
    (Arith.fromList (xs.map inj) : Arith (RR fl)).count = xs.length := by
  simp [Arith.fromList_count]

/-- smallness hypothesis used throughout: `n·u ≤ 1/1024` with `n ≥ 2` gives `u ≤ 1/2048` -/
theorem u_small (hu : 0 ≤ u) {N : ℝ} (hN : 2 ≤ N) (hs : N * u ≤ 1 / 1024) : u ≤ 1 / 2048 := by
  have := mul_le_mul_of_nonneg_right hN hu
  linarith

/-- the `sum` register: `|value − Σx| ≤ 11u·Σ|x|` -/
theorem sum_value_bound (hfl : ∀ x, |fl x - x| ≤ u * |x|) (hu : 0 ≤ u) (xs : List ℝ)
    (hn : 2 ≤ xs.length) (hs : (xs.length : ℝ) * u ≤ 1 / 1024) :
    |(Arith.fromList (xs.map inj) : Arith (RR fl)).sum.value.val - xs.sum| ≤
      11 * u * sumAbs xs := by
  have hN : (2 : ℝ) ≤ xs.length := by exact_mod_cast hn
  have hu' := u_small hu hN hs
  rw [fromList_sum]
  have h := kahan_sequential hu (by linarith) hfl xs (by linarith)
  have hA := sumAbs_nonneg xs
  have huA : 0 ≤ u * sumAbs xs := mul_nonneg hu hA
  have f1 : (xs.length : ℝ) * u * (u * sumAbs xs) ≤ 1 / 1024 * (u * sumAbs xs) :=
    mul_le_mul_of_nonneg_right hs huA
  have f2 : u * (u * sumAbs xs) ≤ 1 / 2048 * (u * sumAbs xs) :=
    mul_le_mul_of_nonneg_right hu' huA
  have e : (10 * u + 9 * ((xs.length : ℝ) + 2) * u ^ 2) * sumAbs xs =
      10 * (u * sumAbs xs) + 9 * ((xs.length : ℝ) * u * (u * sumAbs xs))
        + 18 * (u * (u * sumAbs xs)) := by ring
  rw [e] at h
  have e2 : 11 * u * sumAbs xs = 11 * (u * sumAbs xs) := by ring
  rw [e2]
  linarith

/-- the `sum_sq` register: `|value − Σx²| ≤ 13u·Σx²` -/
theorem sumSq_value_bound (hfl : ∀ x, |fl x - x| ≤ u * |x|) (hu : 0 ≤ u) (xs : List ℝ)
    (hn : 2 ≤ xs.length) (hs : (xs.length : ℝ) * u ≤ 1 / 1024) :
    |(Arith.fromList (xs.map inj) : Arith (RR fl)).sumSq.value.val - sumSq xs| ≤
      13 * u * sumSq xs := by
  have hN : (2 : ℝ) ≤ xs.length := by exact_mod_cast hn
  have hu' := u_small hu hN hs
  rw [fromList_sumSq]
  set ys := flSquares fl xs with hys
  have hlen : (ys.length : ℝ) = xs.length := by rw [hys, flSquares_length]
  have h := kahan_sequential hu (by linarith) hfl ys (by rw [hlen]; linarith)
  obtain ⟨b1, b2⟩ := flSquares_bounds hfl hu xs
  rw [← hys] at b1 b2
  rw [hlen] at h
  have hQ := sumSq_nonneg xs
  have hA := sumAbs_nonneg ys
  have huA : 0 ≤ u * sumAbs ys := mul_nonneg hu hA
  have huQ : 0 ≤ u * sumSq xs := mul_nonneg hu hQ
  have f1 : (xs.length : ℝ) * u * (u * sumAbs ys) ≤ 1 / 1024 * (u * sumAbs ys) :=
    mul_le_mul_of_nonneg_right hs huA
  have f2 : u * (u * sumAbs ys) ≤ 1 / 2048 * (u * sumAbs ys) :=
    mul_le_mul_of_nonneg_right hu' huA
  have f3 : u * sumAbs ys ≤ u * ((1 + u) * sumSq xs) := mul_le_mul_of_nonneg_left b2 hu
  have f4 : u * (u * sumSq xs) ≤ 1 / 2048 * (u * sumSq xs) :=
    mul_le_mul_of_nonneg_right hu' huQ
  have e : (10 * u + 9 * ((xs.length : ℝ) + 2) * u ^ 2) * sumAbs ys =
      10 * (u * sumAbs ys) + 9 * ((xs.length : ℝ) * u * (u * sumAbs ys))
        + 18 * (u * (u * sumAbs ys)) := by ring
  rw [e] at h
  have e3 : u * ((1 + u) * sumSq xs) = u * sumSq xs + u * (u * sumSq xs) := by ring
  rw [e3] at f3
  have tri : |((Kahan.empty : Kahan (RR fl)).addList (ys.map inj)).value.val - sumSq xs| ≤
      |((Kahan.empty : Kahan (RR fl)).addList (ys.map inj)).value.val - ys.sum| +
        |ys.sum - sumSq xs| := by
    have := abs_add_le (((Kahan.empty : Kahan (RR fl)).addList (ys.map inj)).value.val - ys.sum)
      (ys.sum - sumSq xs)
    simpa using this
  have e2 : 13 * u * sumSq xs = 13 * (u * sumSq xs) := by ring
  rw [e2]
  linarith

/-! ## mean -/

theorem mean_val (a : Arith (RR fl)) : a.mean.val = fl (a.sum.value.val / fl a.count) := rfl

/-- `|mean_fl − Σx/n| ≤ 13u·Σ|x|/n` -/
theorem mean_bound (hfl : ∀ x, |fl x - x| ≤ u * |x|) (hu : 0 ≤ u) (xs : List ℝ)
    (hn : 2 ≤ xs.length) (hs : (xs.length : ℝ) * u ≤ 1 / 1024)
    (hnat : ∀ m : ℕ, m ≤ xs.length → fl m = m) :
    |(Arith.fromList (xs.map inj) : Arith (RR fl)).mean.val - smean xs| ≤
      13 * u * (sumAbs xs / xs.length) := by
  have hN : (2 : ℝ) ≤ xs.length := by exact_mod_cast hn
  have hN0 : (0 : ℝ) < xs.length := by linarith
  have hu' := u_small hu hN hs
  have hS := sum_value_bound hfl hu xs hn hs
  rw [mean_val, fromList_count', hnat _ le_rfl]
  unfold smean
  have hb : |xs.sum / (xs.length : ℝ)| ≤ sumAbs xs / xs.length := by
    rw [abs_div, abs_of_pos hN0]
    exact div_le_div_of_nonneg_right (abs_sum_le_sumAbs xs) hN0.le
  have hab : |(Arith.fromList (xs.map inj) : Arith (RR fl)).sum.value.val / (xs.length : ℝ)
      - xs.sum / (xs.length : ℝ)| ≤ 11 * u * (sumAbs xs / xs.length) := by
    rw [← sub_div, abs_div, abs_of_pos hN0]
    have := div_le_div_of_nonneg_right hS hN0.le
    rw [mul_div_assoc] at this
    exact this
  have := fl_step hfl hu hu' (by norm_num : (0 : ℝ) ≤ 11) (by norm_num) hb hab
  norm_num at this
  exact this

/-! ## variance -/

/-- the quotient the model forms before clamping -/
noncomputable def vraw (a : Arith (RR fl)) : ℝ :=
  fl (fl (a.sumSq.value.val - fl (a.mean.val * a.sum.value.val)) / fl ((a.count - 1 : ℕ) : ℝ))

theorem variance_val (a : Arith (RR fl)) :
    a.variance.val = if vraw a < 0 then 0 else vraw a := by
  unfold Arith.variance vraw
  simp only [RR.lt_iff, RR.div_val, RR.sub_val, RR.mul_val, RR.ofNat_val, RR.zero_val]
  split_ifs <;> simp

theorem variance_nonneg (a : Arith (RR fl)) : 0 ≤ a.variance.val := by
  rw [variance_val]; exact clamp_nonneg _

/-- numerator chain `fl (Q̂ − fl (m̂·Ŝ))` against `Q − m·S`, all errors in units of `u·Q` -/
theorem var_chain (hfl : ∀ x, |fl x - x| ≤ u * |x|) (hu : 0 ≤ u) (hu' : u ≤ 1 / 2048)
    {A X S m Q Sh mh Qh : ℝ} (hA : 0 ≤ A) (hX : 0 ≤ X) (hXA : X * A ≤ Q) (hS : |S| ≤ A)
    (hm : |m| ≤ X) (hmS : 0 ≤ m * S) (hD : 0 ≤ Q - m * S)
    (hSh : |Sh - S| ≤ 11 * u * A) (hmh : |mh - m| ≤ 13 * u * X) (hQh : |Qh - Q| ≤ 13 * u * Q) :
    |fl (Qh - fl (mh * Sh)) - (Q - m * S)| ≤ 42 * u * Q := by
  have hP : 0 ≤ X * A := mul_nonneg hX hA
  have hQ0 : 0 ≤ Q := le_trans hP hXA
  have huA : 0 ≤ u * A := mul_nonneg hu hA
  have hShabs : |Sh| ≤ A + 11 * u * A := by
    have := abs_add_le (Sh - S) S
    simp only [sub_add_cancel] at this
    linarith
  have p1 : |(mh - m) * Sh| ≤ (13 * u * X) * (A + 11 * u * A) := by
    rw [abs_mul]
    exact mul_le_mul hmh hShabs (abs_nonneg _) (by positivity)
  have p2 : |m * (Sh - S)| ≤ X * (11 * u * A) := by
    rw [abs_mul]
    exact mul_le_mul hm hSh (abs_nonneg _) hX
  have huP : 0 ≤ u * (X * A) := mul_nonneg hu hP
  have f1 : u * (u * (X * A)) ≤ 1 / 2048 * (u * (X * A)) := mul_le_mul_of_nonneg_right hu' huP
  have f2 : u * (X * A) ≤ u * Q := mul_le_mul_of_nonneg_left hXA hu
  have hprod : |mh * Sh - m * S| ≤ 25 * u * Q := by
    have e : mh * Sh - m * S = (mh - m) * Sh + m * (Sh - S) := by ring
    rw [e]
    have := abs_add_le ((mh - m) * Sh) (m * (Sh - S))
    have e1 : (13 * u * X) * (A + 11 * u * A) = 13 * (u * (X * A)) + 143 * (u * (u * (X * A))) := by
      ring
    have e2 : X * (11 * u * A) = 11 * (u * (X * A)) := by ring
    rw [e1] at p1; rw [e2] at p2
    have e3 : 25 * u * Q = 25 * (u * Q) := by ring
    rw [e3]
    linarith
  have hmSabs : |m * S| ≤ Q := by rw [abs_of_nonneg hmS]; linarith
  have hp := fl_step hfl hu hu' (by norm_num : (0 : ℝ) ≤ 25) (by norm_num) hmSabs hprod
  have hDabs : |Q - m * S| ≤ Q := by rw [abs_of_nonneg hD]; linarith
  have hsub : |(Qh - fl (mh * Sh)) - (Q - m * S)| ≤ 40 * u * Q := by
    have e : (Qh - fl (mh * Sh)) - (Q - m * S) = (Qh - Q) - (fl (mh * Sh) - m * S) := by ring
    rw [e]
    have := abs_sub (Qh - Q) (fl (mh * Sh) - m * S)
    norm_num at hp
    linarith
  have := fl_step hfl hu hu' (by norm_num : (0 : ℝ) ≤ 40) (by norm_num) hDabs hsub
  norm_num at this
  exact this

/-- `|variance_fl − s²| ≤ 44u·Σx²/(n−1)` -/
theorem variance_bound (hfl : ∀ x, |fl x - x| ≤ u * |x|) (hu : 0 ≤ u) (xs : List ℝ)
    (hn : 2 ≤ xs.length) (hs : (xs.length : ℝ) * u ≤ 1 / 1024)
    (hnat : ∀ m : ℕ, m ≤ xs.length → fl m = m) :
    |(Arith.fromList (xs.map inj) : Arith (RR fl)).variance.val - svar xs| ≤
      44 * u * (sumSq xs / ((xs.length : ℝ) - 1)) := by
  have hN : (2 : ℝ) ≤ xs.length := by exact_mod_cast hn
  have hN0 : (0 : ℝ) < xs.length := by linarith
  have hM0 : (0 : ℝ) < (xs.length : ℝ) - 1 := by linarith
  have hu' := u_small hu hN hs
  have hcast : ((xs.length - 1 : ℕ) : ℝ) = (xs.length : ℝ) - 1 := by
    rw [Nat.cast_sub (by omega)]; simp
  set a : Arith (RR fl) := Arith.fromList (xs.map inj) with ha
  have hv0 : 0 ≤ svar xs := svar_nonneg xs (by omega)
  rw [variance_val]
  refine le_trans (clamp_close hv0) ?_
  have hSh := sum_value_bound hfl hu xs hn hs
  have hQh := sumSq_value_bound hfl hu xs hn hs
  have hmh := mean_bound hfl hu xs hn hs hnat
  rw [← ha] at hSh hQh hmh
  have hXA := sumAbs_mul_le xs (by omega)
  have hD : 0 ≤ sumSq xs - smean xs * xs.sum := sum_mul_le xs (by omega)
  have hA := sumAbs_nonneg xs
  have hX : 0 ≤ sumAbs xs / (xs.length : ℝ) := div_nonneg hA hN0.le
  have hm : |smean xs| ≤ sumAbs xs / (xs.length : ℝ) := by
    unfold smean
    rw [abs_div, abs_of_pos hN0]
    exact div_le_div_of_nonneg_right (abs_sum_le_sumAbs xs) hN0.le
  have hmS : 0 ≤ smean xs * xs.sum := by
    unfold smean
    rw [div_mul_eq_mul_div]
    exact div_nonneg (mul_self_nonneg _) hN0.le
  have hnum := var_chain hfl hu hu' hA hX hXA (abs_sum_le_sumAbs xs) hm hmS hD hSh hmh hQh
  have hsv : svar xs = (sumSq xs - smean xs * xs.sum) / ((xs.length : ℝ) - 1) := by
    unfold svar sumSq
    rw [sdev2_eq xs (by omega)]
  have hvr : vraw a = fl (fl (a.sumSq.value.val - fl (a.mean.val * a.sum.value.val)) /
      ((xs.length : ℝ) - 1)) := by
    unfold vraw
    rw [ha, fromList_count', hnat _ (Nat.sub_le _ _), hcast]
  rw [hvr, hsv]
  have hb : |(sumSq xs - smean xs * xs.sum) / ((xs.length : ℝ) - 1)| ≤
      sumSq xs / ((xs.length : ℝ) - 1) := by
    rw [abs_div, abs_of_pos hM0, abs_of_nonneg hD]
    exact div_le_div_of_nonneg_right (by linarith) hM0.le
  have hab : |fl (a.sumSq.value.val - fl (a.mean.val * a.sum.value.val)) / ((xs.length : ℝ) - 1)
      - (sumSq xs - smean xs * xs.sum) / ((xs.length : ℝ) - 1)| ≤
      42 * u * (sumSq xs / ((xs.length : ℝ) - 1)) := by
    rw [← sub_div, abs_div, abs_of_pos hM0]
    have := div_le_div_of_nonneg_right hnum hM0.le
    rw [mul_div_assoc] at this
    exact this
  have := fl_step hfl hu hu' (by norm_num : (0 : ℝ) ≤ 42) (by norm_num) hb hab
  norm_num at this
  exact this

/-! ## standard deviation -/

theorem stdDev_val (a : Arith (RR fl)) : a.stdDev.val = fl (Real.sqrt a.variance.val) := rfl

/-- a rounded square root of an approximation `vh` of `v`, both non-negative -/
theorem sd_chain (hfl : ∀ x, |fl x - x| ≤ u * |x|) (hu : 0 ≤ u) {vh v E : ℝ}
    (hvh : 0 ≤ vh) (hv : 0 ≤ v) (h : |vh - v| ≤ E) :
    |fl (Real.sqrt vh) - Real.sqrt v| ≤ (1 + u) * Real.sqrt E + u * Real.sqrt v ∧
    |fl (Real.sqrt vh) - Real.sqrt v| * Real.sqrt v ≤ (1 + u) * E + u * v := by
  have d1 : |Real.sqrt vh - Real.sqrt v| ≤ Real.sqrt E :=
    le_trans (abs_sqrt_sub_sqrt_le hvh hv) (Real.sqrt_le_sqrt h)
  have d2 : |Real.sqrt vh - Real.sqrt v| * Real.sqrt v ≤ E :=
    le_trans (abs_sqrt_sub_sqrt_mul_le hvh hv) h
  have hs0 := Real.sqrt_nonneg v
  have hc := fl_close hfl hu (le_refl |Real.sqrt vh - Real.sqrt v|)
  rw [abs_of_nonneg hs0] at hc
  set δ := |Real.sqrt vh - Real.sqrt v| with hδ
  have hδ0 : 0 ≤ δ := abs_nonneg _
  have hc' : |fl (Real.sqrt vh) - Real.sqrt v| ≤ (1 + u) * δ + u * Real.sqrt v := by
    have e : (1 + u) * δ + u * Real.sqrt v = δ + u * (Real.sqrt v + δ) := by ring
    rw [e]; exact hc
  have h1u : 0 ≤ 1 + u := by linarith
  constructor
  · have := mul_le_mul_of_nonneg_left d1 h1u
    linarith
  · have m1 := mul_le_mul_of_nonneg_right hc' hs0
    have e : ((1 + u) * δ + u * Real.sqrt v) * Real.sqrt v =
        (1 + u) * (δ * Real.sqrt v) + u * (Real.sqrt v * Real.sqrt v) := by ring
    rw [e, Real.mul_self_sqrt hv] at m1
    have := mul_le_mul_of_nonneg_left d2 h1u
    linarith

/-- closed forms with `E = 44u·Y`, `v ≤ Y`: `7·√(u·Y)` always, and `46u·Y/√v` -/
theorem sd_chain_closed (hfl : ∀ x, |fl x - x| ≤ u * |x|) (hu : 0 ≤ u) (hu' : u ≤ 1 / 2048)
    {vh v Y : ℝ} (hvh : 0 ≤ vh) (hv : 0 ≤ v) (hvY : v ≤ Y) (h : |vh - v| ≤ 44 * u * Y) :
    |fl (Real.sqrt vh) - Real.sqrt v| ≤ 7 * Real.sqrt (u * Y) ∧
    |fl (Real.sqrt vh) - Real.sqrt v| * Real.sqrt v ≤ 46 * u * Y := by
  obtain ⟨c1, c2⟩ := sd_chain hfl hu hvh hv h
  have hY : 0 ≤ Y := le_trans hv hvY
  have huY : 0 ≤ u * Y := mul_nonneg hu hY
  constructor
  · set r := Real.sqrt (u * Y) with hr
    have hr0 : 0 ≤ r := Real.sqrt_nonneg _
    have e44 : Real.sqrt (44 * u * Y) = Real.sqrt 44 * r := by
      rw [mul_assoc, Real.sqrt_mul (by norm_num : (0 : ℝ) ≤ 44)]
    have h44 : Real.sqrt 44 ≤ 6.64 := by
      rw [Real.sqrt_le_iff]; constructor <;> norm_num
    have hsu : Real.sqrt u ≤ 1 / 32 := by
      rw [Real.sqrt_le_iff]; constructor
      · norm_num
      · linarith
    have hsv : Real.sqrt v ≤ Real.sqrt Y := Real.sqrt_le_sqrt hvY
    have er : r = Real.sqrt u * Real.sqrt Y := by rw [hr, Real.sqrt_mul hu]
    have euu : u = Real.sqrt u * Real.sqrt u := (Real.mul_self_sqrt hu).symm
    have t1 : u * Real.sqrt v ≤ 1 / 32 * r := by
      have a1 : u * Real.sqrt v ≤ u * Real.sqrt Y := mul_le_mul_of_nonneg_left hsv hu
      have a2 : u * Real.sqrt Y = Real.sqrt u * r := by
        rw [er]; nth_rewrite 1 [euu]; ring
      have a3 : Real.sqrt u * r ≤ 1 / 32 * r := mul_le_mul_of_nonneg_right hsu hr0
      linarith
    have t2 : Real.sqrt 44 * r ≤ 6.64 * r := mul_le_mul_of_nonneg_right h44 hr0
    have t3 : u * (Real.sqrt 44 * r) ≤ 1 / 2048 * (Real.sqrt 44 * r) :=
      mul_le_mul_of_nonneg_right hu' (mul_nonneg (Real.sqrt_nonneg _) hr0)
    rw [e44] at c1
    have e : (1 + u) * (Real.sqrt 44 * r) = Real.sqrt 44 * r + u * (Real.sqrt 44 * r) := by ring
    rw [e] at c1
    linarith
  · have f1 : u * (u * Y) ≤ 1 / 2048 * (u * Y) := mul_le_mul_of_nonneg_right hu' huY
    have f2 : u * v ≤ u * Y := mul_le_mul_of_nonneg_left hvY hu
    have e : (1 + u) * (44 * u * Y) = 44 * (u * Y) + 44 * (u * (u * Y)) := by ring
    rw [e] at c2
    have e2 : 46 * u * Y = 46 * (u * Y) := by ring
    rw [e2]
    linarith

/-- `|sd_fl − s| ≤ 7·√(u·Σx²/(n−1))` and `|sd_fl − s|·s ≤ 46u·Σx²/(n−1)` -/
theorem stdDev_bound (hfl : ∀ x, |fl x - x| ≤ u * |x|) (hu : 0 ≤ u) (xs : List ℝ)
    (hn : 2 ≤ xs.length) (hs : (xs.length : ℝ) * u ≤ 1 / 1024)
    (hnat : ∀ m : ℕ, m ≤ xs.length → fl m = m) :
    |(Arith.fromList (xs.map inj) : Arith (RR fl)).stdDev.val - ssd xs| ≤
      7 * Real.sqrt (u * (sumSq xs / ((xs.length : ℝ) - 1))) ∧
    |(Arith.fromList (xs.map inj) : Arith (RR fl)).stdDev.val - ssd xs| * ssd xs ≤
      46 * u * (sumSq xs / ((xs.length : ℝ) - 1)) := by
  have hN : (2 : ℝ) ≤ xs.length := by exact_mod_cast hn
  have hN0 : (0 : ℝ) < xs.length := by linarith
  have hM0 : (0 : ℝ) < (xs.length : ℝ) - 1 := by linarith
  have hu' := u_small hu hN hs
  have hv := variance_bound hfl hu xs hn hs hnat
  have hv0 : 0 ≤ svar xs := svar_nonneg xs (by omega)
  have hD : 0 ≤ sumSq xs - smean xs * xs.sum := sum_mul_le xs (by omega)
  have hmS : 0 ≤ smean xs * xs.sum := by
    unfold smean
    rw [div_mul_eq_mul_div]
    exact div_nonneg (mul_self_nonneg _) hN0.le
  have hvY : svar xs ≤ sumSq xs / ((xs.length : ℝ) - 1) := by
    have hsv : svar xs = (sumSq xs - smean xs * xs.sum) / ((xs.length : ℝ) - 1) := by
      unfold svar sumSq
      rw [sdev2_eq xs (by omega)]
    rw [hsv]
    exact div_le_div_of_nonneg_right (by linarith) hM0.le
  rw [stdDev_val]
  unfold ssd
  exact sd_chain_closed hfl hu hu' (variance_nonneg _) hv0 hvY hv

/-! ## standard error and interval bounds -/

/-- `fl (ŝ / fl R)` against `s / R`: `(1 + 4u)·|ŝ − s|/R + 3u·s/R` -/
theorem sem_chain (hfl : ∀ x, |fl x - x| ≤ u * |x|) (hu : 0 ≤ u) (hu' : u ≤ 1 / 2048)
    {sh s R : ℝ} (hR : 0 < R) (hs : 0 ≤ s) :
    |fl (sh / fl R) - s / R| ≤ (1 + 4 * u) * (|sh - s| / R) + 3 * u * (s / R) := by
  set rh := fl R with hrh
  have hr := hfl R
  rw [abs_of_pos hR, ← hrh] at hr
  obtain ⟨hr1, hr2⟩ := abs_le.mp hr
  have huR : u * R ≤ 1 / 2048 * R := mul_le_mul_of_nonneg_right hu' hR.le
  have hrh0 : 0 < rh := by linarith
  set q := sh / rh with hq
  set t := s / R with ht
  set D := |sh - s| / R with hD
  have hqr : q * rh = sh := div_mul_cancel₀ sh hrh0.ne'
  have htr : t * R = s := div_mul_cancel₀ s hR.ne'
  have hDr : D * R = |sh - s| := div_mul_cancel₀ _ hR.ne'
  have ht0 : 0 ≤ t := div_nonneg hs hR.le
  have hD0 : 0 ≤ D := div_nonneg (abs_nonneg _) hR.le
  -- (q − t)·rh = (ŝ − s) − t·(rh − R)
  have e1 : (q - t) * rh = (sh - s) - t * (rh - R) := by
    have : (q - t) * rh = q * rh - t * R - t * (rh - R) := by ring
    rw [this, hqr, htr]
  have b1 : |q - t| * rh ≤ (D + u * t) * R := by
    have : |q - t| * rh = |(q - t) * rh| := by rw [abs_mul, abs_of_pos hrh0]
    rw [this, e1]
    have a1 := abs_sub (sh - s) (t * (rh - R))
    have a2 : |t * (rh - R)| ≤ t * (u * R) := by
      rw [abs_mul, abs_of_nonneg ht0]
      exact mul_le_mul_of_nonneg_left hr ht0
    have e : (D + u * t) * R = D * R + t * (u * R) := by ring
    rw [e, hDr]
    linarith
  have b2 : |q - t| * ((1 - u) * R) ≤ |q - t| * rh :=
    mul_le_mul_of_nonneg_left (by linarith) (abs_nonneg _)
  have b3 : |q - t| * (1 - u) ≤ D + u * t := by
    have : |q - t| * (1 - u) * R ≤ (D + u * t) * R := by
      have e : |q - t| * (1 - u) * R = |q - t| * ((1 - u) * R) := by ring
      rw [e]; linarith
    exact le_of_mul_le_mul_right this hR
  have b4 : |q - t| ≤ (1 + 2 * u) * (D + u * t) := by
    have k : 0 ≤ u * (1 - 2 * u) := mul_nonneg hu (by linarith)
    have k2 : 0 ≤ |q - t| * (u * (1 - 2 * u)) := mul_nonneg (abs_nonneg _) k
    have k3 : (1 + 2 * u) * (|q - t| * (1 - u)) ≤ (1 + 2 * u) * (D + u * t) :=
      mul_le_mul_of_nonneg_left b3 (by linarith)
    have e : (1 + 2 * u) * (|q - t| * (1 - u)) = |q - t| + |q - t| * (u * (1 - 2 * u)) := by ring
    rw [e] at k3
    linarith
  have hc := fl_close hfl hu b4
  rw [abs_of_nonneg ht0] at hc
  -- coefficients
  have c1 : (1 + u) * (1 + 2 * u) ≤ 1 + 4 * u := by nlinarith
  have c2 : (1 + u) * (1 + 2 * u) * u + u ≤ 3 * u := by nlinarith
  have m1 := mul_le_mul_of_nonneg_right c1 hD0
  have m2 := mul_le_mul_of_nonneg_right c2 ht0
  have e : (1 + 2 * u) * (D + u * t) + u * (t + (1 + 2 * u) * (D + u * t)) =
      (1 + u) * (1 + 2 * u) * D + ((1 + u) * (1 + 2 * u) * u + u) * t := by ring
  rw [e] at hc
  linarith

/-- one bound `fl (m̂ ∓ fl (c·sêm))` against `m ∓ c·t` -/
theorem bound_chain (hfl : ∀ x, |fl x - x| ≤ u * |x|) (hu : 0 ≤ u) (hu' : u ≤ 1 / 2048)
    {mh m semh t c X G : ℝ} (hc : 0 ≤ c) (ht : 0 ≤ t) (hG : 0 ≤ G) (hX : |m| ≤ X)
    (hm : |mh - m| ≤ 13 * u * X) (hsem : |semh - t| ≤ (1 + 4 * u) * G + 3 * u * t) :
    |fl (mh - fl (c * semh)) - (m - c * t)| ≤
        15 * u * X + (1 + 8 * u) * (c * G) + 7 * u * (c * t) ∧
    |fl (mh + fl (c * semh)) - (m + c * t)| ≤
        15 * u * X + (1 + 8 * u) * (c * G) + 7 * u * (c * t) := by
  have hX0 : 0 ≤ X := le_trans (abs_nonneg _) hX
  set P := c * G with hP
  set H := c * t with hH
  have hP0 : 0 ≤ P := mul_nonneg hc hG
  have hH0 : 0 ≤ H := mul_nonneg hc ht
  have h1 : |c * semh - H| ≤ (1 + 4 * u) * P + 3 * u * H := by
    have : c * semh - H = c * (semh - t) := by rw [hH]; ring
    rw [this, abs_mul, abs_of_nonneg hc]
    have := mul_le_mul_of_nonneg_left hsem hc
    have e : c * ((1 + 4 * u) * G + 3 * u * t) = (1 + 4 * u) * P + 3 * u * H := by
      rw [hP, hH]; ring
    rw [e] at this
    exact this
  have h2 := fl_close hfl hu h1
  rw [abs_of_nonneg hH0] at h2
  have k1 : (1 + u) * (1 + 4 * u) ≤ 1 + 6 * u := by nlinarith
  have k2 : (1 + u) * (3 * u) + u ≤ 5 * u := by nlinarith
  have m1 := mul_le_mul_of_nonneg_right k1 hP0
  have m2 := mul_le_mul_of_nonneg_right k2 hH0
  have e3 : |fl (c * semh) - H| ≤ (1 + 6 * u) * P + 5 * u * H := by
    have e : (1 + 4 * u) * P + 3 * u * H + u * (H + ((1 + 4 * u) * P + 3 * u * H)) =
        (1 + u) * (1 + 4 * u) * P + ((1 + u) * (3 * u) + u) * H := by ring
    rw [e] at h2
    linarith
  set hh := fl (c * semh) with hhh
  -- coefficients of the last step
  have k3 : (1 + u) * (13 * u) + u ≤ 15 * u := by nlinarith
  have k4 : (1 + u) * (1 + 6 * u) ≤ 1 + 8 * u := by nlinarith
  have k5 : (1 + u) * (5 * u) + u ≤ 7 * u := by nlinarith
  have m3 := mul_le_mul_of_nonneg_right k3 hX0
  have m4 := mul_le_mul_of_nonneg_right k4 hP0
  have m5 := mul_le_mul_of_nonneg_right k5 hH0
  have last : ∀ a b : ℝ, |b| ≤ X + H → |a - b| ≤ 13 * u * X + ((1 + 6 * u) * P + 5 * u * H) →
      |fl a - b| ≤ 15 * u * X + (1 + 8 * u) * P + 7 * u * H := by
    intro a b hb hab
    have h3 := fl_close hfl hu hab
    have h4 : u * |b| ≤ u * (X + H) := mul_le_mul_of_nonneg_left hb hu
    have e : 13 * u * X + ((1 + 6 * u) * P + 5 * u * H) +
        u * (|b| + (13 * u * X + ((1 + 6 * u) * P + 5 * u * H))) =
        u * |b| + (1 + u) * (13 * u) * X + (1 + u) * (1 + 6 * u) * P + (1 + u) * (5 * u) * H := by
      ring
    rw [e] at h3
    have e2 : u * (X + H) = u * X + u * H := by ring
    rw [e2] at h4
    have e4 : ((1 + u) * (13 * u) + u) * X = (1 + u) * (13 * u) * X + u * X := by ring
    have e5 : ((1 + u) * (5 * u) + u) * H = (1 + u) * (5 * u) * H + u * H := by ring
    rw [e4] at m3; rw [e5] at m5
    linarith
  constructor
  · apply last
    · have := abs_sub m H
      rw [abs_of_nonneg hH0] at this
      linarith
    · have e : mh - hh - (m - H) = (mh - m) - (hh - H) := by ring
      rw [e]
      have := abs_sub (mh - m) (hh - H)
      linarith
  · apply last
    · have := abs_add_le m H
      rw [abs_of_nonneg hH0] at this
      linarith
    · have e : mh + hh - (m + H) = (mh - m) + (hh - H) := by ring
      rw [e]
      have := abs_add_le (mh - m) (hh - H)
      linarith

/-! ## `ci_mean` at `RR fl` with a constant critical value -/

/-- the lower bound `ci_mean` computes at `RR fl` -/
noncomputable def loFl (a : Arith (RR fl)) (c : ℝ) : ℝ :=
  fl (a.mean.val - fl (c * fl (a.stdDev.val / fl (Real.sqrt a.count))))

/-- the upper bound `ci_mean` computes at `RR fl` -/
noncomputable def hiFl (a : Arith (RR fl)) (c : ℝ) : ℝ :=
  fl (a.mean.val + fl (c * fl (a.stdDev.val / fl (Real.sqrt a.count))))

/-- `ci_mean` at `RR fl` (natural numbers up to the count exactly representable): the guards
    pass and the bounds are `fl (m̂ ∓ fl (c·fl (ŝ / fl √n)))` -/
theorem ciMean_fl (a : Arith (RR fl)) (c : ℝ) (conf : Confidence (RR fl)) (hn : 2 ≤ a.count)
    (hnat : ∀ m : ℕ, m ≤ a.count → fl m = m) (hp : probOk conf.quantile = true) :
    a.ciMean (constCrit c) conf =
      intervalOfKind conf (⟨loFl a c⟩ : RR fl) ⟨hiFl a c⟩ := by
  have hn' : ¬ a.count < 2 := by omega
  have hcast : (a.count : ℝ) - 1 = ((a.count - 1 : ℕ) : ℝ) := by
    rw [Nat.cast_sub (by omega)]; simp
  have hd : gt (sub (Scalar.ofNat a.count : RR fl) one) (zero : RR fl) = true := by
    have h2 : (2 : ℝ) ≤ a.count := by exact_mod_cast hn
    simp only [RR.gt_iff, RR.zero_val, RR.sub_val, RR.ofNat_val, RR.one_val]
    rw [hnat _ le_rfl, hcast, hnat _ (Nat.sub_le _ _), ← hcast]
    linarith
  unfold Arith.ciMean Arith.ciPrep
  simp only [hn', if_false, RR.isFinite_eq, Bool.not_true, Bool.or_self, Bool.false_eq_true,
    Outcome.bind_ok, RR.up_eq, RR.down_eq]
  rw [intervalBounds_eq (constCrit c) conf _ _ _ hd hp, Outcome.bind_ok]
  have e1 : (sub a.mean (mul (constCrit c (critReq conf (sub (Scalar.ofNat a.count) one)))
      (div a.stdDev (sqrt (Scalar.ofNat a.count)))) : RR fl) = ⟨loFl a c⟩ := by
    apply RR.ext'
    simp only [RR.sub_val, RR.mul_val, RR.div_val, RR.sqrt_val, RR.ofNat_val, constCrit, loFl]
    rw [hnat _ le_rfl]
  have e2 : (add a.mean (mul (constCrit c (critReq conf (sub (Scalar.ofNat a.count) one)))
      (div a.stdDev (sqrt (Scalar.ofNat a.count)))) : RR fl) = ⟨hiFl a c⟩ := by
    apply RR.ext'
    simp only [RR.add_val, RR.mul_val, RR.div_val, RR.sqrt_val, RR.ofNat_val, constCrit, hiFl]
    rw [hnat _ le_rfl]
  dsimp only
  rw [e1, e2]

/-- the two bounds against `x̄ ∓ c·s/√n`, with the error of the standard deviation explicit -/
theorem bounds_bound (hfl : ∀ x, |fl x - x| ≤ u * |x|) (hu : 0 ≤ u) (xs : List ℝ)
    (hn : 2 ≤ xs.length) (hs : (xs.length : ℝ) * u ≤ 1 / 1024)
    (hnat : ∀ m : ℕ, m ≤ xs.length → fl m = m) (c : ℝ) (hc : 0 ≤ c) :
    let a : Arith (RR fl) := Arith.fromList (xs.map inj)
    let B := 15 * u * (sumAbs xs / xs.length)
      + (1 + 8 * u) * (c * (|a.stdDev.val - ssd xs| / Real.sqrt xs.length))
      + 7 * u * (c * (ssd xs / Real.sqrt xs.length))
    |loFl a c - (smean xs - c * (ssd xs / Real.sqrt xs.length))| ≤ B ∧
    |hiFl a c - (smean xs + c * (ssd xs / Real.sqrt xs.length))| ≤ B := by
  intro a B
  have hN : (2 : ℝ) ≤ xs.length := by exact_mod_cast hn
  have hN0 : (0 : ℝ) < xs.length := by linarith
  have hu' := u_small hu hN hs
  have hR : 0 < Real.sqrt xs.length := Real.sqrt_pos.mpr hN0
  have hs0 : 0 ≤ ssd xs := Real.sqrt_nonneg _
  have hm := mean_bound hfl hu xs hn hs hnat
  have hX : |smean xs| ≤ sumAbs xs / (xs.length : ℝ) := by
    unfold smean
    rw [abs_div, abs_of_pos hN0]
    exact div_le_div_of_nonneg_right (abs_sum_le_sumAbs xs) hN0.le
  have hsem := sem_chain hfl hu hu' (sh := a.stdDev.val) hR hs0
  have hcount : a.count = xs.length := fromList_count' xs
  have := bound_chain hfl hu hu' hc (div_nonneg hs0 hR.le)
    (div_nonneg (abs_nonneg (a.stdDev.val - ssd xs)) hR.le) hX hm hsem
  simp only [loFl, hiFl, hcount]
  exact this

/-- the same with any bound `Δ` on the error of the standard deviation -/
theorem bounds_bound_of_le (hfl : ∀ x, |fl x - x| ≤ u * |x|) (hu : 0 ≤ u) (xs : List ℝ)
    (hn : 2 ≤ xs.length) (hs : (xs.length : ℝ) * u ≤ 1 / 1024)
    (hnat : ∀ m : ℕ, m ≤ xs.length → fl m = m) (c : ℝ) (hc : 0 ≤ c) {Δ : ℝ}
    (hΔ : |(Arith.fromList (xs.map inj) : Arith (RR fl)).stdDev.val - ssd xs| ≤ Δ) :
    let a : Arith (RR fl) := Arith.fromList (xs.map inj)
    let B := 15 * u * (sumAbs xs / xs.length)
      + (1 + 8 * u) * (c * (Δ / Real.sqrt xs.length))
      + 7 * u * (c * (ssd xs / Real.sqrt xs.length))
    |loFl a c - (smean xs - c * (ssd xs / Real.sqrt xs.length))| ≤ B ∧
    |hiFl a c - (smean xs + c * (ssd xs / Real.sqrt xs.length))| ≤ B := by
  intro a B
  have hN : (2 : ℝ) ≤ xs.length := by exact_mod_cast hn
  have hR : 0 < Real.sqrt xs.length := Real.sqrt_pos.mpr (by linarith)
  obtain ⟨h1, h2⟩ := bounds_bound hfl hu xs hn hs hnat c hc
  have m1 : c * (|a.stdDev.val - ssd xs| / Real.sqrt xs.length) ≤
      c * (Δ / Real.sqrt xs.length) :=
    mul_le_mul_of_nonneg_left (div_le_div_of_nonneg_right hΔ hR.le) hc
  have m2 := mul_le_mul_of_nonneg_left m1 (by linarith : (0 : ℝ) ≤ 1 + 8 * u)
  constructor
  · refine le_trans h1 ?_
    show _ ≤ B
    simp only [B]
    linarith
  · refine le_trans h2 ?_
    show _ ≤ B
    simp only [B]
    linarith

/-- `κ`-form of the bound: with `κ = Y/s²`, `hw = c·s/R` the quantity
    `15uX + (1+8u)·c·(46uY/s)/R + 7u·hw` is at most `47u·(X + hw·(1 + κ))` -/
theorem kappa_form (hu : 0 ≤ u) (hu' : u ≤ 1 / 2048) {X Y s R c : ℝ} (hX : 0 ≤ X) (hY : 0 ≤ Y)
    (hs : 0 < s) (hR : 0 < R) (hc : 0 ≤ c) :
    15 * u * X + (1 + 8 * u) * (c * (46 * u * Y / s / R)) + 7 * u * (c * (s / R)) ≤
      47 * u * (X + c * (s / R) * (1 + Y / (s * s))) := by
  have e : c * (46 * u * Y / s / R) = 46 * (u * (c * (s / R) * (Y / (s * s)))) := by
    field_simp
  rw [e]
  set hw := c * (s / R) with hhw
  set κ := Y / (s * s) with hκ
  have hhw0 : 0 ≤ hw := mul_nonneg hc (div_nonneg hs.le hR.le)
  have hκ0 : 0 ≤ κ := div_nonneg hY (mul_nonneg hs.le hs.le)
  have hP : 0 ≤ u * (hw * κ) := mul_nonneg hu (mul_nonneg hhw0 hκ0)
  have f1 : u * (u * (hw * κ)) ≤ 1 / 2048 * (u * (hw * κ)) := mul_le_mul_of_nonneg_right hu' hP
  have hX' : 0 ≤ u * X := mul_nonneg hu hX
  have hH' : 0 ≤ u * hw := mul_nonneg hu hhw0
  have e1 : (1 + 8 * u) * (46 * (u * (hw * κ))) = 46 * (u * (hw * κ)) + 368 * (u * (u * (hw * κ))) := by
    ring
  have e2 : 47 * u * (X + hw * (1 + κ)) = 47 * (u * X) + 47 * (u * hw) + 47 * (u * (hw * κ)) := by
    ring
  have e3 : 15 * u * X = 15 * (u * X) := by ring
  have e4 : 7 * u * hw = 7 * (u * hw) := by ring
  rw [e1, e2, e3, e4]
  linarith

end StatsCI.MeanRound
