/-
  StatsCI.Lemmas.UnpairedRound — helper lemmas for C04R: forward rounding-error bounds for the
  two comparison producers `Paired` and `Unpaired` at the carrier `RR fl`.

  * paired: the state built at `RR fl` is the `Arith` state of the rounded differences; exact
    statistics of rounded against exact differences (Cauchy–Schwarz on lists, the sample
    standard deviation is a seminorm);
  * unpaired: what `Unpaired.ciPrep` computes at `RR fl`, the chains mean difference,
    `s²/n`, sum, standard error, interval bounds for a constant critical value;
  * the effective degrees of freedom: multiplicative closeness `Near`, the chain of
    `Unpaired.effectiveDof`, positivity and the explicit error bound.
-/
import StatsCI.Lemmas.MeanRound
import StatsCI.Lemmas.MeanUnpaired
import Mathlib.Algebra.QuadraticDiscriminant
import Mathlib.Analysis.Complex.Exponential

set_option linter.unusedSectionVars false
set_option linter.unusedVariables false

namespace StatsCI.UnpairedRound
open StatsCI KahanLemmas MeanLemmas MeanRound NumOps Scalar

variable {fl : ℝ → ℝ} {u : ℝ}

/-! ## paired: the state at `RR fl` -/

/-- the exact differences `aᵢ − bᵢ` (up to the shorter list) -/
def diffs (as bs : List ℝ) : List ℝ := List.zipWith (fun a b => a - b) as bs

/-- the rounded differences `fl (aᵢ − bᵢ)`: what `append_pair` feeds to the statistics -/
def flDiffs (fl : ℝ → ℝ) (as bs : List ℝ) : List ℝ := (diffs as bs).map fl

theorem diffs_length (as bs : List ℝ) (h : as.length = bs.length) :
    (diffs as bs).length = as.length := by
  simp [diffs, h]

theorem flDiffs_length (as bs : List ℝ) (h : as.length = bs.length) :
    (flDiffs fl as bs).length = as.length := by
  simp [flDiffs, diffs_length as bs h]

/-- the differences formed by the model at `RR fl` are the injections of the rounded differences -/
theorem zipWith_sub_inj (as bs : List ℝ) :
    List.zipWith NumOps.sub (as.map inj) (bs.map (inj : ℝ → RR fl)) =
      (flDiffs fl as bs).map inj := by
  induction as generalizing bs with
  | nil => simp [flDiffs, diffs]
  | cons a as ih =>
    cases bs with
    | nil => simp [flDiffs, diffs]
    | cons b bs =>
      have := ih bs
      simp only [flDiffs, diffs, List.map_cons, List.zipWith_cons_cons, List.map_map] at this ⊢
      rw [this]
      congr 1

/-- `Paired::extend` on two equally long real samples at `RR fl`: succeeds with the `Arith`
    state of the rounded differences -/
theorem paired_extend_fl (as bs : List ℝ) (h : as.length = bs.length) :
    (Paired.extend (Paired.empty : Paired (RR fl)) (as.map inj) (bs.map inj) :
        Outcome (Err (RR fl)) (Paired (RR fl)) × Paired (RR fl)) =
      (.ok ⟨Arith.fromList ((flDiffs fl as bs).map inj)⟩,
        ⟨Arith.fromList ((flDiffs fl as bs).map inj)⟩) := by
  unfold Paired.extend
  rw [Paired.extendAux_eq_len _ _ _ _ (by simpa using h), zipWith_sub_inj]
  rfl

/-- `Paired::ci` at `RR fl` is `Arithmetic::ci` of the rounded differences -/
theorem paired_ci_fl (crit : Crit (RR fl)) (conf : Confidence (RR fl)) (as bs : List ℝ)
    (h : as.length = bs.length) :
    Paired.ci crit conf (as.map (inj : ℝ → RR fl)) (bs.map inj) =
      Arith.ci crit conf ((flDiffs fl as bs).map (inj : ℝ → RR fl)) := by
  unfold Paired.ci
  rw [paired_extend_fl as bs h]
  rfl

/-! ## sums over lists: Cauchy–Schwarz, the standard deviation as a seminorm -/

section lists
variable {α : Type}

theorem sum_map_const_mul (l : List α) (c : ℝ) (f : α → ℝ) :
    (l.map (fun a => c * f a)).sum = c * (l.map f).sum := by
  induction l with
  | nil => simp
  | cons a l ih => simp only [List.map_cons, List.sum_cons, ih]; ring

theorem sum_map_add' (l : List α) (f g : α → ℝ) :
    (l.map (fun a => f a + g a)).sum = (l.map f).sum + (l.map g).sum := by
  induction l with
  | nil => simp
  | cons a l ih => simp only [List.map_cons, List.sum_cons, ih]; ring

theorem sum_add_sq (l : List α) (p q : α → ℝ) :
    (l.map (fun a => (p a + q a) ^ 2)).sum =
      (l.map (fun a => p a ^ 2)).sum + 2 * (l.map (fun a => p a * q a)).sum
        + (l.map (fun a => q a ^ 2)).sum := by
  induction l with
  | nil => simp
  | cons a l ih => simp only [List.map_cons, List.sum_cons, ih]; ring

theorem sum_sq_nonneg (l : List α) (p : α → ℝ) : 0 ≤ (l.map (fun a => p a ^ 2)).sum := by
  apply List.sum_nonneg
  intro y hy
  simp only [List.mem_map] at hy
  obtain ⟨x, _, rfl⟩ := hy
  positivity

/-- Cauchy–Schwarz for two real families indexed by a list -/
theorem cauchy_list (l : List α) (p q : α → ℝ) :
    (l.map (fun a => p a * q a)).sum ^ 2 ≤
      (l.map (fun a => p a ^ 2)).sum * (l.map (fun a => q a ^ 2)).sum := by
  have key : ∀ t : ℝ, 0 ≤ (l.map (fun a => p a ^ 2)).sum * (t * t)
      + 2 * (l.map (fun a => p a * q a)).sum * t + (l.map (fun a => q a ^ 2)).sum := by
    intro t
    have h := sum_add_sq l (fun a => t * p a) q
    have h0 := sum_sq_nonneg l (fun a => t * p a + q a)
    have e1 : (l.map (fun a => (t * p a) ^ 2)).sum = t * t * (l.map (fun a => p a ^ 2)).sum := by
      rw [← sum_map_const_mul]
      congr 1
      apply List.map_congr_left
      intro a _
      ring
    have e2 : (l.map (fun a => t * p a * q a)).sum = t * (l.map (fun a => p a * q a)).sum := by
      rw [← sum_map_const_mul]
      congr 1
      apply List.map_congr_left
      intro a _
      ring
    rw [e1, e2] at h
    rw [h] at h0
    linarith
  have := discrim_le_zero key
  unfold discrim at this
  nlinarith

end lists

/-- `|√Q − √P| ≤ √E` when `Q = P + 2C + E` with `C² ≤ P·E` -/
theorem abs_sqrt_sub_le_of_cs {P Q E C : ℝ} (hP : 0 ≤ P) (hE : 0 ≤ E) (hQ0 : 0 ≤ Q)
    (hQ : Q = P + 2 * C + E) (hC : C ^ 2 ≤ P * E) :
    |Real.sqrt Q - Real.sqrt P| ≤ Real.sqrt E := by
  have tri : ∀ {P Q E C : ℝ}, 0 ≤ P → 0 ≤ E → Q = P + 2 * C + E → C ^ 2 ≤ P * E →
      Real.sqrt Q ≤ Real.sqrt P + Real.sqrt E := by
    intro P Q E C hP hE hQ hC
    have hs := add_nonneg (Real.sqrt_nonneg P) (Real.sqrt_nonneg E)
    rw [Real.sqrt_le_left hs]
    have s1 := Real.sq_sqrt hP
    have s2 := Real.sq_sqrt hE
    have hCle : C ≤ Real.sqrt P * Real.sqrt E := by
      have h1 : C ≤ |C| := le_abs_self C
      have h2 : |C| ≤ Real.sqrt (P * E) := Real.abs_le_sqrt hC
      rw [Real.sqrt_mul hP] at h2
      linarith
    have e : (Real.sqrt P + Real.sqrt E) ^ 2 =
        Real.sqrt P ^ 2 + 2 * (Real.sqrt P * Real.sqrt E) + Real.sqrt E ^ 2 := by ring
    rw [e, s1, s2, hQ]
    linarith
  have h1 := tri hP hE hQ hC
  have hC' : (-C - E) ^ 2 ≤ Q * E := by
    have e : (-C - E) ^ 2 = C ^ 2 + E * (2 * C + E) := by ring
    rw [e, hQ]
    have : Q * E = P * E + E * (2 * C + E) := by rw [hQ]; ring
    nlinarith
  have h2 := tri (P := Q) (Q := P) (E := E) (C := -C - E) hQ0 hE (by rw [hQ]; ring) hC'
  rw [abs_le]
  constructor <;> linarith

/-- sum of squared deviations of a mapped list -/
theorem sdev2_map {α : Type} (l : List α) (h : α → ℝ) :
    sdev2 (l.map h) = (l.map (fun a => (h a - smean (l.map h)) ^ 2)).sum := by
  unfold sdev2
  rw [List.map_map]
  rfl

theorem smean_map_add {α : Type} (l : List α) (f g : α → ℝ) :
    smean (l.map (fun a => f a + g a)) = smean (l.map f) + smean (l.map g) := by
  unfold smean
  simp only [List.length_map, sum_map_add', add_div]

/-- `Σ(x − x̄)² ≤ Σx²` -/
theorem sdev2_le_sumSq (xs : List ℝ) (hn : 1 ≤ xs.length) : sdev2 xs ≤ sumSq xs := by
  have h := sdev2_eq xs hn
  have hN : (0 : ℝ) < xs.length := by exact_mod_cast hn
  have : 0 ≤ smean xs * xs.sum := by
    unfold smean
    rw [div_mul_eq_mul_div]
    exact div_nonneg (mul_self_nonneg _) hN.le
  unfold sumSq
  linarith

/-- the sample standard deviation is a seminorm: `|s(f + g) − s(f)| ≤ √(Σg²/(n − 1))` -/
theorem ssd_perturb {α : Type} (l : List α) (f g : α → ℝ) (hn : 2 ≤ l.length) :
    |ssd (l.map (fun a => f a + g a)) - ssd (l.map f)| ≤
      Real.sqrt (sumSq (l.map g) / ((l.length : ℝ) - 1)) := by
  have hN : (2 : ℝ) ≤ l.length := by exact_mod_cast hn
  have hM : (0 : ℝ) < (l.length : ℝ) - 1 := by linarith
  set mf := smean (l.map f) with hmf
  set mg := smean (l.map g) with hmg
  have eF : sdev2 (l.map f) = (l.map (fun a => (f a - mf) ^ 2)).sum := sdev2_map l f
  have eG : sdev2 (l.map g) = (l.map (fun a => (g a - mg) ^ 2)).sum := sdev2_map l g
  have eFG : sdev2 (l.map (fun a => f a + g a)) =
      (l.map (fun a => ((f a - mf) + (g a - mg)) ^ 2)).sum := by
    rw [sdev2_map, smean_map_add]
    congr 1
    apply List.map_congr_left
    intro a _
    ring
  rw [sum_add_sq] at eFG
  have hcs := cauchy_list l (fun a => f a - mf) (fun a => g a - mg)
  rw [← eF, ← eG] at hcs eFG
  set C := (l.map (fun a => (f a - mf) * (g a - mg))).sum with hC
  have hP := sdev2_nonneg (l.map f)
  have hE := sdev2_nonneg (l.map g)
  have hQ := sdev2_nonneg (l.map (fun a => f a + g a))
  have hlen : ∀ h : α → ℝ, ((l.map h).length : ℝ) = l.length := by intro h; simp
  have main := abs_sqrt_sub_le_of_cs (P := sdev2 (l.map f) / ((l.length : ℝ) - 1))
    (Q := sdev2 (l.map (fun a => f a + g a)) / ((l.length : ℝ) - 1))
    (E := sdev2 (l.map g) / ((l.length : ℝ) - 1)) (C := C / ((l.length : ℝ) - 1))
    (div_nonneg hP hM.le) (div_nonneg hE hM.le) (div_nonneg hQ hM.le)
    (by rw [eFG]; ring)
    (by
      rw [div_pow, div_mul_div_comm, sq ((l.length : ℝ) - 1)]
      exact div_le_div_of_nonneg_right hcs (mul_nonneg hM.le hM.le))
  unfold ssd svar
  rw [hlen, hlen]
  refine le_trans main (Real.sqrt_le_sqrt ?_)
  exact div_le_div_of_nonneg_right (sdev2_le_sumSq _ (by simp; omega)) hM.le

/-! ## paired: rounded against exact differences -/

theorem sum_map_fl_sub (hfl : ∀ x, |fl x - x| ≤ u * |x|) (ds : List ℝ) :
    |(ds.map fl).sum - ds.sum| ≤ u * sumAbs ds := by
  induction ds with
  | nil => simp
  | cons d ds ih =>
    have e : ((d :: ds).map fl).sum - (d :: ds).sum = (fl d - d) + ((ds.map fl).sum - ds.sum) := by
      simp only [List.map_cons, List.sum_cons]; ring
    have e2 : sumAbs (d :: ds) = |d| + sumAbs ds := by simp
    rw [e, e2]
    have := abs_add_le (fl d - d) ((ds.map fl).sum - ds.sum)
    have := hfl d
    linarith

theorem sumSq_map_fl_sub (hfl : ∀ x, |fl x - x| ≤ u * |x|) (hu : 0 ≤ u) (ds : List ℝ) :
    sumSq (ds.map (fun x => fl x - x)) ≤ u ^ 2 * sumSq ds := by
  induction ds with
  | nil => simp [sumSq]
  | cons d ds ih =>
    have e1 : sumSq ((d :: ds).map (fun x => fl x - x)) =
        (fl d - d) * (fl d - d) + sumSq (ds.map (fun x => fl x - x)) := by simp [sumSq]
    have e2 : sumSq (d :: ds) = d * d + sumSq ds := by simp [sumSq]
    rw [e1, e2]
    have h := hfl d
    have h2 : (fl d - d) * (fl d - d) ≤ (u * |d|) * (u * |d|) := by
      rw [← abs_mul_abs_self (fl d - d)]
      exact mul_le_mul h h (abs_nonneg _) (mul_nonneg hu (abs_nonneg _))
    have e3 : (u * |d|) * (u * |d|) = u ^ 2 * (d * d) := by
      rw [← abs_mul_abs_self d]; ring
    rw [e3] at h2
    linarith

theorem sumAbs_map_fl_le (hfl : ∀ x, |fl x - x| ≤ u * |x|) (ds : List ℝ) :
    sumAbs (ds.map fl) ≤ (1 + u) * sumAbs ds := by
  induction ds with
  | nil => simp
  | cons d ds ih =>
    have e1 : sumAbs ((d :: ds).map fl) = |fl d| + sumAbs (ds.map fl) := by simp
    have e2 : sumAbs (d :: ds) = |d| + sumAbs ds := by simp
    rw [e1, e2]
    have := abs_fl_le hfl d
    linarith

theorem sumSq_map_fl_le (hfl : ∀ x, |fl x - x| ≤ u * |x|) (hu : 0 ≤ u) (ds : List ℝ) :
    sumSq (ds.map fl) ≤ (1 + u) ^ 2 * sumSq ds := by
  induction ds with
  | nil => simp [sumSq]
  | cons d ds ih =>
    have e1 : sumSq ((d :: ds).map fl) = fl d * fl d + sumSq (ds.map fl) := by simp [sumSq]
    have e2 : sumSq (d :: ds) = d * d + sumSq ds := by simp [sumSq]
    rw [e1, e2]
    have h := abs_fl_le hfl d
    have h2 : fl d * fl d ≤ ((1 + u) * |d|) * ((1 + u) * |d|) := by
      rw [← abs_mul_abs_self (fl d)]
      exact mul_le_mul h h (abs_nonneg _) (mul_nonneg (by linarith) (abs_nonneg _))
    have e3 : ((1 + u) * |d|) * ((1 + u) * |d|) = (1 + u) ^ 2 * (d * d) := by
      rw [← abs_mul_abs_self d]; ring
    rw [e3] at h2
    linarith

/-- mean of the rounded values against the mean of the exact ones: `u·Σ|d|/n` -/
theorem smean_map_fl (hfl : ∀ x, |fl x - x| ≤ u * |x|) (ds : List ℝ) (hn : 1 ≤ ds.length) :
    |smean (ds.map fl) - smean ds| ≤ u * (sumAbs ds / ds.length) := by
  have hN : (0 : ℝ) < ds.length := by exact_mod_cast hn
  unfold smean
  rw [List.length_map, ← sub_div, abs_div, abs_of_pos hN, ← mul_div_assoc]
  exact div_le_div_of_nonneg_right (sum_map_fl_sub hfl ds) hN.le

/-- standard deviation of the rounded values against that of the exact ones:
    `u·√(Σd²/(n − 1))` -/
theorem ssd_map_fl (hfl : ∀ x, |fl x - x| ≤ u * |x|) (hu : 0 ≤ u) (ds : List ℝ)
    (hn : 2 ≤ ds.length) :
    |ssd (ds.map fl) - ssd ds| ≤ u * Real.sqrt (sumSq ds / ((ds.length : ℝ) - 1)) := by
  have hN : (2 : ℝ) ≤ ds.length := by exact_mod_cast hn
  have hM : (0 : ℝ) < (ds.length : ℝ) - 1 := by linarith
  have h := ssd_perturb ds (fun x => x) (fun x => fl x - x) hn
  have e1 : ds.map (fun x => x + (fl x - x)) = ds.map fl := by
    apply List.map_congr_left
    intro a _
    ring
  rw [e1, List.map_id'] at h
  refine le_trans h ?_
  have e2 : u * Real.sqrt (sumSq ds / ((ds.length : ℝ) - 1)) =
      Real.sqrt (u ^ 2 * (sumSq ds / ((ds.length : ℝ) - 1))) := by
    rw [Real.sqrt_mul (sq_nonneg u), Real.sqrt_sq hu]
  rw [e2]
  apply Real.sqrt_le_sqrt
  rw [← mul_div_assoc]
  exact div_le_div_of_nonneg_right (sumSq_map_fl_sub hfl hu ds) hM.le

/-! ## unpaired: what `ciPrep` computes at `RR fl` -/

/-- the computed `s²/n` of one state: `fl (fl (ŝ·ŝ) / fl n)` with `ŝ` the computed standard
    deviation (the crate squares the rounded square root) -/
noncomputable def s2nFl (a : Arith (RR fl)) : ℝ :=
  (div (mul a.stdDev a.stdDev) (Scalar.ofNat a.count : RR fl)).val

theorem s2nFl_eq (a : Arith (RR fl)) :
    s2nFl a = fl (fl (a.stdDev.val * a.stdDev.val) / fl a.count) := rfl

/-- the computed mean difference `fl (m̂a − m̂b)` -/
noncomputable def diffFl (U : Unpaired (RR fl)) : ℝ := fl (U.a.mean.val - U.b.mean.val)

/-- the computed `sa²/na + sb²/nb` -/
noncomputable def sumS2nFl (U : Unpaired (RR fl)) : ℝ := fl (s2nFl U.a + s2nFl U.b)

/-- the computed standard error -/
noncomputable def seFl (U : Unpaired (RR fl)) : ℝ := fl (Real.sqrt (sumS2nFl U))

/-- the computed effective degrees of freedom: the model's `effectiveDof` on the computed terms -/
noncomputable def dofFl (U : Unpaired (RR fl)) : ℝ :=
  (Unpaired.effectiveDof (⟨s2nFl U.a⟩ : RR fl) ⟨s2nFl U.b⟩ (Scalar.ofNat U.a.count)
    (Scalar.ofNat U.b.count)).val

/-- the degrees of freedom handed on: the computed value `dofFl`, not below the computed bound
    `fl (min (fl na) (fl nb) − 1)` (the crate's lower clamp) -/
noncomputable def dofClFl (U : Unpaired (RR fl)) : ℝ :=
  (Unpaired.clampDof (⟨dofFl U⟩ : RR fl) (Scalar.ofNat U.a.count) (Scalar.ofNat U.b.count)).val

theorem dofClFl_eq (U : Unpaired (RR fl)) :
    dofClFl U = max (dofFl U) (fl (min (fl U.a.count) (fl U.b.count) - 1)) := by
  unfold dofClFl
  rw [Unpaired.clampDof_val]
  simp only [RR.ofNat_val]

/-- the clamp is inactive as soon as the computed value reaches the computed bound -/
theorem dofClFl_of_le (U : Unpaired (RR fl))
    (h : fl (min (fl U.a.count) (fl U.b.count) - 1) ≤ dofFl U) : dofClFl U = dofFl U := by
  rw [dofClFl_eq]; exact max_eq_left h

theorem dofFl_le_dofClFl (U : Unpaired (RR fl)) : dofFl U ≤ dofClFl U := by
  rw [dofClFl_eq]; exact le_max_left _ _

/-- `Unpaired.ciPrep` at `RR fl`: both guards pass for counts `≥ 2` (no non-finite values at
    `RR fl`) and the three statistics are `diffFl`, `seFl`, `dofClFl` -/
theorem ciPrep_fl (U : Unpaired (RR fl)) (ha : 2 ≤ U.a.count) (hb : 2 ≤ U.b.count) :
    (Unpaired.ciPrep U : Outcome (Err (RR fl)) (Arith.Prep (RR fl))) =
      .ok ⟨⟨diffFl U⟩, ⟨seFl U⟩, ⟨dofClFl U⟩⟩ := by
  have ha' : ¬ U.a.count < 2 := by omega
  have hb' : ¬ U.b.count < 2 := by omega
  unfold Unpaired.ciPrep
  simp only [ha', hb', if_false, RR.isFinite_eq, Bool.not_true, Bool.or_self, Bool.false_eq_true,
    RR.up_eq]
  rfl

/-- `Unpaired.ciMean` at `RR fl` when the computed degrees of freedom are positive: the bounds
    are `fl (d̂ ∓ fl (c·sê))` with `c` the answer to the request at the computed dof -/
theorem ciMean_fl (crit : Crit (RR fl)) (U : Unpaired (RR fl)) (conf : Confidence (RR fl))
    (ha : 2 ≤ U.a.count) (hb : 2 ≤ U.b.count) (hd : 0 < dofClFl U)
    (hp : probOk conf.quantile = true) :
    U.ciMean crit conf =
      intervalOfKind conf
        (⟨fl (diffFl U - fl ((crit (critReq conf (⟨dofClFl U⟩ : RR fl))).val * seFl U))⟩ : RR fl)
        ⟨fl (diffFl U + fl ((crit (critReq conf (⟨dofClFl U⟩ : RR fl))).val * seFl U))⟩ := by
  have hd' : gt (⟨dofClFl U⟩ : RR fl) (zero : RR fl) = true := by simpa using hd
  unfold Unpaired.ciMean
  rw [ciPrep_fl U ha hb, Outcome.bind_ok]
  simp only []
  rw [intervalBounds_eq crit conf _ _ _ hd' hp, Outcome.bind_ok]
  rfl

/-- computed degrees of freedom below the population limit and not positive:
    `StudentsT::new(0, 1, dof).unwrap()` panics -/
theorem ciMean_fl_tpanic (crit : Crit (RR fl)) (U : Unpaired (RR fl)) (conf : Confidence (RR fl))
    (ha : 2 ≤ U.a.count) (hb : 2 ≤ U.b.count) (hd : dofClFl U ≤ 0)
    (hlim : dofClFl U < fl 100000) :
    U.ciMean crit conf = .panic "t_value" := by
  have h1 : lt (⟨dofClFl U⟩ : RR fl) (populationLimit : RR fl) = true := by
    simp only [populationLimit, RR.lt_iff, RR.ofNat_val]
    push_cast
    exact hlim
  have h2 : gt (⟨dofClFl U⟩ : RR fl) (zero : RR fl) = false := by
    rw [Bool.eq_false_iff, Ne, RR.gt_iff]
    simpa using hd
  unfold Unpaired.ciMean
  rw [ciPrep_fl U ha hb, Outcome.bind_ok]
  simp only [intervalBounds, h1, if_true, tValue, h2, Bool.false_eq_true, if_false,
    Outcome.bind_panic]

/-- the request made at `RR fl`: Student's t at the computed dof below the (rounded) population
    limit, the normal quantile from it on -/
theorem critReq_fl (conf : Confidence (RR fl)) (d : ℝ) :
    critReq conf (⟨d⟩ : RR fl) =
      if d < fl 100000 then .t ⟨d⟩ conf.quantile else .z conf.quantile := by
  unfold critReq
  by_cases h : d < fl 100000
  · have : lt (⟨d⟩ : RR fl) (populationLimit : RR fl) = true := by
      simp only [populationLimit, RR.lt_iff, RR.ofNat_val]
      push_cast
      exact h
    simp [this, h]
  · have : lt (⟨d⟩ : RR fl) (populationLimit : RR fl) = false := by
      rw [Bool.eq_false_iff, Ne, RR.lt_iff]
      simp only [populationLimit, RR.ofNat_val]
      push_cast
      exact h
    simp [this, h]

/-! ## unpaired: the chains -/

/-- rounding keeps the sign of a non-negative number -/
theorem fl_nonneg (hfl : ∀ x, |fl x - x| ≤ u * |x|) (hu1 : u ≤ 1) {x : ℝ} (hx : 0 ≤ x) :
    0 ≤ fl x := by
  have h := hfl x
  rw [abs_of_nonneg hx] at h
  have h1 := (abs_le.mp h).1
  have h2 : u * x ≤ 1 * x := mul_le_mul_of_nonneg_right hu1 hx
  linarith

/-- squaring the rounded square root of an approximation `vh` of `v`:
    `44` units before, `49` after -/
theorem sq_chain (hfl : ∀ x, |fl x - x| ≤ u * |x|) (hu : 0 ≤ u) (hu' : u ≤ 1 / 2048)
    {vh v Y : ℝ} (hvh : 0 ≤ vh) (hv : 0 ≤ v) (hvY : v ≤ Y) (h : |vh - v| ≤ 44 * u * Y) :
    |fl (fl (Real.sqrt vh) * fl (Real.sqrt vh)) - v| ≤ 49 * u * Y := by
  have hY : 0 ≤ Y := le_trans hv hvY
  have huY : 0 ≤ u * Y := mul_nonneg hu hY
  set r := Real.sqrt vh with hr
  have hr0 : 0 ≤ r := Real.sqrt_nonneg _
  have hrr : r * r = vh := Real.mul_self_sqrt hvh
  set sh := fl r with hsh
  have hδ : |sh - r| ≤ u * r := by
    have := hfl r
    rw [abs_of_nonneg hr0] at this
    exact this
  have hsum : |sh + r| ≤ (2 + u) * r := by
    have e : sh + r = (sh - r) + 2 * r := by ring
    rw [e]
    have := abs_add_le (sh - r) (2 * r)
    rw [abs_of_nonneg (by linarith : (0 : ℝ) ≤ 2 * r)] at this
    linarith
  have hprod : |sh * sh - vh| ≤ (u * r) * ((2 + u) * r) := by
    have e : sh * sh - vh = (sh - r) * (sh + r) := by rw [← hrr]; ring
    rw [e, abs_mul]
    exact mul_le_mul hδ hsum (abs_nonneg _) (mul_nonneg hu hr0)
  have e1 : (u * r) * ((2 + u) * r) = u * (2 + u) * vh := by rw [← hrr]; ring
  rw [e1] at hprod
  have hvh' : vh ≤ Y + 44 * u * Y := by
    have := (abs_le.mp h).2
    linarith
  have hcoef : 0 ≤ u * (2 + u) := mul_nonneg hu (by linarith)
  have h2 : u * (2 + u) * vh ≤ u * (2 + u) * (Y + 44 * u * Y) :=
    mul_le_mul_of_nonneg_left hvh' hcoef
  have e2 : u * (2 + u) * (Y + 44 * u * Y) =
      2 * (u * Y) + 89 * (u * (u * Y)) + 44 * (u * (u * (u * Y))) := by ring
  rw [e2] at h2
  have f1 : u * (u * Y) ≤ 1 / 2048 * (u * Y) := mul_le_mul_of_nonneg_right hu' huY
  have f2 : u * (u * (u * Y)) ≤ 1 / 2048 * (u * (u * Y)) :=
    mul_le_mul_of_nonneg_right hu' (mul_nonneg hu huY)
  have hab : |sh * sh - v| ≤ 47 * u * Y := by
    have e : sh * sh - v = (sh * sh - vh) + (vh - v) := by ring
    rw [e]
    have := abs_add_le (sh * sh - vh) (vh - v)
    have e3 : 47 * u * Y = 47 * (u * Y) := by ring
    have e4 : 44 * u * Y = 44 * (u * Y) := by ring
    rw [e3]; rw [e4] at h
    linarith
  have hb : |v| ≤ Y := by rw [abs_of_nonneg hv]; exact hvY
  have := fl_step hfl hu hu' (by norm_num : (0 : ℝ) ≤ 47) (by norm_num) hb hab
  norm_num at this
  exact this

/-- `|computed s²/n − s²/n| ≤ 51u·Σx²/((n − 1)·n)`, and the computed value is non-negative -/
theorem s2n_bound (hfl : ∀ x, |fl x - x| ≤ u * |x|) (hu : 0 ≤ u) (xs : List ℝ)
    (hn : 2 ≤ xs.length) (hs : (xs.length : ℝ) * u ≤ 1 / 1024)
    (hnat : ∀ m : ℕ, m ≤ xs.length → fl m = m) :
    |s2nFl (Arith.fromList (xs.map inj) : Arith (RR fl)) - welchA xs| ≤
      51 * u * (sumSq xs / ((xs.length : ℝ) - 1) / xs.length) ∧
    0 ≤ s2nFl (Arith.fromList (xs.map inj) : Arith (RR fl)) ∧
    welchA xs ≤ sumSq xs / ((xs.length : ℝ) - 1) / xs.length := by
  have hN : (2 : ℝ) ≤ xs.length := by exact_mod_cast hn
  have hN0 : (0 : ℝ) < xs.length := by linarith
  have hM0 : (0 : ℝ) < (xs.length : ℝ) - 1 := by linarith
  have hu' := u_small hu hN hs
  have hv := variance_bound hfl hu xs hn hs hnat
  have hv0 : 0 ≤ svar xs := svar_nonneg xs (by omega)
  have hD : 0 ≤ sumSq xs - smean xs * xs.sum := sum_mul_le xs (by omega)
  have hmS : 0 ≤ smean xs * xs.sum := by
    unfold smean
    rw [div_mul_eq_mul_div]
    exact div_nonneg (mul_self_nonneg _) hN0.le
  have hvY : svar xs ≤ sumSq xs / ((xs.length : ℝ) - 1) := by
    have hsv : svar xs = (sumSq xs - smean xs * xs.sum) / ((xs.length : ℝ) - 1) := by
      unfold svar sumSq
      rw [sdev2_eq xs (by omega)]
    rw [hsv]
    exact div_le_div_of_nonneg_right (by linarith) hM0.le
  set a : Arith (RR fl) := Arith.fromList (xs.map inj) with ha
  have hX := sq_chain hfl hu hu' (variance_nonneg a) hv0 hvY hv
  have hle : welchA xs ≤ sumSq xs / ((xs.length : ℝ) - 1) / xs.length := by
    unfold welchA
    exact div_le_div_of_nonneg_right hvY hN0.le
  have hA0 : 0 ≤ welchA xs := welchA_nonneg xs (by omega)
  have hval : s2nFl a =
      fl (fl (fl (Real.sqrt a.variance.val) * fl (Real.sqrt a.variance.val)) / xs.length) := by
    rw [s2nFl_eq, stdDev_val, ha, fromList_count', hnat _ le_rfl]
  refine ⟨?_, ?_, hle⟩
  · rw [hval]
    have hb : |welchA xs| ≤ sumSq xs / ((xs.length : ℝ) - 1) / xs.length := by
      rw [abs_of_nonneg hA0]; exact hle
    have hab : |fl (fl (Real.sqrt a.variance.val) * fl (Real.sqrt a.variance.val)) / xs.length
        - welchA xs| ≤ 49 * u * (sumSq xs / ((xs.length : ℝ) - 1) / xs.length) := by
      unfold welchA
      rw [← sub_div, abs_div, abs_of_pos hN0]
      have := div_le_div_of_nonneg_right hX hN0.le
      rw [mul_div_assoc] at this
      exact this
    have := fl_step hfl hu hu' (by norm_num : (0 : ℝ) ≤ 49) (by norm_num) hb hab
    norm_num at this
    exact this
  · rw [hval]
    have hu1 : u ≤ 1 := by linarith
    apply fl_nonneg hfl hu1
    apply div_nonneg _ hN0.le
    apply fl_nonneg hfl hu1
    exact mul_self_nonneg _

/-- the sum of two approximations, `51` units each: `53` units of the sum of the magnitudes -/
theorem sum_chain (hfl : ∀ x, |fl x - x| ≤ u * |x|) (hu : 0 ≤ u) (hu' : u ≤ 1 / 2048)
    {Ah Bh A B Wa Wb : ℝ} (hA : |A| ≤ Wa) (hB : |B| ≤ Wb)
    (hAh : |Ah - A| ≤ 51 * u * Wa) (hBh : |Bh - B| ≤ 51 * u * Wb) :
    |fl (Ah + Bh) - (A + B)| ≤ 53 * u * (Wa + Wb) := by
  have hb : |A + B| ≤ Wa + Wb := le_trans (abs_add_le A B) (by linarith)
  have hab : |(Ah + Bh) - (A + B)| ≤ 51 * u * (Wa + Wb) := by
    have e : (Ah + Bh) - (A + B) = (Ah - A) + (Bh - B) := by ring
    rw [e]
    have := abs_add_le (Ah - A) (Bh - B)
    have e2 : 51 * u * (Wa + Wb) = 51 * u * Wa + 51 * u * Wb := by ring
    rw [e2]
    linarith
  have := fl_step hfl hu hu' (by norm_num : (0 : ℝ) ≤ 51) (by norm_num) hb hab
  norm_num at this
  exact this

/-- closed forms of the rounded square root with `E = 53u·W`, `v ≤ W`:
    `8·√(u·W)` always, and `55u·W/√v` -/
theorem se_chain_closed (hfl : ∀ x, |fl x - x| ≤ u * |x|) (hu : 0 ≤ u) (hu' : u ≤ 1 / 2048)
    {vh v W : ℝ} (hvh : 0 ≤ vh) (hv : 0 ≤ v) (hvW : v ≤ W) (h : |vh - v| ≤ 53 * u * W) :
    |fl (Real.sqrt vh) - Real.sqrt v| ≤ 8 * Real.sqrt (u * W) ∧
    |fl (Real.sqrt vh) - Real.sqrt v| * Real.sqrt v ≤ 55 * u * W := by
  obtain ⟨c1, c2⟩ := sd_chain hfl hu hvh hv h
  have hW : 0 ≤ W := le_trans hv hvW
  have huW : 0 ≤ u * W := mul_nonneg hu hW
  constructor
  · set r := Real.sqrt (u * W) with hr
    have hr0 : 0 ≤ r := Real.sqrt_nonneg _
    have e53 : Real.sqrt (53 * u * W) = Real.sqrt 53 * r := by
      rw [mul_assoc, Real.sqrt_mul (by norm_num : (0 : ℝ) ≤ 53)]
    have h53 : Real.sqrt 53 ≤ 7.29 := by
      rw [Real.sqrt_le_iff]; constructor <;> norm_num
    have hsu : Real.sqrt u ≤ 1 / 32 := by
      rw [Real.sqrt_le_iff]; constructor
      · norm_num
      · linarith
    have hsv : Real.sqrt v ≤ Real.sqrt W := Real.sqrt_le_sqrt hvW
    have er : r = Real.sqrt u * Real.sqrt W := by rw [hr, Real.sqrt_mul hu]
    have euu : u = Real.sqrt u * Real.sqrt u := (Real.mul_self_sqrt hu).symm
    have t1 : u * Real.sqrt v ≤ 1 / 32 * r := by
      have a1 : u * Real.sqrt v ≤ u * Real.sqrt W := mul_le_mul_of_nonneg_left hsv hu
      have a2 : u * Real.sqrt W = Real.sqrt u * r := by
        rw [er]; nth_rewrite 1 [euu]; ring
      have a3 : Real.sqrt u * r ≤ 1 / 32 * r := mul_le_mul_of_nonneg_right hsu hr0
      linarith
    have t2 : Real.sqrt 53 * r ≤ 7.29 * r := mul_le_mul_of_nonneg_right h53 hr0
    have t3 : u * (Real.sqrt 53 * r) ≤ 1 / 2048 * (Real.sqrt 53 * r) :=
      mul_le_mul_of_nonneg_right hu' (mul_nonneg (Real.sqrt_nonneg _) hr0)
    rw [e53] at c1
    have e : (1 + u) * (Real.sqrt 53 * r) = Real.sqrt 53 * r + u * (Real.sqrt 53 * r) := by ring
    rw [e] at c1
    linarith
  · have f1 : u * (u * W) ≤ 1 / 2048 * (u * W) := mul_le_mul_of_nonneg_right hu' huW
    have f2 : u * v ≤ u * W := mul_le_mul_of_nonneg_left hvW hu
    have e : (1 + u) * (53 * u * W) = 53 * (u * W) + 53 * (u * (u * W)) := by ring
    rw [e] at c2
    have e2 : 55 * u * W = 55 * (u * W) := by ring
    rw [e2]
    linarith

/-- one bound `fl (d̂ ∓ fl (c·sê))` against `d ∓ c·t`, the mean difference `15` units off -/
theorem bound_chain2 (hfl : ∀ x, |fl x - x| ≤ u * |x|) (hu : 0 ≤ u) (hu' : u ≤ 1 / 2048)
    {mh m semh t c X D : ℝ} (hc : 0 ≤ c) (ht : 0 ≤ t) (hD : 0 ≤ D) (hX : |m| ≤ X)
    (hm : |mh - m| ≤ 15 * u * X) (hsem : |semh - t| ≤ D) :
    |fl (mh - fl (c * semh)) - (m - c * t)| ≤
        17 * u * X + (1 + 3 * u) * (c * D) + 3 * u * (c * t) ∧
    |fl (mh + fl (c * semh)) - (m + c * t)| ≤
        17 * u * X + (1 + 3 * u) * (c * D) + 3 * u * (c * t) := by
  have hX0 : 0 ≤ X := le_trans (abs_nonneg _) hX
  set P := c * D with hP
  set H := c * t with hH
  have hP0 : 0 ≤ P := mul_nonneg hc hD
  have hH0 : 0 ≤ H := mul_nonneg hc ht
  have h1 : |c * semh - H| ≤ P := by
    have : c * semh - H = c * (semh - t) := by rw [hH]; ring
    rw [this, abs_mul, abs_of_nonneg hc]
    exact mul_le_mul_of_nonneg_left hsem hc
  have h2 := fl_close hfl hu h1
  rw [abs_of_nonneg hH0] at h2
  set hh := fl (c * semh) with hhh
  have f1 : u * (u * X) ≤ 1 / 2048 * (u * X) :=
    mul_le_mul_of_nonneg_right hu' (mul_nonneg hu hX0)
  have f2 : u * (u * P) ≤ 1 / 2048 * (u * P) :=
    mul_le_mul_of_nonneg_right hu' (mul_nonneg hu hP0)
  have f3 : u * (u * H) ≤ 1 / 2048 * (u * H) :=
    mul_le_mul_of_nonneg_right hu' (mul_nonneg hu hH0)
  have g1 : 0 ≤ u * X := mul_nonneg hu hX0
  have g2 : 0 ≤ u * P := mul_nonneg hu hP0
  have g3 : 0 ≤ u * H := mul_nonneg hu hH0
  have last : ∀ a b : ℝ, |b| ≤ X + H → |a - b| ≤ 15 * u * X + (P + u * (H + P)) →
      |fl a - b| ≤ 17 * u * X + (1 + 3 * u) * P + 3 * u * H := by
    intro a b hb hab
    have h3 := fl_close hfl hu hab
    have h4 : u * |b| ≤ u * (X + H) := mul_le_mul_of_nonneg_left hb hu
    have e : 15 * u * X + (P + u * (H + P)) + u * (|b| + (15 * u * X + (P + u * (H + P)))) =
        u * |b| + 15 * (u * X) + 15 * (u * (u * X)) + P + 2 * (u * P) + u * (u * P)
          + u * H + u * (u * H) := by ring
    rw [e] at h3
    have e2 : u * (X + H) = u * X + u * H := by ring
    rw [e2] at h4
    have e3 : 17 * u * X + (1 + 3 * u) * P + 3 * u * H =
        17 * (u * X) + P + 3 * (u * P) + 3 * (u * H) := by ring
    rw [e3]
    linarith
  constructor
  · apply last
    · have := abs_sub m H
      rw [abs_of_nonneg hH0] at this
      linarith
    · have e : mh - hh - (m - H) = (mh - m) - (hh - H) := by ring
      rw [e]
      have := abs_sub (mh - m) (hh - H)
      linarith
  · apply last
    · have := abs_add_le m H
      rw [abs_of_nonneg hH0] at this
      linarith
    · have e : mh + hh - (m + H) = (mh - m) + (hh - H) := by ring
      rw [e]
      have := abs_add_le (mh - m) (hh - H)
      linarith

/-! ## unpaired: two real samples -/

/-- `Σ|x|/n` -/
noncomputable def meanAbs (xs : List ℝ) : ℝ := sumAbs xs / xs.length

/-- `Σx²/((n − 1)·n)`: the magnitude against which the error of `s²/n` is measured -/
noncomputable def sqTerm (xs : List ℝ) : ℝ := sumSq xs / ((xs.length : ℝ) - 1) / xs.length

/-- the state `Unpaired::ci` builds from two real samples at `RR fl` -/
noncomputable def ofLists (fl : ℝ → ℝ) (as bs : List ℝ) : Unpaired (RR fl) :=
  Unpaired.fromLists (as.map inj) (bs.map inj)

theorem ofLists_a (as bs : List ℝ) : (ofLists fl as bs).a = Arith.fromList (as.map inj) := rfl
theorem ofLists_b (as bs : List ℝ) : (ofLists fl as bs).b = Arith.fromList (bs.map inj) := rfl

theorem meanAbs_nonneg (xs : List ℝ) : 0 ≤ meanAbs xs :=
  div_nonneg (sumAbs_nonneg xs) (Nat.cast_nonneg _)

theorem sqTerm_nonneg (xs : List ℝ) (hn : 1 ≤ xs.length) : 0 ≤ sqTerm xs := by
  have h1 : (1 : ℝ) ≤ xs.length := by exact_mod_cast hn
  exact div_nonneg (div_nonneg (sumSq_nonneg xs) (by linarith)) (by linarith)

theorem abs_smean_le (xs : List ℝ) (hn : 1 ≤ xs.length) : |smean xs| ≤ meanAbs xs := by
  have hN0 : (0 : ℝ) < xs.length := by exact_mod_cast hn
  unfold smean meanAbs
  rw [abs_div, abs_of_pos hN0]
  exact div_le_div_of_nonneg_right (abs_sum_le_sumAbs xs) hN0.le

/-- the hypotheses on the two sizes give the one-sample hypotheses on each side -/
theorem split_hyps (hu : 0 ≤ u) (as bs : List ℝ)
    (hs : ((as.length : ℝ) + bs.length) * u ≤ 1 / 1024)
    (hnat : ∀ m : ℕ, m ≤ as.length + bs.length → fl m = m) :
    (as.length : ℝ) * u ≤ 1 / 1024 ∧ (bs.length : ℝ) * u ≤ 1 / 1024 ∧
    (∀ m : ℕ, m ≤ as.length → fl m = m) ∧ (∀ m : ℕ, m ≤ bs.length → fl m = m) := by
  have h1 : 0 ≤ (as.length : ℝ) * u := mul_nonneg (Nat.cast_nonneg _) hu
  have h2 : 0 ≤ (bs.length : ℝ) * u := mul_nonneg (Nat.cast_nonneg _) hu
  have e : ((as.length : ℝ) + bs.length) * u = (as.length : ℝ) * u + (bs.length : ℝ) * u := by ring
  rw [e] at hs
  exact ⟨by linarith, by linarith, fun m hm => hnat m (by omega), fun m hm => hnat m (by omega)⟩

/-- the computed mean difference: `13u·(Σ|a|/na + Σ|b|/nb)` from the two means, plus the final
    subtraction; in closed form `15u·(Σ|a|/na + Σ|b|/nb)` -/
theorem diff_bound (hfl : ∀ x, |fl x - x| ≤ u * |x|) (hu : 0 ≤ u) (as bs : List ℝ)
    (hna : 2 ≤ as.length) (hnb : 2 ≤ bs.length)
    (hs : ((as.length : ℝ) + bs.length) * u ≤ 1 / 1024)
    (hnat : ∀ m : ℕ, m ≤ as.length + bs.length → fl m = m) :
    |diffFl (ofLists fl as bs) - (smean as - smean bs)| ≤
      13 * u * (meanAbs as + meanAbs bs)
        + u * (|smean as - smean bs| + 13 * u * (meanAbs as + meanAbs bs)) ∧
    |diffFl (ofLists fl as bs) - (smean as - smean bs)| ≤ 15 * u * (meanAbs as + meanAbs bs) := by
  obtain ⟨hsa, hsb, hnata, hnatb⟩ := split_hyps hu as bs hs hnat
  have hN : (2 : ℝ) ≤ as.length := by exact_mod_cast hna
  have hu' := u_small hu hN hsa
  have hma := mean_bound hfl hu as hna hsa hnata
  have hmb := mean_bound hfl hu bs hnb hsb hnatb
  have hab : |((ofLists fl as bs).a.mean.val - (ofLists fl as bs).b.mean.val)
      - (smean as - smean bs)| ≤ 13 * u * (meanAbs as + meanAbs bs) := by
    rw [ofLists_a, ofLists_b]
    have e : (Arith.fromList (as.map inj) : Arith (RR fl)).mean.val -
        (Arith.fromList (bs.map inj) : Arith (RR fl)).mean.val - (smean as - smean bs) =
        ((Arith.fromList (as.map inj) : Arith (RR fl)).mean.val - smean as) -
        ((Arith.fromList (bs.map inj) : Arith (RR fl)).mean.val - smean bs) := by ring
    rw [e]
    have := abs_sub ((Arith.fromList (as.map inj) : Arith (RR fl)).mean.val - smean as)
      ((Arith.fromList (bs.map inj) : Arith (RR fl)).mean.val - smean bs)
    have e2 : 13 * u * (meanAbs as + meanAbs bs) =
        13 * u * (sumAbs as / as.length) + 13 * u * (sumAbs bs / bs.length) := by
      unfold meanAbs; ring
    rw [e2]
    linarith
  constructor
  · exact fl_close hfl hu hab
  · have hb : |smean as - smean bs| ≤ meanAbs as + meanAbs bs := by
      have := abs_sub (smean as) (smean bs)
      have := abs_smean_le as (by omega)
      have := abs_smean_le bs (by omega)
      linarith
    have := fl_step hfl hu hu' (by norm_num : (0 : ℝ) ≤ 13) (by norm_num) hb hab
    norm_num at this
    exact this

/-- the computed `sa²/na + sb²/nb`: `53u·(Σa²/((na−1)na) + Σb²/((nb−1)nb))`; it is
    non-negative, and the exact value is at most the magnitude used -/
theorem sumS2n_bound (hfl : ∀ x, |fl x - x| ≤ u * |x|) (hu : 0 ≤ u) (as bs : List ℝ)
    (hna : 2 ≤ as.length) (hnb : 2 ≤ bs.length)
    (hs : ((as.length : ℝ) + bs.length) * u ≤ 1 / 1024)
    (hnat : ∀ m : ℕ, m ≤ as.length + bs.length → fl m = m) :
    |sumS2nFl (ofLists fl as bs) - (welchA as + welchA bs)| ≤ 53 * u * (sqTerm as + sqTerm bs) ∧
    0 ≤ sumS2nFl (ofLists fl as bs) ∧
    welchA as + welchA bs ≤ sqTerm as + sqTerm bs := by
  obtain ⟨hsa, hsb, hnata, hnatb⟩ := split_hyps hu as bs hs hnat
  have hN : (2 : ℝ) ≤ as.length := by exact_mod_cast hna
  have hu' := u_small hu hN hsa
  obtain ⟨a1, a2, a3⟩ := s2n_bound hfl hu as hna hsa hnata
  obtain ⟨b1, b2, b3⟩ := s2n_bound hfl hu bs hnb hsb hnatb
  have hA0 := welchA_nonneg as (by omega)
  have hB0 := welchA_nonneg bs (by omega)
  refine ⟨?_, ?_, ?_⟩
  · unfold sumS2nFl
    rw [ofLists_a, ofLists_b]
    exact sum_chain hfl hu hu' (by rw [abs_of_nonneg hA0]; exact a3)
      (by rw [abs_of_nonneg hB0]; exact b3) a1 b1
  · unfold sumS2nFl
    rw [ofLists_a, ofLists_b]
    exact fl_nonneg hfl (by linarith) (add_nonneg a2 b2)
  · unfold sqTerm
    linarith

/-- the computed standard error against `√(sa²/na + sb²/nb)`: the square-root form
    `8·√(u·W)` (valid also when the exact value is `0`) and the relative form
    `|sê − se|·se ≤ 55u·W`, `W = Σa²/((na−1)na) + Σb²/((nb−1)nb)` -/
theorem se_bound (hfl : ∀ x, |fl x - x| ≤ u * |x|) (hu : 0 ≤ u) (as bs : List ℝ)
    (hna : 2 ≤ as.length) (hnb : 2 ≤ bs.length)
    (hs : ((as.length : ℝ) + bs.length) * u ≤ 1 / 1024)
    (hnat : ∀ m : ℕ, m ≤ as.length + bs.length → fl m = m) :
    |seFl (ofLists fl as bs) - Real.sqrt (welchA as + welchA bs)| ≤
      8 * Real.sqrt (u * (sqTerm as + sqTerm bs)) ∧
    |seFl (ofLists fl as bs) - Real.sqrt (welchA as + welchA bs)| *
      Real.sqrt (welchA as + welchA bs) ≤ 55 * u * (sqTerm as + sqTerm bs) := by
  obtain ⟨hsa, hsb, hnata, hnatb⟩ := split_hyps hu as bs hs hnat
  have hN : (2 : ℝ) ≤ as.length := by exact_mod_cast hna
  have hu' := u_small hu hN hsa
  obtain ⟨h1, h2, h3⟩ := sumS2n_bound hfl hu as bs hna hnb hs hnat
  have hA0 := welchA_nonneg as (by omega)
  have hB0 := welchA_nonneg bs (by omega)
  unfold seFl
  exact se_chain_closed hfl hu hu' h2 (add_nonneg hA0 hB0) h3 h1

/-- the two bounds `fl (d̂ ∓ fl (c·sê))` against `(x̄a − x̄b) ∓ c·se`, the error of the standard
    error explicit -/
theorem unpaired_bounds_bound (hfl : ∀ x, |fl x - x| ≤ u * |x|) (hu : 0 ≤ u) (as bs : List ℝ)
    (hna : 2 ≤ as.length) (hnb : 2 ≤ bs.length)
    (hs : ((as.length : ℝ) + bs.length) * u ≤ 1 / 1024)
    (hnat : ∀ m : ℕ, m ≤ as.length + bs.length → fl m = m) (c : ℝ) (hc : 0 ≤ c) {Δ : ℝ}
    (hΔ : |seFl (ofLists fl as bs) - Real.sqrt (welchA as + welchA bs)| ≤ Δ) :
    let U := ofLists fl as bs
    let se := Real.sqrt (welchA as + welchA bs)
    let B := 17 * u * (meanAbs as + meanAbs bs) + (1 + 3 * u) * (c * Δ) + 3 * u * (c * se)
    |fl (diffFl U - fl (c * seFl U)) - ((smean as - smean bs) - c * se)| ≤ B ∧
    |fl (diffFl U + fl (c * seFl U)) - ((smean as - smean bs) + c * se)| ≤ B := by
  intro U se B
  obtain ⟨hsa, hsb, hnata, hnatb⟩ := split_hyps hu as bs hs hnat
  have hN : (2 : ℝ) ≤ as.length := by exact_mod_cast hna
  have hu' := u_small hu hN hsa
  have hd := (diff_bound hfl hu as bs hna hnb hs hnat).2
  have hb : |smean as - smean bs| ≤ meanAbs as + meanAbs bs := by
    have := abs_sub (smean as) (smean bs)
    have := abs_smean_le as (by omega)
    have := abs_smean_le bs (by omega)
    linarith
  have hΔ0 : 0 ≤ Δ := le_trans (abs_nonneg _) hΔ
  exact bound_chain2 hfl hu hu' hc (Real.sqrt_nonneg _) hΔ0 hb hd hΔ

/-! ## multiplicative closeness -/

/-- `xh` is within the factors `e^{∓θ}` of `x` (used for `x ≥ 0`). Closeness in this sense adds
    exactly under products and quotients and is preserved by sums of non-negative terms. -/
def Near (θ xh x : ℝ) : Prop := x * Real.exp (-θ) ≤ xh ∧ xh ≤ x * Real.exp θ

namespace Near
variable {θ θ' θ₁ θ₂ xh x ah a bh b p : ℝ}

theorem refl (x : ℝ) : Near 0 x x := by simp [Near]

theorem nonneg (hx : 0 ≤ x) (h : Near θ xh x) : 0 ≤ xh :=
  le_trans (mul_nonneg hx (Real.exp_pos _).le) h.1

theorem mono (hx : 0 ≤ x) (hθ : θ ≤ θ') (h : Near θ xh x) : Near θ' xh x := by
  have h1 : Real.exp (-θ') ≤ Real.exp (-θ) := Real.exp_le_exp.mpr (by linarith)
  have h2 : Real.exp θ ≤ Real.exp θ' := Real.exp_le_exp.mpr hθ
  exact ⟨le_trans (mul_le_mul_of_nonneg_left h1 hx) h.1,
    le_trans h.2 (mul_le_mul_of_nonneg_left h2 hx)⟩

theorem add (ha : Near θ ah a) (hb : Near θ bh b) : Near θ (ah + bh) (a + b) := by
  constructor
  · rw [add_mul]; exact add_le_add ha.1 hb.1
  · rw [add_mul]; exact add_le_add ha.2 hb.2

theorem mul (ha0 : 0 ≤ a) (hb0 : 0 ≤ b) (ha : Near θ₁ ah a) (hb : Near θ₂ bh b) :
    Near (θ₁ + θ₂) (ah * bh) (a * b) := by
  have hah := ha.nonneg ha0
  have hbh := hb.nonneg hb0
  constructor
  · have e : a * b * Real.exp (-(θ₁ + θ₂)) = (a * Real.exp (-θ₁)) * (b * Real.exp (-θ₂)) := by
      rw [neg_add, Real.exp_add]; ring
    rw [e]
    exact mul_le_mul ha.1 hb.1 (mul_nonneg hb0 (Real.exp_pos _).le) hah
  · have e : a * b * Real.exp (θ₁ + θ₂) = (a * Real.exp θ₁) * (b * Real.exp θ₂) := by
      rw [Real.exp_add]; ring
    rw [e]
    exact mul_le_mul ha.2 hb.2 hbh (mul_nonneg ha0 (Real.exp_pos _).le)

theorem div_const (hp : 0 < p) (h : Near θ ah a) : Near θ (ah / p) (a / p) := by
  constructor
  · rw [div_mul_eq_mul_div]; exact div_le_div_of_nonneg_right h.1 hp.le
  · rw [div_mul_eq_mul_div]; exact div_le_div_of_nonneg_right h.2 hp.le

theorem div (ha0 : 0 ≤ a) (hb0 : 0 < b) (ha : Near θ₁ ah a) (hb : Near θ₂ bh b) :
    Near (θ₁ + θ₂) (ah / bh) (a / b) := by
  have hah := ha.nonneg ha0
  have hlo : 0 < b * Real.exp (-θ₂) := mul_pos hb0 (Real.exp_pos _)
  have hbh : 0 < bh := lt_of_lt_of_le hlo hb.1
  constructor
  · have e : a / b * Real.exp (-(θ₁ + θ₂)) = (a * Real.exp (-θ₁)) / (b * Real.exp θ₂) := by
      rw [neg_add, Real.exp_add, Real.exp_neg θ₂]
      field_simp
    rw [e]
    exact div_le_div₀ hah ha.1 hbh hb.2
  · have e : a / b * Real.exp (θ₁ + θ₂) = (a * Real.exp θ₁) / (b * Real.exp (-θ₂)) := by
      rw [Real.exp_add, Real.exp_neg θ₂]
      field_simp
    rw [e]
    exact div_le_div₀ (mul_nonneg ha0 (Real.exp_pos _).le) ha.2 hlo hb.1

end Near

/-- `1 + u ≤ e^{2u}` and `e^{−2u} ≤ 1 − u` for `0 ≤ u ≤ 1/2` -/
theorem exp_two_u (hu : 0 ≤ u) (hu' : u ≤ 1 / 2) :
    1 + u ≤ Real.exp (2 * u) ∧ Real.exp (-(2 * u)) ≤ 1 - u := by
  have h1 := Real.add_one_le_exp (2 * u)
  have hpos : (0 : ℝ) < 1 + 2 * u := by linarith
  refine ⟨by linarith, ?_⟩
  rw [Real.exp_neg]
  have h2 : (Real.exp (2 * u))⁻¹ ≤ (1 + 2 * u)⁻¹ := inv_anti₀ hpos (by linarith)
  refine le_trans h2 ?_
  rw [inv_le_iff_one_le_mul₀ hpos]
  nlinarith

/-- one rounded operation costs `2u` of closeness -/
theorem Near.round {θ xh x : ℝ} (hfl : ∀ x, |fl x - x| ≤ u * |x|) (hu : 0 ≤ u) (hu' : u ≤ 1 / 2)
    (hx : 0 ≤ x) (h : Near θ xh x) : Near (θ + 2 * u) (fl xh) x := by
  have hxh := h.nonneg hx
  obtain ⟨e1, e2⟩ := exp_two_u hu hu'
  have hf := hfl xh
  rw [abs_of_nonneg hxh] at hf
  obtain ⟨f1, f2⟩ := abs_le.mp hf
  constructor
  · have e : x * Real.exp (-(θ + 2 * u)) = Real.exp (-(2 * u)) * (x * Real.exp (-θ)) := by
      rw [neg_add, Real.exp_add]; ring
    rw [e]
    have a1 : Real.exp (-(2 * u)) * (x * Real.exp (-θ)) ≤ Real.exp (-(2 * u)) * xh :=
      mul_le_mul_of_nonneg_left h.1 (Real.exp_pos _).le
    have a2 : Real.exp (-(2 * u)) * xh ≤ (1 - u) * xh := mul_le_mul_of_nonneg_right e2 hxh
    linarith
  · have e : x * Real.exp (θ + 2 * u) = Real.exp (2 * u) * (x * Real.exp θ) := by
      rw [Real.exp_add]; ring
    rw [e]
    have a1 : Real.exp (2 * u) * xh ≤ Real.exp (2 * u) * (x * Real.exp θ) :=
      mul_le_mul_of_nonneg_left h.2 (Real.exp_pos _).le
    have a2 : (1 + u) * xh ≤ Real.exp (2 * u) * xh := mul_le_mul_of_nonneg_right e1 hxh
    linarith

/-- a relative error `ε ≤ 1/64` is a closeness `(64/63)·ε` -/
theorem Near.of_rel {ε xh x : ℝ} (hx : 0 ≤ x) (hε0 : 0 ≤ ε) (hε : ε ≤ 1 / 64)
    (h : |xh - x| ≤ ε * x) : Near (64 / 63 * ε) xh x := by
  obtain ⟨h1, h2⟩ := abs_le.mp h
  have hθ := Real.add_one_le_exp (64 / 63 * ε)
  have hpos : (0 : ℝ) < 1 + 64 / 63 * ε := by linarith
  constructor
  · have a1 : Real.exp (-(64 / 63 * ε)) ≤ 1 - ε := by
      rw [Real.exp_neg]
      have : (Real.exp (64 / 63 * ε))⁻¹ ≤ (1 + 64 / 63 * ε)⁻¹ := inv_anti₀ hpos (by linarith)
      refine le_trans this ?_
      rw [inv_le_iff_one_le_mul₀ hpos]
      nlinarith
    have a2 : x * Real.exp (-(64 / 63 * ε)) ≤ x * (1 - ε) := mul_le_mul_of_nonneg_left a1 hx
    linarith
  · have a1 : x * (1 + ε) ≤ x * Real.exp (64 / 63 * ε) :=
      mul_le_mul_of_nonneg_left (by linarith) hx
    linarith

/-- back to an absolute error: `|xh − x| ≤ (14/13)·τ·x` for `τ ≤ 1/14` -/
theorem Near.abs_sub_le {τ xh x : ℝ} (hx : 0 ≤ x) (hτ0 : 0 ≤ τ) (hτ : τ ≤ 1 / 14)
    (h : Near τ xh x) : |xh - x| ≤ 14 / 13 * τ * x := by
  have hup : Real.exp τ ≤ 1 + 14 / 13 * τ := by
    have h1 := Real.exp_bound_div_one_sub_of_interval hτ0 (by linarith : τ < 1)
    refine le_trans h1 ?_
    rw [div_le_iff₀ (by linarith : (0 : ℝ) < 1 - τ)]
    nlinarith
  have hlo : 1 - τ ≤ Real.exp (-τ) := by
    have := Real.add_one_le_exp (-τ)
    linarith
  have a1 : x * Real.exp τ ≤ x * (1 + 14 / 13 * τ) := mul_le_mul_of_nonneg_left hup hx
  have a2 : x * (1 - τ) ≤ x * Real.exp (-τ) := mul_le_mul_of_nonneg_left hlo hx
  have a3 : 0 ≤ τ * x := mul_nonneg hτ0 hx
  rw [abs_le]
  constructor
  · have := h.1
    have e : 14 / 13 * τ * x = 14 / 13 * (τ * x) := by ring
    rw [e]
    have e2 : x * (1 - τ) = x - τ * x := by ring
    rw [e2] at a2
    linarith
  · have := h.2
    have e : x * (1 + 14 / 13 * τ) = x + 14 / 13 * τ * x := by ring
    rw [e] at a1
    linarith

/-! ## the effective degrees of freedom -/

/-- the value `effectiveDof` computes at `RR fl` -/
theorem effectiveDof_fl_val (A B na nb : RR fl) :
    (Unpaired.effectiveDof A B na nb).val =
      fl (fl (fl (fl (fl (A.val + B.val) * fl (A.val + B.val)) /
        fl (fl (fl (A.val * A.val) / fl (na.val + 1))
          + fl (fl (B.val * B.val) / fl (nb.val + 1)))) - 1) - 1) := rfl

/-- `ν ≤ na + nb` (Cauchy–Schwarz), for every `A`, `B` -/
theorem welchDof_le (A B na nb : ℝ) (hna : 0 ≤ na) (hnb : 0 ≤ nb) :
    welchDof A B na nb ≤ na + nb := by
  have hp : 0 < na + 1 := by linarith
  have hq : 0 < nb + 1 := by linarith
  have hD0 : 0 ≤ A ^ 2 / (na + 1) + B ^ 2 / (nb + 1) :=
    add_nonneg (div_nonneg (sq_nonneg _) hp.le) (div_nonneg (sq_nonneg _) hq.le)
  unfold welchDof
  rcases hD0.lt_or_eq with hD | hD
  · have key : (A + B) ^ 2 ≤ (na + nb + 2) * (A ^ 2 / (na + 1) + B ^ 2 / (nb + 1)) := by
      have e : (na + nb + 2) * (A ^ 2 / (na + 1) + B ^ 2 / (nb + 1)) - (A + B) ^ 2 =
          (na + 1) * (nb + 1) * (A / (na + 1) - B / (nb + 1)) ^ 2 := by
        field_simp
        ring
      have : 0 ≤ (na + 1) * (nb + 1) * (A / (na + 1) - B / (nb + 1)) ^ 2 :=
        mul_nonneg (mul_nonneg hp.le hq.le) (sq_nonneg _)
      linarith
    have : (A + B) ^ 2 / (A ^ 2 / (na + 1) + B ^ 2 / (nb + 1)) ≤ na + nb + 2 := by
      rw [div_le_iff₀ hD]; exact key
    linarith
  · rw [← hD, div_zero]
    linarith

/-- the quotient inside `effectiveDof`, computed with rounding, against the exact quotient of
    the reference values: seven rounded operations (`14u`) and four times the closeness of the
    inputs -/
theorem dof_chain (hfl : ∀ x, |fl x - x| ≤ u * |x|) (hu : 0 ≤ u) (hu' : u ≤ 1 / 2)
    {θ Ah Bh A B p q : ℝ} (hA : 0 ≤ A) (hB : 0 ≤ B) (hAB : 0 < A + B) (hp : 0 < p) (hq : 0 < q)
    (ha : Near θ Ah A) (hb : Near θ Bh B) :
    Near (4 * θ + 14 * u)
      (fl (fl (fl (Ah + Bh) * fl (Ah + Bh)) /
        fl (fl (fl (Ah * Ah) / p) + fl (fl (Bh * Bh) / q))))
      ((A + B) ^ 2 / (A ^ 2 / p + B ^ 2 / q)) := by
  have hS := (ha.add hb).round hfl hu hu' hAB.le
  have hSS := (Near.mul hAB.le hAB.le hS hS).round hfl hu hu' (mul_nonneg hAB.le hAB.le)
  have hAA := ((Near.mul hA hA ha ha).round hfl hu hu' (mul_nonneg hA hA)).div_const hp
  have hAA' := hAA.round hfl hu hu' (div_nonneg (mul_nonneg hA hA) hp.le)
  have hBB := ((Near.mul hB hB hb hb).round hfl hu hu' (mul_nonneg hB hB)).div_const hq
  have hBB' := hBB.round hfl hu hu' (div_nonneg (mul_nonneg hB hB) hq.le)
  have hD0 : 0 < A * A / p + B * B / q := by
    rcases lt_or_eq_of_le hA with h | h
    · have : 0 < A * A / p := div_pos (mul_pos h h) hp
      have : 0 ≤ B * B / q := div_nonneg (mul_nonneg hB hB) hq.le
      linarith
    · have hB' : 0 < B := by rw [← h] at hAB; linarith
      have : 0 ≤ A * A / p := div_nonneg (mul_nonneg hA hA) hp.le
      have : 0 < B * B / q := div_pos (mul_pos hB' hB') hq
      linarith
  have hD := (hAA'.add hBB').round hfl hu hu' hD0.le
  have hQ := (Near.div (mul_nonneg hAB.le hAB.le) hD0 hSS hD).round hfl hu hu'
    (div_nonneg (mul_nonneg hAB.le hAB.le) hD0.le)
  have e : θ + 2 * u + (θ + 2 * u) + 2 * u + (θ + θ + 2 * u + 2 * u + 2 * u) + 2 * u =
      4 * θ + 14 * u := by ring
  rw [e] at hQ
  rw [pow_two, pow_two, pow_two]
  exact hQ

/-- the two final subtractions: `Qh` close to `Q ≥ 3` -/
theorem dof_tail (hfl : ∀ x, |fl x - x| ≤ u * |x|) (hu : 0 ≤ u) (hu' : u ≤ 1 / 2048)
    {τ Qh Q : ℝ} (hQ : 3 ≤ Q) (hτ0 : 0 ≤ τ) (hτ : τ ≤ 1 / 14) (h : Near τ Qh Q) :
    |fl (fl (Qh - 1) - 1) - (Q - 2)| ≤ ((1 + 3 * u) * (14 / 13 * τ) + 3 * u) * Q := by
  have hQ0 : 0 ≤ Q := by linarith
  have h0 := h.abs_sub_le hQ0 hτ0 hτ
  set e0 := 14 / 13 * τ * Q with he0
  have he00 : 0 ≤ e0 := by rw [he0]; positivity
  have h1 : |(Qh - 1) - (Q - 1)| ≤ e0 := by
    have : (Qh - 1) - (Q - 1) = Qh - Q := by ring
    rw [this]; exact h0
  have c1 := fl_close hfl hu h1
  rw [abs_of_nonneg (by linarith : (0 : ℝ) ≤ Q - 1)] at c1
  have h2 : |(fl (Qh - 1) - 1) - (Q - 2)| ≤ e0 + u * (Q - 1 + e0) := by
    have : (fl (Qh - 1) - 1) - (Q - 2) = fl (Qh - 1) - (Q - 1) := by ring
    rw [this]; exact c1
  have c2 := fl_close hfl hu h2
  rw [abs_of_nonneg (by linarith : (0 : ℝ) ≤ Q - 2)] at c2
  have f1 : u * (u * e0) ≤ 1 / 2048 * (u * e0) :=
    mul_le_mul_of_nonneg_right hu' (mul_nonneg hu he00)
  have f2 : u * (u * Q) ≤ 1 / 2048 * (u * Q) :=
    mul_le_mul_of_nonneg_right hu' (mul_nonneg hu hQ0)
  have g1 : 0 ≤ u * e0 := mul_nonneg hu he00
  have g2 : 0 ≤ u * Q := mul_nonneg hu hQ0
  have e : e0 + u * (Q - 1 + e0) + u * (Q - 2 + (e0 + u * (Q - 1 + e0))) =
      e0 + 2 * (u * e0) + u * (u * e0) + 2 * (u * Q) + u * (u * Q) - 3 * u - u * u := by ring
  rw [e] at c2
  have e2 : ((1 + 3 * u) * (14 / 13 * τ) + 3 * u) * Q = e0 + 3 * (u * e0) + 3 * (u * Q) := by
    rw [he0]; ring
  rw [e2]
  have : 0 ≤ u * u := mul_nonneg hu hu
  linarith

/-- coefficients: closeness `(64/63)·ε` of the inputs with `ε ≤ 1/64`, `u ≤ 1/2048` -/
theorem dof_coeff (hu : 0 ≤ u) (hu' : u ≤ 1 / 2048) {ε : ℝ} (hε0 : 0 ≤ ε) (hε : ε ≤ 1 / 64) :
    4 * (64 / 63 * ε) + 14 * u ≤ 1 / 14 ∧
    (1 + 3 * u) * (14 / 13 * (4 * (64 / 63 * ε) + 14 * u)) + 3 * u ≤ 5 * ε + 19 * u ∧
    5 * ε + 19 * u ≤ 1 / 8 := by
  have f1 : u * ε ≤ 1 / 2048 * ε := mul_le_mul_of_nonneg_right hu' hε0
  have f2 : u * u ≤ 1 / 2048 * u := mul_le_mul_of_nonneg_right hu' hu
  refine ⟨by linarith, ?_, by linarith⟩
  have e : (1 + 3 * u) * (14 / 13 * (4 * (64 / 63 * ε) + 14 * u)) + 3 * u =
      512 / 117 * ε + 196 / 13 * u + 512 / 39 * (u * ε) + 588 / 13 * (u * u) + 3 * u := by ring
  rw [e]
  linarith

/-- positivity from the error bound: `|d − (Q − 2)| ≤ K·Q`, `Q ≥ 3`, `K ≤ 1/8` give `d > 0` -/
theorem pos_of_tail {d Q K : ℝ} (hQ : 3 ≤ Q) (hK0 : 0 ≤ K) (hK : K ≤ 1 / 8)
    (h : |d - (Q - 2)| ≤ K * Q) : 0 < d := by
  have h1 := (abs_le.mp h).1
  have h2 : K * Q ≤ 1 / 8 * Q := mul_le_mul_of_nonneg_right hK (by linarith)
  linarith

/-- the computed `s²/n` of any state with an exactly represented count is non-negative -/
theorem s2nFl_nonneg (hfl : ∀ x, |fl x - x| ≤ u * |x|) (hu1 : u ≤ 1) (a : Arith (RR fl))
    (hc : fl a.count = a.count) : 0 ≤ s2nFl a := by
  rw [s2nFl_eq, hc]
  apply fl_nonneg hfl hu1
  apply div_nonneg _ (Nat.cast_nonneg _)
  apply fl_nonneg hfl hu1
  exact mul_self_nonneg _

/-- `dofFl` of any state whose counts and their successors are exactly representable -/
theorem dofFl_eq (U : Unpaired (RR fl)) (ha : fl U.a.count = U.a.count)
    (hb : fl U.b.count = U.b.count) (ha1 : fl ((U.a.count : ℝ) + 1) = (U.a.count : ℝ) + 1)
    (hb1 : fl ((U.b.count : ℝ) + 1) = (U.b.count : ℝ) + 1) :
    dofFl U = fl (fl (fl (fl (fl (s2nFl U.a + s2nFl U.b) * fl (s2nFl U.a + s2nFl U.b)) /
        fl (fl (fl (s2nFl U.a * s2nFl U.a) / ((U.a.count : ℝ) + 1))
          + fl (fl (s2nFl U.b * s2nFl U.b) / ((U.b.count : ℝ) + 1)))) - 1) - 1) := by
  unfold dofFl
  rw [effectiveDof_fl_val]
  simp only [RR.ofNat_val, ha, hb, ha1, hb1]

/-- **The computed degrees of freedom are positive** for every state with counts `≥ 2`
    (exactly representable together with their successors) whose computed variance terms are
    not both zero: with seven rounded operations the quotient stays above `3·e^{−14u}`, and the
    two subtractions leave at least `1 − 57u`. -/
theorem dofFl_pos (hfl : ∀ x, |fl x - x| ≤ u * |x|) (hu : 0 ≤ u) (hu' : u ≤ 1 / 2048)
    (U : Unpaired (RR fl)) (hna : 2 ≤ U.a.count) (hnb : 2 ≤ U.b.count)
    (ha : fl U.a.count = U.a.count) (hb : fl U.b.count = U.b.count)
    (ha1 : fl ((U.a.count : ℝ) + 1) = (U.a.count : ℝ) + 1)
    (hb1 : fl ((U.b.count : ℝ) + 1) = (U.b.count : ℝ) + 1)
    (hpos : 0 < s2nFl U.a + s2nFl U.b) : 0 < dofFl U := by
  have hA := s2nFl_nonneg hfl (by linarith) U.a ha
  have hB := s2nFl_nonneg hfl (by linarith) U.b hb
  have hNa : (2 : ℝ) ≤ U.a.count := by exact_mod_cast hna
  have hNb : (2 : ℝ) ≤ U.b.count := by exact_mod_cast hnb
  have hch := dof_chain hfl hu (by linarith) hA hB hpos
    (by linarith : (0 : ℝ) < (U.a.count : ℝ) + 1) (by linarith : (0 : ℝ) < (U.b.count : ℝ) + 1)
    (Near.refl _) (Near.refl _)
  have hge := welchDof_ge _ _ _ _ hNa hNb hA hB hpos
  unfold welchDof at hge
  have hm : (2 : ℝ) ≤ min (U.a.count : ℝ) U.b.count := le_min hNa hNb
  rw [show (4 : ℝ) * 0 + 14 * u = 14 * u by ring] at hch
  have ht := dof_tail hfl hu hu' (by linarith) (by linarith) (by linarith) hch
  rw [dofFl_eq U ha hb ha1 hb1]
  have hQ3 : (3 : ℝ) ≤ (s2nFl U.a + s2nFl U.b) ^ 2 /
      (s2nFl U.a ^ 2 / ((U.a.count : ℝ) + 1) + s2nFl U.b ^ 2 / ((U.b.count : ℝ) + 1)) := by
    linarith
  have f2 : u * u ≤ 1 / 2048 * u := mul_le_mul_of_nonneg_right hu' hu
  have eK : (1 + 3 * u) * (14 / 13 * (14 * u)) + 3 * u =
      196 / 13 * u + 588 / 13 * (u * u) + 3 * u := by ring
  have hK : (1 + 3 * u) * (14 / 13 * (14 * u)) + 3 * u ≤ 1 / 8 := by
    rw [eK]; linarith
  have hK0 : 0 ≤ (1 + 3 * u) * (14 / 13 * (14 * u)) + 3 * u := by
    positivity
  exact pos_of_tail hQ3 hK0 hK ht

/-! ## the effective degrees of freedom of two real samples -/

theorem ofLists_a_count (as bs : List ℝ) : (ofLists fl as bs).a.count = as.length := by
  rw [ofLists_a, fromList_count']

theorem ofLists_b_count (as bs : List ℝ) : (ofLists fl as bs).b.count = bs.length := by
  rw [ofLists_b, fromList_count']

/-- exact representability of the four natural numbers `effectiveDof` and `ciPrep` use -/
theorem count_hyps (as bs : List ℝ) (hna : 2 ≤ as.length) (hnb : 2 ≤ bs.length)
    (hnat : ∀ m : ℕ, m ≤ as.length + bs.length → fl m = m) :
    fl (ofLists fl as bs).a.count = (ofLists fl as bs).a.count ∧
    fl (ofLists fl as bs).b.count = (ofLists fl as bs).b.count ∧
    fl (((ofLists fl as bs).a.count : ℝ) + 1) = ((ofLists fl as bs).a.count : ℝ) + 1 ∧
    fl (((ofLists fl as bs).b.count : ℝ) + 1) = ((ofLists fl as bs).b.count : ℝ) + 1 := by
  rw [ofLists_a_count, ofLists_b_count]
  refine ⟨hnat _ (by omega), hnat _ (by omega), ?_, ?_⟩
  · have := hnat (as.length + 1) (by omega)
    push_cast at this
    exact this
  · have := hnat (bs.length + 1) (by omega)
    push_cast at this
    exact this

theorem fl_zero (hfl : ∀ x, |fl x - x| ≤ u * |x|) : fl 0 = 0 := by
  have := hfl 0
  simp only [sub_zero, abs_zero, mul_zero] at this
  exact abs_eq_zero.mp (le_antisymm this (abs_nonneg _))

/-- a positive computed `sa²/na + sb²/nb` means the two computed terms are not both zero -/
theorem terms_pos_of_sum_pos (hfl : ∀ x, |fl x - x| ≤ u * |x|) (U : Unpaired (RR fl))
    (hA : 0 ≤ s2nFl U.a) (hB : 0 ≤ s2nFl U.b) (h : 0 < sumS2nFl U) :
    0 < s2nFl U.a + s2nFl U.b := by
  rcases (add_nonneg hA hB).lt_or_eq with h' | h'
  · exact h'
  · unfold sumS2nFl at h
    rw [← h', fl_zero hfl] at h
    exact absurd h (lt_irrefl _)

/-- **The computed degrees of freedom of two real samples are positive** as soon as the exact
    `sa²/na + sb²/nb` exceeds the error bound `53u·W` of its computed value -/
theorem dofFl_pos_lists (hfl : ∀ x, |fl x - x| ≤ u * |x|) (hu : 0 ≤ u) (as bs : List ℝ)
    (hna : 2 ≤ as.length) (hnb : 2 ≤ bs.length)
    (hs : ((as.length : ℝ) + bs.length) * u ≤ 1 / 1024)
    (hnat : ∀ m : ℕ, m ≤ as.length + bs.length → fl m = m)
    (hpos : 53 * u * (sqTerm as + sqTerm bs) < welchA as + welchA bs) :
    0 < dofFl (ofLists fl as bs) := by
  obtain ⟨hsa, hsb, hnata, hnatb⟩ := split_hyps hu as bs hs hnat
  have hN : (2 : ℝ) ≤ as.length := by exact_mod_cast hna
  have hu' := u_small hu hN hsa
  obtain ⟨c1, c2, c3, c4⟩ := count_hyps (fl := fl) as bs hna hnb hnat
  obtain ⟨h1, h2, h3⟩ := sumS2n_bound hfl hu as bs hna hnb hs hnat
  have hS : 0 < sumS2nFl (ofLists fl as bs) := by
    have := (abs_le.mp h1).1
    linarith
  have hA := s2nFl_nonneg hfl (by linarith) (ofLists fl as bs).a c1
  have hB := s2nFl_nonneg hfl (by linarith) (ofLists fl as bs).b c2
  exact dofFl_pos hfl hu hu' _ (by rw [ofLists_a_count]; exact hna)
    (by rw [ofLists_b_count]; exact hnb) c1 c2 c3 c4 (terms_pos_of_sum_pos hfl _ hA hB hS)

/-- the error of the computed degrees of freedom for relative errors `ε ≤ 1/64` of the two
    computed variance terms: `(5ε + 19u)·(ν + 2)`; the computed value is positive -/
theorem dof_error_rel (hfl : ∀ x, |fl x - x| ≤ u * |x|) (hu : 0 ≤ u) (as bs : List ℝ)
    (hna : 2 ≤ as.length) (hnb : 2 ≤ bs.length)
    (hs : ((as.length : ℝ) + bs.length) * u ≤ 1 / 1024)
    (hnat : ∀ m : ℕ, m ≤ as.length + bs.length → fl m = m) {ε : ℝ} (hε0 : 0 ≤ ε)
    (hε : ε ≤ 1 / 64) (hA : 0 < welchA as) (hB : 0 < welchA bs)
    (hεa : |s2nFl (ofLists fl as bs).a - welchA as| ≤ ε * welchA as)
    (hεb : |s2nFl (ofLists fl as bs).b - welchA bs| ≤ ε * welchA bs) :
    |dofFl (ofLists fl as bs) - welchNu as bs| ≤ (5 * ε + 19 * u) * (welchNu as bs + 2) ∧
    0 < dofFl (ofLists fl as bs) := by
  obtain ⟨hsa, hsb, hnata, hnatb⟩ := split_hyps hu as bs hs hnat
  have hNa : (2 : ℝ) ≤ as.length := by exact_mod_cast hna
  have hNb : (2 : ℝ) ≤ bs.length := by exact_mod_cast hnb
  have hu' := u_small hu hNa hsa
  obtain ⟨c1, c2, c3, c4⟩ := count_hyps (fl := fl) as bs hna hnb hnat
  have hch := dof_chain hfl hu (by linarith) hA.le hB.le (add_pos hA hB)
    (by linarith : (0 : ℝ) < (as.length : ℝ) + 1) (by linarith : (0 : ℝ) < (bs.length : ℝ) + 1)
    (Near.of_rel hA.le hε0 hε hεa) (Near.of_rel hB.le hε0 hε hεb)
  have hge := welchDof_ge _ _ _ _ hNa hNb hA.le hB.le (add_pos hA hB)
  have hm : (2 : ℝ) ≤ min (as.length : ℝ) bs.length := le_min hNa hNb
  have hQ : (welchA as + welchA bs) ^ 2 /
      (welchA as ^ 2 / ((as.length : ℝ) + 1) + welchA bs ^ 2 / ((bs.length : ℝ) + 1)) =
      welchNu as bs + 2 := by
    unfold welchNu welchDof; ring
  rw [hQ] at hch
  have hQ3 : (3 : ℝ) ≤ welchNu as bs + 2 := by
    unfold welchNu; linarith
  obtain ⟨k1, k2, k3⟩ := dof_coeff hu hu' hε0 hε
  have ht := dof_tail hfl hu hu' hQ3 (by positivity) k1 hch
  have hd := dofFl_eq (ofLists fl as bs) c1 c2 c3 c4
  rw [ofLists_a_count, ofLists_b_count] at hd
  rw [hd]
  have hbound : |fl (fl (fl (fl (fl (s2nFl (ofLists fl as bs).a + s2nFl (ofLists fl as bs).b) *
      fl (s2nFl (ofLists fl as bs).a + s2nFl (ofLists fl as bs).b)) /
      fl (fl (fl (s2nFl (ofLists fl as bs).a * s2nFl (ofLists fl as bs).a) / ((as.length : ℝ) + 1))
        + fl (fl (s2nFl (ofLists fl as bs).b * s2nFl (ofLists fl as bs).b) /
          ((bs.length : ℝ) + 1)))) - 1) - 1) - welchNu as bs| ≤
      (5 * ε + 19 * u) * (welchNu as bs + 2) := by
    have e : welchNu as bs = welchNu as bs + 2 - 2 := by ring
    rw [e]
    refine le_trans ht ?_
    have e2 : welchNu as bs + 2 - 2 + 2 = welchNu as bs + 2 := by ring
    rw [e2]
    exact mul_le_mul_of_nonneg_right k2 (by linarith)
  refine ⟨hbound, ?_⟩
  have e : welchNu as bs = welchNu as bs + 2 - 2 := by ring
  rw [e] at hbound
  have e2 : welchNu as bs + 2 - 2 + 2 = welchNu as bs + 2 := by ring
  rw [e2] at hbound
  exact pos_of_tail hQ3 (by positivity) k3 hbound

/-- the relative error of a computed `s²/n` from its conditioning `κ ≥ Σx²/((n − 1)·s²)` -/
theorem s2n_rel (hfl : ∀ x, |fl x - x| ≤ u * |x|) (hu : 0 ≤ u) (xs : List ℝ)
    (hn : 2 ≤ xs.length) (hs : (xs.length : ℝ) * u ≤ 1 / 1024)
    (hnat : ∀ m : ℕ, m ≤ xs.length → fl m = m) {κ : ℝ}
    (hκ : sumSq xs / ((xs.length : ℝ) - 1) ≤ κ * svar xs) :
    |s2nFl (Arith.fromList (xs.map inj) : Arith (RR fl)) - welchA xs| ≤
      51 * u * κ * welchA xs := by
  have hN : (2 : ℝ) ≤ xs.length := by exact_mod_cast hn
  have hN0 : (0 : ℝ) < xs.length := by linarith
  obtain ⟨h1, _, _⟩ := s2n_bound hfl hu xs hn hs hnat
  refine le_trans h1 ?_
  have h2 : sumSq xs / ((xs.length : ℝ) - 1) / xs.length ≤ κ * svar xs / xs.length :=
    div_le_div_of_nonneg_right hκ hN0.le
  have h3 := mul_le_mul_of_nonneg_left h2 (by positivity : (0 : ℝ) ≤ 51 * u)
  have e : 51 * u * (κ * svar xs / xs.length) = 51 * u * κ * welchA xs := by
    unfold welchA; ring
  rw [e] at h3
  exact h3

/-! ## computed standard deviations: not both zero / both zero -/

theorem fl_pos (hfl : ∀ x, |fl x - x| ≤ u * |x|) (hu1 : u < 1) {x : ℝ} (hx : 0 < x) :
    0 < fl x := by
  have h := hfl x
  rw [abs_of_pos hx] at h
  have h1 := (abs_le.mp h).1
  have h2 : u * x < 1 * x := mul_lt_mul_of_pos_right hu1 hx
  linarith

theorem fl_neg (hfl : ∀ x, |fl x - x| ≤ u * |x|) (hu1 : u < 1) {x : ℝ} (hx : x < 0) :
    fl x < 0 := by
  have h := hfl x
  rw [abs_of_neg hx] at h
  have h1 := (abs_le.mp h).2
  have h2 : u * (-x) < 1 * (-x) := mul_lt_mul_of_pos_right hu1 (by linarith)
  linarith

/-- a positive computed standard deviation gives a positive computed `s²/n` (no underflow at
    `RR fl`) -/
theorem s2nFl_pos (hfl : ∀ x, |fl x - x| ≤ u * |x|) (hu1 : u < 1) (a : Arith (RR fl))
    (hc : fl a.count = a.count) (hn : 1 ≤ a.count) (hsd : 0 < a.stdDev.val) : 0 < s2nFl a := by
  have hN : (0 : ℝ) < a.count := by exact_mod_cast hn
  rw [s2nFl_eq, hc]
  apply fl_pos hfl hu1
  apply div_pos _ hN
  apply fl_pos hfl hu1
  exact mul_pos hsd hsd

theorem s2nFl_zero (hfl : ∀ x, |fl x - x| ≤ u * |x|) (a : Arith (RR fl))
    (hsd : a.stdDev.val = 0) : s2nFl a = 0 := by
  rw [s2nFl_eq, hsd, mul_zero, fl_zero hfl, zero_div, fl_zero hfl]

/-- both computed standard deviations zero: the computed degrees of freedom are
    `fl (fl (0/0 − 1) − 1) < 0` (real division, `0/0 = 0`) -/
theorem dofFl_both_zero (hfl : ∀ x, |fl x - x| ≤ u * |x|) (hu1 : u < 1) (U : Unpaired (RR fl))
    (ha : U.a.stdDev.val = 0) (hb : U.b.stdDev.val = 0) :
    dofFl U = fl (fl (-1) - 1) ∧ dofFl U < 0 := by
  have e : dofFl U = fl (fl (-1) - 1) := by
    unfold dofFl
    rw [effectiveDof_fl_val]
    simp only [s2nFl_zero hfl U.a ha, s2nFl_zero hfl U.b hb, add_zero, mul_zero, fl_zero hfl,
      zero_div, zero_sub]
  refine ⟨e, ?_⟩
  rw [e]
  have h1 : fl (-1) < 0 := fl_neg hfl hu1 (by norm_num)
  exact fl_neg hfl hu1 (by linarith)

/-- an inadmissible probability makes `Unpaired.ciMean` panic inside `inverse_cdf` (computed
    degrees of freedom positive) -/
theorem ciMean_fl_ppanic (crit : Crit (RR fl)) (U : Unpaired (RR fl)) (conf : Confidence (RR fl))
    (ha : 2 ≤ U.a.count) (hb : 2 ≤ U.b.count) (hd : 0 < dofClFl U)
    (hp : probOk conf.quantile = false) :
    U.ciMean crit conf = .panic "inverse_cdf" := by
  have hd' : gt (⟨dofClFl U⟩ : RR fl) (zero : RR fl) = true := by simpa using hd
  unfold Unpaired.ciMean
  rw [ciPrep_fl U ha hb, Outcome.bind_ok]
  simp only []
  rw [intervalBounds_panic crit conf _ _ _ hd' hp, Outcome.bind_panic]

/-! ## paired: the reference interval of the rounded against that of the exact differences -/

/-- `x̄ ∓ c·s/√n` of the rounded values against the same of the exact values -/
theorem ref_perturb (hfl : ∀ x, |fl x - x| ≤ u * |x|) (hu : 0 ≤ u) (ds : List ℝ)
    (hn : 2 ≤ ds.length) (c : ℝ) (hc : 0 ≤ c) :
    |(smean (ds.map fl) - c * (ssd (ds.map fl) / Real.sqrt ds.length))
        - (smean ds - c * (ssd ds / Real.sqrt ds.length))| ≤
      u * (sumAbs ds / ds.length)
        + c * (u * Real.sqrt (sumSq ds / ((ds.length : ℝ) - 1)) / Real.sqrt ds.length) ∧
    |(smean (ds.map fl) + c * (ssd (ds.map fl) / Real.sqrt ds.length))
        - (smean ds + c * (ssd ds / Real.sqrt ds.length))| ≤
      u * (sumAbs ds / ds.length)
        + c * (u * Real.sqrt (sumSq ds / ((ds.length : ℝ) - 1)) / Real.sqrt ds.length) := by
  have hN : (2 : ℝ) ≤ ds.length := by exact_mod_cast hn
  have hR : 0 < Real.sqrt ds.length := Real.sqrt_pos.mpr (by linarith)
  have hm := smean_map_fl hfl ds (by omega)
  have hsd := ssd_map_fl hfl hu ds hn
  have h3 : |c * (ssd (ds.map fl) / Real.sqrt ds.length) - c * (ssd ds / Real.sqrt ds.length)| ≤
      c * (u * Real.sqrt (sumSq ds / ((ds.length : ℝ) - 1)) / Real.sqrt ds.length) := by
    have e : c * (ssd (ds.map fl) / Real.sqrt ds.length) - c * (ssd ds / Real.sqrt ds.length) =
        c * ((ssd (ds.map fl) - ssd ds) / Real.sqrt ds.length) := by ring
    rw [e, abs_mul, abs_of_nonneg hc, abs_div, abs_of_pos hR]
    exact mul_le_mul_of_nonneg_left (div_le_div_of_nonneg_right hsd hR.le) hc
  constructor
  · have e : (smean (ds.map fl) - c * (ssd (ds.map fl) / Real.sqrt ds.length))
        - (smean ds - c * (ssd ds / Real.sqrt ds.length)) =
        (smean (ds.map fl) - smean ds) -
        (c * (ssd (ds.map fl) / Real.sqrt ds.length) - c * (ssd ds / Real.sqrt ds.length)) := by
      ring
    rw [e]
    have := abs_sub (smean (ds.map fl) - smean ds)
      (c * (ssd (ds.map fl) / Real.sqrt ds.length) - c * (ssd ds / Real.sqrt ds.length))
    linarith
  · have e : (smean (ds.map fl) + c * (ssd (ds.map fl) / Real.sqrt ds.length))
        - (smean ds + c * (ssd ds / Real.sqrt ds.length)) =
        (smean (ds.map fl) - smean ds) +
        (c * (ssd (ds.map fl) / Real.sqrt ds.length) - c * (ssd ds / Real.sqrt ds.length)) := by
      ring
    rw [e]
    have := abs_add_le (smean (ds.map fl) - smean ds)
      (c * (ssd (ds.map fl) / Real.sqrt ds.length) - c * (ssd ds / Real.sqrt ds.length))
    linarith

/-! ## the effective degrees of freedom: absolute errors of the two variance terms -/

theorem Near.trans {θ₁ θ₂ x y z : ℝ} (h1 : Near θ₁ x y) (h2 : Near θ₂ y z) :
    Near (θ₁ + θ₂) x z := by
  constructor
  · have e : z * Real.exp (-(θ₁ + θ₂)) = (z * Real.exp (-θ₂)) * Real.exp (-θ₁) := by
      rw [neg_add, Real.exp_add]; ring
    rw [e]
    exact le_trans (mul_le_mul_of_nonneg_right h2.1 (Real.exp_pos _).le) h1.1
  · have e : z * Real.exp (θ₁ + θ₂) = (z * Real.exp θ₂) * Real.exp θ₁ := by
      rw [Real.exp_add]; ring
    rw [e]
    exact le_trans h1.2 (mul_le_mul_of_nonneg_right h2.2 (Real.exp_pos _).le)

/-- Cauchy–Schwarz: `(A + B)² ≤ (p + q)·(A²/p + B²/q)` -/
theorem welch_den_ge (A B p q : ℝ) (hp : 0 < p) (hq : 0 < q) :
    (A + B) ^ 2 ≤ (p + q) * (A ^ 2 / p + B ^ 2 / q) := by
  have e : (p + q) * (A ^ 2 / p + B ^ 2 / q) - (A + B) ^ 2 = p * q * (A / p - B / q) ^ 2 := by
    field_simp
    ring
  have : 0 ≤ p * q * (A / p - B / q) ^ 2 := mul_nonneg (mul_nonneg hp.le hq.le) (sq_nonneg _)
  linarith

/-- the denominator `A²/p + B²/q` under absolute errors `ea`, `eb` of `A`, `B` with
    `ea + eb ≤ η·(A + B)`: relative error `((p + q)/m)·(2η + η²)`, `m ≤ p, q` -/
theorem den_perturb {A B Ah Bh ea eb η p q m : ℝ} (hA : 0 ≤ A) (hB : 0 ≤ B)
    (hp : 0 < p) (hq : 0 < q) (hm0 : 0 < m) (hmp : m ≤ p) (hmq : m ≤ q)
    (ha : |Ah - A| ≤ ea) (hb : |Bh - B| ≤ eb) (he : ea + eb ≤ η * (A + B)) (hη : 0 ≤ η) :
    |(Ah ^ 2 / p + Bh ^ 2 / q) - (A ^ 2 / p + B ^ 2 / q)| ≤
      (p + q) / m * (2 * η + η ^ 2) * (A ^ 2 / p + B ^ 2 / q) := by
  have hea : 0 ≤ ea := le_trans (abs_nonneg _) ha
  have heb : 0 ≤ eb := le_trans (abs_nonneg _) hb
  have sqd : ∀ {X Xh e : ℝ}, 0 ≤ X → |Xh - X| ≤ e → |Xh ^ 2 - X ^ 2| ≤ e * (2 * X + e) := by
    intro X Xh e hX h
    have e1 : Xh ^ 2 - X ^ 2 = (Xh - X) * (Xh + X) := by ring
    have h2 : |Xh + X| ≤ 2 * X + e := by
      have e2 : Xh + X = (Xh - X) + 2 * X := by ring
      rw [e2]
      have := abs_add_le (Xh - X) (2 * X)
      rw [abs_of_nonneg (by linarith : (0 : ℝ) ≤ 2 * X)] at this
      linarith
    rw [e1, abs_mul]
    exact mul_le_mul h h2 (abs_nonneg _) (le_trans (abs_nonneg _) h)
  have h1 := sqd hA ha
  have h2 := sqd hB hb
  have d1 : |Ah ^ 2 / p - A ^ 2 / p| ≤ ea * (2 * A + ea) / m := by
    rw [← sub_div, abs_div, abs_of_pos hp]
    refine le_trans (div_le_div_of_nonneg_right h1 hp.le) ?_
    exact div_le_div_of_nonneg_left (by positivity) hm0 hmp
  have d2 : |Bh ^ 2 / q - B ^ 2 / q| ≤ eb * (2 * B + eb) / m := by
    rw [← sub_div, abs_div, abs_of_pos hq]
    refine le_trans (div_le_div_of_nonneg_right h2 hq.le) ?_
    exact div_le_div_of_nonneg_left (by positivity) hm0 hmq
  have hT : 0 ≤ A + B := add_nonneg hA hB
  have h3 : ea * (2 * A + ea) + eb * (2 * B + eb) ≤ (A + B) ^ 2 * (2 * η + η ^ 2) := by
    have a1 : ea * (2 * A + ea) + eb * (2 * B + eb) ≤ (ea + eb) * (2 * (A + B) + (ea + eb)) := by
      have : 0 ≤ ea * (2 * B + eb) + eb * (2 * A + ea) := by positivity
      nlinarith
    have a2 : (ea + eb) * (2 * (A + B) + (ea + eb)) ≤
        (η * (A + B)) * (2 * (A + B) + η * (A + B)) :=
      mul_le_mul he (by linarith) (by positivity) (mul_nonneg hη hT)
    have e : (η * (A + B)) * (2 * (A + B) + η * (A + B)) = (A + B) ^ 2 * (2 * η + η ^ 2) := by ring
    linarith
  have h4 := welch_den_ge A B p q hp hq
  have hc : 0 ≤ 2 * η + η ^ 2 := by positivity
  have h5 : (A + B) ^ 2 * (2 * η + η ^ 2) ≤
      (p + q) * (A ^ 2 / p + B ^ 2 / q) * (2 * η + η ^ 2) := mul_le_mul_of_nonneg_right h4 hc
  have e : (Ah ^ 2 / p + Bh ^ 2 / q) - (A ^ 2 / p + B ^ 2 / q) =
      (Ah ^ 2 / p - A ^ 2 / p) + (Bh ^ 2 / q - B ^ 2 / q) := by ring
  rw [e]
  have t := abs_add_le (Ah ^ 2 / p - A ^ 2 / p) (Bh ^ 2 / q - B ^ 2 / q)
  have e2 : ea * (2 * A + ea) / m + eb * (2 * B + eb) / m =
      (ea * (2 * A + ea) + eb * (2 * B + eb)) / m := by ring
  have h6 : (ea * (2 * A + ea) + eb * (2 * B + eb)) / m ≤
      (p + q) * (A ^ 2 / p + B ^ 2 / q) * (2 * η + η ^ 2) / m :=
    div_le_div_of_nonneg_right (le_trans h3 h5) hm0.le
  have e3 : (p + q) * (A ^ 2 / p + B ^ 2 / q) * (2 * η + η ^ 2) / m =
      (p + q) / m * (2 * η + η ^ 2) * (A ^ 2 / p + B ^ 2 / q) := by ring
  rw [e3] at h6
  linarith

/-- the exact quotient on perturbed non-negative inputs against the exact quotient:
    closeness `(64/63)·(2η + ρ)`, `ρ = ((p + q)/m)·(2η + η²) ≤ 1/64` -/
theorem quot_perturb {A B Ah Bh ea eb η p q m : ℝ} (hA : 0 ≤ A) (hB : 0 ≤ B) (hAB : 0 < A + B)
    (hAh : 0 ≤ Ah) (hBh : 0 ≤ Bh)
    (hp : 0 < p) (hq : 0 < q) (hm0 : 0 < m) (hmp : m ≤ p) (hmq : m ≤ q)
    (ha : |Ah - A| ≤ ea) (hb : |Bh - B| ≤ eb) (he : ea + eb ≤ η * (A + B)) (hη : 0 ≤ η)
    (hρ : (p + q) / m * (2 * η + η ^ 2) ≤ 1 / 64) :
    Near (64 / 63 * η + 64 / 63 * η + 64 / 63 * ((p + q) / m * (2 * η + η ^ 2)))
      ((Ah + Bh) ^ 2 / (Ah ^ 2 / p + Bh ^ 2 / q)) ((A + B) ^ 2 / (A ^ 2 / p + B ^ 2 / q)) ∧
    0 < Ah + Bh := by
  have hr1 : 1 ≤ (p + q) / m := by
    rw [le_div_iff₀ hm0]; linarith
  have hc : 0 ≤ 2 * η + η ^ 2 := by positivity
  have hη' : η ≤ 1 / 64 := by
    have : 1 * (2 * η + η ^ 2) ≤ (p + q) / m * (2 * η + η ^ 2) :=
      mul_le_mul_of_nonneg_right hr1 hc
    nlinarith [sq_nonneg η]
  have hTrel : |(Ah + Bh) - (A + B)| ≤ η * (A + B) := by
    have e : (Ah + Bh) - (A + B) = (Ah - A) + (Bh - B) := by ring
    rw [e]
    have := abs_add_le (Ah - A) (Bh - B)
    linarith
  have hT := Near.of_rel hAB.le hη hη' hTrel
  have hTpos : 0 < Ah + Bh := by
    have := (abs_le.mp hTrel).1
    have : η * (A + B) ≤ 1 / 64 * (A + B) := mul_le_mul_of_nonneg_right hη' hAB.le
    linarith
  have hD0 : 0 < A ^ 2 / p + B ^ 2 / q := by
    have h4 := welch_den_ge A B p q hp hq
    have : 0 < (A + B) ^ 2 := by positivity
    by_contra hneg
    have : (p + q) * (A ^ 2 / p + B ^ 2 / q) ≤ 0 :=
      mul_nonpos_of_nonneg_of_nonpos (by linarith) (not_lt.mp hneg)
    linarith
  have hDrel := den_perturb hA hB hp hq hm0 hmp hmq ha hb he hη
  have hD := Near.of_rel hD0.le (by positivity) hρ hDrel
  have hN := Near.mul hAB.le hAB.le hT hT
  have hQ := Near.div (mul_nonneg hAB.le hAB.le) hD0 hN hD
  rw [pow_two (Ah + Bh), pow_two (A + B)]
  exact ⟨hQ, hTpos⟩

/-- the error of the computed degrees of freedom from the absolute error of the computed
    `sa²/na`, `sb²/nb`: with `η ≥ 51u·W/(sa²/na + sb²/nb)`, `r = (na + nb + 2)/(min(na, nb) + 1)`
    and `ρ = r·(2η + η²) ≤ 1/64`: `((5/4)·(2η + ρ) + 19u)·(ν + 2)`; the computed value is positive.
    One of the two exact variances may be zero. -/
theorem dof_error_abs (hfl : ∀ x, |fl x - x| ≤ u * |x|) (hu : 0 ≤ u) (as bs : List ℝ)
    (hna : 2 ≤ as.length) (hnb : 2 ≤ bs.length)
    (hs : ((as.length : ℝ) + bs.length) * u ≤ 1 / 1024)
    (hnat : ∀ m : ℕ, m ≤ as.length + bs.length → fl m = m) {η : ℝ} (hη0 : 0 ≤ η)
    (hAB : 0 < welchA as + welchA bs)
    (hη : 51 * u * (sqTerm as + sqTerm bs) ≤ η * (welchA as + welchA bs))
    (hρ : ((as.length : ℝ) + bs.length + 2) / (min (as.length : ℝ) bs.length + 1)
      * (2 * η + η ^ 2) ≤ 1 / 64) :
    |dofFl (ofLists fl as bs) - welchNu as bs| ≤
      (5 / 4 * (2 * η + ((as.length : ℝ) + bs.length + 2) / (min (as.length : ℝ) bs.length + 1)
        * (2 * η + η ^ 2)) + 19 * u) * (welchNu as bs + 2) ∧
    0 < dofFl (ofLists fl as bs) := by
  obtain ⟨hsa, hsb, hnata, hnatb⟩ := split_hyps hu as bs hs hnat
  have hNa : (2 : ℝ) ≤ as.length := by exact_mod_cast hna
  have hNb : (2 : ℝ) ≤ bs.length := by exact_mod_cast hnb
  have hu' := u_small hu hNa hsa
  obtain ⟨c1, c2, c3, c4⟩ := count_hyps (fl := fl) as bs hna hnb hnat
  obtain ⟨a1, a2, a3⟩ := s2n_bound hfl hu as hna hsa hnata
  obtain ⟨b1, b2, b3⟩ := s2n_bound hfl hu bs hnb hsb hnatb
  have hA0 := welchA_nonneg as (by omega)
  have hB0 := welchA_nonneg bs (by omega)
  set ρ := ((as.length : ℝ) + bs.length + 2) / (min (as.length : ℝ) bs.length + 1)
      * (2 * η + η ^ 2) with hρdef
  have hm : (2 : ℝ) ≤ min (as.length : ℝ) bs.length := le_min hNa hNb
  have he : 51 * u * sqTerm as + 51 * u * sqTerm bs ≤ η * (welchA as + welchA bs) := by
    have e : 51 * u * sqTerm as + 51 * u * sqTerm bs = 51 * u * (sqTerm as + sqTerm bs) := by ring
    rw [e]; exact hη
  have hρ' : (((as.length : ℝ) + 1) + ((bs.length : ℝ) + 1)) / (min (as.length : ℝ) bs.length + 1)
      * (2 * η + η ^ 2) ≤ 1 / 64 := by
    have e : ((as.length : ℝ) + 1) + ((bs.length : ℝ) + 1) = (as.length : ℝ) + bs.length + 2 := by
      ring
    rw [e]; exact hρ
  obtain ⟨hq, hTpos⟩ := quot_perturb (Ah := s2nFl (ofLists fl as bs).a)
    (Bh := s2nFl (ofLists fl as bs).b) hA0 hB0 hAB
    (by rw [ofLists_a]; exact a2) (by rw [ofLists_b]; exact b2)
    (by linarith : (0 : ℝ) < (as.length : ℝ) + 1) (by linarith : (0 : ℝ) < (bs.length : ℝ) + 1)
    (by linarith : (0 : ℝ) < min (as.length : ℝ) bs.length + 1)
    (by linarith [min_le_left (as.length : ℝ) (bs.length : ℝ)])
    (by linarith [min_le_right (as.length : ℝ) (bs.length : ℝ)])
    (by rw [ofLists_a]; exact a1) (by rw [ofLists_b]; exact b1) he hη0 hρ'
  have e0 : ((as.length : ℝ) + 1) + ((bs.length : ℝ) + 1) = (as.length : ℝ) + bs.length + 2 := by
    ring
  rw [e0, ← hρdef] at hq
  have hAh : 0 ≤ s2nFl (ofLists fl as bs).a := by rw [ofLists_a]; exact a2
  have hBh : 0 ≤ s2nFl (ofLists fl as bs).b := by rw [ofLists_b]; exact b2
  have hch := dof_chain hfl hu (by linarith) hAh hBh hTpos
    (by linarith : (0 : ℝ) < (as.length : ℝ) + 1) (by linarith : (0 : ℝ) < (bs.length : ℝ) + 1)
    (Near.refl _) (Near.refl _)
  have htr := Near.trans hch hq
  have hρ0 : 0 ≤ ρ := by
    rw [hρdef]
    have : (0 : ℝ) < min (as.length : ℝ) bs.length + 1 := by linarith
    positivity
  -- `2η ≤ ρ/2`, so `ε := (2η + ρ)/4 ≤ 1/64`
  have hr2 : 2 ≤ ((as.length : ℝ) + bs.length + 2) / (min (as.length : ℝ) bs.length + 1) := by
    rw [le_div_iff₀ (by linarith)]
    have h1 := min_le_left (as.length : ℝ) (bs.length : ℝ)
    have h2 := min_le_right (as.length : ℝ) (bs.length : ℝ)
    linarith
  have h2η : 4 * η ≤ ρ := by
    have hc : 0 ≤ 2 * η + η ^ 2 := by positivity
    have : 2 * (2 * η + η ^ 2) ≤ ρ := by
      rw [hρdef]; exact mul_le_mul_of_nonneg_right hr2 hc
    nlinarith [sq_nonneg η]
  have hε0 : 0 ≤ (2 * η + ρ) / 4 := by positivity
  have hε : (2 * η + ρ) / 4 ≤ 1 / 64 := by linarith
  have eτ : 4 * 0 + 14 * u + (64 / 63 * η + 64 / 63 * η + 64 / 63 * ρ) =
      4 * (64 / 63 * ((2 * η + ρ) / 4)) + 14 * u := by ring
  rw [eτ] at htr
  have hQ : (welchA as + welchA bs) ^ 2 /
      (welchA as ^ 2 / ((as.length : ℝ) + 1) + welchA bs ^ 2 / ((bs.length : ℝ) + 1)) =
      welchNu as bs + 2 := by
    unfold welchNu welchDof; ring
  rw [hQ] at htr
  have hge := welchDof_ge _ _ _ _ hNa hNb hA0 hB0 hAB
  have hQ3 : (3 : ℝ) ≤ welchNu as bs + 2 := by
    unfold welchNu; linarith
  obtain ⟨k1, k2, k3⟩ := dof_coeff hu hu' hε0 hε
  have ht := dof_tail hfl hu hu' hQ3 (by positivity) k1 htr
  have hd := dofFl_eq (ofLists fl as bs) c1 c2 c3 c4
  rw [ofLists_a_count, ofLists_b_count] at hd
  rw [hd]
  have e1 : welchNu as bs = welchNu as bs + 2 - 2 := by ring
  have e2 : welchNu as bs + 2 - 2 + 2 = welchNu as bs + 2 := by ring
  have e3 : 5 / 4 * (2 * η + ρ) + 19 * u = 5 * ((2 * η + ρ) / 4) + 19 * u := by ring
  have hbound : |fl (fl (fl (fl (fl (s2nFl (ofLists fl as bs).a + s2nFl (ofLists fl as bs).b) *
      fl (s2nFl (ofLists fl as bs).a + s2nFl (ofLists fl as bs).b)) /
      fl (fl (fl (s2nFl (ofLists fl as bs).a * s2nFl (ofLists fl as bs).a) / ((as.length : ℝ) + 1))
        + fl (fl (s2nFl (ofLists fl as bs).b * s2nFl (ofLists fl as bs).b) /
          ((bs.length : ℝ) + 1)))) - 1) - 1) - (welchNu as bs + 2 - 2)| ≤
      (5 * ((2 * η + ρ) / 4) + 19 * u) * (welchNu as bs + 2) :=
    le_trans ht (mul_le_mul_of_nonneg_right k2 (by linarith))
  constructor
  · rw [e3]
    rw [← e1] at hbound
    exact hbound
  · exact pos_of_tail hQ3 (by positivity) k3 hbound

/-! ## the lower bound `fl (min (fl na) (fl nb) − 1)` of the degrees of freedom handed on -/

theorem clampFl_le_dofClFl (U : Unpaired (RR fl)) :
    fl (min (fl U.a.count) (fl U.b.count) - 1) ≤ dofClFl U := by
  rw [dofClFl_eq]; exact le_max_right _ _

theorem dofClFl_pos_of_dofFl_pos (U : Unpaired (RR fl)) (h : 0 < dofFl U) : 0 < dofClFl U :=
  lt_of_lt_of_le h (dofFl_le_dofClFl U)

/-- for `u < 1/2` a count `≥ 2` rounds to more than `1` -/
theorem fl_count_gt_one (hfl : ∀ x, |fl x - x| ≤ u * |x|) (hu : u < 1 / 2) (n : ℕ) (hn : 2 ≤ n) :
    1 < fl (n : ℝ) := by
  have hN : (2 : ℝ) ≤ n := by exact_mod_cast hn
  have h := hfl n
  rw [abs_of_nonneg (by linarith : (0 : ℝ) ≤ n)] at h
  have h1 := (abs_le.mp h).1
  have h2 : u * n < 1 / 2 * n := mul_lt_mul_of_pos_right hu (by linarith)
  linarith

/-- **the computed lower bound is positive at every `fl` with `u < 1/2`** and counts `≥ 2` -/
theorem clampFl_pos (hfl : ∀ x, |fl x - x| ≤ u * |x|) (hu : u < 1 / 2) (U : Unpaired (RR fl))
    (hna : 2 ≤ U.a.count) (hnb : 2 ≤ U.b.count) :
    0 < fl (min (fl U.a.count) (fl U.b.count) - 1) := by
  apply fl_pos hfl (by linarith)
  have := lt_min (fl_count_gt_one hfl hu _ hna) (fl_count_gt_one hfl hu _ hnb)
  linarith

/-- **the degrees of freedom handed on are positive at every `fl` with `u < 1/2`** -/
theorem dofClFl_pos (hfl : ∀ x, |fl x - x| ≤ u * |x|) (hu : u < 1 / 2) (U : Unpaired (RR fl))
    (hna : 2 ≤ U.a.count) (hnb : 2 ≤ U.b.count) : 0 < dofClFl U :=
  lt_of_lt_of_le (clampFl_pos hfl hu U hna hnb) (clampFl_le_dofClFl U)

/-- `fl` exact on the two counts and on `min(na, nb) − 1`: the clamp is the exact one -/
theorem dofClFl_exact (U : Unpaired (RR fl)) (ha : fl U.a.count = U.a.count)
    (hb : fl U.b.count = U.b.count)
    (hm : fl (min (U.a.count : ℝ) U.b.count - 1) = min (U.a.count : ℝ) U.b.count - 1) :
    dofClFl U = max (dofFl U) (min (U.a.count : ℝ) U.b.count - 1) := by
  rw [dofClFl_eq, ha, hb, hm]

/-- … and then the degrees of freedom handed on are at least `min(na, nb) − 1 ≥ 1`, whatever
    the computed `dofFl` (no hypothesis on the error of `fl`) -/
theorem dofClFl_ge_of_exact (U : Unpaired (RR fl)) (hna : 2 ≤ U.a.count) (hnb : 2 ≤ U.b.count)
    (ha : fl U.a.count = U.a.count) (hb : fl U.b.count = U.b.count)
    (hm : fl (min (U.a.count : ℝ) U.b.count - 1) = min (U.a.count : ℝ) U.b.count - 1) :
    min (U.a.count : ℝ) U.b.count - 1 ≤ dofClFl U ∧ 1 ≤ dofClFl U := by
  have hNa : (2 : ℝ) ≤ U.a.count := by exact_mod_cast hna
  have hNb : (2 : ℝ) ≤ U.b.count := by exact_mod_cast hnb
  have h : min (U.a.count : ℝ) U.b.count - 1 ≤ dofClFl U := by
    rw [dofClFl_exact U ha hb hm]; exact le_max_right _ _
  have := le_min hNa hNb
  exact ⟨h, by linarith⟩

/-- `max` is 1-Lipschitz: the degrees of freedom handed on against the exact clamped value -/
theorem dofClFl_sub_clampedDof_le (U : Unpaired (RR fl)) (A B : ℝ) :
    |dofClFl U - clampedDof A B U.a.count U.b.count| ≤
      max |dofFl U - welchDof A B U.a.count U.b.count|
        |fl (min (fl U.a.count) (fl U.b.count) - 1) - (min (U.a.count : ℝ) U.b.count - 1)| := by
  rw [dofClFl_eq, clampedDof]
  exact abs_max_sub_max_le_max _ _ _ _

/-- two real samples, `fl` exact on the natural numbers up to `na + nb`: the computed lower
    bound is the exact `min(na, nb) − 1` -/
theorem clampFl_lists (as bs : List ℝ) (hna : 2 ≤ as.length) (hnb : 2 ≤ bs.length)
    (hnat : ∀ m : ℕ, m ≤ as.length + bs.length → fl m = m) :
    fl (min (fl (ofLists fl as bs).a.count) (fl (ofLists fl as bs).b.count) - 1) =
      min (as.length : ℝ) bs.length - 1 := by
  rw [ofLists_a_count, ofLists_b_count, hnat _ (by omega), hnat _ (by omega)]
  have h1 : 1 ≤ min as.length bs.length := by
    rw [Nat.le_min]; omega
  have e : min (as.length : ℝ) bs.length - 1 = ((min as.length bs.length - 1 : ℕ) : ℝ) := by
    rw [Nat.cast_sub h1, Nat.cast_min]; simp
  rw [e]
  apply hnat
  have := Nat.min_le_left as.length bs.length
  omega

/-- two real samples: the degrees of freedom handed on are `max (dofFl) (min(na, nb) − 1) ≥ 1` -/
theorem dofClFl_lists (as bs : List ℝ) (hna : 2 ≤ as.length) (hnb : 2 ≤ bs.length)
    (hnat : ∀ m : ℕ, m ≤ as.length + bs.length → fl m = m) :
    dofClFl (ofLists fl as bs) =
      max (dofFl (ofLists fl as bs)) (min (as.length : ℝ) bs.length - 1) ∧
    min (as.length : ℝ) bs.length - 1 ≤ dofClFl (ofLists fl as bs) ∧
    1 ≤ dofClFl (ofLists fl as bs) := by
  have hNa : (2 : ℝ) ≤ as.length := by exact_mod_cast hna
  have hNb : (2 : ℝ) ≤ bs.length := by exact_mod_cast hnb
  have e : dofClFl (ofLists fl as bs) =
      max (dofFl (ofLists fl as bs)) (min (as.length : ℝ) bs.length - 1) := by
    rw [dofClFl_eq, clampFl_lists as bs hna hnb hnat]
  have h : min (as.length : ℝ) bs.length - 1 ≤ dofClFl (ofLists fl as bs) := by
    rw [e]; exact le_max_right _ _
  have := le_min hNa hNb
  exact ⟨e, h, by linarith⟩

/-- two real samples: the error of the degrees of freedom handed on against the exact clamped
    value is at most that of the unclamped computed value against the exact `ν` -/
theorem dofClFl_error_lists (as bs : List ℝ) (hna : 2 ≤ as.length) (hnb : 2 ≤ bs.length)
    (hnat : ∀ m : ℕ, m ≤ as.length + bs.length → fl m = m) :
    |dofClFl (ofLists fl as bs) - clampedDof (welchA as) (welchA bs) as.length bs.length| ≤
      |dofFl (ofLists fl as bs) - welchNu as bs| := by
  have h := dofClFl_sub_clampedDof_le (ofLists fl as bs) (welchA as) (welchA bs)
  rw [clampFl_lists as bs hna hnb hnat, ofLists_a_count, ofLists_b_count, sub_self, abs_zero,
    max_eq_left (abs_nonneg _)] at h
  exact h

/-- … and against `ν` itself when not both exact variance terms vanish (the exact clamp is then
    inactive, C04 `unpaired_dof_clamped`) -/
theorem dofClFl_error_lists_nu (as bs : List ℝ) (hna : 2 ≤ as.length) (hnb : 2 ≤ bs.length)
    (hnat : ∀ m : ℕ, m ≤ as.length + bs.length → fl m = m)
    (hAB : 0 < welchA as + welchA bs) :
    |dofClFl (ofLists fl as bs) - welchNu as bs| ≤ |dofFl (ofLists fl as bs) - welchNu as bs| := by
  have h := dofClFl_error_lists as bs hna hnb hnat
  rw [clampedDof_eq _ _ _ _ (by exact_mod_cast hna) (by exact_mod_cast hnb)
    (welchA_nonneg as (by omega)) (welchA_nonneg bs (by omega)) hAB] at h
  exact h

/-- both computed standard deviations zero: the computed `sa²/na + sb²/nb` and the computed
    standard error are zero -/
theorem seFl_both_zero (hfl : ∀ x, |fl x - x| ≤ u * |x|) (U : Unpaired (RR fl))
    (ha : U.a.stdDev.val = 0) (hb : U.b.stdDev.val = 0) : sumS2nFl U = 0 ∧ seFl U = 0 := by
  have e : sumS2nFl U = 0 := by
    unfold sumS2nFl
    rw [s2nFl_zero hfl U.a ha, s2nFl_zero hfl U.b hb, add_zero, fl_zero hfl]
  refine ⟨e, ?_⟩
  unfold seFl
  rw [e, Real.sqrt_zero, fl_zero hfl]

/-- both computed standard deviations zero: the degrees of freedom handed on are the computed
    lower bound -/
theorem dofClFl_both_zero (hfl : ∀ x, |fl x - x| ≤ u * |x|) (hu1 : u < 1) (U : Unpaired (RR fl))
    (ha : U.a.stdDev.val = 0) (hb : U.b.stdDev.val = 0)
    (hpos : 0 ≤ fl (min (fl U.a.count) (fl U.b.count) - 1)) :
    dofClFl U = fl (min (fl U.a.count) (fl U.b.count) - 1) := by
  rw [dofClFl_eq]
  exact max_eq_right (le_trans (dofFl_both_zero hfl hu1 U ha hb).2.le hpos)

end StatsCI.UnpairedRound
