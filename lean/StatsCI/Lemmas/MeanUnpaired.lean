/-
  StatsCI.Lemmas.MeanUnpaired — the Welch degrees of freedom as a real function, its lower bound,
  and `Unpaired::ci_mean` at exact arithmetic.
-/
import StatsCI.Lemmas.MeanExact

set_option linter.unusedSectionVars false

namespace StatsCI.MeanLemmas
open StatsCI NumOps Scalar

/-- the crate's effective degrees of freedom `(A+B)²/(A²/(na+1) + B²/(nb+1)) - 2` -/
noncomputable def welchDof (A B na nb : ℝ) : ℝ :=
  (A + B) ^ 2 / (A ^ 2 / (na + 1) + B ^ 2 / (nb + 1)) - 2

theorem effectiveDof_val (A B na nb : Rex) :
    (Unpaired.effectiveDof A B na nb).val = welchDof A.val B.val na.val nb.val := by
  simp only [Unpaired.effectiveDof, welchDof, RR.sub_val, RR.div_val, RR.mul_val, RR.add_val,
    RR.one_val, id_eq]
  ring

/-- `ν ≥ min(na, nb) - 1` as soon as one of the two variance terms is positive -/
theorem welchDof_ge (A B na nb : ℝ) (hna : 2 ≤ na) (hnb : 2 ≤ nb) (hA : 0 ≤ A) (hB : 0 ≤ B)
    (hAB : 0 < A + B) : min na nb - 1 ≤ welchDof A B na nb := by
  have hm1 : min na nb ≤ na := min_le_left _ _
  have hm2 : min na nb ≤ nb := min_le_right _ _
  have hm0 : 2 ≤ min na nb := le_min hna hnb
  have hna1 : 0 < na + 1 := by linarith
  have hnb1 : 0 < nb + 1 := by linarith
  have hD : 0 < A ^ 2 / (na + 1) + B ^ 2 / (nb + 1) := by
    rcases lt_or_eq_of_le hA with h | h
    · have : 0 < A ^ 2 / (na + 1) := div_pos (by positivity) hna1
      have : 0 ≤ B ^ 2 / (nb + 1) := div_nonneg (by positivity) hnb1.le
      linarith
    · have hB' : 0 < B := by rw [← h] at hAB; linarith
      have : 0 ≤ A ^ 2 / (na + 1) := div_nonneg (by positivity) hna1.le
      have : 0 < B ^ 2 / (nb + 1) := div_pos (by positivity) hnb1
      linarith
  have h1 : (min na nb + 1) * (A ^ 2 / (na + 1)) ≤ A ^ 2 := by
    rw [← mul_div_assoc, div_le_iff₀ hna1]
    nlinarith [sq_nonneg A]
  have h2 : (min na nb + 1) * (B ^ 2 / (nb + 1)) ≤ B ^ 2 := by
    rw [← mul_div_assoc, div_le_iff₀ hnb1]
    nlinarith [sq_nonneg B]
  have h3 : min na nb + 1 ≤ (A + B) ^ 2 / (A ^ 2 / (na + 1) + B ^ 2 / (nb + 1)) := by
    rw [le_div_iff₀ hD]
    nlinarith [mul_nonneg hA hB]
  unfold welchDof
  linarith

theorem welchDof_zero (na nb : ℝ) : welchDof 0 0 na nb = -2 := by
  simp [welchDof]

/-- the degrees of freedom `Unpaired::ci_mean` hands on: the documented expression, not below
    `min(na, nb) - 1` (the lower bound the crate applies to the computed value) -/
noncomputable def clampedDof (A B na nb : ℝ) : ℝ := max (welchDof A B na nb) (min na nb - 1)

/-- in exact arithmetic the bound is inactive as soon as one of the variance terms is positive -/
theorem clampedDof_eq (A B na nb : ℝ) (hna : 2 ≤ na) (hnb : 2 ≤ nb) (hA : 0 ≤ A) (hB : 0 ≤ B)
    (hAB : 0 < A + B) : clampedDof A B na nb = welchDof A B na nb :=
  max_eq_left (welchDof_ge A B na nb hna hnb hA hB hAB)

/-- the degrees of freedom handed on are at least `min(na, nb) - 1 ≥ 1` whatever the data -/
theorem clampedDof_ge (A B na nb : ℝ) (hna : 2 ≤ na) (hnb : 2 ≤ nb) :
    min na nb - 1 ≤ clampedDof A B na nb ∧ 1 ≤ clampedDof A B na nb := by
  have h : min na nb - 1 ≤ clampedDof A B na nb := le_max_right _ _
  have : 2 ≤ min na nb := le_min hna hnb
  exact ⟨h, by linarith⟩

/-- two constant samples: the expression is `0/0 - 2 = -2` on the reals, the bound takes over -/
theorem clampedDof_zero (na nb : ℝ) (hna : 2 ≤ na) (hnb : 2 ≤ nb) :
    clampedDof 0 0 na nb = min na nb - 1 := by
  have : 2 ≤ min na nb := le_min hna hnb
  rw [clampedDof, welchDof_zero]
  exact max_eq_right (by linarith)

/-- statistics handed to `interval_bounds` by `Unpaired::ci_mean`, exact arithmetic -/
theorem Unpaired.ciPrep_rex (u : Unpaired Rex) (ha : 2 ≤ u.a.count) (hb : 2 ≤ u.b.count)
    (A B : ℝ) (hA : u.a.stdDev.val * u.a.stdDev.val / u.a.count = A)
    (hB : u.b.stdDev.val * u.b.stdDev.val / u.b.count = B) :
    (Unpaired.ciPrep u : Outcome (Err Rex) (Arith.Prep Rex)) =
      .ok ⟨⟨u.a.mean.val - u.b.mean.val⟩, ⟨Real.sqrt (A + B)⟩,
        ⟨clampedDof A B u.a.count u.b.count⟩⟩ := by
  have ha' : ¬ u.a.count < 2 := by omega
  have hb' : ¬ u.b.count < 2 := by omega
  unfold Unpaired.ciPrep
  simp only [ha', hb', if_false, RR.isFinite_eq, Bool.not_true, Bool.or_self, Bool.false_eq_true,
    RR.up_eq]
  congr 1
  congr 1
  · apply RR.ext'
    simp only [RR.sqrt_val, RR.add_val, RR.div_val, RR.mul_val, RR.ofNat_val, id_eq, hA, hB]
  · apply RR.ext'
    simp only [Unpaired.clampDof_val, effectiveDof_val, RR.div_val, RR.mul_val, RR.ofNat_val, id_eq,
      hA, hB, clampedDof]

/-- `Unpaired::ci_mean` at exact arithmetic, every pair of samples of sizes `≥ 2`: the critical value is
    requested at the clamped degrees of freedom, which are `≥ 1` -/
theorem Unpaired.ciMean_rex_clamped (crit : Crit Rex) (u : Unpaired Rex) (conf : Confidence Rex)
    (ha : 2 ≤ u.a.count) (hb : 2 ≤ u.b.count) (hp : probOk conf.quantile = true)
    (A B : ℝ) (hA : u.a.stdDev.val * u.a.stdDev.val / u.a.count = A)
    (hB : u.b.stdDev.val * u.b.stdDev.val / u.b.count = B) :
    u.ciMean crit conf =
      intervalOfKind conf
        (⟨(u.a.mean.val - u.b.mean.val) -
          (crit (critReq conf ⟨clampedDof A B u.a.count u.b.count⟩)).val * Real.sqrt (A + B)⟩ : Rex)
        ⟨(u.a.mean.val - u.b.mean.val) +
          (crit (critReq conf ⟨clampedDof A B u.a.count u.b.count⟩)).val * Real.sqrt (A + B)⟩ := by
  have hna : (2 : ℝ) ≤ u.a.count := by exact_mod_cast ha
  have hnb : (2 : ℝ) ≤ u.b.count := by exact_mod_cast hb
  have hd : 0 < clampedDof A B u.a.count u.b.count :=
    lt_of_lt_of_le one_pos (clampedDof_ge A B _ _ hna hnb).2
  have hd' : gt (⟨clampedDof A B u.a.count u.b.count⟩ : Rex) (zero : Rex) = true := by
    simpa using hd
  unfold Unpaired.ciMean
  rw [Unpaired.ciPrep_rex u ha hb A B hA hB, Outcome.bind_ok]
  simp only []
  rw [intervalBounds_eq crit conf _ _ _ hd' hp, Outcome.bind_ok]
  rfl

/-- `Unpaired::ci_mean` at exact arithmetic when the effective degrees of freedom are positive -/
theorem Unpaired.ciMean_rex (crit : Crit Rex) (u : Unpaired Rex) (conf : Confidence Rex)
    (ha : 2 ≤ u.a.count) (hb : 2 ≤ u.b.count) (hp : probOk conf.quantile = true)
    (A B : ℝ) (hA : u.a.stdDev.val * u.a.stdDev.val / u.a.count = A)
    (hB : u.b.stdDev.val * u.b.stdDev.val / u.b.count = B)
    (hd : 0 < welchDof A B u.a.count u.b.count) :
    u.ciMean crit conf =
      intervalOfKind conf
        (⟨(u.a.mean.val - u.b.mean.val) -
          (crit (critReq conf ⟨welchDof A B u.a.count u.b.count⟩)).val * Real.sqrt (A + B)⟩ : Rex)
        ⟨(u.a.mean.val - u.b.mean.val) +
          (crit (critReq conf ⟨welchDof A B u.a.count u.b.count⟩)).val * Real.sqrt (A + B)⟩ := by
  have hna : (2 : ℝ) ≤ u.a.count := by exact_mod_cast ha
  have hnb : (2 : ℝ) ≤ u.b.count := by exact_mod_cast hb
  have hca : (0 : ℝ) < u.a.count := by linarith
  have hcb : (0 : ℝ) < u.b.count := by linarith
  have hA0 : 0 ≤ A := by rw [← hA]; exact div_nonneg (mul_self_nonneg _) hca.le
  have hB0 : 0 ≤ B := by rw [← hB]; exact div_nonneg (mul_self_nonneg _) hcb.le
  have hAB : 0 < A + B := by
    rcases (add_nonneg hA0 hB0).lt_or_eq with h | h
    · exact h
    · have hA' : A = 0 := by linarith
      have hB' : B = 0 := by linarith
      rw [hA', hB', welchDof_zero] at hd
      linarith
  rw [Unpaired.ciMean_rex_clamped crit u conf ha hb hp A B hA hB,
    clampedDof_eq A B _ _ hna hnb hA0 hB0 hAB]

theorem ssd_mul_self (xs : List ℝ) (hn : 1 ≤ xs.length) : ssd xs * ssd xs = svar xs :=
  Real.mul_self_sqrt (svar_nonneg xs hn)

/-- the constructor of the kind applied to `m ∓ h`, exact arithmetic: `Interval::new` rejects
    exactly when `h < 0` -/
theorem intervalOfKind_pm (conf : Confidence Rex) (m h : ℝ) :
    intervalOfKind (W := Rex) conf (⟨m - h⟩ : Rex) ⟨m + h⟩ =
      match conf with
      | .twoSided _ =>
        if 0 ≤ h then .ok (.twoSided (⟨m - h⟩ : Rex) ⟨m + h⟩) else .err (.interval .invalidBounds)
      | .upper _ => .ok (.upper (⟨m - h⟩ : Rex))
      | .lower _ => .ok (.lower (⟨m + h⟩ : Rex)) := by
  cases conf with
  | twoSided l =>
    simp only [intervalOfKind, Interval.new]
    by_cases hh : 0 ≤ h
    · have : gt (⟨m - h⟩ : Rex) ⟨m + h⟩ = false := by
        rw [Bool.eq_false_iff, Ne, RR.gt_iff]; simp only [not_lt]; linarith
      simp [this, hh, liftI]
    · have : gt (⟨m - h⟩ : Rex) ⟨m + h⟩ = true := by
        rw [RR.gt_iff]; simp only; linarith [not_le.mp hh]
      simp [this, hh, liftI]
  | upper l => rfl
  | lower l => rfl

/-! ### real data -/

/-- `s² / n` of a sample -/
noncomputable def welchA (xs : List ℝ) : ℝ := svar xs / xs.length

/-- effective degrees of freedom of two samples -/
noncomputable def welchNu (as bs : List ℝ) : ℝ :=
  welchDof (welchA as) (welchA bs) as.length bs.length

/-- half-width `c · √(sa²/na + sb²/nb)` with `c` the answer to the request at `ν` -/
noncomputable def welchHalf (crit : Crit Rex) (conf : Confidence Rex) (as bs : List ℝ) : ℝ :=
  (crit (critReq conf ⟨welchNu as bs⟩)).val * Real.sqrt (welchA as + welchA bs)

theorem welchA_nonneg (xs : List ℝ) (hn : 1 ≤ xs.length) : 0 ≤ welchA xs :=
  div_nonneg (svar_nonneg xs hn) (Nat.cast_nonneg _)

theorem welchA_pos (xs : List ℝ) (hn : 1 ≤ xs.length) (h : 0 < svar xs) : 0 < welchA xs :=
  div_pos h (by exact_mod_cast hn)

theorem Unpaired.fromLists_a {F : Type} [Scalar F] (xs ys : List F) :
    (Unpaired.fromLists xs ys).a = Arith.fromList xs := rfl
theorem Unpaired.fromLists_b {F : Type} [Scalar F] (xs ys : List F) :
    (Unpaired.fromLists xs ys).b = Arith.fromList ys := rfl

theorem fromList_welchA (xs : List ℝ) (hn : 2 ≤ xs.length) :
    (Arith.fromList (xs.map inj) : Arith Rex).stdDev.val *
      (Arith.fromList (xs.map inj) : Arith Rex).stdDev.val /
        ((Arith.fromList (xs.map inj) : Arith Rex).count : ℝ) = welchA xs := by
  rw [Arith.fromList_stdDev xs hn, ssd_mul_self xs (by omega), Arith.fromList_count,
    List.length_map, welchA]

/-- `Unpaired::ci` of real data when the effective degrees of freedom are positive -/
theorem Unpaired.ci_rex (crit : Crit Rex) (conf : Confidence Rex) (as bs : List ℝ)
    (hna : 2 ≤ as.length) (hnb : 2 ≤ bs.length) (hp : probOk conf.quantile = true)
    (hd : 0 < welchNu as bs) :
    Unpaired.ci crit conf (as.map inj) (bs.map inj) =
      intervalOfKind conf (⟨(smean as - smean bs) - welchHalf crit conf as bs⟩ : Rex)
        ⟨(smean as - smean bs) + welchHalf crit conf as bs⟩ := by
  have hca : (Arith.fromList (as.map inj) : Arith Rex).count = as.length := by
    simp [Arith.fromList_count]
  have hcb : (Arith.fromList (bs.map inj) : Arith Rex).count = bs.length := by
    simp [Arith.fromList_count]
  have hu : (Unpaired.fromLists (as.map inj) (bs.map inj) : Unpaired Rex) =
      ⟨Arith.fromList (as.map inj), Arith.fromList (bs.map inj)⟩ := rfl
  unfold Unpaired.ci
  rw [hu]
  have h := Unpaired.ciMean_rex crit
    (⟨Arith.fromList (as.map inj), Arith.fromList (bs.map inj)⟩ : Unpaired Rex) conf
    (by simp only [hca]; exact hna) (by simp only [hcb]; exact hnb) hp (welchA as) (welchA bs)
    (by simp only []; exact fromList_welchA as hna) (by simp only []; exact fromList_welchA bs hnb)
    (by simp only [hca, hcb]; exact hd)
  simp only [hca, hcb, Arith.fromList_mean] at h
  exact h

/-- `Unpaired::ci` of two constant samples: the degrees of freedom are the lower bound
    `min(na, nb) - 1`, the standard error is zero and both bounds are the difference of the means -/
theorem Unpaired.ci_rex_const (crit : Crit Rex) (conf : Confidence Rex) (as bs : List ℝ)
    (hna : 2 ≤ as.length) (hnb : 2 ≤ bs.length) (hp : probOk conf.quantile = true)
    (hva : svar as = 0) (hvb : svar bs = 0) :
    Unpaired.ci crit conf (as.map inj) (bs.map inj) =
      intervalOfKind conf (⟨smean as - smean bs⟩ : Rex) ⟨smean as - smean bs⟩ := by
  have hca : (Arith.fromList (as.map inj) : Arith Rex).count = as.length := by
    simp [Arith.fromList_count]
  have hcb : (Arith.fromList (bs.map inj) : Arith Rex).count = bs.length := by
    simp [Arith.fromList_count]
  have hu : (Unpaired.fromLists (as.map inj) (bs.map inj) : Unpaired Rex) =
      ⟨Arith.fromList (as.map inj), Arith.fromList (bs.map inj)⟩ := rfl
  have hA : welchA as = 0 := by simp [welchA, hva]
  have hB : welchA bs = 0 := by simp [welchA, hvb]
  unfold Unpaired.ci
  rw [hu]
  have h := Unpaired.ciMean_rex_clamped crit
    (⟨Arith.fromList (as.map inj), Arith.fromList (bs.map inj)⟩ : Unpaired Rex) conf
    (by simp only [hca]; exact hna) (by simp only [hcb]; exact hnb) hp (welchA as) (welchA bs)
    (by simp only []; exact fromList_welchA as hna) (by simp only []; exact fromList_welchA bs hnb)
  simp only [hca, hcb, Arith.fromList_mean, hA, hB, add_zero, Real.sqrt_zero, mul_zero, sub_zero] at h
  exact h

end StatsCI.MeanLemmas
