/-
  The binomial distribution as far as the coverage theorems of C12 need it: the probability mass
  function sums to one, its variance about `p` (in units of `k/n`) is `p(1−p)/n`, and hence
  (Chebyshev) the outcomes `k` with `(p − k/n)² ≤ z² p(1−p)/n` carry mass at least `1 − 1/z²`.
  The first two facts are Mathlib's `bernstein.probability` and `bernstein.variance`.
-/
import Mathlib.Analysis.SpecialFunctions.Bernstein
import Mathlib.Analysis.SpecialFunctions.Sqrt

namespace StatsCI.Binomial
open Finset

/-- probability of `k` successes among `n` independent trials of success probability `p` -/
noncomputable def pmf (n k : ℕ) (p : ℝ) : ℝ := n.choose k * p ^ k * (1 - p) ^ (n - k)

theorem pmf_nonneg (n k : ℕ) {p : ℝ} (h0 : 0 ≤ p) (h1 : p ≤ 1) : 0 ≤ pmf n k p := by
  unfold pmf
  have : 0 ≤ 1 - p := by linarith
  positivity

theorem pmf_eq_bernstein (n k : ℕ) (p : ℝ) (hp : p ∈ Set.Icc (0 : ℝ) 1) :
    pmf n k p = bernstein n k ⟨p, hp⟩ := by
  rw [bernstein_apply]; rfl

/-- total mass one -/
theorem pmf_sum (n : ℕ) {p : ℝ} (h0 : 0 ≤ p) (h1 : p ≤ 1) :
    ∑ k ∈ range (n + 1), pmf n k p = 1 := by
  have hp : p ∈ Set.Icc (0 : ℝ) 1 := ⟨h0, h1⟩
  have := bernstein.probability n ⟨p, hp⟩
  rw [← this, Finset.sum_range]
  exact Finset.sum_congr rfl (fun k _ => pmf_eq_bernstein n k p hp)

/-- variance of `k/n` about `p` -/
theorem pmf_variance (n : ℕ) (hn : n ≠ 0) {p : ℝ} (h0 : 0 ≤ p) (h1 : p ≤ 1) :
    ∑ k ∈ range (n + 1), (p - k / n) ^ 2 * pmf n k p = p * (1 - p) / n := by
  have hp : p ∈ Set.Icc (0 : ℝ) 1 := ⟨h0, h1⟩
  have := bernstein.variance hn ⟨p, hp⟩
  rw [← this, Finset.sum_range]
  refine Finset.sum_congr rfl (fun k _ => ?_)
  rw [pmf_eq_bernstein n k p hp]
  simp [bernstein.z]

/-- **Chebyshev for the binomial distribution**: for every `n ≥ 1`, `p ∈ [0,1]` and `z > 0`, the
    outcomes accepted by the score test at `p` carry probability at least `1 − 1/z²`. -/
theorem score_region_mass (n : ℕ) (hn : n ≠ 0) {p z : ℝ} (h0 : 0 ≤ p) (h1 : p ≤ 1) (hz : 0 < z) :
    1 - 1 / z ^ 2 ≤ ∑ k ∈ range (n + 1),
      pmf n k p * (if (p - k / n) ^ 2 ≤ z ^ 2 * (p * (1 - p)) / n then 1 else 0) := by
  set v : ℝ := p * (1 - p) / n with hv
  have hn' : (0 : ℝ) < n := by exact_mod_cast Nat.pos_of_ne_zero hn
  have hv0 : 0 ≤ v := by
    have : 0 ≤ 1 - p := by linarith
    positivity
  have hcond : z ^ 2 * (p * (1 - p)) / n = z ^ 2 * v := by
    rw [hv]; ring
  simp only [hcond]
  have hsum := pmf_sum n h0 h1
  have hvar := pmf_variance n hn h0 h1
  rw [← hv] at hvar
  -- mass of the rejected outcomes, times z² v, is at most the variance
  have hrej : 1 - ∑ k ∈ range (n + 1),
      pmf n k p * (if (p - k / n) ^ 2 ≤ z ^ 2 * v then 1 else 0)
      = ∑ k ∈ range (n + 1), pmf n k p * (if (p - k / n) ^ 2 ≤ z ^ 2 * v then 0 else 1) := by
    have : (1 : ℝ) - ∑ k ∈ range (n + 1),
        pmf n k p * (if (p - k / n) ^ 2 ≤ z ^ 2 * v then 1 else 0)
        = (∑ k ∈ range (n + 1), pmf n k p) - ∑ k ∈ range (n + 1),
        pmf n k p * (if (p - k / n) ^ 2 ≤ z ^ 2 * v then 1 else 0) := by rw [hsum]
    rw [this, ← Finset.sum_sub_distrib]
    apply Finset.sum_congr rfl
    intro k _
    split_ifs <;> ring
  have key : z ^ 2 * v * (1 - ∑ k ∈ range (n + 1),
      pmf n k p * (if (p - k / n) ^ 2 ≤ z ^ 2 * v then 1 else 0)) ≤ v := by
    rw [hrej, Finset.mul_sum]
    calc ∑ k ∈ range (n + 1), z ^ 2 * v * (pmf n k p * (if (p - k / n) ^ 2 ≤ z ^ 2 * v then 0 else 1))
        ≤ ∑ k ∈ range (n + 1), (p - k / n) ^ 2 * pmf n k p := by
          apply Finset.sum_le_sum
          intro k _
          have hw := pmf_nonneg n k h0 h1
          by_cases hc : (p - k / n) ^ 2 ≤ z ^ 2 * v
          · rw [if_pos hc]
            have : 0 ≤ (p - k / n) ^ 2 * pmf n k p := by positivity
            linarith
          · rw [if_neg hc]
            push Not at hc
            have := mul_le_mul_of_nonneg_right hc.le hw
            linarith
      _ = v := hvar
  rcases hv0.lt_or_eq with hvpos | hv0'
  · -- positive variance: divide
    have hz2 : 0 < z ^ 2 := by positivity
    have hzv : 0 < z ^ 2 * v := by positivity
    set c := ∑ k ∈ range (n + 1), pmf n k p * (if (p - k / n) ^ 2 ≤ z ^ 2 * v then 1 else 0)
    have h1c : 1 - c ≤ 1 / z ^ 2 := by
      rw [le_div_iff₀ hz2]
      have : (1 - c) * z ^ 2 * v ≤ 1 * v := by linarith
      have := le_of_mul_le_mul_right this hvpos
      linarith
    linarith
  · -- zero variance: every outcome of positive mass sits at p exactly, the coverage is 1
    have hterm : ∀ k ∈ range (n + 1), (p - k / n) ^ 2 * pmf n k p = 0 := by
      have hnn : ∀ k ∈ range (n + 1), 0 ≤ (p - k / n) ^ 2 * pmf n k p := by
        intro k _
        have := pmf_nonneg n k h0 h1
        positivity
      exact (Finset.sum_eq_zero_iff_of_nonneg hnn).mp (hvar.trans hv0'.symm)
    have : ∑ k ∈ range (n + 1), pmf n k p * (if (p - k / n) ^ 2 ≤ z ^ 2 * v then 1 else 0)
        = ∑ k ∈ range (n + 1), pmf n k p := by
      apply Finset.sum_congr rfl
      intro k hk
      rcases mul_eq_zero.mp (hterm k hk) with h | h
      · rw [if_pos (by rw [h, ← hv0']; simp)]; ring
      · rw [h]; ring
    rw [this, hsum]
    have : 0 ≤ 1 / z ^ 2 := by positivity
    linarith

/-- mass of the outcomes the crate rejects (`k < 2` or `k > n − 2`) -/
noncomputable def edgeMass (n : ℕ) (p : ℝ) : ℝ :=
  ∑ k ∈ (range (n + 1)).filter (fun k => ¬ (2 ≤ k ∧ k + 2 ≤ n)), pmf n k p

theorem edgeMass_nonneg (n : ℕ) {p : ℝ} (h0 : 0 ≤ p) (h1 : p ≤ 1) : 0 ≤ edgeMass n p :=
  Finset.sum_nonneg (fun k _ => pmf_nonneg n k h0 h1)

/-- the same restricted to the outcomes `2 ≤ k ≤ n − 2`: the loss is at most the edge mass -/
theorem score_region_mass_inner (n : ℕ) (hn : n ≠ 0) {p z : ℝ} (h0 : 0 ≤ p) (h1 : p ≤ 1)
    (hz : 0 < z) :
    1 - 1 / z ^ 2 - edgeMass n p ≤ ∑ k ∈ (range (n + 1)).filter (fun k => 2 ≤ k ∧ k + 2 ≤ n),
      pmf n k p * (if (p - k / n) ^ 2 ≤ z ^ 2 * (p * (1 - p)) / n then 1 else 0) := by
  have h := score_region_mass n hn h0 h1 hz
  rw [← Finset.sum_filter_add_sum_filter_not (range (n + 1)) (fun k => 2 ≤ k ∧ k + 2 ≤ n)] at h
  have : ∑ k ∈ (range (n + 1)).filter (fun k => ¬ (2 ≤ k ∧ k + 2 ≤ n)),
      pmf n k p * (if (p - k / n) ^ 2 ≤ z ^ 2 * (p * (1 - p)) / n then 1 else 0) ≤ edgeMass n p := by
    apply Finset.sum_le_sum
    intro k _
    have hw := pmf_nonneg n k h0 h1
    split_ifs <;> linarith
  linarith

/-- Σ k · pmf = n p -/
theorem pmf_mean_raw (n : ℕ) (p : ℝ) :
    ∑ k ∈ range (n + 1), (k : ℝ) * pmf n k p = n * p := by
  have h := congrArg (Polynomial.eval p) (bernsteinPolynomial.sum_smul ℝ n)
  simp only [Polynomial.eval_finsetSum, nsmul_eq_mul, Polynomial.eval_X,
    bernsteinPolynomial, Polynomial.eval_mul, Polynomial.eval_pow, Polynomial.eval_sub,
    Polynomial.eval_one, Polynomial.eval_natCast] at h
  simpa [pmf] using h

/-- the mean of `k/n − p` is zero -/
theorem pmf_mean_dev (n : ℕ) (hn : n ≠ 0) {p : ℝ} (h0 : 0 ≤ p) (h1 : p ≤ 1) :
    ∑ k ∈ range (n + 1), ((k : ℝ) / n - p) * pmf n k p = 0 := by
  have hn' : (n : ℝ) ≠ 0 := by exact_mod_cast hn
  have e : ∀ k ∈ range (n + 1), ((k : ℝ) / n - p) * pmf n k p
      = (1 / n) * ((k : ℝ) * pmf n k p) - p * pmf n k p := by
    intro k _; field_simp
  rw [Finset.sum_congr rfl e, Finset.sum_sub_distrib, ← Finset.mul_sum, ← Finset.mul_sum,
    pmf_mean_raw, pmf_sum n h0 h1]
  field_simp
  ring

/-- **Cantelli for the binomial distribution** (one-sided Chebyshev): the outcomes with
    `k/n − p > t`, `t > 0`, carry probability at most `v/(v + t²)`, `v = p(1−p)/n` -/
theorem tail_mass (n : ℕ) (hn : n ≠ 0) {p t s : ℝ} (hs : s ^ 2 = 1) (h0 : 0 ≤ p) (h1 : p ≤ 1)
    (ht : 0 < t) :
    ∑ k ∈ range (n + 1), pmf n k p * (if t < s * ((k : ℝ) / n - p) then 1 else 0)
      ≤ (p * (1 - p) / n) / (p * (1 - p) / n + t ^ 2) := by
  set v : ℝ := p * (1 - p) / n with hv
  have hn' : (0 : ℝ) < n := by exact_mod_cast Nat.pos_of_ne_zero hn
  have hv0 : 0 ≤ v := by
    have : 0 ≤ 1 - p := by linarith
    positivity
  set u : ℝ := v / t with hu
  have hu0 : 0 ≤ u := div_nonneg hv0 ht.le
  have hsum := pmf_sum n h0 h1
  have hmean : ∑ k ∈ range (n + 1), (s * ((k : ℝ) / n - p)) * pmf n k p = 0 := by
    have : ∀ k ∈ range (n + 1), (s * ((k : ℝ) / n - p)) * pmf n k p
        = s * (((k : ℝ) / n - p) * pmf n k p) := by intro k _; ring
    rw [Finset.sum_congr rfl this, ← Finset.mul_sum, pmf_mean_dev n hn h0 h1, mul_zero]
  have hvar : ∑ k ∈ range (n + 1), (s * ((k : ℝ) / n - p)) ^ 2 * pmf n k p = v := by
    rw [hv, ← pmf_variance n hn h0 h1]
    apply Finset.sum_congr rfl; intro k _
    rw [mul_pow, hs]; ring
  set P := ∑ k ∈ range (n + 1), pmf n k p * (if t < s * ((k : ℝ) / n - p) then 1 else 0) with hP
  -- (t + u)² P ≤ E (d + u)² = v + u²
  have key : (t + u) ^ 2 * P ≤ v + u ^ 2 := by
    have e : v + u ^ 2 = ∑ k ∈ range (n + 1), (s * ((k : ℝ) / n - p) + u) ^ 2 * pmf n k p := by
      have : ∀ k ∈ range (n + 1), (s * ((k : ℝ) / n - p) + u) ^ 2 * pmf n k p
          = (s * ((k : ℝ) / n - p)) ^ 2 * pmf n k p + 2 * u * ((s * ((k : ℝ) / n - p)) * pmf n k p)
            + u ^ 2 * pmf n k p := by intro k _; ring
      rw [Finset.sum_congr rfl this, Finset.sum_add_distrib, Finset.sum_add_distrib,
        ← Finset.mul_sum, ← Finset.mul_sum, hvar, hmean, hsum]
      ring
    rw [e, hP, Finset.mul_sum]
    apply Finset.sum_le_sum
    intro k _
    have hw := pmf_nonneg n k h0 h1
    by_cases hc : t < s * ((k : ℝ) / n - p)
    · rw [if_pos hc]
      have h1' : t + u ≤ s * ((k : ℝ) / n - p) + u := by linarith
      have h2' : 0 ≤ t + u := by linarith
      have := mul_le_mul_of_nonneg_right (pow_le_pow_left₀ h2' h1' 2) hw
      linarith
    · rw [if_neg hc]
      have : 0 ≤ (s * ((k : ℝ) / n - p) + u) ^ 2 * pmf n k p := by positivity
      linarith
  -- algebra: (v + u²)/(t + u)² = v/(v + t²) with u = v/t
  have htu : 0 < t + u := by linarith
  have hden : 0 < v + t ^ 2 := by positivity
  rw [le_div_iff₀ hden]
  -- (t+u)² v = (v + u²)(v + t²) when u t = v
  have hut : u * t = v := by rw [hu]; field_simp
  have e3 : (v + u ^ 2) * (v + t ^ 2) = (t + u) ^ 2 * v := by
    have : v + u ^ 2 = u * (t + u) := by rw [← hut]; ring
    have h2 : v + t ^ 2 = t * (t + u) := by rw [← hut]; ring
    rw [this, h2, ← hut]; ring
  have hpos : 0 < (t + u) ^ 2 := by positivity
  have : (t + u) ^ 2 * (P * (v + t ^ 2)) ≤ (t + u) ^ 2 * v := by
    calc (t + u) ^ 2 * (P * (v + t ^ 2)) = ((t + u) ^ 2 * P) * (v + t ^ 2) := by ring
      _ ≤ (v + u ^ 2) * (v + t ^ 2) := mul_le_mul_of_nonneg_right key hden.le
      _ = (t + u) ^ 2 * v := e3
  exact le_of_mul_le_mul_left this hpos


/-- the one-sided score region `s·(k/n − p) ≤ z √(p(1−p)/n)` (`s = ±1`, `z > 0`) carries probability at
    least `1 − 1/(1 + z²) = z²/(1 + z²)` -/
theorem one_sided_region_mass (n : ℕ) (hn : n ≠ 0) {p z s : ℝ} (hs : s ^ 2 = 1) (h0 : 0 ≤ p)
    (h1 : p ≤ 1) (hz : 0 < z) :
    1 - 1 / (1 + z ^ 2) ≤ ∑ k ∈ range (n + 1),
      pmf n k p * (if s * ((k : ℝ) / n - p) ≤ z * Real.sqrt (p * (1 - p) / n) then 1 else 0) := by
  set v : ℝ := p * (1 - p) / n with hv
  have hn' : (0 : ℝ) < n := by exact_mod_cast Nat.pos_of_ne_zero hn
  have hv0 : 0 ≤ v := by
    have : 0 ≤ 1 - p := by linarith
    positivity
  have hsum := pmf_sum n h0 h1
  -- coverage = 1 − mass of the tail
  have hcov : ∑ k ∈ range (n + 1),
      pmf n k p * (if s * ((k : ℝ) / n - p) ≤ z * Real.sqrt v then 1 else 0)
      = 1 - ∑ k ∈ range (n + 1),
      pmf n k p * (if z * Real.sqrt v < s * ((k : ℝ) / n - p) then 1 else 0) := by
    have hadd : (∑ k ∈ range (n + 1),
        pmf n k p * (if s * ((k : ℝ) / n - p) ≤ z * Real.sqrt v then 1 else 0))
        + ∑ k ∈ range (n + 1),
        pmf n k p * (if z * Real.sqrt v < s * ((k : ℝ) / n - p) then 1 else 0)
        = ∑ k ∈ range (n + 1), pmf n k p := by
      rw [← Finset.sum_add_distrib]
      apply Finset.sum_congr rfl
      intro k _
      by_cases hc : s * ((k : ℝ) / n - p) ≤ z * Real.sqrt v
      · rw [if_pos hc, if_neg (not_lt.mpr hc)]; ring
      · rw [if_neg hc, if_pos (not_le.mp hc)]; ring
    rw [hsum] at hadd
    linarith
  rw [hcov]
  rcases hv0.lt_or_eq with hvpos | hv0'
  · have ht : 0 < z * Real.sqrt v := mul_pos hz (Real.sqrt_pos.mpr hvpos)
    have h := tail_mass n hn hs h0 h1 ht
    rw [← hv] at h
    have e : v / (v + (z * Real.sqrt v) ^ 2) = 1 / (1 + z ^ 2) := by
      rw [mul_pow, Real.sq_sqrt hv0]
      field_simp
    rw [e] at h
    linarith
  · -- zero variance: the tail is empty
    have hvar := pmf_variance n hn h0 h1
    rw [← hv, ← hv0'] at hvar
    have hnn : ∀ k ∈ range (n + 1), 0 ≤ (p - k / n) ^ 2 * pmf n k p := by
      intro k _
      have := pmf_nonneg n k h0 h1
      positivity
    have hterm := (Finset.sum_eq_zero_iff_of_nonneg hnn).mp hvar
    have htail : ∑ k ∈ range (n + 1),
        pmf n k p * (if z * Real.sqrt v < s * ((k : ℝ) / n - p) then 1 else 0) = 0 := by
      apply Finset.sum_eq_zero
      intro k hk
      rcases mul_eq_zero.mp (hterm k hk) with h | h
      · have hd : (k : ℝ) / n - p = 0 := by
          have := pow_eq_zero_iff (two_ne_zero) |>.mp h
          linarith
        rw [hd, mul_zero, ← hv0', Real.sqrt_zero, mul_zero, if_neg (lt_irrefl _)]; ring
      · rw [h]; ring
    rw [htail]
    have : 0 ≤ 1 / (1 + z ^ 2) := by positivity
    linarith

end StatsCI.Binomial
