/-
  The binomial distribution as far as the coverage theorems of C12 need it: the probability mass
  function sums to one, its variance about `p` (in units of `k/n`) is `p(1−p)/n`, and hence
  (Chebyshev) the outcomes `k` with `(p − k/n)² ≤ z² p(1−p)/n` carry mass at least `1 − 1/z²`.
  The first two facts are Mathlib's `bernstein.probability` and `bernstein.variance`.
-/
import Mathlib.Analysis.SpecialFunctions.Bernstein

namespace StatsCI.Binomial
open Finset

/-- probability of `k` successes among `n` independent trials of success probability `p` -/
noncomputable def pmf (n k : ℕ) (p : ℝ) : ℝ := n.choose k * p ^ k * (1 - p) ^ (n - k)

theorem pmf_nonneg (n k : ℕ) {p : ℝ} (h0 : 0 ≤ p) (h1 : p ≤ 1) : 0 ≤ pmf n k p := by
  unfold pmf
  have : 0 ≤ 1 - p := by linarith
  positivity

theorem pmf_eq_bernstein (n k : ℕ) (p : ℝ) (hp : p ∈ Set.Icc (0 : ℝ) 1) :
    pmf n k p = bernstein n k ⟨p, hp⟩ := by
  rw [bernstein_apply]; rfl

/-- total mass one -/
theorem pmf_sum (n : ℕ) {p : ℝ} (h0 : 0 ≤ p) (h1 : p ≤ 1) :
    ∑ k ∈ range (n + 1), pmf n k p = 1 := by
  have hp : p ∈ Set.Icc (0 : ℝ) 1 := ⟨h0, h1⟩
  have := bernstein.probability n ⟨p, hp⟩
  rw [← this, Finset.sum_range]
  exact Finset.sum_congr rfl (fun k _ => pmf_eq_bernstein n k p hp)

/-- variance of `k/n` about `p` -/
theorem pmf_variance (n : ℕ) (hn : n ≠ 0) {p : ℝ} (h0 : 0 ≤ p) (h1 : p ≤ 1) :
    ∑ k ∈ range (n + 1), (p - k / n) ^ 2 * pmf n k p = p * (1 - p) / n := by
  have hp : p ∈ Set.Icc (0 : ℝ) 1 := ⟨h0, h1⟩
  have := bernstein.variance hn ⟨p, hp⟩
  rw [← this, Finset.sum_range]
  refine Finset.sum_congr rfl (fun k _ => ?_)
  rw [pmf_eq_bernstein n k p hp]
  simp [bernstein.z]

/-- **Chebyshev for the binomial distribution**: for every `n ≥ 1`, `p ∈ [0,1]` and `z > 0`, the
    outcomes accepted by the score test at `p` carry probability at least `1 − 1/z²`. -/
theorem score_region_mass (n : ℕ) (hn : n ≠ 0) {p z : ℝ} (h0 : 0 ≤ p) (h1 : p ≤ 1) (hz : 0 < z) :
    1 - 1 / z ^ 2 ≤ ∑ k ∈ range (n + 1),
      pmf n k p * (if (p - k / n) ^ 2 ≤ z ^ 2 * (p * (1 - p)) / n then 1 else 0) := by
  set v : ℝ := p * (1 - p) / n with hv
  have hn' : (0 : ℝ) < n := by exact_mod_cast Nat.pos_of_ne_zero hn
  have hv0 : 0 ≤ v := by
    have : 0 ≤ 1 - p := by linarith
    positivity
  have hcond : z ^ 2 * (p * (1 - p)) / n = z ^ 2 * v := by
    rw [hv]; ring
  simp only [hcond]
  have hsum := pmf_sum n h0 h1
  have hvar := pmf_variance n hn h0 h1
  rw [← hv] at hvar
  -- mass of the rejected outcomes, times z² v, is at most the variance
  have hrej : 1 - ∑ k ∈ range (n + 1),
      pmf n k p * (if (p - k / n) ^ 2 ≤ z ^ 2 * v then 1 else 0)
      = ∑ k ∈ range (n + 1), pmf n k p * (if (p - k / n) ^ 2 ≤ z ^ 2 * v then 0 else 1) := by
    have : (1 : ℝ) - ∑ k ∈ range (n + 1),
        pmf n k p * (if (p - k / n) ^ 2 ≤ z ^ 2 * v then 1 else 0)
        = (∑ k ∈ range (n + 1), pmf n k p) - ∑ k ∈ range (n + 1),
        pmf n k p * (if (p - k / n) ^ 2 ≤ z ^ 2 * v then 1 else 0) := by rw [hsum]
    rw [this, ← Finset.sum_sub_distrib]
    apply Finset.sum_congr rfl
    intro k _
    split_ifs <;> ring
  have key : z ^ 2 * v * (1 - ∑ k ∈ range (n + 1),
      pmf n k p * (if (p - k / n) ^ 2 ≤ z ^ 2 * v then 1 else 0)) ≤ v := by
    rw [hrej, Finset.mul_sum]
    calc ∑ k ∈ range (n + 1), z ^ 2 * v * (pmf n k p * (if (p - k / n) ^ 2 ≤ z ^ 2 * v then 0 else 1))
        ≤ ∑ k ∈ range (n + 1), (p - k / n) ^ 2 * pmf n k p := by
          apply Finset.sum_le_sum
          intro k _
          have hw := pmf_nonneg n k h0 h1
          by_cases hc : (p - k / n) ^ 2 ≤ z ^ 2 * v
          · rw [if_pos hc]
            have : 0 ≤ (p - k / n) ^ 2 * pmf n k p := by positivity
            linarith
          · rw [if_neg hc]
            push Not at hc
            have := mul_le_mul_of_nonneg_right hc.le hw
            linarith
      _ = v := hvar
  rcases hv0.lt_or_eq with hvpos | hv0'
  · -- positive variance: divide
    have hz2 : 0 < z ^ 2 := by positivity
    have hzv : 0 < z ^ 2 * v := by positivity
    set c := ∑ k ∈ range (n + 1), pmf n k p * (if (p - k / n) ^ 2 ≤ z ^ 2 * v then 1 else 0)
    have h1c : 1 - c ≤ 1 / z ^ 2 := by
      rw [le_div_iff₀ hz2]
      have : (1 - c) * z ^ 2 * v ≤ 1 * v := by linarith
      have := le_of_mul_le_mul_right this hvpos
      linarith
    linarith
  · -- zero variance: every outcome of positive mass sits at p exactly, the coverage is 1
    have hterm : ∀ k ∈ range (n + 1), (p - k / n) ^ 2 * pmf n k p = 0 := by
      have hnn : ∀ k ∈ range (n + 1), 0 ≤ (p - k / n) ^ 2 * pmf n k p := by
        intro k _
        have := pmf_nonneg n k h0 h1
        positivity
      exact (Finset.sum_eq_zero_iff_of_nonneg hnn).mp (hvar.trans hv0'.symm)
    have : ∑ k ∈ range (n + 1), pmf n k p * (if (p - k / n) ^ 2 ≤ z ^ 2 * v then 1 else 0)
        = ∑ k ∈ range (n + 1), pmf n k p := by
      apply Finset.sum_congr rfl
      intro k hk
      rcases mul_eq_zero.mp (hterm k hk) with h | h
      · rw [if_pos (by rw [h, ← hv0']; simp)]; ring
      · rw [h]; ring
    rw [this, hsum]
    have : 0 ≤ 1 / z ^ 2 := by positivity
    linarith

/-- mass of the outcomes the crate rejects (`k < 2` or `k > n − 2`) -/
noncomputable def edgeMass (n : ℕ) (p : ℝ) : ℝ :=
  ∑ k ∈ (range (n + 1)).filter (fun k => ¬ (2 ≤ k ∧ k + 2 ≤ n)), pmf n k p

theorem edgeMass_nonneg (n : ℕ) {p : ℝ} (h0 : 0 ≤ p) (h1 : p ≤ 1) : 0 ≤ edgeMass n p :=
  Finset.sum_nonneg (fun k _ => pmf_nonneg n k h0 h1)

/-- the same restricted to the outcomes `2 ≤ k ≤ n − 2`: the loss is at most the edge mass -/
theorem score_region_mass_inner (n : ℕ) (hn : n ≠ 0) {p z : ℝ} (h0 : 0 ≤ p) (h1 : p ≤ 1)
    (hz : 0 < z) :
    1 - 1 / z ^ 2 - edgeMass n p ≤ ∑ k ∈ (range (n + 1)).filter (fun k => 2 ≤ k ∧ k + 2 ≤ n),
      pmf n k p * (if (p - k / n) ^ 2 ≤ z ^ 2 * (p * (1 - p)) / n then 1 else 0) := by
  have h := score_region_mass n hn h0 h1 hz
  rw [← Finset.sum_filter_add_sum_filter_not (range (n + 1)) (fun k => 2 ≤ k ∧ k + 2 ≤ n)] at h
  have : ∑ k ∈ (range (n + 1)).filter (fun k => ¬ (2 ≤ k ∧ k + 2 ≤ n)),
      pmf n k p * (if (p - k / n) ^ 2 ≤ z ^ 2 * (p * (1 - p)) / n then 1 else 0) ≤ edgeMass n p := by
    apply Finset.sum_le_sum
    intro k _
    have hw := pmf_nonneg n k h0 h1
    split_ifs <;> linarith
  linarith

end StatsCI.Binomial
