/-
  StatsCI.Lemmas.RR — the model's `Scalar` operations interpreted over ℝ with an abstract
  rounding function `fl` applied after every arithmetic operation (`fl = id`: exact arithmetic).

  This is where theorems about the *same* generic definitions that the compiled driver runs on
  `Float`/`Float32` live. Hypotheses about floating point are explicit hypotheses on `fl`
  (`|fl x - x| ≤ u |x|`, `fl (2^e x) = 2^e fl x`, `fl (-x) = - fl x`), never axioms.
  Not modelled: overflow to ±∞, NaN, gradual underflow (`isFinite` is constantly `true`).
-/
import StatsCI.Model.Mean
import StatsCI.Model.Comparison
import StatsCI.Model.Proportion
import StatsCI.Model.Quantile
import Mathlib.Analysis.Real.Sqrt
import Mathlib.Analysis.SpecialFunctions.Log.Basic
import Mathlib.Algebra.Order.Round
import Mathlib.Algebra.Order.Floor.Semiring

namespace StatsCI

/-- reals with a rounding function applied after every operation -/
structure RR (fl : ℝ → ℝ) where
  val : ℝ

namespace RR
variable {fl : ℝ → ℝ}

noncomputable instance instScalar : Scalar (RR fl) where
  le a b := decide (a.val ≤ b.val)
  lt a b := decide (a.val < b.val)
  eq a b := decide (a.val = b.val)
  add a b := ⟨fl (a.val + b.val)⟩
  sub a b := ⟨fl (a.val - b.val)⟩
  mul a b := ⟨fl (a.val * b.val)⟩
  div a b := ⟨fl (a.val / b.val)⟩
  neg a := ⟨-a.val⟩
  zero := ⟨0⟩
  one := ⟨1⟩
  sqrt a := ⟨fl (Real.sqrt a.val)⟩
  ln a := ⟨fl (Real.log a.val)⟩
  exp a := ⟨fl (Real.exp a.val)⟩
  ofNat n := ⟨fl n⟩
  isFinite _ := true
  floorToNat x := ⌊x.val⌋₊
  roundToNat x := (round x.val).toNat
  posInf := ⟨0⟩
  negInf := ⟨0⟩

instance : Widen (RR fl) (RR fl) := ⟨id, id⟩

@[ext] theorem ext' {a b : RR fl} (h : a.val = b.val) : a = b := by
  cases a; cases b; simp_all

@[simp] theorem le_iff (a b : RR fl) : (Cmp.le a b = true) ↔ a.val ≤ b.val := by
  simp [Cmp.le]
@[simp] theorem lt_iff (a b : RR fl) : (Cmp.lt a b = true) ↔ a.val < b.val := by
  simp [Cmp.lt]
@[simp] theorem eq_iff (a b : RR fl) : (Cmp.eq a b = true) ↔ a.val = b.val := by
  simp [Cmp.eq]
@[simp] theorem ge_iff (a b : RR fl) : (ge a b = true) ↔ b.val ≤ a.val := by simp [ge]
@[simp] theorem gt_iff (a b : RR fl) : (gt a b = true) ↔ b.val < a.val := by simp [gt]
@[simp] theorem add_val (a b : RR fl) : (NumOps.add a b).val = fl (a.val + b.val) := rfl
@[simp] theorem sub_val (a b : RR fl) : (NumOps.sub a b).val = fl (a.val - b.val) := rfl
@[simp] theorem mul_val (a b : RR fl) : (NumOps.mul a b).val = fl (a.val * b.val) := rfl
@[simp] theorem div_val (a b : RR fl) : (NumOps.div a b).val = fl (a.val / b.val) := rfl
@[simp] theorem neg_val (a : RR fl) : (NumOps.neg a).val = -a.val := rfl
@[simp] theorem zero_val : (NumOps.zero : RR fl).val = 0 := rfl
@[simp] theorem one_val : (NumOps.one : RR fl).val = 1 := rfl
@[simp] theorem sqrt_val (a : RR fl) : (Scalar.sqrt a).val = fl (Real.sqrt a.val) := rfl
@[simp] theorem ln_val (a : RR fl) : (Scalar.ln a).val = fl (Real.log a.val) := rfl
@[simp] theorem exp_val (a : RR fl) : (Scalar.exp a).val = fl (Real.exp a.val) := rfl
@[simp] theorem ofNat_val (n : Nat) : (Scalar.ofNat n : RR fl).val = fl n := rfl
@[simp] theorem isFinite_eq (a : RR fl) : Scalar.isFinite a = true := rfl
@[simp] theorem floorToNat_eq (a : RR fl) : Scalar.floorToNat a = ⌊a.val⌋₊ := rfl
@[simp] theorem roundToNat_eq (a : RR fl) : Scalar.roundToNat a = (round a.val).toNat := rfl
@[simp] theorem up_eq (a : RR fl) : (Widen.up a : RR fl) = a := rfl
@[simp] theorem down_eq (a : RR fl) : (Widen.down a : RR fl) = a := rfl
@[simp] theorem mk_val (a : RR fl) : (⟨a.val⟩ : RR fl) = a := rfl

end RR

/-- exact real arithmetic -/
abbrev Rex := RR id

/-- embed a real number -/
def inj {fl : ℝ → ℝ} (x : ℝ) : RR fl := ⟨x⟩
@[simp] theorem inj_val {fl : ℝ → ℝ} (x : ℝ) : (inj x : RR fl).val = x := rfl

/-- a constant critical-value oracle (the external quantile routine returns `c`) -/
def constCrit {fl : ℝ → ℝ} (c : ℝ) : Crit (RR fl) := fun _ => ⟨c⟩

/-- `f64::max` / `f64::min` on the real carriers are the lattice operations (no rounding is involved) -/
theorem fmax_val {fl : ℝ → ℝ} (a b : RR fl) : (fmax a b).val = max a.val b.val := by
  unfold fmax
  by_cases h : a.val < b.val
  · simp [h, max_eq_right h.le]
  · have h' : b.val ≤ a.val := not_lt.mp h
    simp [h, h', max_eq_left h']

theorem fmin_val {fl : ℝ → ℝ} (a b : RR fl) : (fmin a b).val = min a.val b.val := by
  unfold fmin
  by_cases h : b.val < a.val
  · simp [h, min_eq_right h.le]
  · have h' : a.val ≤ b.val := not_lt.mp h
    simp [h, h', min_eq_left h']

/-- the lower clamp of the effective degrees of freedom on the real carriers: the larger of the computed value
    and the (rounded) bound `min(na, nb) - 1` -/
theorem Unpaired.clampDof_val {fl : ℝ → ℝ} (d na nb : RR fl) :
    (Unpaired.clampDof d na nb).val = max d.val (fl (min na.val nb.val - 1)) := by
  unfold Unpaired.clampDof
  have hm : (NumOps.sub (fmin na nb) (NumOps.one : RR fl)).val = fl (min na.val nb.val - 1) := by
    simp [fmin_val]
  by_cases h : d.val < fl (min na.val nb.val - 1)
  · have : lt d (NumOps.sub (fmin na nb) (NumOps.one : RR fl)) = true := by
      rw [RR.lt_iff, hm]; exact h
    simp only [this, if_true, hm, max_eq_right h.le]
  · have : lt d (NumOps.sub (fmin na nb) (NumOps.one : RR fl)) = false := by
      rw [Bool.eq_false_iff, Ne, RR.lt_iff, hm]; exact h
    simp only [this, Bool.false_eq_true, if_false, max_eq_left (not_lt.mp h)]

theorem Unpaired.clampDof_swap {fl : ℝ → ℝ} (d na nb : RR fl) :
    Unpaired.clampDof d nb na = Unpaired.clampDof d na nb := by
  apply RR.ext'
  rw [Unpaired.clampDof_val, Unpaired.clampDof_val, min_comm]

/-- in exact arithmetic the clamps of `ci_wilson` are the identity on bounds that are proportions -/
theorem Proportion.finishWilson_eq_finish (conf : Confidence Rex) (m s : Rex)
    (hlo : 0 ≤ m.val - s.val) (hhi : m.val + s.val ≤ 1)
    (hlo1 : m.val - s.val ≤ 1) (hhi0 : 0 ≤ m.val + s.val) :
    Proportion.finishWilson conf m s = Proportion.finish conf m s := by
  have e1 : fmax (NumOps.sub m s) (NumOps.zero : Rex) = NumOps.sub m s := by
    apply RR.ext'; rw [fmax_val]; simpa using hlo
  have e2 : fmin (NumOps.add m s) (NumOps.one : Rex) = NumOps.add m s := by
    apply RR.ext'; rw [fmin_val]; simpa using hhi
  have e3 : fmin (NumOps.sub m s) (NumOps.one : Rex) = NumOps.sub m s := by
    apply RR.ext'; rw [fmin_val]; simpa using hlo1
  have e4 : fmax (NumOps.add m s) (NumOps.zero : Rex) = NumOps.add m s := by
    apply RR.ext'; rw [fmax_val]; simpa using hhi0
  cases conf <;> simp only [Proportion.finishWilson, Proportion.finish, e1, e2, e3, e4]


end StatsCI
