/-
  StatsCI.Lemmas.Quantile — helper lemmas for C03 (quantile confidence interval).

  * `QSpec.centre`, `QSpec.span`, `QSpec.rank`, `QSpec.successes`: the mathematical quantities
    the property talks about (Wilson centre / span over ℝ, the rank `min ⌊p·n⌋ (n−1)`, the
    success count `round (q·n)`).
  * real-analysis facts about the Wilson numbers: `0 ≤ centre ∓ span ≤ 1` (any sign of `z`),
    `centre − |span| ≤ k/n ≤ centre + |span|` (strict for `0 < k < n`, `z ≠ 0`).
  * bridge lemmas from the model functions at `Rex` to these quantities, and the complete
    case analysis `ciIndices_eq` of `Quantile.ciIndices`.
  * sorting facts over a linear order; `bound_eq_nth`: over a linear order the self-comparison
    check of `Quantile.bound` never fires, so `ci_sorted_unchecked` is plain element access there.
-/
import StatsCI.Lemmas.RR
import StatsCI.Lemmas.Order
import Mathlib.Analysis.Real.Sqrt
import Mathlib.Algebra.Order.Round
import Mathlib.Algebra.Order.Floor.Semiring
import Mathlib.Tactic.Linarith
import Mathlib.Tactic.Ring
import Mathlib.Tactic.FieldSimp
import Mathlib.Tactic.Positivity
import Mathlib.Tactic.NormNum
import Mathlib.Data.List.Sort

namespace StatsCI
namespace QSpec
open Real

/-- Wilson centre `(k + z²/2)/(n + z²)` -/
noncomputable def centre (n k : ℕ) (z : ℝ) : ℝ := ((k : ℝ) + z ^ 2 / 2) / ((n : ℝ) + z ^ 2)

/-- Wilson span `z/(n + z²) · √(k(n−k)/n + z²/4)` (it carries the sign of `z`) -/
noncomputable def span (n k : ℕ) (z : ℝ) : ℝ :=
  z / ((n : ℝ) + z ^ 2) * Real.sqrt ((k : ℝ) * ((n : ℝ) - k) / n + z ^ 2 / 4)

/-- the 0-based rank read off a proportion `p`: `min ⌊p·n⌋ (n−1)` -/
noncomputable def rank (n : ℕ) (p : ℝ) : ℕ := min ⌊p * (n : ℝ)⌋₊ (n - 1)

/-- the number of successes `round (q·n)` (half away from zero) -/
noncomputable def successes (q : ℝ) (n : ℕ) : ℕ := (round (q * (n : ℝ))).toNat

/-! ### real facts about the Wilson numbers (over real `n`, `k`) -/

section real
variable (n k z : ℝ)

/-- the discriminant -/
noncomputable def D : ℝ := k * (n - k) / n + z ^ 2 / 4

theorem D_nonneg (hn : 0 < n) (hk0 : 0 ≤ k) (hkn : k ≤ n) : 0 ≤ D n k z := by
  unfold D
  have : 0 ≤ k * (n - k) / n := div_nonneg (mul_nonneg hk0 (by linarith)) hn.le
  positivity

/-- `|z √D| ≤ k + z²/2` -/
theorem zs_le_left (hn : 0 < n) (hk0 : 0 ≤ k) (hkn : k ≤ n) :
    |z * sqrt (D n k z)| ≤ k + z ^ 2 / 2 := by
  have hD := D_nonneg n k z hn hk0 hkn
  apply abs_le_of_sq_le_sq _ (by positivity)
  rw [mul_pow, sq_sqrt hD]
  unfold D
  have hn' : n ≠ 0 := hn.ne'
  have e : (k + z ^ 2 / 2) ^ 2 - z ^ 2 * (k * (n - k) / n + z ^ 2 / 4)
      = k ^ 2 + z ^ 2 * k ^ 2 / n := by
    field_simp; ring
  have : 0 ≤ k ^ 2 + z ^ 2 * k ^ 2 / n := by positivity
  linarith

/-- `|z √D| ≤ (n − k) + z²/2` -/
theorem zs_le_right (hn : 0 < n) (hk0 : 0 ≤ k) (hkn : k ≤ n) :
    |z * sqrt (D n k z)| ≤ (n - k) + z ^ 2 / 2 := by
  have hD := D_nonneg n k z hn hk0 hkn
  have hnk : 0 ≤ n - k := by linarith
  apply abs_le_of_sq_le_sq _ (by positivity)
  rw [mul_pow, sq_sqrt hD]
  unfold D
  have hn' : n ≠ 0 := hn.ne'
  have e : ((n - k) + z ^ 2 / 2) ^ 2 - z ^ 2 * (k * (n - k) / n + z ^ 2 / 4)
      = (n - k) ^ 2 + z ^ 2 * (n - k) ^ 2 / n := by
    field_simp; ring
  have : 0 ≤ (n - k) ^ 2 + z ^ 2 * (n - k) ^ 2 / n := by positivity
  linarith

/-- `|z (2k − n)/(2n)| ≤ √D` -/
theorem sqrtD_ge (hn : 0 < n) (hk0 : 0 ≤ k) (hkn : k ≤ n) :
    |z * (2 * k - n) / (2 * n)| ≤ sqrt (D n k z) := by
  apply abs_le_sqrt
  unfold D
  have hn' : n ≠ 0 := hn.ne'
  have h0 : 0 ≤ k * (n - k) := mul_nonneg hk0 (by linarith)
  have key : k * (n - k) / n + z ^ 2 / 4 - (z * (2 * k - n) / (2 * n)) ^ 2
      = k * (n - k) / n + z ^ 2 * (k * (n - k)) / n ^ 2 := by
    field_simp; ring
  have : 0 ≤ k * (n - k) / n + z ^ 2 * (k * (n - k)) / n ^ 2 := by positivity
  linarith

/-- `|z (2k − n)/(2n)| < √D` when `0 < k < n` -/
theorem sqrtD_gt (hn : 0 < n) (hk0 : 0 < k) (hkn : k < n) :
    |z * (2 * k - n) / (2 * n)| < sqrt (D n k z) := by
  rw [← sqrt_sq (abs_nonneg _), sq_abs]
  apply sqrt_lt_sqrt (sq_nonneg _)
  unfold D
  have hn' : n ≠ 0 := hn.ne'
  have h0 : 0 < k * (n - k) := mul_pos hk0 (by linarith)
  have key : k * (n - k) / n + z ^ 2 / 4 - (z * (2 * k - n) / (2 * n)) ^ 2
      = k * (n - k) / n + z ^ 2 * (k * (n - k)) / n ^ 2 := by
    field_simp; ring
  have : 0 < k * (n - k) / n + z ^ 2 * (k * (n - k)) / n ^ 2 := by positivity
  linarith

end real

/-! ### the Wilson numbers at natural `n`, `k` -/

section nat
variable (n k : ℕ) (z : ℝ)

theorem span_eq : span n k z = z * sqrt (D n k z) / ((n : ℝ) + z ^ 2) := by
  unfold span D; ring

theorem den_pos (hn : 0 < n) : 0 < (n : ℝ) + z ^ 2 := by
  have : (0 : ℝ) < n := by exact_mod_cast hn
  positivity

/-- `0 ≤ centre − span` and `0 ≤ centre + span`, whatever the sign of `z` -/
theorem lower_nonneg (hn : 0 < n) (hkn : k ≤ n) :
    0 ≤ centre n k z - span n k z ∧ 0 ≤ centre n k z + span n k z := by
  have hn' : (0 : ℝ) < n := by exact_mod_cast hn
  have hk0 : (0 : ℝ) ≤ k := Nat.cast_nonneg k
  have hkn' : (k : ℝ) ≤ n := by exact_mod_cast hkn
  have hN := den_pos n z hn
  have h := abs_le.mp (zs_le_left n k z hn' hk0 hkn')
  rw [span_eq]; unfold centre
  rw [← sub_div, ← add_div]
  exact ⟨div_nonneg (by linarith [h.2]) hN.le, div_nonneg (by linarith [h.1]) hN.le⟩

/-- `centre − span ≤ 1` and `centre + span ≤ 1`, whatever the sign of `z` -/
theorem upper_le_one (hn : 0 < n) (hkn : k ≤ n) :
    centre n k z - span n k z ≤ 1 ∧ centre n k z + span n k z ≤ 1 := by
  have hn' : (0 : ℝ) < n := by exact_mod_cast hn
  have hk0 : (0 : ℝ) ≤ k := Nat.cast_nonneg k
  have hkn' : (k : ℝ) ≤ n := by exact_mod_cast hkn
  have hN := den_pos n z hn
  have h := abs_le.mp (zs_le_right n k z hn' hk0 hkn')
  rw [span_eq]; unfold centre
  rw [← sub_div, ← add_div, div_le_one hN, div_le_one hN]
  exact ⟨by linarith [h.1], by linarith [h.2]⟩

/-- `k/n − centre = z² (2k − n) / (2n (n + z²))` -/
theorem ratio_sub_centre (hn : 0 < n) :
    (k : ℝ) / n - centre n k z = z * (z * (2 * k - n) / (2 * n)) / ((n : ℝ) + z ^ 2) := by
  have hn' : (n : ℝ) ≠ 0 := by exact_mod_cast hn.ne'
  have hN := (den_pos n z hn).ne'
  unfold centre
  field_simp
  ring

/-- for `z ≥ 0` the Wilson bounds enclose the observed proportion -/
theorem encloses (hn : 0 < n) (hkn : k ≤ n) (hz : 0 ≤ z) :
    centre n k z - span n k z ≤ (k : ℝ) / n ∧ (k : ℝ) / n ≤ centre n k z + span n k z := by
  have hn' : (0 : ℝ) < n := by exact_mod_cast hn
  have hk0 : (0 : ℝ) ≤ k := Nat.cast_nonneg k
  have hkn' : (k : ℝ) ≤ n := by exact_mod_cast hkn
  have hN := den_pos n z hn
  have h := abs_le.mp (sqrtD_ge n k z hn' hk0 hkn')
  have e := ratio_sub_centre n k z hn
  have h1 : z * (z * (2 * k - n) / (2 * n)) ≤ z * sqrt (D n k z) :=
    mul_le_mul_of_nonneg_left h.2 hz
  have h2 : z * (-sqrt (D n k z)) ≤ z * (z * (2 * k - n) / (2 * n)) :=
    mul_le_mul_of_nonneg_left h.1 hz
  have d1 := div_le_div_of_nonneg_right h1 hN.le
  have d2 := div_le_div_of_nonneg_right h2 hN.le
  rw [span_eq]
  rw [← e] at d1 d2
  constructor
  · have : z * -sqrt (D n k z) / ((n : ℝ) + z ^ 2) = -(z * sqrt (D n k z) / ((n : ℝ) + z ^ 2)) := by
      ring
    linarith
  · linarith

/-- for `z > 0` and `0 < k < n` the enclosure is strict -/
theorem encloses_strict (hn : 0 < n) (hk0 : 0 < k) (hkn : k < n) (hz : 0 < z) :
    centre n k z - span n k z < (k : ℝ) / n ∧ (k : ℝ) / n < centre n k z + span n k z := by
  have hn' : (0 : ℝ) < n := by exact_mod_cast hn
  have hk0' : (0 : ℝ) < k := by exact_mod_cast hk0
  have hkn' : (k : ℝ) < n := by exact_mod_cast hkn
  have hN := den_pos n z hn
  have h := abs_lt.mp (sqrtD_gt n k z hn' hk0' hkn')
  have e := ratio_sub_centre n k z hn
  have h1 : z * (z * (2 * k - n) / (2 * n)) < z * sqrt (D n k z) :=
    mul_lt_mul_of_pos_left h.2 hz
  have h2 : z * (-sqrt (D n k z)) < z * (z * (2 * k - n) / (2 * n)) :=
    mul_lt_mul_of_pos_left h.1 hz
  have d1 := div_lt_div_of_pos_right h1 hN
  have d2 := div_lt_div_of_pos_right h2 hN
  rw [span_eq]
  rw [← e] at d1 d2
  constructor
  · have : z * -sqrt (D n k z) / ((n : ℝ) + z ^ 2) = -(z * sqrt (D n k z) / ((n : ℝ) + z ^ 2)) := by
      ring
    linarith
  · linarith

/-- `span` has the sign of `z` -/
theorem span_nonneg (hn : 0 < n) (hz : 0 ≤ z) : 0 ≤ span n k z := by
  unfold span
  exact mul_nonneg (div_nonneg hz (den_pos n z hn).le) (sqrt_nonneg _)

theorem span_neg (hn : 0 < n) (hkn : k ≤ n) (hz : z < 0) : span n k z < 0 := by
  unfold span
  have hn' : (0 : ℝ) < n := by exact_mod_cast hn
  have hkn' : (k : ℝ) ≤ n := by exact_mod_cast hkn
  have hD : 0 < (k : ℝ) * ((n : ℝ) - k) / n + z ^ 2 / 4 := by
    have : 0 ≤ (k : ℝ) * ((n : ℝ) - k) / n :=
      div_nonneg (mul_nonneg (Nat.cast_nonneg k) (by linarith)) hn'.le
    have : 0 < z ^ 2 := by nlinarith
    linarith
  exact mul_neg_of_neg_of_pos (div_neg_of_neg_of_pos hz (den_pos n z hn)) (sqrt_pos.mpr hD)

end nat

/-! ### ranks -/

theorem rank_le (n : ℕ) (p : ℝ) : rank n p ≤ n - 1 := min_le_right _ _

theorem rank_lt (n : ℕ) (p : ℝ) (hn : 0 < n) : rank n p < n :=
  lt_of_le_of_lt (rank_le n p) (Nat.sub_lt hn Nat.one_pos)

theorem rank_mono (n : ℕ) {p p' : ℝ} (h : p ≤ p') : rank n p ≤ rank n p' := by
  unfold rank
  exact min_le_min (Nat.floor_mono (mul_le_mul_of_nonneg_right h (Nat.cast_nonneg n))) le_rfl

theorem rank_zero (n : ℕ) : rank n 0 = 0 := by simp [rank]

theorem rank_one (n : ℕ) : rank n 1 = n - 1 := by simp [rank]

/-- `p ≤ k/n` puts the rank at or below `k` -/
theorem rank_le_of_le (n k : ℕ) (p : ℝ) (hn : 0 < n) (h : p ≤ (k : ℝ) / n) : rank n p ≤ k := by
  have hn' : (0 : ℝ) < n := by exact_mod_cast hn
  have : p * n ≤ k := by rwa [le_div_iff₀ hn'] at h
  exact le_trans (min_le_left _ _) (Nat.floor_le_of_le this)

/-- `p < k/n` puts the rank strictly below `k` -/
theorem rank_lt_of_lt (n k : ℕ) (p : ℝ) (hn : 0 < n) (hk : 0 < k) (h : p < (k : ℝ) / n) :
    rank n p < k := by
  have hn' : (0 : ℝ) < n := by exact_mod_cast hn
  have h' : p * n < k := by rwa [lt_div_iff₀ hn'] at h
  refine lt_of_le_of_lt (min_le_left _ _) ?_
  rcases le_or_gt 0 (p * n) with h0 | h0
  · exact (Nat.floor_lt h0).mpr h'
  · rw [Nat.floor_of_nonpos h0.le]; exact hk

/-- `k/n ≤ p` with `k ≤ n − 1` puts the rank at or above `k` -/
theorem le_rank_of_le (n k : ℕ) (p : ℝ) (hn : 0 < n) (hk : k ≤ n - 1) (h : (k : ℝ) / n ≤ p) :
    k ≤ rank n p := by
  have hn' : (0 : ℝ) < n := by exact_mod_cast hn
  have : (k : ℝ) ≤ p * n := by rwa [div_le_iff₀ hn'] at h
  exact le_min (Nat.le_floor this) hk

/-! ### the success count -/

theorem successes_le (q : ℝ) (n : ℕ) (hq : q < 1) : successes q n ≤ n := by
  unfold successes
  rcases Nat.eq_zero_or_pos n with rfl | hn
  · simp
  have hn' : (0 : ℝ) < n := by exact_mod_cast hn
  have h : q * n ≤ n := by nlinarith
  have h1 := round_le_add_half (q * (n : ℝ))
  have : round (q * (n : ℝ)) < (n : ℤ) + 1 := by
    have : ((round (q * (n : ℝ)) : ℤ) : ℝ) < (((n : ℤ) + 1 : ℤ) : ℝ) := by
      push_cast; linarith
    exact_mod_cast this
  omega

/-- lower / upper Wilson bound -/
noncomputable def pLow (n k : ℕ) (z : ℝ) : ℝ := centre n k z - span n k z
noncomputable def pHigh (n k : ℕ) (z : ℝ) : ℝ := centre n k z + span n k z

end QSpec

/-! ### bridge: the model functions at `Rex` -/

namespace Quantile
open NumOps Scalar Proportion QSpec

theorem wilsonCentre_val (n k : ℕ) (z : Rex) :
    (wilsonCentre (Scalar.ofNat n : Rex) (Scalar.ofNat k) z).val = centre n k z.val := by
  simp [wilsonCentre, centre]
  ring_nf

theorem wilsonSpan_val (n k : ℕ) (z : Rex) :
    (wilsonSpan (Scalar.ofNat n : Rex) (Scalar.ofNat k) z).val = span n k z.val := by
  simp [wilsonSpan, span]
  ring_nf

/-- `probOk` of the probability asked of the normal quantile routine, for a valid level -/
theorem probOk_quantile (conf : Confidence Rex) (hl : 0 < conf.level.val ∧ conf.level.val < 1) :
    probOk conf.quantile = true := by
  cases conf <;> simp [probOk, Confidence.quantile, Confidence.level] at * <;>
    constructor <;> linarith

theorem zValue_eq (crit : Crit Rex) (conf : Confidence Rex)
    (hl : 0 < conf.level.val ∧ conf.level.val < 1) :
    zValue crit conf = .ok (crit (.z conf.quantile)) := by
  simp [zValue, probOk_quantile conf hl]

/-- `Stats::index` on an admissible proportion -/
theorem index_eq (n : ℕ) (p : Rex) (hn : n ≠ 0) (h0 : 0 ≤ p.val) (h1 : p.val ≤ 1) :
    Quantile.index n p = .ok (rank n p.val) := by
  simp [Quantile.index, hn, not_lt.mpr h0, not_lt.mpr h1, rank]

/-- `Proportion.ciWilson` at exact arithmetic: the Wilson numbers lie in `[0,1]`, so the clamp of
    `Proportion.finishWilson` is inert and the result is `Proportion.finish` on them -/
theorem ciWilson_eq (crit : Crit Rex) (conf : Confidence Rex) (n k : ℕ)
    (hl : 0 < conf.level.val ∧ conf.level.val < 1) (hn : 0 < n) (hk2 : 2 ≤ k) (hf2 : 2 ≤ n - k) :
    Proportion.ciWilson crit conf n k =
      match (generalizing := false) conf with
      | .twoSided _ =>
          if (crit (.z conf.quantile)).val < 0 then .err (.interval .invalidBounds)
          else .ok (.twoSided (inj (pLow n k (crit (.z conf.quantile)).val))
                              (inj (pHigh n k (crit (.z conf.quantile)).val)))
      | .upper _ => .ok (.twoSided (inj (pLow n k (crit (.z conf.quantile)).val)) (inj 1))
      | .lower _ => .ok (.twoSided (inj 0) (inj (pHigh n k (crit (.z conf.quantile)).val))) := by
  have hkn : k ≤ n := by omega
  have h1 : ¬ (k > n) := by omega
  have h2 : ¬ (k < 2) := by omega
  have h3 : ¬ (n - k < 2) := by omega
  simp only [Proportion.ciWilson, h1, h2, h3, if_false, zValue_eq crit conf hl, Outcome.bind_ok]
  set zz := crit (.z conf.quantile) with hzz
  have hlo := lower_nonneg n k zz.val hn hkn
  have hhi := upper_le_one n k zz.val hn hkn
  -- at exact arithmetic both Wilson bounds are proportions: the clamp into `[0,1]` is inert
  rw [Proportion.finishWilson_eq_finish conf _ _
    (by rw [wilsonCentre_val, wilsonSpan_val]; exact hlo.1)
    (by rw [wilsonCentre_val, wilsonSpan_val]; exact hhi.2)
    (by rw [wilsonCentre_val, wilsonSpan_val]; exact hhi.1)
    (by rw [wilsonCentre_val, wilsonSpan_val]; exact hlo.2)]
  cases conf with
  | twoSided l =>
    simp only [Proportion.finish, Interval.new, RR.gt_iff, RR.sub_val, RR.add_val,
      wilsonCentre_val, wilsonSpan_val, id]
    by_cases hz : zz.val < 0
    · have := span_neg n k zz.val hn hkn hz
      rw [if_pos (by linarith), if_pos hz]; rfl
    · have := span_nonneg n k zz.val hn (not_lt.mp hz)
      rw [if_neg (by linarith), if_neg hz]
      simp only [liftI]
      congr 2 <;> apply RR.ext' <;> simp [pLow, pHigh, wilsonCentre_val, wilsonSpan_val]
  | upper l =>
    simp only [Proportion.finish, Interval.new, RR.gt_iff, RR.sub_val, RR.one_val,
      wilsonCentre_val, wilsonSpan_val, id]
    rw [if_neg (by linarith [hhi.1])]
    simp only [liftI]
    congr 2 <;> apply RR.ext' <;> simp [pLow, wilsonCentre_val, wilsonSpan_val]
  | lower l =>
    simp only [Proportion.finish, Interval.new, RR.gt_iff, RR.add_val, RR.zero_val,
      wilsonCentre_val, wilsonSpan_val, id]
    rw [if_neg (by linarith [hlo.2])]
    simp only [liftI]
    congr 2 <;> apply RR.ext' <;> simp [pHigh, wilsonCentre_val, wilsonSpan_val]

/-- the success count computed by the model at `Rex` -/
theorem roundToNat_eq (q : Rex) (n : ℕ) :
    (roundToNat (mul q (Scalar.ofNat n : Rex))) = successes q.val n := by
  simp [successes]

/-- complete case analysis of `ciIndices` at exact real arithmetic -/
theorem ciIndices_eq (crit : Crit Rex) (conf : Confidence Rex) (n : ℕ) (q : Rex)
    (hl : 0 < conf.level.val ∧ conf.level.val < 1) :
    Quantile.ciIndices crit conf n q =
      if ¬(0 < q.val ∧ q.val < 1) then .err (.invalidQuantile q)
      else if n < 4 then .err (.tooFewSamples n)
      else if successes q.val n < 2 then
        .err (.tooFewSuccesses (successes q.val n) n (inj (successes q.val n : ℝ)))
      else if n - successes q.val n < 2 then
        .err (.tooFewFailures (n - successes q.val n) n (inj ((n : ℝ) - (successes q.val n : ℝ))))
      else match (generalizing := false) conf with
        | .twoSided _ =>
            if (crit (.z conf.quantile)).val < 0 then .err (.interval .invalidBounds)
            else .ok (.twoSided (rank n (pLow n (successes q.val n) (crit (.z conf.quantile)).val))
                                (rank n (pHigh n (successes q.val n) (crit (.z conf.quantile)).val)))
        | .upper _ => .ok (.upper (rank n (pLow n (successes q.val n) (crit (.z conf.quantile)).val)))
        | .lower _ => .ok (.lower (rank n (pHigh n (successes q.val n) (crit (.z conf.quantile)).val))) := by
  unfold Quantile.ciIndices
  rw [roundToNat_eq]
  dsimp only
  have hqb : (gt q (zero : Rex) && lt q (one : Rex)) = true ↔ (0 < q.val ∧ q.val < 1) := by simp
  by_cases hq : 0 < q.val ∧ q.val < 1
  swap
  · have hb : (gt q (zero : Rex) && lt q (one : Rex)) = false := by
      rw [Bool.eq_false_iff]; exact fun h => hq (hqb.mp h)
    rw [if_pos hq]
    simp only [hb, Bool.not_false, if_true]
  have hb : (gt q (zero : Rex) && lt q (one : Rex)) = true := hqb.mpr hq
  rw [if_neg (not_not.mpr hq)]
  simp only [hb, Bool.not_true, Bool.false_eq_true, if_false]
  by_cases hn4 : n < 4
  · rw [if_pos hn4, if_pos hn4]
  rw [if_neg hn4, if_neg hn4]
  have hkn := successes_le q.val n hq.2
  set k := successes q.val n with hk
  by_cases hk2 : k < 2
  · rw [if_pos hk2]
    simp only [Proportion.ciWilson, not_lt.mpr hkn, if_false, hk2, if_true, Outcome.bind_err]
    rfl
  rw [if_neg hk2]
  by_cases hf2 : n - k < 2
  · rw [if_pos hf2]
    simp only [Proportion.ciWilson, not_lt.mpr hkn, if_false, hk2, hf2, if_true, Outcome.bind_err]
    rfl
  rw [if_neg hf2]
  have hn : 0 < n := by omega
  have hn0 : n ≠ 0 := by omega
  rw [ciWilson_eq crit conf n k hl hn (by omega) (by omega)]
  set z := (crit (.z conf.quantile)).val with hz
  have hlo := lower_nonneg n k z hn hkn
  have hhi := upper_le_one n k z hn hkn
  cases conf with
  | twoSided l =>
    simp only
    by_cases hz0 : z < 0
    · rw [if_pos hz0, if_pos hz0]; rfl
    rw [if_neg hz0, if_neg hz0]
    have hsp := span_nonneg n k z hn (not_lt.mp hz0)
    simp only [Outcome.bind_ok, Interval.toPair, RR.lt_iff, RR.gt_iff, inj_val, RR.zero_val,
      RR.one_val, pLow, pHigh]
    simp only [not_lt.mpr hlo.1, not_lt.mpr hhi.2, if_false]
    rw [index_eq n _ hn0 (by simpa using hlo.1) (by simpa using hhi.1),
      index_eq n _ hn0 (by simpa using hlo.2) (by simpa using hhi.2)]
    simp only [Outcome.bind_ok, inj_val]
    rw [if_neg (not_lt.mpr (rank_mono n (by linarith)))]
  | upper l =>
    simp only [Outcome.bind_ok, Interval.toPair, RR.lt_iff, RR.gt_iff, inj_val, RR.zero_val,
      RR.one_val, pLow]
    simp only [not_lt.mpr hlo.1, lt_irrefl, if_false]
    rw [index_eq n _ hn0 (by simpa using hlo.1) (by simpa using hhi.1),
      index_eq n _ hn0 (by simp) (by simp)]
    simp only [Outcome.bind_ok, inj_val]
  | lower l =>
    simp only [Outcome.bind_ok, Interval.toPair, RR.lt_iff, RR.gt_iff, inj_val, RR.zero_val,
      RR.one_val, pHigh]
    simp only [not_lt.mpr hhi.2, lt_irrefl, if_false]
    rw [index_eq n _ hn0 (by simp) (by simp),
      index_eq n _ hn0 (by simpa using hlo.2) (by simpa using hhi.2)]
    simp only [Outcome.bind_ok, inj_val]

section branches
variable (crit : Crit Rex) (conf : Confidence Rex) (n : ℕ) (q : Rex)
  (hl : 0 < conf.level.val ∧ conf.level.val < 1)
include hl

theorem ciIndices_invalid (hq : ¬(0 < q.val ∧ q.val < 1)) :
    Quantile.ciIndices crit conf n q = .err (.invalidQuantile q) := by
  rw [ciIndices_eq crit conf n q hl, if_pos hq]

theorem ciIndices_small (hq : 0 < q.val ∧ q.val < 1) (hn : n < 4) :
    Quantile.ciIndices crit conf n q = .err (.tooFewSamples n) := by
  rw [ciIndices_eq crit conf n q hl, if_neg (not_not.mpr hq), if_pos hn]

theorem ciIndices_fewSuccesses (hq : 0 < q.val ∧ q.val < 1) (hn : 4 ≤ n)
    (hk : successes q.val n < 2) :
    Quantile.ciIndices crit conf n q =
      .err (.tooFewSuccesses (successes q.val n) n (inj (successes q.val n : ℝ))) := by
  rw [ciIndices_eq crit conf n q hl, if_neg (not_not.mpr hq), if_neg (not_lt.mpr hn), if_pos hk]

theorem ciIndices_fewFailures (hq : 0 < q.val ∧ q.val < 1) (hn : 4 ≤ n)
    (hk : 2 ≤ successes q.val n) (hf : n - successes q.val n < 2) :
    Quantile.ciIndices crit conf n q =
      .err (.tooFewFailures (n - successes q.val n) n
        (inj ((n : ℝ) - (successes q.val n : ℝ)))) := by
  rw [ciIndices_eq crit conf n q hl, if_neg (not_not.mpr hq), if_neg (not_lt.mpr hn),
    if_neg (not_lt.mpr hk), if_pos hf]

theorem ciIndices_main (hq : 0 < q.val ∧ q.val < 1) (hn : 4 ≤ n)
    (hk : 2 ≤ successes q.val n) (hf : 2 ≤ n - successes q.val n) :
    Quantile.ciIndices crit conf n q =
      match (generalizing := false) conf with
      | .twoSided _ =>
          if (crit (.z conf.quantile)).val < 0 then .err (.interval .invalidBounds)
          else .ok (.twoSided (rank n (pLow n (successes q.val n) (crit (.z conf.quantile)).val))
                              (rank n (pHigh n (successes q.val n) (crit (.z conf.quantile)).val)))
      | .upper _ => .ok (.upper (rank n (pLow n (successes q.val n) (crit (.z conf.quantile)).val)))
      | .lower _ => .ok (.lower (rank n (pHigh n (successes q.val n) (crit (.z conf.quantile)).val))) := by
  rw [ciIndices_eq crit conf n q hl, if_neg (not_not.mpr hq), if_neg (not_lt.mpr hn),
    if_neg (not_lt.mpr hk), if_neg (not_lt.mpr hf)]

/-- what `ciIndices` returns when it succeeds: in-range, ordered ranks of the kind of `conf` -/
theorem ciIndices_ok (idx : Interval ℕ)
    (h : Quantile.ciIndices crit conf n q = .ok idx) :
    (0 < q.val ∧ q.val < 1) ∧ 4 ≤ n ∧ 2 ≤ successes q.val n ∧ 2 ≤ n - successes q.val n ∧
    match (generalizing := false) idx with
    | .twoSided lo hi => lo ≤ hi ∧ hi < n ∧ conf.kind = .twoSided
    | .upper lo => lo < n ∧ conf.kind = .upper
    | .lower hi => hi < n ∧ conf.kind = .lower := by
  by_cases hq : 0 < q.val ∧ q.val < 1
  swap
  · rw [ciIndices_invalid crit conf n q hl hq] at h; cases h
  by_cases hn4 : n < 4
  · rw [ciIndices_small crit conf n q hl hq hn4] at h; cases h
  by_cases hk : successes q.val n < 2
  · rw [ciIndices_fewSuccesses crit conf n q hl hq (by omega) hk] at h; cases h
  by_cases hf : n - successes q.val n < 2
  · rw [ciIndices_fewFailures crit conf n q hl hq (by omega) (by omega) hf] at h; cases h
  rw [ciIndices_main crit conf n q hl hq (by omega) (by omega) (by omega)] at h
  have hn : 0 < n := by omega
  refine ⟨hq, by omega, by omega, by omega, ?_⟩
  cases conf with
  | twoSided l =>
    simp only at h
    by_cases hz : (crit (.z (Confidence.twoSided l).quantile)).val < 0
    · rw [if_pos hz] at h; cases h
    rw [if_neg hz] at h
    cases h
    have hsp := span_nonneg n (successes q.val n) _ hn (not_lt.mp hz)
    exact ⟨rank_mono n (by unfold pLow pHigh; linarith), rank_lt n _ hn, rfl⟩
  | upper l => simp only at h; cases h; exact ⟨rank_lt n _ hn, rfl⟩
  | lower l => simp only at h; cases h; exact ⟨rank_lt n _ hn, rfl⟩

/-- `ciIndices` never panics (valid level) -/
theorem ciIndices_ne_panic (t : String) :
    Quantile.ciIndices crit conf n q ≠ .panic t := by
  by_cases hq : 0 < q.val ∧ q.val < 1
  swap
  · rw [ciIndices_invalid crit conf n q hl hq]; simp
  by_cases hn4 : n < 4
  · rw [ciIndices_small crit conf n q hl hq hn4]; simp
  by_cases hk : successes q.val n < 2
  · rw [ciIndices_fewSuccesses crit conf n q hl hq (by omega) hk]; simp
  by_cases hf : n - successes q.val n < 2
  · rw [ciIndices_fewFailures crit conf n q hl hq (by omega) (by omega) hf]; simp
  rw [ciIndices_main crit conf n q hl hq (by omega) (by omega) (by omega)]
  cases conf with
  | twoSided l => simp only; split_ifs <;> simp
  | upper l => simp
  | lower l => simp

end branches

end Quantile

/-! ### sorting over a linear order -/

namespace Quantile
section sort
variable {T : Type} [LinearOrder T]
attribute [local instance] Cmp.ofLinearOrder

/-- the (stable merge) sort the model applies to the data -/
def sorted (xs : List T) : List T := xs.mergeSort (fun a b => decide (a ≤ b))

theorem sorted_perm (xs : List T) : (sorted xs).Perm xs := List.mergeSort_perm _ _

theorem sorted_length (xs : List T) : (sorted xs).length = xs.length := (sorted_perm xs).length_eq

theorem sorted_pairwise (xs : List T) : (sorted xs).Pairwise (· ≤ ·) := by
  have := List.pairwise_mergeSort (le := fun a b : T => decide (a ≤ b))
    (fun a b c hab hbc => by simpa using le_trans (by simpa using hab) (by simpa using hbc))
    (fun a b => by simpa using le_total a b) xs
  simpa [sorted] using this

theorem mem_sorted (xs : List T) (a : T) : a ∈ sorted xs ↔ a ∈ xs := (sorted_perm xs).mem_iff

/-- sorting forgets the order in which the data were supplied -/
theorem sorted_eq_of_perm {xs ys : List T} (h : xs.Perm ys) : sorted xs = sorted ys :=
  List.Perm.eq_of_pairwise' (r := (· ≤ ·)) (sorted_pairwise xs) (sorted_pairwise ys)
    ((sorted_perm xs).trans (h.trans (sorted_perm ys).symm))

/-- order statistics are monotone in the rank -/
theorem sorted_getElem_le (xs : List T) {i j : ℕ} (hij : i ≤ j) (hj : j < (sorted xs).length) :
    (sorted xs)[i]'(lt_of_le_of_lt hij hj) ≤ (sorted xs)[j] := by
  rcases Nat.eq_or_lt_of_le hij with rfl | hlt
  · exact le_rfl
  · exact List.pairwise_iff_getElem.mp (sorted_pairwise xs) i j _ hj hlt

variable {W : Type} [Scalar W]

omit [Scalar W] in
/-- over a linear order every element is comparable with itself: the sort never panics -/
theorem sortData_eq (xs : List T) :
    (Quantile.sortData xs : Outcome (Err W) (List T)) = .ok (sorted xs) := by
  simp [Quantile.sortData, sorted, Cmp.le]

omit [LinearOrder T] [Scalar W] in
theorem nth_eq (xs : List T) (i : ℕ) (h : i < xs.length) :
    (Quantile.nth xs i : Outcome (Err W) T) = .ok xs[i] := by
  simp [Quantile.nth, h]

omit [Scalar W] in
/-- over a linear order every element is comparable with itself: the self-comparison check of
    `bound` never fires and `bound` is plain element access -/
@[simp] theorem bound_eq_nth (xs : List T) (i : ℕ) :
    (Quantile.bound xs i : Outcome (Err W) T) = Quantile.nth xs i := by
  unfold Quantile.bound
  cases Quantile.nth (W := W) xs i <;> simp [Cmp.le]

/-- `ci_sorted_unchecked` re-checks the quantile and then looks the ranks of `ci_indices` up -/
theorem ciSortedUnchecked_eq_bind (crit : Crit W) (conf : Confidence W) (s : List T) (q : W) :
    Quantile.ciSortedUnchecked crit conf s q =
      (Quantile.ciIndices crit conf s.length q).bind fun idx =>
        match idx with
        | .twoSided lo hi =>
            (nth s lo).bind fun a => (nth s hi).bind fun b => liftI (Interval.new a b)
        | .upper lo => (nth s lo).bind fun a => .ok (.upper a)
        | .lower hi => (nth s hi).bind fun b => .ok (.lower b) := by
  unfold Quantile.ciSortedUnchecked
  simp only [bound_eq_nth]
  by_cases hq : (!(gt q (NumOps.zero : W) && Cmp.lt q (NumOps.one : W))) = true
  · rw [if_pos hq]
    unfold Quantile.ciIndices
    rw [if_pos hq]; rfl
  · rw [if_neg hq]; rfl

omit [Scalar W] in
theorem new_ok {a b : T} (h : a ≤ b) :
    (liftI (Interval.new a b) : Outcome (Err W) (Interval T)) = .ok (.twoSided a b) := by
  simp [Interval.new, not_lt.mpr h, liftI]

/-- `ci` sorts and calls `ci_sorted_unchecked` -/
theorem ci_eq_sorted (crit : Crit W) (conf : Confidence W) (xs : List T) (q : W) :
    Quantile.ci crit conf xs q = Quantile.ciSortedUnchecked crit conf (sorted xs) q := by
  simp [Quantile.ci, sortData_eq]

/-- `ci` in terms of the index-only entry point -/
theorem ci_eq_bind (crit : Crit W) (conf : Confidence W) (xs : List T) (q : W) :
    Quantile.ci crit conf xs q =
      (Quantile.ciIndices crit conf xs.length q).bind fun idx =>
        match idx with
        | .twoSided lo hi =>
            (nth (sorted xs) lo).bind fun a => (nth (sorted xs) hi).bind fun b =>
              liftI (Interval.new a b)
        | .upper lo => (nth (sorted xs) lo).bind fun a => .ok (.upper a)
        | .lower hi => (nth (sorted xs) hi).bind fun b => .ok (.lower b) := by
  rw [ci_eq_sorted, ciSortedUnchecked_eq_bind, sorted_length]

theorem ci_of_indices_err (crit : Crit W) (conf : Confidence W) (xs : List T) (q : W) (e : Err W)
    (h : Quantile.ciIndices crit conf xs.length q = .err e) :
    Quantile.ci crit conf xs q = .err e := by
  rw [ci_eq_bind, h]; rfl

theorem ci_of_indices_ok (crit : Crit Rex) (conf : Confidence Rex) (xs : List T) (q : Rex)
    (hl : 0 < conf.level.val ∧ conf.level.val < 1) (idx : Interval ℕ)
    (h : Quantile.ciIndices crit conf xs.length q = .ok idx) :
    match (generalizing := false) idx with
    | .twoSided lo hi =>
        ∃ (h1 : lo < (sorted xs).length) (h2 : hi < (sorted xs).length),
          Quantile.ci crit conf xs q = .ok (.twoSided (sorted xs)[lo] (sorted xs)[hi]) ∧
          (sorted xs)[lo] ≤ (sorted xs)[hi]
    | .upper lo =>
        ∃ (h1 : lo < (sorted xs).length), Quantile.ci crit conf xs q = .ok (.upper (sorted xs)[lo])
    | .lower hi =>
        ∃ (h2 : hi < (sorted xs).length), Quantile.ci crit conf xs q = .ok (.lower (sorted xs)[hi]) := by
  have hok := ciIndices_ok crit conf xs.length q hl idx h
  obtain ⟨_, _, _, _, hm⟩ := hok
  rw [ci_eq_bind, h, Outcome.bind_ok]
  cases idx with
  | twoSided lo hi =>
    simp only at hm ⊢
    obtain ⟨hle, hhi, _⟩ := hm
    have h2 : hi < (sorted xs).length := by rw [sorted_length]; exact hhi
    have h1 : lo < (sorted xs).length := lt_of_le_of_lt hle h2
    have hs := sorted_getElem_le xs hle h2
    refine ⟨h1, h2, ?_, hs⟩
    rw [nth_eq _ _ h1, nth_eq _ _ h2]
    simp only [Outcome.bind_ok]
    exact new_ok hs
  | upper lo =>
    simp only at hm ⊢
    have h1 : lo < (sorted xs).length := by rw [sorted_length]; exact hm.1
    exact ⟨h1, by rw [nth_eq _ _ h1]; rfl⟩
  | lower hi =>
    simp only at hm ⊢
    have h2 : hi < (sorted xs).length := by rw [sorted_length]; exact hm.1
    exact ⟨h2, by rw [nth_eq _ _ h2]; rfl⟩

end sort
end Quantile
end StatsCI

/-! ### vocabulary of the C03 statements and a concrete instance for non-vacuity -/

namespace StatsCI
namespace QSpec

/-- a confidence level the constructors of `Confidence` accept: strictly between 0 and 1 -/
abbrev ValidLevel (conf : Confidence Rex) : Prop := 0 < conf.level.val ∧ conf.level.val < 1

/-- the critical value the model obtains from the external normal-quantile routine -/
noncomputable abbrev zOf (crit : Crit Rex) (conf : Confidence Rex) : ℝ := (crit (.z conf.quantile)).val

/-- an admissible quantile: strictly between 0 and 1 -/
abbrev ValidQuantile (q : Rex) : Prop := 0 < q.val ∧ q.val < 1

theorem successes_half_ten : successes (1 / 2) 10 = 5 := by
  unfold successes
  have : (1 / 2 : ℝ) * ((10 : ℕ) : ℝ) = ((5 : ℕ) : ℝ) := by norm_num
  rw [this, round_natCast]; rfl

/-- recognising a rank from two-sided bounds on `p·n` -/
theorem rank_eq_of (n m : ℕ) (p : ℝ) (h1 : (m : ℝ) ≤ p * n) (h2 : p * n < m + 1)
    (hm : m ≤ n - 1) : rank n p = m := by
  unfold rank
  have h0 : 0 ≤ p * n := le_trans (Nat.cast_nonneg m) h1
  rw [(Nat.floor_eq_iff h0).mpr ⟨h1, h2⟩]
  exact min_eq_left hm

/-- `n = 10`, `k = 5`, `z = 2`: the Wilson ranks are 2 and 7 -/
theorem ranks_10_5_2 : rank 10 (pLow 10 5 2) = 2 ∧ rank 10 (pHigh 10 5 2) = 7 := by
  have e : ((5 : ℕ) : ℝ) * (((10 : ℕ) : ℝ) - ((5 : ℕ) : ℝ)) / ((10 : ℕ) : ℝ) + (2 : ℝ) ^ 2 / 4
      = 7 / 2 := by norm_num
  have hs1 : (7 / 5 : ℝ) < Real.sqrt (7 / 2) := (Real.lt_sqrt (by norm_num)).mpr (by norm_num)
  have hs2 : Real.sqrt (7 / 2) < (21 / 10 : ℝ) := (Real.sqrt_lt' (by norm_num)).mpr (by norm_num)
  have el : pLow 10 5 2 * ((10 : ℕ) : ℝ) = 5 - 10 / 7 * Real.sqrt (7 / 2) := by
    unfold pLow centre span; rw [e]; push_cast; ring
  have eh : pHigh 10 5 2 * ((10 : ℕ) : ℝ) = 5 + 10 / 7 * Real.sqrt (7 / 2) := by
    unfold pHigh centre span; rw [e]; push_cast; ring
  constructor
  · apply rank_eq_of
    · rw [el]; push_cast; linarith
    · rw [el]; push_cast; linarith
    · norm_num
  · apply rank_eq_of
    · rw [eh]; push_cast; linarith
    · rw [eh]; push_cast; linarith
    · norm_num

/-- `n = 10`, `k = 5`, `z = 1/10`: the Wilson ranks are the adjacent positions 4 and 5 = `k` -/
theorem ranks_10_5_tenth : rank 10 (pLow 10 5 (1 / 10)) = 4 ∧ rank 10 (pHigh 10 5 (1 / 10)) = 5 := by
  have e : ((5 : ℕ) : ℝ) * (((10 : ℕ) : ℝ) - ((5 : ℕ) : ℝ)) / ((10 : ℕ) : ℝ) + (1 / 10 : ℝ) ^ 2 / 4
      = 1001 / 400 := by norm_num
  have hs1 : (0 : ℝ) < Real.sqrt (1001 / 400) := Real.sqrt_pos.mpr (by norm_num)
  have hs2 : Real.sqrt (1001 / 400) < (10 : ℝ) := (Real.sqrt_lt' (by norm_num)).mpr (by norm_num)
  have el : pLow 10 5 (1 / 10) * ((10 : ℕ) : ℝ) = 5 - 100 / 1001 * Real.sqrt (1001 / 400) := by
    unfold pLow centre span; rw [e]; push_cast; ring
  have eh : pHigh 10 5 (1 / 10) * ((10 : ℕ) : ℝ) = 5 + 100 / 1001 * Real.sqrt (1001 / 400) := by
    unfold pHigh centre span; rw [e]; push_cast; ring
  constructor
  · apply rank_eq_of
    · rw [el]; push_cast; linarith
    · rw [el]; push_cast; linarith
    · norm_num
  · apply rank_eq_of
    · rw [eh]; push_cast; linarith
    · rw [eh]; push_cast; linarith
    · norm_num

theorem validLevel_example : ValidLevel (.twoSided (inj (9 / 10))) := by
  show 0 < (9 / 10 : ℝ) ∧ (9 / 10 : ℝ) < 1
  norm_num

end QSpec
end StatsCI
