/-
  StatsCI.Lemmas.WilsonRound — helper lemmas for C02R: forward rounding-error bounds for the
  Wilson score interval (`Proportion.wilsonCentre`, `wilsonSpan`, `finishWilson`, `ciWilson`) and
  the Wald interval (`ciZNormal`, which ends in `finish`) of the model at the carrier `RR fl`,
  against the same functions at exact arithmetic `Rex = RR id`.

  * `RelErr e x' x`  (`|x' - x| ≤ e·|x|`) and its calculus: one rounded operation, product,
    quotient, sum of non-negative numbers, square root;
  * the chains for the Wilson centre and span (relative errors `6.03 u` and `6.56 u`);
  * `finish` (Wald) and `finishWilson` (Wilson: the two bounds are clamped into `[0, 1]`,
    `wLo` / `wHi`) at a general `fl`, signs and order of the rounded quantities under
    `Monotone fl`; every `Ok` result of `ciWilson` has its bounds in `[0, 1]`, for every `fl`;
  * the absolute-error chain for the Wald interval.
-/
import StatsCI.Lemmas.Wilson
import Mathlib.Analysis.Real.Sqrt
import Mathlib.Tactic.Linarith
import Mathlib.Tactic.Ring
import Mathlib.Tactic.FieldSimp
import Mathlib.Tactic.LinearCombination
import Mathlib.Tactic.Positivity
import Mathlib.Tactic.NormNum

set_option linter.unusedSectionVars false
set_option linter.unusedVariables false

namespace StatsCI.WilsonRound
open Real

/-- `x'` approximates `x` with relative error at most `e` -/
def RelErr (e x' x : ℝ) : Prop := |x' - x| ≤ e * |x|

namespace RelErr
variable {e a b x x' y y' : ℝ}

theorem refl (x : ℝ) : RelErr 0 x x := by simp [RelErr]

theorem mono (h : RelErr a x' x) (hae : a ≤ e) : RelErr e x' x :=
  le_trans h (mul_le_mul_of_nonneg_right hae (abs_nonneg x))

theorem of_delta (δ : ℝ) (hδ : |δ| ≤ e) (hx : x' = x * (1 + δ)) : RelErr e x' x := by
  unfold RelErr
  have : x' - x = δ * x := by rw [hx]; ring
  rw [this, abs_mul]
  exact mul_le_mul_of_nonneg_right hδ (abs_nonneg x)

theorem exists_delta (h : RelErr e x' x) (he : 0 ≤ e) : ∃ δ, |δ| ≤ e ∧ x' = x * (1 + δ) := by
  by_cases hx : x = 0
  · subst hx
    refine ⟨0, by simpa using he, ?_⟩
    have h' : |x'| ≤ 0 := by simpa [RelErr] using h
    have : x' = 0 := abs_nonpos_iff.mp h'
    simp [this]
  · refine ⟨(x' - x) / x, ?_, by field_simp; ring⟩
    rw [abs_div, div_le_iff₀ (abs_pos.mpr hx)]
    exact h

/-- absolute form, given a magnitude bound of the target -/
theorem abs_bound (h : RelErr e x' x) (he : 0 ≤ e) {B : ℝ} (hB : |x| ≤ B) : |x' - x| ≤ e * B :=
  le_trans h (mul_le_mul_of_nonneg_left hB he)

/-- one rounded operation: `a ↦ a + u + a u` -/
theorem fl_step {fl : ℝ → ℝ} {u : ℝ} (hfl : ∀ x, |fl x - x| ≤ u * |x|) (hu : 0 ≤ u)
    (h : RelErr a x' x) (ha : 0 ≤ a) (he : a + u + a * u ≤ e) : RelErr e (fl x') x := by
  unfold RelErr at *
  have h1 := hfl x'
  have h2 : |x'| ≤ |x| + a * |x| := by
    have := abs_sub_abs_le_abs_sub x' x
    linarith
  have h3 : |fl x' - x| ≤ |fl x' - x'| + |x' - x| := abs_sub_le _ _ _
  have h4 : u * |x'| ≤ u * (|x| + a * |x|) := mul_le_mul_of_nonneg_left h2 hu
  have h5 : (a + u + a * u) * |x| ≤ e * |x| := mul_le_mul_of_nonneg_right he (abs_nonneg x)
  have e1 : u * (|x| + a * |x|) = u * |x| + a * u * |x| := by ring
  have e2 : (a + u + a * u) * |x| = a * |x| + u * |x| + a * u * |x| := by ring
  rw [e1] at h4; rw [e2] at h5
  linarith

/-- a rounded exact operation -/
theorem fl_exact {fl : ℝ → ℝ} {u : ℝ} (hfl : ∀ x, |fl x - x| ≤ u * |x|) (x : ℝ) :
    RelErr u (fl x) x := hfl x

theorem mul (hx : RelErr a x' x) (hy : RelErr b y' y) (ha : 0 ≤ a) (hb : 0 ≤ b)
    (he : a + b + a * b ≤ e) : RelErr e (x' * y') (x * y) := by
  obtain ⟨α, hα, rfl⟩ := hx.exists_delta ha
  obtain ⟨β, hβ, rfl⟩ := hy.exists_delta hb
  refine of_delta (α + β + α * β) ?_ (by ring)
  have h1 : |α * β| ≤ a * b := by
    rw [abs_mul]; exact mul_le_mul hα hβ (abs_nonneg _) ha
  have h2 : |α + β + α * β| ≤ |α| + |β| + |α * β| := abs_add_three _ _ _
  linarith

theorem div (hx : RelErr a x' x) (hy : RelErr b y' y) (ha : 0 ≤ a) (hb : 0 ≤ b) (hb1 : b < 1)
    (he : a + b ≤ e * (1 - b)) : RelErr e (x' / y') (x / y) := by
  obtain ⟨α, hα, rfl⟩ := hx.exists_delta ha
  obtain ⟨β, hβ, rfl⟩ := hy.exists_delta hb
  have hβl := (_root_.abs_le.mp hβ).1
  have hβ' : 0 < 1 + β := by linarith
  have he0 : 0 ≤ e := by
    by_contra hc
    have hc' : e < 0 := lt_of_not_ge hc
    have : e * (1 - b) < 0 := mul_neg_of_neg_of_pos hc' (by linarith)
    linarith
  refine of_delta ((α - β) / (1 + β)) ?_ ?_
  · rw [abs_div, abs_of_pos hβ', div_le_iff₀ hβ']
    have h1 : |α - β| ≤ |α| + |β| := abs_sub _ _
    have h2 : e * (1 - b) ≤ e * (1 + β) := mul_le_mul_of_nonneg_left (by linarith) he0
    linarith
  · by_cases hy0 : y = 0
    · simp [hy0]
    · have : (1 + β) ≠ 0 := hβ'.ne'
      field_simp
      ring

theorem add_nonneg (hx : RelErr a x' x) (hy : RelErr b y' y) (x0 : 0 ≤ x) (y0 : 0 ≤ y)
    (hae : a ≤ e) (hbe : b ≤ e) : RelErr e (x' + y') (x + y) := by
  unfold RelErr at *
  rw [abs_of_nonneg x0] at hx
  rw [abs_of_nonneg y0] at hy
  rw [abs_of_nonneg (_root_.add_nonneg x0 y0)]
  have e1 : x' + y' - (x + y) = (x' - x) + (y' - y) := by ring
  rw [e1]
  have h1 := abs_add_le (x' - x) (y' - y)
  have h2 := mul_le_mul_of_nonneg_right hae x0
  have h3 := mul_le_mul_of_nonneg_right hbe y0
  linarith

/-- the square root halves the relative error (up to second order) -/
theorem sqrt (hx : RelErr a x' x) (x0 : 0 ≤ x) (ha : 0 ≤ a) (ha1 : a ≤ 1)
    (he : a ≤ e * (2 - a)) : RelErr e (√x') (√x) := by
  obtain ⟨δ, hδ, rfl⟩ := hx.exists_delta ha
  have hδl := (_root_.abs_le.mp hδ).1
  have hδ1 : 0 ≤ 1 + δ := by linarith
  rw [Real.sqrt_mul x0]
  refine of_delta (√(1 + δ) - 1) ?_ (by ring)
  have hr0 : 0 ≤ √(1 + δ) := Real.sqrt_nonneg _
  have hr2 : √(1 + δ) * √(1 + δ) = 1 + δ := Real.mul_self_sqrt hδ1
  generalize √(1 + δ) = r at hr0 hr2
  have hr1 : 1 - a ≤ r := by
    by_contra hc
    have hc' : r < 1 - a := lt_of_not_ge hc
    have h1 : r * r < (1 - a) * (1 - a) := mul_self_lt_mul_self hr0 hc'
    have h2 : (1 - a) * (1 - a) ≤ 1 - a := by nlinarith
    linarith
  have he0 : 0 ≤ e := by
    by_contra hc
    have hc' : e < 0 := lt_of_not_ge hc
    have : e * (2 - a) < 0 := mul_neg_of_neg_of_pos hc' (by linarith)
    linarith
  have hpos : 0 < r + 1 := by linarith
  have key : |r - 1| * (r + 1) = |δ| := by
    rw [← abs_of_pos hpos, ← abs_mul]
    congr 1
    linear_combination hr2
  have h3 : e * (2 - a) ≤ e * (r + 1) := mul_le_mul_of_nonneg_left (by linarith) he0
  have h4 : |r - 1| * (r + 1) ≤ e * (r + 1) := by rw [key]; linarith
  exact le_of_mul_le_mul_right h4 hpos

end RelErr

/-! ## the Wilson centre and span at `RR fl` -/

section wilson
open StatsCI Proportion NumOps Scalar Wilson
variable {fl : ℝ → ℝ} {u : ℝ}

/-- the model's Wilson centre at `RR fl`, every rounding spelled out -/
theorem wilsonCentre_fl_val (n k z : ℝ) :
    (wilsonCentre (⟨n⟩ : RR fl) ⟨k⟩ ⟨z⟩).val
      = fl (fl (k + fl (fl (z * z) / fl (1 + 1))) / fl (n + fl (z * z))) := rfl

/-- the model's Wilson span at `RR fl`, every rounding spelled out -/
theorem wilsonSpan_fl_val (n k z : ℝ) :
    (wilsonSpan (⟨n⟩ : RR fl) ⟨k⟩ ⟨z⟩).val
      = fl (fl (z / fl (n + fl (z * z))) *
          fl (√(fl (fl (fl (k * fl (n - k)) / n)
            + fl (fl (z * z) / fl (fl (1 + 1) + fl (1 + 1))))))) := rfl

theorem usq_le (hu0 : 0 ≤ u) (hu : u ≤ 1 / 1024) : u * u ≤ u / 1024 := by nlinarith

/-- the rounded denominator `n + z²`: two operations -/
theorem den_chain (hfl : ∀ x, |fl x - x| ≤ u * |x|) (hu0 : 0 ≤ u) (hu : u ≤ 1 / 1024)
    {n : ℝ} (hn : 0 ≤ n) (z : ℝ) :
    RelErr (2.001 * u) (fl (n + fl (z * z))) (n + z * z) := by
  have huu := usq_le hu0 hu
  have hzsq : RelErr u (fl (z * z)) (z * z) := hfl _
  have h1 : RelErr u (n + fl (z * z)) (n + z * z) :=
    (RelErr.refl n).add_nonneg hzsq hn (mul_self_nonneg z) hu0 le_rfl
  exact h1.fl_step hfl hu0 hu0 (by linarith)

/-- relative error of the Wilson centre: six rounded operations, `6.03 u` -/
theorem centre_chain (hfl : ∀ x, |fl x - x| ≤ u * |x|) (hu0 : 0 ≤ u) (hu : u ≤ 1 / 1024)
    (h2 : fl 2 = 2) {n k : ℝ} (hn : 0 ≤ n) (hk : 0 ≤ k) (z : ℝ) :
    RelErr (6.03 * u) (wilsonCentre (⟨n⟩ : RR fl) ⟨k⟩ ⟨z⟩).val (centre n k z) := by
  have huu := usq_le hu0 hu
  have e11 : (1 : ℝ) + 1 = 2 := by norm_num
  have hc : centre n k z = (k + z * z / 2) / (n + z * z) := by unfold centre; ring
  rw [wilsonCentre_fl_val, e11, h2, hc]
  have hzsq : RelErr u (fl (z * z)) (z * z) := hfl _
  have h1 : RelErr u (fl (z * z) / 2) (z * z / 2) :=
    hzsq.div (RelErr.refl 2) hu0 le_rfl (by norm_num) (by linarith)
  have h2' : RelErr (2.001 * u) (fl (fl (z * z) / 2)) (z * z / 2) :=
    h1.fl_step hfl hu0 hu0 (by linarith)
  have h3 : RelErr (2.001 * u) (k + fl (fl (z * z) / 2)) (k + z * z / 2) :=
    (RelErr.refl k).add_nonneg h2' hk (div_nonneg (mul_self_nonneg z) (by norm_num)) (by linarith) le_rfl
  have h4 : RelErr (3.003 * u) (fl (k + fl (fl (z * z) / 2))) (k + z * z / 2) :=
    h3.fl_step hfl hu0 (by linarith) (by linarith)
  have h5 := den_chain hfl hu0 hu hn z
  have h6 : RelErr (5.02 * u) (fl (k + fl (fl (z * z) / 2)) / fl (n + fl (z * z)))
      ((k + z * z / 2) / (n + z * z)) :=
    h4.div h5 (by linarith) (by linarith) (by linarith) (by linarith)
  exact h6.fl_step hfl hu0 (by linarith) (by linarith)

/-- relative error of the Wilson span: `6.56 u` -/
theorem span_chain (hfl : ∀ x, |fl x - x| ≤ u * |x|) (hu0 : 0 ≤ u) (hu : u ≤ 1 / 1024)
    (h2 : fl 2 = 2) (h4 : fl 4 = 4) {n k : ℝ} (hn : 0 < n) (hk : 0 ≤ k) (hkn : k ≤ n)
    (hnk : fl (n - k) = n - k) (z : ℝ) :
    RelErr (6.56 * u) (wilsonSpan (⟨n⟩ : RR fl) ⟨k⟩ ⟨z⟩).val (span n k z) := by
  have huu := usq_le hu0 hu
  have e11 : (1 : ℝ) + 1 = 2 := by norm_num
  have e22 : (2 : ℝ) + 2 = 4 := by norm_num
  have hs : span n k z = z / (n + z * z) * √(k * (n - k) / n + z * z / 4) := by
    unfold span; rw [sq]
  rw [wilsonSpan_fl_val, e11, h2, e22, h4, hnk, hs]
  have hzsq : RelErr u (fl (z * z)) (z * z) := hfl _
  -- k (n-k) / n
  have hp : RelErr u (fl (k * (n - k))) (k * (n - k)) := hfl _
  have hq1a : RelErr u (fl (k * (n - k)) / n) (k * (n - k) / n) :=
    hp.div (RelErr.refl n) hu0 le_rfl (by norm_num) (by linarith)
  have hq1 : RelErr (2.001 * u) (fl (fl (k * (n - k)) / n)) (k * (n - k) / n) :=
    hq1a.fl_step hfl hu0 hu0 (by linarith)
  -- z² / 4
  have hq2a : RelErr u (fl (z * z) / 4) (z * z / 4) :=
    hzsq.div (RelErr.refl 4) hu0 le_rfl (by norm_num) (by linarith)
  have hq2 : RelErr (2.001 * u) (fl (fl (z * z) / 4)) (z * z / 4) :=
    hq2a.fl_step hfl hu0 hu0 (by linarith)
  -- the discriminant
  have q1nn : 0 ≤ k * (n - k) / n := div_nonneg (mul_nonneg hk (by linarith)) hn.le
  have q2nn : 0 ≤ z * z / 4 := div_nonneg (mul_self_nonneg z) (by norm_num)
  have hDa : RelErr (2.001 * u) (fl (fl (k * (n - k)) / n) + fl (fl (z * z) / 4))
      (k * (n - k) / n + z * z / 4) := hq1.add_nonneg hq2 q1nn q2nn le_rfl le_rfl
  have hD : RelErr (3.003 * u) (fl (fl (fl (k * (n - k)) / n) + fl (fl (z * z) / 4)))
      (k * (n - k) / n + z * z / 4) := hDa.fl_step hfl hu0 (by linarith) (by linarith)
  -- its square root
  have hra : RelErr (1.51 * u) (√(fl (fl (fl (k * (n - k)) / n) + fl (fl (z * z) / 4))))
      (√(k * (n - k) / n + z * z / 4)) :=
    hD.sqrt (by linarith) (by linarith) (by linarith) (by linarith)
  have hr : RelErr (2.52 * u) (fl (√(fl (fl (fl (k * (n - k)) / n) + fl (fl (z * z) / 4)))))
      (√(k * (n - k) / n + z * z / 4)) := hra.fl_step hfl hu0 (by linarith) (by linarith)
  -- z / (n + z²)
  have hden := den_chain hfl hu0 hu hn.le z
  have haa : RelErr (2.01 * u) (z / fl (n + fl (z * z))) (z / (n + z * z)) :=
    (RelErr.refl z).div hden le_rfl (by linarith) (by linarith) (by linarith)
  have ha : RelErr (3.02 * u) (fl (z / fl (n + fl (z * z)))) (z / (n + z * z)) :=
    haa.fl_step hfl hu0 (by linarith) (by linarith)
  -- the product
  have hm : RelErr (5.55 * u)
      (fl (z / fl (n + fl (z * z))) * fl (√(fl (fl (fl (k * (n - k)) / n) + fl (fl (z * z) / 4)))))
      (z / (n + z * z) * √(k * (n - k) / n + z * z / 4)) :=
    ha.mul hr (by linarith) (by linarith) (by linarith)
  exact hm.fl_step hfl hu0 (by linarith) (by linarith)

/-- the model's Wilson centre evaluated at `RR fl` (a real number); `flCentre id = mCentre` -/
noncomputable abbrev flCentre (fl : ℝ → ℝ) (n k : ℕ) (z : ℝ) : ℝ :=
  (wilsonCentre (⟨n⟩ : RR fl) ⟨k⟩ ⟨z⟩).val
/-- the model's Wilson span evaluated at `RR fl` (a real number); `flSpan id = mSpan` -/
noncomputable abbrev flSpan (fl : ℝ → ℝ) (n k : ℕ) (z : ℝ) : ℝ :=
  (wilsonSpan (⟨n⟩ : RR fl) ⟨k⟩ ⟨z⟩).val

/-! ### consequences of the standard model -/

theorem fl_zero (hfl : ∀ x, |fl x - x| ≤ u * |x|) : fl 0 = 0 := by
  have := hfl 0
  simpa using this

theorem fl_nonneg (hfl : ∀ x, |fl x - x| ≤ u * |x|) (hu1 : u ≤ 1) {x : ℝ} (hx : 0 ≤ x) :
    0 ≤ fl x := by
  have h := (abs_le.mp (hfl x)).1
  rw [abs_of_nonneg hx] at h
  have := mul_le_mul_of_nonneg_right hu1 hx
  linarith

theorem fl_le_of_nonneg (hfl : ∀ x, |fl x - x| ≤ u * |x|) {x : ℝ} (hx : 0 ≤ x) :
    fl x ≤ x + u * x := by
  have h := (abs_le.mp (hfl x)).2
  rw [abs_of_nonneg hx] at h
  linarith

theorem nat_two {n : ℕ} (hnat : ∀ m : ℕ, m ≤ n → fl m = m) (h : 2 ≤ n) : fl 2 = 2 := by
  simpa using hnat 2 h
theorem nat_four {n : ℕ} (hnat : ∀ m : ℕ, m ≤ n → fl m = m) (h : 4 ≤ n) : fl 4 = 4 := by
  simpa using hnat 4 h
theorem nat_one {n : ℕ} (hnat : ∀ m : ℕ, m ≤ n → fl m = m) (h : 1 ≤ n) : fl 1 = 1 := by
  simpa using hnat 1 h
theorem nat_sub {n : ℕ} (hnat : ∀ m : ℕ, m ≤ n → fl m = m) {k : ℕ} (h : k ≤ n) :
    fl ((n : ℝ) - k) = (n : ℝ) - k := by
  have := hnat (n - k) (Nat.sub_le n k)
  rwa [Nat.cast_sub h] at this

/-- Wilson centre on the domain: relative error `6.03 u` -/
theorem flCentre_relErr (hfl : ∀ x, |fl x - x| ≤ u * |x|) (hu0 : 0 ≤ u) (hu : u ≤ 1 / 1024)
    (n k : ℕ) (hnat : ∀ m : ℕ, m ≤ n → fl m = m) (hn : 2 ≤ n) (z : ℝ) :
    RelErr (6.03 * u) (flCentre fl n k z) (centre n k z) :=
  centre_chain hfl hu0 hu (nat_two hnat hn) (Nat.cast_nonneg n) (Nat.cast_nonneg k) z

/-- Wilson span on the domain: relative error `6.56 u` -/
theorem flSpan_relErr (hfl : ∀ x, |fl x - x| ≤ u * |x|) (hu0 : 0 ≤ u) (hu : u ≤ 1 / 1024)
    (n k : ℕ) (hnat : ∀ m : ℕ, m ≤ n → fl m = m) (hn : 4 ≤ n) (hkn : k ≤ n) (z : ℝ) :
    RelErr (6.56 * u) (flSpan fl n k z) (span n k z) :=
  span_chain hfl hu0 hu (nat_two hnat (by omega)) (nat_four hnat hn)
    (by exact_mod_cast (by omega : 0 < n)) (Nat.cast_nonneg k) (by exact_mod_cast hkn)
    (nat_sub hnat hkn) z

/-- from the two relative errors to the absolute error of both rounded bounds, using only
    `0 ≤ centre` and `centre + |span| ≤ 1` -/
theorem bound_err (hfl : ∀ x, |fl x - x| ≤ u * |x|) (hu0 : 0 ≤ u) (hu : u ≤ 1 / 1024)
    {c c' s s' : ℝ} (hc : RelErr (6.03 * u) c' c) (hs : RelErr (6.56 * u) s' s) (c0 : 0 ≤ c)
    (hcs : c + |s| ≤ 1) :
    |fl (c' - s') - (c - s)| ≤ 8 * u ∧ |fl (c' + s') - (c + s)| ≤ 8 * u := by
  have huu := usq_le hu0 hu
  unfold RelErr at hc hs
  rw [abs_of_nonneg c0] at hc
  have huc : 0 ≤ u * c := mul_nonneg hu0 c0
  have hus : 0 ≤ u * |s| := mul_nonneg hu0 (abs_nonneg s)
  have hsum : |c' - c| + |s' - s| ≤ 6.56 * u := by
    have h2 : u * (c + |s|) ≤ u * 1 := mul_le_mul_of_nonneg_left hcs hu0
    have e : u * (c + |s|) = u * c + u * |s| := by ring
    rw [e] at h2
    have e1 : 6.03 * u * c = 6.03 * (u * c) := by ring
    have e2 : 6.56 * u * |s| = 6.56 * (u * |s|) := by ring
    rw [e1] at hc; rw [e2] at hs
    linarith
  have key : ∀ t t' : ℝ, |t| ≤ 1 → |t' - t| ≤ 6.56 * u → |fl t' - t| ≤ 8 * u := by
    intro t t' ht htt
    have h1 := hfl t'
    have h2 : |t'| ≤ 1 + 6.56 * u := by
      have := abs_sub_abs_le_abs_sub t' t
      linarith
    have h3 : u * |t'| ≤ u * (1 + 6.56 * u) := mul_le_mul_of_nonneg_left h2 hu0
    have h4 : |fl t' - t| ≤ |fl t' - t'| + |t' - t| := abs_sub_le _ _ _
    have e : u * (1 + 6.56 * u) = u + 6.56 * (u * u) := by ring
    rw [e] at h3
    linarith
  constructor
  · apply key
    · have := abs_sub c s
      rw [abs_of_nonneg c0] at this
      linarith
    · have e : c' - s' - (c - s) = (c' - c) - (s' - s) := by ring
      rw [e]
      exact (abs_sub _ _).trans hsum
  · apply key
    · have := abs_add_le c s
      rw [abs_of_nonneg c0] at this
      linarith
    · have e : c' + s' - (c + s) = (c' - c) + (s' - s) := by ring
      rw [e]
      exact (abs_add_le _ _).trans hsum

/-! ### signs and order of the rounded Wilson numbers -/

theorem flSpan_nonneg (hfl : ∀ x, |fl x - x| ≤ u * |x|) (hu1 : u ≤ 1) (n k : ℕ) {z : ℝ}
    (hz : 0 ≤ z) : 0 ≤ flSpan fl n k z := by
  have nn := @fl_nonneg fl u hfl hu1
  show 0 ≤ (wilsonSpan (⟨n⟩ : RR fl) ⟨k⟩ ⟨z⟩).val
  rw [wilsonSpan_fl_val]
  apply nn
  apply mul_nonneg
  · apply nn
    apply div_nonneg hz
    apply nn
    exact add_nonneg (Nat.cast_nonneg n) (nn (mul_self_nonneg z))
  · exact nn (Real.sqrt_nonneg _)

theorem flCentre_nonneg (hfl : ∀ x, |fl x - x| ≤ u * |x|) (hu1 : u ≤ 1) (n k : ℕ) (z : ℝ) :
    0 ≤ flCentre fl n k z := by
  have nn := @fl_nonneg fl u hfl hu1
  show 0 ≤ (wilsonCentre (⟨n⟩ : RR fl) ⟨k⟩ ⟨z⟩).val
  rw [wilsonCentre_fl_val]
  apply nn
  apply div_nonneg
  · apply nn
    apply add_nonneg (Nat.cast_nonneg k)
    apply nn
    exact div_nonneg (nn (mul_self_nonneg z)) (nn (by norm_num))
  · apply nn
    exact add_nonneg (Nat.cast_nonneg n) (nn (mul_self_nonneg z))

/-- with a monotone rounding function the rounded centre does not exceed `1` -/
theorem flCentre_le_one (hfl : ∀ x, |fl x - x| ≤ u * |x|) (hu0 : 0 ≤ u) (hu1 : u ≤ 1)
    (hmono : Monotone fl) (n k : ℕ) (hnat : ∀ m : ℕ, m ≤ n → fl m = m) (hn : 2 ≤ n)
    (hkn : k ≤ n) (z : ℝ) : flCentre fl n k z ≤ 1 := by
  have nn := @fl_nonneg fl u hfl hu1
  show (wilsonCentre (⟨n⟩ : RR fl) ⟨k⟩ ⟨z⟩).val ≤ 1
  have e11 : (1 : ℝ) + 1 = 2 := by norm_num
  rw [wilsonCentre_fl_val, e11, nat_two hnat hn]
  have hzs : 0 ≤ fl (z * z) := nn (mul_self_nonneg z)
  have hhalf : fl (fl (z * z) / 2) ≤ fl (z * z) := by
    have h1 := fl_le_of_nonneg hfl (show 0 ≤ fl (z * z) / 2 by linarith)
    have h2 : u * (fl (z * z) / 2) ≤ 1 * (fl (z * z) / 2) :=
      mul_le_mul_of_nonneg_right hu1 (by linarith)
    linarith
  have hkn' : (k : ℝ) ≤ n := by exact_mod_cast hkn
  have hle : fl (k + fl (fl (z * z) / 2)) ≤ fl (n + fl (z * z)) := hmono (by linarith)
  have hden : 0 ≤ fl (n + fl (z * z)) := nn (add_nonneg (Nat.cast_nonneg n) hzs)
  have h1 : fl (k + fl (fl (z * z) / 2)) / fl (n + fl (z * z)) ≤ 1 := div_le_one_of_le₀ hle hden
  have := hmono h1
  rwa [nat_one hnat (by omega)] at this

/-! ### `finish`, `finishWilson`, `zValue`, `ciWilson` at a general `fl` -/

/-- the lower bound `finish` hands to `Interval::new` -/
noncomputable def finLo (fl : ℝ → ℝ) (kd : Kind) (m s : ℝ) : ℝ :=
  match kd with
  | .lower => 0
  | _ => fl (m - s)
/-- the upper bound `finish` hands to `Interval::new` -/
noncomputable def finHi (fl : ℝ → ℝ) (kd : Kind) (m s : ℝ) : ℝ :=
  match kd with
  | .upper => 1
  | _ => fl (m + s)

/-- `finish` returns its two bounds iff they are ordered, else `InvalidBounds` -/
theorem finish_eq (conf : Confidence (RR fl)) (m s : RR fl) :
    finish conf m s =
      if finLo fl conf.kind m.val s.val ≤ finHi fl conf.kind m.val s.val then
        .ok (.twoSided ⟨finLo fl conf.kind m.val s.val⟩ ⟨finHi fl conf.kind m.val s.val⟩)
      else .err (.interval .invalidBounds) := by
  cases conf with
  | twoSided l =>
    simp only [finish, Interval.new, Confidence.kind, finLo, finHi]
    by_cases h : fl (m.val - s.val) ≤ fl (m.val + s.val)
    · have h' : ¬ (fl (m.val + s.val) < fl (m.val - s.val)) := not_lt.mpr h
      simp only [RR.gt_iff, RR.add_val, RR.sub_val, h', h, if_false, if_true, liftI]
      rfl
    · have h' : fl (m.val + s.val) < fl (m.val - s.val) := lt_of_not_ge h
      simp only [RR.gt_iff, RR.add_val, RR.sub_val, h', h, if_false, if_true, liftI]
  | upper l =>
    simp only [finish, Interval.new, Confidence.kind, finLo, finHi]
    by_cases h : fl (m.val - s.val) ≤ 1
    · have h' : ¬ ((1 : ℝ) < fl (m.val - s.val)) := not_lt.mpr h
      simp only [RR.gt_iff, RR.one_val, RR.sub_val, h', h, if_false, if_true, liftI]
      rfl
    · have h' : (1 : ℝ) < fl (m.val - s.val) := lt_of_not_ge h
      simp only [RR.gt_iff, RR.one_val, RR.sub_val, h', h, if_false, if_true, liftI]
  | lower l =>
    simp only [finish, Interval.new, Confidence.kind, finLo, finHi]
    by_cases h : 0 ≤ fl (m.val + s.val)
    · have h' : ¬ (fl (m.val + s.val) < 0) := not_lt.mpr h
      simp only [RR.gt_iff, RR.zero_val, RR.add_val, h', h, if_false, if_true, liftI]
      rfl
    · have h' : fl (m.val + s.val) < 0 := lt_of_not_ge h
      simp only [RR.gt_iff, RR.zero_val, RR.add_val, h', h, if_false, if_true, liftI]

/-- `Interval::new` at `RR fl` -/
theorem liftI_new (a b : RR fl) :
    (liftI (Interval.new a b) : Outcome (Err (RR fl)) (Interval (RR fl))) =
      if a.val ≤ b.val then .ok (.twoSided ⟨a.val⟩ ⟨b.val⟩) else .err (.interval .invalidBounds) := by
  by_cases h : a.val ≤ b.val
  · have h' : ¬ (b.val < a.val) := not_lt.mpr h
    simp only [Interval.new, RR.gt_iff, h', h, if_false, if_true, liftI]
  · have h' : b.val < a.val := lt_of_not_ge h
    simp only [Interval.new, RR.gt_iff, h', h, if_false, if_true, liftI]

/-- the lower bound `finishWilson` (the end of `ci_wilson`) hands to `Interval::new`: the rounded
    `m - s` clamped from below at `0` (`f64::max`) — and, in the upper one-sided arm, from above at
    `1` as well (`.min(1.)`) —, or the far end `0` -/
noncomputable def wLo (fl : ℝ → ℝ) (kd : Kind) (m s : ℝ) : ℝ :=
  match kd with
  | .lower => 0
  | .upper => min (max (fl (m - s)) 0) 1
  | .twoSided => max (fl (m - s)) 0
/-- the upper bound `finishWilson` hands to `Interval::new`: the rounded `m + s` clamped from
    above at `1` (`f64::min`) — and, in the lower one-sided arm, from below at `0` as well —, or the
    far end `1` -/
noncomputable def wHi (fl : ℝ → ℝ) (kd : Kind) (m s : ℝ) : ℝ :=
  match kd with
  | .upper => 1
  | .lower => max (min (fl (m + s)) 1) 0
  | .twoSided => min (fl (m + s)) 1

theorem wLo_nonneg (fl : ℝ → ℝ) (kd : Kind) (m s : ℝ) : 0 ≤ wLo fl kd m s := by
  cases kd <;> simp only [wLo] <;>
    first | exact le_max_right _ _ | exact le_rfl | exact le_min (le_max_right _ _) zero_le_one

theorem wHi_le_one (fl : ℝ → ℝ) (kd : Kind) (m s : ℝ) : wHi fl kd m s ≤ 1 := by
  cases kd <;> simp only [wHi] <;>
    first | exact min_le_right _ _ | exact le_rfl | exact max_le (min_le_right _ _) zero_le_one

/-- the one-sided arms can no longer be inverted: the finite bound lies in `[0, 1]` and the far end
    is `1` resp. `0` -/
theorem wLo_le_wHi_one_sided (fl : ℝ → ℝ) (kd : Kind) (hk : kd ≠ .twoSided) (m s : ℝ) :
    wLo fl kd m s ≤ wHi fl kd m s := by
  cases kd
  · exact absurd rfl hk
  · simp only [wLo, wHi]; exact min_le_right _ _
  · simp only [wLo, wHi]; exact le_max_right _ _

/-- clamping is the identity on proportions: for `0 ≤ m - s ≤ 1` and `0 ≤ m + s ≤ 1` the bounds of
    `finishWilson` in exact arithmetic are those of `finish` -/
theorem wLo_id_eq (kd : Kind) {m s : ℝ} (h : 0 ≤ m - s) (h1 : m - s ≤ 1) :
    wLo id kd m s = finLo id kd m s := by
  cases kd <;> simp only [wLo, finLo, id]
  · exact max_eq_left h
  · rw [max_eq_left h, min_eq_left h1]
theorem wHi_id_eq (kd : Kind) {m s : ℝ} (h : m + s ≤ 1) (h0 : 0 ≤ m + s) :
    wHi id kd m s = finHi id kd m s := by
  cases kd <;> simp only [wHi, finHi, id]
  · exact min_eq_left h
  · rw [min_eq_left h, max_eq_left h0]

/-- `finishWilson` returns its two (clamped) bounds iff they are ordered, else `InvalidBounds` -/
theorem finishWilson_eq (conf : Confidence (RR fl)) (m s : RR fl) :
    finishWilson conf m s =
      if wLo fl conf.kind m.val s.val ≤ wHi fl conf.kind m.val s.val then
        .ok (.twoSided ⟨wLo fl conf.kind m.val s.val⟩ ⟨wHi fl conf.kind m.val s.val⟩)
      else .err (.interval .invalidBounds) := by
  cases conf <;>
    simp only [finishWilson, Confidence.kind, wLo, wHi, liftI_new, fmax_val, fmin_val, RR.sub_val,
      RR.add_val, RR.zero_val, RR.one_val] <;> rfl

/-- the end of `ci_wilson` never panics -/
theorem finishWilson_ne_panic (conf : Confidence (RR fl)) (m s : RR fl) (t : String) :
    finishWilson conf m s ≠ .panic t := by
  rw [finishWilson_eq]
  split <;> simp

/-- whatever `fl` is: an `Ok` result of `finishWilson` is a two-sided interval `[lo, hi]` with
    `0 ≤ lo ≤ hi ≤ 1` -/
theorem finishWilson_ok_unit (conf : Confidence (RR fl)) (m s : RR fl) (iv : Interval (RR fl))
    (h : finishWilson conf m s = .ok iv) :
    ∃ lo hi : RR fl, iv = .twoSided lo hi ∧ 0 ≤ lo.val ∧ lo.val ≤ hi.val ∧ hi.val ≤ 1 := by
  rw [finishWilson_eq] at h
  split at h
  · rename_i hle
    injection h with h
    exact ⟨_, _, h.symm, wLo_nonneg _ _ _ _, hle, wHi_le_one _ _ _ _⟩
  · cases h

/-- whatever `fl`, the oracle, the confidence (valid or not) and the counts are: an `Ok` result of
    `ci_wilson` is a two-sided interval `[lo, hi]` with `0 ≤ lo ≤ hi ≤ 1` -/
theorem ciWilson_ok_unit (crit : Crit (RR fl)) (conf : Confidence (RR fl)) (n k : ℕ)
    (iv : Interval (RR fl)) (h : ciWilson crit conf n k = .ok iv) :
    ∃ lo hi : RR fl, iv = .twoSided lo hi ∧ 0 ≤ lo.val ∧ lo.val ≤ hi.val ∧ hi.val ≤ 1 := by
  simp only [ciWilson] at h
  split_ifs at h
  cases hz : zValue crit conf with
  | ok z =>
    rw [hz, Outcome.bind_ok] at h
    exact finishWilson_ok_unit _ _ _ _ h
  | err e => rw [hz, Outcome.bind_err] at h; cases h
  | panic t => rw [hz, Outcome.bind_panic] at h; cases h

/-- `ci_wilson` once the count tests are passed and `z_value` has answered `z` -/
theorem ciWilson_of_domain_fl (crit : Crit (RR fl)) (conf : Confidence (RR fl)) (n k : ℕ)
    (hnat : ∀ m : ℕ, m ≤ n → fl m = m) (hk : 2 ≤ k) (hkn : k + 2 ≤ n) (z : ℝ)
    (hz : zValue crit conf = .ok ⟨z⟩) :
    ciWilson crit conf n k
      = finishWilson conf (wilsonCentre (⟨n⟩ : RR fl) ⟨k⟩ ⟨z⟩)
          (wilsonSpan (⟨n⟩ : RR fl) ⟨k⟩ ⟨z⟩) := by
  have a : ¬ k > n := by omega
  have b : ¬ k < 2 := by omega
  have c : ¬ n - k < 2 := by omega
  have en : (Scalar.ofNat n : RR fl) = ⟨(n : ℝ)⟩ := RR.ext' (by simp [hnat n le_rfl])
  have ek : (Scalar.ofNat k : RR fl) = ⟨(k : ℝ)⟩ := RR.ext' (by simp [hnat k (by omega)])
  simp only [ciWilson, a, b, c, if_false, hz, Outcome.bind_ok, en, ek]

/-- a constant oracle is returned as it is whenever the probability test passes -/
theorem zValue_constCrit (z : ℝ) (conf : Confidence (RR fl)) (h : probOk conf.quantile = true) :
    zValue (constCrit z) conf = .ok ⟨z⟩ := by
  simp [zValue, h, constCrit]

/-- with a monotone rounding function exact at `1` and `2`, a valid level always yields a
    probability in `[0, 1]` -/
theorem probOk_quantile_fl (hfl : ∀ x, |fl x - x| ≤ u * |x|) (hu1 : u ≤ 1) (hmono : Monotone fl)
    (h1 : fl 1 = 1) (h2 : fl 2 = 2) (conf : Confidence (RR fl)) (l0 : 0 < conf.level.val)
    (l1 : conf.level.val < 1) : probOk conf.quantile = true := by
  have nn := @fl_nonneg fl u hfl hu1
  cases conf with
  | twoSided l =>
    simp only [Confidence.level] at l0 l1
    have e11 : (1 : ℝ) + 1 = 2 := by norm_num
    simp only [probOk, Bool.and_eq_true, RR.le_iff, Confidence.quantile, RR.zero_val, RR.one_val,
      RR.sub_val, RR.div_val, RR.add_val, e11, h2]
    have a0 : 0 ≤ fl (1 - l.val) := nn (by linarith)
    have a1 : fl (1 - l.val) ≤ 1 := by
      have := hmono (show 1 - l.val ≤ 1 by linarith)
      rwa [h1] at this
    have b0 : 0 ≤ fl (fl (1 - l.val) / 2) := nn (by linarith)
    have b1 : fl (fl (1 - l.val) / 2) ≤ 1 := by
      have := hmono (show fl (1 - l.val) / 2 ≤ 1 by linarith)
      rwa [h1] at this
    constructor
    · exact nn (by linarith)
    · have := hmono (show 1 - fl (fl (1 - l.val) / 2) ≤ 1 by linarith)
      rwa [h1] at this
  | upper l =>
    simp only [Confidence.level] at l0 l1
    simp only [probOk, Bool.and_eq_true, RR.le_iff, Confidence.quantile, RR.zero_val, RR.one_val]
    constructor <;> linarith
  | lower l =>
    simp only [Confidence.level] at l0 l1
    simp only [probOk, Bool.and_eq_true, RR.le_iff, Confidence.quantile, RR.zero_val, RR.one_val]
    constructor <;> linarith

/-! ### the exact Wilson numbers on the domain, and closeness of the `finish` bounds -/

/-- `0 ≤ centre ≤ 1`, `centre + |span| ≤ 1`, `|span| ≤ 1/2` for counts `k ≤ n`, `0 < n` -/
theorem centre_span_facts (n k : ℕ) (hn : 0 < n) (hkn : k ≤ n) (z : ℝ) :
    0 ≤ centre n k z ∧ centre n k z ≤ 1 ∧ centre n k z + |span n k z| ≤ 1 ∧
      |span n k z| ≤ 1 / 2 := by
  have hn' : (0 : ℝ) < n := by exact_mod_cast hn
  have hk0 : (0 : ℝ) ≤ k := Nat.cast_nonneg k
  have hkn' : (k : ℝ) ≤ n := by exact_mod_cast hkn
  have a := abs_span_le_centre n k z hn' hk0 hkn'
  have b := centre_add_abs_span_le_one n k z hn' hk0 hkn'
  have c := abs_nonneg (span (n : ℝ) k z)
  refine ⟨by linarith, by linarith, b, by linarith⟩

/-- same constructor, corresponding bounds within `ε` (exact interval first) -/
def Close (ε : ℝ) : Interval Rex → Interval (RR fl) → Prop
  | .twoSided a b, .twoSided a' b' => |a'.val - a.val| ≤ ε ∧ |b'.val - b.val| ≤ ε
  | .upper a, .upper a' => |a'.val - a.val| ≤ ε
  | .lower b, .lower b' => |b'.val - b.val| ≤ ε
  | _, _ => False

/-- clamping a computed bound towards `[0, 1]` never moves it away from another clamped bound -/
theorem abs_max_zero_sub_le (x y : ℝ) : |max x 0 - max y 0| ≤ |x - y| :=
  abs_max_sub_max_le_abs x y 0
theorem abs_min_one_sub_le (x y : ℝ) : |min x 1 - min y 1| ≤ |x - y| := by
  have := abs_min_sub_min_le_max x 1 y 1
  simpa using this

/-- … nor from an exact bound that is a proportion -/
theorem abs_max_zero_sub_le' {x y : ℝ} (hy : 0 ≤ y) : |max x 0 - y| ≤ |x - y| := by
  have := abs_max_zero_sub_le x y
  rwa [max_eq_left hy] at this
theorem abs_min_one_sub_le' {x y : ℝ} (hy : y ≤ 1) : |min x 1 - y| ≤ |x - y| := by
  have := abs_min_one_sub_le x y
  rwa [min_eq_left hy] at this

/-- the (clamped) bounds `finishWilson` forms from the rounded numbers are within `8 u` of those
    it forms from the exact numbers (the far ends `1` and `0` coincide) -/
theorem wfin_close (hfl : ∀ x, |fl x - x| ≤ u * |x|) (hu0 : 0 ≤ u) (hu : u ≤ 1 / 1024)
    (kd : Kind) {c c' s s' : ℝ} (hc : RelErr (6.03 * u) c' c) (hs : RelErr (6.56 * u) s' s)
    (c0 : 0 ≤ c) (hcs : c + |s| ≤ 1) :
    |wLo fl kd c' s' - wLo id kd c s| ≤ 8 * u ∧
      |wHi fl kd c' s' - wHi id kd c s| ≤ 8 * u := by
  obtain ⟨h1, h2⟩ := bound_err hfl hu0 hu hc hs c0 hcs
  have h0 : |(0 : ℝ) - 0| ≤ 8 * u := by simp; linarith
  have h1' : |(1 : ℝ) - 1| ≤ 8 * u := by simp; linarith
  have g1 : |max (fl (c' - s')) 0 - max (id (c - s)) 0| ≤ 8 * u :=
    (abs_max_zero_sub_le _ _).trans h1
  have g2 : |min (fl (c' + s')) 1 - min (id (c + s)) 1| ≤ 8 * u :=
    (abs_min_one_sub_le _ _).trans h2
  have g1' : |min (max (fl (c' - s')) 0) 1 - min (max (id (c - s)) 0) 1| ≤ 8 * u :=
    (abs_min_one_sub_le _ _).trans g1
  have g2' : |max (min (fl (c' + s')) 1) 0 - max (min (id (c + s)) 1) 0| ≤ 8 * u :=
    (abs_max_zero_sub_le _ _).trans g2
  cases kd
  · exact ⟨g1, g2⟩
  · exact ⟨g1', h1'⟩
  · exact ⟨h0, g2'⟩

/-- in exact arithmetic, with `0 ≤ z`, `finishWilson` always gets ordered bounds -/
theorem wfin_ordered_exact (kd : Kind) (n k : ℕ) (hn : 0 < n) (hkn : k ≤ n) {z : ℝ} (hz : 0 ≤ z) :
    wLo id kd (centre n k z) (span n k z) ≤ wHi id kd (centre n k z) (span n k z) := by
  obtain ⟨a, b, c, d⟩ := centre_span_facts n k hn hkn z
  have hs : 0 ≤ span (n : ℝ) k z := span_nonneg _ _ _ (by exact_mod_cast hn) hz
  rw [abs_of_nonneg hs] at c d
  cases kd <;> simp only [wLo, wHi, id]
  · exact max_le (le_min (by linarith) (by linarith)) (le_min (by linarith) zero_le_one)
  · exact min_le_right _ _
  · exact le_max_right _ _

/-- with a monotone rounding function and `0 ≤ z`, so does it at `RR fl` -/
theorem wfin_ordered_fl (hfl : ∀ x, |fl x - x| ≤ u * |x|) (hu0 : 0 ≤ u) (hu1 : u ≤ 1)
    (hmono : Monotone fl) (kd : Kind) (n k : ℕ) (hnat : ∀ m : ℕ, m ≤ n → fl m = m) (hn : 2 ≤ n)
    (hkn : k ≤ n) {z : ℝ} (hz : 0 ≤ z) :
    wLo fl kd (flCentre fl n k z) (flSpan fl n k z)
      ≤ wHi fl kd (flCentre fl n k z) (flSpan fl n k z) := by
  have hs := flSpan_nonneg hfl hu1 n k hz
  have hc0 := flCentre_nonneg hfl hu1 n k z
  have hc1 := flCentre_le_one hfl hu0 hu1 hmono n k hnat hn hkn z
  have o1 : fl (flCentre fl n k z - flSpan fl n k z) ≤ fl (flCentre fl n k z + flSpan fl n k z) :=
    hmono (by linarith)
  have o2 : fl (flCentre fl n k z - flSpan fl n k z) ≤ 1 := by
    have := hmono (show flCentre fl n k z - flSpan fl n k z ≤ 1 by linarith)
    rwa [nat_one hnat (by omega)] at this
  have o3 : 0 ≤ fl (flCentre fl n k z + flSpan fl n k z) := fl_nonneg hfl hu1 (by linarith)
  cases kd <;> simp only [wLo, wHi]
  · exact max_le (le_min o1 o2) (le_min o3 zero_le_one)
  · exact min_le_right _ _
  · exact le_max_right _ _

/-- `ci_wilson` on its domain, at any `fl`: the pair of clamped bounds if ordered, else
    `InvalidBounds` -/
theorem ciWilson_eq_fl (crit : Crit (RR fl)) (conf : Confidence (RR fl)) (n k : ℕ)
    (hnat : ∀ m : ℕ, m ≤ n → fl m = m) (hk : 2 ≤ k) (hkn : k + 2 ≤ n) (z : ℝ)
    (hz : zValue crit conf = .ok ⟨z⟩) :
    ciWilson crit conf n k =
      if wLo fl conf.kind (flCentre fl n k z) (flSpan fl n k z)
          ≤ wHi fl conf.kind (flCentre fl n k z) (flSpan fl n k z) then
        .ok (.twoSided ⟨wLo fl conf.kind (flCentre fl n k z) (flSpan fl n k z)⟩
                       ⟨wHi fl conf.kind (flCentre fl n k z) (flSpan fl n k z)⟩)
      else .err (.interval .invalidBounds) := by
  rw [ciWilson_of_domain_fl crit conf n k hnat hk hkn z hz, finishWilson_eq]

end wilson

/-! ## a rounding function that obeys the standard model but is not monotone -/

section bad
open StatsCI Proportion NumOps Scalar Wilson

/-- exact everywhere except on the open interval `(1/2 - 1/8000, 1/2)`, which is inflated by the
    full relative amount `2⁻¹⁰`: obeys `|fl x - x| ≤ 2⁻¹⁰ |x|`, exact on every natural number,
    **not** monotone (`badFl (1/2 - 1/16000) > badFl (1/2 + 1/16000)`) -/
noncomputable def badFl (x : ℝ) : ℝ :=
  if 1 / 2 - 1 / 8000 < x ∧ x < 1 / 2 then x * (1 + 1 / 1024) else x

theorem badFl_out {x : ℝ} (h : x ≤ 1 / 2 - 1 / 8000 ∨ 1 / 2 ≤ x) : badFl x = x := by
  have : ¬ (1 / 2 - 1 / 8000 < x ∧ x < 1 / 2) := by
    rintro ⟨a, b⟩
    rcases h with h | h <;> linarith
  simp only [badFl, this, if_false]

theorem badFl_in {x : ℝ} (h1 : 1 / 2 - 1 / 8000 < x) (h2 : x < 1 / 2) :
    badFl x = x * (1 + 1 / 1024) := by
  simp only [badFl, h1, h2, and_self, if_true]

theorem badFl_err (x : ℝ) : |badFl x - x| ≤ 1 / 1024 * |x| := by
  by_cases h : 1 / 2 - 1 / 8000 < x ∧ x < 1 / 2
  · rw [badFl_in h.1 h.2]
    have e : x * (1 + 1 / 1024) - x = 1 / 1024 * x := by ring
    rw [e, abs_mul]
    simp
  · simp only [badFl, h, if_false, sub_self, abs_zero]
    positivity

theorem badFl_nat (m : ℕ) : badFl m = m := by
  apply badFl_out
  rcases Nat.eq_zero_or_pos m with h | h
  · left; subst h; norm_num
  · right
    have : (1 : ℝ) ≤ m := by exact_mod_cast h
    linarith

theorem badFl_not_monotone : ¬ Monotone badFl := by
  intro h
  have h1 := h (show (1 / 2 - 1 / 16000 : ℝ) ≤ 1 / 2 + 1 / 16000 by norm_num)
  rw [badFl_in (by norm_num) (by norm_num), badFl_out (Or.inr (by norm_num))] at h1
  norm_num at h1

/-- the witness: `n = 4`, `k = 2`, a two-sided request at level `1/2` answered by `z = 1/4096`.
    In exact arithmetic the interval is `[1/2 - s, 1/2 + s]` with `0 < s < 1/8000`; at `RR badFl`
    every intermediate value is untouched, the lower bound `1/2 - s` is inflated above the upper
    bound `1/2 + s`, the clamp into `[0, 1]` moves neither of them (both lie strictly between `0`
    and `1`), and `Interval::new` rejects the pair. -/
theorem badFl_ciWilson :
    ciWilson (constCrit (1 / 4096) : Crit (RR badFl)) (.twoSided ⟨1 / 2⟩) 4 2
      = .err (.interval .invalidBounds) := by
  have hq : zValue (constCrit (1 / 4096) : Crit (RR badFl)) (.twoSided ⟨1 / 2⟩)
      = .ok ⟨1 / 4096⟩ := by
    apply zValue_constCrit
    simp only [probOk, Bool.and_eq_true, RR.le_iff, Confidence.quantile, RR.zero_val, RR.one_val,
      RR.sub_val, RR.div_val, RR.add_val]
    norm_num [badFl]
  rw [ciWilson_eq_fl _ _ 4 2 (fun m _ => badFl_nat m) (by omega) (by omega) _ hq]
  -- the centre is exactly 1/2
  have hc : flCentre badFl 4 2 (1 / 4096) = 1 / 2 := by
    show (wilsonCentre (⟨((4 : ℕ) : ℝ)⟩ : RR badFl) ⟨((2 : ℕ) : ℝ)⟩ ⟨1 / 4096⟩).val = 1 / 2
    rw [wilsonCentre_fl_val]
    norm_num [badFl]
  -- the span is a · √R with a = z / (4 + z²), R = 1 + z²/4
  have hs : flSpan badFl 4 2 (1 / 4096)
      = (1 / 4096 / (4 + 1 / 16777216)) * √(1 + 1 / 67108864) := by
    show (wilsonSpan (⟨((4 : ℕ) : ℝ)⟩ : RR badFl) ⟨((2 : ℕ) : ℝ)⟩ ⟨1 / 4096⟩).val = _
    rw [wilsonSpan_fl_val]
    have hin : badFl (badFl (badFl (((2 : ℕ) : ℝ) * badFl (((4 : ℕ) : ℝ) - ((2 : ℕ) : ℝ)))
          / ((4 : ℕ) : ℝ))
        + badFl (badFl (1 / 4096 * (1 / 4096)) / badFl (badFl (1 + 1) + badFl (1 + 1))))
        = 1 + 1 / 67108864 := by
      norm_num [badFl]
    have ha : badFl (1 / 4096 / badFl (((4 : ℕ) : ℝ) + badFl (1 / 4096 * (1 / 4096))))
        = 1 / 4096 / (4 + 1 / 16777216) := by
      norm_num [badFl]
    rw [hin, ha]
    have r1 : 1 ≤ √(1 + 1 / 67108864 : ℝ) := by
      rw [Real.one_le_sqrt]; norm_num
    have r2 : √(1 + 1 / 67108864 : ℝ) ≤ 2 := by
      rw [Real.sqrt_le_iff]; norm_num
    have hg : badFl (√(1 + 1 / 67108864 : ℝ)) = √(1 + 1 / 67108864 : ℝ) :=
      badFl_out (Or.inr (by linarith))
    rw [hg]
    apply badFl_out
    left
    have : (1 / 4096 / (4 + 1 / 16777216) : ℝ) * √(1 + 1 / 67108864)
        ≤ 1 / 4096 / (4 + 1 / 16777216) * 2 := mul_le_mul_of_nonneg_left r2 (by norm_num)
    have : (1 / 4096 / (4 + 1 / 16777216) * 2 : ℝ) ≤ 1 / 2 - 1 / 8000 := by norm_num
    linarith
  rw [hc, hs]
  have r1 : 1 ≤ √(1 + 1 / 67108864 : ℝ) := by
    rw [Real.one_le_sqrt]; norm_num
  have r2 : √(1 + 1 / 67108864 : ℝ) ≤ 2 := by
    rw [Real.sqrt_le_iff]; norm_num
  generalize √(1 + 1 / 67108864 : ℝ) = r at r1 r2
  have ht0 : (0 : ℝ) < 1 / 4096 / (4 + 1 / 16777216) * r :=
    mul_pos (by norm_num) (by linarith)
  have ht1 : (1 / 4096 / (4 + 1 / 16777216) : ℝ) * r ≤ 1 / 4096 / (4 + 1 / 16777216) * 2 :=
    mul_le_mul_of_nonneg_left r2 (by norm_num)
  have ht2 : (1 / 4096 / (4 + 1 / 16777216) * 2 : ℝ) ≤ 1 / 8192 := by norm_num
  generalize (1 / 4096 / (4 + 1 / 16777216) : ℝ) * r = t at ht0 ht1 ht2
  have hlo : badFl (1 / 2 - t) = (1 / 2 - t) * (1 + 1 / 1024) :=
    badFl_in (by linarith) (by linarith)
  have hhi : badFl (1 / 2 + t) = 1 / 2 + t := badFl_out (Or.inr (by linarith))
  have hlt : ¬ (wLo badFl (Confidence.kind (.twoSided (⟨1 / 2⟩ : RR badFl))) (1 / 2) t
      ≤ wHi badFl (Confidence.kind (.twoSided (⟨1 / 2⟩ : RR badFl))) (1 / 2) t) := by
    simp only [Confidence.kind, wLo, wHi, hlo, hhi]
    intro h
    have h1 := (le_max_left ((1 / 2 - t) * (1 + 1 / 1024)) 0).trans h
    have h2 := h1.trans (min_le_left _ _)
    linarith
  rw [if_neg hlt]

end bad

/-! ## the Wald interval: absolute-error chain -/

section wald
open StatsCI Proportion NumOps Scalar Wilson
variable {fl : ℝ → ℝ} {u : ℝ}

/-- one rounded operation in absolute terms -/
theorem fl_abs (hfl : ∀ x, |fl x - x| ≤ u * |x|) (hu0 : 0 ≤ u) {a b e B : ℝ}
    (h : |a - b| ≤ e) (hb : |b| ≤ B) : |fl a - b| ≤ e + u * (B + e) := by
  have h1 := hfl a
  have h2 : |a| ≤ B + e := by
    have := abs_sub_abs_le_abs_sub a b
    linarith
  have h3 := mul_le_mul_of_nonneg_left h2 hu0
  have h4 : |fl a - b| ≤ |fl a - a| + |a - b| := abs_sub_le _ _ _
  linarith

/-- `|√y - √x| ≤ |y - x| / √x` for `x > 0` and every real `y` -/
theorem abs_sqrt_sub_mul_le {x y : ℝ} (hx : 0 < x) : |√y - √x| * √x ≤ |y - x| := by
  have sx : 0 < √x := Real.sqrt_pos.mpr hx
  have sxx : √x * √x = x := Real.mul_self_sqrt hx.le
  by_cases hy : 0 ≤ y
  · have syy : √y * √y = y := Real.mul_self_sqrt hy
    have sy : 0 ≤ √y := Real.sqrt_nonneg y
    have e : (√y - √x) * (√y + √x) = y - x := by linear_combination syy - sxx
    have h1 : |√y - √x| * (√y + √x) = |y - x| := by
      rw [← e, abs_mul, abs_of_pos (show 0 < √y + √x by linarith)]
    have h2 : |√y - √x| * √x ≤ |√y - √x| * (√y + √x) :=
      mul_le_mul_of_nonneg_left (by linarith) (abs_nonneg _)
    linarith
  · have hy' : y < 0 := lt_of_not_ge hy
    rw [Real.sqrt_eq_zero_of_nonpos hy'.le, zero_sub, abs_neg, abs_of_pos sx, sxx,
      abs_of_neg (by linarith)]
    linarith

/-- the Wald chain on reals: `p ∈ [0,1]`, `N ≥ 20`, `N p (1-p) ≥ 5` -/
theorem wald_chain (hfl : ∀ x, |fl x - x| ≤ u * |x|) (hu0 : 0 ≤ u) (hu : u ≤ 1 / 1024)
    {p N : ℝ} (hp0 : 0 ≤ p) (hp1 : p ≤ 1) (hN : 20 ≤ N) (hpq : 5 ≤ N * (p * (1 - p))) (z : ℝ) :
    |fl p - p| ≤ u ∧
    |fl (z * fl (√(fl (fl (fl p * fl (1 - fl p)) / N)))) - z * √(p * (1 - p) / N)|
      ≤ 1.05 * |z| * u ∧
    |fl (fl p - fl (z * fl (√(fl (fl (fl p * fl (1 - fl p)) / N)))))
        - (p - z * √(p * (1 - p) / N))| ≤ (2.01 + 1.2 * |z|) * u ∧
    |fl (fl p + fl (z * fl (√(fl (fl (fl p * fl (1 - fl p)) / N)))))
        - (p + z * √(p * (1 - p) / N))| ≤ (2.01 + 1.2 * |z|) * u := by
  have huu := usq_le hu0 hu
  have huu0 : 0 ≤ u * u := mul_nonneg hu0 hu0
  have hN0 : 0 < N := by linarith
  have hq0 : 0 ≤ 1 - p := by linarith
  have hpq4 : p * (1 - p) ≤ 1 / 4 := by nlinarith [sq_nonneg (p - 1 / 2)]
  have hpq0 : 0 < p * (1 - p) := by
    by_contra h
    have h' : p * (1 - p) ≤ 0 := le_of_not_gt h
    have := mul_le_mul_of_nonneg_left h' hN0.le
    linarith
  -- P
  have hP : |fl p - p| ≤ u * p := by
    have := hfl p
    rwa [abs_of_nonneg hp0] at this
  have hup : u * p ≤ u := mul_le_of_le_one_right hu0 hp1
  generalize fl p = P at hP ⊢
  -- Q
  have hQ : |fl (1 - P) - (1 - p)| ≤ 1.001 * u := by
    have h1 : |(1 - P) - (1 - p)| ≤ u * p := by
      have e : (1 - P) - (1 - p) = -(P - p) := by ring
      rw [e, abs_neg]; exact hP
    have h2 : |1 - p| ≤ 1 - p := le_of_eq (abs_of_nonneg hq0)
    have h3 := fl_abs hfl hu0 h1 h2
    have e : u * p + u * (1 - p + u * p) = u + u * u * p := by ring
    have h4 : u * u * p ≤ u * u := mul_le_of_le_one_right huu0 hp1
    rw [e] at h3
    linarith
  generalize fl (1 - P) = Q at hQ ⊢
  -- T
  have hPabs : |P| ≤ 1.001 := by
    have := abs_sub_abs_le_abs_sub P p
    rw [abs_of_nonneg hp0] at this
    linarith
  have hT0 : |P * Q - p * (1 - p)| ≤ 1.26 * u := by
    have e : P * Q - p * (1 - p) = P * (Q - (1 - p)) + (P - p) * (1 - p) := by ring
    have h1 : |P * (Q - (1 - p))| ≤ 1.001 * (1.001 * u) := by
      rw [abs_mul]; exact mul_le_mul hPabs hQ (abs_nonneg _) (by norm_num)
    have h2 : |(P - p) * (1 - p)| ≤ u * p * (1 - p) := by
      rw [abs_mul, abs_of_nonneg hq0]; exact mul_le_mul_of_nonneg_right hP hq0
    have h3 : u * p * (1 - p) ≤ u * (1 / 4) := by
      rw [mul_assoc]; exact mul_le_mul_of_nonneg_left hpq4 hu0
    rw [e]
    have := abs_add_le (P * (Q - (1 - p))) ((P - p) * (1 - p))
    linarith
  have hT : |fl (P * Q) - p * (1 - p)| ≤ 1.52 * u := by
    have h1 := fl_abs hfl hu0 hT0 (show |p * (1 - p)| ≤ 1 / 4 by
      rw [abs_of_pos hpq0]; exact hpq4)
    have e : 1.26 * u + u * (1 / 4 + 1.26 * u) = 1.51 * u + 1.26 * (u * u) := by ring
    rw [e] at h1
    linarith
  generalize fl (P * Q) = T at hT ⊢
  -- V
  have hx0 : 0 < p * (1 - p) / N := div_pos hpq0 hN0
  have hV0 : |T / N - p * (1 - p) / N| * N ≤ 1.52 * u := by
    have e : T / N - p * (1 - p) / N = (T - p * (1 - p)) / N := by ring
    rw [e, abs_div, abs_of_pos hN0, div_mul_cancel₀ _ hN0.ne']
    exact hT
  have hxN : |p * (1 - p) / N| * N ≤ 1 / 4 := by
    rw [abs_div, abs_of_pos hN0, div_mul_cancel₀ _ hN0.ne', abs_of_pos hpq0]
    exact hpq4
  have hV : |fl (T / N) - p * (1 - p) / N| * N ≤ 1.78 * u := by
    have h0 := fl_abs hfl hu0 (le_refl |T / N - p * (1 - p) / N|) (le_refl |p * (1 - p) / N|)
    have h1 := mul_le_mul_of_nonneg_right h0 hN0.le
    have e : (|T / N - p * (1 - p) / N| + u * (|p * (1 - p) / N| + |T / N - p * (1 - p) / N|)) * N
        = |T / N - p * (1 - p) / N| * N + u * (|p * (1 - p) / N| * N)
          + u * (|T / N - p * (1 - p) / N| * N) := by ring
    rw [e] at h1
    have h2 : u * (|p * (1 - p) / N| * N) ≤ u * (1 / 4) := mul_le_mul_of_nonneg_left hxN hu0
    have h3 : u * (|T / N - p * (1 - p) / N| * N) ≤ u * (1.52 * u) :=
      mul_le_mul_of_nonneg_left hV0 hu0
    have e3 : u * (1.52 * u) = 1.52 * (u * u) := by ring
    rw [e3] at h3
    linarith
  generalize fl (T / N) = V at hV ⊢
  -- the square root
  have hsx : 2.2 ≤ √(p * (1 - p) / N) * N := by
    have h1 : 2.2 / N ≤ √(p * (1 - p) / N) := by
      apply Real.le_sqrt_of_sq_le
      rw [div_pow, div_le_div_iff₀ (by positivity) hN0]
      nlinarith
    calc (2.2 : ℝ) = 2.2 / N * N := by field_simp
      _ ≤ √(p * (1 - p) / N) * N := mul_le_mul_of_nonneg_right h1 hN0.le
  have hsd : √(p * (1 - p) / N) ≤ 0.112 := by
    rw [Real.sqrt_le_iff]
    refine ⟨by norm_num, ?_⟩
    rw [div_le_iff₀ hN0]
    nlinarith
  have hsd0 : 0 ≤ √(p * (1 - p) / N) := Real.sqrt_nonneg _
  have hS0 : |√V - √(p * (1 - p) / N)| ≤ 0.81 * u := by
    have h1 := abs_sqrt_sub_mul_le (y := V) hx0
    have h2 := mul_le_mul_of_nonneg_right h1 hN0.le
    have h3 : |√V - √(p * (1 - p) / N)| * 2.2
        ≤ |√V - √(p * (1 - p) / N)| * (√(p * (1 - p) / N) * N) :=
      mul_le_mul_of_nonneg_left hsx (abs_nonneg _)
    have e : |√V - √(p * (1 - p) / N)| * √(p * (1 - p) / N) * N
        = |√V - √(p * (1 - p) / N)| * (√(p * (1 - p) / N) * N) := by ring
    rw [e] at h2
    linarith
  generalize √(p * (1 - p) / N) = sd at hsd hsd0 hS0 ⊢
  have hS : |fl (√V) - sd| ≤ 0.93 * u := by
    have h1 := fl_abs hfl hu0 hS0 (show |sd| ≤ 0.112 by rw [abs_of_nonneg hsd0]; exact hsd)
    have e : 0.81 * u + u * (0.112 + 0.81 * u) = 0.922 * u + 0.81 * (u * u) := by ring
    rw [e] at h1
    linarith
  generalize fl (√V) = S at hS ⊢
  -- W
  have hZ0 : 0 ≤ |z| := abs_nonneg z
  have hZu : 0 ≤ |z| * u := mul_nonneg hZ0 hu0
  have hZuu : |z| * (u * u) ≤ |z| * (u / 1024) := mul_le_mul_of_nonneg_left huu hZ0
  have hZuu0 : 0 ≤ |z| * (u * u) := mul_nonneg hZ0 huu0
  have hW0 : |z * S - z * sd| ≤ 0.93 * |z| * u := by
    have e : z * S - z * sd = z * (S - sd) := by ring
    rw [e, abs_mul]
    have := mul_le_mul_of_nonneg_left hS hZ0
    linarith
  have hw : |z * sd| ≤ 0.112 * |z| := by
    rw [abs_mul, abs_of_nonneg hsd0]
    have := mul_le_mul_of_nonneg_left hsd hZ0
    linarith
  have hW : |fl (z * S) - z * sd| ≤ 1.05 * |z| * u := by
    have h1 := fl_abs hfl hu0 hW0 hw
    have e : 0.93 * |z| * u + u * (0.112 * |z| + 0.93 * |z| * u)
        = 1.042 * (|z| * u) + 0.93 * (|z| * (u * u)) := by ring
    have e2 : 1.05 * |z| * u = 1.05 * (|z| * u) := by ring
    rw [e] at h1; rw [e2]
    have e3 : |z| * (u / 1024) = (|z| * u) / 1024 := by ring
    rw [e3] at hZuu
    linarith
  generalize fl (z * S) = W at hW ⊢
  generalize z * sd = w at hW hw ⊢
  -- the bounds
  have hPu : |P - p| ≤ u := hP.trans hup
  have key : ∀ b B0 : ℝ, |b| ≤ 1 + 0.112 * |z| → |B0 - b| ≤ u + 1.05 * |z| * u →
      |fl B0 - b| ≤ (2.01 + 1.2 * |z|) * u := by
    intro b B0 hb hB
    have h1 := fl_abs hfl hu0 hB hb
    have e : u + 1.05 * |z| * u + u * (1 + 0.112 * |z| + (u + 1.05 * |z| * u))
        = 2 * u + 1.162 * (|z| * u) + u * u + 1.05 * (|z| * (u * u)) := by ring
    have e2 : (2.01 + 1.2 * |z|) * u = 2.01 * u + 1.2 * (|z| * u) := by ring
    have e3 : |z| * (u / 1024) = (|z| * u) / 1024 := by ring
    rw [e3] at hZuu
    rw [e] at h1; rw [e2]
    linarith
  have hpabs : |p| ≤ 1 := by rw [abs_of_nonneg hp0]; exact hp1
  refine ⟨hPu, hW, key _ _ ?_ ?_, key _ _ ?_ ?_⟩
  · have := abs_sub p w
    linarith
  · have e : P - W - (p - w) = (P - p) - (W - w) := by ring
    rw [e]
    have := abs_sub (P - p) (W - w)
    linarith
  · have := abs_add_le p w
    linarith
  · have e : P + W - (p + w) = (P - p) + (W - w) := by ring
    rw [e]
    have := abs_add_le (P - p) (W - w)
    linarith

/-- the model's Wald centre `p̂ = k/n` at `RR fl` -/
noncomputable abbrev flWaldP (fl : ℝ → ℝ) (n k : ℕ) : ℝ := fl ((k : ℝ) / n)
/-- the model's Wald span `z · √(p̂ q̂ / n)` at `RR fl` -/
noncomputable abbrev flWaldW (fl : ℝ → ℝ) (n k : ℕ) (z : ℝ) : ℝ :=
  fl (z * fl (√(fl (fl (fl ((k : ℝ) / n) * fl (1 - fl ((k : ℝ) / n))) / n))))

theorem flWaldP_id (n k : ℕ) : flWaldP id n k = (k : ℝ) / n := rfl
theorem flWaldW_id (n k : ℕ) (z : ℝ) : flWaldW id n k z = z * waldSd n k := rfl

/-- `ci_z_normal` once the count tests are passed and `z_value` has answered `z` -/
theorem ciZNormal_of_domain_fl (crit : Crit (RR fl)) (conf : Confidence (RR fl)) (n k : ℕ)
    (hnat : ∀ m : ℕ, m ≤ n → fl m = m) (hk : 10 ≤ k) (hkn : k + 10 ≤ n) (z : ℝ)
    (hz : zValue crit conf = .ok ⟨z⟩) :
    ciZNormal crit conf n k = finish conf ⟨flWaldP fl n k⟩ ⟨flWaldW fl n k z⟩ := by
  have a : ¬ k > n := by omega
  have b : ¬ k < 10 := by omega
  have c : ¬ n - k < 10 := by omega
  have en : (Scalar.ofNat n : RR fl) = ⟨(n : ℝ)⟩ := RR.ext' (by simp [hnat n le_rfl])
  have ek : (Scalar.ofNat k : RR fl) = ⟨(k : ℝ)⟩ := RR.ext' (by simp [hnat k (by omega)])
  simp only [ciZNormal, a, b, c, if_false, hz, Outcome.bind_ok, en, ek]
  rfl

/-- `ci_z_normal` on its domain, at any `fl`: the pair of bounds if ordered, else `InvalidBounds` -/
theorem ciZNormal_eq_fl (crit : Crit (RR fl)) (conf : Confidence (RR fl)) (n k : ℕ)
    (hnat : ∀ m : ℕ, m ≤ n → fl m = m) (hk : 10 ≤ k) (hkn : k + 10 ≤ n) (z : ℝ)
    (hz : zValue crit conf = .ok ⟨z⟩) :
    ciZNormal crit conf n k =
      if finLo fl conf.kind (flWaldP fl n k) (flWaldW fl n k z)
          ≤ finHi fl conf.kind (flWaldP fl n k) (flWaldW fl n k z) then
        .ok (.twoSided ⟨finLo fl conf.kind (flWaldP fl n k) (flWaldW fl n k z)⟩
                       ⟨finHi fl conf.kind (flWaldP fl n k) (flWaldW fl n k z)⟩)
      else .err (.interval .invalidBounds) := by
  rw [ciZNormal_of_domain_fl crit conf n k hnat hk hkn z hz, finish_eq]

/-- the facts about `p̂ = k/n` the chain needs, from the integer tests `k ≥ 10`, `n - k ≥ 10` -/
theorem wald_facts (n k : ℕ) (hk : 10 ≤ k) (hkn : k + 10 ≤ n) :
    0 ≤ (k : ℝ) / n ∧ (k : ℝ) / n ≤ 1 ∧ (20 : ℝ) ≤ n ∧
      5 ≤ (n : ℝ) * ((k : ℝ) / n * (1 - (k : ℝ) / n)) := by
  have hk' : (10 : ℝ) ≤ k := by exact_mod_cast hk
  have hkn' : (k : ℝ) + 10 ≤ n := by exact_mod_cast hkn
  have hn0 : (0 : ℝ) < n := by linarith
  refine ⟨by positivity, (div_le_one hn0).mpr (by linarith), by linarith, ?_⟩
  have e : (n : ℝ) * ((k : ℝ) / n * (1 - (k : ℝ) / n)) = k * (n - k) / n := by
    field_simp
  rw [e, le_div_iff₀ hn0]
  nlinarith [mul_nonneg (show (0 : ℝ) ≤ k - 10 by linarith) (show (0 : ℝ) ≤ n - k - 10 by linarith)]

/-- the Wald numbers on the domain -/
theorem wald_err (hfl : ∀ x, |fl x - x| ≤ u * |x|) (hu0 : 0 ≤ u) (hu : u ≤ 1 / 1024)
    (n k : ℕ) (hk : 10 ≤ k) (hkn : k + 10 ≤ n) (z : ℝ) :
    |flWaldP fl n k - (k : ℝ) / n| ≤ u ∧
    |flWaldW fl n k z - z * waldSd n k| ≤ 1.05 * |z| * u ∧
    |fl (flWaldP fl n k - flWaldW fl n k z) - ((k : ℝ) / n - z * waldSd n k)|
      ≤ (2.01 + 1.2 * |z|) * u ∧
    |fl (flWaldP fl n k + flWaldW fl n k z) - ((k : ℝ) / n + z * waldSd n k)|
      ≤ (2.01 + 1.2 * |z|) * u := by
  obtain ⟨a, b, c, d⟩ := wald_facts n k hk hkn
  exact wald_chain hfl hu0 hu a b c d z

theorem wald_fin_close (hfl : ∀ x, |fl x - x| ≤ u * |x|) (hu0 : 0 ≤ u) (hu : u ≤ 1 / 1024)
    (kd : Kind) (n k : ℕ) (hk : 10 ≤ k) (hkn : k + 10 ≤ n) (z : ℝ) :
    |finLo fl kd (flWaldP fl n k) (flWaldW fl n k z)
        - finLo id kd ((k : ℝ) / n) (z * waldSd n k)| ≤ (2.01 + 1.2 * |z|) * u ∧
    |finHi fl kd (flWaldP fl n k) (flWaldW fl n k z)
        - finHi id kd ((k : ℝ) / n) (z * waldSd n k)| ≤ (2.01 + 1.2 * |z|) * u := by
  obtain ⟨_, _, h1, h2⟩ := wald_err hfl hu0 hu n k hk hkn z
  have hpos : 0 ≤ (2.01 + 1.2 * |z|) * u := mul_nonneg (by positivity) hu0
  have h0 : |(0 : ℝ) - 0| ≤ (2.01 + 1.2 * |z|) * u := by simpa using hpos
  have h1' : |(1 : ℝ) - 1| ≤ (2.01 + 1.2 * |z|) * u := by simpa using hpos
  cases kd
  · exact ⟨h1, h2⟩
  · exact ⟨h1, h1'⟩
  · exact ⟨h0, h2⟩

theorem wald_ordered_exact (kd : Kind) (n k : ℕ) (hk : 10 ≤ k) (hkn : k + 10 ≤ n) {z : ℝ}
    (hz : 0 ≤ z) :
    finLo id kd ((k : ℝ) / n) (z * waldSd n k) ≤ finHi id kd ((k : ℝ) / n) (z * waldSd n k) := by
  obtain ⟨a, b, _, _⟩ := wald_facts n k hk hkn
  have hw : 0 ≤ z * waldSd n k := mul_nonneg hz (Real.sqrt_nonneg _)
  cases kd <;> simp only [finLo, finHi, id] <;> linarith

theorem wald_ordered_fl (hfl : ∀ x, |fl x - x| ≤ u * |x|) (hu1 : u ≤ 1) (hmono : Monotone fl)
    (kd : Kind) (n k : ℕ) (hnat : ∀ m : ℕ, m ≤ n → fl m = m) (hk : 10 ≤ k) (hkn : k + 10 ≤ n)
    {z : ℝ} (hz : 0 ≤ z) :
    finLo fl kd (flWaldP fl n k) (flWaldW fl n k z)
      ≤ finHi fl kd (flWaldP fl n k) (flWaldW fl n k z) := by
  obtain ⟨a, b, _, _⟩ := wald_facts n k hk hkn
  have nn := @fl_nonneg fl u hfl hu1
  have h1 := nat_one hnat (show 1 ≤ n by omega)
  have hW : 0 ≤ flWaldW fl n k z := nn (mul_nonneg hz (nn (Real.sqrt_nonneg _)))
  have hP0 : 0 ≤ flWaldP fl n k := nn a
  have hP1 : flWaldP fl n k ≤ 1 := by
    have := hmono b
    rwa [h1] at this
  cases kd <;> simp only [finLo, finHi]
  · exact hmono (by linarith)
  · have := hmono (show flWaldP fl n k - flWaldW fl n k z ≤ 1 by linarith)
    rwa [h1] at this
  · exact nn (by linarith)

end wald

end StatsCI.WilsonRound
