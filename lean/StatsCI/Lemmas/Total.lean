/-
  StatsCI.Lemmas.Total — helper lemmas for C06 (critical values) and C11 (totality):
  law classes for comparison and counting, the closed forms of `zValue`/`tValue`/`intervalBounds`,
  the result shapes of `intervalOfKind`/`finish`/`finishWilson` (the clamp of `ci_wilson`: on `XR` and on
  rounded reals every `Ok` lies inside `[0, 1]`), list-level facts about the `extend` loops,
  and propagation of non-finite data through the Kahan registers on `XR`.
-/
import StatsCI.Lemmas.XR
import StatsCI.Lemmas.RR

namespace StatsCI
open NumOps Scalar

/-! ## law classes -/

/-- On finite values the Boolean comparisons form a total preorder and `<` is the strict part of
    `≤`. Nothing is said about arithmetic, nor about non-finite values. -/
class LawfulCmp (α : Type) [Scalar α] : Prop where
  le_refl : ∀ x : α, isFinite x = true → le x x = true
  le_total : ∀ x y : α, isFinite x = true → isFinite y = true → le x y = true ∨ le y x = true
  le_trans : ∀ x y z : α, isFinite x = true → isFinite y = true → isFinite z = true →
    le x y = true → le y z = true → le x z = true
  lt_eq_not_le : ∀ x y : α, isFinite x = true → isFinite y = true → lt x y = !le y x

/-- the one arithmetic sanity fact `ci_mean` relies on: `n − 1 > 0` in the carrier for `n ≥ 2` -/
class LawfulCount (W : Type) [Scalar W] : Prop where
  pred_pos : ∀ n : Nat, 2 ≤ n → gt (sub (Scalar.ofNat n : W) one) (zero : W) = true

instance : LawfulCmp Rex where
  le_refl x _ := by simp
  le_total x y _ _ := by simp [le_total]
  le_trans x y z _ _ _ := by simp only [RR.le_iff]; exact le_trans
  lt_eq_not_le x y _ _ := by
    show decide (x.val < y.val) = !decide (y.val ≤ x.val)
    rw [← decide_not, decide_eq_decide]; exact not_le.symm

instance : LawfulCount Rex where
  pred_pos n hn := by
    have : (2 : ℝ) ≤ n := by exact_mod_cast hn
    simp; linarith

instance : LawfulCmp XR where
  le_refl x hx := by cases x <;> simp_all
  le_total x y hx hy := by cases x <;> cases y <;> simp_all [le_total]
  le_trans x y z hx hy hz := by
    cases x <;> cases y <;> cases z <;> simp_all
    exact le_trans
  lt_eq_not_le x y hx hy := by
    cases x <;> cases y <;> simp_all
    rw [Bool.eq_iff_iff]; simp

instance : LawfulCount XR where
  pred_pos n hn := by
    have : (2 : ℝ) ≤ n := by exact_mod_cast hn
    simp; linarith

/-! ## outcomes -/

namespace Outcome
variable {ε α β : Type}

theorem isPanic_bind {x : Outcome ε α} {f : α → Outcome ε β} (hx : x.isPanic = false)
    (hf : ∀ a, x = .ok a → (f a).isPanic = false) : (x.bind f).isPanic = false := by
  cases x with
  | ok a => exact hf a rfl
  | err e => rfl
  | panic t => exact absurd hx (by simp [isPanic])

theorem bind_eq_ok {x : Outcome ε α} {f : α → Outcome ε β} {b : β} (h : x.bind f = .ok b) :
    ∃ a, x = .ok a ∧ f a = .ok b := by
  cases x with
  | ok a => exact ⟨a, rfl, h⟩
  | err e => cases h
  | panic t => cases h

theorem bind_eq_panic {x : Outcome ε α} {f : α → Outcome ε β} {t : String}
    (h : x.bind f = .panic t) : x = .panic t ∨ ∃ a, x = .ok a ∧ f a = .panic t := by
  cases x with
  | ok a => exact Or.inr ⟨a, rfl, h⟩
  | err e => cases h
  | panic s => left; simpa using h

theorem bind_eq_err {x : Outcome ε α} {f : α → Outcome ε β} {e : ε}
    (h : x.bind f = .err e) : x = .err e ∨ ∃ a, x = .ok a ∧ f a = .err e := by
  cases x with
  | ok a => exact Or.inr ⟨a, rfl, h⟩
  | err e' => left; simpa using h
  | panic s => cases h

@[simp] theorem isPanic_ok (a : α) : (ok a : Outcome ε α).isPanic = false := rfl
@[simp] theorem isPanic_err (e : ε) : (err e : Outcome ε α).isPanic = false := rfl
@[simp] theorem isPanic_panic (t : String) : (panic t : Outcome ε α).isPanic = true := rfl

theorem isPanic_iff (x : Outcome ε α) : x.isPanic = true ↔ ∃ t, x = .panic t := by
  cases x <;> simp [isPanic]

end Outcome

theorem liftI_isPanic {W α : Type} (x : Except IntervalError α) :
    (liftI x : Outcome (Err W) α).isPanic = false := by
  cases x <;> rfl

/-! ## `Interval.new`, `intervalOfKind`, `finish` -/

section shapes
variable {W F : Type}

theorem Interval.new_eq_ok [Cmp F] {lo hi : F} {i : Interval F} (h : Interval.new lo hi = .ok i) :
    i = .twoSided lo hi ∧ gt lo hi = false := by
  unfold Interval.new at h
  by_cases hg : gt lo hi = true
  · simp [hg] at h
  · simp only [hg, Bool.false_eq_true, if_false, Except.ok.injEq] at h
    exact ⟨h.symm, by simpa using hg⟩

theorem liftI_new_eq_ok [Cmp F] {lo hi : F} {i : Interval F}
    (h : (liftI (Interval.new lo hi) : Outcome (Err W) (Interval F)) = .ok i) :
    i = .twoSided lo hi ∧ gt lo hi = false := by
  cases hn : Interval.new lo hi with
  | ok j => rw [hn] at h; simp only [liftI, Outcome.ok.injEq] at h; subst h; exact Interval.new_eq_ok hn
  | error e => rw [hn] at h; simp [liftI] at h

theorem liftI_new_cases [Cmp F] (lo hi : F) :
    ((liftI (Interval.new lo hi) : Outcome (Err W) (Interval F)) = .ok (.twoSided lo hi) ∧
      gt lo hi = false) ∨
    ((liftI (Interval.new lo hi) : Outcome (Err W) (Interval F)) = .err (.interval .invalidBounds) ∧
      gt lo hi = true) := by
  unfold Interval.new
  by_cases hg : gt lo hi = true
  · right; simp [hg, liftI]
  · left; simp [hg, liftI]

theorem intervalOfKind_isPanic [Cmp F] (conf : Confidence W) (lo hi : F) :
    (intervalOfKind conf lo hi : Outcome (Err W) (Interval F)).isPanic = false := by
  cases conf <;> simp [intervalOfKind, liftI_isPanic]

/-- the shape of an `Ok` result of the shared tail of every `ci_mean` -/
theorem intervalOfKind_eq_ok [Cmp F] {conf : Confidence W} {lo hi : F} {i : Interval F}
    (h : (intervalOfKind conf lo hi : Outcome (Err W) (Interval F)) = .ok i) :
    (conf.kind = .twoSided → i = .twoSided lo hi ∧ gt lo hi = false) ∧
    (conf.kind = .upper → i = .upper lo) ∧ (conf.kind = .lower → i = .lower hi) := by
  cases conf <;> simp only [intervalOfKind, Confidence.kind, reduceCtorEq, false_imp_iff,
    true_imp_iff, and_true, true_and] at h ⊢
  · exact liftI_new_eq_ok h
  · simpa [Interval.newUpper] using h.symm
  · simpa [Interval.newLower] using h.symm

/-- the only error the shared tail can produce -/
theorem intervalOfKind_eq_err [Cmp F] {conf : Confidence W} {lo hi : F} {e : Err W}
    (h : (intervalOfKind conf lo hi : Outcome (Err W) (Interval F)) = .err e) :
    e = .interval .invalidBounds ∧ conf.kind = .twoSided ∧ gt lo hi = true := by
  cases conf <;> simp only [intervalOfKind, reduceCtorEq] at h
  rcases liftI_new_cases (W := W) lo hi with ⟨h1, _⟩ | ⟨h1, h2⟩
  · rw [h1] at h; cases h
  · rw [h1] at h; cases h; exact ⟨rfl, rfl, h2⟩

theorem Proportion.finish_isPanic [Scalar W] (conf : Confidence W) (m s : W) :
    (Proportion.finish conf m s).isPanic = false := by
  cases conf <;> simp [Proportion.finish, liftI_isPanic]

/-- every `Ok` proportion interval is two-sided with `¬ lo > hi` -/
theorem Proportion.finish_eq_ok [Scalar W] {conf : Confidence W} {m s : W} {i : Interval W}
    (h : Proportion.finish conf m s = .ok i) :
    ∃ lo hi, i = .twoSided lo hi ∧ gt lo hi = false ∧
      (conf.kind = .twoSided → lo = sub m s ∧ hi = add m s) ∧
      (conf.kind = .upper → lo = sub m s ∧ hi = one) ∧
      (conf.kind = .lower → lo = zero ∧ hi = add m s) := by
  cases conf <;> simp only [Proportion.finish] at h <;>
    obtain ⟨h1, h2⟩ := liftI_new_eq_ok h <;>
    exact ⟨_, _, h1, h2, by simp [Confidence.kind]⟩

theorem Proportion.finish_eq_err [Scalar W] {conf : Confidence W} {m s : W} {e : Err W}
    (h : Proportion.finish conf m s = .err e) : e = .interval .invalidBounds := by
  cases conf <;> simp only [Proportion.finish] at h <;>
  · rename_i l
    first
    | (rcases liftI_new_cases (W := W) (sub m s) (add m s) with ⟨h1, _⟩ | ⟨h1, _⟩ <;>
        rw [h1] at h <;> cases h; rfl)
    | (rcases liftI_new_cases (W := W) (sub m s) (one : W) with ⟨h1, _⟩ | ⟨h1, _⟩ <;>
        rw [h1] at h <;> cases h; rfl)
    | (rcases liftI_new_cases (W := W) (zero : W) (add m s) with ⟨h1, _⟩ | ⟨h1, _⟩ <;>
        rw [h1] at h <;> cases h; rfl)

/-! `finishWilson` (the clamped constructor at the end of `ci_wilson`): the same three facts, with the
    clamped bounds `fmax (m − s) 0` and `fmin (m + s) 1` in the place of `m − s` and `m + s` -/

theorem Proportion.finishWilson_isPanic [Scalar W] (conf : Confidence W) (m s : W) :
    (Proportion.finishWilson conf m s).isPanic = false := by
  cases conf <;> simp [Proportion.finishWilson, liftI_isPanic]

/-- every `Ok` of the clamped constructor is two-sided with `¬ lo > hi`; the bounds are the clamped
    Wilson numbers resp. the far ends `0`, `1` -/
theorem Proportion.finishWilson_eq_ok [Scalar W] {conf : Confidence W} {m s : W} {i : Interval W}
    (h : Proportion.finishWilson conf m s = .ok i) :
    ∃ lo hi, i = .twoSided lo hi ∧ gt lo hi = false ∧
      (conf.kind = .twoSided → lo = fmax (sub m s) zero ∧ hi = fmin (add m s) one) ∧
      (conf.kind = .upper → lo = fmin (fmax (sub m s) zero) one ∧ hi = one) ∧
      (conf.kind = .lower → lo = zero ∧ hi = fmax (fmin (add m s) one) zero) := by
  cases conf <;> simp only [Proportion.finishWilson] at h <;>
    obtain ⟨h1, h2⟩ := liftI_new_eq_ok h <;>
    exact ⟨_, _, h1, h2, by simp [Confidence.kind]⟩

/-- the only error of the clamped constructor is `InvalidBounds`, and it means exactly that the
    (clamped) low bound compares above the (clamped) high bound -/
theorem Proportion.finishWilson_eq_err' [Scalar W] {conf : Confidence W} {m s : W} {e : Err W}
    (h : Proportion.finishWilson conf m s = .err e) :
    e = .interval .invalidBounds ∧ ∃ lo hi, gt lo hi = true ∧
      (conf.kind = .twoSided → lo = fmax (sub m s) zero ∧ hi = fmin (add m s) one) ∧
      (conf.kind = .upper → lo = fmin (fmax (sub m s) zero) one ∧ hi = one) ∧
      (conf.kind = .lower → lo = zero ∧ hi = fmax (fmin (add m s) one) zero) := by
  cases conf <;> simp only [Proportion.finishWilson] at h
  · rcases liftI_new_cases (W := W) (fmax (sub m s) zero) (fmin (add m s) one) with
      ⟨h1, _⟩ | ⟨h1, h2⟩ <;> rw [h1] at h <;> cases h
    exact ⟨rfl, _, _, h2, by simp [Confidence.kind]⟩
  · rcases liftI_new_cases (W := W) (fmin (fmax (sub m s) zero) one) (one : W) with
      ⟨h1, _⟩ | ⟨h1, h2⟩ <;> rw [h1] at h <;> cases h
    exact ⟨rfl, _, _, h2, by simp [Confidence.kind]⟩
  · rcases liftI_new_cases (W := W) (zero : W) (fmax (fmin (add m s) one) zero) with
      ⟨h1, _⟩ | ⟨h1, h2⟩ <;> rw [h1] at h <;> cases h
    exact ⟨rfl, _, _, h2, by simp [Confidence.kind]⟩

theorem Proportion.finishWilson_eq_err [Scalar W] {conf : Confidence W} {m s : W} {e : Err W}
    (h : Proportion.finishWilson conf m s = .err e) : e = .interval .invalidBounds :=
  (Proportion.finishWilson_eq_err' h).1

end shapes

/-! ## critical values: `zValue`, `tValue`, `critReq`, `intervalBounds` -/

section crit
variable {W : Type} [Scalar W]

theorem zValue_eq (crit : Crit W) (conf : Confidence W) (h : probOk conf.quantile = true) :
    zValue crit conf = .ok (crit (.z conf.quantile)) := by
  simp [zValue, h]

theorem zValue_panic (crit : Crit W) (conf : Confidence W) (h : probOk conf.quantile = false) :
    zValue crit conf = .panic "inverse_cdf" := by
  simp [zValue, h]

theorem tValue_eq (crit : Crit W) (conf : Confidence W) (dof : W) (hd : gt dof (zero : W) = true)
    (h : probOk conf.quantile = true) : tValue crit conf dof = .ok (crit (.t dof conf.quantile)) := by
  simp [tValue, h, hd]

theorem critReq_of_lt (conf : Confidence W) (dof : W) (h : lt dof (populationLimit : W) = true) :
    critReq conf dof = .t dof conf.quantile := by simp [critReq, h]

theorem critReq_of_not_lt (conf : Confidence W) (dof : W) (h : lt dof (populationLimit : W) = false) :
    critReq conf dof = .z conf.quantile := by simp [critReq, h]

/-- `interval_bounds` consults exactly the request `critReq conf dof` and returns `mean ∓ c·sem` -/
theorem intervalBounds_eq (crit : Crit W) (conf : Confidence W) (m s dof : W)
    (hq : probOk conf.quantile = true)
    (hd : lt dof (populationLimit : W) = true → gt dof (zero : W) = true) :
    intervalBounds crit conf m s dof =
      .ok (sub m (mul (crit (critReq conf dof)) s), add m (mul (crit (critReq conf dof)) s)) := by
  unfold intervalBounds
  by_cases hl : lt dof (populationLimit : W) = true
  · rw [critReq_of_lt conf dof hl]; simp [hl, tValue_eq crit conf dof (hd hl) hq]
  · have hl' : lt dof (populationLimit : W) = false := by simpa using hl
    rw [critReq_of_not_lt conf dof hl']; simp [hl', zValue_eq crit conf hq]

/-- `interval_bounds` panics exactly when the t distribution is asked for with `dof` not above zero,
    or the probability is rejected by `inverse_cdf` -/
theorem intervalBounds_isPanic_iff (crit : Crit W) (conf : Confidence W) (m s dof : W) :
    (intervalBounds crit conf m s dof).isPanic = true ↔
      (lt dof (populationLimit : W) = true ∧ gt dof (zero : W) = false) ∨
      probOk conf.quantile = false := by
  unfold intervalBounds
  by_cases hl : lt dof (populationLimit : W) = true <;>
    by_cases hg : gt dof (zero : W) = true <;>
    by_cases hq : probOk conf.quantile = true <;>
    simp [hl, hg, hq, tValue, zValue]

theorem intervalBounds_never_err (crit : Crit W) (conf : Confidence W) (m s dof : W) (e : Err W) :
    intervalBounds crit conf m s dof ≠ .err e := by
  unfold intervalBounds
  by_cases hl : lt dof (populationLimit : W) = true <;>
    by_cases hg : gt dof (zero : W) = true <;>
    by_cases hq : probOk conf.quantile = true <;>
    simp [hl, hg, hq, tValue, zValue]

end crit

/-! ## `Arith.ciPrep` / `Arith.ciMean` -/

namespace Arith
variable {F W : Type} [Scalar F] [Scalar W] [Widen F W]

theorem ciPrep_of_lt (a : Arith F) (h : a.count < 2) :
    (ciPrep a : Outcome (Err W) (Prep W)) = .err (.tooFewSamples a.count) := by
  simp [ciPrep, h]

theorem ciPrep_of_nonfinite (a : Arith F) (h : 2 ≤ a.count)
    (hf : isFinite (Widen.up a.mean : W) = false ∨ isFinite (Widen.up a.stdDev : W) = false) :
    (ciPrep a : Outcome (Err W) (Prep W)) = .err .invalidInputData := by
  have : ¬ a.count < 2 := by omega
  rcases hf with hf | hf <;> simp [ciPrep, this, hf]

theorem ciPrep_of_finite (a : Arith F) (h : 2 ≤ a.count)
    (hm : isFinite (Widen.up a.mean : W) = true) (hs : isFinite (Widen.up a.stdDev : W) = true) :
    (ciPrep a : Outcome (Err W) (Prep W)) =
      .ok ⟨Widen.up a.mean, div (Widen.up a.stdDev) (sqrt (Scalar.ofNat a.count)),
        sub (Scalar.ofNat a.count) one⟩ := by
  have : ¬ a.count < 2 := by omega
  simp [ciPrep, this, hm, hs]

theorem ciPrep_eq_ok {a : Arith F} {p : Prep W} (h : (ciPrep a : Outcome (Err W) (Prep W)) = .ok p) :
    2 ≤ a.count ∧ isFinite (Widen.up a.mean : W) = true ∧ isFinite (Widen.up a.stdDev : W) = true ∧
    p = ⟨Widen.up a.mean, div (Widen.up a.stdDev) (sqrt (Scalar.ofNat a.count)),
        sub (Scalar.ofNat a.count) one⟩ := by
  by_cases hc : a.count < 2
  · rw [ciPrep_of_lt a hc] at h; cases h
  have hc : 2 ≤ a.count := by omega
  by_cases hm : isFinite (Widen.up a.mean : W) = true
  · by_cases hs : isFinite (Widen.up a.stdDev : W) = true
    · rw [ciPrep_of_finite a hc hm hs] at h
      simp only [Outcome.ok.injEq] at h
      exact ⟨hc, hm, hs, h.symm⟩
    · rw [ciPrep_of_nonfinite a hc (Or.inr (by simpa using hs))] at h; cases h
  · rw [ciPrep_of_nonfinite a hc (Or.inl (by simpa using hm))] at h; cases h

theorem ciPrep_isPanic (a : Arith F) : (ciPrep a : Outcome (Err W) (Prep W)).isPanic = false := by
  unfold ciPrep
  split
  · rfl
  · dsimp only
    split <;> rfl

/-- the critical value `ci_mean` uses on a state that passes the guards -/
def critOf (crit : Crit W) (a : Arith F) (conf : Confidence W) : W :=
  crit (critReq conf (sub (Scalar.ofNat a.count) one))

/-- closed form of `ci_mean` on a state that passes the guards -/
theorem ciMean_eq [LawfulCount W] (crit : Crit W) (a : Arith F) (conf : Confidence W)
    (h : 2 ≤ a.count) (hm : isFinite (Widen.up a.mean : W) = true)
    (hs : isFinite (Widen.up a.stdDev : W) = true) (hq : probOk conf.quantile = true) :
    ciMean crit a conf =
      intervalOfKind conf
        (Widen.down (sub (Widen.up a.mean : W)
          (mul (critOf crit a conf) (div (Widen.up a.stdDev) (sqrt (Scalar.ofNat a.count))))) : F)
        (Widen.down (add (Widen.up a.mean : W)
          (mul (critOf crit a conf) (div (Widen.up a.stdDev) (sqrt (Scalar.ofNat a.count))))) : F) := by
  unfold ciMean
  rw [ciPrep_of_finite a h hm hs]
  simp only [Outcome.bind_ok]
  rw [intervalBounds_eq crit conf _ _ _ hq (fun _ => LawfulCount.pred_pos a.count h)]
  rfl

theorem ciMean_isPanic [LawfulCount W] (crit : Crit W) (a : Arith F) (conf : Confidence W)
    (hq : probOk conf.quantile = true) : (ciMean crit a conf).isPanic = false := by
  unfold ciMean
  refine Outcome.isPanic_bind (ciPrep_isPanic a) fun p hp => ?_
  obtain ⟨h2, _, _, rfl⟩ := ciPrep_eq_ok hp
  rw [intervalBounds_eq crit conf _ _ _ hq (fun _ => LawfulCount.pred_pos a.count h2)]
  exact intervalOfKind_isPanic _ _ _

end Arith

/-! ## proportions -/

namespace Proportion
variable {W : Type} [Scalar W]

theorem ciWilson_of_gt (crit : Crit W) (conf : Confidence W) {n k : Nat} (h : n < k) :
    ciWilson crit conf n k = .err (.invalidSuccesses k n) := by
  simp [ciWilson, h]

theorem ciWilson_of_few_successes (crit : Crit W) (conf : Confidence W) {n k : Nat} (h : k ≤ n)
    (h2 : k < 2) : ciWilson crit conf n k = .err (.tooFewSuccesses k n (Scalar.ofNat k)) := by
  simp [ciWilson, Nat.not_lt.mpr h, h2]

theorem ciWilson_of_few_failures (crit : Crit W) (conf : Confidence W) {n k : Nat} (h : k ≤ n)
    (h2 : 2 ≤ k) (h3 : n - k < 2) :
    ciWilson crit conf n k =
      .err (.tooFewFailures (n - k) n (sub (Scalar.ofNat n) (Scalar.ofNat k))) := by
  simp [ciWilson, Nat.not_lt.mpr h, Nat.not_lt.mpr h2, h3]

theorem ciWilson_of_guards (crit : Crit W) (conf : Confidence W) {n k : Nat} (h : k ≤ n)
    (h2 : 2 ≤ k) (h3 : 2 ≤ n - k) :
    ciWilson crit conf n k = (zValue crit conf).bind fun z =>
      finishWilson conf (wilsonCentre (Scalar.ofNat n) (Scalar.ofNat k) z)
        (wilsonSpan (Scalar.ofNat n) (Scalar.ofNat k) z) := by
  simp [ciWilson, Nat.not_lt.mpr h, Nat.not_lt.mpr h2, Nat.not_lt.mpr h3]

theorem ciWilson_cases (crit : Crit W) (conf : Confidence W) (n k : Nat) :
    ciWilson crit conf n k = .err (.invalidSuccesses k n) ∨
    ciWilson crit conf n k = .err (.tooFewSuccesses k n (Scalar.ofNat k)) ∨
    ciWilson crit conf n k = .err (.tooFewFailures (n - k) n (sub (Scalar.ofNat n) (Scalar.ofNat k))) ∨
    (k ≤ n ∧ 2 ≤ k ∧ 2 ≤ n - k ∧ ciWilson crit conf n k = (zValue crit conf).bind fun z =>
      finishWilson conf (wilsonCentre (Scalar.ofNat n) (Scalar.ofNat k) z)
        (wilsonSpan (Scalar.ofNat n) (Scalar.ofNat k) z)) := by
  by_cases h : n < k
  · exact Or.inl (ciWilson_of_gt crit conf h)
  have h : k ≤ n := by omega
  by_cases h2 : k < 2
  · exact Or.inr (Or.inl (ciWilson_of_few_successes crit conf h h2))
  have h2 : 2 ≤ k := by omega
  by_cases h3 : n - k < 2
  · exact Or.inr (Or.inr (Or.inl (ciWilson_of_few_failures crit conf h h2 h3)))
  have h3 : 2 ≤ n - k := by omega
  exact Or.inr (Or.inr (Or.inr ⟨h, h2, h3, ciWilson_of_guards crit conf h h2 h3⟩))

theorem ciWilson_isPanic (crit : Crit W) (conf : Confidence W) (n k : Nat)
    (hq : probOk conf.quantile = true) : (ciWilson crit conf n k).isPanic = false := by
  rcases ciWilson_cases crit conf n k with h | h | h | ⟨_, _, _, h⟩ <;> rw [h] <;> try rfl
  rw [zValue_eq crit conf hq]
  exact finishWilson_isPanic _ _ _

/-- the only panic of `ci_wilson`: the guards pass and `inverse_cdf` rejects the probability -/
theorem ciWilson_isPanic_iff (crit : Crit W) (conf : Confidence W) (n k : Nat) :
    (ciWilson crit conf n k).isPanic = true ↔
      k ≤ n ∧ 2 ≤ k ∧ 2 ≤ n - k ∧ probOk conf.quantile = false := by
  by_cases hq : probOk conf.quantile = true
  · simp [ciWilson_isPanic crit conf n k hq, hq]
  have hq : probOk conf.quantile = false := by simpa using hq
  by_cases h : n < k
  · rw [ciWilson_of_gt crit conf h]; simp; omega
  have h : k ≤ n := by omega
  by_cases h2 : k < 2
  · rw [ciWilson_of_few_successes crit conf h h2]; simp; omega
  have h2 : 2 ≤ k := by omega
  by_cases h3 : n - k < 2
  · rw [ciWilson_of_few_failures crit conf h h2 h3]; simp; omega
  have h3 : 2 ≤ n - k := by omega
  rw [ciWilson_of_guards crit conf h h2 h3, zValue_panic crit conf hq]
  simp [h, h2, h3, hq]

theorem ciWilson_eq_ok {crit : Crit W} {conf : Confidence W} {n k : Nat} {i : Interval W}
    (h : ciWilson crit conf n k = .ok i) :
    k ≤ n ∧ 2 ≤ k ∧ 2 ≤ n - k ∧ probOk conf.quantile = true ∧
    ∃ lo hi, i = .twoSided lo hi ∧ gt lo hi = false := by
  rcases ciWilson_cases crit conf n k with h' | h' | h' | ⟨h1, h2, h3, h'⟩ <;> rw [h'] at h <;>
    try cases h
  by_cases hq : probOk conf.quantile = true
  · rw [zValue_eq crit conf hq] at h
    obtain ⟨lo, hi, hi1, hi2, _⟩ := finishWilson_eq_ok h
    exact ⟨h1, h2, h3, hq, lo, hi, hi1, hi2⟩
  · rw [zValue_panic crit conf (by simpa using hq)] at h; cases h

/-- an `Ok` of `ci_wilson` is the `Ok` of the clamped constructor on the Wilson numbers at the one
    critical value the oracle supplies -/
theorem ciWilson_eq_ok' {crit : Crit W} {conf : Confidence W} {n k : Nat} {i : Interval W}
    (h : ciWilson crit conf n k = .ok i) :
    k ≤ n ∧ 2 ≤ k ∧ 2 ≤ n - k ∧ probOk conf.quantile = true ∧
    finishWilson conf (wilsonCentre (Scalar.ofNat n) (Scalar.ofNat k) (crit (.z conf.quantile)))
      (wilsonSpan (Scalar.ofNat n) (Scalar.ofNat k) (crit (.z conf.quantile))) = .ok i := by
  obtain ⟨h1, h2, h3, hq, _⟩ := ciWilson_eq_ok h
  rw [ciWilson_of_guards crit conf h1 h2 h3, zValue_eq crit conf hq] at h
  exact ⟨h1, h2, h3, hq, h⟩

/-- the `InvalidBounds` error of `ci_wilson` means that the clamped low bound compares above the
    clamped high bound (resp. above `1`, resp. `0` above the clamped high bound) -/
theorem ciWilson_eq_invalidBounds {crit : Crit W} {conf : Confidence W} {n k : Nat}
    (h : ciWilson crit conf n k = .err (.interval .invalidBounds)) :
    k ≤ n ∧ 2 ≤ k ∧ 2 ≤ n - k ∧ probOk conf.quantile = true ∧ ∃ lo hi : W, gt lo hi = true ∧
      (conf.kind = .twoSided →
        lo = fmax (sub (wilsonCentre (Scalar.ofNat n) (Scalar.ofNat k) (crit (.z conf.quantile)))
          (wilsonSpan (Scalar.ofNat n) (Scalar.ofNat k) (crit (.z conf.quantile)))) zero ∧
        hi = fmin (add (wilsonCentre (Scalar.ofNat n) (Scalar.ofNat k) (crit (.z conf.quantile)))
          (wilsonSpan (Scalar.ofNat n) (Scalar.ofNat k) (crit (.z conf.quantile)))) one) ∧
      (conf.kind = .upper →
        lo = fmin (fmax (sub (wilsonCentre (Scalar.ofNat n) (Scalar.ofNat k) (crit (.z conf.quantile)))
          (wilsonSpan (Scalar.ofNat n) (Scalar.ofNat k) (crit (.z conf.quantile)))) zero) one ∧
        hi = one) ∧
      (conf.kind = .lower → lo = zero ∧
        hi = fmax (fmin (add (wilsonCentre (Scalar.ofNat n) (Scalar.ofNat k) (crit (.z conf.quantile)))
          (wilsonSpan (Scalar.ofNat n) (Scalar.ofNat k) (crit (.z conf.quantile)))) one) zero) := by
  by_cases h1 : n < k
  · rw [ciWilson_of_gt crit conf h1] at h; cases h
  have h1 : k ≤ n := by omega
  by_cases h2 : k < 2
  · rw [ciWilson_of_few_successes crit conf h1 h2] at h; cases h
  have h2 : 2 ≤ k := by omega
  by_cases h3 : n - k < 2
  · rw [ciWilson_of_few_failures crit conf h1 h2 h3] at h; cases h
  have h3 : 2 ≤ n - k := by omega
  rw [ciWilson_of_guards crit conf h1 h2 h3] at h
  by_cases hq : probOk conf.quantile = true
  · rw [zValue_eq crit conf hq] at h
    exact ⟨h1, h2, h3, hq, (finishWilson_eq_err' h).2⟩
  · rw [zValue_panic crit conf (by simpa using hq)] at h; cases h

/-- every error of `ci_wilson` is one of the four documented classes -/
theorem ciWilson_eq_err {crit : Crit W} {conf : Confidence W} {n k : Nat} {e : Err W}
    (h : ciWilson crit conf n k = .err e) :
    (n < k ∧ e = .invalidSuccesses k n) ∨
    (k ≤ n ∧ k < 2 ∧ e = .tooFewSuccesses k n (Scalar.ofNat k)) ∨
    (k ≤ n ∧ 2 ≤ k ∧ n - k < 2 ∧ e = .tooFewFailures (n - k) n (sub (Scalar.ofNat n) (Scalar.ofNat k))) ∨
    (k ≤ n ∧ 2 ≤ k ∧ 2 ≤ n - k ∧ e = .interval .invalidBounds) := by
  by_cases h1 : n < k
  · rw [ciWilson_of_gt crit conf h1] at h; cases h; exact Or.inl ⟨h1, rfl⟩
  have h1 : k ≤ n := by omega
  by_cases h2 : k < 2
  · rw [ciWilson_of_few_successes crit conf h1 h2] at h; cases h; exact Or.inr (Or.inl ⟨h1, h2, rfl⟩)
  have h2 : 2 ≤ k := by omega
  by_cases h3 : n - k < 2
  · rw [ciWilson_of_few_failures crit conf h1 h2 h3] at h; cases h
    exact Or.inr (Or.inr (Or.inl ⟨h1, h2, h3, rfl⟩))
  have h3 : 2 ≤ n - k := by omega
  rw [ciWilson_of_guards crit conf h1 h2 h3] at h
  by_cases hq : probOk conf.quantile = true
  · rw [zValue_eq crit conf hq] at h
    exact Or.inr (Or.inr (Or.inr ⟨h1, h2, h3, finishWilson_eq_err h⟩))
  · rw [zValue_panic crit conf (by simpa using hq)] at h; cases h

theorem ciWilsonRatio_of_nonpos (crit : Crit W) (conf : Confidence W) (n : Nat) {rate : W}
    (h : le rate (zero : W) = true) :
    ciWilsonRatio crit conf n rate = .err (.nonPositiveValue rate) := by
  simp [ciWilsonRatio, h]

theorem ciWilsonRatio_of_pos (crit : Crit W) (conf : Confidence W) (n : Nat) {rate : W}
    (h : le rate (zero : W) = false) :
    ciWilsonRatio crit conf n rate =
      ciWilson crit conf n (roundToNat (mul rate (Scalar.ofNat n))) := by
  simp [ciWilsonRatio, h]

theorem ciWilsonRatio_isPanic (crit : Crit W) (conf : Confidence W) (n : Nat) (rate : W)
    (hq : probOk conf.quantile = true) : (ciWilsonRatio crit conf n rate).isPanic = false := by
  by_cases h : le rate (zero : W) = true
  · rw [ciWilsonRatio_of_nonpos crit conf n h]; rfl
  · rw [ciWilsonRatio_of_pos crit conf n (by simpa using h)]; exact ciWilson_isPanic _ _ _ _ hq

/-- the Wald statistics: `p = k/n`, `q = 1 − p`, `sd = sqrt(p·q/n)` in the crate's operation order -/
def waldP (n k : Nat) : W := div (Scalar.ofNat k) (Scalar.ofNat n)
def waldQ (n k : Nat) : W := sub one (waldP n k)
def waldSd (n k : Nat) : W := sqrt (div (mul (waldP n k) (waldQ n k)) (Scalar.ofNat n))

theorem ciZNormal_cases (crit : Crit W) (conf : Confidence W) (n k : Nat) :
    (n < k ∧ ciZNormal crit conf n k = .err (.invalidSuccesses k n)) ∨
    (k ≤ n ∧ k < 10 ∧ ciZNormal crit conf n k =
      .err (.tooFewSuccesses k n (mul (Scalar.ofNat n) (waldP n k)))) ∨
    (k ≤ n ∧ 10 ≤ k ∧ n - k < 10 ∧ ciZNormal crit conf n k =
      .err (.tooFewFailures (n - k) n (mul (Scalar.ofNat n) (waldQ n k)))) ∨
    (k ≤ n ∧ 10 ≤ k ∧ 10 ≤ n - k ∧ ciZNormal crit conf n k = (zValue crit conf).bind fun z =>
      finish conf (waldP n k) (mul z (waldSd n k))) := by
  by_cases h : n < k
  · exact Or.inl ⟨h, by simp [ciZNormal, h]⟩
  have h' : k ≤ n := by omega
  by_cases h2 : k < 10
  · exact Or.inr (Or.inl ⟨h', h2, by simp [ciZNormal, h, h2, waldP]⟩)
  have h2' : 10 ≤ k := by omega
  by_cases h3 : n - k < 10
  · exact Or.inr (Or.inr (Or.inl ⟨h', h2', h3, by simp [ciZNormal, h, h2, h3, waldP, waldQ]⟩))
  have h3' : 10 ≤ n - k := by omega
  exact Or.inr (Or.inr (Or.inr ⟨h', h2', h3', by simp [ciZNormal, h, h2, h3, waldP, waldQ, waldSd]⟩))

theorem ciZNormal_isPanic (crit : Crit W) (conf : Confidence W) (n k : Nat)
    (hq : probOk conf.quantile = true) : (ciZNormal crit conf n k).isPanic = false := by
  rcases ciZNormal_cases crit conf n k with ⟨_, h⟩ | ⟨_, _, h⟩ | ⟨_, _, _, h⟩ | ⟨_, _, _, h⟩ <;>
    rw [h] <;> try rfl
  rw [zValue_eq crit conf hq]
  exact finish_isPanic _ _ _

theorem ciZNormal_eq_ok {crit : Crit W} {conf : Confidence W} {n k : Nat} {i : Interval W}
    (h : ciZNormal crit conf n k = .ok i) :
    k ≤ n ∧ 10 ≤ k ∧ 10 ≤ n - k ∧ probOk conf.quantile = true ∧
    ∃ lo hi, i = .twoSided lo hi ∧ gt lo hi = false := by
  rcases ciZNormal_cases crit conf n k with ⟨_, h'⟩ | ⟨_, _, h'⟩ | ⟨_, _, _, h'⟩ | ⟨h1, h2, h3, h'⟩ <;>
    rw [h'] at h <;> try cases h
  by_cases hq : probOk conf.quantile = true
  · rw [zValue_eq crit conf hq] at h
    obtain ⟨lo, hi, hi1, hi2, _⟩ := finish_eq_ok h
    exact ⟨h1, h2, h3, hq, lo, hi, hi1, hi2⟩
  · rw [zValue_panic crit conf (by simpa using hq)] at h; cases h

theorem isSignificant_iff (n k : Nat) :
    isSignificant n k = true ↔ n > 30 ∧ k > 5 ∧ k ≤ n ∧ n - k > 5 := by
  simp [isSignificant, and_assoc]

end Proportion

/-! ## quantiles -/

namespace Quantile
variable {W : Type} [Scalar W]

theorem index_isPanic (n : Nat) (p : W) : (index n p).isPanic = false := by
  unfold index
  split
  · rfl
  · split <;> rfl

theorem index_eq_ok {n : Nat} {p : W} {i : Nat} (h : index n p = .ok i) : 0 < n ∧ i ≤ n - 1 := by
  unfold index at h
  split at h
  · cases h
  · split at h
    · cases h
    · simp only [Outcome.ok.injEq] at h
      subst h
      exact ⟨by omega, Nat.min_le_right _ _⟩

/-- what an `Ok` index interval looks like: kind of the confidence, ordered, inside `0..n−1` -/
def IdxOk (conf : Confidence W) (idx : Interval Nat) (n : Nat) : Prop :=
  match conf, idx with
  | .twoSided _, .twoSided lo hi => lo ≤ hi ∧ hi ≤ n - 1
  | .upper _, .upper lo => lo ≤ n - 1
  | .lower _, .lower hi => hi ≤ n - 1
  | _, _ => False

theorem ciIndices_of_bad_q (crit : Crit W) (conf : Confidence W) (n : Nat) {q : W}
    (h : (gt q (zero : W) && lt q (one : W)) = false) :
    ciIndices crit conf n q = .err (.invalidQuantile q) := by
  simp [ciIndices, h]

theorem ciIndices_of_few (crit : Crit W) (conf : Confidence W) {n : Nat} {q : W}
    (h : (gt q (zero : W) && lt q (one : W)) = true) (hn : n < 4) :
    ciIndices crit conf n q = .err (.tooFewSamples n) := by
  simp [ciIndices, h, hn]

theorem ciIndices_isPanic (crit : Crit W) (conf : Confidence W) (n : Nat) (q : W)
    (hq : probOk conf.quantile = true) : (ciIndices crit conf n q).isPanic = false := by
  unfold ciIndices
  split
  · rfl
  split
  · rfl
  refine Outcome.isPanic_bind (Proportion.ciWilson_isPanic _ _ _ _ hq) fun pci _ => ?_
  dsimp only
  split
  · rfl
  split
  · rfl
  refine Outcome.isPanic_bind (index_isPanic _ _) fun lo _ => ?_
  refine Outcome.isPanic_bind (index_isPanic _ _) fun hi _ => ?_
  cases conf
  · dsimp only; split <;> rfl
  · rfl
  · rfl

theorem ciIndices_eq_ok {crit : Crit W} {conf : Confidence W} {n : Nat} {q : W} {idx : Interval Nat}
    (h : ciIndices crit conf n q = .ok idx) :
    (gt q (zero : W) && lt q (one : W)) = true ∧ 4 ≤ n ∧ IdxOk conf idx n := by
  by_cases hq : (gt q (zero : W) && lt q (one : W)) = true
  swap
  · rw [ciIndices_of_bad_q crit conf n (by simpa using hq)] at h; cases h
  by_cases hn : n < 4
  · rw [ciIndices_of_few crit conf hq hn] at h; cases h
  refine ⟨hq, by omega, ?_⟩
  unfold ciIndices at h
  simp only [hq, hn, Bool.not_true, Bool.false_eq_true, if_false] at h
  obtain ⟨pci, _, h⟩ := Outcome.bind_eq_ok h
  split at h
  · cases h
  split at h
  · cases h
  obtain ⟨lo, hlo, h⟩ := Outcome.bind_eq_ok h
  obtain ⟨hi, hhi, h⟩ := Outcome.bind_eq_ok h
  have h1 := (index_eq_ok hlo).2
  have h2 := (index_eq_ok hhi).2
  cases conf <;> try dsimp only at h
  · split at h
    · cases h
    · cases h; exact ⟨by omega, h2⟩
  · cases h; exact h1
  · cases h; exact h2

omit [Scalar W] in
theorem nth_of_lt {T : Type} (xs : List T) {i : Nat} (h : i < xs.length) :
    (nth xs i : Outcome (Err W) T) = .ok xs[i] := by
  simp [nth, List.getElem?_eq_getElem h]

omit [Scalar W] in
theorem nth_eq_ok {T : Type} {xs : List T} {i : Nat} {x : T}
    (h : (nth xs i : Outcome (Err W) T) = .ok x) : xs[i]? = some x := by
  unfold nth at h
  split at h
  · cases h; assumption
  · cases h

/-! `bound`: the element at a selected rank, checked for comparability with itself -/

omit [Scalar W] in
/-- inside the slice `bound` is the element when it is comparable with itself, `InvalidInputData`
    when it is not (a NaN) -/
theorem bound_of_lt {T : Type} [Cmp T] (xs : List T) {i : Nat} (h : i < xs.length) :
    (bound xs i : Outcome (Err W) T) =
      if le xs[i] xs[i] then .ok xs[i] else .err .invalidInputData := by
  unfold bound
  rw [nth_of_lt xs h]; rfl

omit [Scalar W] in
theorem bound_isPanic_of_lt {T : Type} [Cmp T] (xs : List T) {i : Nat} (h : i < xs.length) :
    (bound xs i : Outcome (Err W) T).isPanic = false := by
  rw [bound_of_lt xs h]; split <;> rfl

omit [Scalar W] in
theorem bound_of_le {T : Type} [Cmp T] {xs : List T} {i : Nat} {x : T} (h : xs[i]? = some x)
    (hx : le x x = true) : (bound xs i : Outcome (Err W) T) = .ok x := by
  simp [bound, nth, h, hx]

omit [Scalar W] in
theorem bound_of_not_le {T : Type} [Cmp T] {xs : List T} {i : Nat} {x : T} (h : xs[i]? = some x)
    (hx : le x x = false) : (bound xs i : Outcome (Err W) T) = .err .invalidInputData := by
  simp [bound, nth, h, hx]

omit [Scalar W] in
/-- an `Ok` of `bound` is the element of the slice at that rank, and it is comparable with itself -/
theorem bound_eq_ok {T : Type} [Cmp T] {xs : List T} {i : Nat} {x : T}
    (h : (bound xs i : Outcome (Err W) T) = .ok x) : xs[i]? = some x ∧ le x x = true := by
  unfold bound at h
  obtain ⟨y, hy, h⟩ := Outcome.bind_eq_ok h
  by_cases hyy : le y y = true
  · rw [if_pos hyy] at h; cases h; exact ⟨nth_eq_ok hy, hyy⟩
  · rw [if_neg hyy] at h; cases h

omit [Scalar W] in
/-- the only error of `bound` is `InvalidInputData`, on an element not comparable with itself -/
theorem bound_eq_err {T : Type} [Cmp T] {xs : List T} {i : Nat} {e : Err W}
    (h : (bound xs i : Outcome (Err W) T) = .err e) :
    e = .invalidInputData ∧ ∃ x, xs[i]? = some x ∧ le x x = false := by
  unfold bound at h
  rcases Outcome.bind_eq_err h with h | ⟨y, hy, h⟩
  · unfold nth at h; split at h <;> cases h
  · by_cases hyy : le y y = true
    · rw [if_pos hyy] at h; cases h
    · rw [if_neg hyy] at h; cases h; exact ⟨rfl, y, nth_eq_ok hy, by simpa using hyy⟩

theorem ciSortedUnchecked_of_bad_q {T : Type} [Cmp T] (crit : Crit W) (conf : Confidence W)
    (sorted : List T) {q : W} (h : (gt q (zero : W) && lt q (one : W)) = false) :
    ciSortedUnchecked crit conf sorted q = .err (.invalidQuantile q) := by
  simp [ciSortedUnchecked, h]

/-- past the quantile check `ci_sorted_unchecked` looks the ranks of `ci_indices` up through `bound` -/
theorem ciSortedUnchecked_of_good_q {T : Type} [Cmp T] (crit : Crit W) (conf : Confidence W)
    (sorted : List T) {q : W} (h : (gt q (zero : W) && lt q (one : W)) = true) :
    ciSortedUnchecked crit conf sorted q =
      (ciIndices crit conf sorted.length q).bind fun idx =>
        match idx with
        | .twoSided lo hi =>
            (bound sorted lo).bind fun a => (bound sorted hi).bind fun b => liftI (Interval.new a b)
        | .upper lo => (bound sorted lo).bind fun a => .ok (.upper a)
        | .lower hi => (bound sorted hi).bind fun b => .ok (.lower b) := by
  unfold ciSortedUnchecked
  rw [if_neg (by simp [h])]; rfl

/-- element access never leaves the slice: the indices come out of `index`, which clamps at
    `n − 1`, and `n ≥ 4` -/
theorem ciSortedUnchecked_isPanic {T : Type} [Cmp T] (crit : Crit W) (conf : Confidence W)
    (sorted : List T) (q : W) (hq : probOk conf.quantile = true) :
    (ciSortedUnchecked crit conf sorted q).isPanic = false := by
  unfold ciSortedUnchecked
  split
  · rfl
  refine Outcome.isPanic_bind (ciIndices_isPanic _ _ _ _ hq) fun idx hidx => ?_
  obtain ⟨_, hn, hok⟩ := ciIndices_eq_ok hidx
  cases conf <;> cases idx <;> simp only [IdxOk] at hok <;> dsimp only
  · rename_i l lo hi
    refine Outcome.isPanic_bind
      (bound_isPanic_of_lt sorted (show lo < sorted.length by omega)) fun a _ => ?_
    refine Outcome.isPanic_bind
      (bound_isPanic_of_lt sorted (show hi < sorted.length by omega)) fun b _ => ?_
    exact liftI_isPanic _
  · rename_i l lo
    exact Outcome.isPanic_bind
      (bound_isPanic_of_lt sorted (show lo < sorted.length by omega)) fun a _ => rfl
  · rename_i l hi
    exact Outcome.isPanic_bind
      (bound_isPanic_of_lt sorted (show hi < sorted.length by omega)) fun b _ => rfl

/-- the shape of an `Ok` result: elements of the slice at the computed positions, each comparable
    with itself (on floats: not a NaN), `¬ lo > hi` -/
def PickOk {T : Type} [Cmp T] (sorted : List T) (idx : Interval Nat) (i : Interval T) : Prop :=
  match idx, i with
  | .twoSided lo hi, .twoSided a b =>
      sorted[lo]? = some a ∧ sorted[hi]? = some b ∧ gt a b = false ∧ le a a = true ∧ le b b = true
  | .upper lo, .upper a => sorted[lo]? = some a ∧ le a a = true
  | .lower hi, .lower b => sorted[hi]? = some b ∧ le b b = true
  | _, _ => False

/-- every bound is comparable with itself (on floats: no bound is a NaN) -/
def SelfCmp {T : Type} [Cmp T] : Interval T → Prop
  | .twoSided a b => le a a = true ∧ le b b = true
  | .upper a => le a a = true
  | .lower b => le b b = true

/-- the ranks an index interval selects -/
def Selects (idx : Interval Nat) (r : Nat) : Prop :=
  match idx with
  | .twoSided lo hi => r = lo ∨ r = hi
  | .upper lo => r = lo
  | .lower hi => r = hi

omit [Scalar W] in
theorem PickOk.selfCmp {T : Type} [Cmp T] {sorted : List T} {idx : Interval Nat} {i : Interval T}
    (h : PickOk sorted idx i) : SelfCmp i := by
  cases idx <;> cases i <;> simp only [PickOk, SelfCmp] at h ⊢
  · exact h.2.2.2
  · exact h.2
  · exact h.2

theorem ciSortedUnchecked_eq_ok {T : Type} [Cmp T] {crit : Crit W} {conf : Confidence W}
    {sorted : List T} {q : W} {i : Interval T} (h : ciSortedUnchecked crit conf sorted q = .ok i) :
    ∃ idx, ciIndices crit conf sorted.length q = .ok idx ∧ PickOk sorted idx i := by
  unfold ciSortedUnchecked at h
  split at h
  · cases h
  obtain ⟨idx, hidx, h⟩ := Outcome.bind_eq_ok h
  refine ⟨idx, hidx, ?_⟩
  cases idx <;> dsimp only at h
  · obtain ⟨a, ha, h⟩ := Outcome.bind_eq_ok h
    obtain ⟨b, hb, h⟩ := Outcome.bind_eq_ok h
    obtain ⟨rfl, hg⟩ := liftI_new_eq_ok h
    exact ⟨(bound_eq_ok ha).1, (bound_eq_ok hb).1, hg, (bound_eq_ok ha).2, (bound_eq_ok hb).2⟩
  · obtain ⟨a, ha, h⟩ := Outcome.bind_eq_ok h
    cases h; exact bound_eq_ok ha
  · obtain ⟨a, ha, h⟩ := Outcome.bind_eq_ok h
    cases h; exact bound_eq_ok ha

/-- whatever the slice holds — sorted or not, with or without incomparable elements — an `Ok` of
    `ci_sorted_unchecked` never has a bound that is not comparable with itself -/
theorem ciSortedUnchecked_ok_selfCmp {T : Type} [Cmp T] {crit : Crit W} {conf : Confidence W}
    {sorted : List T} {q : W} {i : Interval T} (h : ciSortedUnchecked crit conf sorted q = .ok i) :
    SelfCmp i := by
  obtain ⟨_, _, hp⟩ := ciSortedUnchecked_eq_ok h
  exact hp.selfCmp

/-- an element at a selected rank that is not comparable with itself: `InvalidInputData` -/
theorem ciSortedUnchecked_of_incomparable {T : Type} [Cmp T] {crit : Crit W} {conf : Confidence W}
    {sorted : List T} {q : W} {idx : Interval Nat} {r : Nat} {x : T}
    (hidx : ciIndices crit conf sorted.length q = .ok idx) (hr : Selects idx r)
    (hx : sorted[r]? = some x) (hxx : le x x = false) :
    ciSortedUnchecked crit conf sorted q = .err .invalidInputData := by
  obtain ⟨hq, hn, hok⟩ := ciIndices_eq_ok hidx
  rw [ciSortedUnchecked_of_good_q crit conf sorted hq, hidx, Outcome.bind_ok]
  cases idx <;> simp only [Selects] at hr <;> dsimp only
  · rename_i lo hi
    rcases hr with rfl | rfl
    · rw [bound_of_not_le hx hxx]; rfl
    · have hlo : lo < sorted.length := by
        cases conf <;> simp only [IdxOk] at hok
        omega
      rw [bound_of_lt sorted hlo]
      split
      · rw [Outcome.bind_ok, bound_of_not_le hx hxx]; rfl
      · rfl
  · subst hr; rw [bound_of_not_le hx hxx]; rfl
  · subst hr; rw [bound_of_not_le hx hxx]; rfl

/-- every error of `ci_sorted_unchecked` is an error of the index computation, or
    `InvalidInputData` for an element at a selected rank that is not comparable with itself, or
    `InvalidBounds` for a two-sided pick with `lo > hi` (a slice that was not sorted) -/
theorem ciSortedUnchecked_eq_err {T : Type} [Cmp T] {crit : Crit W} {conf : Confidence W}
    {sorted : List T} {q : W} {e : Err W} (h : ciSortedUnchecked crit conf sorted q = .err e) :
    ciIndices crit conf sorted.length q = .err e ∨
    ∃ idx, ciIndices crit conf sorted.length q = .ok idx ∧
      ((e = .invalidInputData ∧ ∃ r x, Selects idx r ∧ sorted[r]? = some x ∧ le x x = false) ∨
       (e = .interval .invalidBounds ∧ ∃ lo hi a b, idx = .twoSided lo hi ∧
          sorted[lo]? = some a ∧ sorted[hi]? = some b ∧ gt a b = true)) := by
  by_cases hq : (gt q (zero : W) && lt q (one : W)) = true
  swap
  · have hq : (gt q (zero : W) && lt q (one : W)) = false := by simpa using hq
    rw [ciSortedUnchecked_of_bad_q crit conf sorted hq] at h
    rw [ciIndices_of_bad_q crit conf _ hq]
    cases h; exact Or.inl rfl
  rw [ciSortedUnchecked_of_good_q crit conf sorted hq] at h
  rcases Outcome.bind_eq_err h with h | ⟨idx, hidx, h⟩
  · exact Or.inl h
  refine Or.inr ⟨idx, hidx, ?_⟩
  cases idx <;> dsimp only at h
  · rename_i lo hi
    rcases Outcome.bind_eq_err h with h | ⟨a, ha, h⟩
    · obtain ⟨rfl, x, hx, hxx⟩ := bound_eq_err h
      exact Or.inl ⟨rfl, lo, x, Or.inl rfl, hx, hxx⟩
    rcases Outcome.bind_eq_err h with h | ⟨b, hb, h⟩
    · obtain ⟨rfl, x, hx, hxx⟩ := bound_eq_err h
      exact Or.inl ⟨rfl, hi, x, Or.inr rfl, hx, hxx⟩
    rcases liftI_new_cases (W := W) a b with ⟨h', _⟩ | ⟨h', hg⟩
    · rw [h'] at h; cases h
    · rw [h'] at h; cases h
      exact Or.inr ⟨rfl, lo, hi, a, b, rfl, (bound_eq_ok ha).1, (bound_eq_ok hb).1, hg⟩
  · rename_i lo
    rcases Outcome.bind_eq_err h with h | ⟨a, _, h⟩
    · obtain ⟨rfl, x, hx, hxx⟩ := bound_eq_err h
      exact Or.inl ⟨rfl, lo, x, rfl, hx, hxx⟩
    · cases h
  · rename_i hi
    rcases Outcome.bind_eq_err h with h | ⟨a, _, h⟩
    · obtain ⟨rfl, x, hx, hxx⟩ := bound_eq_err h
      exact Or.inl ⟨rfl, hi, x, rfl, hx, hxx⟩
    · cases h

omit [Scalar W] in
theorem sortData_isPanic_iff {T : Type} [Cmp T] (xs : List T) :
    (sortData xs : Outcome (Err W) (List T)).isPanic = true ↔
      2 ≤ xs.length ∧ ∃ x ∈ xs, le x x = false := by
  unfold sortData
  split <;> rename_i h
  · simp only [Outcome.isPanic_panic, true_iff]
    simpa using h
  · simp only [Outcome.isPanic_ok, Bool.false_eq_true, false_iff]
    simpa using h

omit [Scalar W] in
theorem sortData_eq_ok {T : Type} [Cmp T] {xs ys : List T}
    (h : (sortData xs : Outcome (Err W) (List T)) = .ok ys) :
    ys = xs.mergeSort (fun a b => le a b) ∧ ys.length = xs.length := by
  unfold sortData at h
  split at h
  · cases h
  · cases h; exact ⟨rfl, List.length_mergeSort _⟩

omit [Scalar W] in
theorem sortData_never_err {T : Type} [Cmp T] (xs : List T) (e : Err W) :
    (sortData xs : Outcome (Err W) (List T)) ≠ .err e := by
  unfold sortData; split <;> simp

/-- `quantile::ci` panics only through the `unwrap` of `partial_cmp` inside the sort -/
theorem ci_isPanic_iff {T : Type} [Cmp T] (crit : Crit W) (conf : Confidence W) (xs : List T) (q : W)
    (hq : probOk conf.quantile = true) :
    (ci crit conf xs q).isPanic = true ↔ 2 ≤ xs.length ∧ ∃ x ∈ xs, le x x = false := by
  rw [← sortData_isPanic_iff (W := W)]
  unfold ci
  cases hs : (sortData xs : Outcome (Err W) (List T)) with
  | ok ys => simp [ciSortedUnchecked_isPanic crit conf ys q hq]
  | err e => simp
  | panic t => simp

theorem ciMaxSize_isPanic_iff {T : Type} [Cmp T] (cap : Nat) (crit : Crit W) (conf : Confidence W)
    (xs : List T) (q : W) (hq : probOk conf.quantile = true) :
    (ciMaxSize cap crit conf xs q).isPanic = true ↔
      cap < xs.length ∨ (2 ≤ xs.length ∧ ∃ x ∈ xs, le x x = false) := by
  unfold ciMaxSize
  by_cases h : xs.length > cap
  · simp [h]
  · have h' : ¬ cap < xs.length := h
    simp only [h, if_false, ci_isPanic_iff crit conf xs q hq, false_or]

end Quantile

/-! ## more on `Arith.ciMean`: every outcome classified -/

theorem Confidence.flipped_quantile' {W : Type} [Scalar W] (c : Confidence W) :
    c.flipped.quantile = c.quantile := by cases c <;> rfl

theorem Confidence.flipped_kind_twoSided {W : Type} (c : Confidence W) :
    c.flipped.kind = .twoSided ↔ c.kind = .twoSided := by cases c <;> simp [Confidence.flipped, Confidence.kind]

namespace Arith
variable {F W : Type} [Scalar F] [Scalar W] [Widen F W]

theorem ciMean_of_lt (crit : Crit W) (a : Arith F) (conf : Confidence W) (h : a.count < 2) :
    ciMean crit a conf = .err (.tooFewSamples a.count) := by
  unfold ciMean; rw [ciPrep_of_lt a h]; rfl

theorem ciMean_of_nonfinite (crit : Crit W) (a : Arith F) (conf : Confidence W) (h : 2 ≤ a.count)
    (hf : isFinite (Widen.up a.mean : W) = false ∨ isFinite (Widen.up a.stdDev : W) = false) :
    ciMean crit a conf = .err .invalidInputData := by
  unfold ciMean; rw [ciPrep_of_nonfinite a h hf]; rfl

/-- the shape of every `Ok` of `ci_mean` (no hypotheses) -/
theorem ciMean_eq_ok {crit : Crit W} {a : Arith F} {conf : Confidence W} {i : Interval F}
    (h : ciMean crit a conf = .ok i) :
    2 ≤ a.count ∧ isFinite (Widen.up a.mean : W) = true ∧ isFinite (Widen.up a.stdDev : W) = true ∧
    ∃ lo hi : F, (conf.kind = .twoSided → i = .twoSided lo hi ∧ gt lo hi = false) ∧
      (conf.kind = .upper → i = .upper lo) ∧ (conf.kind = .lower → i = .lower hi) := by
  unfold ciMean at h
  obtain ⟨p, hp, h⟩ := Outcome.bind_eq_ok h
  obtain ⟨b, _, h⟩ := Outcome.bind_eq_ok h
  obtain ⟨h2, hm, hs, _⟩ := ciPrep_eq_ok hp
  exact ⟨h2, hm, hs, _, _, intervalOfKind_eq_ok h⟩

/-- every `Err` of `ci_mean` is one of the three documented classes -/
theorem ciMean_eq_err {crit : Crit W} {a : Arith F} {conf : Confidence W} {e : Err W}
    (h : ciMean crit a conf = .err e) :
    (a.count < 2 ∧ e = .tooFewSamples a.count) ∨
    (2 ≤ a.count ∧ e = .invalidInputData ∧
      (isFinite (Widen.up a.mean : W) = false ∨ isFinite (Widen.up a.stdDev : W) = false)) ∨
    (2 ≤ a.count ∧ e = .interval .invalidBounds ∧ conf.kind = .twoSided) := by
  by_cases hc : a.count < 2
  · rw [ciMean_of_lt crit a conf hc] at h; cases h; exact Or.inl ⟨hc, rfl⟩
  have hc : 2 ≤ a.count := by omega
  by_cases hm : isFinite (Widen.up a.mean : W) = true
  swap
  · have hf := Or.inl (b := isFinite (Widen.up a.stdDev : W) = false) (Bool.eq_false_iff.mpr hm)
    rw [ciMean_of_nonfinite crit a conf hc hf] at h; cases h; exact Or.inr (Or.inl ⟨hc, rfl, hf⟩)
  by_cases hs : isFinite (Widen.up a.stdDev : W) = true
  swap
  · have hf := Or.inr (a := isFinite (Widen.up a.mean : W) = false) (Bool.eq_false_iff.mpr hs)
    rw [ciMean_of_nonfinite crit a conf hc hf] at h; cases h; exact Or.inr (Or.inl ⟨hc, rfl, hf⟩)
  unfold ciMean at h
  rw [ciPrep_of_finite a hc hm hs] at h
  simp only [Outcome.bind_ok] at h
  cases hb : intervalBounds crit conf (Widen.up a.mean : W)
      (div (Widen.up a.stdDev) (sqrt (Scalar.ofNat a.count))) (sub (Scalar.ofNat a.count) one) with
  | ok b =>
    rw [hb] at h
    obtain ⟨he, hk, _⟩ := intervalOfKind_eq_err h
    exact Or.inr (Or.inr ⟨hc, he, hk⟩)
  | err e' => exact absurd hb (intervalBounds_never_err _ _ _ _ _ _)
  | panic t => rw [hb] at h; cases h

/-- exactly when `ci_mean` panics (no law class needed) -/
theorem ciMean_isPanic_iff (crit : Crit W) (a : Arith F) (conf : Confidence W) :
    (ciMean crit a conf).isPanic = true ↔
      2 ≤ a.count ∧ isFinite (Widen.up a.mean : W) = true ∧ isFinite (Widen.up a.stdDev : W) = true ∧
      ((lt (sub (Scalar.ofNat a.count) one : W) (populationLimit : W) = true ∧
          gt (sub (Scalar.ofNat a.count) one : W) (zero : W) = false) ∨
        probOk conf.quantile = false) := by
  by_cases hc : a.count < 2
  · rw [ciMean_of_lt crit a conf hc]; simp; omega
  have hc : 2 ≤ a.count := by omega
  by_cases hm : isFinite (Widen.up a.mean : W) = true
  swap
  · rw [ciMean_of_nonfinite crit a conf hc (Or.inl (Bool.eq_false_iff.mpr hm))]; simp [hm]
  by_cases hs : isFinite (Widen.up a.stdDev : W) = true
  swap
  · rw [ciMean_of_nonfinite crit a conf hc (Or.inr (Bool.eq_false_iff.mpr hs))]; simp [hs]
  unfold ciMean
  rw [ciPrep_of_finite a hc hm hs]
  simp only [Outcome.bind_ok, hc, hm, hs, true_and]
  rw [← intervalBounds_isPanic_iff crit conf (Widen.up a.mean : W)
      (div (Widen.up a.stdDev) (sqrt (Scalar.ofNat a.count)))]
  cases hb : intervalBounds crit conf (Widen.up a.mean : W)
      (div (Widen.up a.stdDev) (sqrt (Scalar.ofNat a.count))) (sub (Scalar.ofNat a.count) one) with
  | ok b => simp [intervalOfKind_isPanic]
  | err e' => simp
  | panic t => simp

theorem extend_count (a : Arith F) (xs : List F) : (a.extend xs).count = a.count + xs.length := by
  induction xs generalizing a with
  | nil => rfl
  | cons x xs ih =>
    show ((a.append x).extend xs).count = _
    rw [ih]; simp [append]; omega

theorem fromList_count (xs : List F) : (fromList xs).count = xs.length := by
  unfold fromList; rw [extend_count]; simp [empty]

end Arith

/-! ## paired comparison: the `extend` loop -/

namespace Paired
variable {F W : Type} [Scalar F] [Scalar W] [Widen F W]

theorem extendAux_fst (p : Paired F) (c : Nat) (as bs : List F) :
    ((extendAux p c as bs).1 : Outcome (Err W) (Paired F)) =
      if as.length = bs.length then .ok ⟨p.stats.extend (List.zipWith sub as bs)⟩
      else .err (.differentSampleSizes (c + as.length) (c + bs.length)) := by
  induction as generalizing p c bs with
  | nil =>
    cases bs with
    | nil => simp [extendAux, Arith.extend]
    | cons y ys =>
      simp only [extendAux, List.length_nil, List.length_cons]
      rw [if_neg (by omega)]
      congr 2 <;> omega
  | cons x xs ih =>
    cases bs with
    | nil =>
      simp only [extendAux, List.length_nil, List.length_cons]
      rw [if_neg (by omega)]
      congr 2 <;> omega
    | cons y ys =>
      simp only [extendAux, List.length_cons]
      rw [ih]
      by_cases h : xs.length = ys.length
      · simp [h, appendPair, Arith.extend]
      · simp only [h, if_false, Nat.add_right_cancel_iff]
        congr 2 <;> omega

theorem ci_of_length_ne (crit : Crit W) (conf : Confidence W) {as bs : List F}
    (h : as.length ≠ bs.length) :
    ci crit conf as bs = .err (.differentSampleSizes as.length bs.length) := by
  unfold ci extend
  rw [extendAux_fst]
  simp [h]

theorem ci_of_length_eq (crit : Crit W) (conf : Confidence W) {as bs : List F}
    (h : as.length = bs.length) :
    ci crit conf as bs = Arith.ciMean crit (Arith.fromList (List.zipWith sub as bs)) conf := by
  unfold ci extend
  rw [extendAux_fst]
  simp [h, ciMean, empty, Arith.fromList]

theorem ci_isPanic [LawfulCount W] (crit : Crit W) (conf : Confidence W) (as bs : List F)
    (hq : probOk conf.quantile = true) : (ci crit conf as bs).isPanic = false := by
  by_cases h : as.length = bs.length
  · rw [ci_of_length_eq crit conf h]; exact Arith.ciMean_isPanic _ _ _ hq
  · rw [ci_of_length_ne crit conf h]; rfl

end Paired

/-! ## geometric and harmonic means: the `extend` loops and `ci` -/

namespace Geometric
variable {F W : Type} [Scalar F] [Scalar W] [Widen F W]

omit [Scalar W] in
theorem extend_fst_of_pos (g : Geometric F) (xs : List F) (h : ∀ x ∈ xs, le x (zero : F) = false) :
    ((extend g xs).1 : Outcome (Err W) (Geometric F)) = .ok ⟨g.logs.extend (xs.map ln)⟩ := by
  induction xs generalizing g with
  | nil => rfl
  | cons x xs ih =>
    have hx : le x (zero : F) = false := h x (by simp)
    simp only [extend, append, hx, Bool.false_eq_true, if_false]
    rw [ih _ (fun y hy => h y (by simp [hy]))]
    rfl

omit [Scalar W] in
theorem extend_fst_of_nonpos (g : Geometric F) (pre : List F) (x : F) (post : List F)
    (hpre : ∀ y ∈ pre, le y (zero : F) = false) (hx : le x (zero : F) = true) :
    ((extend g (pre ++ x :: post)).1 : Outcome (Err W) (Geometric F)) =
      .err (.nonPositiveValue (Widen.up x)) := by
  induction pre generalizing g with
  | nil => simp [extend, append, hx]
  | cons y ys ih =>
    have hy : le y (zero : F) = false := hpre y (by simp)
    simp only [List.cons_append, extend, append, hy, Bool.false_eq_true, if_false]
    exact ih _ (fun z hz => hpre z (by simp [hz]))

/-- a list either is positive throughout or has a first non-positive element -/
theorem split_first_nonpos (xs : List F) :
    (∀ x ∈ xs, le x (zero : F) = false) ∨
    ∃ pre x post, xs = pre ++ x :: post ∧ (∀ y ∈ pre, le y (zero : F) = false) ∧
      le x (zero : F) = true := by
  induction xs with
  | nil => left; simp
  | cons x xs ih =>
    by_cases hx : le x (zero : F) = true
    · exact Or.inr ⟨[], x, xs, rfl, by simp, hx⟩
    · have hx : le x (zero : F) = false := by simpa using hx
      rcases ih with h | ⟨pre, y, post, rfl, hpre, hy⟩
      · left; intro z hz; rcases List.mem_cons.mp hz with rfl | hz; exacts [hx, h z hz]
      · refine Or.inr ⟨x :: pre, y, post, rfl, ?_, hy⟩
        intro z hz; rcases List.mem_cons.mp hz with rfl | hz; exacts [hx, hpre z hz]

theorem ci_of_pos (crit : Crit W) (conf : Confidence W) (xs : List F)
    (h : ∀ x ∈ xs, le x (zero : F) = false) :
    ci crit conf xs = ciMean crit ⟨Arith.fromList (xs.map ln)⟩ conf := by
  unfold ci fromList
  rw [extend_fst_of_pos _ _ h]
  rfl

theorem ci_of_nonpos (crit : Crit W) (conf : Confidence W) (pre : List F) (x : F) (post : List F)
    (hpre : ∀ y ∈ pre, le y (zero : F) = false) (hx : le x (zero : F) = true) :
    ci crit conf (pre ++ x :: post) = .err (.nonPositiveValue (Widen.up x)) := by
  unfold ci fromList
  rw [extend_fst_of_nonpos _ _ _ _ hpre hx]
  rfl

theorem ciMean_isPanic [LawfulCount W] (crit : Crit W) (g : Geometric F) (conf : Confidence W)
    (hq : probOk conf.quantile = true) : (ciMean crit g conf).isPanic = false := by
  unfold ciMean
  exact Outcome.isPanic_bind (Arith.ciMean_isPanic _ _ _ hq) fun _ _ => intervalOfKind_isPanic _ _ _

theorem ci_isPanic [LawfulCount W] (crit : Crit W) (conf : Confidence W) (xs : List F)
    (hq : probOk conf.quantile = true) : (ci crit conf xs).isPanic = false := by
  rcases split_first_nonpos xs with h | ⟨pre, x, post, rfl, hpre, hx⟩
  · rw [ci_of_pos crit conf xs h]; exact ciMean_isPanic _ _ _ hq
  · rw [ci_of_nonpos crit conf pre x post hpre hx]; rfl

theorem ciMean_eq_ok {crit : Crit W} {g : Geometric F} {conf : Confidence W} {i : Interval F}
    (h : ciMean crit g conf = .ok i) :
    2 ≤ g.logs.count ∧ isFinite (Widen.up g.logs.mean : W) = true ∧
    isFinite (Widen.up g.logs.stdDev : W) = true ∧
    ∃ lo hi : F, (conf.kind = .twoSided → i = .twoSided lo hi ∧ gt lo hi = false) ∧
      (conf.kind = .upper → i = .upper lo) ∧ (conf.kind = .lower → i = .lower hi) := by
  unfold ciMean at h
  obtain ⟨j, hj, h⟩ := Outcome.bind_eq_ok h
  obtain ⟨h2, hm, hs, _⟩ := Arith.ciMean_eq_ok hj
  exact ⟨h2, hm, hs, _, _, intervalOfKind_eq_ok h⟩

end Geometric

namespace Harmonic
variable {F W : Type} [Scalar F] [Scalar W] [Widen F W]

omit [Scalar W] in
theorem extend_fst_of_pos (g : Harmonic F) (xs : List F) (h : ∀ x ∈ xs, le x (zero : F) = false) :
    ((extend g xs).1 : Outcome (Err W) (Harmonic F)) =
      .ok ⟨g.recip.extend (xs.map fun x => div one x)⟩ := by
  induction xs generalizing g with
  | nil => rfl
  | cons x xs ih =>
    have hx : le x (zero : F) = false := h x (by simp)
    simp only [extend, append, hx, Bool.false_eq_true, if_false]
    rw [ih _ (fun y hy => h y (by simp [hy]))]
    rfl

omit [Scalar W] in
theorem extend_fst_of_nonpos (g : Harmonic F) (pre : List F) (x : F) (post : List F)
    (hpre : ∀ y ∈ pre, le y (zero : F) = false) (hx : le x (zero : F) = true) :
    ((extend g (pre ++ x :: post)).1 : Outcome (Err W) (Harmonic F)) =
      .err (.nonPositiveValue (Widen.up x)) := by
  induction pre generalizing g with
  | nil => simp [extend, append, hx]
  | cons y ys ih =>
    have hy : le y (zero : F) = false := hpre y (by simp)
    simp only [List.cons_append, extend, append, hy, Bool.false_eq_true, if_false]
    exact ih _ (fun z hz => hpre z (by simp [hz]))

theorem ci_of_pos (crit : Crit W) (conf : Confidence W) (xs : List F)
    (h : ∀ x ∈ xs, le x (zero : F) = false) :
    ci crit conf xs = ciMean crit ⟨Arith.fromList (xs.map fun x => div one x)⟩ conf := by
  unfold ci fromList
  rw [extend_fst_of_pos _ _ h]
  rfl

theorem ci_of_nonpos (crit : Crit W) (conf : Confidence W) (pre : List F) (x : F) (post : List F)
    (hpre : ∀ y ∈ pre, le y (zero : F) = false) (hx : le x (zero : F) = true) :
    ci crit conf (pre ++ x :: post) = .err (.nonPositiveValue (Widen.up x)) := by
  unfold ci fromList
  rw [extend_fst_of_nonpos _ _ _ _ hpre hx]
  rfl

theorem ciMean_isPanic [LawfulCount W] (crit : Crit W) (g : Harmonic F) (conf : Confidence W)
    (hq : probOk conf.quantile = true) : (ciMean crit g conf).isPanic = false := by
  unfold ciMean
  refine Outcome.isPanic_bind (Arith.ciMean_isPanic _ _ _ ?_) fun _ _ => intervalOfKind_isPanic _ _ _
  rw [Confidence.flipped_quantile']; exact hq

theorem ci_isPanic [LawfulCount W] (crit : Crit W) (conf : Confidence W) (xs : List F)
    (hq : probOk conf.quantile = true) : (ci crit conf xs).isPanic = false := by
  rcases Geometric.split_first_nonpos xs with h | ⟨pre, x, post, rfl, hpre, hx⟩
  · rw [ci_of_pos crit conf xs h]; exact ciMean_isPanic _ _ _ hq
  · rw [ci_of_nonpos crit conf pre x post hpre hx]; rfl

theorem ciMean_eq_ok {crit : Crit W} {g : Harmonic F} {conf : Confidence W} {i : Interval F}
    (h : ciMean crit g conf = .ok i) :
    2 ≤ g.recip.count ∧ isFinite (Widen.up g.recip.mean : W) = true ∧
    isFinite (Widen.up g.recip.stdDev : W) = true ∧
    ∃ lo hi : F, (conf.kind = .twoSided → i = .twoSided lo hi ∧ gt lo hi = false) ∧
      (conf.kind = .upper → i = .upper lo) ∧ (conf.kind = .lower → i = .lower hi) := by
  unfold ciMean at h
  obtain ⟨j, hj, h⟩ := Outcome.bind_eq_ok h
  obtain ⟨h2, hm, hs, _⟩ := Arith.ciMean_eq_ok hj
  exact ⟨h2, hm, hs, _, _, intervalOfKind_eq_ok h⟩

end Harmonic

/-! ## unpaired comparison -/

namespace Unpaired
variable {F W : Type} [Scalar F] [Scalar W] [Widen F W]

/-- `s²/n` of one sample, in the crate's operation order -/
def s2n (a : Arith F) : F := div (mul a.stdDev a.stdDev) (Scalar.ofNat a.count)
/-- the difference of the sample means -/
def meanDiff (u : Unpaired F) : F := sub u.a.mean u.b.mean
/-- the standard error of the difference -/
def semF (u : Unpaired F) : F := sqrt (add (s2n u.a) (s2n u.b))
/-- the effective degrees of freedom evaluated in the data type `F`. (`ci_mean` evaluates them in the
    wide type, `dofW`; on a carrier with `F = W` and the identity `Widen` the two agree,
    `dofW_eq_dofF_RR`, `dofW_eq_dofF_XR`.) -/
def dofF (u : Unpaired F) : F :=
  clampDof (effectiveDof (s2n u.a) (s2n u.b) (Scalar.ofNat u.a.count) (Scalar.ofNat u.b.count))
    (Scalar.ofNat u.a.count) (Scalar.ofNat u.b.count)
/-- the effective degrees of freedom `ci_mean` hands on: evaluated in the wide type `W` from the
    widened variance terms `s²/n` and the widened counts -/
def dofW (u : Unpaired F) : W :=
  clampDof (effectiveDof (Widen.up (s2n u.a)) (Widen.up (s2n u.b))
      (Widen.up (Scalar.ofNat u.a.count : F)) (Widen.up (Scalar.ofNat u.b.count : F)))
    (Widen.up (Scalar.ofNat u.a.count : F)) (Widen.up (Scalar.ofNat u.b.count : F))

/-- on rounded (and exact) reals the wide type is the data type: both evaluations agree -/
theorem dofW_eq_dofF_RR {fl : ℝ → ℝ} (u : Unpaired (RR fl)) : (dofW u : RR fl) = dofF u := rfl
/-- on extended reals the wide type is the data type: both evaluations agree -/
theorem dofW_eq_dofF_XR (u : Unpaired XR) : (dofW u : XR) = dofF u := rfl

theorem ciPrep_cases (u : Unpaired F) :
    (u.a.count < 2 ∧ (ciPrep u : Outcome (Err W) (Arith.Prep W)) = .err (.tooFewSamples u.a.count)) ∨
    (2 ≤ u.a.count ∧ u.b.count < 2 ∧
      (ciPrep u : Outcome (Err W) (Arith.Prep W)) = .err (.tooFewSamples u.b.count)) ∨
    (2 ≤ u.a.count ∧ 2 ≤ u.b.count ∧
      (isFinite (meanDiff u) = false ∨ isFinite (semF u) = false) ∧
      (ciPrep u : Outcome (Err W) (Arith.Prep W)) = .err .invalidInputData) ∨
    (2 ≤ u.a.count ∧ 2 ≤ u.b.count ∧ isFinite (meanDiff u) = true ∧ isFinite (semF u) = true ∧
      (ciPrep u : Outcome (Err W) (Arith.Prep W)) =
        .ok ⟨Widen.up (meanDiff u), Widen.up (semF u), dofW u⟩) := by
  by_cases ha : u.a.count < 2
  · exact Or.inl ⟨ha, by simp [ciPrep, ha]⟩
  by_cases hb : u.b.count < 2
  · exact Or.inr (Or.inl ⟨by omega, hb, by simp [ciPrep, ha, hb]⟩)
  by_cases hm : isFinite (meanDiff u) = true
  · by_cases hs : isFinite (semF u) = true
    · refine Or.inr (Or.inr (Or.inr ⟨by omega, by omega, hm, hs, ?_⟩))
      unfold meanDiff at hm
      unfold semF s2n at hs
      simp [ciPrep, ha, hb, hm, hs, meanDiff, semF, dofW, s2n]
    · refine Or.inr (Or.inr (Or.inl ⟨by omega, by omega, Or.inr (by simpa using hs), ?_⟩))
      unfold semF s2n at hs
      simp [ciPrep, ha, hb, hs]
  · refine Or.inr (Or.inr (Or.inl ⟨by omega, by omega, Or.inl (by simpa using hm), ?_⟩))
    unfold meanDiff at hm
    simp [ciPrep, ha, hb, hm]

theorem ciPrep_eq_ok {u : Unpaired F} {p : Arith.Prep W}
    (h : (ciPrep u : Outcome (Err W) (Arith.Prep W)) = .ok p) :
    2 ≤ u.a.count ∧ 2 ≤ u.b.count ∧ isFinite (meanDiff u) = true ∧ isFinite (semF u) = true ∧
    p = ⟨Widen.up (meanDiff u), Widen.up (semF u), dofW u⟩ := by
  rcases ciPrep_cases (W := W) u with ⟨_, h'⟩ | ⟨_, _, h'⟩ | ⟨_, _, _, h'⟩ | ⟨h1, h2, h3, h4, h'⟩ <;>
    rw [h'] at h <;> cases h
  exact ⟨h1, h2, h3, h4, rfl⟩

theorem ciPrep_isPanic (u : Unpaired F) :
    (ciPrep u : Outcome (Err W) (Arith.Prep W)).isPanic = false := by
  rcases ciPrep_cases (W := W) u with ⟨_, h'⟩ | ⟨_, _, h'⟩ | ⟨_, _, _, h'⟩ | ⟨_, _, _, _, h'⟩ <;>
    rw [h'] <;> rfl

/-- exactly when `Unpaired::ci_mean` panics -/
theorem ciMean_isPanic_iff (crit : Crit W) (u : Unpaired F) (conf : Confidence W) :
    (ciMean crit u conf).isPanic = true ↔
      2 ≤ u.a.count ∧ 2 ≤ u.b.count ∧ isFinite (meanDiff u) = true ∧ isFinite (semF u) = true ∧
      ((lt (dofW u : W) (populationLimit : W) = true ∧
          gt (dofW u : W) (zero : W) = false) ∨
        probOk conf.quantile = false) := by
  unfold ciMean
  rcases ciPrep_cases (W := W) u with ⟨h1, h'⟩ | ⟨h1, h2, h'⟩ | ⟨h1, h2, h3, h'⟩ | ⟨h1, h2, h3, h4, h'⟩ <;>
    rw [h']
  · simp; omega
  · simp; omega
  · rcases h3 with h3 | h3 <;> simp [h3]
  · simp only [Outcome.bind_ok, h1, h2, h3, h4, true_and]
    rw [← intervalBounds_isPanic_iff crit conf (Widen.up (meanDiff u) : W) (Widen.up (semF u) : W)]
    cases hb : intervalBounds crit conf (Widen.up (meanDiff u) : W) (Widen.up (semF u) : W)
        (dofW u : W) with
    | ok b => simp [intervalOfKind_isPanic]
    | err e' => simp
    | panic t => simp

/-- the critical value `Unpaired::ci_mean` uses on a state that passes the guards -/
def critOf (crit : Crit W) (u : Unpaired F) (conf : Confidence W) : W :=
  crit (critReq conf (dofW u))

/-- closed form of `Unpaired::ci_mean` on a state that passes the guards -/
theorem ciMean_eq (crit : Crit W) (u : Unpaired F) (conf : Confidence W)
    (h1 : 2 ≤ u.a.count) (h2 : 2 ≤ u.b.count) (h3 : isFinite (meanDiff u) = true)
    (h4 : isFinite (semF u) = true) (hq : probOk conf.quantile = true)
    (hd : lt (dofW u : W) (populationLimit : W) = true →
      gt (dofW u : W) (zero : W) = true) :
    ciMean crit u conf =
      intervalOfKind conf
        (Widen.down (sub (Widen.up (meanDiff u) : W) (mul (critOf crit u conf) (Widen.up (semF u)))) : F)
        (Widen.down (add (Widen.up (meanDiff u) : W) (mul (critOf crit u conf) (Widen.up (semF u)))) : F) := by
  unfold ciMean
  rcases ciPrep_cases (W := W) u with ⟨h, _⟩ | ⟨_, h, _⟩ | ⟨_, _, h, _⟩ | ⟨_, _, _, _, h'⟩
  · omega
  · omega
  · rcases h with h | h <;> simp_all
  · rw [h']
    simp only [Outcome.bind_ok]
    rw [intervalBounds_eq crit conf _ _ _ hq hd]
    rfl

theorem ciMean_eq_ok {crit : Crit W} {u : Unpaired F} {conf : Confidence W} {i : Interval F}
    (h : ciMean crit u conf = .ok i) :
    2 ≤ u.a.count ∧ 2 ≤ u.b.count ∧ isFinite (meanDiff u) = true ∧ isFinite (semF u) = true ∧
    ∃ lo hi : F, (conf.kind = .twoSided → i = .twoSided lo hi ∧ gt lo hi = false) ∧
      (conf.kind = .upper → i = .upper lo) ∧ (conf.kind = .lower → i = .lower hi) := by
  unfold ciMean at h
  obtain ⟨p, hp, h⟩ := Outcome.bind_eq_ok h
  obtain ⟨b, _, h⟩ := Outcome.bind_eq_ok h
  obtain ⟨h1, h2, h3, h4, _⟩ := ciPrep_eq_ok hp
  exact ⟨h1, h2, h3, h4, _, _, intervalOfKind_eq_ok h⟩

end Unpaired

/-! ## valid confidence levels give probabilities `inverse_cdf` accepts -/

namespace Confidence

theorem quantile_twoSided_val (l : Rex) :
    (Confidence.twoSided l).quantile.val = (1 + l.val) / 2 := by
  simp [quantile]; ring

theorem probOk_of_valid_Rex (conf : Confidence Rex) (h : validLevel conf.level = true) :
    probOk conf.quantile = true := by
  cases conf <;> simp only [validLevel, level, Bool.and_eq_true, RR.gt_iff, RR.lt_iff,
    RR.zero_val, RR.one_val] at h <;> obtain ⟨h0, h1⟩ := h
  · simp only [probOk, Bool.and_eq_true, RR.le_iff, quantile_twoSided_val, RR.zero_val, RR.one_val]
    constructor <;> linarith
  · simp [probOk, quantile, h0.le, h1.le]
  · simp [probOk, quantile, h0.le, h1.le]

theorem quantile_twoSided_XR (r : ℝ) :
    (Confidence.twoSided (XR.fin r)).quantile = XR.fin ((1 + r) / 2) := by
  have h2 : (1 : ℝ) + 1 ≠ 0 := by norm_num
  simp [quantile, h2]; ring

theorem probOk_of_valid_XR (conf : Confidence XR) (h : validLevel conf.level = true) :
    probOk conf.quantile = true := by
  have hv : ∀ l : XR, validLevel l = true → ∃ r : ℝ, l = .fin r ∧ 0 < r ∧ r < 1 := by
    intro l hl; cases l <;> simp_all [validLevel]
  cases conf <;> simp only [level] at h <;> obtain ⟨r, rfl, h0, h1⟩ := hv _ h
  · rw [quantile_twoSided_XR]
    simp only [probOk, XR.zero_eq, XR.one_eq, XR.le_fin_fin, Bool.and_eq_true, decide_eq_true_eq]
    constructor <;> linarith
  · simp [probOk, quantile, h0.le, h1.le]
  · simp [probOk, quantile, h0.le, h1.le]

end Confidence

/-! ## `XR`: non-finite data reach the guard of `ci_mean` -/

namespace XR

theorem kahan_add_sum_nonfinite (k : Kahan XR) (x : XR)
    (h : Scalar.isFinite k.sum = false ∨ Scalar.isFinite x = false) : Scalar.isFinite (k.add x).sum = false := by
  rw [Bool.eq_false_iff]
  intro hf
  obtain ⟨h1, h2⟩ := isFinite_add (show Scalar.isFinite (NumOps.add k.sum (NumOps.sub x k.comp)) = true from hf)
  obtain ⟨h3, _⟩ := isFinite_sub h2
  rcases h with h | h <;> simp_all

theorem arith_append_nonfinite (a : Arith XR) (x : XR)
    (h : Scalar.isFinite a.sum.sum = false ∨ Scalar.isFinite x = false) :
    Scalar.isFinite (a.append x).sum.sum = false :=
  kahan_add_sum_nonfinite a.sum x h

theorem arith_extend_nonfinite_of_state (a : Arith XR) (xs : List XR)
    (h : Scalar.isFinite a.sum.sum = false) : Scalar.isFinite (a.extend xs).sum.sum = false := by
  induction xs generalizing a with
  | nil => exact h
  | cons x xs ih => exact ih (a.append x) (arith_append_nonfinite a x (Or.inl h))

theorem arith_extend_nonfinite (a : Arith XR) (xs : List XR)
    (h : ∃ x ∈ xs, Scalar.isFinite x = false) : Scalar.isFinite (a.extend xs).sum.sum = false := by
  induction xs generalizing a with
  | nil => simp at h
  | cons x xs ih =>
    obtain ⟨y, hy, hyf⟩ := h
    rcases List.mem_cons.mp hy with rfl | hy
    · exact arith_extend_nonfinite_of_state (a.append y) xs (arith_append_nonfinite a y (Or.inr hyf))
    · exact ih (a.append x) ⟨y, hy, hyf⟩

theorem arith_mean_nonfinite (a : Arith XR) (h : Scalar.isFinite a.sum.sum = false) :
    Scalar.isFinite a.mean = false := by
  rw [Bool.eq_false_iff]
  intro hf
  have h1 := isFinite_div_left (show Scalar.isFinite (NumOps.div a.sum.value (Scalar.ofNat a.count)) = true from hf)
  have h2 := (isFinite_add (show Scalar.isFinite (NumOps.add a.sum.sum a.sum.comp) = true from h1)).1
  simp_all

/-- a NaN or an infinity anywhere in the data makes `Arithmetic::ci` answer `InvalidInputData` -/
theorem arith_ci_nonfinite (crit : Crit XR) (conf : Confidence XR) (xs : List XR)
    (hn : 2 ≤ xs.length) (h : ∃ x ∈ xs, Scalar.isFinite x = false) :
    Arith.ci crit conf xs = .err .invalidInputData := by
  unfold Arith.ci
  refine Arith.ciMean_of_nonfinite crit _ conf (by rw [Arith.fromList_count]; exact hn) (Or.inl ?_)
  exact arith_mean_nonfinite _ (arith_extend_nonfinite _ xs h)

theorem le_zero_iff (x : XR) : Cmp.le x (NumOps.zero : XR) = true ↔ x = ninf ∨ ∃ r : ℝ, x = fin r ∧ r ≤ 0 := by
  cases x <;> simp

/-! ### with a finite critical value every `Ok` bound is finite -/

theorem arith_ciMean_ok_finite (crit : Crit XR) (a : Arith XR) (conf : Confidence XR)
    (hc : ∀ r, Scalar.isFinite (crit r) = true) (hq : probOk conf.quantile = true) {i : Interval XR}
    (h : Arith.ciMean crit a conf = .ok i) :
    ∃ lo hi : ℝ, (conf.kind = .twoSided → i = .twoSided (fin lo) (fin hi) ∧ lo ≤ hi) ∧
      (conf.kind = .upper → i = .upper (fin lo)) ∧ (conf.kind = .lower → i = .lower (fin hi)) := by
  obtain ⟨h2, hm, hs, _⟩ := Arith.ciMean_eq_ok h
  rw [Arith.ciMean_eq crit a conf h2 hm hs hq] at h
  obtain ⟨m, hm'⟩ := (isFinite_iff _).mp hm
  obtain ⟨s, hs'⟩ := (isFinite_iff _).mp hs
  obtain ⟨c, hc'⟩ := (isFinite_iff _).mp (hc (critReq conf (NumOps.sub (Scalar.ofNat a.count) NumOps.one)))
  have hn : (0 : ℝ) < a.count := by exact_mod_cast (show 0 < a.count by omega)
  have hsq : Real.sqrt (a.count : ℝ) ≠ 0 := (Real.sqrt_pos.mpr hn).ne'
  simp only [up_eq, down_eq] at hm' hs' h
  rw [hm', hs', show Arith.critOf crit a conf = fin c from hc'] at h
  simp only [ofNat_eq, sqrt_fin_of_nonneg hn.le, div_fin_fin_of_ne _ hsq, mul_fin_fin, sub_fin_fin,
    add_fin_fin] at h
  obtain ⟨h1, h2', h3⟩ := intervalOfKind_eq_ok h
  refine ⟨_, _, fun hk => ⟨(h1 hk).1, ?_⟩, h2', h3⟩
  have := (h1 hk).2
  simpa using this

end XR

/-! ## the effective degrees of freedom are positive whenever they are defined -/

theorem welch_dof_pos (α β na nb : ℝ) (hα : 0 ≤ α) (hβ : 0 ≤ β) (hna : 2 ≤ na) (hnb : 2 ≤ nb)
    (hD : α * α / (na + 1) + β * β / (nb + 1) ≠ 0) :
    0 < (α + β) * (α + β) / (α * α / (na + 1) + β * β / (nb + 1)) - 1 - 1 := by
  have h1 : α * α / (na + 1) ≤ α * α / 3 :=
    div_le_div_of_nonneg_left (mul_nonneg hα hα) (by norm_num) (by linarith)
  have h2 : β * β / (nb + 1) ≤ β * β / 3 :=
    div_le_div_of_nonneg_left (mul_nonneg hβ hβ) (by norm_num) (by linarith)
  have h3 : 0 ≤ α * α / (na + 1) := div_nonneg (mul_nonneg hα hα) (by linarith)
  have h4 : 0 ≤ β * β / (nb + 1) := div_nonneg (mul_nonneg hβ hβ) (by linarith)
  have hDpos : 0 < α * α / (na + 1) + β * β / (nb + 1) := lt_of_le_of_ne (by linarith) (Ne.symm hD)
  have hab : 0 ≤ α * β := mul_nonneg hα hβ
  have hlt : 2 * (α * α / (na + 1) + β * β / (nb + 1)) < (α + β) * (α + β) := by nlinarith
  have : 2 < (α + β) * (α + β) / (α * α / (na + 1) + β * β / (nb + 1)) := by
    rw [lt_div_iff₀ hDpos]; exact hlt
  linarith

namespace XR

theorem effectiveDof_safe (α β : ℝ) (na nb : ℕ) (hα : 0 ≤ α) (hβ : 0 ≤ β) (hna : 2 ≤ na)
    (hnb : 2 ≤ nb) :
    Unpaired.effectiveDof (fin α) (fin β) (fin na) (fin nb) = nan ∨
    Unpaired.effectiveDof (fin α) (fin β) (fin na) (fin nb) = pinf ∨
    ∃ r : ℝ, Unpaired.effectiveDof (fin α) (fin β) (fin na) (fin nb) = fin r ∧ 0 < r := by
  have hna' : (2 : ℝ) ≤ na := by exact_mod_cast hna
  have hnb' : (2 : ℝ) ≤ nb := by exact_mod_cast hnb
  have ha1 : (na : ℝ) + 1 ≠ 0 := by linarith
  have hb1 : (nb : ℝ) + 1 ≠ 0 := by linarith
  unfold Unpaired.effectiveDof
  simp only [add_fin_fin, mul_fin_fin, one_eq, div_fin_fin_of_ne _ ha1, div_fin_fin_of_ne _ hb1]
  by_cases hD : α * α / ((na : ℝ) + 1) + β * β / ((nb : ℝ) + 1) = 0
  · rw [div_fin_fin, if_pos hD]
    by_cases hN : (α + β) * (α + β) = 0
    · left; rw [if_pos hN]; rfl
    · right; left
      have : 0 < (α + β) * (α + β) := lt_of_le_of_ne (mul_self_nonneg _) (Ne.symm hN)
      rw [if_neg hN, if_pos this]; rfl
  · right; right
    rw [div_fin_fin_of_ne _ hD]
    exact ⟨_, rfl, welch_dof_pos α β na nb hα hβ hna' hnb' hD⟩

/-- the lower clamp `min(na, nb) - 1` keeps a NaN or `+∞` as it is and keeps a positive number positive:
    with `na, nb ≥ 2` the clamped value is never `≤ 0` -/
theorem clampDof_safe (d : XR) (na nb : ℕ) (hna : 2 ≤ na) (hnb : 2 ≤ nb)
    (hd : d = nan ∨ d = pinf ∨ ∃ r : ℝ, d = fin r ∧ 0 < r) :
    Unpaired.clampDof d (fin na) (fin nb) = nan ∨ Unpaired.clampDof d (fin na) (fin nb) = pinf ∨
    ∃ r : ℝ, Unpaired.clampDof d (fin na) (fin nb) = fin r ∧ 0 < r := by
  have hna' : (2 : ℝ) ≤ na := by exact_mod_cast hna
  have hnb' : (2 : ℝ) ≤ nb := by exact_mod_cast hnb
  have hmin : fmin (fin (na : ℝ)) (fin (nb : ℝ)) = fin (min (na : ℝ) nb) := by
    unfold fmin
    by_cases h : (nb : ℝ) < na
    · simp [h, min_eq_right h.le]
    · have h' : (na : ℝ) ≤ nb := not_lt.mp h
      simp [h, h', min_eq_left h']
  have hm : 0 < min (na : ℝ) nb - 1 := by
    have : (2 : ℝ) ≤ min (na : ℝ) nb := le_min hna' hnb'
    linarith
  unfold Unpaired.clampDof
  simp only [hmin, one_eq, sub_fin_fin]
  rcases hd with rfl | rfl | ⟨r, rfl, hr⟩
  · left; simp
  · right; left; simp
  · right; right
    by_cases h : r < min (na : ℝ) nb - 1
    · exact ⟨_, by simp [h], hm⟩
    · exact ⟨_, by simp [h], hr⟩

/-- on `XR` the guards of `Unpaired::ci_mean` leave `s²/n` finite and non-negative -/
theorem s2n_of_finite (a : Arith XR) (h2 : 2 ≤ a.count) (h : Scalar.isFinite (Unpaired.s2n a) = true) :
    ∃ α : ℝ, Unpaired.s2n a = fin α ∧ 0 ≤ α := by
  unfold Unpaired.s2n at h ⊢
  obtain ⟨s, hs⟩ := (isFinite_iff _).mp (isFinite_mul (isFinite_div_left h)).1
  have hn : ((a.count : ℕ) : ℝ) ≠ 0 := by
    have : (2 : ℝ) ≤ a.count := by exact_mod_cast h2
    linarith
  rw [hs]
  simp only [mul_fin_fin, ofNat_eq, div_fin_fin_of_ne _ hn]
  exact ⟨_, rfl, div_nonneg (mul_self_nonneg s) (Nat.cast_nonneg _)⟩

/-- on `XR`, `Unpaired::ci_mean` never panics for a confidence whose quantile is a probability:
    the effective degrees of freedom are either undefined (NaN, `+∞`: the z branch is taken) or
    strictly positive -/
theorem unpaired_ciMean_isPanic (crit : Crit XR) (u : Unpaired XR) (conf : Confidence XR)
    (hq : probOk conf.quantile = true) : (Unpaired.ciMean crit u conf).isPanic = false := by
  rw [Bool.eq_false_iff]
  intro hp
  obtain ⟨h1, h2, _, h4, h5⟩ := (Unpaired.ciMean_isPanic_iff crit u conf).mp hp
  rcases h5 with ⟨h5, h6⟩ | h5
  swap
  · simp [hq] at h5
  unfold Unpaired.semF at h4
  obtain ⟨hA, hB⟩ := isFinite_add (isFinite_sqrt h4)
  obtain ⟨α, hα, hα0⟩ := s2n_of_finite u.a h1 hA
  obtain ⟨β, hβ, hβ0⟩ := s2n_of_finite u.b h2 hB
  have hd : Unpaired.dofF u = Unpaired.clampDof
      (Unpaired.effectiveDof (fin α) (fin β) (fin u.a.count) (fin u.b.count))
      (fin u.a.count) (fin u.b.count) := by
    unfold Unpaired.dofF; rw [hα, hβ]; rfl
  rw [Unpaired.dofW_eq_dofF_XR, hd] at h5 h6
  rcases clampDof_safe _ u.a.count u.b.count h1 h2
      (effectiveDof_safe α β u.a.count u.b.count hα0 hβ0 h1 h2) with h | h | ⟨r, h, hr⟩ <;>
    rw [h] at h5 h6
  · simp at h5
  · simp [populationLimit] at h5
  · simp [hr] at h6

end XR

/-! ## rounded reals: the clamp of `ci_wilson` keeps every `Ok` inside `[0, 1]` -/

/-- on the reals with an arbitrary rounding function after every operation (`max`/`min` do not
    round): every `Ok` of the clamped constructor is two-sided with `0 ≤ lo ≤ hi ≤ 1` -/
theorem Proportion.finishWilson_ok_unit_RR {fl : ℝ → ℝ} {conf : Confidence (RR fl)} {m s : RR fl}
    {i : Interval (RR fl)} (h : Proportion.finishWilson conf m s = .ok i) :
    ∃ lo hi : RR fl, i = .twoSided lo hi ∧ 0 ≤ lo.val ∧ lo.val ≤ hi.val ∧ hi.val ≤ 1 := by
  obtain ⟨lo, hi, rfl, hg, k1, k2, k3⟩ := Proportion.finishWilson_eq_ok h
  have hle : lo.val ≤ hi.val := by
    by_contra hc
    have : gt lo hi = true := (RR.gt_iff lo hi).mpr (not_le.mp hc)
    rw [hg] at this; cases this
  refine ⟨lo, hi, rfl, ?_, hle, ?_⟩ <;> cases conf
  · rw [(k1 rfl).1, fmax_val]; exact le_max_right _ _
  · rw [(k2 rfl).1, fmin_val, fmax_val]; exact le_min (le_max_right _ _) (by simp)
  · rw [(k3 rfl).1]; simp
  · rw [(k1 rfl).2, fmin_val]; exact min_le_right _ _
  · rw [(k2 rfl).2]; simp
  · rw [(k3 rfl).2, fmax_val, fmin_val]; exact max_le (min_le_right _ _) (by simp)

/-- every `Ok` of `ci_wilson` on rounded reals — any rounding function, any critical value — is a
    two-sided interval with `0 ≤ lo ≤ hi ≤ 1` -/
theorem Proportion.ciWilson_ok_unit_RR {fl : ℝ → ℝ} (crit : Crit (RR fl)) (conf : Confidence (RR fl))
    (n k : Nat) {i : Interval (RR fl)} (h : Proportion.ciWilson crit conf n k = .ok i) :
    ∃ lo hi : RR fl, i = .twoSided lo hi ∧ 0 ≤ lo.val ∧ lo.val ≤ hi.val ∧ hi.val ≤ 1 :=
  Proportion.finishWilson_ok_unit_RR (Proportion.ciWilson_eq_ok' h).2.2.2.2

/-! ## `Rex`: the same, away from the `0/0` the exact-real carrier cannot represent -/

/-- at exact reals the effective degrees of freedom are positive unless both samples are constant -/
theorem Unpaired.dofF_pos_Rex (u : Unpaired Rex) (h1 : 2 ≤ u.a.count) (h2 : 2 ≤ u.b.count)
    (hpos : (Unpaired.s2n u.a).val ≠ 0 ∨ (Unpaired.s2n u.b).val ≠ 0) :
    0 < (Unpaired.dofF u).val := by
  have hna : (2 : ℝ) ≤ u.a.count := by exact_mod_cast h1
  have hnb : (2 : ℝ) ≤ u.b.count := by exact_mod_cast h2
  have hα : 0 ≤ (Unpaired.s2n u.a).val := by
    simp only [Unpaired.s2n, RR.div_val, RR.mul_val, RR.ofNat_val, id]
    exact div_nonneg (mul_self_nonneg _) (by linarith)
  have hβ : 0 ≤ (Unpaired.s2n u.b).val := by
    simp only [Unpaired.s2n, RR.div_val, RR.mul_val, RR.ofNat_val, id]
    exact div_nonneg (mul_self_nonneg _) (by linarith)
  have hD : (Unpaired.s2n u.a).val * (Unpaired.s2n u.a).val / ((u.a.count : ℝ) + 1) +
      (Unpaired.s2n u.b).val * (Unpaired.s2n u.b).val / ((u.b.count : ℝ) + 1) ≠ 0 := by
    have e1 : 0 ≤ (Unpaired.s2n u.a).val * (Unpaired.s2n u.a).val / ((u.a.count : ℝ) + 1) :=
      div_nonneg (mul_self_nonneg _) (by linarith)
    have e2 : 0 ≤ (Unpaired.s2n u.b).val * (Unpaired.s2n u.b).val / ((u.b.count : ℝ) + 1) :=
      div_nonneg (mul_self_nonneg _) (by linarith)
    intro h0
    have z1 : (Unpaired.s2n u.a).val * (Unpaired.s2n u.a).val / ((u.a.count : ℝ) + 1) = 0 := by linarith
    have z2 : (Unpaired.s2n u.b).val * (Unpaired.s2n u.b).val / ((u.b.count : ℝ) + 1) = 0 := by linarith
    rw [div_eq_zero_iff] at z1 z2
    rcases hpos with hp | hp
    · rcases z1 with z | z
      · exact hp (mul_self_eq_zero.mp z)
      · linarith
    · rcases z2 with z | z
      · exact hp (mul_self_eq_zero.mp z)
      · linarith
  have := welch_dof_pos _ _ _ _ hα hβ hna hnb hD
  have hval : (Unpaired.effectiveDof (Unpaired.s2n u.a) (Unpaired.s2n u.b)
        (Scalar.ofNat u.a.count) (Scalar.ofNat u.b.count) : Rex).val =
      ((Unpaired.s2n u.a).val + (Unpaired.s2n u.b).val) * ((Unpaired.s2n u.a).val + (Unpaired.s2n u.b).val) /
        ((Unpaired.s2n u.a).val * (Unpaired.s2n u.a).val / ((u.a.count : ℝ) + 1) +
          (Unpaired.s2n u.b).val * (Unpaired.s2n u.b).val / ((u.b.count : ℝ) + 1)) - 1 - 1 := by
    simp [Unpaired.effectiveDof]
  rw [Unpaired.dofF, Unpaired.clampDof_val, hval]
  exact lt_of_lt_of_le this (le_max_left _ _)

theorem Unpaired.ciMean_isPanic_Rex (crit : Crit Rex) (u : Unpaired Rex) (conf : Confidence Rex)
    (hq : probOk conf.quantile = true)
    (hpos : (Unpaired.s2n u.a).val ≠ 0 ∨ (Unpaired.s2n u.b).val ≠ 0) :
    (Unpaired.ciMean crit u conf).isPanic = false := by
  rw [Bool.eq_false_iff]
  intro hp
  obtain ⟨h1, h2, _, _, h5⟩ := (Unpaired.ciMean_isPanic_iff crit u conf).mp hp
  rcases h5 with ⟨_, h6⟩ | h5
  · have hh := Unpaired.dofF_pos_Rex u h1 h2 hpos
    have : gt (Unpaired.dofW u : Rex) (NumOps.zero : Rex) = true := by
      rw [Unpaired.dofW_eq_dofF_RR]; simpa using hh
    rw [this] at h6; cases h6
  · simp [hq] at h5

/-! ## `Ok` implies the closed form (no law class: the hypotheses are read off the `Ok`) -/

theorem Arith.ciMean_eq_of_ok {F W : Type} [Scalar F] [Scalar W] [Widen F W] {crit : Crit W}
    {a : Arith F} {conf : Confidence W} {i : Interval F} (h : Arith.ciMean crit a conf = .ok i) :
    probOk conf.quantile = true ∧
    intervalOfKind conf
        (Widen.down (sub (Widen.up a.mean : W)
          (mul (Arith.critOf crit a conf) (div (Widen.up a.stdDev) (sqrt (Scalar.ofNat a.count))))) : F)
        (Widen.down (add (Widen.up a.mean : W)
          (mul (Arith.critOf crit a conf) (div (Widen.up a.stdDev) (sqrt (Scalar.ofNat a.count))))) : F)
      = (.ok i : Outcome (Err W) (Interval F)) := by
  obtain ⟨h2, hm, hs, _⟩ := Arith.ciMean_eq_ok h
  have hnp : (Arith.ciMean crit a conf).isPanic = false := by rw [h]; rfl
  have hiff := Arith.ciMean_isPanic_iff crit a conf
  have hq : probOk conf.quantile = true := by
    by_contra hq
    have := hiff.mpr ⟨h2, hm, hs, Or.inr (by simpa using hq)⟩
    rw [hnp] at this; cases this
  have hd : lt (sub (Scalar.ofNat a.count) one : W) (populationLimit : W) = true →
      gt (sub (Scalar.ofNat a.count) one : W) (zero : W) = true := by
    intro hl
    by_contra hg
    have := hiff.mpr ⟨h2, hm, hs, Or.inl ⟨hl, by simpa using hg⟩⟩
    rw [hnp] at this; cases this
  refine ⟨hq, ?_⟩
  rw [← h]
  unfold Arith.ciMean
  rw [Arith.ciPrep_of_finite a h2 hm hs]
  simp only [Outcome.bind_ok]
  rw [intervalBounds_eq crit conf _ _ _ hq hd]
  rfl

theorem Unpaired.ciMean_eq_of_ok {F W : Type} [Scalar F] [Scalar W] [Widen F W] {crit : Crit W}
    {u : Unpaired F} {conf : Confidence W} {i : Interval F} (h : Unpaired.ciMean crit u conf = .ok i) :
    probOk conf.quantile = true ∧
    intervalOfKind conf
        (Widen.down (sub (Widen.up (Unpaired.meanDiff u) : W)
          (mul (Unpaired.critOf crit u conf) (Widen.up (Unpaired.semF u)))) : F)
        (Widen.down (add (Widen.up (Unpaired.meanDiff u) : W)
          (mul (Unpaired.critOf crit u conf) (Widen.up (Unpaired.semF u)))) : F)
      = (.ok i : Outcome (Err W) (Interval F)) := by
  obtain ⟨h1, h2, h3, h4, _⟩ := Unpaired.ciMean_eq_ok h
  have hnp : (Unpaired.ciMean crit u conf).isPanic = false := by rw [h]; rfl
  have hiff := Unpaired.ciMean_isPanic_iff crit u conf
  have hq : probOk conf.quantile = true := by
    by_contra hq
    have := hiff.mpr ⟨h1, h2, h3, h4, Or.inr (by simpa using hq)⟩
    rw [hnp] at this; cases this
  have hd : lt (Unpaired.dofW u : W) (populationLimit : W) = true →
      gt (Unpaired.dofW u : W) (zero : W) = true := by
    intro hl
    by_contra hg
    have := hiff.mpr ⟨h1, h2, h3, h4, Or.inl ⟨hl, by simpa using hg⟩⟩
    rw [hnp] at this; cases this
  exact ⟨hq, by rw [← h, Unpaired.ciMean_eq crit u conf h1 h2 h3 h4 hq hd]⟩

/-! ## `XR`: with a finite critical value no `Ok` carries a NaN -/

namespace XR

/-- all bounds finite, and ordered when there are two -/
def FinIv : Interval XR → Prop
  | .twoSided lo hi => ∃ a b : ℝ, lo = fin a ∧ hi = fin b ∧ a ≤ b
  | .upper lo => ∃ a : ℝ, lo = fin a
  | .lower hi => ∃ b : ℝ, hi = fin b

/-- no bound is a NaN -/
def NoNaN : Interval XR → Prop
  | .twoSided lo hi => lo ≠ nan ∧ hi ≠ nan
  | .upper lo => lo ≠ nan
  | .lower hi => hi ≠ nan

theorem FinIv.noNaN {i : Interval XR} (h : FinIv i) : NoNaN i := by
  cases i <;> simp only [FinIv, NoNaN] at *
  · obtain ⟨a, b, rfl, rfl, _⟩ := h; simp
  · obtain ⟨a, rfl⟩ := h; simp
  · obtain ⟨a, rfl⟩ := h; simp

theorem intervalOfKind_fin {conf : Confidence XR} {a b : ℝ} {i : Interval XR}
    (h : (intervalOfKind conf (fin a) (fin b) : Outcome (Err XR) (Interval XR)) = .ok i) :
    FinIv i ∧ (conf.kind = .twoSided → i = .twoSided (fin a) (fin b)) ∧
      (conf.kind = .upper → i = .upper (fin a)) ∧ (conf.kind = .lower → i = .lower (fin b)) := by
  obtain ⟨h1, h2, h3⟩ := intervalOfKind_eq_ok h
  refine ⟨?_, fun hk => (h1 hk).1, h2, h3⟩
  cases conf
  · obtain ⟨rfl, hg⟩ := h1 rfl
    exact ⟨a, b, rfl, rfl, by simpa using hg⟩
  · rw [h2 rfl]; exact ⟨a, rfl⟩
  · rw [h3 rfl]; exact ⟨b, rfl⟩

theorem arith_ciMean_ok_finIv (crit : Crit XR) (a : Arith XR) (conf : Confidence XR)
    (hc : ∀ r, Scalar.isFinite (crit r) = true) {i : Interval XR}
    (h : Arith.ciMean crit a conf = .ok i) :
    FinIv i ∧ (i.isTwoSided = true ↔ conf.kind = .twoSided) ∧ (i.isUpper = true ↔ conf.kind = .upper) ∧
      (i.isLower = true ↔ conf.kind = .lower) := by
  obtain ⟨h2, hm, hs, _⟩ := Arith.ciMean_eq_ok h
  obtain ⟨_, h⟩ := Arith.ciMean_eq_of_ok h
  obtain ⟨m, hm'⟩ := (isFinite_iff _).mp hm
  obtain ⟨s, hs'⟩ := (isFinite_iff _).mp hs
  obtain ⟨c, hc'⟩ := (isFinite_iff _).mp (hc (critReq conf (NumOps.sub (Scalar.ofNat a.count) NumOps.one)))
  have hn : (0 : ℝ) < a.count := by exact_mod_cast (show 0 < a.count by omega)
  have hsq : Real.sqrt (a.count : ℝ) ≠ 0 := (Real.sqrt_pos.mpr hn).ne'
  simp only [up_eq, down_eq] at hm' hs' h
  rw [hm', hs', show Arith.critOf crit a conf = fin c from hc'] at h
  simp only [ofNat_eq, sqrt_fin_of_nonneg hn.le, div_fin_fin_of_ne _ hsq, mul_fin_fin, sub_fin_fin,
    add_fin_fin] at h
  obtain ⟨hf, k1, k2, k3⟩ := intervalOfKind_fin h
  refine ⟨hf, ?_⟩
  cases conf
  · rw [k1 rfl]; simp [Interval.isTwoSided, Interval.isUpper, Interval.isLower, Confidence.kind]
  · rw [k2 rfl]; simp [Interval.isTwoSided, Interval.isUpper, Interval.isLower, Confidence.kind]
  · rw [k3 rfl]; simp [Interval.isTwoSided, Interval.isUpper, Interval.isLower, Confidence.kind]

theorem unpaired_ciMean_ok_finIv (crit : Crit XR) (u : Unpaired XR) (conf : Confidence XR)
    (hc : ∀ r, Scalar.isFinite (crit r) = true) {i : Interval XR}
    (h : Unpaired.ciMean crit u conf = .ok i) : FinIv i := by
  obtain ⟨_, _, hm, hs, _⟩ := Unpaired.ciMean_eq_ok h
  obtain ⟨_, h⟩ := Unpaired.ciMean_eq_of_ok h
  obtain ⟨m, hm'⟩ := (isFinite_iff _).mp hm
  obtain ⟨s, hs'⟩ := (isFinite_iff _).mp hs
  obtain ⟨c, hc'⟩ := (isFinite_iff _).mp (hc (critReq conf (Unpaired.dofW u)))
  simp only [up_eq, down_eq] at h
  rw [hm', hs', show Unpaired.critOf crit u conf = fin c from hc'] at h
  simp only [mul_fin_fin, sub_fin_fin, add_fin_fin] at h
  exact (intervalOfKind_fin h).1

theorem geometric_ciMean_ok_finIv (crit : Crit XR) (g : Geometric XR) (conf : Confidence XR)
    (hc : ∀ r, Scalar.isFinite (crit r) = true) {i : Interval XR}
    (h : Geometric.ciMean crit g conf = .ok i) : FinIv i := by
  unfold Geometric.ciMean at h
  obtain ⟨j, hj, h⟩ := Outcome.bind_eq_ok h
  obtain ⟨hf, k1, k2, k3⟩ := arith_ciMean_ok_finIv crit g.logs conf hc hj
  cases conf <;> cases j <;>
    simp [Interval.isTwoSided, Interval.isUpper, Interval.isLower, Confidence.kind] at k1 k2 k3
  · obtain ⟨a, b, rfl, rfl, hab⟩ := hf
    simp only [Interval.lowX, Interval.highX, exp_fin] at h
    exact (intervalOfKind_fin h).1
  · obtain ⟨a, rfl⟩ := hf
    simp only [intervalOfKind, Interval.lowX, exp_fin, Interval.newUpper, Outcome.ok.injEq] at h
    rw [← h]; exact ⟨_, rfl⟩
  · obtain ⟨b, rfl⟩ := hf
    simp only [intervalOfKind, Interval.highX, exp_fin, Interval.newLower, Outcome.ok.injEq] at h
    rw [← h]; exact ⟨_, rfl⟩

/-- `1/x` of a finite `x` is never a NaN (it is `+∞` at `x = 0`) -/
theorem one_div_fin_ne_nan (x : ℝ) : NumOps.div (NumOps.one : XR) (fin x) ≠ nan := by
  by_cases hx : x = 0
  · subst hx
    rw [one_eq, div_zero_of_pos one_pos]; simp
  · rw [one_eq, div_fin_fin_of_ne _ hx]; simp

/-- `+∞` or a strictly positive finite number -/
def PosOrInf (x : XR) : Prop := x = pinf ∨ ∃ r : ℝ, x = fin r ∧ 0 < r

theorem PosOrInf.ne_nan {x : XR} (h : PosOrInf x) : x ≠ nan := by
  rcases h with rfl | ⟨r, rfl, _⟩ <;> simp

/-- every bound is `+∞` or a strictly positive finite number -/
def PosIv : Interval XR → Prop
  | .twoSided lo hi => PosOrInf lo ∧ PosOrInf hi
  | .upper lo => PosOrInf lo
  | .lower hi => PosOrInf hi

theorem PosIv.noNaN {i : Interval XR} (h : PosIv i) : NoNaN i := by
  cases i <;> simp only [PosIv, NoNaN] at *
  · exact ⟨h.1.ne_nan, h.2.ne_nan⟩
  · exact h.ne_nan
  · exact h.ne_nan

/-- `Harmonic.recipBound` of a finite reciprocal-space bound: `1/x` when `x > 0`, `+∞` otherwise -/
theorem recipBound_fin (x : ℝ) :
    Harmonic.recipBound (fin x) = if 0 < x then fin (1 / x) else pinf := by
  unfold Harmonic.recipBound
  by_cases hx : 0 < x
  · simp [hx, hx.ne']
  · simp [hx]

theorem recipBound_fin_posOrInf (x : ℝ) : PosOrInf (Harmonic.recipBound (fin x)) := by
  rw [recipBound_fin]
  by_cases hx : 0 < x
  · rw [if_pos hx]; exact Or.inr ⟨1 / x, rfl, one_div_pos.mpr hx⟩
  · rw [if_neg hx]; exact Or.inl rfl

/-- an `Ok` of `Harmonic::ci_mean` on `XR` (finite critical values): every bound is `+∞` or a
    strictly positive finite number -/
theorem harmonic_ciMean_ok_posIv (crit : Crit XR) (g : Harmonic XR) (conf : Confidence XR)
    (hc : ∀ r, Scalar.isFinite (crit r) = true) {i : Interval XR}
    (h : Harmonic.ciMean crit g conf = .ok i) : PosIv i := by
  unfold Harmonic.ciMean at h
  obtain ⟨j, hj, h⟩ := Outcome.bind_eq_ok h
  obtain ⟨hf, k1, k2, k3⟩ := arith_ciMean_ok_finIv crit g.recip conf.flipped hc hj
  cases conf <;> cases j <;>
    simp [Interval.isTwoSided, Interval.isUpper, Interval.isLower, Confidence.kind,
      Confidence.flipped] at k1 k2 k3
  · obtain ⟨a, b, rfl, rfl, hab⟩ := hf
    simp only [Interval.lowX, Interval.highX] at h
    obtain ⟨rfl, _⟩ := (intervalOfKind_eq_ok h).1 rfl
    exact ⟨recipBound_fin_posOrInf b, recipBound_fin_posOrInf a⟩
  · obtain ⟨b, rfl⟩ := hf
    simp only [intervalOfKind, Interval.highX, Interval.newUpper, Outcome.ok.injEq] at h
    rw [← h]; exact recipBound_fin_posOrInf b
  · obtain ⟨a, rfl⟩ := hf
    simp only [intervalOfKind, Interval.lowX, Interval.newLower, Outcome.ok.injEq] at h
    rw [← h]; exact recipBound_fin_posOrInf a

theorem harmonic_ciMean_ok_noNaN (crit : Crit XR) (g : Harmonic XR) (conf : Confidence XR)
    (hc : ∀ r, Scalar.isFinite (crit r) = true) {i : Interval XR}
    (h : Harmonic.ciMean crit g conf = .ok i) : NoNaN i :=
  (harmonic_ciMean_ok_posIv crit g conf hc h).noNaN

theorem finish_fin {conf : Confidence XR} {m s : ℝ} {i : Interval XR}
    (h : Proportion.finish conf (fin m) (fin s) = .ok i) : FinIv i := by
  obtain ⟨lo, hi, rfl, hg, k1, k2, k3⟩ := Proportion.finish_eq_ok h
  cases conf
  · obtain ⟨rfl, rfl⟩ := k1 rfl
    exact ⟨_, _, rfl, rfl, by simpa using hg⟩
  · obtain ⟨rfl, rfl⟩ := k2 rfl
    exact ⟨_, _, rfl, rfl, by simpa using hg⟩
  · obtain ⟨rfl, rfl⟩ := k3 rfl
    exact ⟨_, _, rfl, rfl, by simpa using hg⟩

/-! ### the clamp of `ci_wilson` on `XR`: `fmax x 0` and `fmin x 1` (`f64::max` / `f64::min`) -/

@[simp] theorem fmax_fin_fin (a b : ℝ) : fmax (fin a) (fin b) = fin (max a b) := by
  unfold fmax
  by_cases h : a < b
  · simp [h, max_eq_right h.le]
  · have h' : b ≤ a := not_lt.mp h
    simp [h, h']

@[simp] theorem fmin_fin_fin (a b : ℝ) : fmin (fin a) (fin b) = fin (min a b) := by
  unfold fmin
  by_cases h : b < a
  · simp [h, min_eq_right h.le]
  · have h' : a ≤ b := not_lt.mp h
    simp [h, h']

/-- a NaN argument gives the other argument -/
@[simp] theorem fmax_nan_left (x : XR) : fmax nan x = x := by unfold fmax; cases x <;> simp
@[simp] theorem fmin_nan_left (x : XR) : fmin nan x = x := by unfold fmin; cases x <;> simp
@[simp] theorem fmax_pinf_fin (b : ℝ) : fmax pinf (fin b) = pinf := by unfold fmax; simp
@[simp] theorem fmax_ninf_fin (b : ℝ) : fmax ninf (fin b) = fin b := by unfold fmax; simp
@[simp] theorem fmin_pinf_fin (b : ℝ) : fmin pinf (fin b) = fin b := by unfold fmin; simp
@[simp] theorem fmin_ninf_fin (b : ℝ) : fmin ninf (fin b) = ninf := by unfold fmin; simp

/-- `x.max(0.)` is `+∞` or a finite number `≥ 0` — whatever `x` is (NaN and `−∞` give `0`) -/
theorem fmax_zero_cases (x : XR) :
    fmax x (fin 0) = pinf ∨ ∃ r : ℝ, fmax x (fin 0) = fin r ∧ 0 ≤ r := by
  cases x with
  | nan => exact Or.inr ⟨0, by simp, le_rfl⟩
  | ninf => exact Or.inr ⟨0, by simp, le_rfl⟩
  | pinf => exact Or.inl (by simp)
  | fin r => exact Or.inr ⟨max r 0, by simp, le_max_right _ _⟩

/-- `x.min(1.)` is `−∞` or a finite number `≤ 1` — whatever `x` is (NaN and `+∞` give `1`) -/
theorem fmin_one_cases (x : XR) :
    fmin x (fin 1) = ninf ∨ ∃ r : ℝ, fmin x (fin 1) = fin r ∧ r ≤ 1 := by
  cases x with
  | nan => exact Or.inr ⟨1, by simp, le_rfl⟩
  | ninf => exact Or.inl (by simp)
  | pinf => exact Or.inr ⟨1, by simp, le_rfl⟩
  | fin r => exact Or.inr ⟨min r 1, by simp, min_le_right _ _⟩

/-- `x.max(0.).min(1.)` is a finite number in `[0, 1]` — whatever `x` is -/
theorem fmin_fmax_unit_cases (x : XR) :
    ∃ r : ℝ, fmin (fmax x (fin 0)) (fin 1) = fin r ∧ 0 ≤ r ∧ r ≤ 1 := by
  cases x with
  | nan => exact ⟨0, by simp, le_rfl, zero_le_one⟩
  | ninf => exact ⟨0, by simp, le_rfl, zero_le_one⟩
  | pinf => exact ⟨1, by simp, zero_le_one, le_rfl⟩
  | fin r => exact ⟨min (max r 0) 1, by simp, le_min (le_max_right _ _) zero_le_one, min_le_right _ _⟩

/-- `x.min(1.).max(0.)` is a finite number in `[0, 1]` — whatever `x` is -/
theorem fmax_fmin_unit_cases (x : XR) :
    ∃ r : ℝ, fmax (fmin x (fin 1)) (fin 0) = fin r ∧ 0 ≤ r ∧ r ≤ 1 := by
  cases x with
  | nan => exact ⟨1, by simp, zero_le_one, le_rfl⟩
  | ninf => exact ⟨0, by simp, le_rfl, zero_le_one⟩
  | pinf => exact ⟨1, by simp, zero_le_one, le_rfl⟩
  | fin r => exact ⟨max (min r 1) 0, by simp, le_max_right _ _, max_le (min_le_right _ _) zero_le_one⟩

/-- the clamped low bound of `ci_wilson`: never NaN, and `0 ≤ low` holds as an IEEE comparison -/
theorem fmax_zero_ne_nan (x : XR) : fmax x (fin 0) ≠ nan := by
  rcases fmax_zero_cases x with h | ⟨r, h, _⟩ <;> rw [h] <;> simp

theorem zero_le_fmax_zero (x : XR) : Cmp.le (fin 0) (fmax x (fin 0)) = true := by
  rcases fmax_zero_cases x with h | ⟨r, h, hr⟩
  · rw [h]; simp
  · rw [h]; simp [hr]

/-- the clamped high bound of `ci_wilson`: never NaN, and `high ≤ 1` holds as an IEEE comparison -/
theorem fmin_one_ne_nan (x : XR) : fmin x (fin 1) ≠ nan := by
  rcases fmin_one_cases x with h | ⟨r, h, _⟩ <;> rw [h] <;> simp

theorem fmin_one_le_one (x : XR) : Cmp.le (fmin x (fin 1)) (fin 1) = true := by
  rcases fmin_one_cases x with h | ⟨r, h, hr⟩
  · rw [h]; simp
  · rw [h]; simp [hr]

/-- two finite bounds with `0 ≤ lo ≤ hi ≤ 1` -/
def UnitIv : Interval XR → Prop
  | .twoSided lo hi => ∃ a b : ℝ, lo = fin a ∧ hi = fin b ∧ 0 ≤ a ∧ a ≤ b ∧ b ≤ 1
  | .upper _ => False
  | .lower _ => False

theorem UnitIv.finIv {i : Interval XR} (h : UnitIv i) : FinIv i := by
  cases i <;> simp only [UnitIv, FinIv] at *
  obtain ⟨a, b, rfl, rfl, _, hab, _⟩ := h
  exact ⟨a, b, rfl, rfl, hab⟩

/-- a low bound that is `+∞` or finite `≥ 0` and a high bound that is `−∞` or finite `≤ 1`, accepted
    by `Interval::new` (`¬ lo > hi`): both are finite and `0 ≤ lo ≤ hi ≤ 1` -/
theorem unit_of_not_gt {lo hi : XR} (hlo : lo = pinf ∨ ∃ r : ℝ, lo = fin r ∧ 0 ≤ r)
    (hhi : hi = ninf ∨ ∃ r : ℝ, hi = fin r ∧ r ≤ 1) (hg : gt lo hi = false) :
    ∃ a b : ℝ, lo = fin a ∧ hi = fin b ∧ 0 ≤ a ∧ a ≤ b ∧ b ≤ 1 := by
  rcases hlo with rfl | ⟨a, rfl, ha⟩ <;> rcases hhi with rfl | ⟨b, rfl, hb⟩
  · simp at hg
  · simp at hg
  · simp at hg
  · exact ⟨a, b, rfl, rfl, ha, by simpa using hg, hb⟩

/-- `Interval::new` rejects two finite bounds with `hi < lo` -/
theorem new_fin_of_lt {a b : ℝ} (h : b < a) :
    (liftI (Interval.new (fin a) (fin b)) : Outcome (Err XR) (Interval XR)) =
      .err (.interval .invalidBounds) := by
  simp [Interval.new, liftI, h]

/-- every `Ok` of the clamped constructor on `XR` — for arbitrary arguments, NaN and `±∞` included —
    is a two-sided interval with finite bounds and `0 ≤ lo ≤ hi ≤ 1` -/
theorem finishWilson_ok_unitIv {conf : Confidence XR} {m s : XR} {i : Interval XR}
    (h : Proportion.finishWilson conf m s = .ok i) : UnitIv i := by
  obtain ⟨lo, hi, rfl, hg, k1, k2, k3⟩ := Proportion.finishWilson_eq_ok h
  have h0 : (fin 0 : XR) = pinf ∨ ∃ r : ℝ, (fin 0 : XR) = fin r ∧ 0 ≤ r := Or.inr ⟨0, rfl, le_rfl⟩
  have h1 : (fin 1 : XR) = ninf ∨ ∃ r : ℝ, (fin 1 : XR) = fin r ∧ r ≤ 1 := Or.inr ⟨1, rfl, le_rfl⟩
  cases conf
  · obtain ⟨rfl, rfl⟩ := k1 rfl
    exact unit_of_not_gt (fmax_zero_cases _) (fmin_one_cases _) hg
  · obtain ⟨rfl, rfl⟩ := k2 rfl
    obtain ⟨r, hr, hr0, _⟩ := fmin_fmax_unit_cases (NumOps.sub m s)
    exact unit_of_not_gt (Or.inr ⟨r, hr, hr0⟩) h1 hg
  · obtain ⟨rfl, rfl⟩ := k3 rfl
    obtain ⟨r, hr, _, hr1⟩ := fmax_fmin_unit_cases (NumOps.add m s)
    exact unit_of_not_gt h0 (Or.inr ⟨r, hr, hr1⟩) hg

/-- every `Ok` of `ci_wilson` on `XR`, whatever the critical value (finite, infinite or NaN):
    two finite bounds with `0 ≤ lo ≤ hi ≤ 1` -/
theorem ciWilson_ok_unitIv (crit : Crit XR) (conf : Confidence XR) (n k : Nat) {i : Interval XR}
    (h : Proportion.ciWilson crit conf n k = .ok i) : UnitIv i :=
  finishWilson_ok_unitIv (Proportion.ciWilson_eq_ok' h).2.2.2.2

/-- (no hypothesis on the critical value is needed any more: the clamp absorbs NaN and `±∞`) -/
theorem ciWilson_ok_finIv (crit : Crit XR) (conf : Confidence XR) (n k : Nat) {i : Interval XR}
    (h : Proportion.ciWilson crit conf n k = .ok i) : FinIv i :=
  (ciWilson_ok_unitIv crit conf n k h).finIv

/-- the `InvalidBounds` error of `ci_wilson` on `XR` is a genuine `low > high` between two numbers
    that are not NaN, with `0 ≤ low` and `high ≤ 1` (as IEEE comparisons) -/
theorem ciWilson_invalidBounds_XR (crit : Crit XR) (conf : Confidence XR) (n k : Nat)
    (h : Proportion.ciWilson crit conf n k = .err (.interval .invalidBounds)) :
    ∃ lo hi : XR, Cmp.lt hi lo = true ∧ lo ≠ nan ∧ hi ≠ nan ∧
      Cmp.le (fin 0) lo = true ∧ Cmp.le hi (fin 1) = true := by
  obtain ⟨_, _, _, _, lo, hi, hg, k1, k2, k3⟩ := Proportion.ciWilson_eq_invalidBounds h
  refine ⟨lo, hi, hg, ?_⟩
  cases conf
  · obtain ⟨rfl, rfl⟩ := k1 rfl
    exact ⟨fmax_zero_ne_nan _, fmin_one_ne_nan _, zero_le_fmax_zero _, fmin_one_le_one _⟩
  · obtain ⟨rfl, rfl⟩ := k2 rfl
    obtain ⟨r, hr, hr0, _⟩ := fmin_fmax_unit_cases (NumOps.sub
      (Proportion.wilsonCentre (Scalar.ofNat n) (Scalar.ofNat k) (crit (.z (Confidence.upper _).quantile)))
      (Proportion.wilsonSpan (Scalar.ofNat n) (Scalar.ofNat k) (crit (.z (Confidence.upper _).quantile))))
    have e : (NumOps.zero : XR) = fin 0 := rfl
    have e1 : (NumOps.one : XR) = fin 1 := rfl
    rw [e, e1, hr]
    exact ⟨by simp, by simp, by simpa using hr0, by simp⟩
  · obtain ⟨rfl, rfl⟩ := k3 rfl
    obtain ⟨r, hr, _, hr1⟩ := fmax_fmin_unit_cases (NumOps.add
      (Proportion.wilsonCentre (Scalar.ofNat n) (Scalar.ofNat k) (crit (.z (Confidence.lower _).quantile)))
      (Proportion.wilsonSpan (Scalar.ofNat n) (Scalar.ofNat k) (crit (.z (Confidence.lower _).quantile))))
    have e : (NumOps.zero : XR) = fin 0 := rfl
    have e1 : (NumOps.one : XR) = fin 1 := rfl
    rw [e, e1, hr]
    exact ⟨by simp, by simp, by simp, by simpa using hr1⟩

/-- after the repair of the one-sided arms: a one-sided `ci_wilson` on `XR` never answers
    `InvalidBounds`, whatever the critical value (the finite bound is clamped into `[0, 1]` on both
    sides and the far end is `1` resp. `0`) -/
theorem ciWilson_one_sided_never_invalidBounds_XR (crit : Crit XR) (conf : Confidence XR) (n k : Nat)
    (hk : conf.kind ≠ .twoSided) :
    Proportion.ciWilson crit conf n k ≠ .err (.interval .invalidBounds) := by
  intro h
  obtain ⟨_, _, _, _, lo, hi, hg, k1, k2, k3⟩ := Proportion.ciWilson_eq_invalidBounds h
  have e : (NumOps.zero : XR) = fin 0 := rfl
  have e1 : (NumOps.one : XR) = fin 1 := rfl
  cases conf
  · exact hk rfl
  · obtain ⟨rfl, rfl⟩ := k2 rfl
    obtain ⟨r, hr, _, hr1⟩ := fmin_fmax_unit_cases (NumOps.sub
      (Proportion.wilsonCentre (Scalar.ofNat n) (Scalar.ofNat k) (crit (.z (Confidence.upper _).quantile)))
      (Proportion.wilsonSpan (Scalar.ofNat n) (Scalar.ofNat k) (crit (.z (Confidence.upper _).quantile))))
    rw [e, e1, hr] at hg
    simp at hg
    linarith
  · obtain ⟨rfl, rfl⟩ := k3 rfl
    obtain ⟨r, hr, hr0, _⟩ := fmax_fmin_unit_cases (NumOps.add
      (Proportion.wilsonCentre (Scalar.ofNat n) (Scalar.ofNat k) (crit (.z (Confidence.lower _).quantile)))
      (Proportion.wilsonSpan (Scalar.ofNat n) (Scalar.ofNat k) (crit (.z (Confidence.lower _).quantile))))
    rw [e, e1, hr] at hg
    simp at hg
    linarith

theorem ciZNormal_ok_finIv (crit : Crit XR) (conf : Confidence XR) (n k : Nat)
    (hc : ∀ r, Scalar.isFinite (crit r) = true) {i : Interval XR}
    (h : Proportion.ciZNormal crit conf n k = .ok i) : FinIv i := by
  obtain ⟨h1, h2, h3, hq, _⟩ := Proportion.ciZNormal_eq_ok h
  rcases Proportion.ciZNormal_cases crit conf n k with ⟨h', _⟩ | ⟨_, h', _⟩ | ⟨_, _, h', _⟩ | ⟨_, _, _, h'⟩
  · omega
  · omega
  · omega
  rw [h', zValue_eq crit conf hq] at h
  obtain ⟨z, hz⟩ := (isFinite_iff _).mp (hc (.z conf.quantile))
  have hn : (20 : ℝ) ≤ n := by exact_mod_cast (show 20 ≤ n by omega)
  have hk : (0 : ℝ) ≤ k := Nat.cast_nonneg _
  have hkn : (k : ℝ) ≤ n := by exact_mod_cast h1
  have hn0 : (n : ℝ) ≠ 0 := by linarith
  have hp0 : 0 ≤ (k : ℝ) / n := div_nonneg hk (by linarith)
  have hp1 : (k : ℝ) / n ≤ 1 := by rw [div_le_one (by linarith)]; exact hkn
  have harg : 0 ≤ (k : ℝ) / n * (1 - (k : ℝ) / n) / n :=
    div_nonneg (mul_nonneg hp0 (by linarith)) (by linarith)
  simp only [Outcome.bind_ok, hz, Proportion.waldP, Proportion.waldQ, Proportion.waldSd, ofNat_eq,
    one_eq, mul_fin_fin, sub_fin_fin, div_fin_fin_of_ne _ hn0, sqrt_fin_of_nonneg harg] at h
  exact finish_fin h

theorem ciWilsonRatio_ok_finIv (crit : Crit XR) (conf : Confidence XR) (n : Nat) (rate : XR)
    {i : Interval XR}
    (h : Proportion.ciWilsonRatio crit conf n rate = .ok i) : FinIv i := by
  by_cases hr : Cmp.le rate (NumOps.zero : XR) = true
  · rw [Proportion.ciWilsonRatio_of_nonpos crit conf n hr] at h; cases h
  · rw [Proportion.ciWilsonRatio_of_pos crit conf n (by simpa using hr)] at h
    exact ciWilson_ok_finIv crit conf n _ h

/-- `ci_wilson_ratio` on `XR`, whatever the critical value and the rate -/
theorem ciWilsonRatio_ok_unitIv (crit : Crit XR) (conf : Confidence XR) (n : Nat) (rate : XR)
    {i : Interval XR} (h : Proportion.ciWilsonRatio crit conf n rate = .ok i) : UnitIv i := by
  by_cases hr : Cmp.le rate (NumOps.zero : XR) = true
  · rw [Proportion.ciWilsonRatio_of_nonpos crit conf n hr] at h; cases h
  · rw [Proportion.ciWilsonRatio_of_pos crit conf n (by simpa using hr)] at h
    exact ciWilson_ok_unitIv crit conf n _ h

/-- were `inverse_cdf` to answer NaN, `ci_wilson` past its guards returns `Ok([0, 1])` for every kind
    of confidence: both Wilson numbers are NaN, `NaN.max(0.) = 0`, `NaN.min(1.) = 1` -/
theorem ciWilson_nan_crit (conf : Confidence XR) {n k : Nat} (h1 : k ≤ n) (h2 : 2 ≤ k)
    (h3 : 2 ≤ n - k) (hq : probOk conf.quantile = true) :
    Proportion.ciWilson (fun _ => nan) conf n k = .ok (.twoSided (fin 0) (fin 1)) := by
  rw [Proportion.ciWilson_of_guards _ conf h1 h2 h3, zValue_eq _ conf hq]
  simp only [Outcome.bind_ok, Proportion.wilsonCentre, Proportion.wilsonSpan, mul_nan_left,
    div_nan_left, add_nan_right]
  cases conf <;> simp [Proportion.finishWilson, Interval.new, liftI] <;> norm_num

/-- `quantile::ci` on `XR` data: the bounds are elements of the data, and the sort has already
    panicked on any NaN (every `Ok` needs at least four elements) -/
theorem quantile_ci_ok_noNaN (crit : Crit XR) (conf : Confidence XR) (xs : List XR) (q : XR)
    {i : Interval XR} (h : Quantile.ci crit conf xs q = .ok i) : NoNaN i := by
  unfold Quantile.ci at h
  obtain ⟨sorted, hs, h⟩ := Outcome.bind_eq_ok h
  obtain ⟨idx, hidx, hpick⟩ := Quantile.ciSortedUnchecked_eq_ok h
  obtain ⟨_, hn, _⟩ := Quantile.ciIndices_eq_ok hidx
  obtain ⟨rfl, hlen⟩ := Quantile.sortData_eq_ok hs
  have hnp : (Quantile.sortData xs : Outcome (Err XR) (List XR)).isPanic = false := by rw [hs]; rfl
  have hall : ∀ x ∈ xs, x ≠ nan := by
    intro x hx hnan
    subst hnan
    have := (Quantile.sortData_isPanic_iff (W := XR) xs).mpr ⟨by omega, nan, hx, by simp⟩
    rw [hnp] at this; cases this
  have hmem : ∀ (j : Nat) (a : XR),
      (xs.mergeSort (fun a b => Cmp.le a b))[j]? = some a → a ≠ nan := by
    intro j a hj
    exact hall a ((List.mergeSort_perm xs _).mem_iff.mp (List.mem_of_getElem? hj))
  cases idx <;> cases i <;> simp only [Quantile.PickOk] at hpick
  · exact ⟨hmem _ _ hpick.1, hmem _ _ hpick.2.1⟩
  · exact hmem _ _ hpick.1
  · exact hmem _ _ hpick.1

/-- on `XR` the one value that is not comparable with itself is the NaN -/
theorem le_self_iff (x : XR) : Cmp.le x x = true ↔ x ≠ nan := by
  cases x <;> simp

theorem le_self_eq_false_iff (x : XR) : Cmp.le x x = false ↔ x = nan := by
  cases x <;> simp

theorem selfCmp_iff_noNaN (i : Interval XR) : Quantile.SelfCmp i ↔ NoNaN i := by
  cases i <;> simp only [Quantile.SelfCmp, NoNaN, le_self_iff]

/-- `ci_sorted_unchecked` on `XR`, for any slice (sorted or not, with or without NaN), any critical
    value and any confidence: an `Ok` never has a NaN bound -/
theorem ciSortedUnchecked_ok_noNaN (crit : Crit XR) (conf : Confidence XR) (xs : List XR) (q : XR)
    {i : Interval XR} (h : Quantile.ciSortedUnchecked crit conf xs q = .ok i) : NoNaN i :=
  (selfCmp_iff_noNaN i).mp (Quantile.ciSortedUnchecked_ok_selfCmp h)

end XR

/-! ## concrete witnesses (used for the non-vacuity examples of the property files) -/

namespace Examples

/-- the state reached after observing `1, 2`: sum 3, sum of squares 5, count 2 -/
def a12 : Arith Rex := ⟨⟨⟨3⟩, ⟨0⟩⟩, ⟨⟨5⟩, ⟨0⟩⟩, 2⟩

theorem a12_reachable : a12 = Arith.fromList [inj 1, inj 2] := by
  simp only [a12, Arith.fromList, Arith.extend, List.foldl_cons, List.foldl_nil, Arith.append,
    Arith.empty, Kahan.empty, Kahan.new, Kahan.add, Arith.mk.injEq, Kahan.mk.injEq]
  refine ⟨⟨?_, ?_⟩, ⟨?_, ?_⟩, trivial⟩ <;> apply RR.ext' <;> simp <;> norm_num

theorem a12_mean : a12.mean.val = 3 / 2 := by
  simp [a12, Arith.mean, Kahan.value]

theorem a12_variance : a12.variance.val = 1 / 2 := by
  have h : ¬ ((5 : ℝ) - 3 / 2 * 3 < 0) := by norm_num
  simp [a12, Arith.variance, Arith.mean, Kahan.value, h]
  norm_num

theorem a12_stdDev : a12.stdDev.val = Real.sqrt (1 / 2) := by
  simp only [Arith.stdDev, RR.sqrt_val, id, a12_variance]

theorem a12_stdDev_pos : 0 < a12.stdDev.val := by
  rw [a12_stdDev]; exact Real.sqrt_pos.mpr (by norm_num)

theorem a12_stdDev_sq : a12.stdDev.val * a12.stdDev.val = 1 / 2 := by
  rw [a12_stdDev]; exact Real.mul_self_sqrt (by norm_num)

theorem conf95_valid : Confidence.validLevel (Confidence.twoSided (inj 0.95 : Rex)).level = true := by
  simp [Confidence.validLevel, Confidence.level]; norm_num

theorem conf95_probOk : probOk (Confidence.twoSided (inj 0.95 : Rex)).quantile = true :=
  Confidence.probOk_of_valid_Rex _ conf95_valid

theorem twoSided_ok_Rex (l lo hi : Rex) (h : lo.val ≤ hi.val) :
    (intervalOfKind (Confidence.twoSided l) lo hi : Outcome (Err Rex) (Interval Rex)) =
      .ok (.twoSided lo hi) := by
  simp [intervalOfKind, Interval.new, liftI, not_lt.mpr h]

/-- `Arithmetic::ci_mean` on `1, 2` with critical value 2 is an `Ok` two-sided interval, with a
    non-zero standard error -/
theorem arith_ok : ∃ lo hi : Rex,
    Arith.ciMean (constCrit 2 : Crit Rex) a12 (.twoSided (inj 0.95)) = .ok (.twoSided lo hi) ∧
    a12.stdDev.val / Real.sqrt a12.count ≠ 0 := by
  have hsem : 0 < a12.stdDev.val / Real.sqrt a12.count :=
    div_pos a12_stdDev_pos (Real.sqrt_pos.mpr (by simp [a12]))
  rw [Arith.ciMean_eq _ a12 _ (by simp [a12]) rfl rfl conf95_probOk]
  refine ⟨_, _, twoSided_ok_Rex _ _ _ ?_, hsem.ne'⟩
  simp only [RR.down_eq, RR.up_eq, RR.sub_val, RR.add_val, RR.mul_val, RR.div_val,
    RR.sqrt_val, RR.ofNat_val, id, Arith.critOf, constCrit]
  have : 0 ≤ 2 * (a12.stdDev.val / Real.sqrt a12.count) := mul_nonneg (by norm_num) hsem.le
  linarith

theorem s2n_a12 : (Unpaired.s2n a12).val = 1 / 4 := by
  simp only [Unpaired.s2n, RR.div_val, RR.mul_val, id, a12_stdDev_sq, RR.ofNat_val]
  simp [a12]; norm_num

/-- `Unpaired::ci_mean` on the samples `1, 2` and `1, 2` with critical value 2 is an `Ok` two-sided
    interval, with a non-zero standard error -/
theorem unpaired_ok : ∃ lo hi : Rex,
    Unpaired.ciMean (constCrit 2 : Crit Rex) ⟨a12, a12⟩ (.twoSided (inj 0.95)) =
      .ok (.twoSided lo hi) ∧
    (Unpaired.semF (⟨a12, a12⟩ : Unpaired Rex)).val ≠ 0 := by
  have hsem : 0 < (Unpaired.semF (⟨a12, a12⟩ : Unpaired Rex)).val := by
    simp only [Unpaired.semF, RR.sqrt_val, RR.add_val, id, s2n_a12]
    exact Real.sqrt_pos.mpr (by norm_num)
  have hd : 0 < (Unpaired.dofF (⟨a12, a12⟩ : Unpaired Rex)).val :=
    Unpaired.dofF_pos_Rex _ (by simp [a12]) (by simp [a12]) (Or.inl (by rw [s2n_a12]; norm_num))
  rw [Unpaired.ciMean_eq _ _ _ (by simp [a12]) (by simp [a12]) rfl rfl conf95_probOk
    (fun _ => by rw [Unpaired.dofW_eq_dofF_RR]; simpa using hd)]
  refine ⟨_, _, twoSided_ok_Rex _ _ _ ?_, hsem.ne'⟩
  simp only [RR.down_eq, RR.up_eq, RR.sub_val, RR.add_val, RR.mul_val, id, Unpaired.critOf, constCrit]
  have : 0 ≤ 2 * (Unpaired.semF (⟨a12, a12⟩ : Unpaired Rex)).val := mul_nonneg (by norm_num) hsem.le
  linarith

theorem conf95_probOk_XR : probOk (Confidence.twoSided (XR.fin 0.95)).quantile = true := by
  refine Confidence.probOk_of_valid_XR _ ?_
  simp [Confidence.validLevel, Confidence.level]; norm_num

/-- a successful index computation on `XR`: ten observations, the median, critical value `0` -/
theorem ciIndices_ok :
    Quantile.ciIndices (fun _ => XR.fin 0) (.twoSided (XR.fin 0.95)) 10 (XR.fin 0.5) =
      .ok (.twoSided 5 5) := by
  have hq := conf95_probOk_XR
  have hr : roundToNat (mul (XR.fin 0.5) (Scalar.ofNat 10 : XR)) = 5 := by
    have : (0.5 : ℝ) * ((10 : ℕ) : ℝ) = ((5 : ℕ) : ℝ) := by norm_num
    simp only [XR.ofNat_eq, XR.mul_fin_fin, XR.roundToNat_fin, this, round_natCast]
    rfl
  have h10 : ((10 : ℕ) : ℝ) ≠ 0 := by norm_num
  have h10' : ((10 : ℕ) : ℝ) + 0 * 0 ≠ 0 := by norm_num
  have h2 : (1 : ℝ) + 1 ≠ 0 := by norm_num
  have h4 : (1 : ℝ) + 1 + (1 + 1) ≠ 0 := by norm_num
  have hw : Proportion.ciWilson (fun _ => XR.fin 0) (.twoSided (XR.fin 0.95)) 10 5 =
      .ok (.twoSided (XR.fin (1/2)) (XR.fin (1/2))) := by
    rw [Proportion.ciWilson_of_guards _ _ (by norm_num) (by norm_num) (by norm_num), zValue_eq _ _ hq]
    have harg : (0:ℝ) ≤ ((5:ℕ):ℝ) * (((10:ℕ):ℝ) - ((5:ℕ):ℝ)) / ((10:ℕ):ℝ) + 0 * 0 / (1 + 1 + (1 + 1)) := by
      norm_num
    simp only [Outcome.bind_ok, Proportion.wilsonCentre, Proportion.wilsonSpan, XR.ofNat_eq, XR.one_eq,
      XR.mul_fin_fin, XR.add_fin_fin, XR.sub_fin_fin, XR.div_fin_fin_of_ne _ h2,
      XR.div_fin_fin_of_ne _ h4, XR.div_fin_fin_of_ne _ h10', XR.div_fin_fin_of_ne _ h10,
      XR.sqrt_fin_of_nonneg harg, Proportion.finishWilson, XR.zero_eq, XR.fmax_fin_fin,
      XR.fmin_fin_fin, Interval.new]
    norm_num [liftI]
  unfold Quantile.ciIndices
  simp only [hr, hw, Outcome.bind_ok, Interval.toPair]
  simp [Quantile.index]
  norm_num

/-- a NaN critical value on `XR`: `ci_wilson` answers `Ok([0, 1])` -/
theorem wilson_nan_crit_ok :
    Proportion.ciWilson (fun _ => XR.nan) (.twoSided (XR.fin 0.95)) 10 5 =
      .ok (.twoSided (XR.fin 0) (XR.fin 1)) :=
  XR.ciWilson_nan_crit _ (by norm_num) (by norm_num) (by norm_num) conf95_probOk_XR

/-- a finite critical value on `XR`: five successes in ten, `z = 0` gives `Ok([1/2, 1/2])` -/
theorem wilson_ok_XR :
    Proportion.ciWilson (fun _ => XR.fin 0) (.twoSided (XR.fin 0.95)) 10 5 =
      .ok (.twoSided (XR.fin (1/2)) (XR.fin (1/2))) := by
  have hq := conf95_probOk_XR
  have h10 : ((10 : ℕ) : ℝ) ≠ 0 := by norm_num
  have h10' : ((10 : ℕ) : ℝ) + 0 * 0 ≠ 0 := by norm_num
  have h2 : (1 : ℝ) + 1 ≠ 0 := by norm_num
  have h4 : (1 : ℝ) + 1 + (1 + 1) ≠ 0 := by norm_num
  rw [Proportion.ciWilson_of_guards _ _ (by norm_num) (by norm_num) (by norm_num), zValue_eq _ _ hq]
  have harg : (0:ℝ) ≤ ((5:ℕ):ℝ) * (((10:ℕ):ℝ) - ((5:ℕ):ℝ)) / ((10:ℕ):ℝ) + 0 * 0 / (1 + 1 + (1 + 1)) := by
    norm_num
  simp only [Outcome.bind_ok, Proportion.wilsonCentre, Proportion.wilsonSpan, XR.ofNat_eq, XR.one_eq,
    XR.mul_fin_fin, XR.add_fin_fin, XR.sub_fin_fin, XR.div_fin_fin_of_ne _ h2,
    XR.div_fin_fin_of_ne _ h4, XR.div_fin_fin_of_ne _ h10', XR.div_fin_fin_of_ne _ h10,
    XR.sqrt_fin_of_nonneg harg, Proportion.finishWilson, XR.zero_eq, XR.fmax_fin_fin,
    XR.fmin_fin_fin, Interval.new]
  norm_num [liftI]

/-- a negative critical value on `XR` (the one way left to `InvalidBounds`): `z = −1`, five successes
    in ten — the span is negative, so `low = centre + |span| > centre − |span| = high` -/
theorem wilson_invalidBounds_XR :
    Proportion.ciWilson (fun _ => XR.fin (-1)) (.twoSided (XR.fin 0.95)) 10 5 =
      .err (.interval .invalidBounds) := by
  have hq := conf95_probOk_XR
  have h10 : ((10 : ℕ) : ℝ) ≠ 0 := by norm_num
  have h10' : ((10 : ℕ) : ℝ) + (-1) * (-1) ≠ 0 := by norm_num
  have h2 : (1 : ℝ) + 1 ≠ 0 := by norm_num
  have h4 : (1 : ℝ) + 1 + (1 + 1) ≠ 0 := by norm_num
  rw [Proportion.ciWilson_of_guards _ _ (by norm_num) (by norm_num) (by norm_num), zValue_eq _ _ hq]
  have harg : (0:ℝ) ≤ ((5:ℕ):ℝ) * (((10:ℕ):ℝ) - ((5:ℕ):ℝ)) / ((10:ℕ):ℝ) +
      (-1) * (-1) / (1 + 1 + (1 + 1)) := by norm_num
  simp only [Outcome.bind_ok, Proportion.wilsonCentre, Proportion.wilsonSpan, XR.ofNat_eq, XR.one_eq,
    XR.mul_fin_fin, XR.add_fin_fin, XR.sub_fin_fin, XR.div_fin_fin_of_ne _ h2,
    XR.div_fin_fin_of_ne _ h4, XR.div_fin_fin_of_ne _ h10', XR.div_fin_fin_of_ne _ h10,
    XR.sqrt_fin_of_nonneg harg, Proportion.finishWilson, XR.zero_eq, XR.fmax_fin_fin,
    XR.fmin_fin_fin]
  refine XR.new_fin_of_lt ?_
  refine lt_of_le_of_lt (min_le_left _ _) (lt_of_lt_of_le ?_ (le_max_left _ _))
  have key : ∀ c x : ℝ, x < 0 → c + x < c - x := fun c x hx => by linarith
  refine key _ _ ?_
  exact mul_neg_of_neg_of_pos (by norm_num) (Real.sqrt_pos.mpr (by norm_num))

/-- an `Ok` of `ci_wilson` in exact arithmetic: five successes in ten, `z = 0` -/
theorem wilson_ok_Rex : ∃ i : Interval Rex,
    Proportion.ciWilson (constCrit 0 : Crit Rex) (.twoSided (inj 0.95)) 10 5 = .ok i := by
  rw [Proportion.ciWilson_of_guards _ _ (by norm_num) (by norm_num) (by norm_num),
    zValue_eq _ _ conf95_probOk]
  simp only [Outcome.bind_ok, Proportion.finishWilson]
  rcases liftI_new_cases (W := Rex)
      (fmax (sub (Proportion.wilsonCentre (Scalar.ofNat 10 : Rex) (Scalar.ofNat 5)
          ((constCrit 0 : Crit Rex) (.z (Confidence.twoSided (inj 0.95 : Rex)).quantile)))
        (Proportion.wilsonSpan (Scalar.ofNat 10 : Rex) (Scalar.ofNat 5)
          ((constCrit 0 : Crit Rex) (.z (Confidence.twoSided (inj 0.95 : Rex)).quantile)))) zero)
      (fmin (add (Proportion.wilsonCentre (Scalar.ofNat 10 : Rex) (Scalar.ofNat 5)
          ((constCrit 0 : Crit Rex) (.z (Confidence.twoSided (inj 0.95 : Rex)).quantile)))
        (Proportion.wilsonSpan (Scalar.ofNat 10 : Rex) (Scalar.ofNat 5)
          ((constCrit 0 : Crit Rex) (.z (Confidence.twoSided (inj 0.95 : Rex)).quantile)))) one)
    with ⟨h, _⟩ | ⟨_, h⟩
  · exact ⟨_, h⟩
  · exfalso
    rw [RR.gt_iff, fmax_val, fmin_val] at h
    simp [Proportion.wilsonCentre, Proportion.wilsonSpan, constCrit] at h
    norm_num at h

/-- reciprocal-space state after the reciprocals `1, 2` (data `1, 1/2`): sum 3, sum of squares 5 -/
def r12 : Arith XR := ⟨⟨XR.fin 3, XR.fin 0⟩, ⟨XR.fin 5, XR.fin 0⟩, 2⟩

theorem r12_mean : r12.mean = XR.fin (3/2) := by
  simp [r12, Arith.mean, Kahan.value]

theorem r12_stdDev : r12.stdDev = XR.fin (Real.sqrt (1/2)) := by
  have h3 : ¬ ((5 : ℝ) < 3 / 2 * 3) := by norm_num
  have h4 : (0 : ℝ) ≤ 5 - 3 / 2 * 3 := by norm_num
  simp [r12, Arith.stdDev, Arith.variance, Arith.mean, Kahan.value, h3, XR.sqrt_fin_of_nonneg h4]
  norm_num

theorem twoSided_ok_XR (l a b : XR) (h : Cmp.lt b a = false) :
    (intervalOfKind (Confidence.twoSided l) a b : Outcome (Err XR) (Interval XR)) =
      .ok (.twoSided a b) := by
  simp [intervalOfKind, Interval.new, liftI, h]

/-- an `Ok` of `Harmonic::ci_mean` on `XR` whose upper bound is `+∞`: the reciprocal-space interval
    `[-97/2, 103/2]` (critical value 100) reaches below zero -/
theorem harmonic_ok_pinf : ∃ r : ℝ, 0 < r ∧
    Harmonic.ciMean (fun _ => XR.fin 100 : Crit XR) ⟨r12⟩ (.twoSided (XR.fin 0.95)) =
      .ok (.twoSided (XR.fin r) XR.pinf) := by
  have hq := conf95_probOk_XR
  unfold Harmonic.ciMean
  rw [show (Confidence.twoSided (XR.fin 0.95)).flipped = .twoSided (XR.fin 0.95) from rfl,
    Arith.ciMean_eq _ r12 _ (by simp [r12]) (by rw [r12_mean]; rfl) (by rw [r12_stdDev]; rfl) hq]
  have h2 : Real.sqrt ((2:ℕ):ℝ) ≠ 0 := (Real.sqrt_pos.mpr (by norm_num)).ne'
  simp only [XR.up_eq, XR.down_eq, r12_mean, r12_stdDev, Arith.critOf, XR.ofNat_eq,
    show r12.count = 2 from rfl, XR.sqrt_fin_of_nonneg (show (0:ℝ) ≤ ((2:ℕ):ℝ) by norm_num),
    XR.div_fin_fin_of_ne _ h2, XR.mul_fin_fin, XR.sub_fin_fin, XR.add_fin_fin,
    Interval.lowX, Interval.highX]
  have hs : Real.sqrt (1 / 2) / Real.sqrt ((2:ℕ):ℝ) = 1 / 2 := by
    rw [← Real.sqrt_div (by norm_num), show ((1:ℝ) / 2 / ((2:ℕ):ℝ)) = (1 / 2) ^ 2 by norm_num,
      Real.sqrt_sq (by norm_num)]
  rw [hs, show (3:ℝ) / 2 - 100 * (1 / 2) = -97 / 2 by norm_num,
    show (3:ℝ) / 2 + 100 * (1 / 2) = 103 / 2 by norm_num]
  refine ⟨2 / 103, by norm_num, ?_⟩
  have hlt : ¬ ((103:ℝ) / 2 < -97 / 2) := by norm_num
  have hpos : (0:ℝ) < 103 / 2 := by norm_num
  have hneg : ¬ ((0:ℝ) < -97 / 2) := by norm_num
  have e1 : Harmonic.recipBound (XR.fin (103 / 2)) = XR.fin (2 / 103) := by
    rw [XR.recipBound_fin, if_pos hpos]; norm_num
  have e2 : Harmonic.recipBound (XR.fin (-97 / 2)) = XR.pinf := by
    rw [XR.recipBound_fin, if_neg hneg]
  rw [twoSided_ok_XR _ _ _ (by simpa using hlt)]
  simp only [Outcome.bind_ok, e1, e2]
  exact twoSided_ok_XR _ _ _ (by simp)

/-- ten `XR` observations, not sorted, a NaN at rank 0, the number 5 at rank 5 -/
def xsNanOff : List XR :=
  [XR.nan, XR.fin 9, XR.fin 2, XR.fin 3, XR.fin 4, XR.fin 5, XR.fin 6, XR.fin 7, XR.fin 8, XR.fin 1]

/-- ten `XR` observations with a NaN at rank 5 -/
def xsNanAt : List XR :=
  [XR.fin 0, XR.fin 1, XR.fin 2, XR.fin 3, XR.fin 4, XR.nan, XR.fin 6, XR.fin 7, XR.fin 8, XR.fin 9]

/-- an `Ok` of `ci_sorted_unchecked` on an unsorted `XR` slice that holds a NaN away from the
    selected ranks (both ranks are 5) -/
theorem sortedUnchecked_ok_XR :
    Quantile.ciSortedUnchecked (fun _ => XR.fin 0) (.twoSided (XR.fin 0.95)) xsNanOff (XR.fin 0.5) =
      .ok (.twoSided (XR.fin 5) (XR.fin 5)) := by
  have hidx : Quantile.ciIndices (fun _ => XR.fin 0) (.twoSided (XR.fin 0.95)) xsNanOff.length
      (XR.fin 0.5) = .ok (.twoSided 5 5) := ciIndices_ok
  rw [Quantile.ciSortedUnchecked_of_good_q _ _ _ (Quantile.ciIndices_eq_ok hidx).1, hidx,
    Outcome.bind_ok]
  have h5 : xsNanOff[5]? = some (XR.fin 5) := rfl
  simp only [Quantile.bound_of_le (W := XR) h5 (by simp), Outcome.bind_ok]
  simp [Interval.new, liftI]

/-- a NaN at the selected rank 5: `InvalidInputData` -/
theorem sortedUnchecked_nan_XR :
    Quantile.ciSortedUnchecked (fun _ => XR.fin 0) (.twoSided (XR.fin 0.95)) xsNanAt (XR.fin 0.5) =
      .err .invalidInputData :=
  Quantile.ciSortedUnchecked_of_incomparable (idx := .twoSided 5 5) (r := 5) (x := XR.nan)
    ciIndices_ok (Or.inl rfl) rfl (by simp)

end Examples

end StatsCI
