/-
  StatsCI.Lemmas.Total — helper lemmas for C06 (critical values) and C11 (totality):
  law classes for comparison and counting, the closed forms of `zValue`/`tValue`/`intervalBounds`,
  the result shapes of `intervalOfKind`/`finish`, list-level facts about the `extend` loops,
  and propagation of non-finite data through the Kahan registers on `XR`.
-/
import StatsCI.Lemmas.XR
import StatsCI.Lemmas.RR

namespace StatsCI
open NumOps Scalar

/-! ## law classes -/

/-- On finite values the Boolean comparisons form a total preorder and `<` is the strict part of
    `≤`. Nothing is said about arithmetic, nor about non-finite values. -/
class LawfulCmp (α : Type) [Scalar α] : Prop where
  le_refl : ∀ x : α, isFinite x = true → le x x = true
  le_total : ∀ x y : α, isFinite x = true → isFinite y = true → le x y = true ∨ le y x = true
  le_trans : ∀ x y z : α, isFinite x = true → isFinite y = true → isFinite z = true →
    le x y = true → le y z = true → le x z = true
  lt_eq_not_le : ∀ x y : α, isFinite x = true → isFinite y = true → lt x y = !le y x

/-- the one arithmetic sanity fact `ci_mean` relies on: `n − 1 > 0` in the carrier for `n ≥ 2` -/
class LawfulCount (W : Type) [Scalar W] : Prop where
  pred_pos : ∀ n : Nat, 2 ≤ n → gt (sub (Scalar.ofNat n : W) one) (zero : W) = true

instance : LawfulCmp Rex where
  le_refl x _ := by simp
  le_total x y _ _ := by simp [le_total]
  le_trans x y z _ _ _ := by simp only [RR.le_iff]; exact le_trans
  lt_eq_not_le x y _ _ := by
    show decide (x.val < y.val) = !decide (y.val ≤ x.val)
    rw [← decide_not, decide_eq_decide]; exact not_le.symm

instance : LawfulCount Rex where
  pred_pos n hn := by
    have : (2 : ℝ) ≤ n := by exact_mod_cast hn
    simp; linarith

instance : LawfulCmp XR where
  le_refl x hx := by cases x <;> simp_all
  le_total x y hx hy := by cases x <;> cases y <;> simp_all [le_total]
  le_trans x y z hx hy hz := by
    cases x <;> cases y <;> cases z <;> simp_all
    exact le_trans
  lt_eq_not_le x y hx hy := by
    cases x <;> cases y <;> simp_all
    rw [Bool.eq_iff_iff]; simp

instance : LawfulCount XR where
  pred_pos n hn := by
    have : (2 : ℝ) ≤ n := by exact_mod_cast hn
    simp; linarith

/-! ## outcomes -/

namespace Outcome
variable {ε α β : Type}

theorem isPanic_bind {x : Outcome ε α} {f : α → Outcome ε β} (hx : x.isPanic = false)
    (hf : ∀ a, x = .ok a → (f a).isPanic = false) : (x.bind f).isPanic = false := by
  cases x with
  | ok a => exact hf a rfl
  | err e => rfl
  | panic t => exact absurd hx (by simp [isPanic])

theorem bind_eq_ok {x : Outcome ε α} {f : α → Outcome ε β} {b : β} (h : x.bind f = .ok b) :
    ∃ a, x = .ok a ∧ f a = .ok b := by
  cases x with
  | ok a => exact ⟨a, rfl, h⟩
  | err e => cases h
  | panic t => cases h

theorem bind_eq_panic {x : Outcome ε α} {f : α → Outcome ε β} {t : String}
    (h : x.bind f = .panic t) : x = .panic t ∨ ∃ a, x = .ok a ∧ f a = .panic t := by
  cases x with
  | ok a => exact Or.inr ⟨a, rfl, h⟩
  | err e => cases h
  | panic s => left; simpa using h

@[simp] theorem isPanic_ok (a : α) : (ok a : Outcome ε α).isPanic = false := rfl
@[simp] theorem isPanic_err (e : ε) : (err e : Outcome ε α).isPanic = false := rfl
@[simp] theorem isPanic_panic (t : String) : (panic t : Outcome ε α).isPanic = true := rfl

theorem isPanic_iff (x : Outcome ε α) : x.isPanic = true ↔ ∃ t, x = .panic t := by
  cases x <;> simp [isPanic]

end Outcome

theorem liftI_isPanic {W α : Type} (x : Except IntervalError α) :
    (liftI x : Outcome (Err W) α).isPanic = false := by
  cases x <;> rfl

/-! ## `Interval.new`, `intervalOfKind`, `finish` -/

section shapes
variable {W F : Type}

theorem Interval.new_eq_ok [Cmp F] {lo hi : F} {i : Interval F} (h : Interval.new lo hi = .ok i) :
    i = .twoSided lo hi ∧ gt lo hi = false := by
  unfold Interval.new at h
  by_cases hg : gt lo hi = true
  · simp [hg] at h
  · simp only [hg, Bool.false_eq_true, if_false, Except.ok.injEq] at h
    exact ⟨h.symm, by simpa using hg⟩

theorem liftI_new_eq_ok [Cmp F] {lo hi : F} {i : Interval F}
    (h : (liftI (Interval.new lo hi) : Outcome (Err W) (Interval F)) = .ok i) :
    i = .twoSided lo hi ∧ gt lo hi = false := by
  cases hn : Interval.new lo hi with
  | ok j => rw [hn] at h; simp only [liftI, Outcome.ok.injEq] at h; subst h; exact Interval.new_eq_ok hn
  | error e => rw [hn] at h; simp [liftI] at h

theorem liftI_new_cases [Cmp F] (lo hi : F) :
    ((liftI (Interval.new lo hi) : Outcome (Err W) (Interval F)) = .ok (.twoSided lo hi) ∧
      gt lo hi = false) ∨
    ((liftI (Interval.new lo hi) : Outcome (Err W) (Interval F)) = .err (.interval .invalidBounds) ∧
      gt lo hi = true) := by
  unfold Interval.new
  by_cases hg : gt lo hi = true
  · right; simp [hg, liftI]
  · left; simp [hg, liftI]

theorem intervalOfKind_isPanic [Cmp F] (conf : Confidence W) (lo hi : F) :
    (intervalOfKind conf lo hi : Outcome (Err W) (Interval F)).isPanic = false := by
  cases conf <;> simp [intervalOfKind, liftI_isPanic]

/-- the shape of an `Ok` result of the shared tail of every `ci_mean` -/
theorem intervalOfKind_eq_ok [Cmp F] {conf : Confidence W} {lo hi : F} {i : Interval F}
    (h : (intervalOfKind conf lo hi : Outcome (Err W) (Interval F)) = .ok i) :
    (conf.kind = .twoSided → i = .twoSided lo hi ∧ gt lo hi = false) ∧
    (conf.kind = .upper → i = .upper lo) ∧ (conf.kind = .lower → i = .lower hi) := by
  cases conf <;> simp only [intervalOfKind, Confidence.kind, reduceCtorEq, false_imp_iff,
    true_imp_iff, and_true, true_and] at h ⊢
  · exact liftI_new_eq_ok h
  · simpa [Interval.newUpper] using h.symm
  · simpa [Interval.newLower] using h.symm

/-- the only error the shared tail can produce -/
theorem intervalOfKind_eq_err [Cmp F] {conf : Confidence W} {lo hi : F} {e : Err W}
    (h : (intervalOfKind conf lo hi : Outcome (Err W) (Interval F)) = .err e) :
    e = .interval .invalidBounds ∧ conf.kind = .twoSided ∧ gt lo hi = true := by
  cases conf <;> simp only [intervalOfKind, reduceCtorEq] at h
  rcases liftI_new_cases (W := W) lo hi with ⟨h1, _⟩ | ⟨h1, h2⟩
  · rw [h1] at h; cases h
  · rw [h1] at h; cases h; exact ⟨rfl, rfl, h2⟩

theorem Proportion.finish_isPanic [Scalar W] (conf : Confidence W) (m s : W) :
    (Proportion.finish conf m s).isPanic = false := by
  cases conf <;> simp [Proportion.finish, liftI_isPanic]

/-- every `Ok` proportion interval is two-sided with `¬ lo > hi` -/
theorem Proportion.finish_eq_ok [Scalar W] {conf : Confidence W} {m s : W} {i : Interval W}
    (h : Proportion.finish conf m s = .ok i) :
    ∃ lo hi, i = .twoSided lo hi ∧ gt lo hi = false ∧
      (conf.kind = .twoSided → lo = sub m s ∧ hi = add m s) ∧
      (conf.kind = .upper → lo = sub m s ∧ hi = one) ∧
      (conf.kind = .lower → lo = zero ∧ hi = add m s) := by
  cases conf <;> simp only [Proportion.finish] at h <;>
    obtain ⟨h1, h2⟩ := liftI_new_eq_ok h <;>
    exact ⟨_, _, h1, h2, by simp [Confidence.kind]⟩

theorem Proportion.finish_eq_err [Scalar W] {conf : Confidence W} {m s : W} {e : Err W}
    (h : Proportion.finish conf m s = .err e) : e = .interval .invalidBounds := by
  cases conf <;> simp only [Proportion.finish] at h <;>
  · rename_i l
    first
    | (rcases liftI_new_cases (W := W) (sub m s) (add m s) with ⟨h1, _⟩ | ⟨h1, _⟩ <;>
        rw [h1] at h <;> cases h; rfl)
    | (rcases liftI_new_cases (W := W) (sub m s) (one : W) with ⟨h1, _⟩ | ⟨h1, _⟩ <;>
        rw [h1] at h <;> cases h; rfl)
    | (rcases liftI_new_cases (W := W) (zero : W) (add m s) with ⟨h1, _⟩ | ⟨h1, _⟩ <;>
        rw [h1] at h <;> cases h; rfl)

end shapes

/-! ## critical values: `zValue`, `tValue`, `critReq`, `intervalBounds` -/

section crit
variable {W : Type} [Scalar W]

theorem zValue_eq (crit : Crit W) (conf : Confidence W) (h : probOk conf.quantile = true) :
    zValue crit conf = .ok (crit (.z conf.quantile)) := by
  simp [zValue, h]

theorem zValue_panic (crit : Crit W) (conf : Confidence W) (h : probOk conf.quantile = false) :
    zValue crit conf = .panic "inverse_cdf" := by
  simp [zValue, h]

theorem tValue_eq (crit : Crit W) (conf : Confidence W) (dof : W) (hd : gt dof (zero : W) = true)
    (h : probOk conf.quantile = true) : tValue crit conf dof = .ok (crit (.t dof conf.quantile)) := by
  simp [tValue, h, hd]

theorem critReq_of_lt (conf : Confidence W) (dof : W) (h : lt dof (populationLimit : W) = true) :
    critReq conf dof = .t dof conf.quantile := by simp [critReq, h]

theorem critReq_of_not_lt (conf : Confidence W) (dof : W) (h : lt dof (populationLimit : W) = false) :
    critReq conf dof = .z conf.quantile := by simp [critReq, h]

/-- `interval_bounds` consults exactly the request `critReq conf dof` and returns `mean ∓ c·sem` -/
theorem intervalBounds_eq (crit : Crit W) (conf : Confidence W) (m s dof : W)
    (hq : probOk conf.quantile = true)
    (hd : lt dof (populationLimit : W) = true → gt dof (zero : W) = true) :
    intervalBounds crit conf m s dof =
      .ok (sub m (mul (crit (critReq conf dof)) s), add m (mul (crit (critReq conf dof)) s)) := by
  unfold intervalBounds
  by_cases hl : lt dof (populationLimit : W) = true
  · rw [critReq_of_lt conf dof hl]; simp [hl, tValue_eq crit conf dof (hd hl) hq]
  · have hl' : lt dof (populationLimit : W) = false := by simpa using hl
    rw [critReq_of_not_lt conf dof hl']; simp [hl', zValue_eq crit conf hq]

/-- `interval_bounds` panics exactly when the t distribution is asked for with `dof` not above zero,
    or the probability is rejected by `inverse_cdf` -/
theorem intervalBounds_isPanic_iff (crit : Crit W) (conf : Confidence W) (m s dof : W) :
    (intervalBounds crit conf m s dof).isPanic = true ↔
      (lt dof (populationLimit : W) = true ∧ gt dof (zero : W) = false) ∨
      probOk conf.quantile = false := by
  unfold intervalBounds
  by_cases hl : lt dof (populationLimit : W) = true <;>
    by_cases hg : gt dof (zero : W) = true <;>
    by_cases hq : probOk conf.quantile = true <;>
    simp [hl, hg, hq, tValue, zValue]

theorem intervalBounds_never_err (crit : Crit W) (conf : Confidence W) (m s dof : W) (e : Err W) :
    intervalBounds crit conf m s dof ≠ .err e := by
  unfold intervalBounds
  by_cases hl : lt dof (populationLimit : W) = true <;>
    by_cases hg : gt dof (zero : W) = true <;>
    by_cases hq : probOk conf.quantile = true <;>
    simp [hl, hg, hq, tValue, zValue]

end crit

/-! ## `Arith.ciPrep` / `Arith.ciMean` -/

namespace Arith
variable {F W : Type} [Scalar F] [Scalar W] [Widen F W]

theorem ciPrep_of_lt (a : Arith F) (h : a.count < 2) :
    (ciPrep a : Outcome (Err W) (Prep W)) = .err (.tooFewSamples a.count) := by
  simp [ciPrep, h]

theorem ciPrep_of_nonfinite (a : Arith F) (h : 2 ≤ a.count)
    (hf : isFinite (Widen.up a.mean : W) = false ∨ isFinite (Widen.up a.stdDev : W) = false) :
    (ciPrep a : Outcome (Err W) (Prep W)) = .err .invalidInputData := by
  have : ¬ a.count < 2 := by omega
  rcases hf with hf | hf <;> simp [ciPrep, this, hf]

theorem ciPrep_of_finite (a : Arith F) (h : 2 ≤ a.count)
    (hm : isFinite (Widen.up a.mean : W) = true) (hs : isFinite (Widen.up a.stdDev : W) = true) :
    (ciPrep a : Outcome (Err W) (Prep W)) =
      .ok ⟨Widen.up a.mean, div (Widen.up a.stdDev) (sqrt (Scalar.ofNat a.count)),
        sub (Scalar.ofNat a.count) one⟩ := by
  have : ¬ a.count < 2 := by omega
  simp [ciPrep, this, hm, hs]

theorem ciPrep_eq_ok {a : Arith F} {p : Prep W} (h : (ciPrep a : Outcome (Err W) (Prep W)) = .ok p) :
    2 ≤ a.count ∧ isFinite (Widen.up a.mean : W) = true ∧ isFinite (Widen.up a.stdDev : W) = true ∧
    p = ⟨Widen.up a.mean, div (Widen.up a.stdDev) (sqrt (Scalar.ofNat a.count)),
        sub (Scalar.ofNat a.count) one⟩ := by
  by_cases hc : a.count < 2
  · rw [ciPrep_of_lt a hc] at h; cases h
  have hc : 2 ≤ a.count := by omega
  by_cases hm : isFinite (Widen.up a.mean : W) = true
  · by_cases hs : isFinite (Widen.up a.stdDev : W) = true
    · rw [ciPrep_of_finite a hc hm hs] at h
      simp only [Outcome.ok.injEq] at h
      exact ⟨hc, hm, hs, h.symm⟩
    · rw [ciPrep_of_nonfinite a hc (Or.inr (by simpa using hs))] at h; cases h
  · rw [ciPrep_of_nonfinite a hc (Or.inl (by simpa using hm))] at h; cases h

theorem ciPrep_isPanic (a : Arith F) : (ciPrep a : Outcome (Err W) (Prep W)).isPanic = false := by
  unfold ciPrep
  split
  · rfl
  · dsimp only
    split <;> rfl

/-- the critical value `ci_mean` uses on a state that passes the guards -/
def critOf (crit : Crit W) (a : Arith F) (conf : Confidence W) : W :=
  crit (critReq conf (sub (Scalar.ofNat a.count) one))

/-- closed form of `ci_mean` on a state that passes the guards -/
theorem ciMean_eq [LawfulCount W] (crit : Crit W) (a : Arith F) (conf : Confidence W)
    (h : 2 ≤ a.count) (hm : isFinite (Widen.up a.mean : W) = true)
    (hs : isFinite (Widen.up a.stdDev : W) = true) (hq : probOk conf.quantile = true) :
    ciMean crit a conf =
      intervalOfKind conf
        (Widen.down (sub (Widen.up a.mean : W)
          (mul (critOf crit a conf) (div (Widen.up a.stdDev) (sqrt (Scalar.ofNat a.count))))) : F)
        (Widen.down (add (Widen.up a.mean : W)
          (mul (critOf crit a conf) (div (Widen.up a.stdDev) (sqrt (Scalar.ofNat a.count))))) : F) := by
  unfold ciMean
  rw [ciPrep_of_finite a h hm hs]
  simp only [Outcome.bind_ok]
  rw [intervalBounds_eq crit conf _ _ _ hq (fun _ => LawfulCount.pred_pos a.count h)]
  rfl

theorem ciMean_isPanic [LawfulCount W] (crit : Crit W) (a : Arith F) (conf : Confidence W)
    (hq : probOk conf.quantile = true) : (ciMean crit a conf).isPanic = false := by
  unfold ciMean
  refine Outcome.isPanic_bind (ciPrep_isPanic a) fun p hp => ?_
  obtain ⟨h2, _, _, rfl⟩ := ciPrep_eq_ok hp
  rw [intervalBounds_eq crit conf _ _ _ hq (fun _ => LawfulCount.pred_pos a.count h2)]
  exact intervalOfKind_isPanic _ _ _

end Arith

/-! ## proportions -/

namespace Proportion
variable {W : Type} [Scalar W]

theorem ciWilson_of_gt (crit : Crit W) (conf : Confidence W) {n k : Nat} (h : n < k) :
    ciWilson crit conf n k = .err (.invalidSuccesses k n) := by
  simp [ciWilson, h]

theorem ciWilson_of_few_successes (crit : Crit W) (conf : Confidence W) {n k : Nat} (h : k ≤ n)
    (h2 : k < 2) : ciWilson crit conf n k = .err (.tooFewSuccesses k n (Scalar.ofNat k)) := by
  simp [ciWilson, Nat.not_lt.mpr h, h2]

theorem ciWilson_of_few_failures (crit : Crit W) (conf : Confidence W) {n k : Nat} (h : k ≤ n)
    (h2 : 2 ≤ k) (h3 : n - k < 2) :
    ciWilson crit conf n k =
      .err (.tooFewFailures (n - k) n (sub (Scalar.ofNat n) (Scalar.ofNat k))) := by
  simp [ciWilson, Nat.not_lt.mpr h, Nat.not_lt.mpr h2, h3]

theorem ciWilson_of_guards (crit : Crit W) (conf : Confidence W) {n k : Nat} (h : k ≤ n)
    (h2 : 2 ≤ k) (h3 : 2 ≤ n - k) :
    ciWilson crit conf n k = (zValue crit conf).bind fun z =>
      finish conf (wilsonCentre (Scalar.ofNat n) (Scalar.ofNat k) z)
        (wilsonSpan (Scalar.ofNat n) (Scalar.ofNat k) z) := by
  simp [ciWilson, Nat.not_lt.mpr h, Nat.not_lt.mpr h2, Nat.not_lt.mpr h3]

theorem ciWilson_cases (crit : Crit W) (conf : Confidence W) (n k : Nat) :
    ciWilson crit conf n k = .err (.invalidSuccesses k n) ∨
    ciWilson crit conf n k = .err (.tooFewSuccesses k n (Scalar.ofNat k)) ∨
    ciWilson crit conf n k = .err (.tooFewFailures (n - k) n (sub (Scalar.ofNat n) (Scalar.ofNat k))) ∨
    (k ≤ n ∧ 2 ≤ k ∧ 2 ≤ n - k ∧ ciWilson crit conf n k = (zValue crit conf).bind fun z =>
      finish conf (wilsonCentre (Scalar.ofNat n) (Scalar.ofNat k) z)
        (wilsonSpan (Scalar.ofNat n) (Scalar.ofNat k) z)) := by
  by_cases h : n < k
  · exact Or.inl (ciWilson_of_gt crit conf h)
  have h : k ≤ n := by omega
  by_cases h2 : k < 2
  · exact Or.inr (Or.inl (ciWilson_of_few_successes crit conf h h2))
  have h2 : 2 ≤ k := by omega
  by_cases h3 : n - k < 2
  · exact Or.inr (Or.inr (Or.inl (ciWilson_of_few_failures crit conf h h2 h3)))
  have h3 : 2 ≤ n - k := by omega
  exact Or.inr (Or.inr (Or.inr ⟨h, h2, h3, ciWilson_of_guards crit conf h h2 h3⟩))

theorem ciWilson_isPanic (crit : Crit W) (conf : Confidence W) (n k : Nat)
    (hq : probOk conf.quantile = true) : (ciWilson crit conf n k).isPanic = false := by
  rcases ciWilson_cases crit conf n k with h | h | h | ⟨_, _, _, h⟩ <;> rw [h] <;> try rfl
  rw [zValue_eq crit conf hq]
  exact finish_isPanic _ _ _

/-- the only panic of `ci_wilson`: the guards pass and `inverse_cdf` rejects the probability -/
theorem ciWilson_isPanic_iff (crit : Crit W) (conf : Confidence W) (n k : Nat) :
    (ciWilson crit conf n k).isPanic = true ↔
      k ≤ n ∧ 2 ≤ k ∧ 2 ≤ n - k ∧ probOk conf.quantile = false := by
  by_cases hq : probOk conf.quantile = true
  · simp [ciWilson_isPanic crit conf n k hq, hq]
  have hq : probOk conf.quantile = false := by simpa using hq
  by_cases h : n < k
  · rw [ciWilson_of_gt crit conf h]; simp; omega
  have h : k ≤ n := by omega
  by_cases h2 : k < 2
  · rw [ciWilson_of_few_successes crit conf h h2]; simp; omega
  have h2 : 2 ≤ k := by omega
  by_cases h3 : n - k < 2
  · rw [ciWilson_of_few_failures crit conf h h2 h3]; simp; omega
  have h3 : 2 ≤ n - k := by omega
  rw [ciWilson_of_guards crit conf h h2 h3, zValue_panic crit conf hq]
  simp [h, h2, h3, hq]

theorem ciWilson_eq_ok {crit : Crit W} {conf : Confidence W} {n k : Nat} {i : Interval W}
    (h : ciWilson crit conf n k = .ok i) :
    k ≤ n ∧ 2 ≤ k ∧ 2 ≤ n - k ∧ probOk conf.quantile = true ∧
    ∃ lo hi, i = .twoSided lo hi ∧ gt lo hi = false := by
  rcases ciWilson_cases crit conf n k with h' | h' | h' | ⟨h1, h2, h3, h'⟩ <;> rw [h'] at h <;>
    try cases h
  by_cases hq : probOk conf.quantile = true
  · rw [zValue_eq crit conf hq] at h
    obtain ⟨lo, hi, hi1, hi2, _⟩ := finish_eq_ok h
    exact ⟨h1, h2, h3, hq, lo, hi, hi1, hi2⟩
  · rw [zValue_panic crit conf (by simpa using hq)] at h; cases h

/-- every error of `ci_wilson` is one of the four documented classes -/
theorem ciWilson_eq_err {crit : Crit W} {conf : Confidence W} {n k : Nat} {e : Err W}
    (h : ciWilson crit conf n k = .err e) :
    (n < k ∧ e = .invalidSuccesses k n) ∨
    (k ≤ n ∧ k < 2 ∧ e = .tooFewSuccesses k n (Scalar.ofNat k)) ∨
    (k ≤ n ∧ 2 ≤ k ∧ n - k < 2 ∧ e = .tooFewFailures (n - k) n (sub (Scalar.ofNat n) (Scalar.ofNat k))) ∨
    (k ≤ n ∧ 2 ≤ k ∧ 2 ≤ n - k ∧ e = .interval .invalidBounds) := by
  by_cases h1 : n < k
  · rw [ciWilson_of_gt crit conf h1] at h; cases h; exact Or.inl ⟨h1, rfl⟩
  have h1 : k ≤ n := by omega
  by_cases h2 : k < 2
  · rw [ciWilson_of_few_successes crit conf h1 h2] at h; cases h; exact Or.inr (Or.inl ⟨h1, h2, rfl⟩)
  have h2 : 2 ≤ k := by omega
  by_cases h3 : n - k < 2
  · rw [ciWilson_of_few_failures crit conf h1 h2 h3] at h; cases h
    exact Or.inr (Or.inr (Or.inl ⟨h1, h2, h3, rfl⟩))
  have h3 : 2 ≤ n - k := by omega
  rw [ciWilson_of_guards crit conf h1 h2 h3] at h
  by_cases hq : probOk conf.quantile = true
  · rw [zValue_eq crit conf hq] at h
    exact Or.inr (Or.inr (Or.inr ⟨h1, h2, h3, finish_eq_err h⟩))
  · rw [zValue_panic crit conf (by simpa using hq)] at h; cases h

theorem ciWilsonRatio_of_nonpos (crit : Crit W) (conf : Confidence W) (n : Nat) {rate : W}
    (h : le rate (zero : W) = true) :
    ciWilsonRatio crit conf n rate = .err (.nonPositiveValue rate) := by
  simp [ciWilsonRatio, h]

theorem ciWilsonRatio_of_pos (crit : Crit W) (conf : Confidence W) (n : Nat) {rate : W}
    (h : le rate (zero : W) = false) :
    ciWilsonRatio crit conf n rate =
      ciWilson crit conf n (roundToNat (mul rate (Scalar.ofNat n))) := by
  simp [ciWilsonRatio, h]

theorem ciWilsonRatio_isPanic (crit : Crit W) (conf : Confidence W) (n : Nat) (rate : W)
    (hq : probOk conf.quantile = true) : (ciWilsonRatio crit conf n rate).isPanic = false := by
  by_cases h : le rate (zero : W) = true
  · rw [ciWilsonRatio_of_nonpos crit conf n h]; rfl
  · rw [ciWilsonRatio_of_pos crit conf n (by simpa using h)]; exact ciWilson_isPanic _ _ _ _ hq

/-- the Wald statistics: `p = k/n`, `q = 1 − p`, `sd = sqrt(p·q/n)` in the crate's operation order -/
def waldP (n k : Nat) : W := div (Scalar.ofNat k) (Scalar.ofNat n)
def waldQ (n k : Nat) : W := sub one (waldP n k)
def waldSd (n k : Nat) : W := sqrt (div (mul (waldP n k) (waldQ n k)) (Scalar.ofNat n))

theorem ciZNormal_cases (crit : Crit W) (conf : Confidence W) (n k : Nat) :
    (n < k ∧ ciZNormal crit conf n k = .err (.invalidSuccesses k n)) ∨
    (k ≤ n ∧ k < 10 ∧ ciZNormal crit conf n k =
      .err (.tooFewSuccesses k n (mul (Scalar.ofNat n) (waldP n k)))) ∨
    (k ≤ n ∧ 10 ≤ k ∧ n - k < 10 ∧ ciZNormal crit conf n k =
      .err (.tooFewFailures (n - k) n (mul (Scalar.ofNat n) (waldQ n k)))) ∨
    (k ≤ n ∧ 10 ≤ k ∧ 10 ≤ n - k ∧ ciZNormal crit conf n k = (zValue crit conf).bind fun z =>
      finish conf (waldP n k) (mul z (waldSd n k))) := by
  by_cases h : n < k
  · exact Or.inl ⟨h, by simp [ciZNormal, h]⟩
  have h' : k ≤ n := by omega
  by_cases h2 : k < 10
  · exact Or.inr (Or.inl ⟨h', h2, by simp [ciZNormal, h, h2, waldP]⟩)
  have h2' : 10 ≤ k := by omega
  by_cases h3 : n - k < 10
  · exact Or.inr (Or.inr (Or.inl ⟨h', h2', h3, by simp [ciZNormal, h, h2, h3, waldP, waldQ]⟩))
  have h3' : 10 ≤ n - k := by omega
  exact Or.inr (Or.inr (Or.inr ⟨h', h2', h3', by simp [ciZNormal, h, h2, h3, waldP, waldQ, waldSd]⟩))

theorem ciZNormal_isPanic (crit : Crit W) (conf : Confidence W) (n k : Nat)
    (hq : probOk conf.quantile = true) : (ciZNormal crit conf n k).isPanic = false := by
  rcases ciZNormal_cases crit conf n k with ⟨_, h⟩ | ⟨_, _, h⟩ | ⟨_, _, _, h⟩ | ⟨_, _, _, h⟩ <;>
    rw [h] <;> try rfl
  rw [zValue_eq crit conf hq]
  exact finish_isPanic _ _ _

theorem ciZNormal_eq_ok {crit : Crit W} {conf : Confidence W} {n k : Nat} {i : Interval W}
    (h : ciZNormal crit conf n k = .ok i) :
    k ≤ n ∧ 10 ≤ k ∧ 10 ≤ n - k ∧ probOk conf.quantile = true ∧
    ∃ lo hi, i = .twoSided lo hi ∧ gt lo hi = false := by
  rcases ciZNormal_cases crit conf n k with ⟨_, h'⟩ | ⟨_, _, h'⟩ | ⟨_, _, _, h'⟩ | ⟨h1, h2, h3, h'⟩ <;>
    rw [h'] at h <;> try cases h
  by_cases hq : probOk conf.quantile = true
  · rw [zValue_eq crit conf hq] at h
    obtain ⟨lo, hi, hi1, hi2, _⟩ := finish_eq_ok h
    exact ⟨h1, h2, h3, hq, lo, hi, hi1, hi2⟩
  · rw [zValue_panic crit conf (by simpa using hq)] at h; cases h

theorem isSignificant_iff (n k : Nat) :
    isSignificant n k = true ↔ n > 30 ∧ k > 5 ∧ k ≤ n ∧ n - k > 5 := by
  simp [isSignificant, and_assoc]

end Proportion

/-! ## quantiles -/

namespace Quantile
variable {W : Type} [Scalar W]

theorem index_isPanic (n : Nat) (p : W) : (index n p).isPanic = false := by
  unfold index
  split
  · rfl
  · split <;> rfl

theorem index_eq_ok {n : Nat} {p : W} {i : Nat} (h : index n p = .ok i) : 0 < n ∧ i ≤ n - 1 := by
  unfold index at h
  split at h
  · cases h
  · split at h
    · cases h
    · simp only [Outcome.ok.injEq] at h
      subst h
      exact ⟨by omega, Nat.min_le_right _ _⟩

/-- what an `Ok` index interval looks like: kind of the confidence, ordered, inside `0..n−1` -/
def IdxOk (conf : Confidence W) (idx : Interval Nat) (n : Nat) : Prop :=
  match conf, idx with
  | .twoSided _, .twoSided lo hi => lo ≤ hi ∧ hi ≤ n - 1
  | .upper _, .upper lo => lo ≤ n - 1
  | .lower _, .lower hi => hi ≤ n - 1
  | _, _ => False

theorem ciIndices_of_bad_q (crit : Crit W) (conf : Confidence W) (n : Nat) {q : W}
    (h : (gt q (zero : W) && lt q (one : W)) = false) :
    ciIndices crit conf n q = .err (.invalidQuantile q) := by
  simp [ciIndices, h]

theorem ciIndices_of_few (crit : Crit W) (conf : Confidence W) {n : Nat} {q : W}
    (h : (gt q (zero : W) && lt q (one : W)) = true) (hn : n < 4) :
    ciIndices crit conf n q = .err (.tooFewSamples n) := by
  simp [ciIndices, h, hn]

theorem ciIndices_isPanic (crit : Crit W) (conf : Confidence W) (n : Nat) (q : W)
    (hq : probOk conf.quantile = true) : (ciIndices crit conf n q).isPanic = false := by
  unfold ciIndices
  split
  · rfl
  split
  · rfl
  refine Outcome.isPanic_bind (Proportion.ciWilson_isPanic _ _ _ _ hq) fun pci _ => ?_
  dsimp only
  split
  · rfl
  split
  · rfl
  refine Outcome.isPanic_bind (index_isPanic _ _) fun lo _ => ?_
  refine Outcome.isPanic_bind (index_isPanic _ _) fun hi _ => ?_
  cases conf
  · dsimp only; split <;> rfl
  · rfl
  · rfl

theorem ciIndices_eq_ok {crit : Crit W} {conf : Confidence W} {n : Nat} {q : W} {idx : Interval Nat}
    (h : ciIndices crit conf n q = .ok idx) :
    (gt q (zero : W) && lt q (one : W)) = true ∧ 4 ≤ n ∧ IdxOk conf idx n := by
  by_cases hq : (gt q (zero : W) && lt q (one : W)) = true
  swap
  · rw [ciIndices_of_bad_q crit conf n (by simpa using hq)] at h; cases h
  by_cases hn : n < 4
  · rw [ciIndices_of_few crit conf hq hn] at h; cases h
  refine ⟨hq, by omega, ?_⟩
  unfold ciIndices at h
  simp only [hq, hn, Bool.not_true, Bool.false_eq_true, if_false] at h
  obtain ⟨pci, _, h⟩ := Outcome.bind_eq_ok h
  split at h
  · cases h
  split at h
  · cases h
  obtain ⟨lo, hlo, h⟩ := Outcome.bind_eq_ok h
  obtain ⟨hi, hhi, h⟩ := Outcome.bind_eq_ok h
  have h1 := (index_eq_ok hlo).2
  have h2 := (index_eq_ok hhi).2
  cases conf <;> try dsimp only at h
  · split at h
    · cases h
    · cases h; exact ⟨by omega, h2⟩
  · cases h; exact h1
  · cases h; exact h2

omit [Scalar W] in
theorem nth_of_lt {T : Type} (xs : List T) {i : Nat} (h : i < xs.length) :
    (nth xs i : Outcome (Err W) T) = .ok xs[i] := by
  simp [nth, List.getElem?_eq_getElem h]

omit [Scalar W] in
theorem nth_eq_ok {T : Type} {xs : List T} {i : Nat} {x : T}
    (h : (nth xs i : Outcome (Err W) T) = .ok x) : xs[i]? = some x := by
  unfold nth at h
  split at h
  · cases h; assumption
  · cases h

theorem ciSortedUnchecked_of_bad_q {T : Type} [Cmp T] (crit : Crit W) (conf : Confidence W)
    (sorted : List T) {q : W} (h : (gt q (zero : W) && lt q (one : W)) = false) :
    ciSortedUnchecked crit conf sorted q = .err (.invalidQuantile q) := by
  simp [ciSortedUnchecked, h]

/-- element access never leaves the slice: the indices come out of `index`, which clamps at
    `n − 1`, and `n ≥ 4` -/
theorem ciSortedUnchecked_isPanic {T : Type} [Cmp T] (crit : Crit W) (conf : Confidence W)
    (sorted : List T) (q : W) (hq : probOk conf.quantile = true) :
    (ciSortedUnchecked crit conf sorted q).isPanic = false := by
  unfold ciSortedUnchecked
  split
  · rfl
  refine Outcome.isPanic_bind (ciIndices_isPanic _ _ _ _ hq) fun idx hidx => ?_
  obtain ⟨_, hn, hok⟩ := ciIndices_eq_ok hidx
  cases conf <;> cases idx <;> simp only [IdxOk] at hok <;> dsimp only
  · rename_i l lo hi
    rw [nth_of_lt sorted (show lo < sorted.length by omega),
      nth_of_lt sorted (show hi < sorted.length by omega)]
    exact liftI_isPanic _
  · rename_i l lo
    rw [nth_of_lt sorted (show lo < sorted.length by omega)]; rfl
  · rename_i l hi
    rw [nth_of_lt sorted (show hi < sorted.length by omega)]; rfl

/-- the shape of an `Ok` result: elements of the slice at the computed positions, `¬ lo > hi` -/
def PickOk {T : Type} [Cmp T] (sorted : List T) (idx : Interval Nat) (i : Interval T) : Prop :=
  match idx, i with
  | .twoSided lo hi, .twoSided a b => sorted[lo]? = some a ∧ sorted[hi]? = some b ∧ gt a b = false
  | .upper lo, .upper a => sorted[lo]? = some a
  | .lower hi, .lower b => sorted[hi]? = some b
  | _, _ => False

theorem ciSortedUnchecked_eq_ok {T : Type} [Cmp T] {crit : Crit W} {conf : Confidence W}
    {sorted : List T} {q : W} {i : Interval T} (h : ciSortedUnchecked crit conf sorted q = .ok i) :
    ∃ idx, ciIndices crit conf sorted.length q = .ok idx ∧ PickOk sorted idx i := by
  unfold ciSortedUnchecked at h
  split at h
  · cases h
  obtain ⟨idx, hidx, h⟩ := Outcome.bind_eq_ok h
  refine ⟨idx, hidx, ?_⟩
  cases idx <;> dsimp only at h
  · obtain ⟨a, ha, h⟩ := Outcome.bind_eq_ok h
    obtain ⟨b, hb, h⟩ := Outcome.bind_eq_ok h
    obtain ⟨rfl, hg⟩ := liftI_new_eq_ok h
    exact ⟨nth_eq_ok ha, nth_eq_ok hb, hg⟩
  · obtain ⟨a, ha, h⟩ := Outcome.bind_eq_ok h
    cases h; exact nth_eq_ok ha
  · obtain ⟨a, ha, h⟩ := Outcome.bind_eq_ok h
    cases h; exact nth_eq_ok ha

omit [Scalar W] in
theorem sortData_isPanic_iff {T : Type} [Cmp T] (xs : List T) :
    (sortData xs : Outcome (Err W) (List T)).isPanic = true ↔
      2 ≤ xs.length ∧ ∃ x ∈ xs, le x x = false := by
  unfold sortData
  split <;> rename_i h
  · simp only [Outcome.isPanic_panic, true_iff]
    simpa using h
  · simp only [Outcome.isPanic_ok, Bool.false_eq_true, false_iff]
    simpa using h

omit [Scalar W] in
theorem sortData_eq_ok {T : Type} [Cmp T] {xs ys : List T}
    (h : (sortData xs : Outcome (Err W) (List T)) = .ok ys) :
    ys = xs.mergeSort (fun a b => le a b) ∧ ys.length = xs.length := by
  unfold sortData at h
  split at h
  · cases h
  · cases h; exact ⟨rfl, List.length_mergeSort _⟩

omit [Scalar W] in
theorem sortData_never_err {T : Type} [Cmp T] (xs : List T) (e : Err W) :
    (sortData xs : Outcome (Err W) (List T)) ≠ .err e := by
  unfold sortData; split <;> simp

/-- `quantile::ci` panics only through the `unwrap` of `partial_cmp` inside the sort -/
theorem ci_isPanic_iff {T : Type} [Cmp T] (crit : Crit W) (conf : Confidence W) (xs : List T) (q : W)
    (hq : probOk conf.quantile = true) :
    (ci crit conf xs q).isPanic = true ↔ 2 ≤ xs.length ∧ ∃ x ∈ xs, le x x = false := by
  rw [← sortData_isPanic_iff (W := W)]
  unfold ci
  cases hs : (sortData xs : Outcome (Err W) (List T)) with
  | ok ys => simp [ciSortedUnchecked_isPanic crit conf ys q hq]
  | err e => simp
  | panic t => simp

theorem ciMaxSize_isPanic_iff {T : Type} [Cmp T] (cap : Nat) (crit : Crit W) (conf : Confidence W)
    (xs : List T) (q : W) (hq : probOk conf.quantile = true) :
    (ciMaxSize cap crit conf xs q).isPanic = true ↔
      cap < xs.length ∨ (2 ≤ xs.length ∧ ∃ x ∈ xs, le x x = false) := by
  unfold ciMaxSize
  by_cases h : xs.length > cap
  · simp [h]
  · have h' : ¬ cap < xs.length := h
    simp only [h, if_false, ci_isPanic_iff crit conf xs q hq, false_or]

end Quantile

end StatsCI
