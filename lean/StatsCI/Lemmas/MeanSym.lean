/-
  StatsCI.Lemmas.MeanSym — symmetries of the mean computations over `RR fl`:
  scaling by a factor that commutes with rounding, negation under odd rounding,
  exchange of the two samples of `Unpaired`, and (exact arithmetic) shifts.

  `finish` is the common tail of every `ci_mean` (from the prepared statistics on); the model's
  `Arith.ciMean` / `Unpaired.ciMean` are *definitionally* `finish` of their `ciPrep`.
-/
import StatsCI.Lemmas.MeanExact

set_option linter.unusedSectionVars false

namespace StatsCI.MeanLemmas
open StatsCI NumOps Scalar

@[simp] theorem Outcome.map_ok {ε α β : Type} (f : α → β) (a : α) :
    (Outcome.ok a : Outcome ε α).map f = .ok (f a) := rfl
@[simp] theorem Outcome.map_err {ε α β : Type} (f : α → β) (e : ε) :
    (Outcome.err e : Outcome ε α).map f = .err e := rfl
@[simp] theorem Outcome.map_panic {ε α β : Type} (f : α → β) (t : String) :
    (Outcome.panic t : Outcome ε α).map f = .panic t := rfl

/-- the common tail of `ci_mean`: `interval_bounds`, then the constructor of the kind -/
def finish {F W : Type} [Scalar F] [Scalar W] [Widen F W] (crit : Crit W) (conf : Confidence W)
    (p : Outcome (Err W) (Arith.Prep W)) : Outcome (Err W) (Interval F) :=
  p.bind fun p => (intervalBounds crit conf p.mean p.sem p.dof).bind fun b =>
    intervalOfKind conf (Widen.down b.1 : F) (Widen.down b.2 : F)

theorem Arith.ciMean_eq_finish {F W : Type} [Scalar F] [Scalar W] [Widen F W] (crit : Crit W)
    (a : Arith F) (conf : Confidence W) :
    a.ciMean crit conf = finish crit conf (Arith.ciPrep a) := rfl

theorem Unpaired.ciMean_eq_finish {F W : Type} [Scalar F] [Scalar W] [Widen F W] (crit : Crit W)
    (u : Unpaired F) (conf : Confidence W) :
    u.ciMean crit conf = finish crit conf (Unpaired.ciPrep u) := rfl

section rr
variable {fl : ℝ → ℝ}

/-- multiplication by a real constant, *not* rounded (the transformation applied to the data) -/
def smul (a : ℝ) (x : RR fl) : RR fl := ⟨a * x.val⟩
@[simp] theorem smul_val (a : ℝ) (x : RR fl) : (smul a x).val = a * x.val := rfl

theorem smul_one (x : RR fl) : smul 1 x = x := by apply RR.ext'; simp
theorem smul_neg_one (x : RR fl) : smul (-1) x = neg x := by apply RR.ext'; simp

/-- transformation of the prepared statistics: mean by `a`, standard error by `b` -/
def Prep.scale2 (a b : ℝ) (p : Arith.Prep (RR fl)) : Arith.Prep (RR fl) :=
  ⟨smul a p.mean, smul b p.sem, p.dof⟩

/-- transformation of the prepared statistics: mean shifted by `k` -/
def Prep.shift (k : ℝ) (p : Arith.Prep (RR fl)) : Arith.Prep (RR fl) :=
  ⟨⟨p.mean.val + k⟩, p.sem, p.dof⟩

theorem flipped_quantile {W : Type} [Scalar W] (conf : Confidence W) :
    conf.flipped.quantile = conf.quantile := by
  cases conf <;> rfl

theorem flipped_flipped {W : Type} (conf : Confidence W) : conf.flipped.flipped = conf := by
  cases conf <;> rfl

/-! ### the tail under negation of the mean (odd rounding) -/

theorem intervalBounds_neg (hodd : ∀ x, fl (-x) = -fl x) (crit : Crit (RR fl))
    (conf : Confidence (RR fl)) (m s dof : RR fl) :
    intervalBounds crit conf (smul (-1) m) s dof =
      (intervalBounds crit conf.flipped m s dof).map (fun b => (smul (-1) b.2, smul (-1) b.1)) := by
  unfold intervalBounds tValue zValue
  rw [flipped_quantile]
  have key : ∀ c : RR fl,
      ((sub (smul (-1) m) (mul c s), add (smul (-1) m) (mul c s)) : RR fl × RR fl) =
        (smul (-1) (add m (mul c s)), smul (-1) (sub m (mul c s))) := by
    intro c
    refine Prod.ext ?_ ?_ <;> apply RR.ext' <;>
      simp only [smul_val, RR.sub_val, RR.add_val, RR.mul_val, neg_mul, one_mul, ← hodd] <;>
      congr 1 <;> ring
  by_cases h1 : lt dof (populationLimit : RR fl) = true
  · by_cases h2 : gt dof (zero : RR fl) = true
    · by_cases h3 : probOk conf.quantile = true
      · simp [h1, h2, h3, key]
      · simp [h1, h2, h3]
    · simp [h1, h2]
  · by_cases h3 : probOk conf.quantile = true
    · simp [h1, h3, key]
    · simp [h1, h3]

theorem intervalOfKind_neg (conf : Confidence (RR fl)) (lo hi : RR fl) :
    intervalOfKind (W := RR fl) conf (smul (-1) hi) (smul (-1) lo) =
      (intervalOfKind (W := RR fl) conf.flipped lo hi).map Interval.negI := by
  cases conf with
  | twoSided l =>
    simp only [intervalOfKind, Confidence.flipped, Interval.new]
    have : gt (smul (-1) hi) (smul (-1) lo) = gt lo hi := by
      rw [Bool.eq_iff_iff, RR.gt_iff, RR.gt_iff]
      simp
    rw [this]
    by_cases h : gt lo hi = true
    · simp [h, liftI]
    · simp [h, liftI, Interval.negI, Interval.appliedFlipped, smul_neg_one]
  | upper l =>
    simp [intervalOfKind, Confidence.flipped, Interval.newUpper, Interval.newLower, Interval.negI,
      Interval.appliedFlipped, smul_neg_one]
  | lower l =>
    simp [intervalOfKind, Confidence.flipped, Interval.newUpper, Interval.newLower, Interval.negI,
      Interval.appliedFlipped, smul_neg_one]

/-- negating the mean mirrors the interval and exchanges upper and lower one-sidedness -/
theorem finish_neg (hodd : ∀ x, fl (-x) = -fl x) (crit : Crit (RR fl)) (conf : Confidence (RR fl))
    (p : Outcome (Err (RR fl)) (Arith.Prep (RR fl))) :
    (finish crit conf (p.map (Prep.scale2 (-1) 1)) : Outcome (Err (RR fl)) (Interval (RR fl))) =
      (finish crit conf.flipped p).map Interval.negI := by
  cases p with
  | err e => rfl
  | panic t => rfl
  | ok p =>
    simp only [finish, Outcome.map_ok, Outcome.bind_ok, Prep.scale2, smul_one]
    rw [intervalBounds_neg hodd]
    cases intervalBounds crit conf.flipped p.mean p.sem p.dof with
    | err e => rfl
    | panic t => rfl
    | ok b =>
      simp only [Outcome.map_ok, Outcome.bind_ok, RR.down_eq]
      exact intervalOfKind_neg conf b.1 b.2

/-! ### the tail under scaling by `a > 0` -/

theorem intervalBounds_scale {a : ℝ} (hfl : ∀ x, fl (a * x) = a * fl x) (crit : Crit (RR fl))
    (conf : Confidence (RR fl)) (m s dof : RR fl) :
    intervalBounds crit conf (smul a m) (smul a s) dof =
      (intervalBounds crit conf m s dof).map (fun b => (smul a b.1, smul a b.2)) := by
  unfold intervalBounds tValue zValue
  have key : ∀ c : RR fl,
      ((sub (smul a m) (mul c (smul a s)), add (smul a m) (mul c (smul a s))) : RR fl × RR fl) =
        (smul a (sub m (mul c s)), smul a (add m (mul c s))) := by
    intro c
    have h1 : c.val * (a * s.val) = a * (c.val * s.val) := by ring
    refine Prod.ext ?_ ?_ <;> apply RR.ext' <;>
      simp only [smul_val, RR.sub_val, RR.add_val, RR.mul_val, h1, hfl, ← mul_sub, ← mul_add]
  by_cases h1 : lt dof (populationLimit : RR fl) = true
  · by_cases h2 : gt dof (zero : RR fl) = true
    · by_cases h3 : probOk conf.quantile = true
      · simp [h1, h2, h3, key]
      · simp [h1, h2, h3]
    · simp [h1, h2]
  · by_cases h3 : probOk conf.quantile = true
    · simp [h1, h3, key]
    · simp [h1, h3]

theorem intervalOfKind_scale {a : ℝ} (ha : 0 < a) (conf : Confidence (RR fl)) (lo hi : RR fl) :
    intervalOfKind (W := RR fl) conf (smul a lo) (smul a hi) =
      (intervalOfKind (W := RR fl) conf lo hi).map (Interval.map (smul a)) := by
  cases conf with
  | twoSided l =>
    simp only [intervalOfKind, Interval.new]
    have : gt (smul a lo) (smul a hi) = gt lo hi := by
      rw [Bool.eq_iff_iff, RR.gt_iff, RR.gt_iff]
      simp only [smul_val]
      exact mul_lt_mul_iff_right₀ ha
    rw [this]
    by_cases h : gt lo hi = true
    · simp [h, liftI]
    · simp [h, liftI, Interval.map]
  | upper l => simp [intervalOfKind, Interval.newUpper, Interval.map]
  | lower l => simp [intervalOfKind, Interval.newLower, Interval.map]

/-- scaling mean and standard error by `a > 0` scales every bound by `a` -/
theorem finish_scale {a : ℝ} (ha : 0 < a) (hfl : ∀ x, fl (a * x) = a * fl x) (crit : Crit (RR fl))
    (conf : Confidence (RR fl)) (p : Outcome (Err (RR fl)) (Arith.Prep (RR fl))) :
    (finish crit conf (p.map (Prep.scale2 a a)) : Outcome (Err (RR fl)) (Interval (RR fl))) =
      (finish crit conf p).map (Interval.map (smul a)) := by
  cases p with
  | err e => rfl
  | panic t => rfl
  | ok p =>
    simp only [finish, Outcome.map_ok, Outcome.bind_ok, Prep.scale2]
    rw [intervalBounds_scale hfl]
    cases intervalBounds crit conf p.mean p.sem p.dof with
    | err e => rfl
    | panic t => rfl
    | ok b =>
      simp only [Outcome.map_ok, Outcome.bind_ok, RR.down_eq]
      exact intervalOfKind_scale ha conf b.1 b.2

/-! ### the registers under `x ↦ a·x` when `fl (a·x) = a·fl x` -/

/-- both fields of a compensated register multiplied by `a` -/
def ksmul (a : ℝ) (k : Kahan (RR fl)) : Kahan (RR fl) := ⟨smul a k.sum, smul a k.comp⟩

/-- `sum` register by `a`, `sum_sq` register by `a²`, same count -/
def asmul (a : ℝ) (A : Arith (RR fl)) : Arith (RR fl) :=
  ⟨ksmul a A.sum, ksmul (a * a) A.sumSq, A.count⟩

theorem hfl_sq {a : ℝ} (hfl : ∀ x, fl (a * x) = a * fl x) (x : ℝ) :
    fl (a * a * x) = a * a * fl x := by
  rw [mul_assoc, hfl, hfl, mul_assoc]

theorem Kahan.add_smul {a : ℝ} (hfl : ∀ x, fl (a * x) = a * fl x) (k : Kahan (RR fl))
    (x : RR fl) : (ksmul a k).add (smul a x) = ksmul a (k.add x) := by
  unfold Kahan.add ksmul
  simp only [Kahan.mk.injEq]
  constructor <;> apply RR.ext' <;>
    simp only [smul_val, RR.add_val, RR.sub_val, ← mul_sub, ← mul_add, hfl]

theorem Kahan.value_smul {a : ℝ} (hfl : ∀ x, fl (a * x) = a * fl x) (k : Kahan (RR fl)) :
    (ksmul a k).value = smul a k.value := by
  apply RR.ext'
  simp only [Kahan.value, ksmul, smul_val, RR.add_val, ← mul_add, hfl]

theorem Arith.append_smul {a : ℝ} (hfl : ∀ x, fl (a * x) = a * fl x) (A : Arith (RR fl))
    (x : RR fl) : (asmul a A).append (smul a x) = asmul a (A.append x) := by
  have hm : mul (smul a x) (smul a x) = smul (a * a) (mul x x) := by
    apply RR.ext'
    have : a * x.val * (a * x.val) = a * a * (x.val * x.val) := by ring
    simp only [smul_val, RR.mul_val, this, hfl_sq hfl]
  unfold Arith.append
  simp only [asmul, hm, Kahan.add_smul hfl, Kahan.add_smul (hfl_sq hfl)]

theorem Arith.extend_smul {a : ℝ} (hfl : ∀ x, fl (a * x) = a * fl x) (A : Arith (RR fl))
    (xs : List (RR fl)) :
    (asmul a A).extend (xs.map (smul a)) = asmul a (A.extend xs) := by
  induction xs generalizing A with
  | nil => rfl
  | cons x xs ih =>
    simp only [List.map_cons, Arith.extend_cons, Arith.append_smul hfl, ih]

theorem Arith.asmul_empty (a : ℝ) : asmul a (Arith.empty : Arith (RR fl)) = Arith.empty := by
  have h0 : ∀ b : ℝ, smul b (zero : RR fl) = zero := by
    intro b; apply RR.ext'; simp
  simp only [asmul, Arith.empty, ksmul, Kahan.empty, Kahan.new, h0]

/-- the state after scaled data is the scaled state -/
theorem Arith.fromList_smul {a : ℝ} (hfl : ∀ x, fl (a * x) = a * fl x) (xs : List (RR fl)) :
    Arith.fromList (xs.map (smul a)) = asmul a (Arith.fromList xs) := by
  unfold Arith.fromList
  rw [← Arith.extend_smul hfl, Arith.asmul_empty]

theorem Arith.mean_smul {a : ℝ} (hfl : ∀ x, fl (a * x) = a * fl x) (A : Arith (RR fl)) :
    (asmul a A).mean = smul a A.mean := by
  apply RR.ext'
  have hv := congrArg RR.val (Kahan.value_smul hfl A.sum)
  simp only [smul_val] at hv
  show fl ((ksmul a A.sum).value.val / (Scalar.ofNat A.count : RR fl).val) = _
  rw [hv, mul_div_assoc, hfl]
  rfl

/-- the quotient that `sample_variance()` clamps -/
noncomputable def rawVar (A : Arith (RR fl)) : RR fl :=
  div (sub A.sumSq.value (mul A.mean A.sum.value)) (Scalar.ofNat (A.count - 1))

theorem Arith.variance_eq_rawVar (A : Arith (RR fl)) :
    A.variance = if lt (rawVar A) (zero : RR fl) then zero else rawVar A := rfl

theorem rawVar_smul {a : ℝ} (hfl : ∀ x, fl (a * x) = a * fl x) (A : Arith (RR fl)) :
    rawVar (asmul a A) = smul (a * a) (rawVar A) := by
  apply RR.ext'
  have h1 := congrArg RR.val (Kahan.value_smul hfl A.sum)
  have h2 := congrArg RR.val (Kahan.value_smul (hfl_sq hfl) A.sumSq)
  have h3 := congrArg RR.val (Arith.mean_smul hfl A)
  simp only [smul_val] at h1 h2 h3
  show fl (fl ((ksmul (a * a) A.sumSq).value.val -
      fl ((asmul a A).mean.val * (ksmul a A.sum).value.val)) /
        (Scalar.ofNat (A.count - 1) : RR fl).val) = _
  rw [h1, h2, h3]
  have : a * A.mean.val * (a * A.sum.value.val) = a * a * (A.mean.val * A.sum.value.val) := by ring
  rw [this, hfl_sq hfl, ← mul_sub, hfl_sq hfl, mul_div_assoc, hfl_sq hfl]
  rfl

theorem Arith.variance_smul {a : ℝ} (ha : a ≠ 0) (hfl : ∀ x, fl (a * x) = a * fl x)
    (A : Arith (RR fl)) : (asmul a A).variance = smul (a * a) A.variance := by
  rw [Arith.variance_eq_rawVar, Arith.variance_eq_rawVar, rawVar_smul hfl]
  have hpos : 0 < a * a := mul_self_pos.mpr ha
  have : lt (smul (a * a) (rawVar A)) (zero : RR fl) = lt (rawVar A) (zero : RR fl) := by
    rw [Bool.eq_iff_iff, RR.lt_iff, RR.lt_iff]
    simp only [smul_val, RR.zero_val]
    constructor
    · intro h
      by_contra h'
      exact absurd (mul_nonneg hpos.le (not_lt.mp h')) (not_le.mpr h)
    · intro h
      exact mul_neg_of_pos_of_neg hpos h
  rw [this]
  by_cases h : lt (rawVar A) (zero : RR fl) = true
  · simp only [h, if_true]
    apply RR.ext'; simp
  · simp only [h, if_false, Bool.false_eq_true]

theorem Arith.stdDev_smul {a : ℝ} (ha : a ≠ 0) (hfl : ∀ x, fl (a * x) = a * fl x)
    (habs : ∀ x, fl (|a| * x) = |a| * fl x) (A : Arith (RR fl)) :
    (asmul a A).stdDev = smul |a| A.stdDev := by
  apply RR.ext'
  simp only [Arith.stdDev, RR.sqrt_val, Arith.variance_smul ha hfl, smul_val]
  rw [Real.sqrt_mul (mul_self_nonneg a), Real.sqrt_mul_self_eq_abs, habs]

theorem Arith.ciPrep_smul {a : ℝ} (ha : a ≠ 0) (hfl : ∀ x, fl (a * x) = a * fl x)
    (habs : ∀ x, fl (|a| * x) = |a| * fl x) (A : Arith (RR fl)) :
    (Arith.ciPrep (asmul a A) : Outcome (Err (RR fl)) (Arith.Prep (RR fl))) =
      (Arith.ciPrep A).map (Prep.scale2 a |a|) := by
  unfold Arith.ciPrep
  have hc : (asmul a A).count = A.count := rfl
  rw [hc]
  by_cases h : A.count < 2
  · simp [h]
  · simp only [h, if_false, RR.isFinite_eq, Bool.not_true, Bool.or_self, Bool.false_eq_true,
      Outcome.map_ok, Prep.scale2, RR.up_eq, Arith.mean_smul hfl, Arith.stdDev_smul ha hfl habs]
    congr 2
    apply RR.ext'
    simp only [RR.div_val, smul_val, mul_div_assoc, habs]

/-! ### the Welch statistics under exchange of the samples, negation and scaling -/

theorem effectiveDof_swap (A B na nb : RR fl) :
    Unpaired.effectiveDof B A nb na = Unpaired.effectiveDof A B na nb := by
  apply RR.ext'
  simp only [Unpaired.effectiveDof, RR.sub_val, RR.div_val, RR.mul_val, RR.add_val, RR.one_val]
  rw [add_comm B.val A.val,
    add_comm (fl (fl (B.val * B.val) / fl (nb.val + 1))) (fl (fl (A.val * A.val) / fl (na.val + 1)))]

/-- exchanging the two samples negates the mean difference and leaves the standard error and the
    degrees of freedom unchanged (`x + y = y + x` under any rounding; odd rounding for the sign) -/
theorem Unpaired.ciPrep_swap (hodd : ∀ x, fl (-x) = -fl x) (u : Unpaired (RR fl))
    (ha : 2 ≤ u.a.count) (hb : 2 ≤ u.b.count) :
    (Unpaired.ciPrep (⟨u.b, u.a⟩ : Unpaired (RR fl)) : Outcome (Err (RR fl)) (Arith.Prep (RR fl))) =
      (Unpaired.ciPrep u).map (Prep.scale2 (-1) 1) := by
  have ha' : ¬ u.a.count < 2 := by omega
  have hb' : ¬ u.b.count < 2 := by omega
  unfold Unpaired.ciPrep
  simp only [ha', hb', if_false, RR.isFinite_eq, Bool.not_true, Bool.or_self, Bool.false_eq_true,
    Outcome.map_ok, Prep.scale2, RR.up_eq, smul_one, effectiveDof_swap, Unpaired.clampDof_swap]
  congr 2
  · apply RR.ext'
    simp only [RR.sub_val, smul_val, neg_mul, one_mul, ← hodd]
    congr 1; ring
  · apply RR.ext'
    simp only [RR.sqrt_val, RR.add_val]
    rw [add_comm]

theorem effectiveDof_scale {c : ℝ} (hc : c ≠ 0) (hfl : ∀ x, fl (c * x) = c * fl x)
    (A B na nb : RR fl) :
    Unpaired.effectiveDof (smul c A) (smul c B) na nb = Unpaired.effectiveDof A B na nb := by
  apply RR.ext'
  simp only [Unpaired.effectiveDof, RR.sub_val, RR.div_val, RR.mul_val, RR.add_val, RR.one_val,
    smul_val]
  have hcc : c * c ≠ 0 := mul_ne_zero hc hc
  have e1 : ∀ x y : ℝ, c * x * (c * y) = c * c * (x * y) := by intros; ring
  have d1 : ∀ x n : ℝ, fl (fl (c * x * (c * x)) / n) = c * c * fl (fl (x * x) / n) := by
    intro x n; rw [e1, hfl_sq hfl, mul_div_assoc, hfl_sq hfl]
  rw [d1, d1]
  simp only [← mul_add, hfl, hfl_sq hfl, e1]
  rw [mul_div_mul_left _ _ hcc]

/-- both samples transformed by `x ↦ a·x`: the mean difference is multiplied by `a`, the standard
    error by `|a|`, the degrees of freedom are unchanged -/
theorem Unpaired.ciPrep_smul {a : ℝ} (ha : a ≠ 0) (hfl : ∀ x, fl (a * x) = a * fl x)
    (habs : ∀ x, fl (|a| * x) = |a| * fl x) (u : Unpaired (RR fl)) :
    (Unpaired.ciPrep (⟨asmul a u.a, asmul a u.b⟩ : Unpaired (RR fl)) :
        Outcome (Err (RR fl)) (Arith.Prep (RR fl))) =
      (Unpaired.ciPrep u).map (Prep.scale2 a |a|) := by
  unfold Unpaired.ciPrep
  have hca : (asmul a u.a).count = u.a.count := rfl
  have hcb : (asmul a u.b).count = u.b.count := rfl
  simp only [hca, hcb]
  by_cases h1 : u.a.count < 2
  · simp [h1]
  by_cases h2 : u.b.count < 2
  · simp [h1, h2]
  have hsq : ∀ (s n : RR fl), div (mul (smul |a| s) (smul |a| s)) n = smul (a * a) (div (mul s s) n) := by
    intro s n
    apply RR.ext'
    have : |a| * s.val * (|a| * s.val) = a * a * (s.val * s.val) := by
      rw [← abs_mul_abs_self a]; ring
    simp only [RR.div_val, RR.mul_val, smul_val, this, hfl_sq hfl, mul_div_assoc]
  simp only [h1, h2, if_false, RR.isFinite_eq, Bool.not_true, Bool.or_self, Bool.false_eq_true,
    Outcome.map_ok, Prep.scale2, RR.up_eq, Arith.mean_smul hfl, Arith.stdDev_smul ha hfl habs, hsq,
    effectiveDof_scale (mul_ne_zero ha ha) (hfl_sq hfl)]
  congr 2
  · apply RR.ext'
    simp only [RR.sub_val, smul_val, ← mul_sub, hfl]
  · apply RR.ext'
    simp only [RR.sqrt_val, RR.add_val, smul_val, ← mul_add, hfl_sq hfl]
    rw [Real.sqrt_mul (mul_self_nonneg a), Real.sqrt_mul_self_eq_abs, habs]

end rr

/-! ### exact arithmetic: shifts -/

theorem intervalBounds_shift (crit : Crit Rex) (conf : Confidence Rex) (m s dof : Rex) (k : ℝ) :
    intervalBounds crit conf (⟨m.val + k⟩ : Rex) s dof =
      (intervalBounds crit conf m s dof).map
        (fun b => ((⟨b.1.val + k⟩ : Rex), (⟨b.2.val + k⟩ : Rex))) := by
  unfold intervalBounds tValue zValue
  have key : ∀ c : Rex,
      ((sub (⟨m.val + k⟩ : Rex) (mul c s), add (⟨m.val + k⟩ : Rex) (mul c s)) : Rex × Rex) =
        (⟨(sub m (mul c s)).val + k⟩, ⟨(add m (mul c s)).val + k⟩) := by
    intro c
    refine Prod.ext ?_ ?_ <;> apply RR.ext' <;>
      simp only [RR.sub_val, RR.add_val, RR.mul_val, id_eq] <;> ring
  by_cases h1 : lt dof (populationLimit : Rex) = true
  · by_cases h2 : gt dof (zero : Rex) = true
    · by_cases h3 : probOk conf.quantile = true
      · simp [h1, h2, h3, key]
      · simp [h1, h2, h3]
    · simp [h1, h2]
  · by_cases h3 : probOk conf.quantile = true
    · simp [h1, h3, key]
    · simp [h1, h3]

theorem intervalOfKind_shift (conf : Confidence Rex) (lo hi : Rex) (k : ℝ) :
    intervalOfKind (W := Rex) conf (⟨lo.val + k⟩ : Rex) ⟨hi.val + k⟩ =
      (intervalOfKind (W := Rex) conf lo hi).map (fun I => I.addScalar (inj k)) := by
  have hadd : ∀ x : Rex, (⟨x.val + k⟩ : Rex) = add x (inj k) := by
    intro x; apply RR.ext'; simp
  cases conf with
  | twoSided l =>
    simp only [intervalOfKind, Interval.new]
    have : gt (⟨lo.val + k⟩ : Rex) ⟨hi.val + k⟩ = gt lo hi := by
      rw [Bool.eq_iff_iff, RR.gt_iff, RR.gt_iff]
      simp
    rw [this]
    by_cases h : gt lo hi = true
    · simp [h, liftI]
    · simp [h, liftI, Interval.addScalar, Interval.appliedBoth, Interval.applied, hadd]
  | upper l =>
    simp [intervalOfKind, Interval.newUpper, Interval.addScalar, Interval.appliedBoth,
      Interval.applied, hadd]
  | lower l =>
    simp [intervalOfKind, Interval.newLower, Interval.addScalar, Interval.appliedBoth,
      Interval.applied, hadd]

/-- shifting the mean shifts every bound -/
theorem finish_shift (crit : Crit Rex) (conf : Confidence Rex) (k : ℝ)
    (p : Outcome (Err Rex) (Arith.Prep Rex)) :
    (finish crit conf (p.map (Prep.shift k)) : Outcome (Err Rex) (Interval Rex)) =
      (finish crit conf p).map (fun I => I.addScalar (inj k)) := by
  cases p with
  | err e => rfl
  | panic t => rfl
  | ok p =>
    simp only [finish, Outcome.map_ok, Outcome.bind_ok, Prep.shift]
    rw [intervalBounds_shift]
    cases intervalBounds crit conf p.mean p.sem p.dof with
    | err e => rfl
    | panic t => rfl
    | ok b =>
      simp only [Outcome.map_ok, Outcome.bind_ok, RR.down_eq]
      exact intervalOfKind_shift conf b.1 b.2 k

/-! ### exact arithmetic: the statistics of shifted and of permuted data -/

theorem sum_map_add_const (xs : List ℝ) (k : ℝ) :
    (xs.map (fun x => x + k)).sum = xs.sum + xs.length * k := by
  induction xs with
  | nil => simp
  | cons x xs ih =>
    simp only [List.map_cons, List.sum_cons, List.length_cons, ih]
    push_cast
    ring

theorem smean_shift (xs : List ℝ) (k : ℝ) (hn : 1 ≤ xs.length) :
    smean (xs.map (fun x => x + k)) = smean xs + k := by
  have h1 : (xs.length : ℝ) ≠ 0 := by
    have : (1 : ℝ) ≤ xs.length := by exact_mod_cast hn
    linarith
  unfold smean
  rw [sum_map_add_const, List.length_map]
  field_simp

theorem sdev2_shift (xs : List ℝ) (k : ℝ) (hn : 1 ≤ xs.length) :
    sdev2 (xs.map (fun x => x + k)) = sdev2 xs := by
  unfold sdev2
  rw [smean_shift xs k hn, List.map_map]
  congr 1
  apply List.map_congr_left
  intro x _
  simp only [Function.comp]
  ring

theorem svar_shift (xs : List ℝ) (k : ℝ) (hn : 1 ≤ xs.length) :
    svar (xs.map (fun x => x + k)) = svar xs := by
  unfold svar
  rw [sdev2_shift xs k hn, List.length_map]

theorem ssd_shift (xs : List ℝ) (k : ℝ) (hn : 1 ≤ xs.length) :
    ssd (xs.map (fun x => x + k)) = ssd xs := by
  unfold ssd
  rw [svar_shift xs k hn]

theorem Arith.ciPrep_shift (xs : List ℝ) (k : ℝ) :
    (Arith.ciPrep (Arith.fromList ((xs.map (fun x => x + k)).map inj) : Arith Rex) :
        Outcome (Err Rex) (Arith.Prep Rex)) =
      (Arith.ciPrep (Arith.fromList (xs.map inj) : Arith Rex)).map (Prep.shift k) := by
  unfold Arith.ciPrep
  simp only [Arith.fromList_count, List.length_map]
  by_cases h : xs.length < 2
  · simp [h]
  · have hn : 2 ≤ xs.length := by omega
    have hm : (Arith.fromList ((xs.map (fun x => x + k)).map inj) : Arith Rex).mean =
        ⟨(Arith.fromList (xs.map inj) : Arith Rex).mean.val + k⟩ := by
      apply RR.ext'
      simp only [Arith.fromList_mean, smean_shift xs k (by omega)]
    have hs : (Arith.fromList ((xs.map (fun x => x + k)).map inj) : Arith Rex).stdDev =
        (Arith.fromList (xs.map inj) : Arith Rex).stdDev := by
      apply RR.ext'
      rw [Arith.fromList_stdDev _ (by simpa using hn), Arith.fromList_stdDev _ hn,
        ssd_shift xs k (by omega)]
    simp only [h, if_false, RR.isFinite_eq, Bool.not_true, Bool.or_self, Bool.false_eq_true,
      Outcome.map_ok, Prep.shift, RR.up_eq, hm, hs]

theorem Arith.fromList_perm (xs ys : List ℝ) (h : xs.Perm ys) :
    (Arith.fromList (xs.map inj) : Arith Rex).count = (Arith.fromList (ys.map inj) : Arith Rex).count ∧
    (Arith.fromList (xs.map inj) : Arith Rex).mean = (Arith.fromList (ys.map inj) : Arith Rex).mean ∧
    (Arith.fromList (xs.map inj) : Arith Rex).variance =
      (Arith.fromList (ys.map inj) : Arith Rex).variance := by
  have hl : xs.length = ys.length := h.length_eq
  have hs : xs.sum = ys.sum := h.sum_eq
  have hq : (xs.map (fun x => x * x)).sum = (ys.map (fun x => x * x)).sum := (h.map _).sum_eq
  have hm : smean xs = smean ys := by unfold smean; rw [hl, hs]
  refine ⟨by simp [Arith.fromList_count, hl], ?_, ?_⟩
  · apply RR.ext'; rw [Arith.fromList_mean, Arith.fromList_mean, hm]
  · apply RR.ext'
    rw [Arith.fromList_variance_raw, Arith.fromList_variance_raw, hl, hs, hq, hm]

/-! ### paired data through `Arith.ci` (every carrier) -/

section paired
variable {F W : Type} [Scalar F] [Scalar W] [Widen F W]

theorem Paired.ci_of_eq_len (crit : Crit W) (conf : Confidence W) (as bs : List F)
    (h : as.length = bs.length) :
    Paired.ci crit conf as bs = Arith.ci crit conf (List.zipWith NumOps.sub as bs) := by
  unfold Paired.ci Paired.extend
  rw [Paired.extendAux_eq_len _ _ _ _ h]
  rfl

theorem Paired.ci_of_ne_len (crit : Crit W) (conf : Confidence W) (as bs : List F)
    (h : as.length ≠ bs.length) :
    Paired.ci crit conf as bs = .err (.differentSampleSizes as.length bs.length) := by
  unfold Paired.ci Paired.extend
  rw [Paired.extendAux_ne_len Paired.empty 0 as bs h]
  simp

end paired

theorem zipWith_sub_smul {fl : ℝ → ℝ} {a : ℝ} (hfl : ∀ x, fl (a * x) = a * fl x)
    (as bs : List (RR fl)) :
    List.zipWith NumOps.sub (as.map (smul a)) (bs.map (smul a)) =
      (List.zipWith NumOps.sub as bs).map (smul a) := by
  rw [List.zipWith_map, List.map_zipWith]
  congr 1
  funext x y
  apply RR.ext'
  simp only [RR.sub_val, smul_val, ← mul_sub, hfl]

theorem hfl_neg_one {fl : ℝ → ℝ} (hodd : ∀ x, fl (-x) = -fl x) (x : ℝ) :
    fl (-1 * x) = -1 * fl x := by
  rw [neg_one_mul, neg_one_mul, hodd]

theorem habs_neg_one {fl : ℝ → ℝ} (x : ℝ) : fl (|(-1 : ℝ)| * x) = |(-1 : ℝ)| * fl x := by
  simp

theorem map_neg_eq_smul {fl : ℝ → ℝ} (xs : List (RR fl)) :
    xs.map NumOps.neg = xs.map (smul (-1)) := by
  apply List.map_congr_left
  intro x _
  exact (smul_neg_one x).symm

theorem ksmul_one {fl : ℝ → ℝ} (k : Kahan (RR fl)) : ksmul 1 k = k := by
  cases k
  simp [ksmul, smul_one]

end StatsCI.MeanLemmas
