/-
  StatsCI.Lemmas.KahanProg — the invariant `G` along an arbitrary accumulation history
  (`Prog`): recursively defined budgets `Tb`, `Eb`, the node-wise side condition `Ok`, the merge
  step, the induction over the tree, and closed forms of the budgets.
-/
import StatsCI.Lemmas.Kahan

namespace StatsCI
namespace KahanLemmas

/-! ### Budgets -/

/-- budgets `(T, E)` after one `append x`: `T' = T + |x|`, `E' = E + 2u|x| + 9u²·T'` -/
noncomputable def teStep (u : ℝ) (te : ℝ × ℝ) (x : ℝ) : ℝ × ℝ :=
  (te.1 + |x|, te.2 + 2 * u * |x| + 9 * u ^ 2 * (te.1 + |x|))

/-- magnitude budget and error allowance `(Tb, Eb)` of an accumulation history.
    `merge l r` is two model steps fed with `r.sum` and `r.comp`, whose magnitudes are together at
    most `X = Σ|data r| + Eb r + 6u·Tb r`; re-targeting from `s_r + c_r` to the exact sum of the
    right operand costs `Eb r + 6u·Tb r` (the crate adds `+r.comp` while the register tracks
    `sum − comp`). -/
noncomputable def budget (u : ℝ) : Prog ℝ → ℝ × ℝ
  | .empty => (0, 0)
  | .append p x => teStep u (budget u p) x
  | .extend p xs => xs.foldl (teStep u) (budget u p)
  | .merge l r =>
    ((budget u l).1 + (sumAbs r.data + (budget u r).2 + 6 * u * (budget u r).1),
     (budget u l).2 + (budget u r).2 + 6 * u * (budget u r).1
       + 2 * u * (sumAbs r.data + (budget u r).2 + 6 * u * (budget u r).1)
       + 18 * u ^ 2 * ((budget u l).1 + (sumAbs r.data + (budget u r).2 + 6 * u * (budget u r).1)))

/-- magnitude budget of a history -/
noncomputable def Tb (u : ℝ) (p : Prog ℝ) : ℝ := (budget u p).1
/-- error allowance of a history -/
noncomputable def Eb (u : ℝ) (p : Prog ℝ) : ℝ := (budget u p).2

/-- side condition `E ≤ T/4` after every element of an `extend` -/
def OkList (u : ℝ) : ℝ × ℝ → List ℝ → Prop
  | _, [] => True
  | te, x :: xs => (teStep u te x).2 ≤ (teStep u te x).1 / 4 ∧ OkList u (teStep u te x) xs

/-- the node-wise side condition `Eb ≤ Tb/4` (at every node of the history, and after every
    element of every `extend`) -/
def Ok (u : ℝ) : Prog ℝ → Prop
  | .empty => True
  | .append p x => Ok u p ∧ Eb u (.append p x) ≤ Tb u (.append p x) / 4
  | .extend p xs => Ok u p ∧ OkList u (budget u p) xs
  | .merge l r => Ok u l ∧ Ok u r ∧ Eb u (.merge l r) ≤ Tb u (.merge l r) / 4

theorem Tb_empty (u : ℝ) : Tb u .empty = 0 := rfl
theorem Eb_empty (u : ℝ) : Eb u .empty = 0 := rfl
theorem Tb_append (u : ℝ) (p : Prog ℝ) (x : ℝ) : Tb u (.append p x) = Tb u p + |x| := rfl
theorem Eb_append (u : ℝ) (p : Prog ℝ) (x : ℝ) :
    Eb u (.append p x) = Eb u p + 2 * u * |x| + 9 * u ^ 2 * (Tb u p + |x|) := rfl
theorem Tb_merge (u : ℝ) (l r : Prog ℝ) :
    Tb u (.merge l r) = Tb u l + (sumAbs r.data + Eb u r + 6 * u * Tb u r) := rfl
theorem Eb_merge (u : ℝ) (l r : Prog ℝ) :
    Eb u (.merge l r) = Eb u l + Eb u r + 6 * u * Tb u r
      + 2 * u * (sumAbs r.data + Eb u r + 6 * u * Tb u r)
      + 18 * u ^ 2 * (Tb u l + (sumAbs r.data + Eb u r + 6 * u * Tb u r)) := rfl
theorem budget_extend (u : ℝ) (p : Prog ℝ) (xs : List ℝ) :
    budget u (.extend p xs) = xs.foldl (teStep u) (budget u p) := rfl

theorem okList_end {u : ℝ} : ∀ (xs : List ℝ) (te : ℝ × ℝ), te.2 ≤ te.1 / 4 → OkList u te xs →
    (xs.foldl (teStep u) te).2 ≤ (xs.foldl (teStep u) te).1 / 4
  | [], _, h, _ => h
  | x :: xs, te, _, hok => okList_end xs (teStep u te x) hok.1 hok.2

/-- the side condition holds at the root -/
theorem Ok.root {u : ℝ} : ∀ {p : Prog ℝ}, Ok u p → Eb u p ≤ Tb u p / 4
  | .empty, _ => by simp [Tb_empty, Eb_empty]
  | .append _ _, h => h.2
  | .extend p xs, h => okList_end xs (budget u p) (Ok.root h.1) h.2
  | .merge _ _, h => h.2.2

theorem foldl_teStep_facts {u : ℝ} (hu : 0 ≤ u) : ∀ (xs : List ℝ) (te : ℝ × ℝ), 0 ≤ te.1 →
    (xs.foldl (teStep u) te).1 = te.1 + sumAbs xs ∧ te.2 ≤ (xs.foldl (teStep u) te).2
  | [], te, _ => by simp
  | x :: xs, te, h0 => by
    have hx := abs_nonneg x
    obtain ⟨h1, h2⟩ := foldl_teStep_facts hu xs (teStep u te x)
      (by simp only [teStep]; linarith)
    rw [List.foldl_cons, h1, sumAbs_cons]
    refine ⟨by simp only [teStep]; ring, le_trans ?_ h2⟩
    simp only [teStep]
    have g1 : 0 ≤ u * |x| := mul_nonneg hu hx
    have g2 : 0 ≤ u ^ 2 * (te.1 + |x|) := mul_nonneg (sq_nonneg u) (by linarith)
    linarith

/-- allowances are non-negative and the magnitude budget dominates `Σ|x|` -/
theorem budget_facts {u : ℝ} (hu : 0 ≤ u) : ∀ p : Prog ℝ, 0 ≤ Eb u p ∧ sumAbs p.data ≤ Tb u p
  | .empty => by simp [Tb_empty, Eb_empty, Prog.data]
  | .append p x => by
    obtain ⟨h1, h2⟩ := budget_facts hu p
    have hA := sumAbs_nonneg p.data
    have hx := abs_nonneg x
    rw [Eb_append, Tb_append]
    simp only [Prog.data, sumAbs_append, sumAbs_singleton]
    have g1 : 0 ≤ u * |x| := mul_nonneg hu hx
    have g2 : 0 ≤ u ^ 2 * (Tb u p + |x|) := mul_nonneg (sq_nonneg u) (by linarith)
    constructor <;> linarith
  | .extend p xs => by
    obtain ⟨h1, h2⟩ := budget_facts hu p
    have hA := sumAbs_nonneg p.data
    obtain ⟨f1, f2⟩ := foldl_teStep_facts hu xs (budget u p) (by
      show 0 ≤ Tb u p; linarith)
    simp only [Tb, Eb, budget_extend, Prog.data, sumAbs_append] at *
    rw [f1]
    constructor <;> linarith
  | .merge l r => by
    obtain ⟨l1, l2⟩ := budget_facts hu l
    obtain ⟨r1, r2⟩ := budget_facts hu r
    have hAl := sumAbs_nonneg l.data
    have hAr := sumAbs_nonneg r.data
    rw [Eb_merge, Tb_merge]
    simp only [Prog.data, sumAbs_append]
    have g1 : 0 ≤ u * Tb u r := mul_nonneg hu (by linarith)
    have g2 : 0 ≤ u * (sumAbs r.data + Eb u r + 6 * u * Tb u r) :=
      mul_nonneg hu (by linarith)
    have g3 : 0 ≤ u ^ 2 * (Tb u l + (sumAbs r.data + Eb u r + 6 * u * Tb u r)) :=
      mul_nonneg (sq_nonneg u) (by linarith)
    constructor <;> linarith

/-! ### The invariant along a history -/

variable {fl : ℝ → ℝ}

/-- `extend`: list induction with the budgets of `teStep` -/
theorem addList_inv {u : ℝ} (hu : 0 ≤ u) (hu' : u ≤ 1 / 64) (hfl : ∀ x, |fl x - x| ≤ u * |x|) :
    ∀ (xs : List ℝ) (S : ℝ) (te : ℝ × ℝ) (k : Kahan (RR fl)),
      G u S te.1 te.2 k.sum.val k.comp.val → OkList u te xs →
      G u (S + xs.sum) (xs.foldl (teStep u) te).1 (xs.foldl (teStep u) te).2
        (k.addList (xs.map inj)).sum.val (k.addList (xs.map inj)).comp.val
  | [], S, te, k, h, _ => by simpa [addList_nil] using h
  | x :: xs, S, te, k, h, hok => by
    have hstep := g_step hu hu' hfl S te.1 te.2 k (inj x) h hok.1
    simp only [inj_val] at hstep
    have ih := addList_inv hu hu' hfl xs (S + x) (teStep u te x) (k.add (inj x)) hstep hok.2
    have e1 : S + (x :: xs).sum = S + x + xs.sum := by simp [List.sum_cons]; ring
    rw [e1, List.map_cons, addList_cons, List.foldl_cons]
    exact ih

/-- `merge`: two model steps fed with `r.sum` and `r.comp`, then re-targeting from
    `S_l + s_r + c_r` to `S_l + S_r` -/
theorem merge_inv {u : ℝ} (hu : 0 ≤ u) (hu' : u ≤ 1 / 64) (hfl : ∀ x, |fl x - x| ≤ u * |x|)
    (Sl Tl El Sr Tr Er Ar : ℝ) (k r : Kahan (RR fl))
    (hl : G u Sl Tl El k.sum.val k.comp.val) (hr : Inv u Sr Tr Er r.sum.val r.comp.val)
    (hA : |Sr| ≤ Ar)
    (hm : El + Er + 6 * u * Tr + 2 * u * (Ar + Er + 6 * u * Tr)
            + 18 * u ^ 2 * (Tl + (Ar + Er + 6 * u * Tr)) ≤ (Tl + (Ar + Er + 6 * u * Tr)) / 4) :
    G u (Sl + Sr) (Tl + (Ar + Er + 6 * u * Tr))
      (El + Er + 6 * u * Tr + 2 * u * (Ar + Er + 6 * u * Tr)
            + 18 * u ^ 2 * (Tl + (Ar + Er + 6 * u * Tr)))
      (k.merge r).sum.val (k.merge r).comp.val := by
  rw [merge_eq]
  obtain ⟨hrT, hrc, hre⟩ := hr
  have hTl0 : 0 ≤ Tl := hl.T_nonneg
  have hTr0 : 0 ≤ Tr := le_trans (abs_nonneg _) hrT
  have hEr0 : 0 ≤ Er := le_trans (abs_nonneg _) hre
  have hAr0 : 0 ≤ Ar := le_trans (abs_nonneg _) hA
  set sr := r.sum.val with hsr
  set cr := r.comp.val with hcr
  have hcr0 := abs_nonneg cr
  have hsr0 := abs_nonneg sr
  have huT : 0 ≤ u * Tr := mul_nonneg hu hTr0
  -- magnitudes of the two operands
  have hsrb : |sr| ≤ Ar + Er + 3 * u * Tr := by
    have e : sr = (sr - cr - Sr) + cr + Sr := by ring
    have h1 : |sr| ≤ |sr - cr - Sr| + |cr| + |Sr| := by
      calc |sr| = |(sr - cr - Sr) + cr + Sr| := by rw [← e]
        _ ≤ |(sr - cr - Sr) + cr| + |Sr| := abs_add_le _ _
        _ ≤ |sr - cr - Sr| + |cr| + |Sr| := by have := abs_add_le (sr - cr - Sr) cr; linarith
    linarith
  set Xs := Ar + Er + 3 * u * Tr with hXs
  have hXs0 : 0 ≤ Xs := by rw [hXs]; linarith
  have hXeq : Ar + Er + 6 * u * Tr = Xs + 3 * u * Tr := by rw [hXs]; ring
  rw [hXeq] at hm ⊢
  -- common product facts
  have p1 : 0 ≤ u * Xs := mul_nonneg hu hXs0
  have p2 : 0 ≤ u ^ 2 * (Tl + Xs) := mul_nonneg (sq_nonneg u) (by linarith)
  have p3 : 0 ≤ u ^ 2 * Tr := mul_nonneg (sq_nonneg u) hTr0
  have p4 : 0 ≤ u ^ 2 * (u * Tr) := mul_nonneg (sq_nonneg u) huT
  have p5 : u * |sr| ≤ u * Xs := mul_le_mul_of_nonneg_left hsrb hu
  have p6 : u ^ 2 * |sr| ≤ u ^ 2 * Xs := mul_le_mul_of_nonneg_left hsrb (sq_nonneg u)
  have p7 : u * |cr| ≤ u * (3 * u * Tr) := mul_le_mul_of_nonneg_left hrc hu
  have p8 : u ^ 2 * |cr| ≤ u ^ 2 * (3 * u * Tr) := mul_le_mul_of_nonneg_left hrc (sq_nonneg u)
  -- first step: x = r.sum
  have h1 := step_inv hu hu' hfl Sl Tl El k r.sum hl
  rw [← hsr] at h1
  have h1' : G u (Sl + sr) (Tl + Xs) (El + 2 * u * Xs + 9 * u ^ 2 * (Tl + Xs))
      (k.add r.sum).sum.val (k.add r.sum).comp.val := by
    refine (inv_retarget (Sl + sr) (Sl + sr) (Tl + |sr|) (Tl + Xs) _ _ _ _ h1 hu ?_ ?_ ?_).toG ?_
    · rw [sub_self, abs_zero]; linarith
    · linarith
    · have := h1.hT; linarith
    · linarith
  -- second step: x = r.comp
  have h2 := step_inv hu hu' hfl _ _ _ (k.add r.sum) r.comp h1'
  rw [← hcr] at h2
  refine (inv_retarget (Sl + sr + cr) (Sl + Sr) _ (Tl + (Xs + 3 * u * Tr)) _ _ _ _ h2 hu
    ?_ ?_ ?_).toG hm
  · have e : Sl + Sr - (Sl + sr + cr) = -(sr - cr - Sr) - 2 * cr := by ring
    have h2c : |2 * cr| = 2 * |cr| := by rw [abs_mul]; simp
    have a1 := abs_sub (-(sr - cr - Sr)) (2 * cr)
    rw [abs_neg, h2c] at a1
    rw [e]
    linarith
  · linarith
  · have := abs_add_le Sl Sr
    have := hl.hT
    linarith

/-- **the invariant along every accumulation history** -/
theorem prog_inv {u : ℝ} (hu : 0 ≤ u) (hu' : u ≤ 1 / 64) (hfl : ∀ x, |fl x - x| ≤ u * |x|) :
    ∀ (p : Prog ℝ), Ok u p →
      G u p.data.sum (Tb u p) (Eb u p)
        ((p.map inj).evalK : Kahan (RR fl)).sum.val ((p.map inj).evalK : Kahan (RR fl)).comp.val
  | .empty, _ => by
    refine ⟨?_, ?_, ?_, ?_⟩ <;> simp [Prog.data, Prog.map, Prog.evalK, Tb_empty, Eb_empty]
  | .append p x, hok => by
    have ih := prog_inv hu hu' hfl p hok.1
    have h := g_step hu hu' hfl _ _ _ _ (inj x) ih hok.2
    simp only [inj_val] at h
    simpa [Prog.data, Prog.map, Prog.evalK, Tb_append, Eb_append] using h
  | .extend p xs, hok => by
    have ih := prog_inv hu hu' hfl p hok.1
    have h := addList_inv hu hu' hfl xs _ (budget u p) _ ih hok.2
    simpa [Prog.data, Prog.map, Prog.evalK, Tb, Eb, budget_extend] using h
  | .merge l r, hok => by
    have ihl := prog_inv hu hu' hfl l hok.1
    have ihr := prog_inv hu hu' hfl r hok.2.1
    have hm := hok.2.2
    rw [Eb_merge, Tb_merge] at hm
    have h := merge_inv hu hu' hfl _ _ _ _ _ _ (sumAbs r.data) _ _ ihl ihr.inv
      (abs_sum_le_sumAbs r.data) hm
    simpa [Prog.data, Prog.map, Prog.evalK, Tb_merge, Eb_merge] using h

/-- value of every history: `|value − Σ data| ≤ Eb + 8u·Tb` -/
theorem prog_value {u : ℝ} (hu : 0 ≤ u) (hu' : u ≤ 1 / 64) (hfl : ∀ x, |fl x - x| ≤ u * |x|)
    (p : Prog ℝ) (hok : Ok u p) :
    |((p.map inj).evalK : Kahan (RR fl)).value.val - p.data.sum| ≤ Eb u p + 8 * u * Tb u p :=
  value_bound hu hu' hfl _ _ _ _ (prog_inv hu hu' hfl p hok)

/-! ### Closed forms of the budgets -/

/-- relative allowance at right-depth `d` after `n` elementary steps -/
noncomputable def eps (u : ℝ) (d n : ℕ) : ℝ := (2 + 10 * d) * u + 12 * n * u ^ 2

theorem eps_mono {u : ℝ} (hu : 0 ≤ u) {d d' n n' : ℕ} (hd : d ≤ d') (hn : n ≤ n') :
    eps u d n ≤ eps u d' n' := by
  unfold eps
  have h1 : (d : ℝ) ≤ d' := by exact_mod_cast hd
  have h2 : (n : ℝ) ≤ n' := by exact_mod_cast hn
  have g1 : (d : ℝ) * u ≤ d' * u := mul_le_mul_of_nonneg_right h1 hu
  have g2 : (n : ℝ) * u ^ 2 ≤ n' * u ^ 2 := mul_le_mul_of_nonneg_right h2 (sq_nonneg u)
  linarith

theorem two_u_le_eps {u : ℝ} (hu : 0 ≤ u) (d n : ℕ) : 2 * u ≤ eps u d n := by
  unfold eps
  have g1 : 0 ≤ (d : ℝ) * u := mul_nonneg (Nat.cast_nonneg d) hu
  have g2 : 0 ≤ (n : ℝ) * u ^ 2 := mul_nonneg (Nat.cast_nonneg n) (sq_nonneg u)
  linarith

theorem eps_succ (u : ℝ) (d n : ℕ) : eps u d (n + 1) = eps u d n + 12 * u ^ 2 := by
  unfold eps; push_cast; ring

/-- closed form along an `extend` -/
theorem okList_closed {u : ℝ} (hu : 0 ≤ u) (d : ℕ) :
    ∀ (xs : List ℝ) (n : ℕ) (te : ℝ × ℝ) (A : ℝ), 0 ≤ A → A ≤ te.1 → te.1 ≤ 5 / 4 * A →
      te.2 ≤ eps u d n * A → eps u d (n + xs.length) ≤ 1 / 8 →
      OkList u te xs ∧ (xs.foldl (teStep u) te).1 ≤ 5 / 4 * (A + sumAbs xs) ∧
      (xs.foldl (teStep u) te).2 ≤ eps u d (n + xs.length) * (A + sumAbs xs)
  | [], n, te, A, _, _, h2, h3, _ => by simpa [OkList] using ⟨h2, h3⟩
  | x :: xs, n, te, A, hA, h1, h2, h3, hs => by
    have hx := abs_nonneg x
    have hs1 : eps u d (n + 1) ≤ 1 / 8 :=
      le_trans (eps_mono hu le_rfl (by simp)) hs
    have he2 := two_u_le_eps hu d n
    have hsucc := eps_succ u d n
    set e := eps u d n
    set e' := eps u d (n + 1)
    have q1 : 0 ≤ (e - 2 * u) * |x| := mul_nonneg (by linarith) hx
    have q2 : u ^ 2 * (te.1 + |x|) ≤ u ^ 2 * (5 / 4 * (A + |x|)) :=
      mul_le_mul_of_nonneg_left (by linarith) (sq_nonneg u)
    have q3 : e' * (A + |x|) ≤ 1 / 8 * (A + |x|) :=
      mul_le_mul_of_nonneg_right hs1 (by linarith)
    have hE' : (teStep u te x).2 ≤ e' * (A + |x|) := by
      simp only [teStep]; rw [hsucc]; nlinarith
    have hlen : n + (x :: xs).length = (n + 1) + xs.length := by simp; omega
    rw [hlen] at hs ⊢
    obtain ⟨i1, i2, i3⟩ := okList_closed hu d xs (n + 1) (teStep u te x) (A + |x|)
      (by linarith) (by simp only [teStep]; linarith) (by simp only [teStep]; linarith) hE' hs
    refine ⟨⟨?_, i1⟩, ?_, ?_⟩
    · have : (teStep u te x).1 = te.1 + |x| := rfl
      rw [this]; linarith
    · rw [List.foldl_cons, sumAbs_cons, ← add_assoc]; exact i2
    · rw [List.foldl_cons, sumAbs_cons, ← add_assoc]; exact i3

/-- closed form of the merge recursion (pure real arithmetic) -/
theorem merge_closed (u el er em Al Ar Tl Tr El Er : ℝ) (hu : 0 ≤ u) (hu' : u ≤ 1 / 64)
    (hAl : 0 ≤ Al) (hAr : 0 ≤ Ar) (hTl : Tl ≤ 5 / 4 * Al) (hTr : Tr ≤ 5 / 4 * Ar)
    (hEl : El ≤ el * Al) (hEr : Er ≤ er * Ar) (her : er ≤ 1 / 8)
    (h1 : el + 24 * u ^ 2 ≤ em) (h2 : er + 10 * u + 24 * u ^ 2 ≤ em) :
    Tl + (Ar + Er + 6 * u * Tr) ≤ 5 / 4 * (Al + Ar) ∧
    El + Er + 6 * u * Tr + 2 * u * (Ar + Er + 6 * u * Tr)
      + 18 * u ^ 2 * (Tl + (Ar + Er + 6 * u * Tr)) ≤ em * (Al + Ar) := by
  have a1 : er * Ar ≤ 1 / 8 * Ar := mul_le_mul_of_nonneg_right her hAr
  have a2 : u * Tr ≤ u * (5 / 4 * Ar) := mul_le_mul_of_nonneg_left hTr hu
  have a3 : u * Ar ≤ 1 / 64 * Ar := mul_le_mul_of_nonneg_right hu' hAr
  have hX : Ar + Er + 6 * u * Tr ≤ 5 / 4 * Ar := by linarith
  have a4 : u * (Ar + Er + 6 * u * Tr) ≤ u * (5 / 4 * Ar) := mul_le_mul_of_nonneg_left hX hu
  have a5 : u ^ 2 * (Tl + (Ar + Er + 6 * u * Tr)) ≤ u ^ 2 * (5 / 4 * (Al + Ar)) :=
    mul_le_mul_of_nonneg_left (by linarith) (sq_nonneg u)
  have a6 : 0 ≤ (em - el - 24 * u ^ 2) * Al := mul_nonneg (by linarith) hAl
  have a7 : 0 ≤ (em - er - 10 * u - 24 * u ^ 2) * Ar := mul_nonneg (by linarith) hAr
  constructor
  · linarith
  · nlinarith

/-- closed form of the budgets of every history whose relative allowance stays below `1/8` -/
theorem budget_closed {u : ℝ} (hu : 0 ≤ u) (hu' : u ≤ 1 / 64) :
    ∀ (p : Prog ℝ), eps u p.rdepth p.steps ≤ 1 / 8 →
      Ok u p ∧ Tb u p ≤ 5 / 4 * sumAbs p.data ∧ Eb u p ≤ eps u p.rdepth p.steps * sumAbs p.data
  | .empty, _ => by simp [Ok, Tb_empty, Eb_empty, Prog.data]
  | .append p x, hs => by
    have hs0 : eps u p.rdepth p.steps ≤ 1 / 8 :=
      le_trans (eps_mono hu le_rfl (by simp [Prog.steps])) hs
    obtain ⟨i1, i2, i3⟩ := budget_closed hu hu' p hs0
    obtain ⟨_, f2⟩ := budget_facts hu p
    obtain ⟨⟨j1, _⟩, j2, j3⟩ := okList_closed hu p.rdepth [x] p.steps (budget u p)
      (sumAbs p.data) (sumAbs_nonneg _) f2 i2 i3 (by simpa [Prog.steps, Prog.rdepth] using hs)
    simp only [List.foldl_cons, List.foldl_nil, sumAbs_singleton, List.length_singleton] at j2 j3
    refine ⟨⟨i1, j1⟩, ?_, ?_⟩
    · have e : Tb u (p.append x) = (teStep u (budget u p) x).1 := rfl
      rw [e]; simpa [Prog.data, sumAbs_append] using j2
    · have e : Eb u (p.append x) = (teStep u (budget u p) x).2 := rfl
      rw [e]; simpa [Prog.data, sumAbs_append, Prog.rdepth, Prog.steps] using j3
  | .extend p xs, hs => by
    have hs0 : eps u p.rdepth p.steps ≤ 1 / 8 :=
      le_trans (eps_mono hu le_rfl (by simp [Prog.steps])) hs
    obtain ⟨i1, i2, i3⟩ := budget_closed hu hu' p hs0
    obtain ⟨_, f2⟩ := budget_facts hu p
    obtain ⟨j1, j2, j3⟩ := okList_closed hu p.rdepth xs p.steps (budget u p)
      (sumAbs p.data) (sumAbs_nonneg _) f2 i2 i3 (by simpa [Prog.steps, Prog.rdepth] using hs)
    refine ⟨⟨i1, j1⟩, ?_, ?_⟩
    · simpa [Prog.data, sumAbs_append, Tb, budget_extend] using j2
    · simpa [Prog.data, sumAbs_append, Prog.rdepth, Prog.steps, Eb, budget_extend] using j3
  | .merge l r, hs => by
    have hdl : l.rdepth ≤ (Prog.merge l r).rdepth := by simp [Prog.rdepth]
    have hdr : r.rdepth + 1 ≤ (Prog.merge l r).rdepth := by simp [Prog.rdepth]
    have hsl : eps u l.rdepth l.steps ≤ 1 / 8 :=
      le_trans (eps_mono hu hdl (by simp only [Prog.steps]; omega)) hs
    have hsr : eps u r.rdepth r.steps ≤ 1 / 8 :=
      le_trans (eps_mono hu (by omega) (by simp only [Prog.steps]; omega)) hs
    obtain ⟨l1, l2, l3⟩ := budget_closed hu hu' l hsl
    obtain ⟨r1, r2, r3⟩ := budget_closed hu hu' r hsr
    obtain ⟨_, fl2⟩ := budget_facts hu l
    obtain ⟨fr1, fr2⟩ := budget_facts hu r
    have hAl := sumAbs_nonneg l.data
    have hAr := sumAbs_nonneg r.data
    -- the two gaps of `eps`
    have g1 : eps u l.rdepth l.steps + 24 * u ^ 2 ≤ eps u (Prog.merge l r).rdepth (Prog.merge l r).steps := by
      have := eps_mono hu (n := l.steps + 2) (n' := (Prog.merge l r).steps) hdl
        (by simp only [Prog.steps]; omega)
      rw [eps_succ, eps_succ] at this
      linarith
    have g2 : eps u r.rdepth r.steps + 10 * u + 24 * u ^ 2
        ≤ eps u (Prog.merge l r).rdepth (Prog.merge l r).steps := by
      have := eps_mono hu (n := r.steps + 2) (n' := (Prog.merge l r).steps) hdr
        (by simp only [Prog.steps]; omega)
      rw [eps_succ, eps_succ] at this
      have e : eps u (r.rdepth + 1) r.steps = eps u r.rdepth r.steps + 10 * u := by
        unfold eps; push_cast; ring
      rw [e] at this
      linarith
    obtain ⟨c1, c2⟩ := merge_closed u _ _ _ _ _ _ _ _ _ hu hu' hAl hAr l2 r2 l3 r3 hsr g1 g2
    have hdata : sumAbs (Prog.merge l r).data = sumAbs l.data + sumAbs r.data := by
      simp [Prog.data]
    rw [← Tb_merge] at c1
    rw [← Eb_merge] at c2
    rw [← hdata] at c1 c2
    refine ⟨⟨l1, r1, ?_⟩, c1, c2⟩
    have hA := (budget_facts hu (Prog.merge l r)).2
    have hA0 := sumAbs_nonneg (Prog.merge l r).data
    have q : eps u (Prog.merge l r).rdepth (Prog.merge l r).steps * sumAbs (Prog.merge l r).data
        ≤ 1 / 8 * sumAbs (Prog.merge l r).data := mul_le_mul_of_nonneg_right hs hA0
    linarith

/-- closed form of the value bound -/
theorem prog_value_closed {u : ℝ} (hu : 0 ≤ u) (hu' : u ≤ 1 / 64)
    (hfl : ∀ x, |fl x - x| ≤ u * |x|) (p : Prog ℝ) (hs : eps u p.rdepth p.steps ≤ 1 / 8) :
    |((p.map inj).evalK : Kahan (RR fl)).value.val - p.data.sum| ≤
      ((12 + 10 * p.rdepth) * u + 12 * p.steps * u ^ 2) * sumAbs p.data := by
  obtain ⟨hok, hT, hE⟩ := budget_closed hu hu' p hs
  have hv := prog_value hu hu' hfl p hok
  have q : u * Tb u p ≤ u * (5 / 4 * sumAbs p.data) := mul_le_mul_of_nonneg_left hT hu
  unfold eps at hE
  linarith

/-- the smallness hypothesis in a form relating `rdepth`, `steps` and `u` separately -/
theorem eps_small {u : ℝ} (hu : 0 ≤ u) (d n : ℕ) (hn : (n : ℝ) * u ≤ 1)
    (hd : ((d : ℝ) + 1) * u ≤ 1 / 128) : eps u d n ≤ 1 / 8 := by
  unfold eps
  have h1 : (n : ℝ) * u * u ≤ 1 * u := mul_le_mul_of_nonneg_right hn hu
  have h2 : 0 ≤ (d : ℝ) * u := mul_nonneg (Nat.cast_nonneg d) hu
  nlinarith

/-! ### Left folds of merges of sequentially built registers -/

/-- `((∅ + from_iter c₁) + from_iter c₂) + …`: the chunks are summed sequentially and merged into
    one accumulator from the left -/
def leftFold (chunks : List (List ℝ)) : Prog ℝ :=
  chunks.foldl (fun acc c => Prog.merge acc (Prog.extend Prog.empty c)) Prog.empty

theorem rdepth_foldl_le (chunks : List (List ℝ)) (acc : Prog ℝ) :
    (chunks.foldl (fun acc c => Prog.merge acc (Prog.extend Prog.empty c)) acc).rdepth
      ≤ max acc.rdepth 1 := by
  induction chunks generalizing acc with
  | nil => simp
  | cons c cs ih =>
    rw [List.foldl_cons]
    refine le_trans (ih _) ?_
    simp only [Prog.rdepth]; omega

theorem rdepth_leftFold_le (chunks : List (List ℝ)) : (leftFold chunks).rdepth ≤ 1 := by
  have := rdepth_foldl_le chunks Prog.empty
  simpa [leftFold, Prog.rdepth] using this

theorem data_foldl (chunks : List (List ℝ)) (acc : Prog ℝ) :
    (chunks.foldl (fun acc c => Prog.merge acc (Prog.extend Prog.empty c)) acc).data
      = acc.data ++ chunks.flatten := by
  induction chunks generalizing acc with
  | nil => simp
  | cons c cs ih => rw [List.foldl_cons, ih]; simp [Prog.data]

theorem data_leftFold (chunks : List (List ℝ)) : (leftFold chunks).data = chunks.flatten := by
  simp [leftFold, data_foldl, Prog.data]

end KahanLemmas
end StatsCI
