/-
  StatsCI.Lemmas.Wilson — real-number facts about the Wilson score interval and the bridge from
  the model functions `Proportion.wilsonCentre`, `Proportion.wilsonSpan`, `Proportion.finish`,
  `zValue`, the `Proportion.Stats` front-ends at exact arithmetic `Rex = RR id` to them.
-/
import StatsCI.Lemmas.RR
import Mathlib.Analysis.Real.Sqrt
import Mathlib.Algebra.Order.Round
import Mathlib.Tactic.Linarith
import Mathlib.Tactic.Ring
import Mathlib.Tactic.FieldSimp
import Mathlib.Tactic.LinearCombination
import Mathlib.Tactic.Positivity
import Mathlib.Tactic.NormNum

namespace StatsCI.Wilson
open Real

/-! ### pure real analysis on the closed formulas -/

/-- `(k + z²/2)/(n + z²)` -/
noncomputable def centre (n k z : ℝ) : ℝ := (k + z ^ 2 / 2) / (n + z ^ 2)
/-- the discriminant under the square root -/
noncomputable def D (n k z : ℝ) : ℝ := k * (n - k) / n + z ^ 2 / 4
/-- `z/(n + z²) · √(k(n-k)/n + z²/4)` -/
noncomputable def span (n k z : ℝ) : ℝ := (z / (n + z ^ 2)) * sqrt (k * (n - k) / n + z ^ 2 / 4)

theorem D_nonneg (n k z : ℝ) (hn : 0 < n) (hk0 : 0 ≤ k) (hkn : k ≤ n) : 0 ≤ D n k z := by
  unfold D
  have : 0 ≤ k * (n - k) / n := div_nonneg (mul_nonneg hk0 (by linarith)) hn.le
  positivity

theorem D_pos (n k z : ℝ) (hn : 0 < n) (hk0 : 0 ≤ k) (hkn : k ≤ n) (hz : z ≠ 0) : 0 < D n k z := by
  unfold D
  have : 0 ≤ k * (n - k) / n := div_nonneg (mul_nonneg hk0 (by linarith)) hn.le
  have : 0 < z ^ 2 := by positivity
  linarith

theorem den_pos (n z : ℝ) (hn : 0 < n) : 0 < n + z ^ 2 := by positivity

theorem quad_core (n k z r σ κ p : ℝ) (hκ : κ * n = k ^ 2) (hσ : σ ^ 2 = 1)
    (hr : r ^ 2 = k - κ + z ^ 2 / 4) (hp : p * (n + z ^ 2) = k + z ^ 2 / 2 + σ * z * r) :
    (n + z ^ 2) * ((n + z ^ 2) * p ^ 2 - (2 * k + z ^ 2) * p + κ) = 0 := by
  have e : (n + z ^ 2) * ((n + z ^ 2) * p ^ 2 - (2 * k + z ^ 2) * p + κ)
      = (p * (n + z ^ 2)) ^ 2 - (2 * k + z ^ 2) * (p * (n + z ^ 2)) + (n + z ^ 2) * κ := by ring
  rw [e, hp]
  linear_combination (z ^ 2 * r ^ 2) * hσ + (z ^ 2) * hr + hκ

/-- both `centre ± span` (σ = ±1) solve the score equation -/
theorem score_root (n k z : ℝ) (hn : 0 < n) (hk0 : 0 ≤ k) (hkn : k ≤ n) (σ : ℝ) (hσ : σ ^ 2 = 1) :
    (centre n k z + σ * span n k z - k / n) ^ 2
      = z ^ 2 * ((centre n k z + σ * span n k z) * (1 - (centre n k z + σ * span n k z))) / n := by
  set p := centre n k z + σ * span n k z with hpdef
  have hD : 0 ≤ k * (n - k) / n + z ^ 2 / 4 := D_nonneg n k z hn hk0 hkn
  have hN : n + z ^ 2 ≠ 0 := (den_pos n z hn).ne'
  have hn' : n ≠ 0 := hn.ne'
  have hr : sqrt (k * (n - k) / n + z ^ 2 / 4) ^ 2 = k - k ^ 2 / n + z ^ 2 / 4 := by
    rw [sq_sqrt hD]; field_simp
  have hp : p * (n + z ^ 2) = k + z ^ 2 / 2 + σ * z * sqrt (k * (n - k) / n + z ^ 2 / 4) := by
    simp only [hpdef, centre, span]; field_simp
  have hq := quad_core n k z _ σ (k ^ 2 / n) p (by field_simp) hσ hr hp
  have hq' : (n + z ^ 2) * p ^ 2 - (2 * k + z ^ 2) * p + k ^ 2 / n = 0 := by
    rcases mul_eq_zero.mp hq with h | h
    · exact absurd h hN
    · exact h
  have : (p - k / n) ^ 2 - z ^ 2 * (p * (1 - p)) / n
      = (1 / n) * ((n + z ^ 2) * p ^ 2 - (2 * k + z ^ 2) * p + k ^ 2 / n) := by
    field_simp; ring
  rw [hq', mul_zero] at this
  linarith

/-- the defect of the score equation at `p` is, up to the positive factor `n/(n+z²)`,
    `(p - centre)² - span²` -/
theorem score_defect (n k z p : ℝ) (hn : 0 < n) (hk0 : 0 ≤ k) (hkn : k ≤ n) :
    (p - centre n k z) ^ 2 - span n k z ^ 2
      = n / (n + z ^ 2) * ((p - k / n) ^ 2 - z ^ 2 * (p * (1 - p)) / n) := by
  have hD : 0 ≤ k * (n - k) / n + z ^ 2 / 4 := D_nonneg n k z hn hk0 hkn
  have hN : n + z ^ 2 ≠ 0 := (den_pos n z hn).ne'
  have hn' : n ≠ 0 := hn.ne'
  have hs : span n k z ^ 2 = z ^ 2 / (n + z ^ 2) ^ 2 * (k * (n - k) / n + z ^ 2 / 4) := by
    unfold span; rw [mul_pow, sq_sqrt hD, div_pow]
  rw [hs]; unfold centre; field_simp; ring

/-- the score equation has no other solution than `centre - span` and `centre + span` -/
theorem score_root_iff (n k z p : ℝ) (hn : 0 < n) (hk0 : 0 ≤ k) (hkn : k ≤ n) :
    (p - k / n) ^ 2 = z ^ 2 * (p * (1 - p)) / n ↔
      p = centre n k z - span n k z ∨ p = centre n k z + span n k z := by
  have hN := den_pos n z hn
  have hd := score_defect n k z p hn hk0 hkn
  have hf : 0 < n / (n + z ^ 2) := div_pos hn hN
  constructor
  · intro h
    rw [h, sub_self, mul_zero] at hd
    have : (p - centre n k z - span n k z) * (p - centre n k z + span n k z) = 0 := by
      linear_combination hd
    rcases mul_eq_zero.mp this with h | h
    · right; linarith
    · left; linarith
  · intro h
    have h0 : (p - centre n k z) ^ 2 - span n k z ^ 2 = 0 := by
      rcases h with h | h <;> rw [h] <;> ring
    rw [h0] at hd
    have := (mul_eq_zero.mp hd.symm).resolve_left hf.ne'
    linarith

/-- `|span| = |z|/(n+z²) · √D` -/
theorem abs_span (n k z : ℝ) (hn : 0 < n) :
    |span n k z| = |z| * sqrt (D n k z) / (n + z ^ 2) := by
  have hN := den_pos n z hn
  unfold span D
  rw [abs_mul, abs_div, abs_of_pos hN, abs_of_nonneg (sqrt_nonneg _)]
  ring

theorem span_nonneg (n k z : ℝ) (hn : 0 < n) (hz : 0 ≤ z) : 0 ≤ span n k z := by
  have hN := den_pos n z hn
  unfold span
  exact mul_nonneg (div_nonneg hz hN.le) (sqrt_nonneg _)

theorem span_neg (n k z : ℝ) (hn : 0 < n) (hk0 : 0 ≤ k) (hkn : k ≤ n) (hz : z < 0) :
    span n k z < 0 := by
  have hN := den_pos n z hn
  have hD := D_pos n k z hn hk0 hkn hz.ne
  unfold span
  exact mul_neg_of_neg_of_pos (div_neg_of_neg_of_pos hz hN) (sqrt_pos.mpr hD)

/-- `|z| √D ≤ k + z²/2` -/
theorem abs_z_sqrtD_le (n k z : ℝ) (hn : 0 < n) (hk0 : 0 ≤ k) (hkn : k ≤ n) :
    |z| * sqrt (D n k z) ≤ k + z ^ 2 / 2 := by
  have hD := D_nonneg n k z hn hk0 hkn
  have hb : 0 ≤ k + z ^ 2 / 2 := by positivity
  have h := abs_le_of_sq_le_sq (a := z * sqrt (D n k z)) (b := k + z ^ 2 / 2) ?_ hb
  · rwa [abs_mul, abs_of_nonneg (sqrt_nonneg _)] at h
  · rw [mul_pow, sq_sqrt hD]
    unfold D
    have hn' : n ≠ 0 := hn.ne'
    have e : (k + z ^ 2 / 2) ^ 2 - z ^ 2 * (k * (n - k) / n + z ^ 2 / 4)
        = k ^ 2 + z ^ 2 * k ^ 2 / n := by
      field_simp; ring
    have : 0 ≤ k ^ 2 + z ^ 2 * k ^ 2 / n := by positivity
    linarith

theorem D_symm (n k z : ℝ) : D n (n - k) z = D n k z := by
  unfold D; ring

theorem centre_symm (n k z : ℝ) (hn : 0 < n) : centre n (n - k) z = 1 - centre n k z := by
  have hN := (den_pos n z hn).ne'
  unfold centre; field_simp; ring

/-- key bound: `√D ≥ |z (n - 2k) / (2n)|` -/
theorem sqrtD_ge (n k z : ℝ) (hn : 0 < n) (hk0 : 0 ≤ k) (hkn : k ≤ n) :
    |z * (n - 2 * k) / (2 * n)| ≤ sqrt (D n k z) := by
  apply abs_le_sqrt
  unfold D
  have hn' : n ≠ 0 := hn.ne'
  have h0 : 0 ≤ k * (n - k) := mul_nonneg hk0 (by linarith)
  have key : k * (n - k) / n + z ^ 2 / 4 - (z * (n - 2 * k) / (2 * n)) ^ 2
      = k * (n - k) / n + z ^ 2 * (k * (n - k)) / n ^ 2 := by
    field_simp; ring
  have : 0 ≤ k * (n - k) / n + z ^ 2 * (k * (n - k)) / n ^ 2 := by positivity
  linarith

theorem abs_span_le_centre (n k z : ℝ) (hn : 0 < n) (hk0 : 0 ≤ k) (hkn : k ≤ n) :
    |span n k z| ≤ centre n k z := by
  have hN := den_pos n z hn
  rw [abs_span n k z hn]; unfold centre
  exact div_le_div_of_nonneg_right (abs_z_sqrtD_le n k z hn hk0 hkn) hN.le

theorem centre_add_abs_span_le_one (n k z : ℝ) (hn : 0 < n) (hk0 : 0 ≤ k) (hkn : k ≤ n) :
    centre n k z + |span n k z| ≤ 1 := by
  have h := abs_span_le_centre n (n - k) z hn (by linarith) (by linarith)
  rw [centre_symm n k z hn, abs_span _ _ _ hn, D_symm, ← abs_span _ _ _ hn] at h
  linarith

theorem abs_centre_sub_le (n k z : ℝ) (hn : 0 < n) (hk0 : 0 ≤ k) (hkn : k ≤ n) :
    |centre n k z - k / n| ≤ |span n k z| := by
  have hN := den_pos n z hn
  have hn' : n ≠ 0 := hn.ne'
  have e : centre n k z - k / n = z * (z * (n - 2 * k) / (2 * n)) / (n + z ^ 2) := by
    unfold centre; field_simp; ring
  rw [e, abs_span n k z hn, abs_div, abs_of_pos hN, abs_mul]
  exact div_le_div_of_nonneg_right
    (mul_le_mul_of_nonneg_left (sqrtD_ge n k z hn hk0 hkn) (abs_nonneg z)) hN.le

/-- recovery of `z²` from the centre -/
theorem zsq_of_centre (n k z : ℝ) (hn : 0 < n) (hc : centre n k z ≠ 1 / 2) :
    z ^ 2 = (k - n * centre n k z) / (centre n k z - 1 / 2) := by
  have hN := (den_pos n z hn).ne'
  have h2 : centre n k z - 1 / 2 ≠ 0 := sub_ne_zero.mpr hc
  have h : centre n k z * (n + z ^ 2) = k + z ^ 2 / 2 := by unfold centre; field_simp
  rw [eq_div_iff h2]
  linear_combination h

/-- the centre is `1/2` exactly when `k = n/2` -/
theorem centre_eq_half_iff (n k z : ℝ) (hn : 0 < n) : centre n k z = 1 / 2 ↔ 2 * k = n := by
  have hN := (den_pos n z hn).ne'
  unfold centre
  rw [div_eq_iff hN]
  constructor <;> intro h <;> linarith

/-! ### bridge: the model functions at exact arithmetic -/

section model
open StatsCI Proportion NumOps Scalar

theorem ofNat_eq (n : ℕ) : (Scalar.ofNat n : Rex) = ⟨(n : ℝ)⟩ := rfl

/-- the model's Wilson centre at `Rex` is `(k + z²/2)/(n + z²)` -/
theorem wilsonCentre_val (n k z : ℝ) :
    (wilsonCentre (⟨n⟩ : Rex) ⟨k⟩ ⟨z⟩).val = centre n k z := by
  simp only [wilsonCentre, centre, RR.add_val, RR.div_val, RR.mul_val, RR.one_val, id]
  norm_num [sq]

/-- the model's Wilson span at `Rex` is `z/(n + z²) · √(k(n-k)/n + z²/4)` -/
theorem wilsonSpan_val (n k z : ℝ) :
    (wilsonSpan (⟨n⟩ : Rex) ⟨k⟩ ⟨z⟩).val = span n k z := by
  simp only [wilsonSpan, span, RR.add_val, RR.sub_val, RR.div_val, RR.mul_val, RR.one_val,
    RR.sqrt_val, id]
  norm_num [sq]

theorem validLevel_iff (l : Rex) : Confidence.validLevel l = true ↔ 0 < l.val ∧ l.val < 1 := by
  simp [Confidence.validLevel]

theorem quantile_twoSided_val (l : Rex) :
    (Confidence.quantile (.twoSided l)).val = 1 - (1 - l.val) / 2 := by
  simp only [Confidence.quantile, RR.sub_val, RR.div_val, RR.add_val, RR.one_val, id]
  norm_num

theorem quantile_upper (l : Rex) : Confidence.quantile (.upper l) = l := rfl
theorem quantile_lower (l : Rex) : Confidence.quantile (.lower l) = l := rfl

/-- a valid confidence always asks `inverse_cdf` for a probability in `[0, 1]` -/
theorem probOk_quantile (conf : Confidence Rex) (h0 : 0 < conf.level.val) (h1 : conf.level.val < 1) :
    probOk conf.quantile = true := by
  cases conf with
  | twoSided l =>
    simp only [Confidence.level] at h0 h1
    simp only [probOk, Bool.and_eq_true, RR.le_iff, quantile_twoSided_val, RR.zero_val, RR.one_val]
    constructor <;> linarith
  | upper l =>
    simp only [Confidence.level] at h0 h1
    simp only [probOk, Bool.and_eq_true, RR.le_iff, quantile_upper, RR.zero_val, RR.one_val]
    constructor <;> linarith
  | lower l =>
    simp only [Confidence.level] at h0 h1
    simp only [probOk, Bool.and_eq_true, RR.le_iff, quantile_lower, RR.zero_val, RR.one_val]
    constructor <;> linarith

theorem zValue_eq (crit : Crit Rex) (conf : Confidence Rex) (h0 : 0 < conf.level.val)
    (h1 : conf.level.val < 1) : zValue crit conf = .ok (crit (.z conf.quantile)) := by
  simp [zValue, probOk_quantile conf h0 h1]

/-! `finish` at exact arithmetic -/

theorem finish_twoSided (l m s : Rex) (hs : 0 ≤ s.val) :
    finish (.twoSided l) m s = .ok (.twoSided ⟨m.val - s.val⟩ ⟨m.val + s.val⟩) := by
  have h : ¬ (m.val + s.val < m.val - s.val) := by linarith
  simp only [finish, Interval.new, RR.gt_iff, RR.add_val, RR.sub_val, id, h, if_false, liftI]
  rfl

theorem finish_twoSided_neg (l m s : Rex) (hs : s.val < 0) :
    finish (.twoSided l) m s = .err (.interval .invalidBounds) := by
  have h : m.val + s.val < m.val - s.val := by linarith
  simp only [finish, Interval.new, RR.gt_iff, RR.add_val, RR.sub_val, id, h, if_true, liftI]

theorem finish_upper (l m s : Rex) (h : m.val - s.val ≤ 1) :
    finish (.upper l) m s = .ok (.twoSided ⟨m.val - s.val⟩ ⟨1⟩) := by
  have h' : ¬ (1 < m.val - s.val) := by linarith
  simp only [finish, Interval.new, RR.gt_iff, RR.sub_val, RR.one_val, id, h', if_false, liftI]
  rfl

theorem finish_upper_rej (l m s : Rex) (h : 1 < m.val - s.val) :
    finish (.upper l) m s = .err (.interval .invalidBounds) := by
  simp only [finish, Interval.new, RR.gt_iff, RR.sub_val, RR.one_val, id, h, if_true, liftI]

theorem finish_lower (l m s : Rex) (h : 0 ≤ m.val + s.val) :
    finish (.lower l) m s = .ok (.twoSided ⟨0⟩ ⟨m.val + s.val⟩) := by
  have h' : ¬ (m.val + s.val < 0) := by linarith
  simp only [finish, Interval.new, RR.gt_iff, RR.add_val, RR.zero_val, id, h', if_false, liftI]
  rfl

theorem finish_lower_rej (l m s : Rex) (h : m.val + s.val < 0) :
    finish (.lower l) m s = .err (.interval .invalidBounds) := by
  simp only [finish, Interval.new, RR.gt_iff, RR.add_val, RR.zero_val, id, h, if_true, liftI]

theorem finish_ne_panic (conf : Confidence Rex) (m s : Rex) (t : String) :
    finish conf m s ≠ .panic t := by
  cases conf <;> simp only [finish, Interval.new] <;> split <;> simp [liftI]

/-- which levels make `inverse_cdf` accept the probability -/
theorem probOk_quantile_iff (conf : Confidence Rex) :
    probOk conf.quantile = true ↔
      (match conf with
       | .twoSided l => -1 ≤ l.val ∧ l.val ≤ 1
       | .upper l => 0 ≤ l.val ∧ l.val ≤ 1
       | .lower l => 0 ≤ l.val ∧ l.val ≤ 1) := by
  cases conf with
  | twoSided l =>
    simp only [probOk, Bool.and_eq_true, RR.le_iff, quantile_twoSided_val, RR.zero_val, RR.one_val]
    constructor <;> rintro ⟨a, b⟩ <;> constructor <;> linarith
  | upper l => simp [probOk, Confidence.quantile]
  | lower l => simp [probOk, Confidence.quantile]

/-! the counting front-ends -/

theorem extend_eq (s : Stats) (bs : List Bool) :
    s.extend bs = ⟨s.population + bs.length, s.successes + bs.count true⟩ := by
  induction bs generalizing s with
  | nil => simp [Stats.extend]
  | cons b bs ih =>
    have : Stats.extend s (b :: bs) = Stats.extend (s.push b) bs := rfl
    rw [this, ih]
    cases b <;> simp [Stats.push, Stats.addSuccess, Stats.addFailure] <;> omega

theorem extendIf_eq {T : Type} (s : Stats) (xs : List T) (p : T → Bool) :
    s.extendIf xs p = ⟨s.population + xs.length, s.successes + xs.countP p⟩ := by
  induction xs generalizing s with
  | nil => simp [Stats.extendIf]
  | cons x xs ih =>
    have : Stats.extendIf s (x :: xs) p = Stats.extendIf (s.push (p x)) xs p := rfl
    rw [this, ih]
    cases hx : p x <;> simp [Stats.push, Stats.addSuccess, Stats.addFailure, hx] <;>
      omega

/-! `ciWilson` / `ciZNormal` once the count tests are passed -/

/-- the critical value the oracle supplies for this confidence -/
noncomputable abbrev zOf (crit : Crit Rex) (conf : Confidence Rex) : ℝ := (crit (.z conf.quantile)).val
/-- the model's Wilson centre evaluated in exact arithmetic (a real number) -/
noncomputable abbrev mCentre (n k : ℕ) (z : ℝ) : ℝ := (wilsonCentre (⟨n⟩ : Rex) ⟨k⟩ ⟨z⟩).val
/-- the model's Wilson span evaluated in exact arithmetic (a real number) -/
noncomputable abbrev mSpan (n k : ℕ) (z : ℝ) : ℝ := (wilsonSpan (⟨n⟩ : Rex) ⟨k⟩ ⟨z⟩).val

/-- the general form of `ciWilson` on its domain (any bounds): the clamped constructor -/
theorem ciWilson_of_domain_clamped (crit : Crit Rex) (conf : Confidence Rex) (h0 : 0 < conf.level.val)
    (h1 : conf.level.val < 1) (n k : ℕ) (hk : 2 ≤ k) (hkn : k + 2 ≤ n) :
    ciWilson crit conf n k
      = finishWilson conf (wilsonCentre (⟨n⟩ : Rex) ⟨k⟩ ⟨zOf crit conf⟩)
          (wilsonSpan (⟨n⟩ : Rex) ⟨k⟩ ⟨zOf crit conf⟩) := by
  have a : ¬ k > n := by omega
  have b : ¬ k < 2 := by omega
  have c : ¬ n - k < 2 := by omega
  simp only [ciWilson, a, b, c, if_false, zValue_eq crit conf h0 h1, Outcome.bind_ok]
  rfl

/-- on its domain, in exact arithmetic, the clamp never acts (both roots are proportions): `ciWilson`
    is the plain constructor applied to centre ∓ span -/
theorem ciWilson_of_domain (crit : Crit Rex) (conf : Confidence Rex) (h0 : 0 < conf.level.val)
    (h1 : conf.level.val < 1) (n k : ℕ) (hk : 2 ≤ k) (hkn : k + 2 ≤ n) :
    ciWilson crit conf n k
      = finish conf (wilsonCentre (⟨n⟩ : Rex) ⟨k⟩ ⟨zOf crit conf⟩) (wilsonSpan (⟨n⟩ : Rex) ⟨k⟩ ⟨zOf crit conf⟩) := by
  rw [ciWilson_of_domain_clamped crit conf h0 h1 n k hk hkn]
  have hn : (0 : ℝ) < n := by
    have : 0 < n := by omega
    exact_mod_cast this
  have hk0 : (0 : ℝ) ≤ k := by positivity
  have hkn' : (k : ℝ) ≤ n := by
    have : k ≤ n := by omega
    exact_mod_cast this
  have a1 := abs_span_le_centre (n : ℝ) k (zOf crit conf) hn hk0 hkn'
  have a2 := centre_add_abs_span_le_one (n : ℝ) k (zOf crit conf) hn hk0 hkn'
  have l1 := neg_abs_le (span (n : ℝ) k (zOf crit conf))
  have l2 := le_abs_self (span (n : ℝ) k (zOf crit conf))
  apply finishWilson_eq_finish
  · rw [wilsonCentre_val, wilsonSpan_val]; linarith
  · rw [wilsonCentre_val, wilsonSpan_val]; linarith
  · rw [wilsonCentre_val, wilsonSpan_val]; linarith
  · rw [wilsonCentre_val, wilsonSpan_val]; linarith

/-- the Wald standard deviation `√((k/n)(1 - k/n)/n)` -/
noncomputable def waldSd (n k : ℝ) : ℝ := sqrt (k / n * (1 - k / n) / n)

theorem waldSd_pos (n k : ℝ) (hk : 0 < k) (hkn : k < n) : 0 < waldSd n k := by
  have hn : 0 < n := hk.trans hkn
  have h1 : 0 < k / n := div_pos hk hn
  have h2 : k / n < 1 := (div_lt_one hn).mpr hkn
  unfold waldSd
  apply sqrt_pos.mpr
  have : 0 < 1 - k / n := by linarith
  positivity

theorem ciZNormal_of_domain (crit : Crit Rex) (conf : Confidence Rex) (h0 : 0 < conf.level.val)
    (h1 : conf.level.val < 1) (n k : ℕ) (hk : 10 ≤ k) (hkn : k + 10 ≤ n) :
    ciZNormal crit conf n k
      = finish conf (⟨(k : ℝ) / n⟩ : Rex) ⟨zOf crit conf * waldSd n k⟩ := by
  have a : ¬ k > n := by omega
  have b : ¬ k < 10 := by omega
  have c : ¬ n - k < 10 := by omega
  simp only [ciZNormal, a, b, c, if_false, zValue_eq crit conf h0 h1, Outcome.bind_ok]
  rfl

/-- `z²` from either root `p = centre ± span` when `0 < k < n` -/
theorem zsq_of_root (n k z : ℝ) (hk0 : 0 < k) (hkn : k < n) (σ : ℝ) (hσ : σ ^ 2 = 1) :
    (centre n k z + σ * span n k z) * (1 - (centre n k z + σ * span n k z)) ≠ 0 ∧
    z ^ 2 = n * (centre n k z + σ * span n k z - k / n) ^ 2
      / ((centre n k z + σ * span n k z) * (1 - (centre n k z + σ * span n k z))) := by
  have hn : 0 < n := hk0.trans hkn
  have h := score_root n k z hn hk0.le hkn.le σ hσ
  set p := centre n k z + σ * span n k z
  have hn' : n ≠ 0 := hn.ne'
  have hne : p * (1 - p) ≠ 0 := by
    intro hp0
    rw [hp0, mul_zero, zero_div] at h
    have hp : p = k / n := by
      have := pow_eq_zero_iff (two_ne_zero) |>.mp h
      linarith
    rw [hp] at hp0
    have h1 : 0 < k / n := div_pos hk0 hn
    have h2 : k / n < 1 := (div_lt_one hn).mpr hkn
    rcases mul_eq_zero.mp hp0 with h3 | h3 <;> linarith
  refine ⟨hne, ?_⟩
  rw [eq_div_iff hne, h]
  field_simp

end model

end StatsCI.Wilson
