/-
  StatsCI.Lemmas.MeanLog — geometric and harmonic means at exact arithmetic, and the
  inequality harmonic ≤ geometric ≤ arithmetic mean for positive real lists.
-/
import StatsCI.Lemmas.MeanExact
import Mathlib.Analysis.SpecialFunctions.Exp
import Mathlib.Analysis.SpecialFunctions.Log.Basic

set_option linter.unusedSectionVars false

namespace StatsCI.MeanLemmas
open StatsCI NumOps Scalar

/-! ### mean inequalities on lists -/

theorem sum_map_div_const (xs : List ℝ) (c : ℝ) : (xs.map (fun x => x / c)).sum = xs.sum / c := by
  induction xs with
  | nil => simp
  | cons x xs ih => simp only [List.map_cons, List.sum_cons, ih]; ring

theorem sum_map_lin (xs : List ℝ) (L : ℝ) :
    (xs.map (fun x => 1 + Real.log x - L)).sum =
      xs.length + (xs.map Real.log).sum - xs.length * L := by
  induction xs with
  | nil => simp
  | cons x xs ih =>
    simp only [List.map_cons, List.sum_cons, List.length_cons, ih]
    push_cast
    ring

theorem sum_lin_le_sum_exp (xs : List ℝ) (L : ℝ) (hpos : ∀ x ∈ xs, 0 < x) :
    (xs.map (fun x => 1 + Real.log x - L)).sum ≤ (xs.map (fun x => x / Real.exp L)).sum := by
  induction xs with
  | nil => simp
  | cons x xs ih =>
    simp only [List.map_cons, List.sum_cons]
    have hx : 0 < x := hpos x (by simp)
    have h1 : x / Real.exp L = Real.exp (Real.log x - L) := by
      rw [Real.exp_sub, Real.exp_log hx]
    have h2 := Real.add_one_le_exp (Real.log x - L)
    have h3 := ih (fun y hy => hpos y (by simp [hy]))
    rw [h1]
    linarith

/-- geometric ≤ arithmetic mean -/
theorem gm_le_am (xs : List ℝ) (hne : xs ≠ []) (hpos : ∀ x ∈ xs, 0 < x) :
    Real.exp (smean (xs.map Real.log)) ≤ smean xs := by
  have hn : 0 < (xs.length : ℝ) := by
    have : 0 < xs.length := List.length_pos_of_ne_nil hne
    exact_mod_cast this
  have h := sum_lin_le_sum_exp xs (smean (xs.map Real.log)) hpos
  rw [sum_map_lin, sum_map_div_const] at h
  have hL : (xs.length : ℝ) * smean (xs.map Real.log) = (xs.map Real.log).sum := by
    unfold smean
    rw [List.length_map]
    field_simp
  rw [hL] at h
  have h' : (xs.length : ℝ) ≤ xs.sum / Real.exp (smean (xs.map Real.log)) := by linarith
  rw [le_div_iff₀ (Real.exp_pos _)] at h'
  unfold smean at h' ⊢
  rw [le_div_iff₀ hn]
  linarith

theorem smean_map_neg (xs : List ℝ) (f : ℝ → ℝ) :
    smean (xs.map (fun x => -f x)) = -smean (xs.map f) := by
  unfold smean
  have : (xs.map (fun x => -f x)).sum = -(xs.map f).sum := by
    induction xs with
    | nil => simp
    | cons x xs ih => simp only [List.map_cons, List.sum_cons, ih]; ring
  rw [this, List.length_map, List.length_map, neg_div]

/-- harmonic ≤ geometric mean -/
theorem hm_le_gm (xs : List ℝ) (hne : xs ≠ []) (hpos : ∀ x ∈ xs, 0 < x) :
    1 / smean (xs.map (fun x => 1 / x)) ≤ Real.exp (smean (xs.map Real.log)) := by
  have hne' : xs.map (fun x => 1 / x) ≠ [] := by simpa using hne
  have hpos' : ∀ y ∈ xs.map (fun x => 1 / x), 0 < y := by
    intro y hy
    simp only [List.mem_map] at hy
    obtain ⟨x, hx, rfl⟩ := hy
    exact one_div_pos.mpr (hpos x hx)
  have h := gm_le_am _ hne' hpos'
  have hlog : (xs.map (fun x => 1 / x)).map Real.log = xs.map (fun x => -Real.log x) := by
    rw [List.map_map]
    apply List.map_congr_left
    intro x _
    simp [Function.comp, Real.log_inv]
  rw [hlog, smean_map_neg] at h
  have h2 := one_div_le_one_div_of_le (Real.exp_pos _) h
  rw [Real.exp_neg, one_div, one_div, inv_inv] at h2
  rw [one_div]
  exact h2

/-! ### geometric -/

theorem map_inj_ln (xs : List ℝ) :
    ((xs.map inj : List Rex).map Scalar.ln) = (xs.map Real.log).map inj := by
  rw [List.map_map, List.map_map]
  apply List.map_congr_left
  intro x _
  apply RR.ext'
  simp

theorem map_inj_recip (xs : List ℝ) :
    ((xs.map inj : List Rex).map (fun x => div one x)) = (xs.map (fun x => 1 / x)).map inj := by
  rw [List.map_map, List.map_map]
  apply List.map_congr_left
  intro x _
  apply RR.ext'
  simp

theorem accepted_of_pos (xs : List ℝ) (hpos : ∀ x ∈ xs, 0 < x) :
    ∀ y ∈ (xs.map inj : List Rex), le y (zero : Rex) = false := by
  intro y hy
  simp only [List.mem_map] at hy
  obtain ⟨x, hx, rfl⟩ := hy
  rw [Bool.eq_false_iff, Ne, RR.le_iff]
  simpa using hpos x hx

/-- positive data are all accepted: the log-space state is the arithmetic state of the logarithms -/
theorem Geometric.fromList_rex (xs : List ℝ) (hpos : ∀ x ∈ xs, 0 < x) :
    (Geometric.fromList (xs.map inj) : Outcome (Err Rex) (Geometric Rex)) =
      .ok ⟨Arith.fromList ((xs.map Real.log).map inj)⟩ := by
  unfold Geometric.fromList
  rw [Geometric.extend_accepted _ _ (accepted_of_pos xs hpos), map_inj_ln]
  rfl

/-- positive data are all accepted: the reciprocal-space state is the arithmetic state of the
    reciprocals -/
theorem Harmonic.fromList_rex (xs : List ℝ) (hpos : ∀ x ∈ xs, 0 < x) :
    (Harmonic.fromList (xs.map inj) : Outcome (Err Rex) (Harmonic Rex)) =
      .ok ⟨Arith.fromList ((xs.map (fun x => 1 / x)).map inj)⟩ := by
  unfold Harmonic.fromList
  rw [Harmonic.extend_accepted _ _ (accepted_of_pos xs hpos), map_inj_recip]
  rfl

/-- `Geometric::ci_mean` is `exp` of the log-space interval, bound by bound, same kind;
    errors and panics pass through -/
theorem Geometric.ciMean_rex (crit : Crit Rex) (g : Geometric Rex) (conf : Confidence Rex) :
    g.ciMean crit conf = (g.logs.ciMean crit conf).map (Interval.map Scalar.exp) := by
  unfold Geometric.ciMean
  cases h : g.logs.ciMean crit conf with
  | err e => rfl
  | panic t => rfl
  | ok I =>
    have hk := Arith.ciMean_ok_kind crit g.logs conf I h
    cases conf with
    | twoSided l =>
      obtain ⟨lo, hi, rfl, hg⟩ := hk
      have hle : lo.val ≤ hi.val := by
        rw [Bool.eq_false_iff, Ne, RR.gt_iff] at hg
        exact not_lt.mp hg
      have : gt (Scalar.exp lo : Rex) (Scalar.exp hi) = false := by
        rw [Bool.eq_false_iff, Ne, RR.gt_iff]
        simp only [RR.exp_val, id_eq, not_lt]
        exact Real.exp_le_exp.mpr hle
      simp only [Outcome.bind_ok, Outcome.map, intervalOfKind, Interval.new, Interval.lowX,
        Interval.highX, Interval.map, this, liftI, Bool.false_eq_true, if_false]
    | upper l =>
      obtain ⟨lo, rfl⟩ := hk
      simp [Outcome.map, intervalOfKind, Interval.newUpper, Interval.lowX, Interval.map]
    | lower l =>
      obtain ⟨hi, rfl⟩ := hk
      simp [Outcome.map, intervalOfKind, Interval.newLower, Interval.highX, Interval.map]

/-! ### harmonic -/

section recipBound
variable {F W : Type} [Scalar F] [Scalar W] [Widen F W]

/-- every carrier: the reciprocal of a strictly positive reciprocal-space bound is `1/r` -/
theorem Harmonic.recipBound_of_pos (r : F) (h : gt r (zero : F) = true) :
    Harmonic.recipBound r = div one r := by
  simp only [Harmonic.recipBound, h, if_true]

/-- every carrier: the reciprocal of a reciprocal-space bound that is not strictly positive
    (including an unordered one) is read as `+∞` -/
theorem Harmonic.recipBound_of_not_pos (r : F) (h : gt r (zero : F) = false) :
    Harmonic.recipBound r = posInf := by
  simp only [Harmonic.recipBound, h, Bool.false_eq_true, if_false]

/-- every carrier, two-sided: the reciprocal-space interval `[a, b]` gives
    `Interval::new(recipBound b, recipBound a)` -/
theorem Harmonic.ciMean_twoSided_recipBound (crit : Crit W) (h : Harmonic F) (l : W) (a b : F)
    (hJ : h.recip.ciMean crit (.twoSided l) = .ok (.twoSided a b)) :
    h.ciMean crit (.twoSided l) =
      liftI (Interval.new (Harmonic.recipBound b) (Harmonic.recipBound a)) := by
  unfold Harmonic.ciMean
  simp only [Confidence.flipped, hJ, Outcome.bind_ok, intervalOfKind, Interval.highX,
    Interval.lowX]

/-- every carrier, upper one-sided: the flipped (lower) reciprocal-space interval `(-∞, b]` gives
    `[recipBound b, +∞)` -/
theorem Harmonic.ciMean_upper_recipBound (crit : Crit W) (h : Harmonic F) (l : W) (b : F)
    (hJ : h.recip.ciMean crit (.lower l) = .ok (.lower b)) :
    h.ciMean crit (.upper l) = .ok (.upper (Harmonic.recipBound b)) := by
  unfold Harmonic.ciMean
  simp only [Confidence.flipped, hJ, Outcome.bind_ok, intervalOfKind, Interval.highX,
    Interval.newUpper]

/-- every carrier, lower one-sided: the flipped (upper) reciprocal-space interval `[a, +∞)` gives
    `(-∞, recipBound a]` -/
theorem Harmonic.ciMean_lower_recipBound (crit : Crit W) (h : Harmonic F) (l : W) (a : F)
    (hJ : h.recip.ciMean crit (.upper l) = .ok (.upper a)) :
    h.ciMean crit (.lower l) = .ok (.lower (Harmonic.recipBound a)) := by
  unfold Harmonic.ciMean
  simp only [Confidence.flipped, hJ, Outcome.bind_ok, intervalOfKind, Interval.lowX,
    Interval.newLower]

/-- every carrier, two-sided, reciprocal-space interval `[a, b]` reaching down to zero or below
    with a positive upper end: `Interval::new(1/b, +∞)` -/
theorem Harmonic.ciMean_twoSided_straddle (crit : Crit W) (h : Harmonic F) (l : W) (a b : F)
    (hJ : h.recip.ciMean crit (.twoSided l) = .ok (.twoSided a b))
    (ha : gt a (zero : F) = false) (hb : gt b (zero : F) = true) :
    h.ciMean crit (.twoSided l) = liftI (Interval.new (div one b) (posInf : F)) := by
  rw [Harmonic.ciMean_twoSided_recipBound crit h l a b hJ, Harmonic.recipBound_of_pos b hb,
    Harmonic.recipBound_of_not_pos a ha]

/-- every carrier, two-sided, neither end of the reciprocal-space interval strictly positive:
    `Interval::new(+∞, +∞)` -/
theorem Harmonic.ciMean_twoSided_not_pos (crit : Crit W) (h : Harmonic F) (l : W) (a b : F)
    (hJ : h.recip.ciMean crit (.twoSided l) = .ok (.twoSided a b))
    (ha : gt a (zero : F) = false) (hb : gt b (zero : F) = false) :
    h.ciMean crit (.twoSided l) = liftI (Interval.new (posInf : F) (posInf : F)) := by
  rw [Harmonic.ciMean_twoSided_recipBound crit h l a b hJ, Harmonic.recipBound_of_not_pos b hb,
    Harmonic.recipBound_of_not_pos a ha]

/-- every carrier, two-sided, both ends strictly positive: `Interval::new(1/b, 1/a)` -/
theorem Harmonic.ciMean_twoSided_of_pos (crit : Crit W) (h : Harmonic F) (l : W) (a b : F)
    (hJ : h.recip.ciMean crit (.twoSided l) = .ok (.twoSided a b))
    (ha : gt a (zero : F) = true) (hb : gt b (zero : F) = true) :
    h.ciMean crit (.twoSided l) = liftI (Interval.new (div one b) (div one a)) := by
  rw [Harmonic.ciMean_twoSided_recipBound crit h l a b hJ, Harmonic.recipBound_of_pos b hb,
    Harmonic.recipBound_of_pos a ha]

/-- every carrier, upper one-sided, `b > 0`: `[1/b, +∞)` -/
theorem Harmonic.ciMean_upper_of_pos (crit : Crit W) (h : Harmonic F) (l : W) (b : F)
    (hJ : h.recip.ciMean crit (.lower l) = .ok (.lower b)) (hb : gt b (zero : F) = true) :
    h.ciMean crit (.upper l) = .ok (.upper (div one b)) := by
  rw [Harmonic.ciMean_upper_recipBound crit h l b hJ, Harmonic.recipBound_of_pos b hb]

/-- every carrier, upper one-sided, `b` not strictly positive: the lower bound is `+∞` -/
theorem Harmonic.ciMean_upper_not_pos (crit : Crit W) (h : Harmonic F) (l : W) (b : F)
    (hJ : h.recip.ciMean crit (.lower l) = .ok (.lower b)) (hb : gt b (zero : F) = false) :
    h.ciMean crit (.upper l) = .ok (.upper (posInf : F)) := by
  rw [Harmonic.ciMean_upper_recipBound crit h l b hJ, Harmonic.recipBound_of_not_pos b hb]

/-- every carrier, lower one-sided, `a > 0`: `(-∞, 1/a]` -/
theorem Harmonic.ciMean_lower_of_pos (crit : Crit W) (h : Harmonic F) (l : W) (a : F)
    (hJ : h.recip.ciMean crit (.upper l) = .ok (.upper a)) (ha : gt a (zero : F) = true) :
    h.ciMean crit (.lower l) = .ok (.lower (div one a)) := by
  rw [Harmonic.ciMean_lower_recipBound crit h l a hJ, Harmonic.recipBound_of_pos a ha]

/-- every carrier, lower one-sided, `a` not strictly positive: the upper bound is `+∞` -/
theorem Harmonic.ciMean_lower_not_pos (crit : Crit W) (h : Harmonic F) (l : W) (a : F)
    (hJ : h.recip.ciMean crit (.upper l) = .ok (.upper a)) (ha : gt a (zero : F) = false) :
    h.ciMean crit (.lower l) = .ok (.lower (posInf : F)) := by
  rw [Harmonic.ciMean_lower_recipBound crit h l a hJ, Harmonic.recipBound_of_not_pos a ha]

/-- `Harmonic::ci` runs `ci_mean` on the state built from the data (every carrier) -/
theorem Harmonic.ci_of_fromList (crit : Crit W) (conf : Confidence W) (xs : List F)
    (h : Harmonic F) (hf : (Harmonic.fromList xs : Outcome (Err W) (Harmonic F)) = .ok h) :
    Harmonic.ci crit conf xs = h.ciMean crit conf := by
  unfold Harmonic.ci
  rw [hf, Outcome.bind_ok]

end recipBound

theorem Rex.gt_zero_of_pos (r : Rex) (h : 0 < r.val) : gt r (zero : Rex) = true := by
  rw [RR.gt_iff]; exact h

theorem Rex.gt_zero_of_not_pos (r : Rex) (h : r.val ≤ 0) : gt r (zero : Rex) = false := by
  rw [Bool.eq_false_iff, Ne, RR.gt_iff]
  exact not_lt.mpr h

/-- at exact arithmetic the reciprocal of a strictly positive bound is the real `1/r` -/
theorem Harmonic.recipBound_rex_pos (r : Rex) (h : 0 < r.val) :
    Harmonic.recipBound r = (⟨1 / r.val⟩ : Rex) := by
  rw [Harmonic.recipBound_of_pos r (Rex.gt_zero_of_pos r h)]
  apply RR.ext'
  simp

/-- two-sided with a positive reciprocal-space lower bound: `[1/b, 1/a]` -/
theorem Harmonic.ciMean_twoSided_pos (crit : Crit Rex) (h : Harmonic Rex) (l a b : Rex)
    (hJ : h.recip.ciMean crit (.twoSided l) = .ok (.twoSided a b)) (ha : 0 < a.val) :
    h.ciMean crit (.twoSided l) = .ok (.twoSided (⟨1 / b.val⟩ : Rex) ⟨1 / a.val⟩) := by
  obtain ⟨lo, hi, hI, hg⟩ := Arith.ciMean_ok_kind crit h.recip (.twoSided l) _ hJ
  injection hI with h1 h2
  subst h1 h2
  have hle : a.val ≤ b.val := by
    rw [Bool.eq_false_iff, Ne, RR.gt_iff] at hg
    exact not_lt.mp hg
  rw [Harmonic.ciMean_twoSided_recipBound crit h l a b hJ,
    Harmonic.recipBound_rex_pos a ha, Harmonic.recipBound_rex_pos b (lt_of_lt_of_le ha hle)]
  have : gt (⟨1 / b.val⟩ : Rex) (⟨1 / a.val⟩ : Rex) = false := by
    rw [Bool.eq_false_iff, Ne, RR.gt_iff]
    simp only [not_lt]
    exact one_div_le_one_div_of_le ha hle
  simp only [Interval.new, this, liftI, Bool.false_eq_true, if_false]

/-- upper one-sided: the flipped (lower) reciprocal-space interval `(-∞, b]` with `0 < b` gives
    `[1/b, +∞)` -/
theorem Harmonic.ciMean_upper (crit : Crit Rex) (h : Harmonic Rex) (l b : Rex)
    (hJ : h.recip.ciMean crit (.lower l) = .ok (.lower b)) (hb : 0 < b.val) :
    h.ciMean crit (.upper l) = .ok (.upper (⟨1 / b.val⟩ : Rex)) := by
  rw [Harmonic.ciMean_upper_recipBound crit h l b hJ, Harmonic.recipBound_rex_pos b hb]

/-- lower one-sided: the flipped (upper) reciprocal-space interval `[a, +∞)` with `0 < a` gives
    `(-∞, 1/a]` -/
theorem Harmonic.ciMean_lower (crit : Crit Rex) (h : Harmonic Rex) (l a : Rex)
    (hJ : h.recip.ciMean crit (.upper l) = .ok (.upper a)) (ha : 0 < a.val) :
    h.ciMean crit (.lower l) = .ok (.lower (⟨1 / a.val⟩ : Rex)) := by
  rw [Harmonic.ciMean_lower_recipBound crit h l a hJ, Harmonic.recipBound_rex_pos a ha]

/-- errors and panics of the reciprocal-space interval pass through -/
theorem Harmonic.ciMean_not_ok (crit : Crit Rex) (h : Harmonic Rex) (conf : Confidence Rex) :
    (∀ e, h.recip.ciMean crit conf.flipped = .err e → h.ciMean crit conf = .err e) ∧
    (∀ t, h.recip.ciMean crit conf.flipped = .panic t → h.ciMean crit conf = .panic t) := by
  constructor
  · intro e he; unfold Harmonic.ciMean; rw [he]; rfl
  · intro t ht; unfold Harmonic.ciMean; rw [ht]; rfl

/-! ### a concrete reciprocal-space sample for the non-vacuity examples: reciprocals `1, 3` -/

theorem smean_one_three : smean [1, 3] = 2 := by unfold smean; norm_num

/-- `s/√n = √2/√2 = 1`, so with a constant critical value `c` the half-width is `c` -/
theorem halfWidth_one_three (c : ℝ) (conf : Confidence Rex) :
    halfWidth (constCrit c) conf [1, 3] = c := by
  have h2 : ssd [1, 3] = Real.sqrt 2 := by
    unfold ssd svar sdev2 smean
    norm_num
  unfold halfWidth critVal constCrit
  rw [h2]
  simp only [List.length_cons, List.length_nil]
  norm_num

/-- the arithmetic two-sided interval of the reciprocals of `1, 1/3` with constant critical value
    `c ≥ 0` is `[2 - c, 2 + c]` -/
theorem Arith.ci_recip_one_third (c : ℝ) (hc : 0 ≤ c) (l : Rex) (h0 : 0 < l.val) (h1 : l.val < 1) :
    Arith.ci (constCrit c) (Confidence.twoSided l).flipped
      (([(1 : ℝ), 1 / 3].map (fun x => 1 / x)).map inj : List Rex) =
      .ok (.twoSided (⟨2 - c⟩ : Rex) ⟨2 + c⟩) := by
  have hl : [(1 : ℝ), 1 / 3].map (fun x => 1 / x) = [1, 3] := by norm_num
  rw [hl, show (Confidence.twoSided l).flipped = .twoSided l from rfl,
    Arith.ci_rex _ _ _ (by simp) (probOk_quantile (.twoSided l) h0 h1), halfWidth_one_three,
    smean_one_three]
  have : gt (⟨2 - c⟩ : Rex) (⟨2 + c⟩ : Rex) = false := by
    rw [Bool.eq_false_iff, Ne, RR.gt_iff]
    simp only [not_lt]
    linarith
  simp only [intervalOfKind, Interval.new, this, liftI, Bool.false_eq_true, if_false]

theorem natCast_pred (n : ℕ) (hn : 1 ≤ n) : ((n - 1 : ℕ) : ℝ) = (n : ℝ) - 1 := by
  rw [Nat.cast_sub hn]; simp

end StatsCI.MeanLemmas
