/-
  StatsCI.Lemmas.KahanAccum — helper lemmas for C09: the observable part of an `Arith` state
  determines every query; exact state of a history at `Rex`; count-like states.
-/
import StatsCI.Lemmas.Kahan
import Mathlib.Data.List.Count

namespace StatsCI
namespace KahanLemmas

/-! ### The queries of `Arith` depend on `(sum.value, sumSq.value, count)` only -/

section obs
variable {F W : Type} [Scalar F]

theorem arith_obs_congr (a b : Arith F) (h1 : a.sum.value = b.sum.value)
    (h2 : a.sumSq.value = b.sumSq.value) (h3 : a.count = b.count) :
    a.sampleCount = b.sampleCount ∧ a.mean = b.mean ∧ a.variance = b.variance ∧
    a.variance? = b.variance? ∧ a.stdDev = b.stdDev ∧ a.sem = b.sem := by
  have hm : a.mean = b.mean := by simp only [Arith.mean, h1, h3]
  have hv : a.variance = b.variance := by simp only [Arith.variance, hm, h1, h2, h3]
  have hv? : a.variance? = b.variance? := by simp only [Arith.variance?, hm, h1, h2, h3]
  have hsd : a.stdDev = b.stdDev := by simp only [Arith.stdDev, hv]
  have hsem : a.sem = b.sem := by simp only [Arith.sem, hsd, h3]
  exact ⟨h3, hm, hv, hv?, hsd, hsem⟩

variable [Scalar W] [Widen F W]

theorem arith_ci_congr (a b : Arith F) (h1 : a.sum.value = b.sum.value)
    (h2 : a.sumSq.value = b.sumSq.value) (h3 : a.count = b.count)
    (crit : Crit W) (conf : Confidence W) :
    Arith.ciMean crit a conf = Arith.ciMean crit b conf := by
  obtain ⟨_, hm, _, _, hsd, _⟩ := arith_obs_congr a b h1 h2 h3
  have hp : (Arith.ciPrep a : Outcome (Err W) (Arith.Prep W)) = Arith.ciPrep b := by
    simp only [Arith.ciPrep, hm, hsd, h3]
  simp only [Arith.ciMean, hp]

end obs

/-! ### Exact state of a history at `Rex` -/

theorem sq_inj_comp :
    ((fun x : Rex => NumOps.mul x x) ∘ (inj : ℝ → Rex)) = (inj : ℝ → Rex) ∘ (fun x : ℝ => x * x) := by
  funext x
  apply RR.ext'
  simp

theorem evalA_exact (p : Prog ℝ) :
    ((p.map inj).evalA : Arith Rex).sum.value.val = p.data.sum ∧
    ((p.map inj).evalA : Arith Rex).sumSq.value.val = (p.data.map fun x => x * x).sum ∧
    ((p.map inj).evalA : Arith Rex).count = p.data.length ∧
    ((p.map inj).evalA : Arith Rex).sum.comp.val = 0 ∧
    ((p.map inj).evalA : Arith Rex).sumSq.comp.val = 0 := by
  obtain ⟨h1, h2, h3⟩ := evalA_fields ((p.map inj : Prog Rex))
  obtain ⟨e1, e2⟩ := evalK_exact p
  have hsq : ((p.map inj : Prog Rex).map fun x => NumOps.mul x x)
      = (p.map fun x : ℝ => x * x).map inj := by
    rw [map_map, map_map]; exact congrArg (fun f => p.map f) sq_inj_comp
  obtain ⟨f1, f2⟩ := evalK_exact (p.map fun x : ℝ => x * x)
  rw [data_map] at f1
  refine ⟨?_, ?_, ?_, ?_, ?_⟩
  · rw [h1, value_val, e1, e2]; simp
  · rw [h2, hsq, value_val, f1, f2]; simp
  · rw [h3, data_map, List.length_map]
  · rw [h1, e2]
  · rw [h2, hsq, f2]

/-! ### Count-like states -/

open Proportion in
theorem stats_extend_eq (bs : List Bool) (s : Stats) :
    s.extend bs = ⟨s.population + bs.length, s.successes + bs.count true⟩ := by
  induction bs generalizing s with
  | nil => simp [Stats.extend]
  | cons b bs ih =>
    have : s.extend (b :: bs) = (s.push b).extend bs := rfl
    rw [this, ih]
    cases b <;> simp [Stats.push, Stats.addSuccess, Stats.addFailure] <;> omega

open Proportion in
theorem evalP_eq (p : Prog Bool) : p.evalP = ⟨p.data.length, p.data.count true⟩ := by
  induction p with
  | empty => rfl
  | append p b ih =>
    simp only [Prog.evalP, Prog.data, ih]
    cases b <;> simp [Stats.push, Stats.addSuccess, Stats.addFailure]
  | extend p bs ih =>
    simp only [Prog.evalP, Prog.data, ih, stats_extend_eq]
    simp
  | merge l r ihl ihr =>
    simp only [Prog.evalP, Prog.data, ihl, ihr, Stats.merge]
    simp

theorem evalCount_eq (p : Prog Unit) : p.evalCount = p.data.length := by
  induction p with
  | empty => rfl
  | append p b ih => simp [Prog.evalCount, Prog.data, ih]
  | extend p bs ih => simp [Prog.evalCount, Prog.data, ih]
  | merge l r ihl ihr => simp [Prog.evalCount, Prog.data, ihl, ihr]

end KahanLemmas
end StatsCI
