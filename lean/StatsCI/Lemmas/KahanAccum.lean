/-
  StatsCI.Lemmas.KahanAccum — helper lemmas for C09: the observable part of an `Arith` state
  determines every query; exact state of a history at `Rex`; count-like states.
-/
import StatsCI.Lemmas.Kahan
import Mathlib.Data.List.Count

namespace StatsCI
namespace KahanLemmas

/-! ### The queries of `Arith` depend on `(sum.value, sumSq.value, count)` only -/

section obs
variable {F W : Type} [Scalar F]

theorem arith_obs_congr (a b : Arith F) (h1 : a.sum.value = b.sum.value)
    (h2 : a.sumSq.value = b.sumSq.value) (h3 : a.count = b.count) :
    a.sampleCount = b.sampleCount ∧ a.mean = b.mean ∧ a.variance = b.variance ∧
    a.variance? = b.variance? ∧ a.stdDev = b.stdDev ∧ a.sem = b.sem := by
  have hm : a.mean = b.mean := by simp only [Arith.mean, h1, h3]
  have hv : a.variance = b.variance := by simp only [Arith.variance, hm, h1, h2, h3]
  have hv? : a.variance? = b.variance? := by simp only [Arith.variance?, hm, h1, h2, h3]
  have hsd : a.stdDev = b.stdDev := by simp only [Arith.stdDev, hv]
  have hsem : a.sem = b.sem := by simp only [Arith.sem, hsd, h3]
  exact ⟨h3, hm, hv, hv?, hsd, hsem⟩

variable [Scalar W] [Widen F W]

theorem arith_ci_congr (a b : Arith F) (h1 : a.sum.value = b.sum.value)
    (h2 : a.sumSq.value = b.sumSq.value) (h3 : a.count = b.count)
    (crit : Crit W) (conf : Confidence W) :
    Arith.ciMean crit a conf = Arith.ciMean crit b conf := by
  obtain ⟨_, hm, _, _, hsd, _⟩ := arith_obs_congr a b h1 h2 h3
  have hp : (Arith.ciPrep a : Outcome (Err W) (Arith.Prep W)) = Arith.ciPrep b := by
    simp only [Arith.ciPrep, hm, hsd, h3]
  simp only [Arith.ciMean, hp]

end obs

/-! ### Exact state of a history at `Rex` -/

theorem sq_inj_comp :
    ((fun x : Rex => NumOps.mul x x) ∘ (inj : ℝ → Rex)) = (inj : ℝ → Rex) ∘ (fun x : ℝ => x * x) := by
  funext x
  apply RR.ext'
  simp

theorem evalA_exact (p : Prog ℝ) :
    ((p.map inj).evalA : Arith Rex).sum.value.val = p.data.sum ∧
    ((p.map inj).evalA : Arith Rex).sumSq.value.val = (p.data.map fun x => x * x).sum ∧
    ((p.map inj).evalA : Arith Rex).count = p.data.length ∧
    ((p.map inj).evalA : Arith Rex).sum.comp.val = 0 ∧
    ((p.map inj).evalA : Arith Rex).sumSq.comp.val = 0 := by
  obtain ⟨h1, h2, h3⟩ := evalA_fields ((p.map inj : Prog Rex))
  obtain ⟨e1, e2⟩ := evalK_exact p
  have hsq : ((p.map inj : Prog Rex).map fun x => NumOps.mul x x)
      = (p.map fun x : ℝ => x * x).map inj := by
    rw [map_map, map_map]; exact congrArg (fun f => p.map f) sq_inj_comp
  obtain ⟨f1, f2⟩ := evalK_exact (p.map fun x : ℝ => x * x)
  rw [data_map] at f1
  refine ⟨?_, ?_, ?_, ?_, ?_⟩
  · rw [h1, value_val, e1, e2]; simp
  · rw [h2, hsq, value_val, f1, f2]; simp
  · rw [h3, data_map, List.length_map]
  · rw [h1, e2]
  · rw [h2, hsq, f2]

/-! ### Count-like states -/

open Proportion in
theorem stats_extend_eq (bs : List Bool) (s : Stats) :
    s.extend bs = ⟨s.population + bs.length, s.successes + bs.count true⟩ := by
  induction bs generalizing s with
  | nil => simp [Stats.extend]
  | cons b bs ih =>
    have : s.extend (b :: bs) = (s.push b).extend bs := rfl
    rw [this, ih]
    cases b <;> simp [Stats.push, Stats.addSuccess, Stats.addFailure] <;> omega

open Proportion in
theorem evalP_eq (p : Prog Bool) : p.evalP = ⟨p.data.length, p.data.count true⟩ := by
  induction p with
  | empty => rfl
  | append p b ih =>
    simp only [Prog.evalP, Prog.data, ih]
    cases b <;> simp [Stats.push, Stats.addSuccess, Stats.addFailure]
  | extend p bs ih =>
    simp only [Prog.evalP, Prog.data, ih, stats_extend_eq]
    simp
  | merge l r ihl ihr =>
    simp only [Prog.evalP, Prog.data, ihl, ihr, Stats.merge]
    simp

theorem evalCount_eq (p : Prog Unit) : p.evalCount = p.data.length := by
  induction p with
  | empty => rfl
  | append p b ih => simp [Prog.evalCount, Prog.data, ih]
  | extend p bs ih => simp [Prog.evalCount, Prog.data, ih]
  | merge l r ihl ihr => simp [Prog.evalCount, Prog.data, ihl, ihr]

/-! ### Merging with the empty register -/

section neutral
variable {fl : ℝ → ℝ}

theorem merge_empty_eq (k : Kahan (RR fl)) :
    k.merge Kahan.empty = (k.add NumOps.zero).add NumOps.zero := rfl

theorem arith_merge_empty_count {F : Type} [Scalar F] (a : Arith F) :
    (a.merge Arith.empty).count = a.count ∧ (Arith.empty.merge a).count = a.count := by
  simp [Arith.merge, Arith.empty]

/-- exact arithmetic: the empty register is left-neutral for every register, and right-neutral
    up to the sign of the compensation -/
theorem merge_empty_exact (k : Kahan Rex) :
    ((Kahan.empty : Kahan Rex).merge k).value.val = k.value.val ∧
    (k.merge Kahan.empty).value.val = k.sum.val - k.comp.val := by
  obtain ⟨h1, h2⟩ := merge_exact (Kahan.empty : Kahan Rex) k
  obtain ⟨h3, h4⟩ := merge_exact k (Kahan.empty : Kahan Rex)
  constructor
  · rw [value_val, value_val, h1, h2]; simp
  · rw [value_val, h3, h4]; simp

/-- one model step fed with `0` from an *arbitrary* register (no invariant assumed) -/
theorem add_zero_crude {u : ℝ} (hu : 0 ≤ u) (hu' : u ≤ 1 / 64)
    (hfl : ∀ x, |fl x - x| ≤ u * |x|) (k : Kahan (RR fl)) :
    |(k.add NumOps.zero).sum.val - k.sum.val|
        ≤ |k.comp.val| + u * |k.sum.val| + 17 / 8 * (u * |k.comp.val|) ∧
    |(k.add NumOps.zero).comp.val| ≤ 17 / 16 * (u * |k.sum.val|) + 17 / 8 * (u * |k.comp.val|) ∧
    |((k.add NumOps.zero).sum.val - (k.add NumOps.zero).comp.val) - (k.sum.val - k.comp.val)|
        ≤ 1 / 16 * (u * |k.sum.val|) + 17 / 8 * (u * |k.comp.val|) := by
  have hdrift := step_drift hfl k (NumOps.zero : RR fl)
  rw [add_sum_val, add_comp_val] at hdrift ⊢
  simp only [RR.zero_val, add_zero] at hdrift ⊢
  set s := k.sum.val
  set c := k.comp.val
  set a := 0 - c with ha
  set y := fl a with hy
  set t := fl (s + y) with ht
  set d := fl (t - s) with hd
  set c' := fl (d - y) with hc'
  have haa : |a| = |c| := by rw [ha, zero_sub, abs_neg]
  rw [haa] at hdrift
  have hS0 := abs_nonneg s
  have hC0 := abs_nonneg c
  have hP0 : 0 ≤ u * |s| := mul_nonneg hu hS0
  have hQ0 : 0 ≤ u * |c| := mul_nonneg hu hC0
  have fP : u * (u * |s|) ≤ (u * |s|) / 64 := by
    have := mul_le_mul_of_nonneg_right hu' hP0; linarith
  have fQ : u * (u * |c|) ≤ (u * |c|) / 64 := by
    have := mul_le_mul_of_nonneg_right hu' hQ0; linarith
  have gP : 0 ≤ u * (u * |s|) := mul_nonneg hu hP0
  have gQ : 0 ≤ u * (u * |c|) := mul_nonneg hu hQ0
  have hyb : |y| ≤ (1 + u) * |a| := abs_fl_le hfl a
  rw [haa] at hyb
  have hr : |t - (s + y)| ≤ u * |s + y| := hfl (s + y)
  have hsy : |s + y| ≤ |s| + |y| := abs_add_le s y
  have hts : |t - s| ≤ |y| + |t - (s + y)| := by
    have e : t - s = y + (t - (s + y)) := by ring
    rw [e]; exact abs_add_le _ _
  have hdts : |d - (t - s)| ≤ u * |t - s| := hfl (t - s)
  have hdy : |d - y| ≤ |t - (s + y)| + |d - (t - s)| := by
    have e : d - y = (t - (s + y)) + (d - (t - s)) := by ring
    rw [e]; exact abs_add_le _ _
  have hc'b : |c'| ≤ (1 + u) * |d - y| := abs_fl_le hfl (d - y)
  have hY1 : |y| ≤ |c| + u * |c| := by linarith
  have hR1 : |t - (s + y)| ≤ u * |s| + (65 / 64) * (u * |c|) := by
    have h1 : u * |s + y| ≤ u * (|s| + (|c| + u * |c|)) :=
      mul_le_mul_of_nonneg_left (by linarith) hu
    linarith
  have hTS1 : |t - s| ≤ |c| + u * |s| + (129 / 64) * (u * |c|) := by linarith
  have hUTS : u * |t - s| ≤ u * (|c| + u * |s| + (129 / 64) * (u * |c|)) :=
    mul_le_mul_of_nonneg_left hTS1 hu
  have hDY1 : |d - y| ≤ (65 / 64) * (u * |s|) + (2 + 193 / 4096) * (u * |c|) := by linarith
  have hUDY : u * |d - y| ≤ u * ((65 / 64) * (u * |s|) + (2 + 193 / 4096) * (u * |c|)) :=
    mul_le_mul_of_nonneg_left hDY1 hu
  refine ⟨by linarith, ?_, ?_⟩
  · have h1 : (1 + u) * |d - y| = |d - y| + u * |d - y| := by ring
    linarith
  · linarith

/-- **right-merging the empty register, arbitrary rounding**: `value` moves by at most
    `2|c| + 5u|s| + 7u|c|` -/
theorem merge_empty_value {u : ℝ} (hu : 0 ≤ u) (hu' : u ≤ 1 / 64)
    (hfl : ∀ x, |fl x - x| ≤ u * |x|) (k : Kahan (RR fl)) :
    |(k.merge Kahan.empty).value.val - k.value.val|
      ≤ 2 * |k.comp.val| + 5 * (u * |k.sum.val|) + 7 * (u * |k.comp.val|) := by
  rw [merge_empty_eq]
  obtain ⟨A1, B1, C1⟩ := add_zero_crude hu hu' hfl k
  obtain ⟨A2, B2, C2⟩ := add_zero_crude hu hu' hfl (k.add NumOps.zero)
  rw [value_val, value_val]
  set k1 := k.add NumOps.zero
  set k2 := k1.add NumOps.zero
  set s := k.sum.val
  set c := k.comp.val
  set t1 := k1.sum.val
  set c1 := k1.comp.val
  set t2 := k2.sum.val
  set c2 := k2.comp.val
  have hS0 := abs_nonneg s
  have hC0 := abs_nonneg c
  have hP0 : 0 ≤ u * |s| := mul_nonneg hu hS0
  have hQ0 : 0 ≤ u * |c| := mul_nonneg hu hC0
  have fP : u * (u * |s|) ≤ (u * |s|) / 64 := by
    have := mul_le_mul_of_nonneg_right hu' hP0; linarith
  have fQ : u * (u * |c|) ≤ (u * |c|) / 64 := by
    have := mul_le_mul_of_nonneg_right hu' hQ0; linarith
  have gP : 0 ≤ u * (u * |s|) := mul_nonneg hu hP0
  have gQ : 0 ≤ u * (u * |c|) := mul_nonneg hu hQ0
  -- magnitudes after the first step
  have ht1 : |t1| ≤ |s| + |t1 - s| := by
    have e : t1 = s + (t1 - s) := by ring
    calc |t1| = |s + (t1 - s)| := by rw [← e]
      _ ≤ |s| + |t1 - s| := abs_add_le _ _
  have hP2 : u * |t1| ≤ u * (|s| + (|c| + u * |s| + 17 / 8 * (u * |c|))) :=
    mul_le_mul_of_nonneg_left (by linarith) hu
  have hQ2 : u * |c1| ≤ u * (17 / 16 * (u * |s|) + 17 / 8 * (u * |c|)) :=
    mul_le_mul_of_nonneg_left B1 hu
  -- magnitudes after the second step
  have ht2 : |t2 + c2| ≤ |t1| + |t2 - t1| + |c2| := by
    have e : t2 + c2 = t1 + (t2 - t1) + c2 := by ring
    calc |t2 + c2| = |t1 + (t2 - t1) + c2| := by rw [← e]
      _ ≤ |t1 + (t2 - t1)| + |c2| := abs_add_le _ _
      _ ≤ |t1| + |t2 - t1| + |c2| := by have := abs_add_le t1 (t2 - t1); linarith
  have hT2 : |t2 + c2| ≤ |s| + |c| + 5 * (u * |s|) + 7 * (u * |c|) := by linarith
  have hUT2 : u * |t2 + c2| ≤ u * (|s| + |c| + 5 * (u * |s|) + 7 * (u * |c|)) :=
    mul_le_mul_of_nonneg_left hT2 hu
  have hv' : |fl (t2 + c2) - (t2 + c2)| ≤ u * |t2 + c2| := hfl _
  have hv : |fl (s + c) - (s + c)| ≤ u * |s + c| := hfl _
  have hsc : u * |s + c| ≤ u * (|s| + |c|) := mul_le_mul_of_nonneg_left (abs_add_le s c) hu
  have hsplit : fl (t2 + c2) - fl (s + c)
      = (fl (t2 + c2) - (t2 + c2)) + ((t2 - c2) - (t1 - c1)) + ((t1 - c1) - (s - c))
        + 2 * c2 + (-(2 * c)) + (-(fl (s + c) - (s + c))) := by ring
  have h2c2 : |2 * c2| = 2 * |c2| := by rw [abs_mul]; simp
  have h2c : |-(2 * c)| = 2 * |c| := by rw [abs_neg, abs_mul]; simp
  have tri : |fl (t2 + c2) - fl (s + c)| ≤ |fl (t2 + c2) - (t2 + c2)| + |(t2 - c2) - (t1 - c1)|
      + |(t1 - c1) - (s - c)| + 2 * |c2| + 2 * |c| + |fl (s + c) - (s + c)| := by
    rw [hsplit]
    have a1 := abs_add_le ((fl (t2 + c2) - (t2 + c2)) + ((t2 - c2) - (t1 - c1))
      + ((t1 - c1) - (s - c)) + 2 * c2 + (-(2 * c))) (-(fl (s + c) - (s + c)))
    have a2 := abs_add_le ((fl (t2 + c2) - (t2 + c2)) + ((t2 - c2) - (t1 - c1))
      + ((t1 - c1) - (s - c)) + 2 * c2) (-(2 * c))
    have a3 := abs_add_le ((fl (t2 + c2) - (t2 + c2)) + ((t2 - c2) - (t1 - c1))
      + ((t1 - c1) - (s - c))) (2 * c2)
    have a4 := abs_add_le ((fl (t2 + c2) - (t2 + c2)) + ((t2 - c2) - (t1 - c1)))
      ((t1 - c1) - (s - c))
    have a5 := abs_add_le (fl (t2 + c2) - (t2 + c2)) ((t2 - c2) - (t1 - c1))
    rw [abs_neg] at a1
    rw [h2c] at a2
    rw [h2c2] at a3
    linarith
  linarith

end neutral

end KahanLemmas
end StatsCI
