/-
  StatsCI.Lemmas.MeanLogRound — helper lemmas for C05R: forward rounding-error bounds for the
  geometric and harmonic mean intervals of the model at the carrier `RR fl`.

  * the bridge: at `RR fl` the log-space / reciprocal-space state is the `Arith` state of the
    *rounded* transformed data `fl (ln x)` / `fl (1/x)`;
  * perturbation of the exact statistics (`smean`, `ssd`, `svar`, `Σ|y|`, `Σy²`) under an
    entrywise relative perturbation `|ỹ − y| ≤ u·|y|` (Cauchy–Schwarz and Minkowski on lists);
  * the combination with `MeanRound.bounds_bound_of_le`;
  * the back-transforms `exp` and `1/·`.
-/
import StatsCI.Lemmas.MeanRound
import StatsCI.Lemmas.MeanLog

set_option linter.unusedSectionVars false
set_option linter.unusedVariables false

namespace StatsCI.MeanLogRound
open StatsCI KahanLemmas MeanLemmas MeanRound NumOps Scalar

variable {fl : ℝ → ℝ} {u : ℝ}

/-! ## 1. the bridge: the state built at `RR fl` -/

/-- the rounded logarithms `fl (ln x)` the log-space state is fed at `RR fl` -/
noncomputable def flLogs (fl : ℝ → ℝ) (xs : List ℝ) : List ℝ := (xs.map Real.log).map fl

/-- the rounded reciprocals `fl (1/x)` the reciprocal-space state is fed at `RR fl` -/
noncomputable def flRecips (fl : ℝ → ℝ) (xs : List ℝ) : List ℝ := (xs.map (fun x => 1 / x)).map fl

theorem flLogs_length (xs : List ℝ) : (flLogs fl xs).length = xs.length := by simp [flLogs]
theorem flRecips_length (xs : List ℝ) : (flRecips fl xs).length = xs.length := by simp [flRecips]

theorem map_inj_ln_fl (xs : List ℝ) :
    ((xs.map inj : List (RR fl)).map Scalar.ln) = (flLogs fl xs).map inj := by
  unfold flLogs
  rw [List.map_map, List.map_map, List.map_map]
  apply List.map_congr_left
  intro x _
  apply RR.ext'
  simp

theorem map_inj_recip_fl (xs : List ℝ) :
    ((xs.map inj : List (RR fl)).map (fun x => div one x)) = (flRecips fl xs).map inj := by
  unfold flRecips
  rw [List.map_map, List.map_map, List.map_map]
  apply List.map_congr_left
  intro x _
  apply RR.ext'
  simp

theorem accepted_of_pos_fl (xs : List ℝ) (hpos : ∀ x ∈ xs, 0 < x) :
    ∀ y ∈ (xs.map inj : List (RR fl)), le y (zero : RR fl) = false := by
  intro y hy
  simp only [List.mem_map] at hy
  obtain ⟨x, hx, rfl⟩ := hy
  rw [Bool.eq_false_iff, Ne, RR.le_iff]
  simpa using hpos x hx

/-- positive data are all accepted at `RR fl` (the comparison `x <= 0` is not rounded): the
    log-space state is the arithmetic state of the rounded logarithms -/
theorem Geometric.fromList_fl (xs : List ℝ) (hpos : ∀ x ∈ xs, 0 < x) :
    (Geometric.fromList (xs.map inj) : Outcome (Err (RR fl)) (Geometric (RR fl))) =
      .ok ⟨Arith.fromList ((flLogs fl xs).map inj)⟩ := by
  unfold Geometric.fromList
  rw [Geometric.extend_accepted _ _ (accepted_of_pos_fl xs hpos), map_inj_ln_fl]
  rfl

/-- positive data are all accepted at `RR fl`: the reciprocal-space state is the arithmetic state
    of the rounded reciprocals -/
theorem Harmonic.fromList_fl (xs : List ℝ) (hpos : ∀ x ∈ xs, 0 < x) :
    (Harmonic.fromList (xs.map inj) : Outcome (Err (RR fl)) (Harmonic (RR fl))) =
      .ok ⟨Arith.fromList ((flRecips fl xs).map inj)⟩ := by
  unfold Harmonic.fromList
  rw [Harmonic.extend_accepted _ _ (accepted_of_pos_fl xs hpos), map_inj_recip_fl]
  rfl

/-! ## 2. entrywise relative perturbation of a list -/

/-- `ỹᵢ` is within relative distance `u` of `yᵢ`, entry by entry (so the lengths agree) -/
def RelClose (u : ℝ) (ys yt : List ℝ) : Prop :=
  List.Forall₂ (fun y y' => |y' - y| ≤ u * |y|) ys yt

theorem RelClose.length_eq {ys yt : List ℝ} (h : RelClose u ys yt) : ys.length = yt.length :=
  List.Forall₂.length_eq h

/-- rounding every entry is such a perturbation -/
theorem relClose_map_fl (hfl : ∀ x, |fl x - x| ≤ u * |x|) (ys : List ℝ) :
    RelClose u ys (ys.map fl) := by
  induction ys with
  | nil => exact List.Forall₂.nil
  | cons y ys ih => exact List.Forall₂.cons (hfl y) ih

theorem relClose_flLogs (hfl : ∀ x, |fl x - x| ≤ u * |x|) (xs : List ℝ) :
    RelClose u (xs.map Real.log) (flLogs fl xs) := relClose_map_fl hfl _

theorem relClose_flRecips (hfl : ∀ x, |fl x - x| ≤ u * |x|) (xs : List ℝ) :
    RelClose u (xs.map (fun x => 1 / x)) (flRecips fl xs) := relClose_map_fl hfl _

/-- a perturbed pair of lists is the pair of projections of one list of pairs -/
theorem RelClose.exists_zip {ys yt : List ℝ} (h : RelClose u ys yt) :
    ∃ l : List (ℝ × ℝ), ys = l.map Prod.fst ∧ yt = l.map Prod.snd ∧
      ∀ p ∈ l, |p.2 - p.1| ≤ u * |p.1| := by
  induction h with
  | nil => exact ⟨[], rfl, rfl, by simp⟩
  | @cons a b as bs hab _ ih =>
    obtain ⟨l, h1, h2, h3⟩ := ih
    refine ⟨(a, b) :: l, by simp [h1], by simp [h2], ?_⟩
    intro p hp
    simp only [List.mem_cons] at hp
    rcases hp with rfl | hp
    · exact hab
    · exact h3 p hp

theorem RelClose.sum {ys yt : List ℝ} (h : RelClose u ys yt) :
    |yt.sum - ys.sum| ≤ u * sumAbs ys := by
  induction h with
  | nil => simp
  | @cons a b as bs hab _ ih =>
    simp only [List.sum_cons, sumAbs_cons]
    have e : b + bs.sum - (a + as.sum) = (b - a) + (bs.sum - as.sum) := by ring
    rw [e]
    have := abs_add_le (b - a) (bs.sum - as.sum)
    have e2 : u * (|a| + sumAbs as) = u * |a| + u * sumAbs as := by ring
    rw [e2]
    linarith

theorem RelClose.sumAbs_le {ys yt : List ℝ} (h : RelClose u ys yt) :
    sumAbs yt ≤ (1 + u) * sumAbs ys := by
  induction h with
  | nil => simp
  | @cons a b as bs hab _ ih =>
    simp only [sumAbs_cons]
    have h1 : |b| ≤ |a| + u * |a| := by
      have := abs_add_le (b - a) a
      simp only [sub_add_cancel] at this
      linarith
    have e2 : (1 + u) * (|a| + sumAbs as) = |a| + u * |a| + (1 + u) * sumAbs as := by ring
    rw [e2]
    linarith

theorem sumSq_cons (x : ℝ) (xs : List ℝ) : sumSq (x :: xs) = x * x + sumSq xs := by
  simp [sumSq]

theorem RelClose.sumSq_le (hu : 0 ≤ u) {ys yt : List ℝ} (h : RelClose u ys yt) :
    sumSq yt ≤ (1 + u) * (1 + u) * sumSq ys := by
  induction h with
  | nil => simp [sumSq]
  | @cons a b as bs hab _ ih =>
    simp only [sumSq_cons]
    have h1 : |b| ≤ (1 + u) * |a| := by
      have := abs_add_le (b - a) a
      simp only [sub_add_cancel] at this
      linarith
    have h2 : |b| * |b| ≤ ((1 + u) * |a|) * ((1 + u) * |a|) :=
      mul_le_mul h1 h1 (abs_nonneg _) (mul_nonneg (by linarith) (abs_nonneg _))
    rw [abs_mul_abs_self] at h2
    have e : ((1 + u) * |a|) * ((1 + u) * |a|) = (1 + u) * (1 + u) * (a * a) := by
      rw [← abs_mul_abs_self a]; ring
    rw [e] at h2
    have e2 : (1 + u) * (1 + u) * (a * a + sumSq as) =
        (1 + u) * (1 + u) * (a * a) + (1 + u) * (1 + u) * sumSq as := by ring
    rw [e2]
    linarith

/-- **mean**: `|mean ỹ − mean y| ≤ u·Σ|y|/n` -/
theorem RelClose.smean_close {ys yt : List ℝ} (h : RelClose u ys yt) (hn : 1 ≤ ys.length) :
    |smean yt - smean ys| ≤ u * (sumAbs ys / ys.length) := by
  have hN0 : (0 : ℝ) < ys.length := by exact_mod_cast hn
  unfold smean
  rw [← h.length_eq, ← sub_div, abs_div, abs_of_pos hN0, ← mul_div_assoc]
  exact div_le_div_of_nonneg_right h.sum hN0.le

/-! ### Cauchy–Schwarz and Minkowski for sums over a list -/

section cs
variable {α : Type}

theorem sum_map_sq_nonneg (l : List α) (a : α → ℝ) : 0 ≤ (l.map (fun i => a i ^ 2)).sum := by
  apply List.sum_nonneg
  intro y hy
  simp only [List.mem_map] at hy
  obtain ⟨x, _, rfl⟩ := hy
  positivity

/-- Cauchy–Schwarz: `(Σab)² ≤ Σa²·Σb²` -/
theorem cs_list (l : List α) (a b : α → ℝ) :
    ((l.map (fun i => a i * b i)).sum) ^ 2 ≤
      (l.map (fun i => a i ^ 2)).sum * (l.map (fun i => b i ^ 2)).sum := by
  induction l with
  | nil => simp
  | cons i l ih =>
    simp only [List.map_cons, List.sum_cons]
    have hA := sum_map_sq_nonneg l a
    have hB := sum_map_sq_nonneg l b
    set P := (l.map (fun i => a i * b i)).sum
    set A := (l.map (fun i => a i ^ 2)).sum
    set B := (l.map (fun i => b i ^ 2)).sum
    set x := a i
    set y := b i
    have h1 : (2 * (x * y) * P) ^ 2 ≤ (x ^ 2 * B + y ^ 2 * A) ^ 2 := by
      have h0 : (x * y) ^ 2 * P ^ 2 ≤ (x * y) ^ 2 * (A * B) :=
        mul_le_mul_of_nonneg_left ih (sq_nonneg _)
      nlinarith [sq_nonneg (x ^ 2 * B - y ^ 2 * A)]
    have h2 : 0 ≤ x ^ 2 * B + y ^ 2 * A :=
      add_nonneg (mul_nonneg (sq_nonneg _) hB) (mul_nonneg (sq_nonneg _) hA)
    have h3 := (abs_le_of_sq_le_sq' h1 h2).2
    nlinarith

theorem sum_map_sq_add (l : List α) (a b : α → ℝ) :
    (l.map (fun i => (a i + b i) ^ 2)).sum =
      (l.map (fun i => a i ^ 2)).sum + 2 * (l.map (fun i => a i * b i)).sum
        + (l.map (fun i => b i ^ 2)).sum := by
  induction l with
  | nil => simp
  | cons i l ih =>
    simp only [List.map_cons, List.sum_cons, ih]
    ring

/-- Minkowski: `√Σ(a+b)² ≤ √Σa² + √Σb²` -/
theorem minkowski_list (l : List α) (a b : α → ℝ) :
    Real.sqrt ((l.map (fun i => (a i + b i) ^ 2)).sum) ≤
      Real.sqrt ((l.map (fun i => a i ^ 2)).sum) + Real.sqrt ((l.map (fun i => b i ^ 2)).sum) := by
  have hA := sum_map_sq_nonneg l a
  have hB := sum_map_sq_nonneg l b
  have hcs := cs_list l a b
  rw [sum_map_sq_add]
  set P := (l.map (fun i => a i * b i)).sum
  set A := (l.map (fun i => a i ^ 2)).sum
  set B := (l.map (fun i => b i ^ 2)).sum
  have hP : P ≤ Real.sqrt A * Real.sqrt B := by
    have := Real.abs_le_sqrt hcs
    rw [Real.sqrt_mul hA] at this
    exact le_trans (le_abs_self _) this
  rw [Real.sqrt_le_left (add_nonneg (Real.sqrt_nonneg _) (Real.sqrt_nonneg _))]
  have s1 := Real.sq_sqrt hA
  have s2 := Real.sq_sqrt hB
  have e : (Real.sqrt A + Real.sqrt B) ^ 2 =
      Real.sqrt A ^ 2 + 2 * (Real.sqrt A * Real.sqrt B) + Real.sqrt B ^ 2 := by ring
  rw [e, s1, s2]
  linarith

/-- `|√Σa'² − √Σa²| ≤ √Σ(a' − a)²` -/
theorem sqrt_sumsq_sub_le (l : List α) (a a' : α → ℝ) :
    |Real.sqrt ((l.map (fun i => a' i ^ 2)).sum) - Real.sqrt ((l.map (fun i => a i ^ 2)).sum)| ≤
      Real.sqrt ((l.map (fun i => (a' i - a i) ^ 2)).sum) := by
  have m1 := minkowski_list l a (fun i => a' i - a i)
  have m2 := minkowski_list l a' (fun i => a i - a' i)
  have e1 : (fun i => (a i + (a' i - a i)) ^ 2) = fun i => a' i ^ 2 := by
    funext i; ring
  have e2 : (fun i => (a' i + (a i - a' i)) ^ 2) = fun i => a i ^ 2 := by
    funext i; ring
  have e3 : (fun i => (a i - a' i) ^ 2) = fun i => (a' i - a i) ^ 2 := by
    funext i; ring
  rw [e1] at m1
  rw [e2, e3] at m2
  rw [abs_le]
  constructor <;> linarith

end cs

/-! ### standard deviation and variance -/

section pert
variable {α : Type}

theorem sum_map_sub (l : List α) (f g : α → ℝ) :
    (l.map (fun i => g i - f i)).sum = (l.map g).sum - (l.map f).sum := by
  induction l with
  | nil => simp
  | cons i l ih => simp only [List.map_cons, List.sum_cons, ih]; ring

theorem smean_map_sub (l : List α) (f g : α → ℝ) :
    smean (l.map (fun i => g i - f i)) = smean (l.map g) - smean (l.map f) := by
  unfold smean
  rw [sum_map_sub, List.length_map, List.length_map, List.length_map, sub_div]

theorem sdev2_map (l : List α) (h : α → ℝ) :
    sdev2 (l.map h) = (l.map (fun i => (h i - smean (l.map h)) ^ 2)).sum := by
  unfold sdev2
  rw [List.map_map]
  rfl

/-- the centred vectors differ by the centred difference: `|‖c(g)‖ − ‖c(f)‖| ≤ ‖c(g − f)‖` -/
theorem sqrt_sdev2_sub_le (l : List α) (f g : α → ℝ) :
    |Real.sqrt (sdev2 (l.map g)) - Real.sqrt (sdev2 (l.map f))| ≤
      Real.sqrt (sdev2 (l.map (fun i => g i - f i))) := by
  rw [sdev2_map l g, sdev2_map l f, sdev2_map l (fun i => g i - f i), smean_map_sub]
  have := sqrt_sumsq_sub_le l (fun i => f i - smean (l.map f)) (fun i => g i - smean (l.map g))
  have e : (fun i => (g i - smean (l.map g) - (f i - smean (l.map f))) ^ 2) =
      fun i => (g i - f i - (smean (l.map g) - smean (l.map f))) ^ 2 := by
    funext i; ring
  rw [e] at this
  exact this

/-- centring does not increase the Euclidean norm: `Σ(x − x̄)² ≤ Σx²` -/
theorem sdev2_le_sumSq (xs : List ℝ) (hn : 1 ≤ xs.length) : sdev2 xs ≤ sumSq xs := by
  have hN0 : (0 : ℝ) < xs.length := by exact_mod_cast hn
  rw [sdev2_eq xs hn]
  have : 0 ≤ smean xs * xs.sum := by
    unfold smean
    rw [div_mul_eq_mul_div]
    exact div_nonneg (mul_self_nonneg _) hN0.le
  unfold sumSq
  linarith

theorem sumSq_map_sub_le (hu : 0 ≤ u) (l : List α) (f g : α → ℝ)
    (h : ∀ i ∈ l, |g i - f i| ≤ u * |f i|) :
    sumSq (l.map (fun i => g i - f i)) ≤ u * u * sumSq (l.map f) := by
  induction l with
  | nil => simp [sumSq]
  | cons i l ih =>
    simp only [List.map_cons, sumSq_cons]
    have h1 := h i (by simp)
    have h2 : |g i - f i| * |g i - f i| ≤ (u * |f i|) * (u * |f i|) :=
      mul_le_mul h1 h1 (abs_nonneg _) (mul_nonneg hu (abs_nonneg _))
    rw [abs_mul_abs_self] at h2
    have e : (u * |f i|) * (u * |f i|) = u * u * (f i * f i) := by
      rw [← abs_mul_abs_self (f i)]; ring
    rw [e] at h2
    have := ih (fun j hj => h j (by simp [hj]))
    have e2 : u * u * (f i * f i + sumSq (l.map f)) =
        u * u * (f i * f i) + u * u * sumSq (l.map f) := by ring
    rw [e2]
    linarith

theorem ssd_eq_div (xs : List ℝ) :
    ssd xs = Real.sqrt (sdev2 xs) / Real.sqrt ((xs.length : ℝ) - 1) := by
  unfold ssd svar
  rw [Real.sqrt_div (sdev2_nonneg xs)]

/-- generic form of the perturbation of the standard deviation -/
theorem ssd_map_sub_le (hu : 0 ≤ u) (l : List α) (f g : α → ℝ) (hn : 2 ≤ l.length)
    (h : ∀ i ∈ l, |g i - f i| ≤ u * |f i|) :
    |ssd (l.map g) - ssd (l.map f)| ≤
      u * Real.sqrt (sumSq (l.map f) / ((l.length : ℝ) - 1)) := by
  have hN : (2 : ℝ) ≤ l.length := by exact_mod_cast hn
  have hM0 : (0 : ℝ) < (l.length : ℝ) - 1 := by linarith
  have hR : 0 < Real.sqrt ((l.length : ℝ) - 1) := Real.sqrt_pos.mpr hM0
  rw [ssd_eq_div, ssd_eq_div, List.length_map, List.length_map, ← sub_div, abs_div,
    abs_of_pos hR, Real.sqrt_div (sumSq_nonneg _), ← mul_div_assoc]
  apply div_le_div_of_nonneg_right _ hR.le
  refine le_trans (sqrt_sdev2_sub_le l f g) ?_
  have h1 : sdev2 (l.map (fun i => g i - f i)) ≤ u * u * sumSq (l.map f) :=
    le_trans (sdev2_le_sumSq _ (by rw [List.length_map]; omega)) (sumSq_map_sub_le hu l f g h)
  have h2 := Real.sqrt_le_sqrt h1
  rw [Real.sqrt_mul (mul_self_nonneg u), Real.sqrt_mul_self hu] at h2
  exact h2

end pert

/-- **standard deviation**: `|s(ỹ) − s(y)| ≤ u·√(Σy²/(n − 1))` -/
theorem RelClose.ssd_close (hu : 0 ≤ u) {ys yt : List ℝ} (h : RelClose u ys yt) (hn : 2 ≤ ys.length) :
    |ssd yt - ssd ys| ≤ u * Real.sqrt (sumSq ys / ((ys.length : ℝ) - 1)) := by
  obtain ⟨l, h1, h2, h3⟩ := h.exists_zip
  have hl : l.length = ys.length := by rw [h1, List.length_map]
  have := ssd_map_sub_le hu l Prod.fst Prod.snd (by rw [hl]; exact hn) h3
  rw [← h1, ← h2, hl] at this
  exact this

theorem svar_le_Y (xs : List ℝ) (hn : 2 ≤ xs.length) :
    svar xs ≤ sumSq xs / ((xs.length : ℝ) - 1) := by
  have hN : (2 : ℝ) ≤ xs.length := by exact_mod_cast hn
  unfold svar
  exact div_le_div_of_nonneg_right (sdev2_le_sumSq xs (by omega)) (by linarith)

theorem ssd_le_sqrtY (xs : List ℝ) (hn : 2 ≤ xs.length) :
    ssd xs ≤ Real.sqrt (sumSq xs / ((xs.length : ℝ) - 1)) :=
  Real.sqrt_le_sqrt (svar_le_Y xs hn)

/-- **variance**: `|s²(ỹ) − s²(y)| ≤ u·(2 + u)·Σy²/(n − 1)` -/
theorem RelClose.svar_close (hu : 0 ≤ u) {ys yt : List ℝ} (h : RelClose u ys yt) (hn : 2 ≤ ys.length) :
    |svar yt - svar ys| ≤ u * (2 + u) * (sumSq ys / ((ys.length : ℝ) - 1)) := by
  have hn' : 2 ≤ yt.length := by rw [← h.length_eq]; exact hn
  have hd := h.ssd_close hu hn
  have hsY := ssd_le_sqrtY ys hn
  have hN : (2 : ℝ) ≤ ys.length := by exact_mod_cast hn
  have hY : 0 ≤ sumSq ys / ((ys.length : ℝ) - 1) := div_nonneg (sumSq_nonneg ys) (by linarith)
  set Y := sumSq ys / ((ys.length : ℝ) - 1) with hYdef
  set r := Real.sqrt Y with hr
  have hr0 : 0 ≤ r := Real.sqrt_nonneg _
  have hrr : r * r = Y := Real.mul_self_sqrt hY
  have e1 : svar yt = ssd yt * ssd yt :=
    (Real.mul_self_sqrt (svar_nonneg yt (by omega))).symm
  have e2 : svar ys = ssd ys * ssd ys :=
    (Real.mul_self_sqrt (svar_nonneg ys (by omega))).symm
  have hs0 : 0 ≤ ssd ys := Real.sqrt_nonneg _
  have ht0 : 0 ≤ ssd yt := Real.sqrt_nonneg _
  rw [e1, e2]
  have e3 : ssd yt * ssd yt - ssd ys * ssd ys = (ssd yt - ssd ys) * (ssd yt + ssd ys) := by ring
  rw [e3, abs_mul, abs_of_nonneg (add_nonneg ht0 hs0)]
  have hsum : ssd yt + ssd ys ≤ 2 * r + u * r := by
    have := (abs_le.mp hd).2
    linarith
  have := mul_le_mul hd hsum (add_nonneg ht0 hs0) (mul_nonneg hu hr0)
  have e4 : u * r * (2 * r + u * r) = u * (2 + u) * (r * r) := by ring
  rw [e4, hrr] at this
  exact this

/-! ## 3. the interval in the transformed space -/

/-- the two triangle steps from the computed bound to the exact bound of the exact list, in
    abstract quantities: `X = Σ|y|/n`, `T = c·s/√n`, `G = c·√Y/√n`, `D = c·Δ/√n` -/
theorem combine_bound (hu : 0 ≤ u) (hu' : u ≤ 1 / 2048) {m mt X Xt T Tt G D lo hi : ℝ}
    (hX : 0 ≤ X) (hG : 0 ≤ G) (hm : |mt - m| ≤ u * X) (hXt : Xt ≤ (1 + u) * X)
    (hT : |Tt - T| ≤ u * G)
    (hlo : |lo - (mt - Tt)| ≤ 15 * u * Xt + (1 + 8 * u) * D + 7 * u * Tt)
    (hhi : |hi - (mt + Tt)| ≤ 15 * u * Xt + (1 + 8 * u) * D + 7 * u * Tt) :
    |lo - (m - T)| ≤ 17 * u * X + (1 + 8 * u) * D + 7 * u * T + 2 * u * G ∧
    |hi - (m + T)| ≤ 17 * u * X + (1 + 8 * u) * D + 7 * u * T + 2 * u * G := by
  obtain ⟨m1, m2⟩ := abs_le.mp hm
  obtain ⟨t1, t2⟩ := abs_le.mp hT
  obtain ⟨l1, l2⟩ := abs_le.mp hlo
  obtain ⟨h1, h2⟩ := abs_le.mp hhi
  have huX : 0 ≤ u * X := mul_nonneg hu hX
  have huG : 0 ≤ u * G := mul_nonneg hu hG
  have f1 : u * Xt ≤ u * ((1 + u) * X) := mul_le_mul_of_nonneg_left hXt hu
  have e1 : u * ((1 + u) * X) = u * X + u * (u * X) := by ring
  rw [e1] at f1
  have f2 : u * (u * X) ≤ 1 / 2048 * (u * X) := mul_le_mul_of_nonneg_right hu' huX
  have f3 : u * Tt ≤ u * (T + u * G) := mul_le_mul_of_nonneg_left (by linarith) hu
  have e3 : u * (T + u * G) = u * T + u * (u * G) := by ring
  rw [e3] at f3
  have f4 : u * (u * G) ≤ 1 / 2048 * (u * G) := mul_le_mul_of_nonneg_right hu' huG
  constructor <;> (rw [abs_le]; constructor <;> linarith)

/-- the error bound of a bound of the transformed-space interval, with `Δ` a bound on the error of
    the computed standard deviation against the exact standard deviation of the *rounded* list:
    `17u·Σ|y|/n + (1+8u)·c·Δ/√n + 7u·c·s/√n + 2u·c·√(Σy²/(n−1))/√n` (`y` the exact list) -/
noncomputable def spaceErr (u c Δ : ℝ) (ys : List ℝ) : ℝ :=
  17 * u * (sumAbs ys / ys.length) + (1 + 8 * u) * (c * (Δ / Real.sqrt ys.length))
    + 7 * u * (c * (ssd ys / Real.sqrt ys.length))
    + 2 * u * (c * (Real.sqrt (sumSq ys / ((ys.length : ℝ) - 1)) / Real.sqrt ys.length))

/-- closed form valid for every sample:
    `17u·Σ|y|/n + 8·c·√(u·Σy²/(n−1))/√n + 7u·c·s/√n + 2u·c·√(Σy²/(n−1))/√n` -/
noncomputable def spaceErrSqrt (u c : ℝ) (ys : List ℝ) : ℝ :=
  17 * u * (sumAbs ys / ys.length)
    + 8 * (c * (Real.sqrt (u * (sumSq ys / ((ys.length : ℝ) - 1))) / Real.sqrt ys.length))
    + 7 * u * (c * (ssd ys / Real.sqrt ys.length))
    + 2 * u * (c * (Real.sqrt (sumSq ys / ((ys.length : ℝ) - 1)) / Real.sqrt ys.length))

/-- `κ`-form, first order in `u`: `95u·(Σ|y|/n + c·s/√n·(1 + κ))`, `κ = Σy²/((n−1)·s²)` -/
noncomputable def spaceErrKappa (u c : ℝ) (ys : List ℝ) : ℝ :=
  95 * u * (sumAbs ys / ys.length + c * (ssd ys / Real.sqrt ys.length) *
    (1 + sumSq ys / ((ys.length : ℝ) - 1) / svar ys))

theorem spaceErr_zero (c Δ : ℝ) (ys : List ℝ) :
    spaceErr 0 c Δ ys = c * (Δ / Real.sqrt ys.length) := by
  unfold spaceErr; ring

theorem spaceErrSqrt_zero (c : ℝ) (ys : List ℝ) : spaceErrSqrt 0 c ys = 0 := by
  unfold spaceErrSqrt; simp

theorem spaceErrKappa_zero (c : ℝ) (ys : List ℝ) : spaceErrKappa 0 c ys = 0 := by
  unfold spaceErrKappa; simp

/-- the two bounds `ci_mean` computes at `RR fl` on the perturbed list `ỹ` against the exact
    bounds `ȳ ∓ c·s/√n` of the exact list `y` -/
theorem space_bounds_of_le (hfl : ∀ x, |fl x - x| ≤ u * |x|) (hu : 0 ≤ u) {ys yt : List ℝ}
    (hrc : RelClose u ys yt) (hn : 2 ≤ ys.length) (hs : (ys.length : ℝ) * u ≤ 1 / 1024)
    (hnat : ∀ m : ℕ, m ≤ ys.length → fl m = m) (c : ℝ) (hc : 0 ≤ c) {Δ : ℝ}
    (hΔ : |(Arith.fromList (yt.map inj) : Arith (RR fl)).stdDev.val - ssd yt| ≤ Δ) :
    |loFl (fl := fl) (Arith.fromList (yt.map inj)) c
        - (smean ys - c * (ssd ys / Real.sqrt ys.length))| ≤ spaceErr u c Δ ys ∧
    |hiFl (fl := fl) (Arith.fromList (yt.map inj)) c
        - (smean ys + c * (ssd ys / Real.sqrt ys.length))| ≤ spaceErr u c Δ ys := by
  have hlen : yt.length = ys.length := hrc.length_eq.symm
  have hN : (2 : ℝ) ≤ ys.length := by exact_mod_cast hn
  have hN0 : (0 : ℝ) < ys.length := by linarith
  have hu' := u_small hu hN hs
  have hR : 0 < Real.sqrt ys.length := Real.sqrt_pos.mpr hN0
  obtain ⟨b1, b2⟩ := bounds_bound_of_le hfl hu yt (by rw [hlen]; exact hn)
    (by rw [hlen]; exact hs) (by rw [hlen]; exact hnat) c hc hΔ
  rw [hlen] at b1 b2
  have hX : 0 ≤ sumAbs ys / (ys.length : ℝ) := div_nonneg (sumAbs_nonneg ys) hN0.le
  have hG : 0 ≤ c * (Real.sqrt (sumSq ys / ((ys.length : ℝ) - 1)) / Real.sqrt ys.length) :=
    mul_nonneg hc (div_nonneg (Real.sqrt_nonneg _) hR.le)
  have hm := hrc.smean_close (by omega)
  have hXt : sumAbs yt / (ys.length : ℝ) ≤ (1 + u) * (sumAbs ys / (ys.length : ℝ)) := by
    rw [← mul_div_assoc]
    exact div_le_div_of_nonneg_right hrc.sumAbs_le hN0.le
  have hT : |c * (ssd yt / Real.sqrt ys.length) - c * (ssd ys / Real.sqrt ys.length)| ≤
      u * (c * (Real.sqrt (sumSq ys / ((ys.length : ℝ) - 1)) / Real.sqrt ys.length)) := by
    rw [← mul_sub, ← sub_div, abs_mul, abs_of_nonneg hc, abs_div, abs_of_pos hR]
    have := mul_le_mul_of_nonneg_left
      (div_le_div_of_nonneg_right (hrc.ssd_close hu hn) hR.le) hc
    have e : u * (c * (Real.sqrt (sumSq ys / ((ys.length : ℝ) - 1)) / Real.sqrt ys.length)) =
        c * (u * Real.sqrt (sumSq ys / ((ys.length : ℝ) - 1)) / Real.sqrt ys.length) := by ring
    rw [e]
    exact this
  exact combine_bound hu hu' hX hG hm hXt hT b1 b2

/-- closed form: `Δ = 7·√(u·Σỹ²/(n−1))` from `MeanRound.stdDev_bound` -/
theorem space_bounds_sqrt (hfl : ∀ x, |fl x - x| ≤ u * |x|) (hu : 0 ≤ u) {ys yt : List ℝ}
    (hrc : RelClose u ys yt) (hn : 2 ≤ ys.length) (hs : (ys.length : ℝ) * u ≤ 1 / 1024)
    (hnat : ∀ m : ℕ, m ≤ ys.length → fl m = m) (c : ℝ) (hc : 0 ≤ c) :
    |loFl (fl := fl) (Arith.fromList (yt.map inj)) c
        - (smean ys - c * (ssd ys / Real.sqrt ys.length))| ≤ spaceErrSqrt u c ys ∧
    |hiFl (fl := fl) (Arith.fromList (yt.map inj)) c
        - (smean ys + c * (ssd ys / Real.sqrt ys.length))| ≤ spaceErrSqrt u c ys := by
  have hlen : yt.length = ys.length := hrc.length_eq.symm
  have hN : (2 : ℝ) ≤ ys.length := by exact_mod_cast hn
  have hN0 : (0 : ℝ) < ys.length := by linarith
  have hM0 : (0 : ℝ) < (ys.length : ℝ) - 1 := by linarith
  have hu' := u_small hu hN hs
  have hR : 0 < Real.sqrt ys.length := Real.sqrt_pos.mpr hN0
  have hsd := (stdDev_bound hfl hu yt (by rw [hlen]; exact hn) (by rw [hlen]; exact hs)
    (by rw [hlen]; exact hnat)).1
  rw [hlen] at hsd
  set Y := sumSq ys / ((ys.length : ℝ) - 1) with hYdef
  have hY : 0 ≤ Y := div_nonneg (sumSq_nonneg ys) hM0.le
  have hYt : sumSq yt / ((ys.length : ℝ) - 1) ≤ (1 + u) * (1 + u) * Y := by
    rw [hYdef, ← mul_div_assoc]
    exact div_le_div_of_nonneg_right (hrc.sumSq_le hu) hM0.le
  have h1u : 0 ≤ 1 + u := by linarith
  have hroot : Real.sqrt (u * (sumSq yt / ((ys.length : ℝ) - 1))) ≤
      (1 + u) * Real.sqrt (u * Y) := by
    have h1 : u * (sumSq yt / ((ys.length : ℝ) - 1)) ≤ (1 + u) * (1 + u) * (u * Y) := by
      have := mul_le_mul_of_nonneg_left hYt hu
      have e : u * ((1 + u) * (1 + u) * Y) = (1 + u) * (1 + u) * (u * Y) := by ring
      rw [e] at this
      exact this
    have h2 := Real.sqrt_le_sqrt h1
    rw [Real.sqrt_mul (mul_self_nonneg _), Real.sqrt_mul_self h1u] at h2
    exact h2
  have hΔ : |(Arith.fromList (yt.map inj) : Arith (RR fl)).stdDev.val - ssd yt| ≤
      7 * ((1 + u) * Real.sqrt (u * Y)) := by linarith
  obtain ⟨b1, b2⟩ := space_bounds_of_le hfl hu hrc hn hs hnat c hc hΔ
  have hle : spaceErr u c (7 * ((1 + u) * Real.sqrt (u * Y))) ys ≤ spaceErrSqrt u c ys := by
    unfold spaceErr spaceErrSqrt
    rw [← hYdef]
    set Z := c * (Real.sqrt (u * Y) / Real.sqrt ys.length) with hZ
    have hZ0 : 0 ≤ Z := mul_nonneg hc (div_nonneg (Real.sqrt_nonneg _) hR.le)
    have e : (1 + 8 * u) * (c * (7 * ((1 + u) * Real.sqrt (u * Y)) / Real.sqrt ys.length)) =
        7 * Z + 63 * (u * Z) + 56 * (u * (u * Z)) := by
      rw [hZ]; ring
    rw [e]
    have huZ : 0 ≤ u * Z := mul_nonneg hu hZ0
    have f1 : u * Z ≤ 1 / 2048 * Z := mul_le_mul_of_nonneg_right hu' hZ0
    have f2 : u * (u * Z) ≤ 1 / 2048 * (u * Z) := mul_le_mul_of_nonneg_right hu' huZ
    linarith
  exact ⟨le_trans b1 hle, le_trans b2 hle⟩

/-- `2·√Y/s ≤ 1 + Y/s²` -/
theorem two_sqrt_div_le {Y s : ℝ} (hY : 0 ≤ Y) (hs : 0 < s) :
    2 * (Real.sqrt Y / s) ≤ 1 + Y / (s * s) := by
  have h := sq_nonneg (1 - Real.sqrt Y / s)
  have e : (Real.sqrt Y / s) ^ 2 = Y / (s * s) := by
    rw [div_pow, Real.sq_sqrt hY, sq]
  nlinarith

/-- `κ`-form of `spaceErr` with `Δ = 93u·Y/s` -/
theorem spaceErr_kappa_le (hu : 0 ≤ u) (hu' : u ≤ 1 / 2048) {X Y s R c : ℝ} (hX : 0 ≤ X)
    (hY : 0 ≤ Y) (hs : 0 < s) (hR : 0 < R) (hc : 0 ≤ c) :
    17 * u * X + (1 + 8 * u) * (c * (93 * u * Y / s / R)) + 7 * u * (c * (s / R))
        + 2 * u * (c * (Real.sqrt Y / R)) ≤
      95 * u * (X + c * (s / R) * (1 + Y / (s * s))) := by
  have e : c * (93 * u * Y / s / R) = 93 * (u * (c * (s / R) * (Y / (s * s)))) := by
    field_simp
  have e' : c * (Real.sqrt Y / R) = c * (s / R) * (Real.sqrt Y / s) := by
    field_simp
  rw [e, e']
  set hw := c * (s / R) with hhw
  set κ := Y / (s * s) with hκ
  set q := Real.sqrt Y / s with hq
  have hhw0 : 0 ≤ hw := mul_nonneg hc (div_nonneg hs.le hR.le)
  have hκ0 : 0 ≤ κ := div_nonneg hY (mul_nonneg hs.le hs.le)
  have hq2 : 2 * q ≤ 1 + κ := two_sqrt_div_le hY hs
  have hP : 0 ≤ u * (hw * κ) := mul_nonneg hu (mul_nonneg hhw0 hκ0)
  have f1 : u * (u * (hw * κ)) ≤ 1 / 2048 * (u * (hw * κ)) := mul_le_mul_of_nonneg_right hu' hP
  have hX' : 0 ≤ u * X := mul_nonneg hu hX
  have hH' : 0 ≤ u * hw := mul_nonneg hu hhw0
  have f2 : u * hw * (2 * q) ≤ u * hw * (1 + κ) := mul_le_mul_of_nonneg_left hq2 hH'
  have e1 : (1 + 8 * u) * (93 * (u * (hw * κ))) =
      93 * (u * (hw * κ)) + 744 * (u * (u * (hw * κ))) := by ring
  have e2 : 95 * u * (X + hw * (1 + κ)) = 95 * (u * X) + 95 * (u * hw) + 95 * (u * (hw * κ)) := by
    ring
  have e3 : 17 * u * X = 17 * (u * X) := by ring
  have e4 : 7 * u * hw = 7 * (u * hw) := by ring
  have e5 : 2 * u * (hw * q) = u * hw * (2 * q) := by ring
  have e6 : u * hw * (1 + κ) = u * hw + u * (hw * κ) := by ring
  rw [e1, e2, e3, e4, e5]
  rw [e6] at f2
  linarith

/-- first-order form: for `s² > 0` and `u·√Y ≤ s/2` (`Y = Σy²/(n−1)`), so that the standard
    deviation of the rounded list stays above `s/2` -/
theorem space_bounds_kappa (hfl : ∀ x, |fl x - x| ≤ u * |x|) (hu : 0 ≤ u) {ys yt : List ℝ}
    (hrc : RelClose u ys yt) (hn : 2 ≤ ys.length) (hs : (ys.length : ℝ) * u ≤ 1 / 1024)
    (hnat : ∀ m : ℕ, m ≤ ys.length → fl m = m) (c : ℝ) (hc : 0 ≤ c) (hpos : 0 < svar ys)
    (hsmall : u * Real.sqrt (sumSq ys / ((ys.length : ℝ) - 1)) ≤ ssd ys / 2) :
    |loFl (fl := fl) (Arith.fromList (yt.map inj)) c
        - (smean ys - c * (ssd ys / Real.sqrt ys.length))| ≤ spaceErrKappa u c ys ∧
    |hiFl (fl := fl) (Arith.fromList (yt.map inj)) c
        - (smean ys + c * (ssd ys / Real.sqrt ys.length))| ≤ spaceErrKappa u c ys := by
  have hlen : yt.length = ys.length := hrc.length_eq.symm
  have hN : (2 : ℝ) ≤ ys.length := by exact_mod_cast hn
  have hN0 : (0 : ℝ) < ys.length := by linarith
  have hM0 : (0 : ℝ) < (ys.length : ℝ) - 1 := by linarith
  have hu' := u_small hu hN hs
  have hR : 0 < Real.sqrt ys.length := Real.sqrt_pos.mpr hN0
  have hsd : 0 < ssd ys := Real.sqrt_pos.mpr hpos
  have hrel := (stdDev_bound hfl hu yt (by rw [hlen]; exact hn) (by rw [hlen]; exact hs)
    (by rw [hlen]; exact hnat)).2
  rw [hlen] at hrel
  set Y := sumSq ys / ((ys.length : ℝ) - 1) with hYdef
  have hY : 0 ≤ Y := div_nonneg (sumSq_nonneg ys) hM0.le
  have hYt : sumSq yt / ((ys.length : ℝ) - 1) ≤ (1 + u) * (1 + u) * Y := by
    rw [hYdef, ← mul_div_assoc]
    exact div_le_div_of_nonneg_right (hrc.sumSq_le hu) hM0.le
  have hclose := hrc.ssd_close hu hn
  rw [← hYdef] at hclose
  have hst : ssd ys / 2 ≤ ssd yt := by
    have := (abs_le.mp hclose).1
    linarith
  -- `|ŝ − s̃| ≤ 93u·Y/s`
  have hΔ : |(Arith.fromList (yt.map inj) : Arith (RR fl)).stdDev.val - ssd yt| ≤
      93 * u * Y / ssd ys := by
    rw [le_div_iff₀ hsd]
    set δ := |(Arith.fromList (yt.map inj) : Arith (RR fl)).stdDev.val - ssd yt| with hδ
    have hδ0 : 0 ≤ δ := abs_nonneg _
    have h1 : δ * (ssd ys / 2) ≤ δ * ssd yt := mul_le_mul_of_nonneg_left hst hδ0
    have h2 : 46 * u * (sumSq yt / ((ys.length : ℝ) - 1)) ≤ 46 * u * ((1 + u) * (1 + u) * Y) :=
      mul_le_mul_of_nonneg_left hYt (by linarith)
    have huY : 0 ≤ u * Y := mul_nonneg hu hY
    have f1 : u * (u * Y) ≤ 1 / 2048 * (u * Y) := mul_le_mul_of_nonneg_right hu' huY
    have f2 : u * (u * (u * Y)) ≤ 1 / 2048 * (u * (u * Y)) :=
      mul_le_mul_of_nonneg_right hu' (mul_nonneg hu huY)
    have e : 46 * u * ((1 + u) * (1 + u) * Y) =
        46 * (u * Y) + 92 * (u * (u * Y)) + 46 * (u * (u * (u * Y))) := by ring
    rw [e] at h2
    have e2 : 93 * u * Y = 93 * (u * Y) := by ring
    rw [e2]
    linarith
  obtain ⟨b1, b2⟩ := space_bounds_of_le hfl hu hrc hn hs hnat c hc hΔ
  have hle : spaceErr u c (93 * u * Y / ssd ys) ys ≤ spaceErrKappa u c ys := by
    unfold spaceErr spaceErrKappa
    rw [← hYdef]
    have hk := spaceErr_kappa_le hu hu' (div_nonneg (sumAbs_nonneg ys) hN0.le) hY hsd hR hc
    have hss : ssd ys * ssd ys = svar ys := Real.mul_self_sqrt hpos.le
    rw [hss] at hk
    exact hk
  exact ⟨le_trans b1 hle, le_trans b2 hle⟩

/-! ## 4. the back-transforms -/

/-- **`exp`**: a computed log-space bound `b̃` within `E` of the exact `b` gives
    `|fl (exp b̃) − exp b| ≤ exp b·(exp E − 1 + u·exp E)` -/
theorem exp_back (hfl : ∀ x, |fl x - x| ≤ u * |x|) (hu : 0 ≤ u) {bt b E : ℝ}
    (h : |bt - b| ≤ E) :
    |fl (Real.exp bt) - Real.exp b| ≤ Real.exp b * (Real.exp E - 1 + u * Real.exp E) := by
  obtain ⟨d1, d2⟩ := abs_le.mp h
  have hsplit : Real.exp bt = Real.exp b * Real.exp (bt - b) := by
    rw [← Real.exp_add]; congr 1; ring
  have hb : 0 < Real.exp b := Real.exp_pos _
  have hd0 : 0 < Real.exp (bt - b) := Real.exp_pos _
  have hup : Real.exp (bt - b) ≤ Real.exp E := Real.exp_le_exp.mpr d2
  have hdn : Real.exp (-E) ≤ Real.exp (bt - b) := Real.exp_le_exp.mpr d1
  have a1 := Real.add_one_le_exp E
  have a2 := Real.add_one_le_exp (-E)
  have hr := hfl (Real.exp bt)
  rw [abs_of_pos (Real.exp_pos _), hsplit] at hr
  rw [hsplit]
  set eb := Real.exp b
  set ed := Real.exp (bt - b)
  set eE := Real.exp E
  have p1 : eb * ed ≤ eb * eE := mul_le_mul_of_nonneg_left hup hb.le
  have p2 : eb * (2 - eE) ≤ eb * ed := mul_le_mul_of_nonneg_left (by linarith) hb.le
  have p3 : u * (eb * ed) ≤ u * (eb * eE) := mul_le_mul_of_nonneg_left p1 hu
  obtain ⟨r1, r2⟩ := abs_le.mp hr
  have e : eb * (eE - 1 + u * eE) = eb * eE - eb + u * (eb * eE) := by ring
  have e2 : eb * (2 - eE) = 2 * eb - eb * eE := by ring
  rw [e]
  rw [e2] at p2
  rw [abs_le]
  constructor <;> linarith

/-- for `E ≤ 1` the relative error `exp E − 1 + u·exp E` is at most `2E + u·(1 + 2E)` -/
theorem exp_rel_le (hu : 0 ≤ u) {E : ℝ} (hE0 : 0 ≤ E) (hE : E ≤ 1) :
    Real.exp E - 1 + u * Real.exp E ≤ 2 * E + u * (1 + 2 * E) := by
  have h := Real.abs_exp_sub_one_le (x := E) (by rw [abs_of_nonneg hE0]; exact hE)
  rw [abs_of_nonneg hE0] at h
  have h1 := (abs_le.mp h).2
  have h2 : u * Real.exp E ≤ u * (1 + 2 * E) := mul_le_mul_of_nonneg_left (by linarith) hu
  linarith

/-- **`1/·`**: a computed reciprocal-space bound `r̃` within `E ≤ r/2` of the exact `r > 0` is
    strictly positive and `|fl (1/r̃) − 1/r| ≤ 2E/r² + u·(2/r)` -/
theorem recip_back (hfl : ∀ x, |fl x - x| ≤ u * |x|) (hu : 0 ≤ u) {rt r E : ℝ} (hr : 0 < r)
    (hE : E ≤ r / 2) (h : |rt - r| ≤ E) :
    0 < rt ∧ |fl (1 / rt) - 1 / r| ≤ 2 * E / r ^ 2 + u * (2 / r) := by
  obtain ⟨d1, d2⟩ := abs_le.mp h
  have hrt : r / 2 ≤ rt := by linarith
  have hrt0 : 0 < rt := by linarith
  refine ⟨hrt0, ?_⟩
  set q := 1 / rt with hq
  set p := 1 / r with hp
  have hq0 : 0 < q := one_div_pos.mpr hrt0
  have hp0 : 0 < p := one_div_pos.mpr hr
  have hqr : q * rt = 1 := by rw [hq]; field_simp
  have hpr : p * r = 1 := by rw [hp]; field_simp
  have hq2 : q ≤ 2 * p := by
    have := one_div_le_one_div_of_le (by linarith : (0 : ℝ) < r / 2) hrt
    rw [hq, hp]
    have e : 1 / (r / 2) = 2 * (1 / r) := by field_simp
    rw [e] at this
    exact this
  have hE0 : 0 ≤ E := le_trans (abs_nonneg _) h
  have ediff : q - p = q * p * (r - rt) := by
    have : q * p * (r - rt) = q * (p * r) - p * (q * rt) := by ring
    rw [this, hqr, hpr]; ring
  have hdiff : |q - p| ≤ 2 * E * (p * p) := by
    rw [ediff, abs_mul, abs_of_pos (mul_pos hq0 hp0), abs_sub_comm]
    have h1 : q * p * |rt - r| ≤ q * p * E :=
      mul_le_mul_of_nonneg_left h (mul_pos hq0 hp0).le
    have h2 : q * (p * E) ≤ 2 * p * (p * E) :=
      mul_le_mul_of_nonneg_right hq2 (mul_nonneg hp0.le hE0)
    have e1 : q * p * E = q * (p * E) := by ring
    have e2 : 2 * E * (p * p) = 2 * p * (p * E) := by ring
    rw [e2]
    linarith
  have hfq := hfl q
  rw [abs_of_pos hq0] at hfq
  have h3 : u * q ≤ u * (2 * p) := mul_le_mul_of_nonneg_left hq2 hu
  have e3 : 2 * E / r ^ 2 = 2 * E * (p * p) := by rw [hp]; field_simp
  have e4 : (2 : ℝ) / r = 2 * p := by rw [hp]; field_simp
  rw [e3, e4]
  have tri := abs_add_le (fl q - q) (q - p)
  simp only [sub_add_sub_cancel] at tri
  linarith

/-- the computed bound `r̃` is further than `E` above zero: still the reciprocal branch, with an
    error that blows up as `r ↓ E` -/
theorem recip_far {rt r E : ℝ} (hE : E < r) (h : |rt - r| ≤ E) :
    0 < rt ∧ |1 / rt - 1 / r| ≤ E / (r * (r - E)) := by
  obtain ⟨d1, d2⟩ := abs_le.mp h
  have hE0 : 0 ≤ E := le_trans (abs_nonneg _) h
  have hr : 0 < r := by linarith
  have hrt0 : 0 < rt := by linarith
  refine ⟨hrt0, ?_⟩
  have hre : 0 < r - E := by linarith
  have e : 1 / rt - 1 / r = (r - rt) / (rt * r) := by field_simp
  rw [e, abs_div, abs_of_pos (mul_pos hrt0 hr), abs_sub_comm]
  have h1 : r * (r - E) ≤ rt * r := by
    have := mul_le_mul_of_nonneg_left (by linarith : r - E ≤ rt) hr.le
    linarith
  calc |rt - r| / (rt * r) ≤ E / (rt * r) :=
        div_le_div_of_nonneg_right h (mul_pos hrt0 hr).le
    _ ≤ E / (r * (r - E)) := div_le_div_of_nonneg_left hE0 (mul_pos hr hre) h1

/-- `recipBound` at `RR fl`: the rounded quotient on the strictly positive branch -/
theorem recipBound_fl_pos (r : RR fl) (h : 0 < r.val) :
    Harmonic.recipBound r = (⟨fl (1 / r.val)⟩ : RR fl) := by
  have hg : gt r (zero : RR fl) = true := by rw [RR.gt_iff]; exact h
  rw [Harmonic.recipBound_of_pos r hg]
  apply RR.ext'
  simp

/-- `recipBound` at `RR fl`: `+∞` (the carrier's stand-in `posInf`) on the other branch -/
theorem recipBound_fl_not_pos (r : RR fl) (h : r.val ≤ 0) :
    Harmonic.recipBound r = (posInf : RR fl) := by
  have hg : gt r (zero : RR fl) = false := by
    rw [Bool.eq_false_iff, Ne, RR.gt_iff]; exact not_lt.mpr h
  exact Harmonic.recipBound_of_not_pos r hg

/-! ## 5. `Geometric::ci` / `Harmonic::ci` at `RR fl` with a constant critical value -/

/-- `Geometric::ci` at `RR fl`: positive data are accepted, the guards of `ci_mean` pass, the
    log-space bounds are `loFl`, `hiFl` of the state of the rounded logarithms, handed to the
    interval constructor of the kind of `conf`, and the result is mapped through the rounded `exp` -/
theorem Geometric.ci_fl (xs : List ℝ) (hpos : ∀ x ∈ xs, 0 < x) (hn : 2 ≤ xs.length)
    (hnat : ∀ m : ℕ, m ≤ xs.length → fl m = m) (c : ℝ) (conf : Confidence (RR fl))
    (hp : probOk conf.quantile = true) :
    Geometric.ci (constCrit c) conf (xs.map inj) =
      (intervalOfKind conf (⟨loFl (fl := fl) (Arith.fromList ((flLogs fl xs).map inj)) c⟩ : RR fl)
          ⟨hiFl (fl := fl) (Arith.fromList ((flLogs fl xs).map inj)) c⟩).bind fun ci =>
        intervalOfKind conf (Scalar.exp (@Interval.lowX (RR fl) ⟨negInf, posInf⟩ ci))
          (Scalar.exp (@Interval.highX (RR fl) ⟨negInf, posInf⟩ ci)) := by
  have hcount := fromList_count' (fl := fl) (flLogs fl xs)
  rw [flLogs_length] at hcount
  unfold Geometric.ci
  rw [Geometric.fromList_fl xs hpos, Outcome.bind_ok]
  unfold Geometric.ciMean
  rw [ciMean_fl _ c conf (by rw [hcount]; exact hn) (by rw [hcount]; exact hnat) hp]

/-- `Harmonic::ci` at `RR fl`: the reciprocal-space bounds are `loFl`, `hiFl` of the state of the
    rounded reciprocals, at the flipped confidence; each end goes through `recipBound`, ends
    exchanged -/
theorem Harmonic.ci_fl (xs : List ℝ) (hpos : ∀ x ∈ xs, 0 < x) (hn : 2 ≤ xs.length)
    (hnat : ∀ m : ℕ, m ≤ xs.length → fl m = m) (c : ℝ) (conf : Confidence (RR fl))
    (hp : probOk conf.quantile = true) :
    Harmonic.ci (constCrit c) conf (xs.map inj) =
      (intervalOfKind conf.flipped
          (⟨loFl (fl := fl) (Arith.fromList ((flRecips fl xs).map inj)) c⟩ : RR fl)
          ⟨hiFl (fl := fl) (Arith.fromList ((flRecips fl xs).map inj)) c⟩).bind fun ci =>
        intervalOfKind conf
          (Harmonic.recipBound (@Interval.highX (RR fl) ⟨negInf, posInf⟩ ci))
          (Harmonic.recipBound (@Interval.lowX (RR fl) ⟨negInf, posInf⟩ ci)) := by
  have hcount := fromList_count' (fl := fl) (flRecips fl xs)
  rw [flRecips_length] at hcount
  have hp' : probOk conf.flipped.quantile = true := by cases conf <;> exact hp
  unfold Harmonic.ci
  rw [Harmonic.fromList_fl xs hpos, Outcome.bind_ok]
  unfold Harmonic.ciMean
  rw [ciMean_fl _ c conf.flipped (by rw [hcount]; exact hn) (by rw [hcount]; exact hnat) hp']

theorem fl_zero (hfl : ∀ x, |fl x - x| ≤ u * |x|) : fl 0 = 0 := by
  have := hfl 0
  simp only [sub_zero, abs_zero, mul_zero] at this
  exact abs_eq_zero.mp (le_antisymm this (abs_nonneg _))

theorem fl_nonneg_of_monotone (hfl : ∀ x, |fl x - x| ≤ u * |x|) (hmono : Monotone fl) {x : ℝ}
    (hx : 0 ≤ x) : 0 ≤ fl x := by
  have := hmono hx
  rwa [fl_zero hfl] at this

/-- with a monotone rounding function (and `c ≥ 0`) the computed bounds are ordered -/
theorem loFl_le_hiFl (hfl : ∀ x, |fl x - x| ≤ u * |x|) (hmono : Monotone fl) (a : Arith (RR fl))
    {c : ℝ} (hc : 0 ≤ c) : loFl a c ≤ hiFl a c := by
  have hnn := @fl_nonneg_of_monotone fl u hfl hmono
  have h1 : 0 ≤ a.stdDev.val := by
    rw [stdDev_val]; exact hnn (Real.sqrt_nonneg _)
  have h2 : 0 ≤ fl (Real.sqrt a.count) := hnn (Real.sqrt_nonneg _)
  have h3 : 0 ≤ fl (a.stdDev.val / fl (Real.sqrt a.count)) := hnn (div_nonneg h1 h2)
  have h4 : 0 ≤ fl (c * fl (a.stdDev.val / fl (Real.sqrt a.count))) := hnn (mul_nonneg hc h3)
  unfold loFl hiFl
  apply hmono
  linarith

/-! ### the exact bounds, and the kinds -/

/-- the exact lower bound `ȳ − c·s/√n` of the arithmetic interval of a real list -/
noncomputable def exLo (c : ℝ) (ys : List ℝ) : ℝ := smean ys - c * (ssd ys / Real.sqrt ys.length)

/-- the exact upper bound `ȳ + c·s/√n` of the arithmetic interval of a real list -/
noncomputable def exHi (c : ℝ) (ys : List ℝ) : ℝ := smean ys + c * (ssd ys / Real.sqrt ys.length)

theorem exLo_le_exHi {c : ℝ} (hc : 0 ≤ c) (ys : List ℝ) : exLo c ys ≤ exHi c ys := by
  unfold exLo exHi
  have : 0 ≤ c * (ssd ys / Real.sqrt ys.length) :=
    mul_nonneg hc (div_nonneg (Real.sqrt_nonneg _) (Real.sqrt_nonneg _))
  linarith

/-- at exact arithmetic the arithmetic interval with the constant critical value `c` is built from
    `exLo`, `exHi` -/
theorem Arith.ci_rex_const (c : ℝ) (conf : Confidence Rex) (ys : List ℝ) (hn : 2 ≤ ys.length)
    (hp : probOk conf.quantile = true) :
    Arith.ci (constCrit c) conf (ys.map inj) =
      intervalOfKind conf (⟨exLo c ys⟩ : Rex) ⟨exHi c ys⟩ := by
  rw [Arith.ci_rex (constCrit c) conf ys hn hp]
  simp only [halfWidth, critVal, constCrit, mul_div_assoc, exLo, exHi]

section kinds
variable (xs : List ℝ) (hpos : ∀ x ∈ xs, 0 < x) (hn : 2 ≤ xs.length)
  (hnat : ∀ m : ℕ, m ≤ xs.length → fl m = m) (c : ℝ) (l : RR fl)

theorem gt_mk_false {a b : ℝ} (h : a ≤ b) : gt (⟨a⟩ : RR fl) (⟨b⟩ : RR fl) = false := by
  rw [Bool.eq_false_iff, Ne, RR.gt_iff]; exact not_lt.mpr h

theorem gt_mk_true {a b : ℝ} (h : b < a) : gt (⟨a⟩ : RR fl) (⟨b⟩ : RR fl) = true := by
  rw [RR.gt_iff]; exact h

include hpos hn hnat

theorem Geometric.ci_fl_upper (hp : probOk (Confidence.upper l).quantile = true) :
    Geometric.ci (constCrit c) (.upper l) (xs.map inj) =
      .ok (.upper (⟨fl (Real.exp
        (loFl (fl := fl) (Arith.fromList ((flLogs fl xs).map inj)) c))⟩ : RR fl)) := by
  rw [Geometric.ci_fl xs hpos hn hnat c _ hp]; rfl

theorem Geometric.ci_fl_lower (hp : probOk (Confidence.lower l).quantile = true) :
    Geometric.ci (constCrit c) (.lower l) (xs.map inj) =
      .ok (.lower (⟨fl (Real.exp
        (hiFl (fl := fl) (Arith.fromList ((flLogs fl xs).map inj)) c))⟩ : RR fl)) := by
  rw [Geometric.ci_fl xs hpos hn hnat c _ hp]; rfl

theorem Geometric.ci_fl_twoSided (hp : probOk (Confidence.twoSided l).quantile = true) :
    (loFl (fl := fl) (Arith.fromList ((flLogs fl xs).map inj)) c ≤
        hiFl (fl := fl) (Arith.fromList ((flLogs fl xs).map inj)) c →
      fl (Real.exp (loFl (fl := fl) (Arith.fromList ((flLogs fl xs).map inj)) c)) ≤
        fl (Real.exp (hiFl (fl := fl) (Arith.fromList ((flLogs fl xs).map inj)) c)) →
      Geometric.ci (constCrit c) (.twoSided l) (xs.map inj) =
        .ok (.twoSided
          (⟨fl (Real.exp (loFl (fl := fl) (Arith.fromList ((flLogs fl xs).map inj)) c))⟩ : RR fl)
          ⟨fl (Real.exp (hiFl (fl := fl) (Arith.fromList ((flLogs fl xs).map inj)) c))⟩)) ∧
    (hiFl (fl := fl) (Arith.fromList ((flLogs fl xs).map inj)) c <
        loFl (fl := fl) (Arith.fromList ((flLogs fl xs).map inj)) c ∨
      fl (Real.exp (hiFl (fl := fl) (Arith.fromList ((flLogs fl xs).map inj)) c)) <
        fl (Real.exp (loFl (fl := fl) (Arith.fromList ((flLogs fl xs).map inj)) c)) →
      Geometric.ci (constCrit c) (.twoSided l) (xs.map inj) =
        (.err (.interval .invalidBounds) : Outcome (Err (RR fl)) (Interval (RR fl)))) := by
  rw [Geometric.ci_fl xs hpos hn hnat c _ hp]
  generalize loFl (fl := fl) (Arith.fromList ((flLogs fl xs).map inj)) c = lo
  generalize hiFl (fl := fl) (Arith.fromList ((flLogs fl xs).map inj)) c = hi
  constructor
  · intro h1 h2
    have g2 : gt (Scalar.exp (⟨lo⟩ : RR fl)) (Scalar.exp (⟨hi⟩ : RR fl)) = false := by
      rw [Bool.eq_false_iff, Ne, RR.gt_iff]; simpa using h2
    simp only [intervalOfKind, Interval.new, gt_mk_false h1, liftI, Bool.false_eq_true, if_false,
      Outcome.bind_ok, Interval.lowX, Interval.highX, g2]
    rfl
  · intro h
    by_cases h1 : hi < lo
    · simp only [intervalOfKind, Interval.new, gt_mk_true h1, liftI, if_true, Outcome.bind_err]
    · have h2 : fl (Real.exp hi) < fl (Real.exp lo) := by
        rcases h with h | h
        · exact absurd h h1
        · exact h
      have g2 : gt (Scalar.exp (⟨lo⟩ : RR fl)) (Scalar.exp (⟨hi⟩ : RR fl)) = true := by
        rw [RR.gt_iff]; simpa using h2
      simp only [intervalOfKind, Interval.new, gt_mk_false (not_lt.mp h1), liftI,
        Bool.false_eq_true, if_false, Outcome.bind_ok, Interval.lowX, Interval.highX, g2, if_true]

theorem Harmonic.ci_fl_upper (hp : probOk (Confidence.upper l).quantile = true) :
    Harmonic.ci (constCrit c) (.upper l) (xs.map inj) =
      .ok (.upper (Harmonic.recipBound
        (⟨hiFl (fl := fl) (Arith.fromList ((flRecips fl xs).map inj)) c⟩ : RR fl))) := by
  rw [Harmonic.ci_fl xs hpos hn hnat c _ hp]; rfl

theorem Harmonic.ci_fl_lower (hp : probOk (Confidence.lower l).quantile = true) :
    Harmonic.ci (constCrit c) (.lower l) (xs.map inj) =
      .ok (.lower (Harmonic.recipBound
        (⟨loFl (fl := fl) (Arith.fromList ((flRecips fl xs).map inj)) c⟩ : RR fl))) := by
  rw [Harmonic.ci_fl xs hpos hn hnat c _ hp]; rfl

theorem Harmonic.ci_fl_twoSided (hp : probOk (Confidence.twoSided l).quantile = true) :
    (loFl (fl := fl) (Arith.fromList ((flRecips fl xs).map inj)) c ≤
        hiFl (fl := fl) (Arith.fromList ((flRecips fl xs).map inj)) c →
      Harmonic.ci (constCrit c) (.twoSided l) (xs.map inj) =
        liftI (Interval.new
          (Harmonic.recipBound
            (⟨hiFl (fl := fl) (Arith.fromList ((flRecips fl xs).map inj)) c⟩ : RR fl))
          (Harmonic.recipBound
            (⟨loFl (fl := fl) (Arith.fromList ((flRecips fl xs).map inj)) c⟩ : RR fl)))) ∧
    (hiFl (fl := fl) (Arith.fromList ((flRecips fl xs).map inj)) c <
        loFl (fl := fl) (Arith.fromList ((flRecips fl xs).map inj)) c →
      Harmonic.ci (constCrit c) (.twoSided l) (xs.map inj) =
        (.err (.interval .invalidBounds) : Outcome (Err (RR fl)) (Interval (RR fl)))) := by
  rw [Harmonic.ci_fl xs hpos hn hnat c _ hp]
  generalize loFl (fl := fl) (Arith.fromList ((flRecips fl xs).map inj)) c = lo
  generalize hiFl (fl := fl) (Arith.fromList ((flRecips fl xs).map inj)) c = hi
  constructor
  · intro h1
    simp only [Confidence.flipped, intervalOfKind, Interval.new, gt_mk_false h1, liftI,
      Bool.false_eq_true, if_false, Outcome.bind_ok, Interval.lowX, Interval.highX]
    rfl
  · intro h1
    simp only [Confidence.flipped, intervalOfKind, Interval.new, gt_mk_true h1, liftI, if_true,
      Outcome.bind_err]

end kinds

/-! ### either of the two proved bounds on the transformed-space error -/

/-- `E` dominates one of the two proved bounds on the error of the transformed-space interval:
    the closed form `spaceErrSqrt` (every sample), or the first-order form `spaceErrKappa`
    (for `s² > 0` and `u·√(Σy²/(n−1)) ≤ s/2`) -/
def SpaceErrBound (u c : ℝ) (ys : List ℝ) (E : ℝ) : Prop :=
  spaceErrSqrt u c ys ≤ E ∨
    (0 < svar ys ∧ u * Real.sqrt (sumSq ys / ((ys.length : ℝ) - 1)) ≤ ssd ys / 2 ∧
      spaceErrKappa u c ys ≤ E)

theorem space_bounds (hfl : ∀ x, |fl x - x| ≤ u * |x|) (hu : 0 ≤ u) {ys yt : List ℝ}
    (hrc : RelClose u ys yt) (hn : 2 ≤ ys.length) (hs : (ys.length : ℝ) * u ≤ 1 / 1024)
    (hnat : ∀ m : ℕ, m ≤ ys.length → fl m = m) (c : ℝ) (hc : 0 ≤ c) {E : ℝ}
    (hE : SpaceErrBound u c ys E) :
    |loFl (fl := fl) (Arith.fromList (yt.map inj)) c - exLo c ys| ≤ E ∧
    |hiFl (fl := fl) (Arith.fromList (yt.map inj)) c - exHi c ys| ≤ E := by
  unfold exLo exHi
  rcases hE with hE | ⟨h1, h2, hE⟩
  · obtain ⟨b1, b2⟩ := space_bounds_sqrt hfl hu hrc hn hs hnat c hc
    exact ⟨le_trans b1 hE, le_trans b2 hE⟩
  · obtain ⟨b1, b2⟩ := space_bounds_kappa hfl hu hrc hn hs hnat c hc h1 h2
    exact ⟨le_trans b1 hE, le_trans b2 hE⟩

end StatsCI.MeanLogRound
