/-
  StatsCI.Lemmas.MeanExact — helper lemmas for C01/C04/C05/C16.

  * real sample statistics `smean`, `svar`, `ssd`;
  * carrier-generic facts about `intervalBounds`, `Arith.ciMean`, `Paired.extendAux`,
    `Harmonic.extend`, `Geometric.extend` (pure case analysis / list induction, no arithmetic laws);
  * exactness of the registers, mean, variance and `ciMean` at `Rex = RR id`.
-/
import StatsCI.Lemmas.RR
import Mathlib.Tactic.Linarith
import Mathlib.Tactic.Ring
import Mathlib.Tactic.FieldSimp
import Mathlib.Tactic.Positivity
import Mathlib.Algebra.BigOperators.Group.List.Basic
import Mathlib.Algebra.Order.BigOperators.Group.List

set_option linter.unusedSectionVars false

namespace StatsCI.MeanLemmas
open StatsCI NumOps Scalar

/-! ## real sample statistics -/

/-- sample mean `Σx / n` -/
noncomputable def smean (xs : List ℝ) : ℝ := xs.sum / xs.length

/-- sum of squared deviations from the mean -/
noncomputable def sdev2 (xs : List ℝ) : ℝ := (xs.map (fun x => (x - smean xs) ^ 2)).sum

/-- unbiased sample variance `Σ(x - x̄)² / (n - 1)` -/
noncomputable def svar (xs : List ℝ) : ℝ := sdev2 xs / ((xs.length : ℝ) - 1)

/-- sample standard deviation -/
noncomputable def ssd (xs : List ℝ) : ℝ := Real.sqrt (svar xs)

theorem sdev2_nonneg (xs : List ℝ) : 0 ≤ sdev2 xs := by
  unfold sdev2
  apply List.sum_nonneg
  intro y hy
  simp only [List.mem_map] at hy
  obtain ⟨x, _, rfl⟩ := hy
  positivity

theorem svar_nonneg (xs : List ℝ) (hn : 1 ≤ xs.length) : 0 ≤ svar xs := by
  unfold svar
  have h1 : (1 : ℝ) ≤ xs.length := by exact_mod_cast hn
  exact div_nonneg (sdev2_nonneg xs) (by linarith)

theorem sum_sq_dev (xs : List ℝ) (m : ℝ) :
    (xs.map (fun x => (x - m) ^ 2)).sum =
      (xs.map (fun x => x * x)).sum - 2 * m * xs.sum + xs.length * m ^ 2 := by
  induction xs with
  | nil => simp
  | cons x xs ih =>
    simp only [List.map_cons, List.sum_cons, List.length_cons, ih]
    push_cast
    ring

/-- `Σ(x - x̄)² = Σx² - x̄·Σx` -/
theorem sdev2_eq (xs : List ℝ) (hn : 1 ≤ xs.length) :
    sdev2 xs = (xs.map (fun x => x * x)).sum - smean xs * xs.sum := by
  have h1 : (xs.length : ℝ) ≠ 0 := by
    have : (1 : ℝ) ≤ xs.length := by exact_mod_cast hn
    linarith
  unfold sdev2
  rw [sum_sq_dev]
  unfold smean
  field_simp
  ring

/-! ## carrier-generic lemmas -/

section generic
variable {F W : Type} [Scalar F] [Scalar W] [Widen F W]

/-- when `dof > 0` and the probability is admissible, `interval_bounds` returns
    `mean ∓ c · sem` with `c` the answer to the request `critReq conf dof` -/
theorem intervalBounds_eq (crit : Crit W) (conf : Confidence W) (m s dof : W)
    (hd : gt dof (zero : W) = true) (hp : probOk conf.quantile = true) :
    intervalBounds crit conf m s dof =
      .ok (sub m (mul (crit (critReq conf dof)) s), add m (mul (crit (critReq conf dof)) s)) := by
  unfold intervalBounds critReq tValue zValue
  by_cases h : lt dof (populationLimit : W) = true
  · simp [h, hd, hp]
  · simp [h, hp]

/-- an inadmissible probability makes `interval_bounds` panic in `inverse_cdf` (given `dof > 0`) -/
theorem intervalBounds_panic (crit : Crit W) (conf : Confidence W) (m s dof : W)
    (hd : gt dof (zero : W) = true) (hp : probOk conf.quantile = false) :
    intervalBounds crit conf m s dof = .panic "inverse_cdf" := by
  unfold intervalBounds tValue zValue
  by_cases h : lt dof (populationLimit : W) = true
  · simp [h, hd, hp]
  · simp [h, hp]

/-- `ci_mean` reads the state only through `count`, `mean` and `stdDev` -/
theorem Arith.ciMean_congr (crit : Crit W) (a b : Arith F) (conf : Confidence W)
    (hc : a.count = b.count) (hm : a.mean = b.mean) (hs : a.stdDev = b.stdDev) :
    a.ciMean crit conf = b.ciMean crit conf := by
  unfold Arith.ciMean Arith.ciPrep
  rw [hc, hm, hs]

theorem Arith.extend_append (a : Arith F) (xs ys : List F) :
    a.extend (xs ++ ys) = (a.extend xs).extend ys := by
  simp [Arith.extend, List.foldl_append]

theorem Arith.extend_cons (a : Arith F) (x : F) (xs : List F) :
    a.extend (x :: xs) = (a.append x).extend xs := rfl

theorem Arith.extend_nil (a : Arith F) : a.extend [] = a := rfl

theorem Arith.extend_count (a : Arith F) (xs : List F) :
    (a.extend xs).count = a.count + xs.length := by
  induction xs generalizing a with
  | nil => simp [Arith.extend]
  | cons x xs ih =>
    rw [Arith.extend_cons, ih]
    simp [Arith.append]; omega

theorem Arith.fromList_count (xs : List F) : (Arith.fromList xs).count = xs.length := by
  simp [Arith.fromList, Arith.extend_count, Arith.empty]

/-- fewer than two samples: `TooFewSamples(n)` -/
theorem Arith.ciMean_too_few (crit : Crit W) (a : Arith F) (conf : Confidence W)
    (h : a.count < 2) : a.ciMean crit conf = .err (.tooFewSamples a.count) := by
  simp [Arith.ciMean, Arith.ciPrep, h]

/-- shape of a successful `ci_mean`: the kind of the interval is the kind of the confidence,
    and a two-sided result passed `Interval::new` -/
theorem Arith.ciMean_ok_kind (crit : Crit W) (a : Arith F) (conf : Confidence W) (I : Interval F)
    (h : a.ciMean crit conf = .ok I) :
    match conf with
    | .twoSided _ => ∃ lo hi, I = .twoSided lo hi ∧ gt lo hi = false
    | .upper _ => ∃ lo, I = .upper lo
    | .lower _ => ∃ hi, I = .lower hi := by
  unfold Arith.ciMean at h
  cases hp : (Arith.ciPrep a : Outcome (Err W) (Arith.Prep W)) with
  | err e => simp [hp] at h
  | panic t => simp [hp] at h
  | ok p =>
    rw [hp, Outcome.bind_ok] at h
    cases hb : intervalBounds crit conf p.mean p.sem p.dof with
    | err e => simp [hb] at h
    | panic t => simp [hb] at h
    | ok b =>
      rw [hb, Outcome.bind_ok] at h
      cases conf with
      | twoSided l =>
        simp only [intervalOfKind, Interval.new] at h
        by_cases hg : gt (Widen.down b.1 : F) (Widen.down b.2 : F) = true
        · simp [hg, liftI] at h
        · simp only [hg, liftI] at h
          simp only [Bool.false_eq_true, if_false] at h
          injection h with h
          exact ⟨_, _, h.symm, by simpa using hg⟩
      | upper l =>
        simp only [intervalOfKind, Interval.newUpper] at h
        injection h with h
        exact ⟨_, h.symm⟩
      | lower l =>
        simp only [intervalOfKind, Interval.newLower] at h
        injection h with h
        exact ⟨_, h.symm⟩

/-! ### paired: `extendAux` -/

theorem Paired.extendAux_eq_len (p : Paired F) (c : Nat) (as bs : List F)
    (h : as.length = bs.length) :
    (Paired.extendAux p c as bs : Outcome (Err W) (Paired F) × Paired F) =
      (.ok ⟨p.stats.extend (List.zipWith NumOps.sub as bs)⟩,
        ⟨p.stats.extend (List.zipWith NumOps.sub as bs)⟩) := by
  induction as generalizing p c bs with
  | nil =>
    cases bs with
    | nil => simp [Paired.extendAux, Arith.extend]
    | cons b bs => simp at h
  | cons a as ih =>
    cases bs with
    | nil => simp at h
    | cons b bs =>
      simp only [List.length_cons, Nat.add_right_cancel_iff] at h
      simp only [Paired.extendAux, List.zipWith_cons_cons]
      rw [ih _ _ _ h]
      simp [Paired.appendPair, Arith.extend_cons]

theorem Paired.extendAux_ne_len (p : Paired F) (c : Nat) (as bs : List F)
    (h : as.length ≠ bs.length) :
    ((Paired.extendAux p c as bs : Outcome (Err W) (Paired F) × Paired F)).1 =
      .err (.differentSampleSizes (c + as.length) (c + bs.length)) := by
  induction as generalizing p c bs with
  | nil =>
    cases bs with
    | nil => simp at h
    | cons b bs =>
      simp only [Paired.extendAux, List.length_nil, List.length_cons, Nat.add_zero]
      congr 2; omega
  | cons a as ih =>
    cases bs with
    | nil =>
      simp only [Paired.extendAux, List.length_nil, List.length_cons, Nat.add_zero]
      congr 2; omega
    | cons b bs =>
      simp only [List.length_cons, ne_eq, Nat.add_right_cancel_iff] at h
      simp only [Paired.extendAux, List.length_cons]
      rw [ih _ _ _ h]
      congr 2 <;> omega

theorem Paired.extendTuple_zip (p : Paired F) (as bs : List F) :
    (Paired.extendTuple p (as.zip bs)).stats = p.stats.extend (List.zipWith NumOps.sub as bs) := by
  induction as generalizing p bs with
  | nil => simp [Paired.extendTuple, Arith.extend]
  | cons a as ih =>
    cases bs with
    | nil => simp [Paired.extendTuple, Arith.extend]
    | cons b bs =>
      simp only [List.zip_cons_cons, List.zipWith_cons_cons, Arith.extend_cons]
      have := ih (p.appendPair a b) bs
      simpa [Paired.extendTuple, Paired.appendPair] using this

/-! ### harmonic / geometric: `extend` -/

theorem Harmonic.extend_accepted (h : Harmonic F) (xs : List F)
    (hx : ∀ x ∈ xs, le x (zero : F) = false) :
    (Harmonic.extend h xs : Outcome (Err W) (Harmonic F) × Harmonic F) =
      (.ok ⟨h.recip.extend (xs.map (fun x => div one x))⟩,
        ⟨h.recip.extend (xs.map (fun x => div one x))⟩) := by
  induction xs generalizing h with
  | nil => simp [Harmonic.extend, Arith.extend]
  | cons x xs ih =>
    have h1 : le x (zero : F) = false := hx x (by simp)
    simp only [Harmonic.extend, Harmonic.append, h1]
    simp only [Bool.false_eq_true, if_false]
    rw [ih _ (fun y hy => hx y (by simp [hy]))]
    simp [Arith.extend_cons]

theorem Harmonic.extend_rejected (h : Harmonic F) (pre post : List F) (x : F)
    (hpre : ∀ y ∈ pre, le y (zero : F) = false) (hx : le x (zero : F) = true) :
    (Harmonic.extend h (pre ++ x :: post) : Outcome (Err W) (Harmonic F) × Harmonic F) =
      (.err (.nonPositiveValue (Widen.up x)), ⟨h.recip.extend (pre.map (fun x => div one x))⟩) := by
  induction pre generalizing h with
  | nil => simp [Harmonic.extend, Harmonic.append, hx, Arith.extend]
  | cons y pre ih =>
    have h1 : le y (zero : F) = false := hpre y (by simp)
    simp only [List.cons_append, Harmonic.extend, Harmonic.append, h1]
    simp only [Bool.false_eq_true, if_false]
    rw [ih _ (fun z hz => hpre z (by simp [hz]))]
    simp [Arith.extend_cons]

theorem Geometric.extend_accepted (g : Geometric F) (xs : List F)
    (hx : ∀ x ∈ xs, le x (zero : F) = false) :
    (Geometric.extend g xs : Outcome (Err W) (Geometric F) × Geometric F) =
      (.ok ⟨g.logs.extend (xs.map ln)⟩, ⟨g.logs.extend (xs.map ln)⟩) := by
  induction xs generalizing g with
  | nil => simp [Geometric.extend, Arith.extend]
  | cons x xs ih =>
    have h1 : le x (zero : F) = false := hx x (by simp)
    simp only [Geometric.extend, Geometric.append, h1]
    simp only [Bool.false_eq_true, if_false]
    rw [ih _ (fun y hy => hx y (by simp [hy]))]
    simp [Arith.extend_cons]

theorem Geometric.extend_rejected (g : Geometric F) (pre post : List F) (x : F)
    (hpre : ∀ y ∈ pre, le y (zero : F) = false) (hx : le x (zero : F) = true) :
    (Geometric.extend g (pre ++ x :: post) : Outcome (Err W) (Geometric F) × Geometric F) =
      (.err (.nonPositiveValue (Widen.up x)), ⟨g.logs.extend (pre.map ln)⟩) := by
  induction pre generalizing g with
  | nil => simp [Geometric.extend, Geometric.append, hx, Arith.extend]
  | cons y pre ih =>
    have h1 : le y (zero : F) = false := hpre y (by simp)
    simp only [List.cons_append, Geometric.extend, Geometric.append, h1]
    simp only [Bool.false_eq_true, if_false]
    rw [ih _ (fun z hz => hpre z (by simp [hz]))]
    simp [Arith.extend_cons]

end generic

/-! ## exact arithmetic -/

/-- a register pair whose compensations are zero (always the case in exact arithmetic) -/
def ExactState (a : Arith Rex) : Prop := a.sum.comp.val = 0 ∧ a.sumSq.comp.val = 0

theorem Arith.empty_exact : ExactState (Arith.empty : Arith Rex) := by
  simp [ExactState, Arith.empty, Kahan.empty, Kahan.new]

/-- exact arithmetic: the registers hold the exact sums, with zero compensation -/
theorem Arith.extend_exact (xs : List ℝ) (a : Arith Rex) (h : ExactState a) :
    (a.extend (xs.map inj)).sum.sum.val = a.sum.sum.val + xs.sum ∧
    (a.extend (xs.map inj)).sumSq.sum.val = a.sumSq.sum.val + (xs.map (fun x => x * x)).sum ∧
    (a.extend (xs.map inj)).count = a.count + xs.length ∧
    ExactState (a.extend (xs.map inj)) := by
  induction xs generalizing a with
  | nil => simp [Arith.extend, h]
  | cons x xs ih =>
    obtain ⟨h1, h2⟩ := h
    simp only [List.map_cons, Arith.extend_cons, List.sum_cons, List.length_cons]
    have hx : ExactState (a.append (inj x)) := by
      constructor <;> simp [Arith.append, Kahan.add, h1, h2]
    obtain ⟨e1, e2, e3, e4⟩ := ih (a.append (inj x)) hx
    refine ⟨?_, ?_, ?_, e4⟩
    · rw [e1]; simp [Arith.append, Kahan.add, h1]; ring
    · rw [e2]; simp [Arith.append, Kahan.add, h2]; ring
    · rw [e3]; simp [Arith.append]; omega

theorem Arith.fromList_sum_value (xs : List ℝ) :
    (Arith.fromList (xs.map inj) : Arith Rex).sum.value.val = xs.sum := by
  obtain ⟨e1, _, _, e4⟩ := Arith.extend_exact xs _ Arith.empty_exact
  simp only [Arith.fromList, Kahan.value, RR.add_val, id_eq, e1, e4.1]
  simp [Arith.empty, Kahan.empty, Kahan.new]

theorem Arith.fromList_sumSq_value (xs : List ℝ) :
    (Arith.fromList (xs.map inj) : Arith Rex).sumSq.value.val = (xs.map (fun x => x * x)).sum := by
  obtain ⟨_, e2, _, e4⟩ := Arith.extend_exact xs _ Arith.empty_exact
  simp only [Arith.fromList, Kahan.value, RR.add_val, id_eq, e2, e4.2]
  simp [Arith.empty, Kahan.empty, Kahan.new]

theorem Arith.fromList_mean (xs : List ℝ) :
    (Arith.fromList (xs.map inj) : Arith Rex).mean.val = smean xs := by
  simp only [Arith.mean, RR.div_val, id_eq, Arith.fromList_sum_value, RR.ofNat_val,
    Arith.fromList_count, List.length_map, smean]

/-- the variance register in terms of the exact sums, for every `n` (clamp still present) -/
theorem Arith.fromList_variance_raw (xs : List ℝ) :
    (Arith.fromList (xs.map inj) : Arith Rex).variance.val =
      max 0 (((xs.map (fun x => x * x)).sum - smean xs * xs.sum) / ((xs.length - 1 : ℕ) : ℝ)) := by
  unfold Arith.variance
  simp only [RR.lt_iff, RR.div_val, RR.sub_val, RR.mul_val, RR.ofNat_val, id_eq, RR.zero_val,
    Arith.fromList_count, List.length_map, Arith.fromList_sumSq_value, Arith.fromList_mean,
    Arith.fromList_sum_value]
  split_ifs with h
  · rw [max_eq_left (le_of_lt h)]; rfl
  · rw [max_eq_right (not_lt.mp h)]
    simp only [RR.div_val, RR.sub_val, RR.mul_val, RR.ofNat_val, id_eq,
      Arith.fromList_sumSq_value, Arith.fromList_mean, Arith.fromList_sum_value]

/-- the quantity the model divides and clamps equals `Σ(x - x̄)²/(n-1)`, which is `≥ 0`:
    the clamp never fires -/
theorem Arith.fromList_variance (xs : List ℝ) (hn : 2 ≤ xs.length) :
    (Arith.fromList (xs.map inj) : Arith Rex).variance.val = svar xs := by
  have hcast : ((xs.length - 1 : ℕ) : ℝ) = (xs.length : ℝ) - 1 := by
    rw [Nat.cast_sub (by omega)]; simp
  have hv : ((Arith.fromList (xs.map inj) : Arith Rex).sumSq.value.val -
      (Arith.fromList (xs.map inj) : Arith Rex).mean.val *
        (Arith.fromList (xs.map inj) : Arith Rex).sum.value.val) /
      ((xs.length - 1 : ℕ) : ℝ) = svar xs := by
    rw [Arith.fromList_sumSq_value, Arith.fromList_mean, Arith.fromList_sum_value, hcast,
      svar, sdev2_eq xs (by omega)]
  have h0 : ¬ svar xs < 0 := not_lt.mpr (svar_nonneg xs (by omega))
  unfold Arith.variance
  simp only [RR.lt_iff, RR.div_val, RR.sub_val, RR.mul_val, RR.ofNat_val, id_eq, RR.zero_val,
    Arith.fromList_count, List.length_map, hv, h0, if_false]

theorem Arith.fromList_stdDev (xs : List ℝ) (hn : 2 ≤ xs.length) :
    (Arith.fromList (xs.map inj) : Arith Rex).stdDev.val = ssd xs := by
  simp [Arith.stdDev, Arith.fromList_variance xs hn, ssd]

/-! ### confidence, critical values and `ci_mean` at `Rex` -/

/-- a valid level gives an admissible probability -/
theorem probOk_quantile (conf : Confidence Rex) (h0 : 0 < conf.level.val) (h1 : conf.level.val < 1) :
    probOk conf.quantile = true := by
  cases conf <;>
    simp only [Confidence.level] at h0 h1 <;>
    simp only [probOk, Confidence.quantile, Bool.and_eq_true, RR.le_iff, RR.zero_val, RR.one_val,
      RR.sub_val, RR.div_val, RR.add_val, id_eq] <;>
    constructor <;> linarith

/-- `ci_mean` at exact arithmetic, in terms of the state's `mean`, `stdDev` and `count` -/
theorem Arith.ciMean_rex (crit : Crit Rex) (a : Arith Rex) (conf : Confidence Rex)
    (hn : 2 ≤ a.count) (hp : probOk conf.quantile = true) :
    a.ciMean crit conf =
      intervalOfKind conf
        (⟨a.mean.val - (crit (critReq conf ⟨(a.count : ℝ) - 1⟩)).val *
            (a.stdDev.val / Real.sqrt a.count)⟩ : Rex)
        (⟨a.mean.val + (crit (critReq conf ⟨(a.count : ℝ) - 1⟩)).val *
            (a.stdDev.val / Real.sqrt a.count)⟩ : Rex) := by
  have hn' : ¬ a.count < 2 := by omega
  have hd : gt (sub (Scalar.ofNat a.count : Rex) one) (zero : Rex) = true := by
    have : (2 : ℝ) ≤ a.count := by exact_mod_cast hn
    simp only [RR.gt_iff, RR.zero_val, RR.sub_val, RR.ofNat_val, RR.one_val, id_eq]
    linarith
  have hdof : (sub (Scalar.ofNat a.count : Rex) one) = ⟨(a.count : ℝ) - 1⟩ := by
    apply RR.ext'; simp
  unfold Arith.ciMean Arith.ciPrep
  simp only [hn', if_false, RR.isFinite_eq, Bool.not_true, Bool.or_self, Bool.false_eq_true,
    Outcome.bind_ok, RR.up_eq, RR.down_eq]
  rw [intervalBounds_eq crit conf _ _ _ hd hp, Outcome.bind_ok, hdof]
  congr 1

/-- with an inadmissible probability `ci_mean` panics inside `inverse_cdf` -/
theorem Arith.ciMean_rex_panic (crit : Crit Rex) (a : Arith Rex) (conf : Confidence Rex)
    (hn : 2 ≤ a.count) (hp : probOk conf.quantile = false) :
    a.ciMean crit conf = .panic "inverse_cdf" := by
  have hn' : ¬ a.count < 2 := by omega
  have hd : gt (sub (Scalar.ofNat a.count : Rex) one) (zero : Rex) = true := by
    have : (2 : ℝ) ≤ a.count := by exact_mod_cast hn
    simp only [RR.gt_iff, RR.zero_val, RR.sub_val, RR.ofNat_val, RR.one_val, id_eq]
    linarith
  unfold Arith.ciMean Arith.ciPrep
  simp only [hn', if_false, RR.isFinite_eq, Bool.not_true, Bool.or_self, Bool.false_eq_true,
    Outcome.bind_ok, RR.up_eq, RR.down_eq]
  rw [intervalBounds_panic crit conf _ _ _ hd hp, Outcome.bind_panic]

/-- the critical value requested for a sample of size `n` (`dof = n - 1`) -/
noncomputable def critVal (crit : Crit Rex) (conf : Confidence Rex) (n : ℕ) : ℝ :=
  (crit (critReq conf ⟨(n : ℝ) - 1⟩)).val

/-- the half-width `c · s / √n` -/
noncomputable def halfWidth (crit : Crit Rex) (conf : Confidence Rex) (xs : List ℝ) : ℝ :=
  critVal crit conf xs.length * ssd xs / Real.sqrt xs.length

/-- `Arithmetic::ci` of real data at exact arithmetic -/
theorem Arith.ci_rex (crit : Crit Rex) (conf : Confidence Rex) (xs : List ℝ)
    (hn : 2 ≤ xs.length) (hp : probOk conf.quantile = true) :
    Arith.ci crit conf (xs.map inj) =
      intervalOfKind conf (⟨smean xs - halfWidth crit conf xs⟩ : Rex)
        ⟨smean xs + halfWidth crit conf xs⟩ := by
  have hc : (Arith.fromList (xs.map inj) : Arith Rex).count = xs.length := by
    simp [Arith.fromList_count]
  unfold Arith.ci
  rw [Arith.ciMean_rex crit _ conf (by omega) hp, hc, Arith.fromList_mean,
    Arith.fromList_stdDev xs hn]
  simp only [halfWidth, critVal, mul_div_assoc]

end StatsCI.MeanLemmas
