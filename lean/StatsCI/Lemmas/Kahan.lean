/-
  StatsCI.Lemmas.Kahan — the model's compensated-summation register `Kahan` at the carrier
  `RR fl` (ℝ with a rounding function after every operation): one-step drift identity, the
  generalised invariant `G`, its preservation by `Kahan.add`, re-targeting, list induction, the
  sequential bound, exactness at `fl = id`, and the structural facts about `Prog.evalA`.

  Everything is stated on the model functions `Kahan.add`, `Kahan.addList`, `Kahan.merge`,
  `Kahan.value`, `Prog.evalK`, `Prog.evalA` themselves.
-/
import StatsCI.Lemmas.RR
import StatsCI.Model.Program
import Mathlib.Tactic.Linarith
import Mathlib.Tactic.Ring
import Mathlib.Tactic.Positivity
import Mathlib.Algebra.Order.Ring.Abs
import Mathlib.Algebra.BigOperators.Group.List.Basic

namespace StatsCI
namespace KahanLemmas

/-! ### Σ|x| -/

/-- `Σ |x|` over a list -/
def sumAbs (xs : List ℝ) : ℝ := (xs.map abs).sum

@[simp] theorem sumAbs_nil : sumAbs [] = 0 := by simp [sumAbs]
@[simp] theorem sumAbs_cons (x : ℝ) (xs : List ℝ) : sumAbs (x :: xs) = |x| + sumAbs xs := by
  simp [sumAbs]
@[simp] theorem sumAbs_append (xs ys : List ℝ) : sumAbs (xs ++ ys) = sumAbs xs + sumAbs ys := by
  simp [sumAbs]
theorem sumAbs_singleton (x : ℝ) : sumAbs [x] = |x| := by simp

theorem sumAbs_nonneg : ∀ l : List ℝ, 0 ≤ sumAbs l
  | [] => by simp
  | x :: xs => by
    have := sumAbs_nonneg xs; have := abs_nonneg x; rw [sumAbs_cons]; linarith

theorem abs_sum_le_sumAbs : ∀ l : List ℝ, |l.sum| ≤ sumAbs l
  | [] => by simp
  | x :: xs => by
    have := abs_sum_le_sumAbs xs
    have := abs_add_le x xs.sum
    rw [List.sum_cons, sumAbs_cons]; linarith

theorem sumAbs_perm {xs ys : List ℝ} (h : xs.Perm ys) : sumAbs xs = sumAbs ys :=
  (h.map abs).sum_eq

/-! ### The model step at `RR fl`, unfolded -/

variable {fl : ℝ → ℝ}

theorem add_sum_val (k : Kahan (RR fl)) (x : RR fl) :
    (k.add x).sum.val = fl (k.sum.val + fl (x.val - k.comp.val)) := rfl

theorem add_comp_val (k : Kahan (RR fl)) (x : RR fl) :
    (k.add x).comp.val =
      fl (fl (fl (k.sum.val + fl (x.val - k.comp.val)) - k.sum.val) - fl (x.val - k.comp.val)) :=
  rfl

theorem value_val (k : Kahan (RR fl)) : k.value.val = fl (k.sum.val + k.comp.val) := rfl

theorem merge_eq (k r : Kahan (RR fl)) : k.merge r = (k.add r.sum).add r.comp := rfl

@[simp] theorem empty_sum_val : (Kahan.empty : Kahan (RR fl)).sum.val = 0 := rfl
@[simp] theorem empty_comp_val : (Kahan.empty : Kahan (RR fl)).comp.val = 0 := rfl

theorem addList_nil (k : Kahan (RR fl)) : k.addList [] = k := rfl
theorem addList_cons (k : Kahan (RR fl)) (x : RR fl) (xs : List (RR fl)) :
    k.addList (x :: xs) = (k.add x).addList xs := rfl
theorem addList_append (k : Kahan (RR fl)) (xs ys : List (RR fl)) :
    k.addList (xs ++ ys) = (k.addList xs).addList ys := by
  simp [Kahan.addList, List.foldl_append]

theorem abs_fl_le {u : ℝ} (hfl : ∀ x, |fl x - x| ≤ u * |x|) (x : ℝ) : |fl x| ≤ (1 + u) * |x| := by
  have h := hfl x
  have : |fl x| ≤ |fl x - x| + |x| := by
    have := abs_add_le (fl x - x) x
    simpa using this
  linarith

/-! ### One-step drift (DESIGN.md Appendix A.1) -/

/-- The drift identity of one model step: with `a = x − c`, `y = fl a`, `t = fl (s + y)`,
    `d = fl (t − s)`, `c' = fl (d − y)` the new register is `(t, c')` and
    `(t − c') − ((s − c) + x) = (y − a) − (c' − (d − y)) − (d − (t − s))`:
    the rounding error `t − (s + y)` of the main addition does not occur. -/
theorem drift_identity (k : Kahan (RR fl)) (x : RR fl) :
    let s := k.sum.val
    let c := k.comp.val
    let a := x.val - c
    let y := fl a
    let t := fl (s + y)
    let d := fl (t - s)
    let c' := fl (d - y)
    (k.add x).sum.val = t ∧ (k.add x).comp.val = c' ∧
    ((k.add x).sum.val - (k.add x).comp.val) - ((s - c) + x.val)
      = (y - a) - (c' - (d - y)) - (d - (t - s)) := by
  intro s c a y t d c'
  refine ⟨rfl, rfl, ?_⟩
  rw [add_sum_val, add_comp_val]
  simp only [s, c, a, y, t, d, c']
  ring

/-- the drift of one model step is bounded by three *small* rounding errors -/
theorem step_drift {u : ℝ} (hfl : ∀ x, |fl x - x| ≤ u * |x|)
    (k : Kahan (RR fl)) (x : RR fl) :
    |((k.add x).sum.val - (k.add x).comp.val) - ((k.sum.val - k.comp.val) + x.val)| ≤
      u * |x.val - k.comp.val|
        + (u * |fl (k.sum.val + fl (x.val - k.comp.val)) - k.sum.val|
          + u * |fl (fl (k.sum.val + fl (x.val - k.comp.val)) - k.sum.val)
                  - fl (x.val - k.comp.val)|) := by
  obtain ⟨_, _, key⟩ := drift_identity k x
  rw [key]
  set s := k.sum.val
  set c := k.comp.val
  set a := x.val - c with ha
  set y := fl a with hy
  set t := fl (s + y) with ht
  set d := fl (t - s) with hd
  set c' := fl (d - y) with hc'
  have h1 : |y - a| ≤ u * |a| := hfl a
  have h3 : |d - (t - s)| ≤ u * |t - s| := hfl (t - s)
  have h4 : |c' - (d - y)| ≤ u * |d - y| := hfl (d - y)
  calc |(y - a) - (c' - (d - y)) - (d - (t - s))|
      ≤ |y - a| + |c' - (d - y)| + |d - (t - s)| := by
        have := abs_sub ((y - a) - (c' - (d - y))) (d - (t - s))
        have := abs_sub (y - a) (c' - (d - y))
        linarith
    _ ≤ u * |a| + (u * |t - s| + u * |d - y|) := by linarith

/-! ### The generalised invariant (DESIGN.md Appendix A.2) -/

/-- the three tracking facts: the register `(s, c)` tracks the target `S` (through `s − c`) with
    magnitude budget `T` and error allowance `E` -/
structure Inv (u S T E s c : ℝ) : Prop where
  hT : |S| ≤ T
  hc : |c| ≤ 3 * u * T
  he : |s - c - S| ≤ E

/-- generalised invariant: `Inv` together with the side condition `E ≤ T / 4` that lets the next
    step be taken -/
structure G (u S T E s c : ℝ) : Prop where
  hT : |S| ≤ T
  hc : |c| ≤ 3 * u * T
  he : |s - c - S| ≤ E
  hE : E ≤ T / 4

theorem G.inv {u S T E s c : ℝ} (h : G u S T E s c) : Inv u S T E s c := ⟨h.hT, h.hc, h.he⟩
theorem Inv.toG {u S T E s c : ℝ} (h : Inv u S T E s c) (hE : E ≤ T / 4) : G u S T E s c :=
  ⟨h.hT, h.hc, h.he, hE⟩

theorem Inv.T_nonneg {u S T E s c : ℝ} (h : Inv u S T E s c) : 0 ≤ T :=
  le_trans (abs_nonneg _) h.hT
theorem G.T_nonneg {u S T E s c : ℝ} (h : G u S T E s c) : 0 ≤ T := h.inv.T_nonneg

/-- under `G` the main register is at most `83/64 · T` -/
theorem G.abs_s_le {u S T E s c : ℝ} (h : G u S T E s c) (hu' : u ≤ 1 / 64) :
    |s| ≤ (83 / 64) * T := by
  obtain ⟨hT, hc, he, hE⟩ := h
  have hT0 : 0 ≤ T := le_trans (abs_nonneg _) hT
  have h1 : |s| ≤ |s - c - S| + |c| + |S| := by
    have e : s = (s - c - S) + c + S := by ring
    calc |s| = |(s - c - S) + c + S| := by rw [← e]
      _ ≤ |(s - c - S) + c| + |S| := abs_add_le _ _
      _ ≤ |s - c - S| + |c| + |S| := by have := abs_add_le (s - c - S) c; linarith
  have h2 : 3 * u * T ≤ (3 / 64) * T := by nlinarith
  linarith

/-- one model step under the invariant: the three tracking facts of the new register; the side
    condition is needed of the *old* state only -/
theorem step_inv {u : ℝ} (hu : 0 ≤ u) (hu' : u ≤ 1 / 64) (hfl : ∀ x, |fl x - x| ≤ u * |x|)
    (S T E : ℝ) (k : Kahan (RR fl)) (x : RR fl) (h : G u S T E k.sum.val k.comp.val) :
    Inv u (S + x.val) (T + |x.val|) (E + 2 * u * |x.val| + 9 * u ^ 2 * (T + |x.val|))
      (k.add x).sum.val (k.add x).comp.val := by
  have hs : |k.sum.val| ≤ (83 / 64) * T := h.abs_s_le hu'
  obtain ⟨hT, hc, he, hE⟩ := h
  have hT0 : 0 ≤ T := le_trans (abs_nonneg _) hT
  have hdrift := step_drift hfl k x
  rw [add_sum_val, add_comp_val] at hdrift ⊢
  set s := k.sum.val
  set c := k.comp.val
  set x := x.val
  have hX0 : 0 ≤ |x| := abs_nonneg x
  set a := x - c with ha
  set y := fl a with hy
  set t := fl (s + y) with ht
  set d := fl (t - s) with hd
  set c' := fl (d - y) with hc'
  have huT : 0 ≤ u * T := mul_nonneg hu hT0
  have huX : 0 ≤ u * |x| := mul_nonneg hu hX0
  have hau : |a| ≤ |x| + 3 * u * T := by
    have := abs_sub x c
    simp only [ha]; linarith
  have hyb : |y| ≤ (1 + u) * |a| := abs_fl_le hfl a
  have hr : |t - (s + y)| ≤ u * |s + y| := hfl (s + y)
  have hsy : |s + y| ≤ |s| + |y| := abs_add_le s y
  have hts : |t - s| ≤ |y| + |t - (s + y)| := by
    have e : t - s = y + (t - (s + y)) := by ring
    rw [e]; exact abs_add_le _ _
  have hdts : |d - (t - s)| ≤ u * |t - s| := hfl (t - s)
  have hdy : |d - y| ≤ |t - (s + y)| + |d - (t - s)| := by
    have e : d - y = (t - (s + y)) + (d - (t - s)) := by ring
    rw [e]; exact abs_add_le _ _
  have hc'b : |c'| ≤ (1 + u) * |d - y| := abs_fl_le hfl (d - y)
  have hA0 := abs_nonneg a
  have hY0 := abs_nonneg y
  have hR0 := abs_nonneg (t - (s + y))
  have hS0 := abs_nonneg s
  have hTS0 := abs_nonneg (t - s)
  have hDY0 := abs_nonneg (d - y)
  have f1 : u * (u * |x|) ≤ (u * |x|) / 64 := by
    have := mul_le_mul_of_nonneg_right hu' huX; linarith
  have f2 : u * (u * T) ≤ (u * T) / 64 := by
    have := mul_le_mul_of_nonneg_right hu' huT; linarith
  have hY1 : |y| ≤ |x| + u * |x| + (3 + 3 / 64) * (u * T) := by
    have h1 : (1 + u) * |a| ≤ (1 + u) * (|x| + 3 * u * T) :=
      mul_le_mul_of_nonneg_left hau (by linarith)
    linarith
  have hSY : |s| + |y| ≤ (83 / 64) * T + |x| + u * |x| + (3 + 3 / 64) * (u * T) := by linarith
  have hR1 : |t - (s + y)| ≤ (1 + 23 / 64) * (u * T) + (1 + 1 / 64) * (u * |x|) := by
    have h1 : u * |s + y| ≤ u * ((83 / 64) * T + |x| + u * |x| + (3 + 3 / 64) * (u * T)) :=
      mul_le_mul_of_nonneg_left (le_trans hsy hSY) hu
    linarith
  have hTS1 : |t - s| ≤ |x| + (2 + 2 / 64) * (u * |x|) + (4 + 27 / 64) * (u * T) := by linarith
  have hDY1 : |d - y| ≤ (2 + 4 / 64) * (u * |x|) + (1 + 28 / 64) * (u * T) := by
    have h1 : u * |t - s| ≤ u * (|x| + (2 + 2 / 64) * (u * |x|) + (4 + 27 / 64) * (u * T)) :=
      mul_le_mul_of_nonneg_left hTS1 hu
    linarith
  refine ⟨?_, ?_, ?_⟩
  · have := abs_add_le S x; linarith
  · have h1 : (1 + u) * |d - y| ≤ (1 + u) * ((2 + 4 / 64) * (u * |x|) + (1 + 28 / 64) * (u * T)) :=
      mul_le_mul_of_nonneg_left hDY1 (by linarith)
    linarith
  · have hsplit : t - c' - (S + x) = (t - c' - (s - c + x)) + (s - c - S) := by ring
    have h0 : |t - c' - (S + x)| ≤ |t - c' - (s - c + x)| + |s - c - S| := by
      rw [hsplit]; exact abs_add_le _ _
    have h1 : u * |a| ≤ u * (|x| + 3 * u * T) := mul_le_mul_of_nonneg_left hau hu
    have h2 : u * |t - s| ≤ u * (|x| + (2 + 2 / 64) * (u * |x|) + (4 + 27 / 64) * (u * T)) :=
      mul_le_mul_of_nonneg_left hTS1 hu
    have h3 : u * |d - y| ≤ u * ((2 + 4 / 64) * (u * |x|) + (1 + 28 / 64) * (u * T)) :=
      mul_le_mul_of_nonneg_left hDY1 hu
    have g2 : 0 ≤ u * (u * |x|) := mul_nonneg hu huX
    have g3 : 0 ≤ u * (u * T) := mul_nonneg hu huT
    linarith

/-- one model step preserves the generalised invariant (the side condition for the *next* step,
    `E' ≤ T'/4`, is supplied by the caller) -/
theorem g_step {u : ℝ} (hu : 0 ≤ u) (hu' : u ≤ 1 / 64) (hfl : ∀ x, |fl x - x| ≤ u * |x|)
    (S T E : ℝ) (k : Kahan (RR fl)) (x : RR fl) (h : G u S T E k.sum.val k.comp.val)
    (hnext : E + 2 * u * |x.val| + 9 * u ^ 2 * (T + |x.val|) ≤ (T + |x.val|) / 4) :
    G u (S + x.val) (T + |x.val|) (E + 2 * u * |x.val| + 9 * u ^ 2 * (T + |x.val|))
      (k.add x).sum.val (k.add x).comp.val :=
  (step_inv hu hu' hfl S T E k x h).toG hnext

/-- re-targeting of the tracking facts: a nearby target, a larger budget, a larger allowance -/
theorem inv_retarget {u : ℝ} (S S' T T' E E' s c : ℝ) (h : Inv u S T E s c) (hu : 0 ≤ u)
    (hS : |S' - S| ≤ E' - E) (hT : T ≤ T') (hS' : |S'| ≤ T') : Inv u S' T' E' s c := by
  obtain ⟨h1, h2, h3⟩ := h
  refine ⟨hS', ?_, ?_⟩
  · have : 3 * u * T ≤ 3 * u * T' := by nlinarith
    linarith
  · have e : s - c - S' = (s - c - S) - (S' - S) := by ring
    have := abs_sub (s - c - S) (S' - S)
    rw [e]; linarith

/-- re-targeting: the same register tracks a nearby target with a larger allowance -/
theorem g_retarget {u : ℝ} (S S' T T' E E' s c : ℝ) (h : G u S T E s c) (hu : 0 ≤ u)
    (hS : |S' - S| ≤ E' - E) (hT : T ≤ T') (hS' : |S'| ≤ T') (hE' : E' ≤ T' / 4) :
    G u S' T' E' s c :=
  (inv_retarget S S' T T' E E' s c h.inv hu hS hT hS').toG hE'

/-! ### List induction and the sequential theorem -/

/-- closed-form allowance after `k` steps with budget `T` -/
noncomputable def allow (u : ℝ) (k : ℕ) (T : ℝ) : ℝ := (2 * u + 9 * k * u ^ 2) * T

theorem allow_quarter {u : ℝ} (hu : 0 ≤ u) (hu' : u ≤ 1 / 64) (k : ℕ) (hk : (k : ℝ) * u ≤ 1)
    (T : ℝ) (hT : 0 ≤ T) : allow u k T ≤ T / 4 := by
  unfold allow
  have h1 : (k:ℝ) * u * (u * T) ≤ 1 * (u * T) :=
    mul_le_mul_of_nonneg_right hk (mul_nonneg hu hT)
  have h2 : u * T ≤ (1 / 64) * T := mul_le_mul_of_nonneg_right hu' hT
  nlinarith

/-- main induction: from any state satisfying the invariant with the closed-form allowance -/
theorem run_inv {u : ℝ} (hu : 0 ≤ u) (hu' : u ≤ 1 / 64) (hfl : ∀ x, |fl x - x| ≤ u * |x|) :
    ∀ (xs : List ℝ) (n : ℕ) (S T : ℝ) (k : Kahan (RR fl)),
      ((n + xs.length : ℕ) : ℝ) * u ≤ 1 →
      G u S T (allow u n T) k.sum.val k.comp.val →
      G u (S + xs.sum) (T + sumAbs xs) (allow u (n + xs.length) (T + sumAbs xs))
        (k.addList (xs.map inj)).sum.val (k.addList (xs.map inj)).comp.val
  | [], n, S, T, k, _, h => by simpa [addList_nil] using h
  | x :: xs, n, S, T, k, hk, h => by
    have hT0 : 0 ≤ T := h.T_nonneg
    have hX0 : 0 ≤ |x| := abs_nonneg x
    have hk1 : (((n + 1 : ℕ) : ℝ)) * u ≤ 1 := by
      have : ((n + 1 : ℕ) : ℝ) ≤ ((n + (x :: xs).length : ℕ) : ℝ) := by
        norm_cast; simp
      nlinarith
    have hq := allow_quarter hu hu' (n + 1) hk1 (T + |x|) (by linarith)
    have hle : allow u n T + 2 * u * |x| + 9 * u ^ 2 * (T + |x|) ≤ allow u (n + 1) (T + |x|) := by
      unfold allow
      have g1 : 0 ≤ (n:ℝ) * (u ^ 2 * |x|) :=
        mul_nonneg (Nat.cast_nonneg n) (mul_nonneg (sq_nonneg u) hX0)
      push_cast
      nlinarith
    have hstep := g_step hu hu' hfl S T (allow u n T) k (inj x) h (le_trans hle hq)
    simp only [inj_val] at hstep
    have hstep' : G u (S + x) (T + |x|) (allow u (n + 1) (T + |x|))
        (k.add (inj x)).sum.val (k.add (inj x)).comp.val :=
      g_retarget (S + x) (S + x) (T + |x|) (T + |x|) _ _ _ _ hstep hu (by simpa using hle)
        le_rfl hstep.hT hq
    have hk' : (((n + 1) + xs.length : ℕ) : ℝ) * u ≤ 1 := by
      have : (n + 1) + xs.length = n + (x :: xs).length := by simp; omega
      rw [this]; exact hk
    have ih := run_inv hu hu' hfl xs (n + 1) (S + x) (T + |x|) _ hk' hstep'
    have e1 : S + (x :: xs).sum = S + x + xs.sum := by simp [List.sum_cons]; ring
    have e2 : T + sumAbs (x :: xs) = T + |x| + sumAbs xs := by simp; ring
    have e3 : n + (x :: xs).length = n + 1 + xs.length := by simp; omega
    rw [e1, e2, e3, List.map_cons, addList_cons]
    exact ih

/-- the price of reading a register through the crate's `value = fl (s + c)` (the register
    tracks `s − c`): `|value − S| ≤ E + 8u·T` -/
theorem value_bound {u : ℝ} (hu : 0 ≤ u) (hu' : u ≤ 1 / 64) (hfl : ∀ x, |fl x - x| ≤ u * |x|)
    (S T E : ℝ) (k : Kahan (RR fl)) (h : G u S T E k.sum.val k.comp.val) :
    |k.value.val - S| ≤ E + 8 * u * T := by
  have hsb := h.abs_s_le hu'
  obtain ⟨hT, hc, he, hE⟩ := h
  rw [value_val]
  set s := k.sum.val
  set c := k.comp.val
  have hT0 : 0 ≤ T := le_trans (abs_nonneg _) hT
  have hfin : |fl (s + c) - (s + c)| ≤ u * |s + c| := hfl (s + c)
  have hsc : |s + c| ≤ |s| + |c| := abs_add_le s c
  have hsplit : fl (s + c) - S = (fl (s + c) - (s + c)) + (s - c - S) + 2 * c := by ring
  have h2c : |2 * c| = 2 * |c| := by rw [abs_mul]; simp
  have hmain : |fl (s + c) - S| ≤ u * (|s| + |c|) + E + 2 * |c| := by
    rw [hsplit]
    have a1 := abs_add_le ((fl (s + c) - (s + c)) + (s - c - S)) (2 * c)
    have a2 := abs_add_le (fl (s + c) - (s + c)) (s - c - S)
    have a3 : u * |s + c| ≤ u * (|s| + |c|) := mul_le_mul_of_nonneg_left hsc hu
    rw [h2c] at a1
    linarith
  have huT : 0 ≤ u * T := mul_nonneg hu hT0
  have f2 : u * (u * T) ≤ (u * T) / 64 := by
    have := mul_le_mul_of_nonneg_right hu' huT; linarith
  have hus : u * (|s| + |c|) ≤ u * ((83 / 64) * T + 3 * u * T) :=
    mul_le_mul_of_nonneg_left (by linarith) hu
  linarith

/-- Kahan summation from the empty register, read through the crate's `value = fl (s + c)` -/
theorem kahan_sequential {u : ℝ} (hu : 0 ≤ u) (hu' : u ≤ 1 / 64)
    (hfl : ∀ x, |fl x - x| ≤ u * |x|) (xs : List ℝ) (hn : (xs.length : ℝ) * u ≤ 1) :
    |((Kahan.empty : Kahan (RR fl)).addList (xs.map inj)).value.val - xs.sum| ≤
      (10 * u + 9 * (xs.length + 2) * u ^ 2) * sumAbs xs := by
  have h0 : G u 0 0 (allow u 0 0) (Kahan.empty : Kahan (RR fl)).sum.val
      (Kahan.empty : Kahan (RR fl)).comp.val := by
    refine ⟨by simp, by simp, by simp [allow], by simp [allow]⟩
  have h := run_inv hu hu' hfl xs 0 0 0 (Kahan.empty : Kahan (RR fl)) (by simpa using hn) h0
  simp only [zero_add] at h
  have hv := value_bound hu hu' hfl _ _ _ _ h
  have hT0 : 0 ≤ sumAbs xs := sumAbs_nonneg xs
  have g : 0 ≤ u ^ 2 * sumAbs xs := mul_nonneg (sq_nonneg u) hT0
  unfold allow at hv
  nlinarith

/-! ### Exact arithmetic (`fl = id`) -/

theorem add_exact (k : Kahan Rex) (x : Rex) :
    (k.add x).sum.val = k.sum.val + x.val - k.comp.val ∧ (k.add x).comp.val = 0 := by
  rw [add_sum_val, add_comp_val]
  simp only [id]
  constructor <;> ring

theorem addList_exact (xs : List ℝ) (k : Kahan Rex) (hc : k.comp.val = 0) :
    (k.addList (xs.map inj)).sum.val = k.sum.val + xs.sum ∧
    (k.addList (xs.map inj)).comp.val = 0 := by
  induction xs generalizing k with
  | nil => simp [addList_nil, hc]
  | cons x xs ih =>
    rw [List.map_cons, addList_cons]
    obtain ⟨h1, h2⟩ := add_exact k (inj x)
    obtain ⟨i1, i2⟩ := ih (k.add (inj x)) h2
    refine ⟨?_, i2⟩
    rw [i1, h1, hc, List.sum_cons, inj_val]; ring

theorem merge_exact (k r : Kahan Rex) :
    (k.merge r).sum.val = k.sum.val - k.comp.val + r.sum.val + r.comp.val ∧
    (k.merge r).comp.val = 0 := by
  rw [merge_eq]
  obtain ⟨h1, h2⟩ := add_exact k r.sum
  obtain ⟨h3, h4⟩ := add_exact (k.add r.sum) r.comp
  refine ⟨?_, h4⟩
  rw [h3, h1, h2]; ring

/-- every accumulation history at exact arithmetic: exact sum, zero compensation -/
theorem evalK_exact (p : Prog ℝ) :
    ((p.map inj).evalK : Kahan Rex).sum.val = p.data.sum ∧
    ((p.map inj).evalK : Kahan Rex).comp.val = 0 := by
  induction p with
  | empty => simp [Prog.map, Prog.evalK, Prog.data]
  | append p x ih =>
    obtain ⟨i1, i2⟩ := ih
    obtain ⟨h1, h2⟩ := add_exact ((p.map inj).evalK) (inj x)
    simp only [Prog.map, Prog.evalK, Prog.data, List.sum_append, List.sum_singleton]
    refine ⟨?_, h2⟩
    rw [h1, i1, i2, inj_val]; ring
  | extend p xs ih =>
    obtain ⟨i1, i2⟩ := ih
    obtain ⟨h1, h2⟩ := addList_exact xs ((p.map inj).evalK) i2
    simp only [Prog.map, Prog.evalK, Prog.data, List.sum_append]
    refine ⟨?_, h2⟩
    rw [h1, i1]
  | merge l r ihl ihr =>
    obtain ⟨l1, l2⟩ := ihl
    obtain ⟨r1, r2⟩ := ihr
    obtain ⟨h1, h2⟩ := merge_exact ((l.map inj).evalK) ((r.map inj).evalK)
    simp only [Prog.map, Prog.evalK, Prog.data, List.sum_append]
    refine ⟨?_, h2⟩
    rw [h1, l1, l2, r1, r2]; ring

/-! ### Structure of `Prog` and of `Prog.evalA` (any carrier) -/

section generic
variable {α β γ : Type}

theorem data_map (f : α → β) (p : Prog α) : (p.map f).data = p.data.map f := by
  induction p with
  | empty => rfl
  | append p x ih => simp [Prog.map, Prog.data, ih]
  | extend p xs ih => simp [Prog.map, Prog.data, ih]
  | merge l r ihl ihr => simp [Prog.map, Prog.data, ihl, ihr]

theorem map_map (f : α → β) (g : β → γ) (p : Prog α) : (p.map f).map g = p.map (g ∘ f) := by
  induction p with
  | empty => rfl
  | append p x ih => simp [Prog.map, ih]
  | extend p xs ih => simp [Prog.map, ih]
  | merge l r ihl ihr => simp [Prog.map, ihl, ihr]

theorem steps_map (f : α → β) (p : Prog α) : (p.map f).steps = p.steps := by
  induction p with
  | empty => rfl
  | append p x ih => simp [Prog.map, Prog.steps, ih]
  | extend p xs ih => simp [Prog.map, Prog.steps, ih]
  | merge l r ihl ihr => simp [Prog.map, Prog.steps, ihl, ihr]

theorem rdepth_map (f : α → β) (p : Prog α) : (p.map f).rdepth = p.rdepth := by
  induction p with
  | empty => rfl
  | append p x ih => simp [Prog.map, Prog.rdepth, ih]
  | extend p xs ih => simp [Prog.map, Prog.rdepth, ih]
  | merge l r ihl ihr => simp [Prog.map, Prog.rdepth, ihl, ihr]

variable [Scalar α]

theorem extend_fields (xs : List α) (a : Arith α) :
    (a.extend xs).sum = a.sum.addList xs ∧
    (a.extend xs).sumSq = a.sumSq.addList (xs.map fun x => NumOps.mul x x) ∧
    (a.extend xs).count = a.count + xs.length := by
  induction xs generalizing a with
  | nil => exact ⟨rfl, rfl, rfl⟩
  | cons x xs ih =>
    obtain ⟨h1, h2, h3⟩ := ih (a.append x)
    refine ⟨?_, ?_, ?_⟩
    · exact h1
    · exact h2
    · show ((a.append x).extend xs).count = _
      rw [h3]; simp only [Arith.append, List.length_cons]; omega

theorem evalA_fields (p : Prog α) :
    p.evalA.sum = p.evalK ∧
    p.evalA.sumSq = (p.map fun x => NumOps.mul x x).evalK ∧
    p.evalA.count = p.data.length := by
  induction p with
  | empty => exact ⟨rfl, rfl, rfl⟩
  | append p x ih =>
    obtain ⟨h1, h2, h3⟩ := ih
    refine ⟨?_, ?_, ?_⟩
    · show p.evalA.sum.add x = p.evalK.add x
      rw [h1]
    · show p.evalA.sumSq.add (NumOps.mul x x) = _
      rw [h2]; rfl
    · show p.evalA.count + 1 = _
      rw [h3]; simp [Prog.data]
  | extend p xs ih =>
    obtain ⟨h1, h2, h3⟩ := ih
    obtain ⟨e1, e2, e3⟩ := extend_fields xs p.evalA
    refine ⟨?_, ?_, ?_⟩
    · show (p.evalA.extend xs).sum = p.evalK.addList xs
      rw [e1, h1]
    · show (p.evalA.extend xs).sumSq = _
      rw [e2, h2]; rfl
    · show (p.evalA.extend xs).count = _
      rw [e3, h3]; simp [Prog.data]
  | merge l r ihl ihr =>
    obtain ⟨l1, l2, l3⟩ := ihl
    obtain ⟨r1, r2, r3⟩ := ihr
    refine ⟨?_, ?_, ?_⟩
    · show l.evalA.sum.merge r.evalA.sum = l.evalK.merge r.evalK
      rw [l1, r1]
    · show l.evalA.sumSq.merge r.evalA.sumSq = _
      rw [l2, r2]; rfl
    · show l.evalA.count + r.evalA.count = _
      rw [l3, r3]; simp [Prog.data]

end generic

end KahanLemmas
end StatsCI
