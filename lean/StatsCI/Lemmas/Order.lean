/-
  StatsCI.Lemmas.Order — the model's `Cmp` operations interpreted over a linear order, the closed
  set an `Interval` denotes, and well-formedness.
-/
import StatsCI.Model.Interval
import Mathlib.Order.Interval.Set.Basic
import Mathlib.Order.Max

namespace StatsCI

/-- the comparison operations of any linear order (what `PartialOrd` is for a totally ordered type) -/
@[reducible] def Cmp.ofLinearOrder (α : Type) [LinearOrder α] : Cmp α where
  le a b := decide (a ≤ b)
  lt a b := decide (a < b)
  eq a b := decide (a = b)

namespace Interval
variable {α : Type}

/-- the closed set an interval denotes -/
def den [Preorder α] : Interval α → Set α
  | .twoSided lo hi => Set.Icc lo hi
  | .upper lo => Set.Ici lo
  | .lower hi => Set.Iic hi

/-- well-formed: `low ≤ high` for a two-sided interval -/
def WF [LE α] : Interval α → Prop
  | .twoSided lo hi => lo ≤ hi
  | _ => True

end Interval

section
variable {α : Type} [LinearOrder α]
attribute [local instance] Cmp.ofLinearOrder

@[simp] theorem cmp_le_iff (a b : α) : (Cmp.le a b = true) ↔ a ≤ b := by simp [Cmp.le]
@[simp] theorem cmp_lt_iff (a b : α) : (Cmp.lt a b = true) ↔ a < b := by simp [Cmp.lt]
@[simp] theorem cmp_eq_iff (a b : α) : (Cmp.eq a b = true) ↔ a = b := by simp [Cmp.eq]
@[simp] theorem ge_iff' (a b : α) : (ge a b = true) ↔ b ≤ a := by simp [ge]
@[simp] theorem gt_iff' (a b : α) : (gt a b = true) ↔ b < a := by simp [gt]
end

end StatsCI
