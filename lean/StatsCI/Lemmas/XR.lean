/-
  StatsCI.Lemmas.XR — the extended reals with a NaN: `ℝ ∪ {NaN, −∞, +∞}` as a `Scalar` instance
  with IEEE-754 style comparison and propagation, *exact* on finite values.

  What it models: the special values of `f64` (NaN is absorbing and unordered, `∞ − ∞`, `0·∞`,
  `0/0`, `∞/∞` are NaN, `x/0 = ±∞`, `sqrt`/`ln` of a negative number is NaN, `ln 0 = −∞`,
  `exp(−∞) = 0`). What it does not model: rounding, overflow of finite results, signed zeros.
-/
import StatsCI.Model.Mean
import StatsCI.Model.Comparison
import StatsCI.Model.Proportion
import StatsCI.Model.Quantile
import Mathlib.Analysis.Real.Sqrt
import Mathlib.Analysis.SpecialFunctions.Log.Basic
import Mathlib.Algebra.Order.Round
import Mathlib.Algebra.Order.Floor.Semiring

namespace StatsCI

/-- `ℝ ∪ {NaN, −∞, +∞}` -/
inductive XR where
  | nan
  | ninf
  | pinf
  | fin (r : ℝ)

namespace XR

/-- `<=` of IEEE-754: false whenever a NaN is involved -/
noncomputable def le : XR → XR → Bool
  | nan, _ => false
  | ninf, nan => false
  | ninf, _ => true
  | pinf, pinf => true
  | pinf, _ => false
  | fin _, nan => false
  | fin _, ninf => false
  | fin _, pinf => true
  | fin a, fin b => decide (a ≤ b)

/-- `<` of IEEE-754 -/
noncomputable def lt : XR → XR → Bool
  | nan, _ => false
  | ninf, pinf => true
  | ninf, fin _ => true
  | ninf, _ => false
  | pinf, _ => false
  | fin _, pinf => true
  | fin a, fin b => decide (a < b)
  | fin _, _ => false

/-- `==` of IEEE-754: `NaN ≠ NaN` -/
noncomputable def eq : XR → XR → Bool
  | ninf, ninf => true
  | pinf, pinf => true
  | fin a, fin b => decide (a = b)
  | _, _ => false

def neg : XR → XR
  | nan => nan
  | ninf => pinf
  | pinf => ninf
  | fin r => fin (-r)

noncomputable def add : XR → XR → XR
  | nan, _ => nan
  | ninf, nan => nan
  | ninf, pinf => nan
  | ninf, _ => ninf
  | pinf, nan => nan
  | pinf, ninf => nan
  | pinf, _ => pinf
  | fin _, nan => nan
  | fin _, ninf => ninf
  | fin _, pinf => pinf
  | fin a, fin b => fin (a + b)

noncomputable def sub : XR → XR → XR
  | fin a, fin b => fin (a - b)
  | a, b => add a (neg b)

/-- `(±∞) · x`, the sign of the infinity given by `pos` -/
noncomputable def mulInf (pos : Bool) : XR → XR
  | nan => nan
  | pinf => if pos then pinf else ninf
  | ninf => if pos then ninf else pinf
  | fin r => if r = 0 then nan else if 0 < r then (if pos then pinf else ninf)
      else (if pos then ninf else pinf)

noncomputable def mul : XR → XR → XR
  | nan, _ => nan
  | pinf, x => mulInf true x
  | ninf, x => mulInf false x
  | fin _, nan => nan
  | fin r, pinf => mulInf true (fin r)
  | fin r, ninf => mulInf false (fin r)
  | fin a, fin b => fin (a * b)

/-- IEEE division with a single (positive) zero: `x/0 = ±∞` by the sign of `x`, `0/0 = NaN` -/
noncomputable def div : XR → XR → XR
  | nan, _ => nan
  | pinf, fin r => if r < 0 then ninf else pinf
  | pinf, _ => nan
  | ninf, fin r => if r < 0 then pinf else ninf
  | ninf, _ => nan
  | fin _, nan => nan
  | fin _, pinf => fin 0
  | fin _, ninf => fin 0
  | fin a, fin b =>
      if b = 0 then (if a = 0 then nan else if 0 < a then pinf else ninf) else fin (a / b)

noncomputable def sqrt : XR → XR
  | nan => nan
  | ninf => nan
  | pinf => pinf
  | fin r => if r < 0 then nan else fin (Real.sqrt r)

noncomputable def ln : XR → XR
  | nan => nan
  | ninf => nan
  | pinf => pinf
  | fin r => if r < 0 then nan else if r = 0 then ninf else fin (Real.log r)

noncomputable def exp : XR → XR
  | nan => nan
  | ninf => fin 0
  | pinf => pinf
  | fin r => fin (Real.exp r)

def isFinite : XR → Bool
  | fin _ => true
  | _ => false

/-- `x.floor() as usize`: NaN and negatives ↦ 0, `+∞` saturates -/
noncomputable def floorToNat : XR → Nat
  | nan => 0
  | ninf => 0
  | pinf => 2 ^ 64 - 1
  | fin r => ⌊r⌋₊

/-- `x.round() as usize` -/
noncomputable def roundToNat : XR → Nat
  | nan => 0
  | ninf => 0
  | pinf => 2 ^ 64 - 1
  | fin r => (round r).toNat

noncomputable instance instScalar : Scalar XR where
  le := XR.le
  lt := XR.lt
  eq := XR.eq
  add := XR.add
  sub := XR.sub
  mul := XR.mul
  div := XR.div
  neg := XR.neg
  zero := fin 0
  one := fin 1
  sqrt := XR.sqrt
  ln := XR.ln
  exp := XR.exp
  ofNat n := fin n
  isFinite := XR.isFinite
  floorToNat := XR.floorToNat
  roundToNat := XR.roundToNat
  posInf := pinf
  negInf := ninf

instance : Widen XR XR := ⟨id, id⟩

/-! ### constants and conversions -/

@[simp] theorem zero_eq : (NumOps.zero : XR) = fin 0 := rfl
@[simp] theorem one_eq : (NumOps.one : XR) = fin 1 := rfl
@[simp] theorem ofNat_eq (n : Nat) : (Scalar.ofNat n : XR) = fin n := rfl
@[simp] theorem posInf_eq : (Scalar.posInf : XR) = pinf := rfl
@[simp] theorem negInf_eq : (Scalar.negInf : XR) = ninf := rfl
@[simp] theorem up_eq (a : XR) : (Widen.up a : XR) = a := rfl
@[simp] theorem down_eq (a : XR) : (Widen.down a : XR) = a := rfl

/-! ### comparison -/

@[simp] theorem le_nan_left (x : XR) : Cmp.le nan x = false := rfl
@[simp] theorem le_nan_right (x : XR) : Cmp.le x nan = false := by cases x <;> rfl
@[simp] theorem lt_nan_left (x : XR) : Cmp.lt nan x = false := rfl
@[simp] theorem lt_nan_right (x : XR) : Cmp.lt x nan = false := by cases x <;> rfl
@[simp] theorem eq_nan_left (x : XR) : Cmp.eq nan x = false := rfl
@[simp] theorem eq_nan_right (x : XR) : Cmp.eq x nan = false := by cases x <;> rfl

@[simp] theorem le_fin_fin (a b : ℝ) : Cmp.le (fin a) (fin b) = decide (a ≤ b) := rfl
@[simp] theorem lt_fin_fin (a b : ℝ) : Cmp.lt (fin a) (fin b) = decide (a < b) := rfl
@[simp] theorem eq_fin_fin (a b : ℝ) : Cmp.eq (fin a) (fin b) = decide (a = b) := rfl

@[simp] theorem le_ninf_ninf : Cmp.le ninf ninf = true := rfl
@[simp] theorem le_ninf_pinf : Cmp.le ninf pinf = true := rfl
@[simp] theorem le_ninf_fin (a : ℝ) : Cmp.le ninf (fin a) = true := rfl
@[simp] theorem le_pinf_ninf : Cmp.le pinf ninf = false := rfl
@[simp] theorem le_pinf_pinf : Cmp.le pinf pinf = true := rfl
@[simp] theorem le_pinf_fin (a : ℝ) : Cmp.le pinf (fin a) = false := rfl
@[simp] theorem le_fin_ninf (a : ℝ) : Cmp.le (fin a) ninf = false := rfl
@[simp] theorem le_fin_pinf (a : ℝ) : Cmp.le (fin a) pinf = true := rfl

@[simp] theorem lt_ninf_ninf : Cmp.lt ninf ninf = false := rfl
@[simp] theorem lt_ninf_pinf : Cmp.lt ninf pinf = true := rfl
@[simp] theorem lt_ninf_fin (a : ℝ) : Cmp.lt ninf (fin a) = true := rfl
@[simp] theorem lt_pinf (x : XR) : Cmp.lt pinf x = false := rfl
@[simp] theorem lt_fin_ninf (a : ℝ) : Cmp.lt (fin a) ninf = false := rfl
@[simp] theorem lt_fin_pinf (a : ℝ) : Cmp.lt (fin a) pinf = true := rfl

@[simp] theorem eq_ninf_ninf : Cmp.eq ninf ninf = true := rfl
@[simp] theorem eq_pinf_pinf : Cmp.eq pinf pinf = true := rfl
@[simp] theorem eq_ninf_pinf : Cmp.eq ninf pinf = false := rfl
@[simp] theorem eq_pinf_ninf : Cmp.eq pinf ninf = false := rfl
@[simp] theorem eq_ninf_fin (a : ℝ) : Cmp.eq ninf (fin a) = false := rfl
@[simp] theorem eq_pinf_fin (a : ℝ) : Cmp.eq pinf (fin a) = false := rfl
@[simp] theorem eq_fin_ninf (a : ℝ) : Cmp.eq (fin a) ninf = false := rfl
@[simp] theorem eq_fin_pinf (a : ℝ) : Cmp.eq (fin a) pinf = false := rfl

@[simp] theorem ge_def (a b : XR) : ge a b = Cmp.le b a := rfl
@[simp] theorem gt_def (a b : XR) : gt a b = Cmp.lt b a := rfl

/-! ### finiteness -/

@[simp] theorem isFinite_fin (a : ℝ) : Scalar.isFinite (fin a) = true := rfl
@[simp] theorem isFinite_nan : Scalar.isFinite nan = false := rfl
@[simp] theorem isFinite_ninf : Scalar.isFinite ninf = false := rfl
@[simp] theorem isFinite_pinf : Scalar.isFinite pinf = false := rfl

theorem isFinite_iff (x : XR) : Scalar.isFinite x = true ↔ ∃ r, x = fin r := by
  cases x <;> simp

/-! ### arithmetic: exact on finite values -/

@[simp] theorem add_fin_fin (a b : ℝ) : NumOps.add (fin a) (fin b) = fin (a + b) := rfl
@[simp] theorem sub_fin_fin (a b : ℝ) : NumOps.sub (fin a) (fin b) = fin (a - b) := rfl
@[simp] theorem mul_fin_fin (a b : ℝ) : NumOps.mul (fin a) (fin b) = fin (a * b) := rfl
@[simp] theorem neg_fin (a : ℝ) : NumOps.neg (fin a) = fin (-a) := rfl
theorem div_fin_fin (a b : ℝ) : NumOps.div (fin a) (fin b) =
    if b = 0 then (if a = 0 then nan else if 0 < a then pinf else ninf) else fin (a / b) := rfl
@[simp] theorem div_fin_fin_of_ne (a : ℝ) {b : ℝ} (h : b ≠ 0) :
    NumOps.div (fin a) (fin b) = fin (a / b) := by simp [div_fin_fin, h]
@[simp] theorem div_zero_zero : NumOps.div (fin 0) (fin 0) = nan := by simp [div_fin_fin]
theorem sqrt_fin (a : ℝ) : Scalar.sqrt (fin a) = if a < 0 then nan else fin (Real.sqrt a) := rfl
@[simp] theorem sqrt_fin_of_nonneg {a : ℝ} (h : 0 ≤ a) : Scalar.sqrt (fin a) = fin (Real.sqrt a) := by
  simp [sqrt_fin, not_lt.mpr h]
theorem ln_fin (a : ℝ) : Scalar.ln (fin a) =
    if a < 0 then nan else if a = 0 then ninf else fin (Real.log a) := rfl
@[simp] theorem ln_fin_of_pos {a : ℝ} (h : 0 < a) : Scalar.ln (fin a) = fin (Real.log a) := by
  simp [ln_fin, not_lt.mpr h.le, h.ne']
@[simp] theorem exp_fin (a : ℝ) : Scalar.exp (fin a) = fin (Real.exp a) := rfl
@[simp] theorem exp_ninf : Scalar.exp ninf = fin 0 := rfl
@[simp] theorem floorToNat_fin (a : ℝ) : Scalar.floorToNat (fin a) = ⌊a⌋₊ := rfl
@[simp] theorem roundToNat_fin (a : ℝ) : Scalar.roundToNat (fin a) = (round a).toNat := rfl
@[simp] theorem floorToNat_nan : Scalar.floorToNat nan = 0 := rfl
@[simp] theorem roundToNat_nan : Scalar.roundToNat nan = 0 := rfl

/-! ### arithmetic: NaN is absorbing -/

@[simp] theorem add_nan_left (x : XR) : NumOps.add nan x = nan := rfl
@[simp] theorem add_nan_right (x : XR) : NumOps.add x nan = nan := by cases x <;> rfl
@[simp] theorem sub_nan_left (x : XR) : NumOps.sub nan x = nan := by cases x <;> rfl
@[simp] theorem sub_nan_right (x : XR) : NumOps.sub x nan = nan := by cases x <;> rfl
@[simp] theorem mul_nan_left (x : XR) : NumOps.mul nan x = nan := rfl
@[simp] theorem mul_nan_right (x : XR) : NumOps.mul x nan = nan := by cases x <;> rfl
@[simp] theorem div_nan_left (x : XR) : NumOps.div nan x = nan := rfl
@[simp] theorem div_nan_right (x : XR) : NumOps.div x nan = nan := by cases x <;> rfl
@[simp] theorem neg_nan : NumOps.neg nan = nan := rfl
@[simp] theorem sqrt_nan : Scalar.sqrt nan = nan := rfl
@[simp] theorem ln_nan : Scalar.ln nan = nan := rfl
@[simp] theorem exp_nan : Scalar.exp nan = nan := rfl

/-! ### arithmetic: the documented special cases -/

@[simp] theorem pinf_sub_pinf : NumOps.sub pinf pinf = nan := rfl
@[simp] theorem ninf_sub_ninf : NumOps.sub ninf ninf = nan := rfl
@[simp] theorem pinf_add_ninf : NumOps.add pinf ninf = nan := rfl
@[simp] theorem ninf_add_pinf : NumOps.add ninf pinf = nan := rfl
@[simp] theorem zero_mul_pinf : NumOps.mul (fin 0) pinf = nan := by
  show XR.mulInf true (fin 0) = nan; simp [XR.mulInf]
@[simp] theorem pinf_mul_zero : NumOps.mul pinf (fin 0) = nan := by
  show XR.mulInf true (fin 0) = nan; simp [XR.mulInf]
@[simp] theorem zero_mul_ninf : NumOps.mul (fin 0) ninf = nan := by
  show XR.mulInf false (fin 0) = nan; simp [XR.mulInf]
@[simp] theorem ninf_mul_zero : NumOps.mul ninf (fin 0) = nan := by
  show XR.mulInf false (fin 0) = nan; simp [XR.mulInf]
theorem div_zero_of_pos {a : ℝ} (h : 0 < a) : NumOps.div (fin a) (fin 0) = pinf := by
  simp [div_fin_fin, h.ne', h]
theorem div_zero_of_neg {a : ℝ} (h : a < 0) : NumOps.div (fin a) (fin 0) = ninf := by
  simp [div_fin_fin, h.ne, not_lt.mpr h.le]
@[simp] theorem sqrt_neg {a : ℝ} (h : a < 0) : Scalar.sqrt (fin a) = nan := by simp [sqrt_fin, h]
@[simp] theorem sqrt_ninf : Scalar.sqrt ninf = nan := rfl
@[simp] theorem sqrt_pinf : Scalar.sqrt pinf = pinf := rfl
@[simp] theorem ln_neg {a : ℝ} (h : a < 0) : Scalar.ln (fin a) = nan := by simp [ln_fin, h]
@[simp] theorem ln_zero : Scalar.ln (fin 0) = ninf := by simp [ln_fin]
@[simp] theorem ln_ninf : Scalar.ln ninf = nan := rfl
@[simp] theorem ln_pinf : Scalar.ln pinf = pinf := rfl

/-! ### a finite result needs finite operands (non-finite values propagate) -/

theorem isFinite_add {a b : XR} (h : Scalar.isFinite (NumOps.add a b) = true) :
    Scalar.isFinite a = true ∧ Scalar.isFinite b = true := by
  cases a <;> cases b <;> first | exact ⟨rfl, rfl⟩ | exact (Bool.false_ne_true h).elim

theorem isFinite_sub {a b : XR} (h : Scalar.isFinite (NumOps.sub a b) = true) :
    Scalar.isFinite a = true ∧ Scalar.isFinite b = true := by
  cases a <;> cases b <;> first | exact ⟨rfl, rfl⟩ | exact (Bool.false_ne_true h).elim

theorem isFinite_mul {a b : XR} (h : Scalar.isFinite (NumOps.mul a b) = true) :
    Scalar.isFinite a = true ∧ Scalar.isFinite b = true := by
  cases a <;> cases b <;> first
    | exact ⟨rfl, rfl⟩
    | exact (Bool.false_ne_true h).elim
    | (exfalso; revert h
       simp only [NumOps.mul, XR.mul, XR.mulInf]
       repeat' split
       all_goals simp [Scalar.isFinite, XR.isFinite])

/-- the dividend of a finite quotient is finite (`∞/x` is never finite) -/
theorem isFinite_div_left {a b : XR} (h : Scalar.isFinite (NumOps.div a b) = true) :
    Scalar.isFinite a = true := by
  cases a <;> cases b <;> first
    | rfl
    | exact (Bool.false_ne_true h).elim
    | (exfalso; revert h
       simp only [NumOps.div, XR.div]
       repeat' split
       all_goals simp [Scalar.isFinite, XR.isFinite])

theorem isFinite_sqrt {a : XR} (h : Scalar.isFinite (Scalar.sqrt a) = true) :
    Scalar.isFinite a = true := by
  cases a <;> first | rfl | exact (Bool.false_ne_true h).elim

end XR
end StatsCI
