/-
  C15 — For all intervals a, b, c: partial_cmp(a, b) is Equal exactly when a == b; a < b exactly
  when a != b and every member of a is <= every member of b (so touching at one endpoint still
  orders them); a < b exactly when b > a; the order is transitive; and intervals that overlap in
  more than a shared endpoint, or are unbounded on the same side, are incomparable.

  Stated over the model functions of `StatsCI.Model.Interval` (`partialCmp` and the operators
  `ltI`/`leI`/`gtI`/`geI` that core derives from it), with the comparison operations of an arbitrary
  linear order. Well-formedness (`low ≤ high`, guaranteed by every constructor, C14) is needed
  where stated: without it the two-sided arm of `partial_cmp` is not even antisymmetric
  (`not_dual_without_WF`).
-/
import StatsCI.Lemmas.IntervalAlg

namespace StatsCI.C15
open StatsCI StatsCI.Interval Set
variable {α : Type} [LinearOrder α]
attribute [local instance] Cmp.ofLinearOrder

/-! ### 1. `Equal` -/

/-- `partial_cmp` answers `Equal` exactly when the intervals are equal (`==`) -/
theorem equal_iff (a b : Interval α) : partialCmp a b = some .eq ↔ a = b := by
  cases a <;> cases b <;> simp [partialCmp, beq] <;> (try split_ifs) <;> simp_all

/-- … where `==` is the derived `PartialEq` -/
theorem equal_iff_beq (a b : Interval α) : partialCmp a b = some .eq ↔ a.beq b = true := by
  rw [equal_iff]
  cases a <;> cases b <;> simp [beq]

/-! ### 2. `Less` / `Greater` as a relation between the denoted sets -/

/-- `a < b` exactly when `a ≠ b` and every member of `a` is `≤` every member of `b` -/
theorem lt_iff [NoMaxOrder α] [NoMinOrder α] (a b : Interval α) (ha : a.WF) (hb : b.WF) :
    partialCmp a b = some .lt ↔ a ≠ b ∧ ∀ x ∈ a.den, ∀ y ∈ b.den, x ≤ y := by
  sorry

end StatsCI.C15
