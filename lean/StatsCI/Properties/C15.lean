/-
  C15 — For all intervals a, b, c: partial_cmp(a, b) is Equal exactly when a == b; a < b exactly
  when a != b and every member of a is <= every member of b (so touching at one endpoint still
  orders them); a < b exactly when b > a; the order is transitive; and intervals that overlap in
  more than a shared endpoint, or are unbounded on the same side, are incomparable.

  Stated over the model functions of `StatsCI.Model.Interval` (`partialCmp` and the operators
  `ltI`/`leI`/`gtI`/`geI` that core derives from it), with the comparison operations of an arbitrary
  linear order. Well-formedness (`low ≤ high`, guaranteed by every constructor, C14) is needed
  where stated: without it the two-sided arm of `partial_cmp` is not even antisymmetric
  (`not_dual_without_WF`).
-/
import StatsCI.Lemmas.IntervalAlg

namespace StatsCI.C15
open StatsCI StatsCI.Interval Set
variable {α : Type} [LinearOrder α]
attribute [local instance] Cmp.ofLinearOrder

/-! ### 1. `Equal` -/

/-- `partial_cmp` answers `Equal` exactly when the intervals are equal (`==`) -/
theorem equal_iff (a b : Interval α) : partialCmp a b = some .eq ↔ a = b := by
  cases a <;> cases b <;> simp only [partialCmp, beq] <;> split_ifs <;> simp_all <;> split_ifs <;>
    simp_all

/-- … where `==` is the derived `PartialEq` -/
theorem equal_iff_beq (a b : Interval α) : partialCmp a b = some .eq ↔ a.beq b = true := by
  rw [equal_iff]
  cases a <;> cases b <;> simp [beq]

/-! ### 2. `Less` / `Greater` as a relation between the denoted sets -/

/-- `a < b` exactly when `a ≠ b` and every member of `a` is `≤` every member of `b` -/
theorem lt_iff [NoMaxOrder α] [NoMinOrder α] (a b : Interval α) (ha : a.WF) (hb : b.WF) :
    partialCmp a b = some .lt ↔ a ≠ b ∧ ∀ x ∈ a.den, ∀ y ∈ b.den, x ≤ y := by
  rw [partialCmp_lt_iff_bounds a b ha hb, forall_mem_le_iff_bounds a b ha hb]

/-- `a > b` exactly when `a ≠ b` and every member of `a` is `≥` every member of `b` -/
theorem gt_iff [NoMaxOrder α] [NoMinOrder α] (a b : Interval α) (ha : a.WF) (hb : b.WF) :
    partialCmp a b = some .gt ↔ a ≠ b ∧ ∀ x ∈ a.den, ∀ y ∈ b.den, y ≤ x := by
  rw [partialCmp_gt_iff_bounds a b ha hb]
  have := forall_mem_le_iff_bounds b a hb ha
  constructor
  · rintro ⟨hne, l, h, h1, h2, h3⟩
    exact ⟨hne, fun x hx y hy => this.mpr ⟨h, l, h2, h1, h3⟩ y hy x hx⟩
  · rintro ⟨hne, H⟩
    obtain ⟨h, l, h1, h2, h3⟩ := this.mp (fun y hy x hx => H x hx y hy)
    exact ⟨hne, l, h, h2, h1, h3⟩

/-- the same through the bounds, in EVERY linear order (bounded ones, machine integers, included):
    `a < b` exactly when `a ≠ b`, `a` is bounded above, `b` is bounded below and
    `high(a) ≤ low(b)` -/
theorem lt_iff_bounds (a b : Interval α) (ha : a.WF) (hb : b.WF) :
    partialCmp a b = some .lt ↔ a ≠ b ∧ ∃ h l, a.right = some h ∧ b.left = some l ∧ h ≤ l :=
  partialCmp_lt_iff_bounds a b ha hb

/-- touching at one endpoint still orders the intervals -/
theorem lt_of_touching (x y z : α) (h1 : x ≤ y) (h2 : y ≤ z) (hne : x ≠ z) :
    partialCmp (Interval.twoSided x y) (.twoSided y z) = some .lt ∧
    partialCmp (Interval.lower y) (.upper y) = some .lt ∧
    partialCmp (Interval.twoSided x y) (.upper y) = some .lt ∧
    partialCmp (Interval.lower y) (.twoSided y z) = some .lt := by
  refine ⟨?_, ?_, ?_, ?_⟩
  · refine (lt_iff_bounds (.twoSided x y) (.twoSided y z) h1 h2).mpr ⟨?_, y, y, rfl, rfl, le_rfl⟩
    intro h; injection h with h3 h4; exact hne (h3.trans h4)
  · exact (lt_iff_bounds (.lower y) (.upper y) trivial trivial).mpr ⟨by simp, y, y, rfl, rfl, le_rfl⟩
  · exact (lt_iff_bounds (.twoSided x y) (.upper y) h1 trivial).mpr ⟨by simp, y, y, rfl, rfl, le_rfl⟩
  · exact (lt_iff_bounds (.lower y) (.twoSided y z) trivial h2).mpr ⟨by simp, y, y, rfl, rfl, le_rfl⟩

/-! ### 3. duality, operator forms -/

/-- `a < b` exactly when `b > a` -/
theorem dual (a b : Interval α) (ha : a.WF) (hb : b.WF) :
    partialCmp a b = some .lt ↔ partialCmp b a = some .gt := by
  rw [partialCmp_lt_iff_bounds a b ha hb, partialCmp_gt_iff_bounds b a hb ha]
  constructor
  · rintro ⟨hne, h, l, h1, h2, h3⟩; exact ⟨fun e => hne e.symm, l, h, h2, h1, h3⟩
  · rintro ⟨hne, l, h, h1, h2, h3⟩; exact ⟨fun e => hne e.symm, h, l, h2, h1, h3⟩

/-- `Equal` is symmetric (no well-formedness needed) -/
theorem dual_eq (a b : Interval α) : partialCmp a b = some .eq ↔ partialCmp b a = some .eq := by
  rw [equal_iff, equal_iff, eq_comm]

/-- `partial_cmp(b, a)` is the reverse of `partial_cmp(a, b)` -/
theorem dual_swap (a b : Interval α) (ha : a.WF) (hb : b.WF) :
    partialCmp b a = (partialCmp a b).map Ordering.swap := by
  have h1 := dual a b ha hb
  have h2 := dual b a hb ha
  have h3 := dual_eq a b
  cases hab : partialCmp a b with
  | none =>
    cases hba : partialCmp b a with
    | none => rfl
    | some o =>
      cases o
      · rw [hba] at h2; rw [h2.mp rfl] at hab; cases hab
      · rw [hba] at h3; rw [h3.mpr rfl] at hab; cases hab
      · rw [hba] at h1; rw [h1.mpr rfl] at hab; cases hab
  | some o =>
    cases o
    · exact h1.mp hab
    · exact h3.mp hab
    · exact h2.mpr hab

/-- the operators `<`, `>`, `<=`, `>=` are derived from `partial_cmp` as core does -/
theorem operators (a b : Interval α) :
    (ltI a b = true ↔ partialCmp a b = some .lt) ∧
    (gtI a b = true ↔ partialCmp a b = some .gt) ∧
    (leI a b = true ↔ partialCmp a b = some .lt ∨ partialCmp a b = some .eq) ∧
    (geI a b = true ↔ partialCmp a b = some .gt ∨ partialCmp a b = some .eq) := by
  refine ⟨by simp [ltI], by simp [gtI], ?_, ?_⟩
  · unfold leI; cases h : partialCmp a b with
    | none => simp
    | some o => cases o <;> simp
  · unfold geI; cases h : partialCmp a b with
    | none => simp
    | some o => cases o <;> simp

/-- `a < b` is `b > a`, `a <= b` is `b >= a` -/
theorem operators_dual (a b : Interval α) (ha : a.WF) (hb : b.WF) :
    ltI a b = gtI b a ∧ leI a b = geI b a := by
  constructor
  · rw [Bool.eq_iff_iff, (operators a b).1, (operators b a).2.1]; exact dual a b ha hb
  · rw [Bool.eq_iff_iff, (operators a b).2.2.1, (operators b a).2.2.2, dual a b ha hb,
      dual_eq a b]

/-- `a <= b` is `a < b || a == b`, `a >= b` is `a > b || a == b` -/
theorem operators_le (a b : Interval α) :
    leI a b = (ltI a b || a.beq b) ∧ geI a b = (gtI a b || a.beq b) := by
  constructor
  · rw [Bool.eq_iff_iff, (operators a b).2.2.1, Bool.or_eq_true, (operators a b).1,
      equal_iff_beq]
  · rw [Bool.eq_iff_iff, (operators a b).2.2.2, Bool.or_eq_true, (operators a b).2.1,
      equal_iff_beq]

/-- without well-formedness `partial_cmp` can answer `Greater` both ways round: this is why the
    theorems above ask for `low ≤ high` (which every constructor guarantees) -/
theorem not_dual_without_WF :
    partialCmp (Interval.twoSided (5 : ℤ) 0) (.twoSided 1 2) = some .gt ∧
    partialCmp (Interval.twoSided (1 : ℤ) 2) (.twoSided 5 0) = some .gt := by
  constructor <;> decide

/-! ### 4. strict partial order -/

/-- `<` is irreflexive -/
theorem irrefl (a : Interval α) : ltI a a = false := by
  have : partialCmp a a = some .eq := (equal_iff a a).mpr rfl
  simp [ltI, this]

/-- `<` is transitive -/
theorem trans (a b c : Interval α) (ha : a.WF) (hb : b.WF) (hc : c.WF)
    (hab : ltI a b = true) (hbc : ltI b c = true) : ltI a c = true := by
  rw [(operators _ _).1] at *
  rw [partialCmp_lt_iff_bounds _ _ ha hb] at hab
  rw [partialCmp_lt_iff_bounds _ _ hb hc] at hbc
  rw [partialCmp_lt_iff_bounds _ _ ha hc]
  obtain ⟨hne1, h1, l1, e1, e2, le1⟩ := hab
  obtain ⟨hne2, h2, l2, e3, e4, le2⟩ := hbc
  have hb' : l1 ≤ h2 := (left_le_of_mem e2 (right_mem_den hb e3))
  refine ⟨?_, h1, l2, e1, e4, le1.trans (hb'.trans le2)⟩
  rintro rfl
  -- `a = c`: then `low a = l2 ≤ h1 = high a ≤ l1 ≤ h2 ≤ l2`, so `a = b = [l2, l2]`
  have hla : l2 ≤ h1 := left_le_of_mem e4 (right_mem_den ha e1)
  have e12 : h1 = l2 := le_antisymm (le1.trans (hb'.trans le2)) hla
  have e13 : l1 = l2 := le_antisymm (hb'.trans le2) (by rw [← e12]; exact le1)
  have e14 : h2 = l2 := le_antisymm le2 (by rw [← e13]; exact hb')
  subst e12 e13 e14
  apply hne1
  cases a <;> cases b <;> simp_all [left, right]

/-- `<` is asymmetric -/
theorem asymm (a b : Interval α) (ha : a.WF) (hb : b.WF) (hab : ltI a b = true) :
    ltI b a = false := by
  by_contra h
  rw [Bool.not_eq_false] at h
  have := trans a b a ha hb ha hab h
  rw [irrefl] at this
  cases this

/-- `<=` is a partial order on well-formed intervals: reflexive, antisymmetric, transitive -/
theorem le_partial_order (a b c : Interval α) (ha : a.WF) (hb : b.WF) (hc : c.WF) :
    leI a a = true ∧ (leI a b = true → leI b a = true → a = b) ∧
    (leI a b = true → leI b c = true → leI a c = true) := by
  refine ⟨?_, ?_, ?_⟩
  · rw [(operators a a).2.2.1]; exact Or.inr ((equal_iff a a).mpr rfl)
  · rw [(operators a b).2.2.1, (operators b a).2.2.1, equal_iff, equal_iff]
    rintro (h1 | h1) (h2 | h2)
    · have := asymm a b ha hb ((operators a b).1.mpr h1)
      rw [(operators b a).1.mpr h2] at this; cases this
    · exact h2.symm
    · exact h1
    · exact h1
  · rw [(operators a b).2.2.1, (operators b c).2.2.1, (operators a c).2.2.1, equal_iff, equal_iff,
      equal_iff]
    rintro (h1 | rfl) (h2 | rfl)
    · exact Or.inl ((operators a c).1.mp
        (trans a b c ha hb hc ((operators a b).1.mpr h1) ((operators b c).1.mpr h2)))
    · exact Or.inl h1
    · exact Or.inl h2
    · exact Or.inr rfl

/-! ### 5. incomparable intervals -/

/-- different intervals unbounded on the same side are incomparable -/
theorem incomparable_same_side (x y : α) (h : x ≠ y) :
    partialCmp (Interval.upper x) (.upper y) = none ∧
    partialCmp (Interval.lower x) (.lower y) = none := by
  simp [partialCmp, beq, h]

/-- in general: two intervals that both lack an upper bound, or both lack a lower bound, are equal
    or incomparable -/
theorem incomparable_unbounded (a b : Interval α)
    (h : (a.right = none ∧ b.right = none) ∨ (a.left = none ∧ b.left = none)) (hne : a ≠ b) :
    partialCmp a b = none := by
  cases a <;> cases b <;> simp_all [left, right, partialCmp, beq]

/-- intervals that overlap in more than a shared endpoint are incomparable (unless equal) -/
theorem incomparable_overlap (a b : Interval α) (ha : a.WF) (hb : b.WF) (hne : a ≠ b)
    (h : ∃ x y, x < y ∧ x ∈ a.den ∩ b.den ∧ y ∈ a.den ∩ b.den) : partialCmp a b = none := by
  obtain ⟨x, y, hxy, ⟨hxa, hxb⟩, ⟨hya, hyb⟩⟩ := h
  cases hc : partialCmp a b with
  | none => rfl
  | some o =>
    exfalso
    cases o
    · obtain ⟨_, h, l, e1, e2, e3⟩ := (partialCmp_lt_iff_bounds a b ha hb).mp hc
      have h1 := le_right_of_mem e1 hya
      have h2 := left_le_of_mem e2 hxb
      order
    · exact hne ((equal_iff a b).mp hc)
    · obtain ⟨_, l, h, e1, e2, e3⟩ := (partialCmp_gt_iff_bounds a b ha hb).mp hc
      have h1 := le_right_of_mem e2 hyb
      have h2 := left_le_of_mem e1 hxa
      order

/-- comparable intervals share at most one point -/
theorem comparable_inter_subsingleton (a b : Interval α) (ha : a.WF) (hb : b.WF) (hne : a ≠ b)
    (h : partialCmp a b ≠ none) : (a.den ∩ b.den).Subsingleton := by
  intro x hx y hy
  by_contra hxy
  rcases lt_or_gt_of_ne hxy with h1 | h1
  · exact h (incomparable_overlap a b ha hb hne ⟨x, y, h1, hx, hy⟩)
  · exact h (incomparable_overlap a b ha hb hne ⟨y, x, h1, hy, hx⟩)

/-! non-vacuity: concrete well-formed intervals over ℤ on each side of the statements -/
example : (Interval.twoSided (1 : ℤ) 3).WF ∧ (Interval.twoSided (3 : ℤ) 5).WF ∧
    (Interval.twoSided (5 : ℤ) 9).WF ∧
    ltI (Interval.twoSided (1 : ℤ) 3) (.twoSided 3 5) = true ∧
    ltI (Interval.twoSided (3 : ℤ) 5) (.twoSided 5 9) = true ∧
    ltI (Interval.twoSided (1 : ℤ) 3) (.twoSided 5 9) = true ∧
    gtI (Interval.twoSided (3 : ℤ) 5) (.twoSided 1 3) = true ∧
    partialCmp (Interval.twoSided (1 : ℤ) 4) (.twoSided 3 5) = none ∧
    partialCmp (Interval.lower (1 : ℤ)) (.upper 1) = some .lt ∧
    partialCmp (Interval.upper (1 : ℤ)) (.upper 2) = none := by
  refine ⟨by simp, by simp, by simp, by decide, by decide, by decide, by decide, by decide,
    by decide, by decide⟩

example : ∃ x y : ℤ, x < y ∧ x ∈ (Interval.twoSided (1 : ℤ) 4).den ∩ (Interval.twoSided 3 5).den ∧
    y ∈ (Interval.twoSided (1 : ℤ) 4).den ∩ (Interval.twoSided 3 5).den :=
  ⟨3, 4, by decide, by simp [den], by simp [den]⟩

end StatsCI.C15
