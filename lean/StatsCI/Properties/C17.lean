/-
  C17 — Shape of the Wilson proportion interval: monotone in the success count, mirror-symmetric,
  narrower on a larger population, wider at a higher level, inside [0,1], midpoint between k/n and 1/2.

  Everything is stated through the model functions `Proportion.wilsonCentre`, `Proportion.wilsonSpan`
  and `Proportion.ciWilson` of `StatsCI.Model.Proportion`, run at exact real arithmetic `Rex = RR id`.
  `lowerR n k z`, `upperR n k z`, `centreR n k z` (in `Lemmas/WilsonMono.lean`) are *by definition*
  `(wilsonCentre ⟨n⟩ ⟨k⟩ ⟨z⟩).val ∓ (wilsonSpan ⟨n⟩ ⟨k⟩ ⟨z⟩).val` and `(wilsonCentre ⟨n⟩ ⟨k⟩ ⟨z⟩).val`,
  with real `n k z` (so that the statements also cover non-integer counts); `closed_form` gives
  the usual formulas.  The `_interval` theorems are about the value `ciWilson` returns for natural
  `2 ≤ k ≤ n − 2` (outside that range the model, like the crate, returns an error).
  The external normal quantile `crit` is a parameter; the only facts used about it are explicit
  hypotheses (`0 ≤ crit …`, monotone in the probability).
-/
import StatsCI.Lemmas.WilsonMono

namespace StatsCI.C17
open StatsCI Proportion WilsonMono

/-- the model ends are the textbook Wilson roots -/
theorem closed_form (n k z : ℝ) :
    lowerR n k z = (k + z ^ 2 / 2 - z * Real.sqrt (k * (n - k) / n + z ^ 2 / 4)) / (n + z ^ 2) ∧
    upperR n k z = (k + z ^ 2 / 2 + z * Real.sqrt (k * (n - k) / n + z ^ 2 / 4)) / (n + z ^ 2) ∧
    centreR n k z = (k + z ^ 2 / 2) / (n + z ^ 2) ∧
    spanR n k z = z / (n + z ^ 2) * Real.sqrt (k * (n - k) / n + z ^ 2 / 4) :=
  ⟨lowerR_eq n k z, upperR_eq n k z, centreR_eq n k z, spanR_eq n k z⟩

/-- what `ci_wilson` returns at exact arithmetic, for each kind of confidence: `[lower, upper]`,
    `[lower, 1]`, `[0, upper]` -/
theorem interval_form (crit : Crit Rex) (conf : Confidence Rex) (n k : ℕ) (hk : 2 ≤ k)
    (hkn : k + 2 ≤ n) (hv : Confidence.validLevel conf.level = true)
    (hz : 0 ≤ (crit (.z conf.quantile)).val) :
    ciWilson crit conf n k = .ok
      (match (generalizing := false) conf with
       | .twoSided _ => .twoSided ⟨lowerR n k (crit (.z conf.quantile)).val⟩
            ⟨upperR n k (crit (.z conf.quantile)).val⟩
       | .upper _ => .twoSided ⟨lowerR n k (crit (.z conf.quantile)).val⟩ ⟨1⟩
       | .lower _ => .twoSided ⟨0⟩ ⟨upperR n k (crit (.z conf.quantile)).val⟩) := by
  rw [ciWilson_eq crit conf n k hk hkn (probOk_of_valid conf hv) hz]
  cases conf <;> rfl

/-! ### 1. monotone in the success count -/

/-- the lower bound is non-decreasing in `k` -/
theorem mono_k_lower (n k k' z : ℝ) (hn : 0 < n) (hz : 0 ≤ z) (hk0 : 0 ≤ k) (hkk : k ≤ k')
    (hkn : k' ≤ n) : lowerR n k z ≤ lowerR n k' z :=
  lowerR_mono_k n k k' z hn hz hk0 hkk hkn

/-- the upper bound is non-decreasing in `k` -/
theorem mono_k_upper (n k k' z : ℝ) (hn : 0 < n) (hz : 0 ≤ z) (hk0 : 0 ≤ k) (hkk : k ≤ k')
    (hkn : k' ≤ n) : upperR n k z ≤ upperR n k' z :=
  upperR_mono_k n k k' z hn hz hk0 hkk hkn

example : lowerR 10 3 2 ≤ lowerR 10 4 2 ∧ upperR 10 3 2 ≤ upperR 10 4 2 :=
  ⟨mono_k_lower 10 3 4 2 (by norm_num) (by norm_num) (by norm_num) (by norm_num) (by norm_num),
   mono_k_upper 10 3 4 2 (by norm_num) (by norm_num) (by norm_num) (by norm_num) (by norm_num)⟩

/-- both ends of the interval `ci_wilson` returns are non-decreasing in the success count, for every
    kind of confidence -/
theorem mono_k_interval (crit : Crit Rex) (conf : Confidence Rex) (n k k' : ℕ) (hk : 2 ≤ k)
    (hkk : k ≤ k') (hkn : k' + 2 ≤ n) (hv : Confidence.validLevel conf.level = true)
    (hz : 0 ≤ (crit (.z conf.quantile)).val) :
    ∃ a b a' b' : Rex, ciWilson crit conf n k = .ok (.twoSided a b) ∧
      ciWilson crit conf n k' = .ok (.twoSided a' b') ∧ a.val ≤ a'.val ∧ b.val ≤ b'.val := by
  have hn : (0 : ℝ) < n := by exact_mod_cast (by omega : 0 < n)
  have h0 : (0 : ℝ) ≤ k := by positivity
  have h1 : (k : ℝ) ≤ k' := by exact_mod_cast hkk
  have h2 : (k' : ℝ) ≤ n := by exact_mod_cast (by omega : k' ≤ n)
  have hl := mono_k_lower n k k' _ hn hz h0 h1 h2
  have hu := mono_k_upper n k k' _ hn hz h0 h1 h2
  rw [interval_form crit conf n k hk (by omega) hv hz,
    interval_form crit conf n k' (by omega) hkn hv hz]
  cases conf <;> exact ⟨_, _, _, _, rfl, rfl, by first | exact hl | simp, by first | exact hu | simp⟩

/-! ### 2. mirror image -/

/-- the interval for `n − k` successes is `1 −` the interval for `k`, ends exchanged -/
theorem mirror (n k z : ℝ) (hn : 0 < n) :
    lowerR n (n - k) z = 1 - upperR n k z ∧ upperR n (n - k) z = 1 - lowerR n k z :=
  ⟨lowerR_mirror n k z hn, upperR_mirror n k z hn⟩

example : lowerR 10 (10 - 3) 2 = 1 - upperR 10 3 2 := (mirror 10 3 2 (by norm_num)).1

/-- On the model function itself, with no hypothesis on the level or on the critical value: calling
    `ci_wilson` with `n − k` successes and the flipped confidence (two-sided stays two-sided, upper
    and lower one-sidedness are exchanged) gives exactly the outcome for `k` successes mapped through
    `x ↦ 1 − x` with the ends exchanged (`mirrorI i = i.appliedFlipped (1 − ·)`); an `.err` or the
    `inverse_cdf` panic is mirrored to the same `.err`/panic. -/
theorem mirror_interval (crit : Crit Rex) (conf : Confidence Rex) (n k : ℕ) (hk : 2 ≤ k)
    (hkn : k + 2 ≤ n) :
    ciWilson crit conf.flipped n (n - k)
      = (ciWilson crit conf n k).map (fun i => i.appliedFlipped (fun x => NumOps.sub NumOps.one x)) :=
  ciWilson_mirror crit conf n k hk hkn

/-- the same, spelt out on the three kinds of confidence for a valid level and `z ≥ 0`:
    `[lo, hi] ↦ [1 − hi, 1 − lo]`, `[0, hi] ↦ [1 − hi, 1]`, `[lo, 1] ↦ [0, 1 − lo]` -/
theorem mirror_interval_explicit (crit : Crit Rex) (l : Rex) (n k : ℕ) (hk : 2 ≤ k)
    (hkn : k + 2 ≤ n) (hv : Confidence.validLevel l = true) :
    (0 ≤ (crit (.z (Confidence.twoSided l).quantile)).val →
      ∃ lo hi : ℝ, ciWilson crit (.twoSided l) n k = .ok (.twoSided ⟨lo⟩ ⟨hi⟩) ∧
        ciWilson crit (.twoSided l) n (n - k) = .ok (.twoSided ⟨1 - hi⟩ ⟨1 - lo⟩)) ∧
    (0 ≤ (crit (.z l)).val →
      (∃ hi : ℝ, ciWilson crit (.lower l) n k = .ok (.twoSided ⟨0⟩ ⟨hi⟩) ∧
        ciWilson crit (.upper l) n (n - k) = .ok (.twoSided ⟨1 - hi⟩ ⟨1⟩)) ∧
      (∃ lo : ℝ, ciWilson crit (.upper l) n k = .ok (.twoSided ⟨lo⟩ ⟨1⟩) ∧
        ciWilson crit (.lower l) n (n - k) = .ok (.twoSided ⟨0⟩ ⟨1 - lo⟩))) := by
  refine ⟨fun hz => ?_, fun hz => ⟨?_, ?_⟩⟩
  · have h := mirror_interval crit (.twoSided l) n k hk hkn
    have e := interval_form crit (.twoSided l) n k hk hkn hv hz
    rw [e] at h
    refine ⟨_, _, e, ?_⟩
    rw [show (Confidence.twoSided l).flipped = .twoSided l from rfl] at h
    rw [h]
    rfl
  · have h := mirror_interval crit (.lower l) n k hk hkn
    have e := interval_form crit (.lower l) n k hk hkn hv hz
    rw [e] at h
    refine ⟨_, e, ?_⟩
    rw [show (Confidence.lower l).flipped = .upper l from rfl] at h
    rw [h]
    simp only [Outcome.map, Interval.appliedFlipped]
    congr 2; exact RR.ext' (by simp)
  · have h := mirror_interval crit (.upper l) n k hk hkn
    have e := interval_form crit (.upper l) n k hk hkn hv hz
    rw [e] at h
    refine ⟨_, e, ?_⟩
    rw [show (Confidence.upper l).flipped = .lower l from rfl] at h
    rw [h]
    simp only [Outcome.map, Interval.appliedFlipped]
    congr 2; exact RR.ext' (by simp)

/-! ### 3. the same proportion on a larger population -/

/-- the width strictly decreases when population and successes are both multiplied by `m > 1`
    (any `0 ≤ k ≤ n`, the ends `k = 0`, `k = n` included; `z > 0` is needed: at `z = 0` both
    widths are `0`) -/
theorem shrink (n k z m : ℝ) (hn : 0 < n) (hz : 0 < z) (hk0 : 0 ≤ k) (hkn : k ≤ n) (hm : 1 < m) :
    upperR (m * n) (m * k) z - lowerR (m * n) (m * k) z < upperR n k z - lowerR n k z := by
  have h := spanR_shrink n k z m hn hz hk0 hkn hm
  rw [upperR_def, lowerR_def, upperR_def, lowerR_def]
  linarith

example : upperR (3 * 10) (3 * 4) 2 - lowerR (3 * 10) (3 * 4) 2 < upperR 10 4 2 - lowerR 10 4 2 :=
  shrink 10 4 2 3 (by norm_num) (by norm_num) (by norm_num) (by norm_num) (by norm_num)

/-- at `z = 0` the interval is the point `k/n` whatever the population: `z > 0` cannot be dropped -/
example : upperR (3 * 10) (3 * 4) 0 - lowerR (3 * 10) (3 * 4) 0 = upperR 10 4 0 - lowerR 10 4 0 := by
  simp [upperR_eq, lowerR_eq]

/-- the two-sided interval `ci_wilson` returns for `(m·n, m·k)` is strictly narrower (`Interval.width`)
    than the one for `(n, k)` -/
theorem shrink_interval (crit : Crit Rex) (l : Rex) (n k m : ℕ) (hk : 2 ≤ k) (hkn : k + 2 ≤ n)
    (hm : 2 ≤ m) (hv : Confidence.validLevel l = true)
    (hz : 0 < (crit (.z (Confidence.twoSided l).quantile)).val) :
    ∃ i i' : Interval Rex, ∃ w w' : Rex, ciWilson crit (.twoSided l) n k = .ok i ∧
      ciWilson crit (.twoSided l) (m * n) (m * k) = .ok i' ∧
      i.width = some w ∧ i'.width = some w' ∧ w'.val < w.val := by
  have hmk : 2 ≤ m * k := by nlinarith
  have hmkn : m * k + 2 ≤ m * n := by nlinarith
  have hn : (0 : ℝ) < n := by exact_mod_cast (by omega : 0 < n)
  have h0 : (0 : ℝ) ≤ k := by positivity
  have h2 : (k : ℝ) ≤ n := by exact_mod_cast (by omega : k ≤ n)
  have hm' : (1 : ℝ) < m := by exact_mod_cast (by omega : 1 < m)
  have hs := shrink n k _ m hn hz h0 h2 hm'
  refine ⟨_, _, _, _, interval_form crit (.twoSided l) n k hk hkn hv hz.le,
    interval_form crit (.twoSided l) (m * n) (m * k) hmk hmkn hv hz.le, rfl, rfl, ?_⟩
  simpa using hs

/-! ### 4. a higher level gives a wider interval -/

/-- the interval widens with the critical value -/
theorem wider (n k z₁ z₂ : ℝ) (hn : 0 < n) (hz₁ : 0 ≤ z₁) (hz : z₁ ≤ z₂) (hk0 : 0 ≤ k)
    (hkn : k ≤ n) : lowerR n k z₂ ≤ lowerR n k z₁ ∧ upperR n k z₁ ≤ upperR n k z₂ :=
  ⟨lowerR_anti_z n k z₁ z₂ hn hz₁ hz hk0 hkn, upperR_mono_z n k z₁ z₂ hn hz₁ hz hk0 hkn⟩

/-- strictly: the lower end moves down whenever `k > 0`, the upper end up whenever `k < n` -/
theorem wider_strict (n k z₁ z₂ : ℝ) (hn : 0 < n) (hz₁ : 0 ≤ z₁) (hz : z₁ < z₂) (hk0 : 0 ≤ k)
    (hkn : k ≤ n) :
    (0 < k → lowerR n k z₂ < lowerR n k z₁) ∧ (k < n → upperR n k z₁ < upperR n k z₂) :=
  ⟨fun h => lowerR_strictAnti_z n k z₁ z₂ hn hz₁ hz h hkn,
   fun h => upperR_strictMono_z n k z₁ z₂ hn hz₁ hz hk0 h⟩

example : lowerR 10 3 2 < lowerR 10 3 1 ∧ upperR 10 3 1 < upperR 10 3 2 :=
  ⟨(wider_strict 10 3 1 2 (by norm_num) (by norm_num) (by norm_num) (by norm_num)
      (by norm_num)).1 (by norm_num),
   (wider_strict 10 3 1 2 (by norm_num) (by norm_num) (by norm_num) (by norm_num)
      (by norm_num)).2 (by norm_num)⟩

/-- the side conditions of `wider_strict` are needed: at `k = 0` the lower end is `0` and at `k = n`
    the upper end is `1`, for every `z ≥ 0` -/
theorem wider_ends_fixed (n z : ℝ) (hn : 0 < n) (hz : 0 ≤ z) :
    lowerR n 0 z = 0 ∧ upperR n n z = 1 := by
  have h0 : lowerR n 0 z = 0 :=
    le_antisymm (by simpa using lowerR_le_ratio n 0 z hn hz le_rfl hn.le)
      (lowerR_nonneg n 0 z hn hz le_rfl hn.le)
  have h1 := upperR_mirror n 0 z hn
  rw [h0, sub_zero, sub_zero] at h1
  exact ⟨h0, h1⟩

/-- A higher level gives a wider interval, on the model function: if the external normal quantile
    `crit (.z ·)` is monotone in the probability (an explicit hypothesis: the routine is not part of
    the crate) and non-negative at the smaller level, then for two confidences of the same kind with
    `level c₁ ≤ level c₂` both calls succeed and the interval at `c₂` includes the one at `c₁`
    (`Interval.includes`). -/
theorem wider_level (crit : Crit Rex) (c₁ c₂ : Confidence Rex) (n k : ℕ) (hk : 2 ≤ k)
    (hkn : k + 2 ≤ n) (hv₁ : Confidence.validLevel c₁.level = true)
    (hv₂ : Confidence.validLevel c₂.level = true) (hkind : c₁.kind = c₂.kind)
    (hl : c₁.level.val ≤ c₂.level.val)
    (hmono : ∀ p q : Rex, p.val ≤ q.val → (crit (.z p)).val ≤ (crit (.z q)).val)
    (hz : 0 ≤ (crit (.z c₁.quantile)).val) :
    ∃ i₁ i₂ : Interval Rex, ciWilson crit c₁ n k = .ok i₁ ∧ ciWilson crit c₂ n k = .ok i₂ ∧
      i₂.includes i₁ = true := by
  have hn : (0 : ℝ) < n := by exact_mod_cast (by omega : 0 < n)
  have h0 : (0 : ℝ) ≤ k := by positivity
  have h2 : (k : ℝ) ≤ n := by exact_mod_cast (by omega : k ≤ n)
  have hq : c₁.quantile.val ≤ c₂.quantile.val := by
    rw [quantile_val, quantile_val]
    cases c₁ <;> cases c₂ <;> simp only [Confidence.kind, reduceCtorEq] at hkind <;>
      simp only [Confidence.level] at hl ⊢ <;> linarith
  have hzz := hmono _ _ hq
  have hz₂ := hz.trans hzz
  obtain ⟨hlo, hhi⟩ := wider n k _ _ hn hz hzz h0 h2
  refine ⟨_, _, interval_form crit c₁ n k hk hkn hv₁ hz, interval_form crit c₂ n k hk hkn hv₂ hz₂, ?_⟩
  cases c₁ <;> cases c₂ <;> simp only [Confidence.kind, reduceCtorEq] at hkind <;>
    simp [Interval.includes, hlo, hhi]

/-- with a strictly increasing quantile routine and a strictly higher level, both ends of the
    two-sided interval move strictly outwards -/
theorem wider_level_strict (crit : Crit Rex) (l₁ l₂ : Rex) (n k : ℕ) (hk : 2 ≤ k)
    (hkn : k + 2 ≤ n) (hv₁ : Confidence.validLevel l₁ = true)
    (hv₂ : Confidence.validLevel l₂ = true) (hl : l₁.val < l₂.val)
    (hmono : ∀ p q : Rex, p.val < q.val → (crit (.z p)).val < (crit (.z q)).val)
    (hz : 0 ≤ (crit (.z (Confidence.twoSided l₁).quantile)).val) :
    ∃ a₁ b₁ a₂ b₂ : Rex, ciWilson crit (.twoSided l₁) n k = .ok (.twoSided a₁ b₁) ∧
      ciWilson crit (.twoSided l₂) n k = .ok (.twoSided a₂ b₂) ∧
      a₂.val < a₁.val ∧ b₁.val < b₂.val := by
  have hn : (0 : ℝ) < n := by exact_mod_cast (by omega : 0 < n)
  have h0 : (0 : ℝ) < k := by exact_mod_cast (by omega : 0 < k)
  have h2 : (k : ℝ) < n := by exact_mod_cast (by omega : k < n)
  have hq : (Confidence.twoSided l₁).quantile.val < (Confidence.twoSided l₂).quantile.val := by
    rw [quantile_val, quantile_val]; simp only; linarith
  have hzz := hmono _ _ hq
  have hz₂ := hz.trans hzz.le
  obtain ⟨hlo, hhi⟩ := wider_strict n k _ _ hn hz hzz h0.le h2.le
  exact ⟨_, _, _, _, interval_form crit (.twoSided l₁) n k hk hkn hv₁ hz,
    interval_form crit (.twoSided l₂) n k hk hkn hv₂ hz₂, hlo h0, hhi h2⟩

/-! ### 5. inside the unit interval, around the observed proportion -/

/-- `0 ≤ lower ≤ k/n ≤ upper ≤ 1` -/
theorem unit (n k z : ℝ) (hn : 0 < n) (hz : 0 ≤ z) (hk0 : 0 ≤ k) (hkn : k ≤ n) :
    0 ≤ lowerR n k z ∧ lowerR n k z ≤ k / n ∧ k / n ≤ upperR n k z ∧ upperR n k z ≤ 1 :=
  ⟨lowerR_nonneg n k z hn hz hk0 hkn, lowerR_le_ratio n k z hn hz hk0 hkn,
   ratio_le_upperR n k z hn hz hk0 hkn, upperR_le_one n k z hn hz hk0 hkn⟩

example : 0 ≤ lowerR 10 3 2 ∧ lowerR 10 3 2 ≤ 3 / 10 ∧ 3 / 10 ≤ upperR 10 3 2 ∧ upperR 10 3 2 ≤ 1 :=
  unit 10 3 2 (by norm_num) (by norm_num) (by norm_num) (by norm_num)

/-- every interval `ci_wilson` returns (two-sided, upper, lower) lies in `[0,1]` and contains `k/n` -/
theorem unit_interval (crit : Crit Rex) (conf : Confidence Rex) (n k : ℕ) (hk : 2 ≤ k)
    (hkn : k + 2 ≤ n) (hv : Confidence.validLevel conf.level = true)
    (hz : 0 ≤ (crit (.z conf.quantile)).val) :
    ∃ a b : Rex, ciWilson crit conf n k = .ok (.twoSided a b) ∧
      0 ≤ a.val ∧ a.val ≤ (k : ℝ) / n ∧ (k : ℝ) / n ≤ b.val ∧ b.val ≤ 1 := by
  have hn : (0 : ℝ) < n := by exact_mod_cast (by omega : 0 < n)
  have h0 : (0 : ℝ) ≤ k := by positivity
  have h2 : (k : ℝ) ≤ n := by exact_mod_cast (by omega : k ≤ n)
  obtain ⟨u1, u2, u3, u4⟩ := unit n k _ hn hz h0 h2
  have hr0 : (0 : ℝ) ≤ (k : ℝ) / n := by positivity
  have hr1 : (k : ℝ) / n ≤ 1 := by rw [div_le_one hn]; exact h2
  rw [interval_form crit conf n k hk hkn hv hz]
  cases conf
  · exact ⟨_, _, rfl, u1, u2, u3, u4⟩
  · exact ⟨_, _, rfl, u1, u2, by simpa using hr1, by simp⟩
  · exact ⟨_, _, rfl, by simp, by simpa using hr0, u3, u4⟩

/-- **The clamp of `ci_wilson`** (`(mean - span).max(0.)`, `(mean + span).min(1.)`): on every rounded
    carrier `RR fl` — whatever the rounding function `fl` applied after each operation, whatever the
    level and whatever value the quantile routine returns, no hypothesis at all — every interval
    `ci_wilson` returns is a two-sided `[a, b]` with `0 ≤ a ≤ b ≤ 1`.  (`unit_interval` above is the
    exact-arithmetic statement, where the clamp is the identity and `k/n` is contained as well; a
    rounding error that pushes `centre ∓ span` outside `[0,1]` can no longer reach the caller.) -/
theorem unit_interval_rounded {fl : ℝ → ℝ} (crit : Crit (RR fl)) (conf : Confidence (RR fl))
    (n k : ℕ) (I : Interval (RR fl)) (h : ciWilson crit conf n k = .ok I) :
    ∃ a b : RR fl, I = .twoSided a b ∧ 0 ≤ a.val ∧ a.val ≤ b.val ∧ b.val ≤ 1 :=
  ciWilson_ok_unit crit conf n k I h

/-- the clamp acts: with the (absurd) rounding `fl _ = 5` both Wilson numbers and their sum are `5`;
    the lower one-sided call returns `[0, 1]` (unclamped it would be `[0, 5]`) -/
example : ciWilson (constCrit 2 : Crit (RR (fun _ => 5))) (.lower ⟨0.95⟩) 10 3
    = .ok (.twoSided ⟨0⟩ ⟨1⟩) := by
  have hp : probOk (Confidence.lower (⟨0.95⟩ : RR (fun _ => 5))).quantile = true := by
    simp only [probOk, Confidence.quantile, Bool.and_eq_true, RR.le_iff, RR.zero_val, RR.one_val]
    norm_num
  have hhi : ∀ z : RR (fun _ => 5), fmin (NumOps.add
      (wilsonCentre (Scalar.ofNat 10) (Scalar.ofNat 3) z)
      (wilsonSpan (Scalar.ofNat 10) (Scalar.ofNat 3) z)) (NumOps.one : RR (fun _ => 5)) = ⟨1⟩ := by
    intro z; apply RR.ext'; rw [fmin_val]; simp
  have h1 : ¬ (3 > 10) := by decide
  have h2 : ¬ (3 < 2) := by decide
  have h3 : ¬ (10 - 3 < 2) := by decide
  have hhi' : fmax (⟨1⟩ : RR (fun _ => 5)) (NumOps.zero : RR (fun _ => 5)) = ⟨1⟩ := by
    apply RR.ext'; rw [fmax_val]; simp
  simp only [ciWilson, h1, h2, h3, if_false, zValue, hp, if_true, Outcome.bind_ok, finishWilson, hhi,
    hhi']
  rw [new_ok _ _ (by simp)]; rfl

/-! ### 6. the midpoint -/

/-- the midpoint of the two-sided interval is the model's centre, a weighted mean of `k/n` and `1/2`
    with weights `n/(n+z²)` and `z²/(n+z²)` -/
theorem midpoint (n k z : ℝ) (hn : 0 < n) :
    (lowerR n k z + upperR n k z) / 2 = centreR n k z ∧
    centreR n k z = n / (n + z ^ 2) * (k / n) + z ^ 2 / (n + z ^ 2) * (1 / 2) ∧
    0 < n / (n + z ^ 2) ∧ 0 ≤ z ^ 2 / (n + z ^ 2) ∧ n / (n + z ^ 2) + z ^ 2 / (n + z ^ 2) = 1 := by
  refine ⟨?_, centreR_convex n k z hn, weights n z hn⟩
  rw [lowerR_def, upperR_def]; ring

/-- hence it lies between `k/n` and `1/2` -/
theorem midpoint_between (n k z : ℝ) (hn : 0 < n) :
    min (k / n) (1 / 2) ≤ (lowerR n k z + upperR n k z) / 2 ∧
    (lowerR n k z + upperR n k z) / 2 ≤ max (k / n) (1 / 2) := by
  obtain ⟨h1, h2, w1, w2, w3⟩ := midpoint n k z hn
  rw [h1, h2]
  set a := n / (n + z ^ 2)
  set b := z ^ 2 / (n + z ^ 2)
  have m1 := min_le_left (k / n) (1 / 2)
  have m2 := min_le_right (k / n) (1 / 2)
  have M1 := le_max_left (k / n) (1 / 2)
  have M2 := le_max_right (k / n) (1 / 2)
  constructor
  · have e : min (k / n) (1 / 2) = a * min (k / n) (1 / 2) + b * min (k / n) (1 / 2) := by
      rw [← add_mul, w3, one_mul]
    rw [e]
    exact add_le_add (mul_le_mul_of_nonneg_left m1 w1.le) (mul_le_mul_of_nonneg_left m2 w2)
  · have e : max (k / n) (1 / 2) = a * max (k / n) (1 / 2) + b * max (k / n) (1 / 2) := by
      rw [← add_mul, w3, one_mul]
    rw [e]
    exact add_le_add (mul_le_mul_of_nonneg_left M1 w1.le) (mul_le_mul_of_nonneg_left M2 w2)

example : min ((3 : ℝ) / 10) (1 / 2) ≤ (lowerR 10 3 2 + upperR 10 3 2) / 2 :=
  (midpoint_between 10 3 2 (by norm_num)).1

/-- the midpoint of the two-sided interval `ci_wilson` returns lies between `k/n` and `1/2` -/
theorem midpoint_interval (crit : Crit Rex) (l : Rex) (n k : ℕ) (hk : 2 ≤ k) (hkn : k + 2 ≤ n)
    (hv : Confidence.validLevel l = true)
    (hz : 0 ≤ (crit (.z (Confidence.twoSided l).quantile)).val) :
    ∃ a b : Rex, ciWilson crit (.twoSided l) n k = .ok (.twoSided a b) ∧
      min ((k : ℝ) / n) (1 / 2) ≤ (a.val + b.val) / 2 ∧
      (a.val + b.val) / 2 ≤ max ((k : ℝ) / n) (1 / 2) := by
  have hn : (0 : ℝ) < n := by exact_mod_cast (by omega : 0 < n)
  obtain ⟨m1, m2⟩ := midpoint_between n k (crit (.z (Confidence.twoSided l).quantile)).val hn
  exact ⟨_, _, interval_form crit (.twoSided l) n k hk hkn hv hz, m1, m2⟩

/-! ### non-vacuity of the hypotheses of the `_interval` theorems

  level 0.95, 3 successes out of 10 (and 5 out of 10), a constant critical value 2 for the monotone
  case and the identity `p ↦ p` as a strictly increasing stand-in for the strict case. -/

example : Confidence.validLevel (⟨0.95⟩ : Rex) = true := by
  rw [validLevel_iff]; norm_num

example : ∃ i₁ i₂ : Interval Rex,
    ciWilson (constCrit 2) (.twoSided ⟨0.9⟩) 10 3 = .ok i₁ ∧
    ciWilson (constCrit 2) (.twoSided ⟨0.95⟩) 10 3 = .ok i₂ ∧ i₂.includes i₁ = true :=
  wider_level (constCrit 2) (.twoSided ⟨0.9⟩) (.twoSided ⟨0.95⟩) 10 3 (by norm_num) (by norm_num)
    (by rw [validLevel_iff]; norm_num [Confidence.level])
    (by rw [validLevel_iff]; norm_num [Confidence.level]) rfl
    (by norm_num [Confidence.level]) (fun _ _ _ => le_rfl) (by norm_num [constCrit])

example : ∃ a₁ b₁ a₂ b₂ : Rex,
    ciWilson (fun r => match r with | .z p => p | .t _ p => p) (.twoSided ⟨0.9⟩) 10 3
      = .ok (.twoSided a₁ b₁) ∧
    ciWilson (fun r => match r with | .z p => p | .t _ p => p) (.twoSided ⟨0.95⟩) 10 3
      = .ok (.twoSided a₂ b₂) ∧ a₂.val < a₁.val ∧ b₁.val < b₂.val :=
  wider_level_strict _ ⟨0.9⟩ ⟨0.95⟩ 10 3 (by norm_num) (by norm_num)
    (by rw [validLevel_iff]; norm_num) (by rw [validLevel_iff]; norm_num) (by norm_num)
    (fun _ _ h => h) (by rw [quantile_val]; norm_num)

example : ∃ a b a' b' : Rex, ciWilson (constCrit 2) (.upper ⟨0.95⟩) 10 3 = .ok (.twoSided a b) ∧
    ciWilson (constCrit 2) (.upper ⟨0.95⟩) 10 5 = .ok (.twoSided a' b') ∧
    a.val ≤ a'.val ∧ b.val ≤ b'.val :=
  mono_k_interval (constCrit 2) (.upper ⟨0.95⟩) 10 3 5 (by norm_num) (by norm_num) (by norm_num)
    (by rw [validLevel_iff]; norm_num [Confidence.level]) (by norm_num [constCrit])

example : ∃ lo hi : ℝ,
    ciWilson (constCrit 2 : Crit Rex) (.twoSided ⟨0.95⟩) 10 3 = .ok (.twoSided ⟨lo⟩ ⟨hi⟩) ∧
    ciWilson (constCrit 2 : Crit Rex) (.twoSided ⟨0.95⟩) 10 (10 - 3)
      = .ok (.twoSided ⟨1 - hi⟩ ⟨1 - lo⟩) :=
  (mirror_interval_explicit (constCrit 2) ⟨0.95⟩ 10 3 (by norm_num) (by norm_num)
    (by rw [validLevel_iff]; norm_num)).1 (by norm_num [constCrit])

example : ∃ i i' : Interval Rex, ∃ w w' : Rex,
    ciWilson (constCrit 2) (.twoSided ⟨0.95⟩) 10 3 = .ok i ∧
    ciWilson (constCrit 2) (.twoSided ⟨0.95⟩) (4 * 10) (4 * 3) = .ok i' ∧
    i.width = some w ∧ i'.width = some w' ∧ w'.val < w.val :=
  shrink_interval (constCrit 2) ⟨0.95⟩ 10 3 4 (by norm_num) (by norm_num) (by norm_num)
    (by rw [validLevel_iff]; norm_num) (by norm_num [constCrit])

example : ∃ a b : Rex, ciWilson (constCrit 2) (.lower ⟨0.95⟩) 10 3 = .ok (.twoSided a b) ∧
    0 ≤ a.val ∧ a.val ≤ ((3 : ℕ) : ℝ) / (10 : ℕ) ∧ ((3 : ℕ) : ℝ) / (10 : ℕ) ≤ b.val ∧ b.val ≤ 1 :=
  unit_interval (constCrit 2) (.lower ⟨0.95⟩) 10 3 (by norm_num) (by norm_num)
    (by rw [validLevel_iff]; norm_num [Confidence.level]) (by norm_num [constCrit])

example : ∃ a b : Rex, ciWilson (constCrit 2) (.twoSided ⟨0.95⟩) 10 3 = .ok (.twoSided a b) ∧
    min (((3 : ℕ) : ℝ) / (10 : ℕ)) (1 / 2) ≤ (a.val + b.val) / 2 ∧
    (a.val + b.val) / 2 ≤ max (((3 : ℕ) : ℝ) / (10 : ℕ)) (1 / 2) :=
  midpoint_interval (constCrit 2) ⟨0.95⟩ 10 3 (by norm_num) (by norm_num)
    (by rw [validLevel_iff]; norm_num) (by norm_num [constCrit])

end StatsCI.C17
