/-
  C04R — Forward rounding-error bounds for the two comparison producers `Paired`, `Unpaired`.

  The model functions (`Paired.extend`, `Paired.ci`, `Unpaired.ciPrep`, `Unpaired.ciMean`,
  `Unpaired.ci`) are run at the carrier `RR fl` (ℝ with a rounding function `fl` applied after
  every operation) on real data and compared with the exact statistics of the same data
  (C04: at `Rex` these are what the model computes).  Hypotheses on `(fl, u)`, as in C01R:

  * `hfl : ∀ x, |fl x − x| ≤ u·|x|`, `hu : 0 ≤ u`;
  * sizes `≥ 2`, `n·u ≤ 1/1024` with `n` the number of pairs (paired) resp. `na + nb` (unpaired);
  * `hnat`: `fl m = m` for the natural numbers `m ≤ n` (the counts and, for the degrees of
    freedom, their successors).

  Not modelled (as everywhere at `RR fl`): overflow, NaN, gradual underflow.

  Notation (`Lemmas/UnpairedRound.lean`, `Lemmas/MeanExact.lean`, `Lemmas/MeanUnpaired.lean`):
  `flDiffs fl as bs = (zipWith (−) as bs).map fl` — the rounded differences `d̃ᵢ = fl (aᵢ − bᵢ)`;
  `smean`, `svar`, `ssd` — exact sample mean, variance, standard deviation;
  `meanAbs xs = Σ|x|/n`; `sqTerm xs = Σx²/((n − 1)·n)`; `welchA xs = s²/n`;
  `welchNu as bs` — the exact effective degrees of freedom `ν` (C04 `unpaired_dof_formula`);
  `clampedDof A B na nb = max (welchDof A B na nb) (min na nb − 1)` — what the model hands on at
  exact arithmetic (C04 `unpaired_dof_clamped`);
  `ofLists fl as bs = Unpaired.fromLists (as.map inj) (bs.map inj)` at `RR fl`;
  `dofFl U` — the model's `Unpaired.effectiveDof` at `RR fl` on the computed `sa²/na`, `sb²/nb` and
  the two counts (the computed Welch value, before the lower bound is applied).

  A. Paired.  The state built at `RR fl` is the `Arith` state of `d̃`, so C01R applies verbatim
     with `xs := d̃`; the exact statistics of `d̃` and of `d` differ by `u·Σ|d|/n` (mean) and
     `u·√(Σd²/(n − 1))` (standard deviation: it is a seminorm, constant `K = 1`).
  B. Unpaired with a constant critical value `c`: mean difference `15`, `sa²/na + sb²/nb` `53`,
     standard error `8·√(u·W)` / `55u·W/se`, interval `17`, `1 + 3u`, `3`
     (`W = sqTerm as + sqTerm bs`).  The constants are not tight.
  C. The effective degrees of freedom. The value handed on is the computed Welch value `dofFl`
     bounded below by the computed `fl (min (fl na) (fl nb) − 1)` (the crate's lower bound,
     `Unpaired.clampDof`): which quantile is requested at `RR fl`; the value handed on is positive
     at every `fl` with `u < 1/2`, and `≥ min(na, nb) − 1 ≥ 1` when `fl` is exact on the counts
     and on `min(na, nb) − 1` — `t_value` does not panic, two constant samples included (they
     give the degenerate interval at the rounded mean difference); `dofFl` itself is positive
     unless both computed standard deviations vanish (then it is negative, at every `fl`);
     `|dofFl − ν| ≤ (255·κ + 19)·u·(ν + 2)` for both variances positive and
     `κ ≥ Σx²/((n − 1)s²)` on both sides, `51·u·κ ≤ 1/64`; an absolute form
     `((5/4)(2η + ρ) + 19u)·(ν + 2)` that allows one variance to vanish; the same bounds for the
     value handed on (`max` is 1-Lipschitz and `ν ≥ min(na, nb) − 1`); `ν ≤ na + nb`.
     (`ν ≥ min(na, nb) − 1 ≥ 1` is C04 `dof_pos_samples`, not repeated here.)
-/
import StatsCI.Lemmas.UnpairedRound
import StatsCI.Properties.C01R

namespace StatsCI.C04R
open StatsCI StatsCI.MeanLemmas StatsCI.MeanRound StatsCI.UnpairedRound NumOps Scalar

variable {fl : ℝ → ℝ} {u : ℝ}

/-! ### A. Paired -/

/-- **The paired state at `RR fl`.** For two equally long real samples, `Paired::extend` on the
    empty state succeeds and both the returned and the left-behind state are the `Arith` state of
    the rounded differences `d̃ᵢ = fl (aᵢ − bᵢ)`; hence `Paired::ci` is `Arithmetic::ci` of `d̃`
    (for every critical-value oracle), and there are as many differences as pairs. -/
theorem paired_state (crit : Crit (RR fl)) (conf : Confidence (RR fl)) (as bs : List ℝ)
    (h : as.length = bs.length) :
    flDiffs fl as bs = (List.zipWith (fun a b => a - b) as bs).map fl ∧
    (Paired.extend (Paired.empty : Paired (RR fl)) (as.map inj) (bs.map inj) :
        Outcome (Err (RR fl)) (Paired (RR fl)) × Paired (RR fl)) =
      (.ok ⟨Arith.fromList ((flDiffs fl as bs).map inj)⟩,
        ⟨Arith.fromList ((flDiffs fl as bs).map inj)⟩) ∧
    Paired.ci crit conf (as.map (inj : ℝ → RR fl)) (bs.map inj) =
      Arith.ci crit conf ((flDiffs fl as bs).map (inj : ℝ → RR fl)) ∧
    (flDiffs fl as bs).length = as.length :=
  ⟨rfl, paired_extend_fl as bs h, paired_ci_fl crit conf as bs h, flDiffs_length as bs h⟩

/-- **Paired statistics.** `sample_mean()`, the variance and the standard deviation of the paired
    state at `RR fl` against the exact statistics of the rounded differences `d̃`: the C01R
    bounds `13u·Σ|d̃|/n`, `44u·Σd̃²/(n − 1)`, `7·√(u·Σd̃²/(n − 1))` and (relative form)
    `|sd_fl − s|·s ≤ 46u·Σd̃²/(n − 1)`. -/
theorem paired_stats_error (hfl : ∀ x, |fl x - x| ≤ u * |x|) (hu : 0 ≤ u) (as bs : List ℝ)
    (h : as.length = bs.length) (hn : 2 ≤ as.length) (hs : (as.length : ℝ) * u ≤ 1 / 1024)
    (hnat : ∀ m : ℕ, m ≤ as.length → fl m = m) :
    let P : Paired (RR fl) := ⟨Arith.fromList ((flDiffs fl as bs).map inj)⟩
    |P.mean.val - smean (flDiffs fl as bs)| ≤
      13 * u * (((flDiffs fl as bs).map abs).sum / as.length) ∧
    |P.stats.variance.val - svar (flDiffs fl as bs)| ≤
      44 * u * (((flDiffs fl as bs).map (fun x => x * x)).sum / ((as.length : ℝ) - 1)) ∧
    |P.stats.stdDev.val - ssd (flDiffs fl as bs)| ≤
      7 * Real.sqrt (u * (((flDiffs fl as bs).map (fun x => x * x)).sum
        / ((as.length : ℝ) - 1))) ∧
    |P.stats.stdDev.val - ssd (flDiffs fl as bs)| * ssd (flDiffs fl as bs) ≤
      46 * u * (((flDiffs fl as bs).map (fun x => x * x)).sum / ((as.length : ℝ) - 1)) := by
  intro P
  have hl := flDiffs_length (fl := fl) as bs h
  have h1 := mean_bound hfl hu (flDiffs fl as bs) (by rw [hl]; exact hn) (by rw [hl]; exact hs)
    (by rw [hl]; exact hnat)
  have h2 := variance_bound hfl hu (flDiffs fl as bs) (by rw [hl]; exact hn)
    (by rw [hl]; exact hs) (by rw [hl]; exact hnat)
  have h3 := stdDev_bound hfl hu (flDiffs fl as bs) (by rw [hl]; exact hn)
    (by rw [hl]; exact hs) (by rw [hl]; exact hnat)
  rw [hl] at h1 h2 h3
  exact ⟨h1, h2, h3.1, h3.2⟩

/-- **Paired interval, closed form valid for every sample.** With a constant critical value
    `c ≥ 0` and an admissible probability, `Paired::ci` at `RR fl` hands two bounds to the interval
    constructor of the kind of `conf`; each is within the C01R bound, expressed in the rounded
    differences `d̃`, of the exact one-sample bound `x̄(d̃) ∓ c·s(d̃)/√n` of the rounded
    differences. -/
theorem paired_interval_error_sqrt (hfl : ∀ x, |fl x - x| ≤ u * |x|) (hu : 0 ≤ u)
    (as bs : List ℝ) (h : as.length = bs.length) (hn : 2 ≤ as.length)
    (hs : (as.length : ℝ) * u ≤ 1 / 1024) (hnat : ∀ m : ℕ, m ≤ as.length → fl m = m)
    (c : ℝ) (hc : 0 ≤ c) (conf : Confidence (RR fl)) (hp : probOk conf.quantile = true) :
    ∃ lo hi : ℝ,
      Paired.ci (constCrit c) conf (as.map (inj : ℝ → RR fl)) (bs.map inj) =
        intervalOfKind conf (⟨lo⟩ : RR fl) ⟨hi⟩ ∧
      |lo - (smean (flDiffs fl as bs) - c * (ssd (flDiffs fl as bs) / Real.sqrt as.length))| ≤
        15 * u * (((flDiffs fl as bs).map abs).sum / as.length)
          + (1 + 8 * u) * (c * (7 * Real.sqrt (u * (((flDiffs fl as bs).map (fun x => x * x)).sum
              / ((as.length : ℝ) - 1))) / Real.sqrt as.length))
          + 7 * u * (c * (ssd (flDiffs fl as bs) / Real.sqrt as.length)) ∧
      |hi - (smean (flDiffs fl as bs) + c * (ssd (flDiffs fl as bs) / Real.sqrt as.length))| ≤
        15 * u * (((flDiffs fl as bs).map abs).sum / as.length)
          + (1 + 8 * u) * (c * (7 * Real.sqrt (u * (((flDiffs fl as bs).map (fun x => x * x)).sum
              / ((as.length : ℝ) - 1))) / Real.sqrt as.length))
          + 7 * u * (c * (ssd (flDiffs fl as bs) / Real.sqrt as.length)) := by
  have hl := flDiffs_length (fl := fl) as bs h
  obtain ⟨lo, hi, e, b1, b2⟩ := C01R.interval_error_sqrt hfl hu (flDiffs fl as bs)
    (by rw [hl]; exact hn) (by rw [hl]; exact hs) (by rw [hl]; exact hnat) c hc conf hp
  rw [hl] at b1 b2
  exact ⟨lo, hi, by rw [paired_ci_fl _ _ _ _ h]; exact e, b1, b2⟩

/-- **Paired interval, `κ`-form.** For `s²(d̃) > 0`, with `κ = Σd̃²/((n − 1)·s²(d̃))` and
    `halfwidth = c·s(d̃)/√n`: each bound is within `47·u·(Σ|d̃|/n + halfwidth·(1 + κ))` of the exact
    one-sample bound of the rounded differences (C01R `interval_error_kappa`). -/
theorem paired_interval_error_kappa (hfl : ∀ x, |fl x - x| ≤ u * |x|) (hu : 0 ≤ u)
    (as bs : List ℝ) (h : as.length = bs.length) (hn : 2 ≤ as.length)
    (hs : (as.length : ℝ) * u ≤ 1 / 1024) (hnat : ∀ m : ℕ, m ≤ as.length → fl m = m)
    (c : ℝ) (hc : 0 ≤ c) (conf : Confidence (RR fl)) (hp : probOk conf.quantile = true)
    (hpos : 0 < svar (flDiffs fl as bs)) :
    ∃ lo hi : ℝ,
      Paired.ci (constCrit c) conf (as.map (inj : ℝ → RR fl)) (bs.map inj) =
        intervalOfKind conf (⟨lo⟩ : RR fl) ⟨hi⟩ ∧
      |lo - (smean (flDiffs fl as bs) - c * (ssd (flDiffs fl as bs) / Real.sqrt as.length))| ≤
        47 * u * (((flDiffs fl as bs).map abs).sum / as.length
          + c * (ssd (flDiffs fl as bs) / Real.sqrt as.length) *
            (1 + ((flDiffs fl as bs).map (fun x => x * x)).sum / ((as.length : ℝ) - 1)
              / svar (flDiffs fl as bs))) ∧
      |hi - (smean (flDiffs fl as bs) + c * (ssd (flDiffs fl as bs) / Real.sqrt as.length))| ≤
        47 * u * (((flDiffs fl as bs).map abs).sum / as.length
          + c * (ssd (flDiffs fl as bs) / Real.sqrt as.length) *
            (1 + ((flDiffs fl as bs).map (fun x => x * x)).sum / ((as.length : ℝ) - 1)
              / svar (flDiffs fl as bs))) := by
  have hl := flDiffs_length (fl := fl) as bs h
  obtain ⟨lo, hi, e, b1, b2⟩ := C01R.interval_error_kappa hfl hu (flDiffs fl as bs)
    (by rw [hl]; exact hn) (by rw [hl]; exact hs) (by rw [hl]; exact hnat) c hc conf hp hpos
  rw [hl] at b1 b2
  exact ⟨lo, hi, by rw [paired_ci_fl _ _ _ _ h]; exact e, b1, b2⟩

/-- **Rounded against exact differences.** With `d = zipWith (−) as bs` (exact) and
    `d̃ = d.map fl`: the exact sample means differ by at most `u·Σ|d|/n`, the exact sample
    standard deviations by at most `u·√(Σd²/(n − 1))` (constant `1`: the sample standard deviation
    is a seminorm and `|d̃ᵢ − dᵢ| ≤ u·|dᵢ|`); and the magnitudes in which the C01R bounds of `d̃` are
    expressed are those of `d` up to `1 + u`, `(1 + u)²`. -/
theorem diffs_perturbation (hfl : ∀ x, |fl x - x| ≤ u * |x|) (hu : 0 ≤ u) (as bs : List ℝ)
    (h : as.length = bs.length) (hn : 2 ≤ as.length) :
    let d := List.zipWith (fun a b => a - b) as bs
    |smean (flDiffs fl as bs) - smean d| ≤ u * ((d.map abs).sum / as.length) ∧
    |ssd (flDiffs fl as bs) - ssd d| ≤
      u * Real.sqrt ((d.map (fun x => x * x)).sum / ((as.length : ℝ) - 1)) ∧
    ((flDiffs fl as bs).map abs).sum ≤ (1 + u) * (d.map abs).sum ∧
    ((flDiffs fl as bs).map (fun x => x * x)).sum ≤ (1 + u) ^ 2 * (d.map (fun x => x * x)).sum := by
  intro d
  have hl : d.length = as.length := diffs_length as bs h
  have h1 := smean_map_fl hfl d (by rw [hl]; omega)
  have h2 := ssd_map_fl hfl hu d (by rw [hl]; exact hn)
  rw [hl] at h1 h2
  exact ⟨h1, h2, sumAbs_map_fl_le hfl d, sumSq_map_fl_le hfl hu d⟩

/-- **Paired interval against the exact interval of the exact differences.** The bounds `lo`, `hi`
    of `Paired::ci` at `RR fl` against `x̄(d) ∓ c·s(d)/√n`, `d` the exact differences: the C01R
    bound of `paired_interval_error_sqrt` (in `d̃`) plus `u·Σ|d|/n + c·u·√(Σd²/(n − 1))/√n`. -/
theorem paired_interval_total (hfl : ∀ x, |fl x - x| ≤ u * |x|) (hu : 0 ≤ u)
    (as bs : List ℝ) (h : as.length = bs.length) (hn : 2 ≤ as.length)
    (hs : (as.length : ℝ) * u ≤ 1 / 1024) (hnat : ∀ m : ℕ, m ≤ as.length → fl m = m)
    (c : ℝ) (hc : 0 ≤ c) (conf : Confidence (RR fl)) (hp : probOk conf.quantile = true) :
    let d := List.zipWith (fun a b => a - b) as bs
    let B := 15 * u * (((flDiffs fl as bs).map abs).sum / as.length)
      + (1 + 8 * u) * (c * (7 * Real.sqrt (u * (((flDiffs fl as bs).map (fun x => x * x)).sum
          / ((as.length : ℝ) - 1))) / Real.sqrt as.length))
      + 7 * u * (c * (ssd (flDiffs fl as bs) / Real.sqrt as.length))
      + (u * ((d.map abs).sum / as.length)
        + c * (u * Real.sqrt ((d.map (fun x => x * x)).sum / ((as.length : ℝ) - 1))
            / Real.sqrt as.length))
    ∃ lo hi : ℝ,
      Paired.ci (constCrit c) conf (as.map (inj : ℝ → RR fl)) (bs.map inj) =
        intervalOfKind conf (⟨lo⟩ : RR fl) ⟨hi⟩ ∧
      |lo - (smean d - c * (ssd d / Real.sqrt as.length))| ≤ B ∧
      |hi - (smean d + c * (ssd d / Real.sqrt as.length))| ≤ B := by
  intro d B
  have hl : d.length = as.length := diffs_length as bs h
  obtain ⟨lo, hi, e, b1, b2⟩ := paired_interval_error_sqrt hfl hu as bs h hn hs hnat c hc conf hp
  obtain ⟨p1, p2⟩ := ref_perturb hfl hu d (by rw [hl]; exact hn) c hc
  rw [hl] at p1 p2
  refine ⟨lo, hi, e, ?_, ?_⟩
  · have t := abs_add_le
      (lo - (smean (flDiffs fl as bs) - c * (ssd (flDiffs fl as bs) / Real.sqrt as.length)))
      ((smean (flDiffs fl as bs) - c * (ssd (flDiffs fl as bs) / Real.sqrt as.length))
        - (smean d - c * (ssd d / Real.sqrt as.length)))
    rw [sub_add_sub_cancel] at t
    have p1' : |(smean (flDiffs fl as bs) - c * (ssd (flDiffs fl as bs) / Real.sqrt as.length))
        - (smean d - c * (ssd d / Real.sqrt as.length))| ≤
        u * ((d.map abs).sum / as.length)
          + c * (u * Real.sqrt ((d.map (fun x => x * x)).sum / ((as.length : ℝ) - 1))
            / Real.sqrt as.length) := p1
    simp only [B]
    linarith
  · have t := abs_add_le
      (hi - (smean (flDiffs fl as bs) + c * (ssd (flDiffs fl as bs) / Real.sqrt as.length)))
      ((smean (flDiffs fl as bs) + c * (ssd (flDiffs fl as bs) / Real.sqrt as.length))
        - (smean d + c * (ssd d / Real.sqrt as.length)))
    rw [sub_add_sub_cancel] at t
    have p2' : |(smean (flDiffs fl as bs) + c * (ssd (flDiffs fl as bs) / Real.sqrt as.length))
        - (smean d + c * (ssd d / Real.sqrt as.length))| ≤
        u * ((d.map abs).sum / as.length)
          + c * (u * Real.sqrt ((d.map (fun x => x * x)).sum / ((as.length : ℝ) - 1))
            / Real.sqrt as.length) := p2
    simp only [B]
    linarith

/-! ### B. Unpaired, constant critical value -/

/-- **Mean difference.** At `RR fl` the guards of `Unpaired::ci_mean` pass and the mean difference
    `d` handed to `interval_bounds` satisfies
    `|d − (x̄a − x̄b)| ≤ 13u·(Σ|a|/na + Σ|b|/nb) + u·(|x̄a − x̄b| + 13u·(Σ|a|/na + Σ|b|/nb))`
    (the two means, C01R, then the final subtraction) and hence `≤ 15u·(Σ|a|/na + Σ|b|/nb)`. -/
theorem unpaired_meanDiff_error (hfl : ∀ x, |fl x - x| ≤ u * |x|) (hu : 0 ≤ u) (as bs : List ℝ)
    (hna : 2 ≤ as.length) (hnb : 2 ≤ bs.length)
    (hs : ((as.length : ℝ) + bs.length) * u ≤ 1 / 1024)
    (hnat : ∀ m : ℕ, m ≤ as.length + bs.length → fl m = m) :
    ∃ d se dof : ℝ,
      (Unpaired.ciPrep (Unpaired.fromLists (as.map inj) (bs.map inj) : Unpaired (RR fl)) :
        Outcome (Err (RR fl)) (Arith.Prep (RR fl))) = .ok ⟨⟨d⟩, ⟨se⟩, ⟨dof⟩⟩ ∧
      |d - (smean as - smean bs)| ≤
        13 * u * (meanAbs as + meanAbs bs)
          + u * (|smean as - smean bs| + 13 * u * (meanAbs as + meanAbs bs)) ∧
      |d - (smean as - smean bs)| ≤ 15 * u * (meanAbs as + meanAbs bs) := by
  have hp := ciPrep_fl (ofLists fl as bs) (by rw [ofLists_a_count]; exact hna)
    (by rw [ofLists_b_count]; exact hnb)
  obtain ⟨h1, h2⟩ := diff_bound hfl hu as bs hna hnb hs hnat
  exact ⟨_, _, _, hp, h1, h2⟩

/-- **Standard error.** The standard error handed to `interval_bounds` at `RR fl` is
    `fl (√S)` with `S ≥ 0` the computed `sa²/na + sb²/nb`;
    `|S − (sa²/na + sb²/nb)| ≤ 53u·W`, `W = Σa²/((na − 1)na) + Σb²/((nb − 1)nb)`
    (`variance_error` on each side, squaring the rounded square root, two divisions, one addition);
    `|se_fl − se| ≤ 8·√(u·W)` (valid also for `se = 0`) and `|se_fl − se|·se ≤ 55u·W`
    (the relative form, for `se > 0`), `se = √(sa²/na + sb²/nb)`. -/
theorem unpaired_stdErr_error (hfl : ∀ x, |fl x - x| ≤ u * |x|) (hu : 0 ≤ u) (as bs : List ℝ)
    (hna : 2 ≤ as.length) (hnb : 2 ≤ bs.length)
    (hs : ((as.length : ℝ) + bs.length) * u ≤ 1 / 1024)
    (hnat : ∀ m : ℕ, m ≤ as.length + bs.length → fl m = m) :
    ∃ d S dof : ℝ,
      (Unpaired.ciPrep (Unpaired.fromLists (as.map inj) (bs.map inj) : Unpaired (RR fl)) :
        Outcome (Err (RR fl)) (Arith.Prep (RR fl))) = .ok ⟨⟨d⟩, ⟨fl (Real.sqrt S)⟩, ⟨dof⟩⟩ ∧
      0 ≤ S ∧
      |S - (welchA as + welchA bs)| ≤ 53 * u * (sqTerm as + sqTerm bs) ∧
      |fl (Real.sqrt S) - Real.sqrt (welchA as + welchA bs)| ≤
        8 * Real.sqrt (u * (sqTerm as + sqTerm bs)) ∧
      |fl (Real.sqrt S) - Real.sqrt (welchA as + welchA bs)| *
        Real.sqrt (welchA as + welchA bs) ≤ 55 * u * (sqTerm as + sqTerm bs) := by
  have hp := ciPrep_fl (ofLists fl as bs) (by rw [ofLists_a_count]; exact hna)
    (by rw [ofLists_b_count]; exact hnb)
  obtain ⟨h1, h2, _⟩ := sumS2n_bound hfl hu as bs hna hnb hs hnat
  obtain ⟨h3, h4⟩ := se_bound hfl hu as bs hna hnb hs hnat
  exact ⟨_, sumS2nFl (ofLists fl as bs), _, hp, h2, h1, h3, h4⟩

/-- **Unpaired interval, closed form, valid for every pair of samples.** With a constant critical
    value `c ≥ 0` and an admissible probability, `Unpaired::ci` at `RR fl` hands two bounds to the
    interval constructor of the kind of `conf` (the degrees of freedom handed on are at least
    `min(na, nb) − 1 ≥ 1` by the crate's lower bound, so `t_value` does not panic — also for two
    constant samples, where `se = 0`); each differs from the exact `(x̄a − x̄b) ∓ c·se` by at most
    `17u·(Σ|a|/na + Σ|b|/nb) + (1 + 3u)·c·8·√(u·W) + 3u·c·se`.
    The dependence of the quantile on the computed degrees of freedom is factored out: `c` is
    whatever the oracle answers (part C bounds the degrees of freedom themselves). -/
theorem unpaired_interval_error_sqrt (hfl : ∀ x, |fl x - x| ≤ u * |x|) (hu : 0 ≤ u)
    (as bs : List ℝ) (hna : 2 ≤ as.length) (hnb : 2 ≤ bs.length)
    (hs : ((as.length : ℝ) + bs.length) * u ≤ 1 / 1024)
    (hnat : ∀ m : ℕ, m ≤ as.length + bs.length → fl m = m) (c : ℝ) (hc : 0 ≤ c)
    (conf : Confidence (RR fl)) (hp : probOk conf.quantile = true) :
    ∃ lo hi : ℝ,
      Unpaired.ci (constCrit c) conf (as.map (inj : ℝ → RR fl)) (bs.map inj) =
        intervalOfKind conf (⟨lo⟩ : RR fl) ⟨hi⟩ ∧
      |lo - ((smean as - smean bs) - c * Real.sqrt (welchA as + welchA bs))| ≤
        17 * u * (meanAbs as + meanAbs bs)
          + (1 + 3 * u) * (c * (8 * Real.sqrt (u * (sqTerm as + sqTerm bs))))
          + 3 * u * (c * Real.sqrt (welchA as + welchA bs)) ∧
      |hi - ((smean as - smean bs) + c * Real.sqrt (welchA as + welchA bs))| ≤
        17 * u * (meanAbs as + meanAbs bs)
          + (1 + 3 * u) * (c * (8 * Real.sqrt (u * (sqTerm as + sqTerm bs))))
          + 3 * u * (c * Real.sqrt (welchA as + welchA bs)) := by
  have hd : 0 < dofClFl (ofLists fl as bs) :=
    lt_of_lt_of_le one_pos (dofClFl_lists as bs hna hnb hnat).2.2
  have he := ciMean_fl (constCrit c) (ofLists fl as bs) conf (by rw [ofLists_a_count]; exact hna)
    (by rw [ofLists_b_count]; exact hnb) hd hp
  obtain ⟨b1, b2⟩ := unpaired_bounds_bound hfl hu as bs hna hnb hs hnat c hc
    (se_bound hfl hu as bs hna hnb hs hnat).1
  exact ⟨_, _, he, b1, b2⟩

/-- **Unpaired interval, relative form.** For samples not both constant (`se > 0`) the error of
    the standard error enters as `55u·W/se`:
    `17u·(Σ|a|/na + Σ|b|/nb) + (1 + 3u)·c·55u·W/se + 3u·c·se`. -/
theorem unpaired_interval_error_rel (hfl : ∀ x, |fl x - x| ≤ u * |x|) (hu : 0 ≤ u)
    (as bs : List ℝ) (hna : 2 ≤ as.length) (hnb : 2 ≤ bs.length)
    (hs : ((as.length : ℝ) + bs.length) * u ≤ 1 / 1024)
    (hnat : ∀ m : ℕ, m ≤ as.length + bs.length → fl m = m) (c : ℝ) (hc : 0 ≤ c)
    (conf : Confidence (RR fl)) (hp : probOk conf.quantile = true)
    (hAB : 0 < welchA as + welchA bs) :
    ∃ lo hi : ℝ,
      Unpaired.ci (constCrit c) conf (as.map (inj : ℝ → RR fl)) (bs.map inj) =
        intervalOfKind conf (⟨lo⟩ : RR fl) ⟨hi⟩ ∧
      |lo - ((smean as - smean bs) - c * Real.sqrt (welchA as + welchA bs))| ≤
        17 * u * (meanAbs as + meanAbs bs)
          + (1 + 3 * u) * (c * (55 * u * (sqTerm as + sqTerm bs)
              / Real.sqrt (welchA as + welchA bs)))
          + 3 * u * (c * Real.sqrt (welchA as + welchA bs)) ∧
      |hi - ((smean as - smean bs) + c * Real.sqrt (welchA as + welchA bs))| ≤
        17 * u * (meanAbs as + meanAbs bs)
          + (1 + 3 * u) * (c * (55 * u * (sqTerm as + sqTerm bs)
              / Real.sqrt (welchA as + welchA bs)))
          + 3 * u * (c * Real.sqrt (welchA as + welchA bs)) := by
  have hse : 0 < Real.sqrt (welchA as + welchA bs) := Real.sqrt_pos.mpr hAB
  have hd : 0 < dofClFl (ofLists fl as bs) :=
    lt_of_lt_of_le one_pos (dofClFl_lists as bs hna hnb hnat).2.2
  have he := ciMean_fl (constCrit c) (ofLists fl as bs) conf (by rw [ofLists_a_count]; exact hna)
    (by rw [ofLists_b_count]; exact hnb) hd hp
  have hrel : |seFl (ofLists fl as bs) - Real.sqrt (welchA as + welchA bs)| ≤
      55 * u * (sqTerm as + sqTerm bs) / Real.sqrt (welchA as + welchA bs) := by
    rw [le_div_iff₀ hse]
    exact (se_bound hfl hu as bs hna hnb hs hnat).2
  obtain ⟨b1, b2⟩ := unpaired_bounds_bound hfl hu as bs hna hnb hs hnat c hc hrel
  exact ⟨_, _, he, b1, b2⟩

/-! ### C. The effective degrees of freedom -/

/-- **What is requested, at every `fl` and for every oracle.** For any state with both counts
    `≥ 2`, `ci_mean` passes its guards with a mean difference `d`, a standard error `se` and
    degrees of freedom `dof`. The value handed on is the computed Welch value `dofFl U` (the
    model's `effectiveDof` on the computed `sa²/na`, `sb²/nb`) bounded below by the computed
    `fl (min (fl na) (fl nb) − 1)` (the crate's lower bound): `dofFl U ≤ dof`, with equality
    whenever the computed value reaches the bound. The request is Student's t at `dof` and the
    documented probability when `dof` is below the (rounded) population limit `fl 100000`, the
    normal quantile otherwise; for `dof > 0` the bounds are `fl (d ∓ fl (c·se))` with `c` the
    oracle's answer (an inadmissible probability panics inside `inverse_cdf`); for `dof ≤ 0` below
    the limit, `StudentsT::new(0, 1, dof).unwrap()` panics (this needs `fl (min (fl na) (fl nb) − 1)
    ≤ 0`, impossible for `u < 1/2`: `dof_fl_pos_always`). No hypothesis on `fl` is used. -/
theorem unpaired_request_fl (crit : Crit (RR fl)) (U : Unpaired (RR fl))
    (conf : Confidence (RR fl)) (ha : 2 ≤ U.a.count) (hb : 2 ≤ U.b.count) :
    ∃ d se dof : ℝ,
      (Unpaired.ciPrep U : Outcome (Err (RR fl)) (Arith.Prep (RR fl))) =
        .ok ⟨⟨d⟩, ⟨se⟩, ⟨dof⟩⟩ ∧
      dof = max (dofFl U) (fl (min (fl U.a.count) (fl U.b.count) - 1)) ∧
      dofFl U ≤ dof ∧
      (fl (min (fl U.a.count) (fl U.b.count) - 1) ≤ dofFl U → dof = dofFl U) ∧
      critReq conf (⟨dof⟩ : RR fl) =
        (if dof < fl 100000 then .t ⟨dof⟩ conf.quantile else .z conf.quantile) ∧
      (0 < dof → probOk conf.quantile = true →
        U.ciMean crit conf = intervalOfKind conf
          (⟨fl (d - fl ((crit (critReq conf (⟨dof⟩ : RR fl))).val * se))⟩ : RR fl)
          ⟨fl (d + fl ((crit (critReq conf (⟨dof⟩ : RR fl))).val * se))⟩) ∧
      (0 < dof → probOk conf.quantile = false → U.ciMean crit conf = .panic "inverse_cdf") ∧
      (dof ≤ 0 → dof < fl 100000 → U.ciMean crit conf = .panic "t_value") :=
  ⟨diffFl U, seFl U, dofClFl U, ciPrep_fl U ha hb, dofClFl_eq U, dofFl_le_dofClFl U,
    dofClFl_of_le U, critReq_fl conf _,
    fun hd hp => ciMean_fl crit U conf ha hb hd hp,
    fun hd hp => ciMean_fl_ppanic crit U conf ha hb hd hp,
    fun hd hl => ciMean_fl_tpanic crit U conf ha hb hd hl⟩

/-- **The degrees of freedom handed on are positive at every `fl` with `u < 1/2`**, for every
    state with counts `≥ 2` (constant samples included): the computed lower bound
    `fl (min (fl na) (fl nb) − 1)` is positive (`fl n > n/2 ≥ 1`), and `dof` is not below it;
    `t_value` does not panic. -/
theorem dof_fl_pos_always (hfl : ∀ x, |fl x - x| ≤ u * |x|) (hu : u < 1 / 2)
    (U : Unpaired (RR fl)) (hna : 2 ≤ U.a.count) (hnb : 2 ≤ U.b.count) :
    ∃ d se dof : ℝ,
      (Unpaired.ciPrep U : Outcome (Err (RR fl)) (Arith.Prep (RR fl))) =
        .ok ⟨⟨d⟩, ⟨se⟩, ⟨dof⟩⟩ ∧
      0 < fl (min (fl U.a.count) (fl U.b.count) - 1) ∧
      fl (min (fl U.a.count) (fl U.b.count) - 1) ≤ dof ∧ 0 < dof :=
  ⟨_, _, _, ciPrep_fl U hna hnb, clampFl_pos hfl hu U hna hnb, clampFl_le_dofClFl U,
    dofClFl_pos hfl hu U hna hnb⟩

/-- **At least `min(na, nb) − 1 ≥ 1`** when `fl` is exact on the two counts and on
    `min(na, nb) − 1` (natural numbers; no hypothesis on the error of `fl`): the value handed on
    is `max (dofFl U) (min(na, nb) − 1)`, for every state with counts `≥ 2`, whatever the computed
    Welch value (C04 `unpaired_dof_clamped` is the case `fl = id`). -/
theorem dof_fl_clamped (U : Unpaired (RR fl)) (hna : 2 ≤ U.a.count) (hnb : 2 ≤ U.b.count)
    (ha : fl U.a.count = U.a.count) (hb : fl U.b.count = U.b.count)
    (hm : fl (min (U.a.count : ℝ) U.b.count - 1) = min (U.a.count : ℝ) U.b.count - 1) :
    ∃ d se dof : ℝ,
      (Unpaired.ciPrep U : Outcome (Err (RR fl)) (Arith.Prep (RR fl))) =
        .ok ⟨⟨d⟩, ⟨se⟩, ⟨dof⟩⟩ ∧
      dof = max (dofFl U) (min (U.a.count : ℝ) U.b.count - 1) ∧
      min (U.a.count : ℝ) U.b.count - 1 ≤ dof ∧ 1 ≤ dof :=
  ⟨_, _, _, ciPrep_fl U hna hnb, dofClFl_exact U ha hb hm,
    (dofClFl_ge_of_exact U hna hnb ha hb hm).1, (dofClFl_ge_of_exact U hna hnb ha hb hm).2⟩

/-- **The lower bound is 1-Lipschitz.** For every state with counts `≥ 2`, every `fl` and every
    reference pair `A`, `B`: the value handed on differs from the exact bounded value
    `clampedDof A B na nb = max (welchDof A B na nb) (min(na, nb) − 1)` by at most the larger of
    the error of the computed Welch value and the error of the computed lower bound. -/
theorem dof_clamp_lipschitz (U : Unpaired (RR fl)) (hna : 2 ≤ U.a.count) (hnb : 2 ≤ U.b.count)
    (A B : ℝ) :
    ∃ d se dof : ℝ,
      (Unpaired.ciPrep U : Outcome (Err (RR fl)) (Arith.Prep (RR fl))) =
        .ok ⟨⟨d⟩, ⟨se⟩, ⟨dof⟩⟩ ∧
      |dof - clampedDof A B U.a.count U.b.count| ≤
        max |dofFl U - welchDof A B U.a.count U.b.count|
          |fl (min (fl U.a.count) (fl U.b.count) - 1) - (min (U.a.count : ℝ) U.b.count - 1)| :=
  ⟨_, _, _, ciPrep_fl U hna hnb, dofClFl_sub_clampedDof_le U A B⟩

/-- **The computed Welch value is positive** for every state (built by any sequence of
    appends and merges) with counts `≥ 2` that are exactly representable together with their
    successors, unless both computed standard deviations are zero; the value handed on is not
    below it. (Seven rounded operations keep the quotient above `3·e^{−14u}`; the two subtractions
    leave more than `1 − 57u`.) -/
theorem dof_fl_pos (hfl : ∀ x, |fl x - x| ≤ u * |x|) (hu : 0 ≤ u) (hu' : u ≤ 1 / 2048)
    (U : Unpaired (RR fl)) (hna : 2 ≤ U.a.count) (hnb : 2 ≤ U.b.count)
    (ha : fl U.a.count = U.a.count) (hb : fl U.b.count = U.b.count)
    (ha1 : fl ((U.a.count : ℝ) + 1) = (U.a.count : ℝ) + 1)
    (hb1 : fl ((U.b.count : ℝ) + 1) = (U.b.count : ℝ) + 1)
    (hsd : 0 < U.a.stdDev.val ∨ 0 < U.b.stdDev.val) :
    ∃ d se dof : ℝ,
      (Unpaired.ciPrep U : Outcome (Err (RR fl)) (Arith.Prep (RR fl))) =
        .ok ⟨⟨d⟩, ⟨se⟩, ⟨dof⟩⟩ ∧ 0 < dofFl U ∧ dofFl U ≤ dof ∧ 0 < dof := by
  have hu1 : u < 1 := by linarith
  have hA := s2nFl_nonneg hfl hu1.le U.a ha
  have hB := s2nFl_nonneg hfl hu1.le U.b hb
  have hpos : 0 < s2nFl U.a + s2nFl U.b := by
    rcases hsd with h | h
    · have := s2nFl_pos hfl hu1 U.a ha (by omega) h
      linarith
    · have := s2nFl_pos hfl hu1 U.b hb (by omega) h
      linarith
  have hd := dofFl_pos hfl hu hu' U hna hnb ha hb ha1 hb1 hpos
  exact ⟨_, _, _, ciPrep_fl U hna hnb, hd, dofFl_le_dofClFl U, dofClFl_pos_of_dofFl_pos U hd⟩

/-- **Both computed standard deviations zero, at every `fl`** with `u < 1`. The computed Welch
    value is `fl (fl (0/0 − 1) − 1) < 0` with the real `0/0 = 0`, so the value handed on is the
    computed lower bound `m = fl (min (fl na) (fl nb) − 1)` as soon as `m ≥ 0`; the computed
    standard error is `0`. For `m > 0` (every `fl` with `u < 1/2`: `unpaired_both_zero_no_panic`)
    `t_value` does not panic: with an admissible probability the result is the degenerate
    interval whose bounds are both `fl (d̂ ∓ fl (c·0)) = fl (fl (m̂a − m̂b))`, whatever the oracle
    answers; an inadmissible probability panics inside `inverse_cdf`. Only for `m ≤ 0` (below
    the population limit) does `t_value` still panic. (C04 `unpaired_both_constant` is the case
    `fl = id`, where `m = min(na, nb) − 1 ≥ 1`; in IEEE arithmetic `0/0` is NaN, passes through
    the bound, and the code takes the `z` branch — outside the `RR` interpretation, which does
    not model NaN.) -/
theorem unpaired_both_zero_fl (hfl : ∀ x, |fl x - x| ≤ u * |x|) (hu1 : u < 1)
    (crit : Crit (RR fl)) (U : Unpaired (RR fl)) (conf : Confidence (RR fl))
    (hna : 2 ≤ U.a.count) (hnb : 2 ≤ U.b.count)
    (ha : U.a.stdDev.val = 0) (hb : U.b.stdDev.val = 0) :
    dofFl U = fl (fl (-1) - 1) ∧ dofFl U < 0 ∧
    (Unpaired.ciPrep U : Outcome (Err (RR fl)) (Arith.Prep (RR fl))) =
      .ok ⟨⟨fl (U.a.mean.val - U.b.mean.val)⟩, ⟨0⟩,
        ⟨max (dofFl U) (fl (min (fl U.a.count) (fl U.b.count) - 1))⟩⟩ ∧
    (0 ≤ fl (min (fl U.a.count) (fl U.b.count) - 1) →
      max (dofFl U) (fl (min (fl U.a.count) (fl U.b.count) - 1)) =
        fl (min (fl U.a.count) (fl U.b.count) - 1)) ∧
    (0 < fl (min (fl U.a.count) (fl U.b.count) - 1) → probOk conf.quantile = true →
      U.ciMean crit conf = intervalOfKind conf
        (⟨fl (fl (U.a.mean.val - U.b.mean.val))⟩ : RR fl)
        ⟨fl (fl (U.a.mean.val - U.b.mean.val))⟩) ∧
    (0 < fl (min (fl U.a.count) (fl U.b.count) - 1) → probOk conf.quantile = false →
      U.ciMean crit conf = .panic "inverse_cdf") ∧
    (fl (min (fl U.a.count) (fl U.b.count) - 1) ≤ 0 → 0 < fl 100000 →
      U.ciMean crit conf = .panic "t_value") := by
  obtain ⟨he, hneg⟩ := dofFl_both_zero hfl hu1 U ha hb
  have hse := (seFl_both_zero hfl U ha hb).2
  refine ⟨he, hneg, ?_, ?_, ?_, ?_, ?_⟩
  · rw [ciPrep_fl U hna hnb, hse, dofClFl_eq]
    rfl
  · intro hm
    exact max_eq_right (le_trans hneg.le hm)
  · intro hm hp
    have hd : 0 < dofClFl U := lt_of_lt_of_le hm (clampFl_le_dofClFl U)
    rw [ciMean_fl crit U conf hna hnb hd hp, hse, mul_zero, fl_zero hfl, sub_zero, add_zero]
    rfl
  · intro hm hp
    exact ciMean_fl_ppanic crit U conf hna hnb (lt_of_lt_of_le hm (clampFl_le_dofClFl U)) hp
  · intro hm hlim
    have hd : dofClFl U ≤ 0 := by
      rw [dofClFl_eq]; exact max_le hneg.le hm
    exact ciMean_fl_tpanic crit U conf hna hnb hd (lt_of_le_of_lt hd hlim)

/-- **Two constant samples do not panic** at any `fl` with `u < 1/2`: both computed standard
    deviations zero, counts `≥ 2`, an admissible probability — `ci_mean` returns the degenerate
    interval at `fl (fl (m̂a − m̂b))` (the mean difference rounded by the subtraction and once
    more by `d̂ ∓ 0`), for every oracle. -/
theorem unpaired_both_zero_no_panic (hfl : ∀ x, |fl x - x| ≤ u * |x|) (hu : u < 1 / 2)
    (crit : Crit (RR fl)) (U : Unpaired (RR fl)) (conf : Confidence (RR fl))
    (hna : 2 ≤ U.a.count) (hnb : 2 ≤ U.b.count)
    (ha : U.a.stdDev.val = 0) (hb : U.b.stdDev.val = 0) (hp : probOk conf.quantile = true) :
    U.ciMean crit conf = intervalOfKind conf
      (⟨fl (fl (U.a.mean.val - U.b.mean.val))⟩ : RR fl)
      ⟨fl (fl (U.a.mean.val - U.b.mean.val))⟩ :=
  (unpaired_both_zero_fl hfl (by linarith) crit U conf hna hnb ha hb).2.2.2.2.1
    (clampFl_pos hfl hu U hna hnb) hp

/-- **Two real samples: at least `min(na, nb) − 1 ≥ 1`**, whatever the samples (constant or
    not) and whatever the error of `fl` off the natural numbers `≤ na + nb`: the value handed on
    is `max (dofFl) (min(na, nb) − 1)`. -/
theorem dof_fl_clamped_samples (as bs : List ℝ) (hna : 2 ≤ as.length) (hnb : 2 ≤ bs.length)
    (hnat : ∀ m : ℕ, m ≤ as.length + bs.length → fl m = m) :
    ∃ d se dof : ℝ,
      (Unpaired.ciPrep (Unpaired.fromLists (as.map inj) (bs.map inj) : Unpaired (RR fl)) :
        Outcome (Err (RR fl)) (Arith.Prep (RR fl))) = .ok ⟨⟨d⟩, ⟨se⟩, ⟨dof⟩⟩ ∧
      dof = max (dofFl (ofLists fl as bs)) (min (as.length : ℝ) bs.length - 1) ∧
      min (as.length : ℝ) bs.length - 1 ≤ dof ∧ 1 ≤ dof :=
  ⟨_, _, _, ciPrep_fl (ofLists fl as bs) (by rw [ofLists_a_count]; exact hna)
    (by rw [ofLists_b_count]; exact hnb), (dofClFl_lists as bs hna hnb hnat).1,
    (dofClFl_lists as bs hna hnb hnat).2.1, (dofClFl_lists as bs hna hnb hnat).2.2⟩

/-- **The computed Welch value is positive for two real samples** whose exact
    `sa²/na + sb²/nb` exceeds the error bound `53u·W` of its computed value (the value handed on
    is not below it, and `≥ 1` in any case: `dof_fl_clamped_samples`). -/
theorem dof_fl_pos_samples (hfl : ∀ x, |fl x - x| ≤ u * |x|) (hu : 0 ≤ u) (as bs : List ℝ)
    (hna : 2 ≤ as.length) (hnb : 2 ≤ bs.length)
    (hs : ((as.length : ℝ) + bs.length) * u ≤ 1 / 1024)
    (hnat : ∀ m : ℕ, m ≤ as.length + bs.length → fl m = m)
    (hpos : 53 * u * (sqTerm as + sqTerm bs) < welchA as + welchA bs) :
    ∃ d se dof : ℝ,
      (Unpaired.ciPrep (Unpaired.fromLists (as.map inj) (bs.map inj) : Unpaired (RR fl)) :
        Outcome (Err (RR fl)) (Arith.Prep (RR fl))) = .ok ⟨⟨d⟩, ⟨se⟩, ⟨dof⟩⟩ ∧
      0 < dofFl (ofLists fl as bs) ∧ dofFl (ofLists fl as bs) ≤ dof ∧ 0 < dof := by
  have hd := dofFl_pos_lists hfl hu as bs hna hnb hs hnat hpos
  exact ⟨_, _, _, ciPrep_fl (ofLists fl as bs) (by rw [ofLists_a_count]; exact hna)
    (by rw [ofLists_b_count]; exact hnb), hd, dofFl_le_dofClFl _, dofClFl_pos_of_dofFl_pos _ hd⟩

/-- **Error of the value handed on against the exact bounded value, two real samples.** With
    `fl` exact on the natural numbers `≤ na + nb` the computed lower bound is the exact
    `min(na, nb) − 1`, and since `max` is 1-Lipschitz the value handed on is at least as close to
    `clampedDof = max ν (min(na, nb) − 1)` (what the model hands on at exact arithmetic, C04) as
    the computed Welch value `dofFl` is to `ν`; when not both samples are constant,
    `clampedDof = ν`. No hypothesis on the error of `fl` elsewhere. -/
theorem dof_error_clamped (as bs : List ℝ) (hna : 2 ≤ as.length) (hnb : 2 ≤ bs.length)
    (hnat : ∀ m : ℕ, m ≤ as.length + bs.length → fl m = m) :
    ∃ d se dof : ℝ,
      (Unpaired.ciPrep (Unpaired.fromLists (as.map inj) (bs.map inj) : Unpaired (RR fl)) :
        Outcome (Err (RR fl)) (Arith.Prep (RR fl))) = .ok ⟨⟨d⟩, ⟨se⟩, ⟨dof⟩⟩ ∧
      |dof - clampedDof (welchA as) (welchA bs) as.length bs.length| ≤
        |dofFl (ofLists fl as bs) - welchNu as bs| ∧
      (0 < welchA as + welchA bs →
        clampedDof (welchA as) (welchA bs) as.length bs.length = welchNu as bs ∧
        |dof - welchNu as bs| ≤ |dofFl (ofLists fl as bs) - welchNu as bs|) :=
  ⟨_, _, _, ciPrep_fl (ofLists fl as bs) (by rw [ofLists_a_count]; exact hna)
    (by rw [ofLists_b_count]; exact hnb), dofClFl_error_lists as bs hna hnb hnat,
    fun hAB => ⟨clampedDof_eq _ _ _ _ (by exact_mod_cast hna) (by exact_mod_cast hnb)
      (welchA_nonneg as (by omega)) (welchA_nonneg bs (by omega)) hAB,
      dofClFl_error_lists_nu as bs hna hnb hnat hAB⟩⟩

/-- **Error of the computed degrees of freedom.** Both sample variances positive, `κ` a bound
    on the conditioning `Σx²/((n − 1)·s²)` of both samples with `51·u·κ ≤ 1/64`: the computed
    Welch value `dofFl` satisfies `|dofFl − ν| ≤ (255·κ + 19)·u·(ν + 2)` and `dofFl > 0`; the
    degrees of freedom `dof = max dofFl (min(na, nb) − 1)` handed to `interval_bounds` at `RR fl`
    satisfy the same bound `|dof − ν| ≤ (255·κ + 19)·u·(ν + 2)` (the exact `ν ≥ min(na, nb) − 1`
    and `max` is 1-Lipschitz) and `dof ≥ 1`.
    (Each computed `s²/n` has relative error `ε = 51uκ`; the quotient `(A+B)²/(A²/(na+1) +
    B²/(nb+1))` is homogeneous of degree `0` with non-negative terms, so relative errors pass
    through with factor `4`, plus seven rounded operations and the two subtractions:
    `(5ε + 19u)·(ν + 2)`.)  Not covered: one of the two exact variances zero — then the computed
    term has no relative accuracy; `dof_error_abs` below covers that case. -/
theorem dof_error (hfl : ∀ x, |fl x - x| ≤ u * |x|) (hu : 0 ≤ u) (as bs : List ℝ)
    (hna : 2 ≤ as.length) (hnb : 2 ≤ bs.length)
    (hs : ((as.length : ℝ) + bs.length) * u ≤ 1 / 1024)
    (hnat : ∀ m : ℕ, m ≤ as.length + bs.length → fl m = m)
    (hva : 0 < svar as) (hvb : 0 < svar bs) (κ : ℝ)
    (hκa : (as.map (fun x => x * x)).sum / ((as.length : ℝ) - 1) ≤ κ * svar as)
    (hκb : (bs.map (fun x => x * x)).sum / ((bs.length : ℝ) - 1) ≤ κ * svar bs)
    (hκ : 51 * u * κ ≤ 1 / 64) :
    ∃ d se dof : ℝ,
      (Unpaired.ciPrep (Unpaired.fromLists (as.map inj) (bs.map inj) : Unpaired (RR fl)) :
        Outcome (Err (RR fl)) (Arith.Prep (RR fl))) = .ok ⟨⟨d⟩, ⟨se⟩, ⟨dof⟩⟩ ∧
      dof = max (dofFl (ofLists fl as bs)) (min (as.length : ℝ) bs.length - 1) ∧
      |dofFl (ofLists fl as bs) - welchNu as bs| ≤ (255 * κ + 19) * u * (welchNu as bs + 2) ∧
      0 < dofFl (ofLists fl as bs) ∧
      |dof - welchNu as bs| ≤ (255 * κ + 19) * u * (welchNu as bs + 2) ∧
      1 ≤ dof := by
  obtain ⟨hsa, hsb, hnata, hnatb⟩ := split_hyps hu as bs hs hnat
  have hNa : (2 : ℝ) ≤ as.length := by exact_mod_cast hna
  have hκ0 : 0 ≤ κ := by
    have h1 : 0 ≤ (as.map (fun x => x * x)).sum / ((as.length : ℝ) - 1) :=
      div_nonneg (sumSq_nonneg as) (by linarith)
    by_contra hneg
    have : κ * svar as < 0 := mul_neg_of_neg_of_pos (not_le.mp hneg) hva
    linarith
  have hε0 : 0 ≤ 51 * u * κ := by positivity
  have hεa := s2n_rel hfl hu as hna hsa hnata (κ := κ) hκa
  have hεb := s2n_rel hfl hu bs hnb hsb hnatb (κ := κ) hκb
  have hA := welchA_pos as (by omega) hva
  have hB := welchA_pos bs (by omega) hvb
  obtain ⟨h1, h2⟩ := dof_error_rel hfl hu as bs hna hnb hs hnat hε0 hκ hA hB hεa hεb
  have e : (255 * κ + 19) * u = 5 * (51 * u * κ) + 19 * u := by ring
  rw [← e] at h1
  obtain ⟨c1, _, c3⟩ := dofClFl_lists (fl := fl) as bs hna hnb hnat
  exact ⟨_, _, _, ciPrep_fl (ofLists fl as bs) (by rw [ofLists_a_count]; exact hna)
    (by rw [ofLists_b_count]; exact hnb), c1, h1, h2,
    le_trans (dofClFl_error_lists_nu as bs hna hnb hnat (add_pos hA hB)) h1, c3⟩

/-- **Error of the computed degrees of freedom, absolute form** (one of the two exact variances
    may be zero). With `η ≥ 51u·W/(sa²/na + sb²/nb)` — the error bound of the two computed variance
    terms relative to their exact sum —, `r = (na + nb + 2)/(min(na, nb) + 1)` and
    `ρ = r·(2η + η²) ≤ 1/64`:  `|dofFl − ν| ≤ ((5/4)·(2η + ρ) + 19u)·(ν + 2)` and `dofFl > 0` for
    the computed Welch value, and the same bound and `dof ≥ 1` for the value
    `dof = max dofFl (min(na, nb) − 1)` handed on.
    (The numerator `(A+B)²` moves by the factor `(1 ± η)²`; the denominator `A²/(na+1) + B²/(nb+1)`
    is at least `(A+B)²/(na+nb+2)`, so its relative error is at most `ρ`: unbalanced sizes
    amplify, and this is real — a perturbation `η·B` of a vanishing `A` changes the denominator
    by the factor `1 + η²(nb+1)/(na+1)`.) -/
theorem dof_error_abs (hfl : ∀ x, |fl x - x| ≤ u * |x|) (hu : 0 ≤ u) (as bs : List ℝ)
    (hna : 2 ≤ as.length) (hnb : 2 ≤ bs.length)
    (hs : ((as.length : ℝ) + bs.length) * u ≤ 1 / 1024)
    (hnat : ∀ m : ℕ, m ≤ as.length + bs.length → fl m = m) (η : ℝ) (hη0 : 0 ≤ η)
    (hAB : 0 < welchA as + welchA bs)
    (hη : 51 * u * (sqTerm as + sqTerm bs) ≤ η * (welchA as + welchA bs))
    (hρ : ((as.length : ℝ) + bs.length + 2) / (min (as.length : ℝ) bs.length + 1)
      * (2 * η + η ^ 2) ≤ 1 / 64) :
    ∃ d se dof : ℝ,
      (Unpaired.ciPrep (Unpaired.fromLists (as.map inj) (bs.map inj) : Unpaired (RR fl)) :
        Outcome (Err (RR fl)) (Arith.Prep (RR fl))) = .ok ⟨⟨d⟩, ⟨se⟩, ⟨dof⟩⟩ ∧
      dof = max (dofFl (ofLists fl as bs)) (min (as.length : ℝ) bs.length - 1) ∧
      |dofFl (ofLists fl as bs) - welchNu as bs| ≤
        (5 / 4 * (2 * η + ((as.length : ℝ) + bs.length + 2) / (min (as.length : ℝ) bs.length + 1)
          * (2 * η + η ^ 2)) + 19 * u) * (welchNu as bs + 2) ∧
      0 < dofFl (ofLists fl as bs) ∧
      |dof - welchNu as bs| ≤
        (5 / 4 * (2 * η + ((as.length : ℝ) + bs.length + 2) / (min (as.length : ℝ) bs.length + 1)
          * (2 * η + η ^ 2)) + 19 * u) * (welchNu as bs + 2) ∧
      1 ≤ dof := by
  obtain ⟨h1, h2⟩ := UnpairedRound.dof_error_abs hfl hu as bs hna hnb hs hnat hη0 hAB hη hρ
  obtain ⟨c1, _, c3⟩ := dofClFl_lists (fl := fl) as bs hna hnb hnat
  exact ⟨_, _, _, ciPrep_fl (ofLists fl as bs) (by rw [ofLists_a_count]; exact hna)
    (by rw [ofLists_b_count]; exact hnb), c1, h1, h2,
    le_trans (dofClFl_error_lists_nu as bs hna hnb hnat hAB) h1, c3⟩

/-- **Exact degrees of freedom, upper bound**: `ν ≤ na + nb` for all samples (Cauchy–Schwarz;
    `ν + 2 ≤ (na + 1) + (nb + 1)`), so the factor `ν + 2` in `dof_error` is at most `na + nb + 2`.
    The lower bound `ν ≥ min(na, nb) − 1 ≥ 1` for samples not both constant is C04
    `dof_pos_samples`. -/
theorem dof_exact_le (as bs : List ℝ) : welchNu as bs ≤ (as.length : ℝ) + bs.length :=
  welchDof_le _ _ _ _ (Nat.cast_nonneg _) (Nat.cast_nonneg _)

/-! ### non-vacuity -/

/-- paired: two samples of equal length `≥ 2`, exact arithmetic -/
example : (∀ x : ℝ, |id x - x| ≤ 0 * |x|) ∧ (0 : ℝ) ≤ 0 ∧
    [(1 : ℝ), 2, 4].length = [(3 : ℝ), 5, 2].length ∧ 2 ≤ [(1 : ℝ), 2, 4].length ∧
    (([(1 : ℝ), 2, 4].length : ℕ) : ℝ) * 0 ≤ 1 / 1024 ∧
    (∀ m : ℕ, m ≤ [(1 : ℝ), 2, 4].length → id (m : ℝ) = m) := by
  refine ⟨by intro x; simp, le_refl _, by simp, by simp, by norm_num, by intro m _; rfl⟩

/-- the differences of these samples are `-2, -3, 2`: not constant (hypothesis of the `κ`-form) -/
example : 0 < svar (flDiffs id [1, 2, 4] [3, 5, 2]) := by
  simp [flDiffs, diffs, svar, sdev2, smean]
  norm_num

/-- unpaired: sizes `3` and `4`, exact arithmetic; the variance terms are positive (so is their
    sum, hypothesis `hpos` with `u = 0`), and `κ = 5` bounds the conditioning of both samples -/
example : (∀ x : ℝ, |id x - x| ≤ 0 * |x|) ∧ 2 ≤ [(1 : ℝ), 2, 4].length ∧
    2 ≤ [(3 : ℝ), 5, 9, 2].length ∧
    ((([(1 : ℝ), 2, 4].length : ℕ) : ℝ) + (([(3 : ℝ), 5, 9, 2].length : ℕ) : ℝ)) * 0 ≤ 1 / 1024 ∧
    (∀ m : ℕ, m ≤ [(1 : ℝ), 2, 4].length + [(3 : ℝ), 5, 9, 2].length → id (m : ℝ) = m) ∧
    53 * 0 * (sqTerm [1, 2, 4] + sqTerm [3, 5, 9, 2]) < welchA [1, 2, 4] + welchA [3, 5, 9, 2] ∧
    0 < svar [1, 2, 4] ∧ 0 < svar [3, 5, 9, 2] ∧
    (([(1 : ℝ), 2, 4]).map (fun x => x * x)).sum / ((([(1 : ℝ), 2, 4].length : ℕ) : ℝ) - 1) ≤
      5 * svar [1, 2, 4] ∧
    (([(3 : ℝ), 5, 9, 2]).map (fun x => x * x)).sum /
      ((([(3 : ℝ), 5, 9, 2].length : ℕ) : ℝ) - 1) ≤ 5 * svar [3, 5, 9, 2] ∧
    51 * (0 : ℝ) * 5 ≤ 1 / 64 := by
  have h1 : svar [1, 2, 4] = 7 / 3 := by
    simp [svar, sdev2, smean]; norm_num
  have h2 : svar [3, 5, 9, 2] = 115 / 12 := by
    simp [svar, sdev2, smean]; norm_num
  refine ⟨by intro x; simp, by simp, by simp, by norm_num, by intro m _; rfl, ?_, ?_, ?_, ?_, ?_,
    by norm_num⟩
  · simp only [welchA, h1, h2]
    norm_num
  · rw [h1]; norm_num
  · rw [h2]; norm_num
  · rw [h1]; simp; norm_num
  · rw [h2]; simp; norm_num

/-- the hypotheses on `(fl, u)` of part B/C are met by a rounding function that is not the
    identity: `fl x = x` on the natural numbers, `fl x = x·(1 + 2⁻²⁰)` elsewhere, `u = 2⁻²⁰`,
    sizes `3` and `4`, `κ = 5` -/
example : ∃ (fl : ℝ → ℝ) (u : ℝ) (as bs : List ℝ), (∀ x, |fl x - x| ≤ u * |x|) ∧ 0 ≤ u ∧
    2 ≤ as.length ∧ 2 ≤ bs.length ∧ ((as.length : ℝ) + bs.length) * u ≤ 1 / 1024 ∧
    (∀ m : ℕ, m ≤ as.length + bs.length → fl m = m) ∧ 51 * u * 5 ≤ 1 / 64 ∧
    fl (1 / 2) ≠ 1 / 2 := by
  classical
  refine ⟨fun x => if ∃ m : ℕ, (m : ℝ) = x then x else x * (1 + 1 / 1048576), 1 / 1048576,
    [1 / 2, 2, 4], [3, 5, 9, 2], ?_, by norm_num, by simp, by simp, by norm_num, ?_,
    by norm_num, ?_⟩
  · intro x
    show |(if ∃ m : ℕ, (m : ℝ) = x then x else x * (1 + 1 / 1048576)) - x| ≤ 1 / 1048576 * |x|
    split_ifs with h
    · simp only [sub_self, abs_zero]
      positivity
    · have : x * (1 + 1 / 1048576) - x = 1 / 1048576 * x := by ring
      rw [this, abs_mul]
      norm_num
  · intro m _
    show (if ∃ k : ℕ, (k : ℝ) = (m : ℝ) then (m : ℝ) else (m : ℝ) * (1 + 1 / 1048576)) = m
    rw [if_pos ⟨m, rfl⟩]
  · show (if ∃ m : ℕ, (m : ℝ) = 1 / 2 then (1 / 2 : ℝ) else 1 / 2 * (1 + 1 / 1048576)) ≠ 1 / 2
    have hno : ¬ ∃ m : ℕ, (m : ℝ) = 1 / 2 := by
      rintro ⟨m, hm⟩
      rcases Nat.eq_zero_or_pos m with h | h
      · rw [h] at hm; norm_num at hm
      · have : (1 : ℝ) ≤ m := by exact_mod_cast h
        linarith
    rw [if_neg hno]
    norm_num

/-- `dof_error_abs`: one constant sample is allowed; exact arithmetic, `η = 0` -/
example : 0 < welchA [1, 2, 4] + welchA [3, 3] ∧ svar [3, 3] = 0 ∧
    51 * 0 * (sqTerm [1, 2, 4] + sqTerm [3, 3]) ≤ 0 * (welchA [1, 2, 4] + welchA [3, 3]) ∧
    ((([(1 : ℝ), 2, 4].length : ℕ) : ℝ) + (([(3 : ℝ), 3].length : ℕ) : ℝ) + 2) /
      (min ((([(1 : ℝ), 2, 4].length : ℕ) : ℝ)) ((([(3 : ℝ), 3].length : ℕ) : ℝ)) + 1)
        * (2 * 0 + (0 : ℝ) ^ 2) ≤ 1 / 64 := by
  have h1 : svar [1, 2, 4] = 7 / 3 := by
    simp [svar, sdev2, smean]; norm_num
  have h2 : svar [3, 3] = 0 := by
    simp [svar, sdev2, smean]
  refine ⟨?_, h2, by norm_num, by norm_num⟩
  simp only [welchA, h1, h2]
  norm_num

/-- the probability hypothesis holds for a one-sided confidence at every `fl` -/
example (fl : ℝ → ℝ) : probOk (Confidence.upper (⟨0.95⟩ : RR fl)).quantile = true := by
  simp [probOk, Confidence.quantile]
  constructor <;> norm_num

/-- `dof_fl_pos`: a state at exact arithmetic with counts `3`, `2`, the first computed standard
    deviation positive; `unpaired_both_zero_fl`: two constant samples of sizes `2`, `2` — the
    computed lower bound `fl (min (fl 2) (fl 2) − 1) = 1` is positive (the non-panic branch) -/
example : 0 < (Arith.fromList (([1, 2, 4] : List ℝ).map inj) : Arith Rex).stdDev.val ∧
    (Arith.fromList (([3, 3] : List ℝ).map inj) : Arith Rex).stdDev.val = 0 ∧
    (Arith.fromList (([5, 5] : List ℝ).map inj) : Arith Rex).stdDev.val = 0 ∧
    (0 : ℝ) < id (min (id (((Arith.fromList (([3, 3] : List ℝ).map inj) : Arith Rex).count : ℕ) : ℝ))
      (id (((Arith.fromList (([5, 5] : List ℝ).map inj) : Arith Rex).count : ℕ) : ℝ)) - 1) ∧
    (0 : ℝ) < id 100000 := by
  have h1 : 0 < svar [1, 2, 4] := by
    simp [svar, sdev2, smean]; norm_num
  have h2 : svar [3, 3] = 0 := by
    simp [svar, sdev2, smean]
  have h3 : svar [5, 5] = 0 := by
    simp [svar, sdev2, smean]
  refine ⟨?_, ?_, ?_, ?_, by norm_num⟩
  · rw [Arith.fromList_stdDev _ (by simp)]
    exact Real.sqrt_pos.mpr h1
  · rw [Arith.fromList_stdDev _ (by simp), ssd, h2, Real.sqrt_zero]
  · rw [Arith.fromList_stdDev _ (by simp), ssd, h3, Real.sqrt_zero]
  · simp [Arith.fromList_count]

/-- `dof_fl_clamped`: exactness on the counts and on `min(na, nb) − 1` holds at `fl = id`;
    `dof_fl_pos_always`, `unpaired_both_zero_no_panic`: `u = 2⁻²⁰ < 1/2` (the rounding function
    of the example above) -/
example : id ((3 : ℕ) : ℝ) = ((3 : ℕ) : ℝ) ∧
    id (min ((3 : ℕ) : ℝ) ((2 : ℕ) : ℝ) - 1) = min ((3 : ℕ) : ℝ) ((2 : ℕ) : ℝ) - 1 ∧
    (1 / 1048576 : ℝ) < 1 / 2 := ⟨rfl, rfl, by norm_num⟩

/-- the clamp is active in the both-constant case and inactive otherwise, at exact arithmetic:
    `clampedDof 0 0 2 2 = 1` while `welchDof 0 0 2 2 = −2` -/
example : clampedDof 0 0 2 2 = 1 ∧ welchDof 0 0 2 2 = -2 := by
  refine ⟨?_, welchDof_zero 2 2⟩
  rw [clampedDof_zero 2 2 (le_refl _) (le_refl _)]
  norm_num

end StatsCI.C04R
