/-
  C03 — The quantile confidence interval is made of order statistics of the sample, at the
  Wilson ranks of the proportion `round(q·n)/n`.

  All theorems are about the model functions of `StatsCI.Model.Quantile` themselves
  (`ciIndices`, `index`, `ciSortedUnchecked`, `sortData`, `ci`, `ciMaxSize`), run on exact real
  arithmetic `Rex`, for an arbitrary critical-value oracle `crit`. The running-`Stats` entry point
  `Stats::ci(confidence, quantile)` *is* `ciIndices` in the model (see the model's doc comment), so
  it needs no separate statement.

  Vocabulary (`StatsCI.QSpec`, in `Lemmas/Quantile.lean`):
  * `successes q n = (round (q·n)).toNat` — the success count `k`;
  * `zOf crit conf = (crit (.z conf.quantile)).val` — the critical value `z`;
  * `centre n k z = (k + z²/2)/(n + z²)`, `span n k z = z/(n + z²)·√(k(n−k)/n + z²/4)`,
    `pLow = centre − span`, `pHigh = centre + span` — the Wilson numbers;
  * `rank n p = min ⌊p·n⌋₊ (n − 1)`;
  * `ValidLevel conf`: `0 < level < 1`;  `ValidQuantile q`: `0 < q < 1`;
  * `Quantile.sorted xs = xs.mergeSort (· ≤ ·)`.
-/
import StatsCI.Lemmas.Quantile

namespace StatsCI.C03
open StatsCI Quantile QSpec

section indices
variable (crit : Crit Rex) (conf : Confidence Rex) (n : ℕ) (q : Rex)

/-! ## 1. domain -/

/-- the success count never exceeds the population when `q < 1`
    (so the `InvalidSuccesses` arm of `ci_wilson` is unreachable from `ci_indices`) -/
theorem successes_le (hq : q.val < 1) : successes q.val n ≤ n := QSpec.successes_le q.val n hq

/-- **Domain.** The outcome of `ci_indices` is decided by a cascade of tests, each outcome being
    returned *iff* its test is the first to fire:
    `InvalidQuantile q` iff `q ∉ (0,1)`; else `TooFewSamples n` iff `n < 4`; else
    `TooFewSuccesses` iff `k < 2`; else `TooFewFailures` iff `n − k < 2`; else — the only
    remaining failure — `Interval(InvalidBounds)` iff the confidence is two-sided and the
    critical value is negative; else `Ok`. The six right-hand sides are exhaustive and mutually
    exclusive. -/
theorem domain (hl : ValidLevel conf) :
    (ciIndices crit conf n q = .err (.invalidQuantile q) ↔ ¬ ValidQuantile q) ∧
    (ciIndices crit conf n q = .err (.tooFewSamples n) ↔ ValidQuantile q ∧ n < 4) ∧
    (ciIndices crit conf n q =
        .err (.tooFewSuccesses (successes q.val n) n (inj (successes q.val n : ℝ))) ↔
      ValidQuantile q ∧ 4 ≤ n ∧ successes q.val n < 2) ∧
    (ciIndices crit conf n q =
        .err (.tooFewFailures (n - successes q.val n) n
          (inj ((n : ℝ) - (successes q.val n : ℝ)))) ↔
      ValidQuantile q ∧ 4 ≤ n ∧ 2 ≤ successes q.val n ∧ n - successes q.val n < 2) ∧
    (ciIndices crit conf n q = .err (.interval .invalidBounds) ↔
      ValidQuantile q ∧ 4 ≤ n ∧ 2 ≤ successes q.val n ∧ 2 ≤ n - successes q.val n ∧
        conf.isTwoSided = true ∧ zOf crit conf < 0) ∧
    ((ciIndices crit conf n q).isOk = true ↔
      ValidQuantile q ∧ 4 ≤ n ∧ 2 ≤ successes q.val n ∧ 2 ≤ n - successes q.val n ∧
        (conf.isTwoSided = true → 0 ≤ zOf crit conf)) := by
  by_cases hq : ValidQuantile q
  swap
  · rw [ciIndices_invalid crit conf n q hl hq]
    refine ⟨?_, ?_, ?_, ?_, ?_, ?_⟩ <;> simp [hq, Outcome.isOk]
  by_cases hn4 : n < 4
  · rw [ciIndices_small crit conf n q hl hq hn4]
    refine ⟨?_, ?_, ?_, ?_, ?_, ?_⟩ <;> simp [hq, hn4, Outcome.isOk] <;> omega
  have hn4' : 4 ≤ n := not_lt.mp hn4
  by_cases hk : successes q.val n < 2
  · rw [ciIndices_fewSuccesses crit conf n q hl hq hn4' hk]
    refine ⟨?_, ?_, ?_, ?_, ?_, ?_⟩ <;> simp [hq, hn4', hk, Outcome.isOk] <;> omega
  have hk' : 2 ≤ successes q.val n := not_lt.mp hk
  by_cases hf : n - successes q.val n < 2
  · rw [ciIndices_fewFailures crit conf n q hl hq hn4' hk' hf]
    refine ⟨?_, ?_, ?_, ?_, ?_, ?_⟩ <;> simp [hq, hn4', hk', hf, Outcome.isOk] <;> omega
  have hf' : 2 ≤ n - successes q.val n := not_lt.mp hf
  rw [ciIndices_main crit conf n q hl hq hn4' hk' hf']
  cases conf with
  | twoSided l =>
    simp only
    by_cases hz : (crit (.z (Confidence.twoSided l).quantile)).val < 0
    · rw [if_pos hz]
      refine ⟨?_, ?_, ?_, ?_, ?_, ?_⟩ <;>
        simp [hq, hn4', hk', hf', hz, Outcome.isOk, Confidence.isTwoSided] <;> omega
    · rw [if_neg hz]
      refine ⟨?_, ?_, ?_, ?_, ?_, ?_⟩ <;>
        simp [hq, hn4', hk', hf', hz, not_lt.mp hz, Outcome.isOk, Confidence.isTwoSided] <;> omega
  | upper l =>
    refine ⟨?_, ?_, ?_, ?_, ?_, ?_⟩ <;>
      simp [hq, hn4', hk', hf', Outcome.isOk, Confidence.isTwoSided] <;> omega
  | lower l =>
    refine ⟨?_, ?_, ?_, ?_, ?_, ?_⟩ <;>
      simp [hq, hn4', hk', hf', Outcome.isOk, Confidence.isTwoSided] <;> omega

/-- `ci_indices` never panics for a valid confidence level -/
theorem never_panic (hl : ValidLevel conf) (t : String) : ciIndices crit conf n q ≠ .panic t :=
  ciIndices_ne_panic crit conf n q hl t

/-- the errors `ci_indices` can return are the five of `domain` — in particular never
    `IndexError` (the exact Wilson bounds lie in `[0,1]`; the clamp of `ci_wilson` is inert) and
    never `InvalidSuccesses` (`k ≤ n`) -/
theorem error_cases (hl : ValidLevel conf) (e : Err Rex)
    (h : ciIndices crit conf n q = .err e) :
    e = .invalidQuantile q ∨ e = .tooFewSamples n ∨
    e = .tooFewSuccesses (successes q.val n) n (inj (successes q.val n : ℝ)) ∨
    e = .tooFewFailures (n - successes q.val n) n (inj ((n : ℝ) - (successes q.val n : ℝ))) ∨
    e = .interval .invalidBounds := by
  by_cases hq : 0 < q.val ∧ q.val < 1
  swap
  · rw [ciIndices_invalid crit conf n q hl hq] at h; cases h; simp
  by_cases hn4 : n < 4
  · rw [ciIndices_small crit conf n q hl hq hn4] at h; cases h; simp
  by_cases hk : successes q.val n < 2
  · rw [ciIndices_fewSuccesses crit conf n q hl hq (by omega) hk] at h; cases h; simp
  by_cases hf : n - successes q.val n < 2
  · rw [ciIndices_fewFailures crit conf n q hl hq (by omega) (by omega) hf] at h; cases h; simp
  rw [ciIndices_main crit conf n q hl hq (by omega) (by omega) (by omega)] at h
  cases conf with
  | twoSided l =>
    simp only at h
    split_ifs at h
    cases h; simp
  | upper l => simp at h
  | lower l => simp at h

theorem never_indexError (hl : ValidLevel conf) (x : Rex) (m : ℕ) :
    ciIndices crit conf n q ≠ .err (.indexError x m) := by
  intro h
  rcases error_cases crit conf n q hl _ h with h | h | h | h | h <;> cases h

/-! ## 2. the ranks -/

/-- **Ranks.** On the accepted domain the result is, according to the kind of confidence,
    `[lo, hi]`, `[lo, →)` or `(←, hi]` with `lo = min ⌊pLow·n⌋ (n−1)`, `hi = min ⌊pHigh·n⌋ (n−1)`,
    `pLow`/`pHigh` the Wilson numbers `centre ∓ span` of `k = round(q·n)` successes out of `n`
    (a negative critical value makes the two-sided Wilson interval inverted, which
    `Interval::new` rejects). One-sided confidence yields only the corresponding single bound. -/
theorem ranks (hl : ValidLevel conf) (hq : ValidQuantile q) (hn : 4 ≤ n)
    (hk : 2 ≤ successes q.val n) (hf : 2 ≤ n - successes q.val n) :
    ciIndices crit conf n q =
      match (generalizing := false) conf with
      | .twoSided _ =>
          if zOf crit conf < 0 then .err (.interval .invalidBounds)
          else .ok (.twoSided (rank n (pLow n (successes q.val n) (zOf crit conf)))
                              (rank n (pHigh n (successes q.val n) (zOf crit conf))))
      | .upper _ => .ok (.upper (rank n (pLow n (successes q.val n) (zOf crit conf))))
      | .lower _ => .ok (.lower (rank n (pHigh n (successes q.val n) (zOf crit conf)))) :=
  ciIndices_main crit conf n q hl hq hn hk hf

/-- the ranks are what the model's `Stats::index` returns on the bounds of the model's
    `ci_wilson(confidence, n, round(q·n))`; the far end of a one-sided Wilson interval is `1`
    (upper) resp. `0` (lower), whose ranks `n − 1` resp. `0` are computed but not reported -/
theorem ranks_via_wilson (hl : ValidLevel conf) (hq : ValidQuantile q) (hn : 4 ≤ n)
    (hk : 2 ≤ successes q.val n) (hf : 2 ≤ n - successes q.val n)
    (hz : conf.isTwoSided = true → 0 ≤ zOf crit conf) :
    ∃ pl pu : Rex, ∃ lo hi : ℕ,
      Proportion.ciWilson crit conf n (successes q.val n) = .ok (.twoSided pl pu) ∧
      Quantile.index n pl = .ok lo ∧ Quantile.index n pu = .ok hi ∧
      pl.val = (match conf with | .lower _ => 0 | _ => pLow n (successes q.val n) (zOf crit conf)) ∧
      pu.val = (match conf with | .upper _ => 1 | _ => pHigh n (successes q.val n) (zOf crit conf)) ∧
      ciIndices crit conf n q =
        .ok (match conf with
             | .twoSided _ => .twoSided lo hi
             | .upper _ => .upper lo
             | .lower _ => .lower hi) := by
  have hn0 : 0 < n := by omega
  have hn0' : n ≠ 0 := by omega
  have hkn : successes q.val n ≤ n := QSpec.successes_le q.val n hq.2
  have hlo := lower_nonneg n (successes q.val n) (zOf crit conf) hn0 hkn
  have hhi := upper_le_one n (successes q.val n) (zOf crit conf) hn0 hkn
  have hW := ciWilson_eq crit conf n (successes q.val n) hl hn0 hk hf
  have hI := ciIndices_main crit conf n q hl hq hn hk hf
  cases conf with
  | twoSided l =>
    have hz' := hz rfl
    simp only [if_neg (not_lt.mpr hz')] at hW hI
    exact ⟨_, _, _, _, hW, index_eq n _ hn0' hlo.1 hhi.1, index_eq n _ hn0' hlo.2 hhi.2,
      rfl, rfl, hI⟩
  | upper l =>
    simp only at hW hI
    exact ⟨_, _, _, _, hW, index_eq n _ hn0' hlo.1 hhi.1,
      index_eq n _ hn0' (by simp) (by simp), rfl, rfl, hI⟩
  | lower l =>
    simp only at hW hI
    exact ⟨_, _, _, _, hW, index_eq n _ hn0' (by simp) (by simp),
      index_eq n _ hn0' hlo.2 hhi.2, rfl, rfl, hI⟩

/-- `Stats::index`: `min ⌊p·n⌋ (n−1)` for `p ∈ [0,1]` and a non-empty population, `TooFewSamples`
    for an empty one, `InvalidQuantile` outside `[0,1]` -/
theorem index_spec (p : Rex) :
    Quantile.index n p =
      if n = 0 then .err (.tooFewSamples n)
      else if p.val < 0 ∨ 1 < p.val then .err (.invalidQuantile p)
      else .ok (rank n p.val) := by
  simp [Quantile.index, rank]

/-- **Kinds.** The result has the kind of the confidence: two-sided confidence gives both
    ranks, upper one-sided only the lower rank `[lo, →)`, lower one-sided only the upper rank -/
theorem kinds (hl : ValidLevel conf) (idx : Interval ℕ)
    (h : ciIndices crit conf n q = .ok idx) :
    idx.isTwoSided = conf.isTwoSided ∧ idx.isUpper = conf.isUpper ∧
      idx.isLower = conf.isLower := by
  obtain ⟨_, _, _, _, hm⟩ := ciIndices_ok crit conf n q hl idx h
  cases idx <;> cases conf <;> simp [Confidence.kind] at hm <;>
    simp [Interval.isTwoSided, Interval.isUpper, Interval.isLower, Confidence.isTwoSided,
      Confidence.isUpper, Confidence.isLower]

/-! ## 3. in range, ordered -/

/-- **In range.** Every reported rank is a valid 0-based index into the sample (`≤ n − 1`) -/
theorem ranks_in_range (hl : ValidLevel conf) (idx : Interval ℕ)
    (h : ciIndices crit conf n q = .ok idx) :
    4 ≤ n ∧
    match idx with
    | .twoSided lo hi => lo ≤ n - 1 ∧ hi ≤ n - 1
    | .upper lo => lo ≤ n - 1
    | .lower hi => hi ≤ n - 1 := by
  obtain ⟨_, hn, _, _, hm⟩ := ciIndices_ok crit conf n q hl idx h
  refine ⟨hn, ?_⟩
  cases idx <;> simp only at hm ⊢ <;> omega

/-- **Ordered.** `lo ≤ hi` -/
theorem ordered (hl : ValidLevel conf) (lo hi : ℕ)
    (h : ciIndices crit conf n q = .ok (.twoSided lo hi)) : lo ≤ hi := by
  obtain ⟨_, _, _, _, hm⟩ := ciIndices_ok crit conf n q hl _ h
  exact hm.1

/-! ## 4. bracketing -/

/-- **Bracket.** For a non-negative critical value (every two-sided level, one-sided levels
    `≥ ½`) the reported ranks enclose the rank `k = round(q·n)` of the sample quantile:
    `lo ≤ k ≤ hi`, with `k` itself in range (`2 ≤ k ≤ n − 2`); and as soon as `z > 0` the lower
    rank is strictly below: `lo ≤ k − 1`. (`hi = k` does occur for `z > 0`: the interval may
    be the two adjacent order statistics `k − 1`, `k` — "to within one position".) -/
theorem bracket (hl : ValidLevel conf) (idx : Interval ℕ)
    (h : ciIndices crit conf n q = .ok idx) (hz : 0 ≤ zOf crit conf) :
    2 ≤ successes q.val n ∧ successes q.val n ≤ n - 2 ∧
    match idx with
    | .twoSided lo hi =>
        lo ≤ successes q.val n ∧ successes q.val n ≤ hi ∧
          (0 < zOf crit conf → lo ≤ successes q.val n - 1)
    | .upper lo => lo ≤ successes q.val n ∧ (0 < zOf crit conf → lo ≤ successes q.val n - 1)
    | .lower hi => successes q.val n ≤ hi := by
  obtain ⟨hq, hn, hk, hf, _⟩ := ciIndices_ok crit conf n q hl idx h
  have hn0 : 0 < n := by omega
  have hkn : successes q.val n ≤ n := by omega
  refine ⟨hk, by omega, ?_⟩
  have henc := encloses n (successes q.val n) (zOf crit conf) hn0 hkn hz
  have hlo : rank n (pLow n (successes q.val n) (zOf crit conf)) ≤ successes q.val n :=
    rank_le_of_le n _ _ hn0 henc.1
  have hhi : successes q.val n ≤ rank n (pHigh n (successes q.val n) (zOf crit conf)) :=
    le_rank_of_le n _ _ hn0 (by omega) henc.2
  have hlo' : 0 < zOf crit conf →
      rank n (pLow n (successes q.val n) (zOf crit conf)) ≤ successes q.val n - 1 := by
    intro hz'
    have h1 := (encloses_strict n (successes q.val n) (zOf crit conf) hn0 (by omega) (by omega) hz').1
    have h2 : rank n (pLow n (successes q.val n) (zOf crit conf)) < successes q.val n :=
      rank_lt_of_lt n _ _ hn0 (by omega) h1
    omega
  rw [ciIndices_main crit conf n q hl hq hn hk hf] at h
  cases conf with
  | twoSided l =>
    simp only [if_neg (not_lt.mpr hz)] at h
    cases h
    exact ⟨hlo, hhi, hlo'⟩
  | upper l => simp only at h; cases h; exact ⟨hlo, hlo'⟩
  | lower l => simp only at h; cases h; exact hhi

end indices

/-! ## 5.–7. the data entry points, over any linear order -/

section data
variable {T : Type} [LinearOrder T]
attribute [local instance] Cmp.ofLinearOrder
variable (crit : Crit Rex) (conf : Confidence Rex) (q : Rex)

/-- over a linear order the sort inside `ci` never panics and is the merge sort by `≤` -/
theorem sort_never_panics (xs : List T) :
    (Quantile.sortData xs : Outcome (Err Rex) (List T)) = .ok (sorted xs) := sortData_eq xs

/-- `sorted xs` is a sorted permutation of `xs` -/
theorem sorted_spec (xs : List T) :
    (sorted xs).Perm xs ∧ (sorted xs).Pairwise (· ≤ ·) ∧ (sorted xs).length = xs.length :=
  ⟨sorted_perm xs, sorted_pairwise xs, sorted_length xs⟩

/-- **Elements.** `ci` returns exactly what the index-only entry point says, looked up in the
    sorted sample: on `Ok` ranks the bounds are the order statistics `sorted[lo]`, `sorted[hi]`
    (the look-ups are in range, `Interval::new` never rejects them since
    `sorted[lo] ≤ sorted[hi]`), and they are elements of the sample; every error of
    `ci_indices` is passed through unchanged; there is no panic. -/
theorem elements (hl : ValidLevel conf) (xs : List T) :
    match ciIndices crit conf xs.length q with
    | .ok (.twoSided lo hi) =>
        ∃ (h1 : lo < (sorted xs).length) (h2 : hi < (sorted xs).length),
          Quantile.ci crit conf xs q = .ok (.twoSided (sorted xs)[lo] (sorted xs)[hi]) ∧
          (sorted xs)[lo] ≤ (sorted xs)[hi] ∧ (sorted xs)[lo] ∈ xs ∧ (sorted xs)[hi] ∈ xs
    | .ok (.upper lo) =>
        ∃ (h1 : lo < (sorted xs).length),
          Quantile.ci crit conf xs q = .ok (.upper (sorted xs)[lo]) ∧ (sorted xs)[lo] ∈ xs
    | .ok (.lower hi) =>
        ∃ (h2 : hi < (sorted xs).length),
          Quantile.ci crit conf xs q = .ok (.lower (sorted xs)[hi]) ∧ (sorted xs)[hi] ∈ xs
    | .err e => Quantile.ci crit conf xs q = .err e
    | .panic _ => False := by
  generalize hr : ciIndices crit conf xs.length q = r
  match r, hr with
  | .ok (.twoSided lo hi), hr =>
    obtain ⟨h1, h2, hci, hle⟩ := ci_of_indices_ok crit conf xs q hl _ hr
    exact ⟨h1, h2, hci, hle, (mem_sorted xs _).mp (List.getElem_mem h1),
      (mem_sorted xs _).mp (List.getElem_mem h2)⟩
  | .ok (.upper lo), hr =>
    obtain ⟨h1, hci⟩ := ci_of_indices_ok crit conf xs q hl _ hr
    exact ⟨h1, hci, (mem_sorted xs _).mp (List.getElem_mem h1)⟩
  | .ok (.lower hi), hr =>
    obtain ⟨h2, hci⟩ := ci_of_indices_ok crit conf xs q hl _ hr
    exact ⟨h2, hci, (mem_sorted xs _).mp (List.getElem_mem h2)⟩
  | .err e, hr => exact ci_of_indices_err crit conf xs q e hr
  | .panic t, hr => exact ciIndices_ne_panic crit conf xs.length q hl t hr

/-- the bounds of a successful `ci` are elements of the sample, in order -/
theorem bounds_mem (hl : ValidLevel conf) (xs : List T) (iv : Interval T)
    (h : Quantile.ci crit conf xs q = .ok iv) :
    match iv with
    | .twoSided a b => a ∈ xs ∧ b ∈ xs ∧ a ≤ b
    | .upper a => a ∈ xs
    | .lower b => b ∈ xs := by
  have he := elements crit conf q hl xs
  generalize hr : ciIndices crit conf xs.length q = r at he
  match r, he with
  | .ok (.twoSided lo hi), he =>
    obtain ⟨h1, h2, hci, hle, m1, m2⟩ := he
    rw [hci] at h; cases h; exact ⟨m1, m2, hle⟩
  | .ok (.upper lo), he =>
    obtain ⟨h1, hci, m1⟩ := he
    rw [hci] at h; cases h; exact m1
  | .ok (.lower hi), he =>
    obtain ⟨h2, hci, m2⟩ := he
    rw [hci] at h; cases h; exact m2
  | .err e, he => rw [he] at h; cases h
  | .panic t, he => exact he.elim

/-- **Order independence.** The result does not depend on the order in which the data are
    supplied -/
theorem perm_invariant (xs ys : List T) (h : xs.Perm ys) :
    Quantile.ci crit conf xs q = Quantile.ci crit conf ys q := by
  rw [ci_eq_sorted, ci_eq_sorted, sorted_eq_of_perm h]

/-- **Entry points agree (pre-sorted).** `ci` is `ci_sorted_unchecked` on the sorted data -/
theorem ci_eq_ciSortedUnchecked (xs : List T) :
    Quantile.ci crit conf xs q = Quantile.ciSortedUnchecked crit conf (sorted xs) q :=
  ci_eq_sorted crit conf xs q

/-- on data that are already sorted `ci` and `ci_sorted_unchecked` coincide -/
theorem ci_eq_ciSortedUnchecked_of_sorted (xs : List T) (hs : xs.Pairwise (· ≤ ·)) :
    Quantile.ci crit conf xs q = Quantile.ciSortedUnchecked crit conf xs q := by
  rw [ci_eq_sorted]
  congr 1
  exact List.Perm.eq_of_pairwise' (r := (· ≤ ·)) (sorted_pairwise xs) hs (sorted_perm xs)

/-- **Entry points agree (fixed capacity).** `ci_max_size::<CAP>` is `ci` when the data fit and
    the documented capacity panic otherwise -/
theorem ciMaxSize_eq (cap : ℕ) (xs : List T) :
    Quantile.ciMaxSize cap crit conf xs q =
      if xs.length ≤ cap then Quantile.ci crit conf xs q else .panic "capacity" := by
  unfold Quantile.ciMaxSize
  by_cases h : xs.length ≤ cap
  · rw [if_neg (by omega), if_pos h]
  · rw [if_pos (by omega), if_neg h]

/-- **Entry points agree (index-only).** In one equation: the outcome of `ci`, its bounds
    wrapped in `some`, is the outcome of `ci_indices` on the sample size with every rank looked up
    in the sorted sample. Hence `ci` succeeds exactly when `ci_indices` does, with an interval of
    the same kind whose bounds are the sorted elements at those ranks, and the errors coincide. -/
theorem ci_eq_indices_lookup (hl : ValidLevel conf) (xs : List T) :
    (Quantile.ci crit conf xs q).map (Interval.map some) =
      (ciIndices crit conf xs.length q).map (Interval.map fun i => (sorted xs)[i]?) := by
  have he := elements crit conf q hl xs
  generalize hr : ciIndices crit conf xs.length q = r at he
  match r, he with
  | .ok (.twoSided lo hi), he =>
    obtain ⟨h1, h2, hci, -⟩ := he
    simp [hci, Outcome.map, Interval.map, h1, h2]
  | .ok (.upper lo), he =>
    obtain ⟨h1, hci, -⟩ := he
    simp [hci, Outcome.map, Interval.map, h1]
  | .ok (.lower hi), he =>
    obtain ⟨h2, hci, -⟩ := he
    simp [hci, Outcome.map, Interval.map, h2]
  | .err e, he => simp [he, Outcome.map]
  | .panic t, he => exact he.elim

/-- **Entry points agree.** The four ways into the computation — `ci` (unsorted data),
    `ci_sorted_unchecked` (pre-sorted), `ci_max_size::<CAP>` (fixed capacity) and the index-only
    `ci_indices` / `Stats::ci` — produce the same outcome. -/
theorem entry_points_agree (hl : ValidLevel conf) (cap : ℕ) (xs : List T) :
    Quantile.ci crit conf xs q = Quantile.ciSortedUnchecked crit conf (sorted xs) q ∧
    (xs.length ≤ cap → Quantile.ciMaxSize cap crit conf xs q = Quantile.ci crit conf xs q) ∧
    (cap < xs.length → Quantile.ciMaxSize cap crit conf xs q = .panic "capacity") ∧
    (Quantile.ci crit conf xs q).map (Interval.map some) =
      (ciIndices crit conf xs.length q).map (Interval.map fun i => (sorted xs)[i]?) := by
  refine ⟨ci_eq_sorted crit conf xs q, ?_, ?_, ci_eq_indices_lookup crit conf q hl xs⟩
  · intro h; rw [ciMaxSize_eq, if_pos h]
  · intro h; rw [ciMaxSize_eq, if_neg (by omega)]

/-- `ci` succeeds exactly when the index-only entry point does -/
theorem ci_isOk_iff (hl : ValidLevel conf) (xs : List T) :
    (Quantile.ci crit conf xs q).isOk = (ciIndices crit conf xs.length q).isOk := by
  have h := ci_eq_indices_lookup crit conf q hl xs
  cases h1 : Quantile.ci crit conf xs q <;> cases h2 : ciIndices crit conf xs.length q <;>
    simp [h1, h2, Outcome.map] at h <;> simp [Outcome.isOk]

/-- the errors of `ci` and of the index-only entry point coincide -/
theorem ci_err_iff (hl : ValidLevel conf) (xs : List T) (e : Err Rex) :
    Quantile.ci crit conf xs q = .err e ↔ ciIndices crit conf xs.length q = .err e := by
  have h := ci_eq_indices_lookup crit conf q hl xs
  cases h1 : Quantile.ci crit conf xs q <;> cases h2 : ciIndices crit conf xs.length q <;>
    simp [h1, h2, Outcome.map] at h <;> simp [h]

/-- `ci` never panics (valid level, linear order) -/
theorem ci_never_panics (hl : ValidLevel conf) (xs : List T) (t : String) :
    Quantile.ci crit conf xs q ≠ .panic t := by
  have h := ci_eq_indices_lookup crit conf q hl xs
  intro h1
  cases h2 : ciIndices crit conf xs.length q <;> simp [h1, h2, Outcome.map] at h
  exact ciIndices_ne_panic crit conf xs.length q hl _ h2

/-- one-sided confidence yields only the corresponding single bound, also through `ci` -/
theorem ci_kinds (hl : ValidLevel conf) (xs : List T) (iv : Interval T)
    (h : Quantile.ci crit conf xs q = .ok iv) :
    iv.isTwoSided = conf.isTwoSided ∧ iv.isUpper = conf.isUpper ∧ iv.isLower = conf.isLower := by
  have he := ci_eq_indices_lookup crit conf q hl xs
  cases h2 : ciIndices crit conf xs.length q with
  | ok idx =>
    have hk := kinds crit conf xs.length q hl idx h2
    rw [h, h2] at he
    simp only [Outcome.map, Outcome.ok.injEq] at he
    cases iv <;> cases idx <;> simp [Interval.map] at he <;>
      simpa [Interval.isTwoSided, Interval.isUpper, Interval.isLower] using hk
  | err e => rw [h, h2] at he; simp [Outcome.map] at he
  | panic t => rw [h, h2] at he; simp [Outcome.map] at he

end data

/-! ## non-vacuity: a concrete instance meets every hypothesis used above

  `crit` constantly 2, two-sided level 0.9, `n = 10`, `q = ½`: `k = round 5 = 5`, `n − k = 5`,
  `z = 2 > 0`; `ci_indices` succeeds, so does `ci` on the sample `0,…,9` supplied in any order. -/

section nonvacuity
attribute [local instance] Cmp.ofLinearOrder

example : ValidLevel (.twoSided (inj (9 / 10))) ∧ ValidQuantile (inj (1 / 2)) ∧ 4 ≤ (10 : ℕ) ∧
    2 ≤ successes (inj (1 / 2) : Rex).val 10 ∧ 2 ≤ 10 - successes (inj (1 / 2) : Rex).val 10 ∧
    0 < zOf (constCrit 2) (.twoSided (inj (9 / 10))) ∧
    (ciIndices (constCrit 2 : Crit Rex) (.twoSided (inj (9 / 10))) 10 (inj (1 / 2))).isOk = true ∧
    (Quantile.ci (constCrit 2 : Crit Rex) (.twoSided (inj (9 / 10))) [3, 1, 4, 0, 5, 9, 2, 6, 8, (7 : ℤ)]
      (inj (1 / 2))).isOk = true := by
  have hl := validLevel_example
  have hq : ValidQuantile (inj (1 / 2)) := by
    show 0 < (1 / 2 : ℝ) ∧ (1 / 2 : ℝ) < 1; norm_num
  have hk : successes (inj (1 / 2) : Rex).val 10 = 5 := successes_half_ten
  have hz : zOf (constCrit 2) (.twoSided (inj (9 / 10))) = 2 := rfl
  have hok : (ciIndices (constCrit 2 : Crit Rex) (.twoSided (inj (9 / 10))) 10 (inj (1 / 2))).isOk = true := by
    rw [(domain (constCrit 2) _ 10 (inj (1 / 2)) hl).2.2.2.2.2]
    refine ⟨hq, by norm_num, by rw [hk]; norm_num, by rw [hk]; norm_num, fun _ => by rw [hz]; norm_num⟩
  refine ⟨hl, hq, by norm_num, by rw [hk]; norm_num, by rw [hk]; norm_num, by rw [hz]; norm_num, hok, ?_⟩
  rw [ci_isOk_iff _ _ _ hl]
  exact hok

/-- the same instance, computed: ranks 2 and 7, i.e. the interval `[2, 7]` of the sample `0,…,9` -/
example :
    ciIndices (constCrit 2 : Crit Rex) (.twoSided (inj (9 / 10))) 10 (inj (1 / 2)) =
      .ok (.twoSided 2 7) := by
  have hq : ValidQuantile (inj (1 / 2)) := by
    show 0 < (1 / 2 : ℝ) ∧ (1 / 2 : ℝ) < 1; norm_num
  have hk : successes (inj (1 / 2) : Rex).val 10 = 5 := successes_half_ten
  rw [ranks _ _ 10 _ validLevel_example hq (by norm_num) (by rw [hk]; norm_num)
    (by rw [hk]; norm_num)]
  have hz : zOf (constCrit 2) (.twoSided (inj (9 / 10))) = 2 := rfl
  simp only [hz, hk, ranks_10_5_2.1, ranks_10_5_2.2]
  rw [if_neg (by norm_num)]

/-- tightness of `bracket`: with a small positive critical value (`z = 1/10`) the upper rank is
    `k = 5` itself and the lower rank is `k − 1 = 4`: the two adjacent order statistics -/
example :
    ciIndices (constCrit (1 / 10) : Crit Rex) (.twoSided (inj (9 / 10))) 10 (inj (1 / 2)) =
      .ok (.twoSided 4 5) := by
  have hq : ValidQuantile (inj (1 / 2)) := by
    show 0 < (1 / 2 : ℝ) ∧ (1 / 2 : ℝ) < 1; norm_num
  have hk : successes (inj (1 / 2) : Rex).val 10 = 5 := successes_half_ten
  rw [ranks _ _ 10 _ validLevel_example hq (by norm_num) (by rw [hk]; norm_num)
    (by rw [hk]; norm_num)]
  have hz : zOf (constCrit (1 / 10)) (.twoSided (inj (9 / 10))) = 1 / 10 := rfl
  simp only [hz, hk, ranks_10_5_tenth.1, ranks_10_5_tenth.2]
  rw [if_neg (by norm_num)]

/-- a negative critical value is rejected for two-sided confidence (the Wilson interval is inverted) -/
example :
    ciIndices (constCrit (-2) : Crit Rex) (.twoSided (inj (9 / 10))) 10 (inj (1 / 2)) =
      .err (.interval .invalidBounds) := by
  have hq : ValidQuantile (inj (1 / 2)) := by
    show 0 < (1 / 2 : ℝ) ∧ (1 / 2 : ℝ) < 1; norm_num
  have hk : successes (inj (1 / 2) : Rex).val 10 = 5 := successes_half_ten
  rw [ranks _ _ 10 _ validLevel_example hq (by norm_num) (by rw [hk]; norm_num)
    (by rw [hk]; norm_num)]
  have hz : zOf (constCrit (-2)) (.twoSided (inj (9 / 10))) = -2 := rfl
  simp only [hz]
  rw [if_pos (by norm_num)]

end nonvacuity

end StatsCI.C03
