/-
  C09 — Incremental, chunked, merged (and hence parallel) accumulation equals the batch result.

  An accumulation history is a `Prog` (Model/Program.lean): any tree over
  {new, append, extend/from_iter, +, +=}. A parallel reduction is *some* such tree over *some*
  arrangement of the chunks; the theorems quantify over all trees and all permutations of the
  data, so every schedule is covered at the model level.
-/
import StatsCI.Lemmas.KahanAccum

namespace StatsCI.C09
open StatsCI KahanLemmas

/-! ### 1. Counts -/

/-- **Count.** For every carrier (operations only, no arithmetic laws) and every history, the
    `count` of the `Arithmetic` state is the number of observations delivered. -/
theorem count {α : Type} [Scalar α] (p : Prog α) : p.evalA.count = p.data.length :=
  (evalA_fields p).2.2

/-! ### 2. Exact arithmetic: the observable state is that of the batch -/

/-- **Exact state.** At `fl = id` the observable state `(Σx, Σx², n)` of every history is the
    exact one (and both compensations are `0`). -/
theorem exact_state (p : Prog ℝ) :
    ((p.map inj).evalA : Arith Rex).sum.value.val = p.data.sum ∧
    ((p.map inj).evalA : Arith Rex).sumSq.value.val = (p.data.map fun x => x * x).sum ∧
    ((p.map inj).evalA : Arith Rex).count = p.data.length := by
  obtain ⟨h1, h2, h3, _, _⟩ := evalA_exact p
  exact ⟨h1, h2, h3⟩

/-- **Batch equality.** At `fl = id`, two histories delivering the same multiset of observations
    (in any order, with any chunking and any merge tree) agree on every query: count, the two
    register values, mean, variance (both the total form and the `Option` form that models the
    `usize` underflow on the empty state), standard deviation, standard error, and the confidence
    interval for every critical-value oracle and every confidence. -/
theorem batch_eq (p q : Prog ℝ) (h : p.data.Perm q.data) :
    let a : Arith Rex := (p.map inj).evalA
    let b : Arith Rex := (q.map inj).evalA
    a.sampleCount = b.sampleCount ∧ a.sum.value = b.sum.value ∧ a.sumSq.value = b.sumSq.value ∧
    a.mean = b.mean ∧ a.variance = b.variance ∧ a.variance? = b.variance? ∧
    a.stdDev = b.stdDev ∧ a.sem = b.sem ∧
    ∀ (crit : Crit Rex) (conf : Confidence Rex),
      Arith.ciMean crit a conf = Arith.ciMean crit b conf := by
  intro a b
  obtain ⟨a1, a2, a3⟩ := exact_state p
  obtain ⟨b1, b2, b3⟩ := exact_state q
  have h1 : a.sum.value = b.sum.value := by
    apply RR.ext'; rw [a1, b1]; exact h.sum_eq
  have h2 : a.sumSq.value = b.sumSq.value := by
    apply RR.ext'; rw [a2, b2]; exact (h.map _).sum_eq
  have h3 : a.count = b.count := by rw [a3, b3]; exact h.length_eq
  obtain ⟨c1, c2, c3, c4, c5, c6⟩ := arith_obs_congr a b h1 h2 h3
  exact ⟨c1, h1, h2, c2, c3, c4, c5, c6, fun crit conf => arith_ci_congr a b h1 h2 h3 crit conf⟩

/-- in particular every history agrees with `Arithmetic::from_iter` of any enumeration of the
    multiset it delivered -/
theorem batch_eq_fromList (p : Prog ℝ) (ys : List ℝ) (h : p.data.Perm ys) :
    let a : Arith Rex := (p.map inj).evalA
    let b : Arith Rex := Arith.fromList (ys.map inj)
    a.sampleCount = b.sampleCount ∧ a.sum.value = b.sum.value ∧ a.sumSq.value = b.sumSq.value ∧
    a.mean = b.mean ∧ a.variance = b.variance ∧ a.variance? = b.variance? ∧
    a.stdDev = b.stdDev ∧ a.sem = b.sem ∧
    ∀ (crit : Crit Rex) (conf : Confidence Rex),
      Arith.ciMean crit a conf = Arith.ciMean crit b conf := by
  have h' : p.data.Perm (Prog.extend Prog.empty ys).data := by simpa [Prog.data] using h
  exact batch_eq p (Prog.extend Prog.empty ys) h'

/-- non-vacuity: a merge of two chunks against the batch over a different order -/
example : (Prog.merge (Prog.append (Prog.append Prog.empty (1 : ℝ)) 2)
      (Prog.extend Prog.empty [3, 4])).data.Perm [3, 4, 1, 2] := by
  simp only [Prog.data, List.nil_append, List.cons_append]
  exact List.perm_append_comm (l₁ := [1, 2]) (l₂ := [3, 4])

/-! ### 4. Count-like states are component-wise sums -/

open Proportion in
/-- **Proportion state.** Every history of Boolean observations ends in
    `(number of observations, number of successes)`. -/
theorem counts_are_sums (p : Prog Bool) : p.evalP = ⟨p.data.length, p.data.count true⟩ :=
  evalP_eq p

open Proportion in
/-- hence histories delivering permutations of the same data reach the same state -/
theorem evalP_perm (p q : Prog Bool) (h : p.data.Perm q.data) : p.evalP = q.evalP := by
  rw [evalP_eq, evalP_eq, h.length_eq, h.count_eq]

open Proportion in
theorem stats_merge_assoc (a b c : Stats) : (a.merge b).merge c = a.merge (b.merge c) := by
  simp [Stats.merge, Nat.add_assoc]

open Proportion in
theorem stats_merge_comm (a b : Stats) : a.merge b = b.merge a := by
  simp [Stats.merge, Nat.add_comm]

open Proportion in
theorem stats_merge_empty_right (a : Stats) : a.merge Stats.empty = a := by
  cases a; simp [Stats.merge, Stats.empty]

open Proportion in
theorem stats_merge_empty_left (a : Stats) : Stats.empty.merge a = a := by
  cases a; simp [Stats.merge, Stats.empty]

/-- **Quantile state.** The population count reached by a history is the number of
    observations. -/
theorem evalCount_eq (p : Prog Unit) : p.evalCount = p.data.length :=
  KahanLemmas.evalCount_eq p

end StatsCI.C09
