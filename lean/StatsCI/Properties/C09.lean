/-
  C09 — Incremental, chunked, merged (and hence parallel) accumulation equals the batch result.

  An accumulation history is a `Prog` (Model/Program.lean): any tree over
  {new, append, extend/from_iter, +, +=}. A parallel reduction is *some* such tree over *some*
  arrangement of the chunks; the theorems quantify over all trees and all permutations of the
  data, so every schedule is covered at the model level.
-/
import StatsCI.Lemmas.KahanAccum
import StatsCI.Lemmas.KahanProg

namespace StatsCI.C09
open StatsCI KahanLemmas

/-! ### 1. Counts -/

/-- **Count.** For every carrier (operations only, no arithmetic laws) and every history, the
    `count` of the `Arithmetic` state is the number of observations delivered. -/
theorem count {α : Type} [Scalar α] (p : Prog α) : p.evalA.count = p.data.length :=
  (evalA_fields p).2.2

/-! ### 2. Exact arithmetic: the observable state is that of the batch -/

/-- **Exact state.** At `fl = id` the observable state `(Σx, Σx², n)` of every history is the
    exact one (and both compensations are `0`). -/
theorem exact_state (p : Prog ℝ) :
    ((p.map inj).evalA : Arith Rex).sum.value.val = p.data.sum ∧
    ((p.map inj).evalA : Arith Rex).sumSq.value.val = (p.data.map fun x => x * x).sum ∧
    ((p.map inj).evalA : Arith Rex).count = p.data.length := by
  obtain ⟨h1, h2, h3, _, _⟩ := evalA_exact p
  exact ⟨h1, h2, h3⟩

/-- **Batch equality.** At `fl = id`, two histories delivering the same multiset of observations
    (in any order, with any chunking and any merge tree) agree on every query: count, the two
    register values, mean, variance (both the total form and the `Option` form that models the
    `usize` underflow on the empty state), standard deviation, standard error, and the confidence
    interval for every critical-value oracle and every confidence. -/
theorem batch_eq (p q : Prog ℝ) (h : p.data.Perm q.data) :
    let a : Arith Rex := (p.map inj).evalA
    let b : Arith Rex := (q.map inj).evalA
    a.sampleCount = b.sampleCount ∧ a.sum.value = b.sum.value ∧ a.sumSq.value = b.sumSq.value ∧
    a.mean = b.mean ∧ a.variance = b.variance ∧ a.variance? = b.variance? ∧
    a.stdDev = b.stdDev ∧ a.sem = b.sem ∧
    ∀ (crit : Crit Rex) (conf : Confidence Rex),
      Arith.ciMean crit a conf = Arith.ciMean crit b conf := by
  intro a b
  obtain ⟨a1, a2, a3⟩ := exact_state p
  obtain ⟨b1, b2, b3⟩ := exact_state q
  have h1 : a.sum.value = b.sum.value := by
    apply RR.ext'; rw [a1, b1]; exact h.sum_eq
  have h2 : a.sumSq.value = b.sumSq.value := by
    apply RR.ext'; rw [a2, b2]; exact (h.map _).sum_eq
  have h3 : a.count = b.count := by rw [a3, b3]; exact h.length_eq
  obtain ⟨c1, c2, c3, c4, c5, c6⟩ := arith_obs_congr a b h1 h2 h3
  exact ⟨c1, h1, h2, c2, c3, c4, c5, c6, fun crit conf => arith_ci_congr a b h1 h2 h3 crit conf⟩

/-- in particular every history agrees with `Arithmetic::from_iter` of any enumeration of the
    multiset it delivered -/
theorem batch_eq_fromList (p : Prog ℝ) (ys : List ℝ) (h : p.data.Perm ys) :
    let a : Arith Rex := (p.map inj).evalA
    let b : Arith Rex := Arith.fromList (ys.map inj)
    a.sampleCount = b.sampleCount ∧ a.sum.value = b.sum.value ∧ a.sumSq.value = b.sumSq.value ∧
    a.mean = b.mean ∧ a.variance = b.variance ∧ a.variance? = b.variance? ∧
    a.stdDev = b.stdDev ∧ a.sem = b.sem ∧
    ∀ (crit : Crit Rex) (conf : Confidence Rex),
      Arith.ciMean crit a conf = Arith.ciMean crit b conf := by
  have h' : p.data.Perm (Prog.extend Prog.empty ys).data := by simpa [Prog.data] using h
  exact batch_eq p (Prog.extend Prog.empty ys) h'

/-- non-vacuity: a merge of two chunks against the batch over a different order -/
example : (Prog.merge (Prog.append (Prog.append Prog.empty (1 : ℝ)) 2)
      (Prog.extend Prog.empty [3, 4])).data.Perm [3, 4, 1, 2] := by
  simp only [Prog.data, List.nil_append, List.cons_append]
  exact List.perm_append_comm (l₁ := [1, 2]) (l₂ := [3, 4])

/-! ### 3. Rounded arithmetic: any two histories of the same multiset are close -/

section rounded
variable {fl : ℝ → ℝ} {u : ℝ}

/-- **Rounded, general budgets.** For admissible `fl`, two histories delivering permutations of
    the same data and satisfying the node-wise side condition of C08 have `sum.value()` within the
    sum of their C08 bounds `Eb + 8u·Tb`. -/
theorem rounded (hu : 0 ≤ u) (hu' : u ≤ 1 / 64) (hfl : ∀ x, |fl x - x| ≤ u * |x|)
    (p q : Prog ℝ) (h : p.data.Perm q.data) (hp : Ok u p) (hq : Ok u q) :
    |((p.map inj).evalA : Arith (RR fl)).sum.value.val
        - ((q.map inj).evalA : Arith (RR fl)).sum.value.val|
      ≤ (Eb u p + 8 * u * Tb u p) + (Eb u q + 8 * u * Tb u q) := by
  rw [(evalA_fields _).1, (evalA_fields _).1]
  have h1 := prog_value hu hu' hfl p hp
  have h2 := prog_value hu hu' hfl q hq
  rw [← h.sum_eq] at h2
  have := abs_sub_le ((p.map inj).evalK : Kahan (RR fl)).value.val p.data.sum
    ((q.map inj).evalK : Kahan (RR fl)).value.val
  rw [abs_sub_comm p.data.sum] at this
  linarith

/-- **Rounded, closed form.** With `steps·u ≤ 1` and `(rdepth + 1)·u ≤ 1/128` for both
    histories, the two `sum.value()` differ by at most
    `((24 + 10·(rdepth p + rdepth q))·u + 12·(steps p + steps q)·u²)·Σ|x|`. -/
theorem rounded_closed (hu : 0 ≤ u) (hfl : ∀ x, |fl x - x| ≤ u * |x|)
    (p q : Prog ℝ) (h : p.data.Perm q.data)
    (hnp : (p.steps : ℝ) * u ≤ 1) (hdp : ((p.rdepth : ℝ) + 1) * u ≤ 1 / 128)
    (hnq : (q.steps : ℝ) * u ≤ 1) (hdq : ((q.rdepth : ℝ) + 1) * u ≤ 1 / 128) :
    |((p.map inj).evalA : Arith (RR fl)).sum.value.val
        - ((q.map inj).evalA : Arith (RR fl)).sum.value.val|
      ≤ ((24 + 10 * (p.rdepth + q.rdepth)) * u + 12 * (p.steps + q.steps) * u ^ 2)
          * (p.data.map abs).sum := by
  rw [(evalA_fields _).1, (evalA_fields _).1]
  have hu' : u ≤ 1 / 64 := by
    have : 0 ≤ (p.rdepth : ℝ) * u := mul_nonneg (Nat.cast_nonneg _) hu
    linarith
  have h1 := prog_value_closed hu hu' hfl p (eps_small hu _ _ hnp hdp)
  have h2 := prog_value_closed hu hu' hfl q (eps_small hu _ _ hnq hdq)
  rw [← h.sum_eq, ← sumAbs_perm h] at h2
  have := abs_sub_le ((p.map inj).evalK : Kahan (RR fl)).value.val p.data.sum
    ((q.map inj).evalK : Kahan (RR fl)).value.val
  rw [abs_sub_comm p.data.sum] at this
  have e : (p.data.map abs).sum = sumAbs p.data := rfl
  rw [e]
  linarith

/-- **Rounded, sum of squares.** The `sum_sq` register accumulates the *rounded* squares
    `fl (x·x)`; two histories of the same multiset differ in `sum_sq.value()` by at most the same
    closed-form factor times `Σ |fl (x·x)|`. -/
theorem rounded_closed_sumSq (hu : 0 ≤ u) (hfl : ∀ x, |fl x - x| ≤ u * |x|)
    (p q : Prog ℝ) (h : p.data.Perm q.data)
    (hnp : (p.steps : ℝ) * u ≤ 1) (hdp : ((p.rdepth : ℝ) + 1) * u ≤ 1 / 128)
    (hnq : (q.steps : ℝ) * u ≤ 1) (hdq : ((q.rdepth : ℝ) + 1) * u ≤ 1 / 128) :
    |((p.map inj).evalA : Arith (RR fl)).sumSq.value.val
        - ((q.map inj).evalA : Arith (RR fl)).sumSq.value.val|
      ≤ ((24 + 10 * (p.rdepth + q.rdepth)) * u + 12 * (p.steps + q.steps) * u ^ 2)
          * (p.data.map fun x => |fl (x * x)|).sum := by
  have key : ∀ r : Prog ℝ, ((r.map inj).evalA : Arith (RR fl)).sumSq
      = ((r.map fun x => fl (x * x)).map inj).evalA.sum := by
    intro r
    rw [(evalA_fields _).2.1, (evalA_fields _).1, map_map, map_map]
    rfl
  rw [key p, key q]
  have h' : (p.map fun x => fl (x * x)).data.Perm (q.map fun x => fl (x * x)).data := by
    rw [data_map, data_map]; exact h.map _
  have := rounded_closed hu hfl (p.map fun x => fl (x * x)) (q.map fun x => fl (x * x)) h'
    (by rwa [steps_map]) (by rwa [rdepth_map]) (by rwa [steps_map]) (by rwa [rdepth_map])
  simpa [steps_map, rdepth_map, data_map, List.map_map, Function.comp_def] using this

/-- non-vacuity: two different merge trees over two arrangements of the same four numbers -/
example : let p : Prog ℝ := .merge (.extend .empty [1, -2]) (.extend .empty [3, 4])
    let q : Prog ℝ := .append (.merge (.extend .empty [3, 4]) (.append .empty 1)) (-2)
    p.data.Perm q.data ∧ (p.steps : ℝ) * (1 / 1024) ≤ 1 ∧
    ((p.rdepth : ℝ) + 1) * (1 / 1024) ≤ 1 / 128 ∧ (q.steps : ℝ) * (1 / 1024) ≤ 1 ∧
    ((q.rdepth : ℝ) + 1) * (1 / 1024) ≤ 1 / 128 := by
  refine ⟨?_, by norm_num [Prog.steps], by norm_num [Prog.rdepth], by norm_num [Prog.steps],
    by norm_num [Prog.rdepth]⟩
  simp only [Prog.data, List.nil_append, List.cons_append]
  exact List.perm_append_comm (l₁ := [1, -2]) (l₂ := [3, 4])

/-- non-vacuity of `rounded`: both histories satisfy the node-wise side condition at `u = 2⁻¹⁰`
    (admissible pairs `(fl, u)` with `fl ≠ id` are exhibited in `Properties/C08.lean`) -/
example : Ok (1 / 1024) (.merge (.extend .empty [1, -2]) (.extend .empty [3, 4]) : Prog ℝ) ∧
    Ok (1 / 1024) (.append (.merge (.extend .empty [3, 4]) (.append .empty 1)) (-2) : Prog ℝ) := by
  constructor
  · refine (budget_closed (by norm_num) (by norm_num) _ ?_).1
    norm_num [eps, Prog.steps, Prog.rdepth]
  · refine (budget_closed (by norm_num) (by norm_num) _ ?_).1
    norm_num [eps, Prog.steps, Prog.rdepth]

end rounded

/-! ### 4. Count-like states are component-wise sums -/

open Proportion in
/-- **Proportion state.** Every history of Boolean observations ends in
    `(number of observations, number of successes)`. -/
theorem counts_are_sums (p : Prog Bool) : p.evalP = ⟨p.data.length, p.data.count true⟩ :=
  evalP_eq p

open Proportion in
/-- hence histories delivering permutations of the same data reach the same state -/
theorem evalP_perm (p q : Prog Bool) (h : p.data.Perm q.data) : p.evalP = q.evalP := by
  rw [evalP_eq, evalP_eq, h.length_eq, h.count_eq]

open Proportion in
theorem stats_merge_assoc (a b c : Stats) : (a.merge b).merge c = a.merge (b.merge c) := by
  simp [Stats.merge, Nat.add_assoc]

open Proportion in
theorem stats_merge_comm (a b : Stats) : a.merge b = b.merge a := by
  simp [Stats.merge, Nat.add_comm]

open Proportion in
theorem stats_merge_empty_right (a : Stats) : a.merge Stats.empty = a := by
  cases a; simp [Stats.merge, Stats.empty]

open Proportion in
theorem stats_merge_empty_left (a : Stats) : Stats.empty.merge a = a := by
  cases a; simp [Stats.merge, Stats.empty]

/-- **Quantile state.** The population count reached by a history is the number of
    observations. -/
theorem evalCount_eq (p : Prog Unit) : p.evalCount = p.data.length :=
  KahanLemmas.evalCount_eq p

/-! ### 5. The empty state is neutral (exactly for counts and at `fl = id`; up to rounding otherwise) -/

/-- **Neutral, count.** Merging with the empty `Arithmetic` state on either side leaves `count`
    unchanged (any carrier). -/
theorem neutral_count {α : Type} [Scalar α] (a : Arith α) :
    (a.merge Arith.empty).count = a.count ∧ (Arith.empty.merge a).count = a.count :=
  arith_merge_empty_count a

/-- **Neutral, exact arithmetic, registers.** At `fl = id` the empty register is left-neutral for
    the value of *every* register; merged on the right it yields `sum − comp`, which is the value
    `sum + comp` exactly when the compensation is `0`. -/
theorem neutral_exact_register (k : Kahan Rex) :
    ((Kahan.empty : Kahan Rex).merge k).value.val = k.value.val ∧
    (k.merge Kahan.empty).value.val = k.sum.val - k.comp.val ∧
    (k.comp.val = 0 → (k.merge Kahan.empty).value.val = k.value.val) := by
  obtain ⟨h1, h2⟩ := merge_empty_exact k
  refine ⟨h1, h2, fun hc => ?_⟩
  rw [h2, value_val, hc]; simp

/-- **Neutral, exact arithmetic, reachable states.** At `fl = id`, merging the state reached by
    any history with the empty state, on either side, leaves `sum.value()`, `sum_sq.value()` and
    `count` unchanged. -/
theorem neutral_exact (p : Prog ℝ) :
    let a : Arith Rex := (p.map inj).evalA
    ((a.merge Arith.empty).sum.value = a.sum.value ∧
     (a.merge Arith.empty).sumSq.value = a.sumSq.value ∧
     (a.merge Arith.empty).count = a.count) ∧
    ((Arith.empty.merge a).sum.value = a.sum.value ∧
     (Arith.empty.merge a).sumSq.value = a.sumSq.value ∧
     (Arith.empty.merge a).count = a.count) := by
  intro a
  obtain ⟨_, _, _, c1, c2⟩ := evalA_exact p
  obtain ⟨l1, _, r1⟩ := neutral_exact_register a.sum
  obtain ⟨l2, _, r2⟩ := neutral_exact_register a.sumSq
  obtain ⟨n1, n2⟩ := arith_merge_empty_count a
  exact ⟨⟨RR.ext' (r1 c1), RR.ext' (r2 c2), n1⟩, ⟨RR.ext' l1, RR.ext' l2, n2⟩⟩

/-- for an *unreachable* register with non-zero compensation the empty register is **not**
    right-neutral even in exact arithmetic (value `1 + 1 = 2` becomes `1 − 1 = 0`): `+=` adds
    `+rhs.compensation` and `value()` is `sum + compensation`, while `kahan_add` maintains
    `sum − compensation` -/
example : ¬ ∀ k : Kahan Rex, (k.merge Kahan.empty).value = k.value := by
  intro h
  have h1 := congrArg RR.val (h ⟨⟨1⟩, ⟨1⟩⟩)
  rw [(neutral_exact_register _).2.1, value_val] at h1
  norm_num at h1

/-- **Neutral, arbitrary rounding.** `k += KahanSum::default()` is exactly two model steps fed
    with `0` (the register is re-normalised: `s ← fl (s + fl (0 − c))`, …), and `value()` moves by
    at most `2|c| + 5u|s| + 7u|c|`. -/
theorem neutral_rounded {fl : ℝ → ℝ} {u : ℝ} (hu : 0 ≤ u) (hu' : u ≤ 1 / 64)
    (hfl : ∀ x, |fl x - x| ≤ u * |x|) (k : Kahan (RR fl)) :
    k.merge Kahan.empty = (k.add NumOps.zero).add NumOps.zero ∧
    (k.add NumOps.zero).sum.val = fl (k.sum.val + fl (0 - k.comp.val)) ∧
    (k.add NumOps.zero).comp.val
      = fl (fl (fl (k.sum.val + fl (0 - k.comp.val)) - k.sum.val) - fl (0 - k.comp.val)) ∧
    |(k.merge Kahan.empty).value.val - k.value.val|
      ≤ 2 * |k.comp.val| + 5 * (u * |k.sum.val|) + 7 * (u * |k.comp.val|) :=
  ⟨rfl, rfl, rfl, merge_empty_value hu hu' hfl k⟩

/-- the same for both registers of an `Arithmetic` state -/
theorem neutral_rounded_arith {fl : ℝ → ℝ} {u : ℝ} (hu : 0 ≤ u) (hu' : u ≤ 1 / 64)
    (hfl : ∀ x, |fl x - x| ≤ u * |x|) (a : Arith (RR fl)) :
    |(a.merge Arith.empty).sum.value.val - a.sum.value.val|
      ≤ 2 * |a.sum.comp.val| + 5 * (u * |a.sum.sum.val|) + 7 * (u * |a.sum.comp.val|) ∧
    |(a.merge Arith.empty).sumSq.value.val - a.sumSq.value.val|
      ≤ 2 * |a.sumSq.comp.val| + 5 * (u * |a.sumSq.sum.val|) + 7 * (u * |a.sumSq.comp.val|) :=
  ⟨merge_empty_value hu hu' hfl a.sum, merge_empty_value hu hu' hfl a.sumSq⟩

end StatsCI.C09
