/-
  C06 — The critical value implied by a mean or comparison interval is the quantile of the
  reference distribution at `(1+L)/2` (two-sided) or `L` (one-sided): Student-t with the applicable
  degrees of freedom below `POPULATION_LIMIT = 100 000`, standard normal from there on; the `z` of a
  proportion interval belongs to the same probability.

  The inverse CDFs are external (`statrs`); the model takes them as a parameter `crit`. What is
  proved here is everything *around* the external routine:
    1. the probability handed to it (`quantile_map`),
    2. which distribution and which degrees of freedom it is asked for, and that the interval is
       `mean ∓ c·sem` for exactly that one answer `c` (`switch`),
    3. where the degrees of freedom come from (`dof_sources`),
    4. the conditional statement: IF the routine is a right inverse of the CDF THEN the CDF at the
       critical value is the stated probability (`inverse`),
    5. that the critical value is recovered from a returned interval as half-width / standard error
       (`implied_c`), so that 4 speaks about the interval the caller sees.
  The numerical accuracy of `statrs` itself is outside the reach of a proof (it is tested, with
  tolerance `1e-12 + 1e-10·ν`, by the differential harness).
-/
import StatsCI.Lemmas.Total
import StatsCI.Lemmas.Wilson
import StatsCI.Lemmas.MeanUnpaired

namespace StatsCI.C06
open StatsCI NumOps Scalar

/-- the probability the property speaks of: `(1+L)/2` two-sided, `L` one-sided -/
noncomputable def target : Confidence Rex → ℝ
  | .twoSided l => (1 + l.val) / 2
  | .upper l => l.val
  | .lower l => l.val

/-! ## 1. quantile_map -/

/-- the model computes `1 − (1−L)/2` for two-sided confidence, which is `(1+L)/2`; `L` one-sided -/
theorem quantile_map (conf : Confidence Rex) : conf.quantile.val = target conf := by
  cases conf
  · exact Confidence.quantile_twoSided_val _
  · rfl
  · rfl

/-- the same on `XR` for the finite levels (the only constructible ones) -/
theorem quantile_map_XR (r : ℝ) :
    (Confidence.twoSided (XR.fin r)).quantile = XR.fin ((1 + r) / 2) ∧
    (Confidence.upper (XR.fin r)).quantile = XR.fin r ∧
    (Confidence.lower (XR.fin r)).quantile = XR.fin r :=
  ⟨Confidence.quantile_twoSided_XR r, rfl, rfl⟩

/-- for a valid level the probability lies strictly inside `(0,1)`, so `inverse_cdf` accepts it -/
theorem target_mem_Ioo (conf : Confidence Rex) (hv : Confidence.validLevel conf.level = true) :
    target conf ∈ Set.Ioo (0 : ℝ) 1 := by
  cases conf <;> simp only [Confidence.validLevel, Confidence.level, Bool.and_eq_true, RR.gt_iff,
    RR.lt_iff, RR.zero_val, RR.one_val] at hv <;> obtain ⟨h0, h1⟩ := hv <;>
    simp only [target, Set.mem_Ioo] <;> constructor <;> linarith

example : Confidence.validLevel (Confidence.twoSided (inj 0.95 : Rex)).level = true := by
  simp [Confidence.validLevel, Confidence.level]; norm_num

/-! ## 2. switch -/

theorem populationLimit_val : (populationLimit : Rex).val = 100000 := by
  simp [populationLimit]

/-- Student-t is asked for exactly below the population limit … -/
theorem critReq_t_iff (conf : Confidence Rex) (dof : Rex) :
    critReq conf dof = .t dof conf.quantile ↔ dof.val < 100000 := by
  unfold critReq
  by_cases h : dof.val < 100000
  · simp [h, populationLimit_val]
  · simp [h, populationLimit_val]

/-- … and the standard normal from the limit on -/
theorem critReq_z_iff (conf : Confidence Rex) (dof : Rex) :
    critReq conf dof = .z conf.quantile ↔ 100000 ≤ dof.val := by
  unfold critReq
  by_cases h : dof.val < 100000
  · simp [h, populationLimit_val]
  · simp [h, populationLimit_val, not_lt.mp h]

/-- `interval_bounds` is `mean ∓ c·sem` where `c` is the answer to exactly the request `critReq` -/
theorem intervalBounds_eq (crit : Crit Rex) (conf : Confidence Rex) (m s dof : Rex)
    (hq : probOk conf.quantile = true) (hd : 0 < dof.val) :
    intervalBounds crit conf m s dof =
      .ok (⟨m.val - (crit (critReq conf dof)).val * s.val⟩,
           ⟨m.val + (crit (critReq conf dof)).val * s.val⟩) := by
  rw [StatsCI.intervalBounds_eq crit conf m s dof hq (fun _ => by simpa using hd)]
  rfl

example : probOk (Confidence.twoSided (inj 0.95 : Rex)).quantile = true ∧ 0 < (inj 3 : Rex).val := by
  refine ⟨Confidence.probOk_of_valid_Rex _ ?_, by simp⟩
  simp [Confidence.validLevel, Confidence.level]; norm_num

/-- no other request reaches the external routine: two oracles that agree on `critReq conf dof`
    give the same outcome (any carrier) -/
theorem intervalBounds_congr {W : Type} [Scalar W] (crit crit' : Crit W) (conf : Confidence W)
    (m s dof : W) (h : crit (critReq conf dof) = crit' (critReq conf dof)) :
    intervalBounds crit conf m s dof = intervalBounds crit' conf m s dof := by
  unfold intervalBounds critReq at *
  by_cases hl : lt dof (populationLimit : W) = true <;>
    by_cases hg : gt dof (zero : W) = true <;>
    by_cases hq : probOk conf.quantile = true <;>
    simp_all [tValue, zValue]

/-- given a probability `inverse_cdf` accepts, `interval_bounds` panics exactly when Student-t is
    asked for with degrees of freedom that are not positive -/
theorem intervalBounds_panic_iff (crit : Crit Rex) (conf : Confidence Rex) (m s dof : Rex)
    (hq : probOk conf.quantile = true) :
    (∃ t, intervalBounds crit conf m s dof = .panic t) ↔ dof.val < 100000 ∧ ¬ 0 < dof.val := by
  rw [← Outcome.isPanic_iff, intervalBounds_isPanic_iff]
  simp only [hq, Bool.true_eq_false, or_false, RR.lt_iff, populationLimit_val]
  rw [← Bool.not_eq_true, RR.gt_iff, RR.zero_val]

/-- and it never answers with a documented error -/
theorem intervalBounds_never_err {W : Type} [Scalar W] (crit : Crit W) (conf : Confidence W)
    (m s dof : W) (e : Err W) : intervalBounds crit conf m s dof ≠ .err e :=
  StatsCI.intervalBounds_never_err crit conf m s dof e

/-! ## 3. dof_sources -/

/-- `Arithmetic::ci_mean` hands on `dof = n − 1` (and `sem = sd/√n`), on every carrier -/
theorem arith_dof {F W : Type} [Scalar F] [Scalar W] [Widen F W] (a : Arith F) (p : Arith.Prep W)
    (h : (Arith.ciPrep a : Outcome (Err W) (Arith.Prep W)) = .ok p) :
    p.dof = sub (Scalar.ofNat a.count) one ∧ p.mean = Widen.up a.mean ∧
    p.sem = div (Widen.up a.stdDev) (sqrt (Scalar.ofNat a.count)) ∧ 2 ≤ a.count := by
  obtain ⟨h2, _, _, rfl⟩ := Arith.ciPrep_eq_ok h
  exact ⟨rfl, rfl, rfl, h2⟩

/-- at exact reals: `dof = n − 1 > 0`, `sem = sd/√n` -/
theorem arith_dof_val (a : Arith Rex) (p : Arith.Prep Rex)
    (h : (Arith.ciPrep a : Outcome (Err Rex) (Arith.Prep Rex)) = .ok p) :
    p.dof.val = (a.count : ℝ) - 1 ∧ 0 < p.dof.val ∧
    p.sem.val = a.stdDev.val / Real.sqrt a.count ∧ p.mean = a.mean := by
  obtain ⟨h1, h2, h3, h4⟩ := arith_dof a p h
  have : (2 : ℝ) ≤ a.count := by exact_mod_cast h4
  refine ⟨by simp [h1], by simp [h1]; linarith, by simp [h3], by simp [h2]⟩

example : (Arith.ciPrep (Arith.fromList [inj 1, inj 2, inj 4] : Arith Rex) :
    Outcome (Err Rex) (Arith.Prep Rex)).isOk = true := by
  have h : (2 : Nat) ≤ (Arith.fromList [inj 1, inj 2, inj 4] : Arith Rex).count := by
    rw [Arith.fromList_count]; simp
  rw [Arith.ciPrep_of_finite _ h rfl rfl]; rfl

/-- `Unpaired::ci_mean` hands on the documented effective degrees of freedom
    `S²/(A²/(n_a+1) + B²/(n_b+1)) − 1 − 1`, `A = s_a²/n_a`, `B = s_b²/n_b`, `S = A + B`, where `A`, `B`
    are computed in the data type and the formula is evaluated in the wide type on the widened `A`,
    `B`, `n_a`, `n_b` and then bounded below by `min(n_a, n_b) − 1` (`Unpaired.clampDof`: a computed
    value below the bound is replaced by it, anything else — a NaN included — passes; in exact
    arithmetic the bound is inactive unless both samples are constant, `unpaired_dof_val`);
    `sem = sqrt(A + B)` is computed in the data type and then widened — on every carrier -/
theorem unpaired_dof {F W : Type} [Scalar F] [Scalar W] [Widen F W] (u : Unpaired F)
    (p : Arith.Prep W) (h : (Unpaired.ciPrep u : Outcome (Err W) (Arith.Prep W)) = .ok p) :
    let A : F := div (mul u.a.stdDev u.a.stdDev) (Scalar.ofNat u.a.count)
    let B : F := div (mul u.b.stdDev u.b.stdDev) (Scalar.ofNat u.b.count)
    let S : F := add A B
    let A' : W := Widen.up A
    let B' : W := Widen.up B
    let S' : W := add A' B'
    p.dof = Unpaired.clampDof (sub (sub (div (mul S' S')
        (add (div (mul A' A') (add (Widen.up (Scalar.ofNat u.a.count : F)) one))
             (div (mul B' B') (add (Widen.up (Scalar.ofNat u.b.count : F)) one)))) one) one)
        (Widen.up (Scalar.ofNat u.a.count : F)) (Widen.up (Scalar.ofNat u.b.count : F)) ∧
    p.sem = Widen.up (sqrt S) ∧ p.mean = Widen.up (sub u.a.mean u.b.mean) ∧
    2 ≤ u.a.count ∧ 2 ≤ u.b.count := by
  obtain ⟨h1, h2, _, _, rfl⟩ := Unpaired.ciPrep_eq_ok h
  exact ⟨rfl, rfl, rfl, h1, h2⟩

/-- at exact reals, as a formula -/
theorem unpaired_dof_val (u : Unpaired Rex) (p : Arith.Prep Rex)
    (h : (Unpaired.ciPrep u : Outcome (Err Rex) (Arith.Prep Rex)) = .ok p) :
    let A : ℝ := u.a.stdDev.val * u.a.stdDev.val / u.a.count
    let B : ℝ := u.b.stdDev.val * u.b.stdDev.val / u.b.count
    p.dof.val = max ((A + B) * (A + B) / (A * A / (u.a.count + 1) + B * B / (u.b.count + 1)) - 1 - 1)
      (min (u.a.count : ℝ) u.b.count - 1) ∧
    (0 < A + B → p.dof.val =
      (A + B) * (A + B) / (A * A / (u.a.count + 1) + B * B / (u.b.count + 1)) - 1 - 1) ∧
    p.sem.val = Real.sqrt (A + B) ∧ p.mean.val = u.a.mean.val - u.b.mean.val := by
  obtain ⟨h1, h2, h3, ha, hb⟩ := unpaired_dof u p h
  have hd : p.dof.val = max ((u.a.stdDev.val * u.a.stdDev.val / u.a.count +
        u.b.stdDev.val * u.b.stdDev.val / u.b.count) * (u.a.stdDev.val * u.a.stdDev.val / u.a.count +
        u.b.stdDev.val * u.b.stdDev.val / u.b.count) /
        (u.a.stdDev.val * u.a.stdDev.val / u.a.count * (u.a.stdDev.val * u.a.stdDev.val / u.a.count) /
          (u.a.count + 1) +
          u.b.stdDev.val * u.b.stdDev.val / u.b.count * (u.b.stdDev.val * u.b.stdDev.val / u.b.count) /
          (u.b.count + 1)) - 1 - 1) (min (u.a.count : ℝ) u.b.count - 1) := by
    rw [h1, Unpaired.clampDof_val]; simp
  refine ⟨hd, fun hpos => ?_, by simp [h2], by simp [h3]⟩
  rw [hd]
  have hna : (2 : ℝ) ≤ u.a.count := by exact_mod_cast ha
  have hnb : (2 : ℝ) ≤ u.b.count := by exact_mod_cast hb
  have hA0 : 0 ≤ u.a.stdDev.val * u.a.stdDev.val / u.a.count :=
    div_nonneg (mul_self_nonneg _) (by linarith)
  have hB0 : 0 ≤ u.b.stdDev.val * u.b.stdDev.val / u.b.count :=
    div_nonneg (mul_self_nonneg _) (by linarith)
  have hge := StatsCI.MeanLemmas.welchDof_ge _ _ _ _ hna hnb hA0 hB0 hpos
  apply max_eq_left
  have e : StatsCI.MeanLemmas.welchDof (u.a.stdDev.val * u.a.stdDev.val / u.a.count)
      (u.b.stdDev.val * u.b.stdDev.val / u.b.count) u.a.count u.b.count =
      (u.a.stdDev.val * u.a.stdDev.val / u.a.count + u.b.stdDev.val * u.b.stdDev.val / u.b.count) *
        (u.a.stdDev.val * u.a.stdDev.val / u.a.count + u.b.stdDev.val * u.b.stdDev.val / u.b.count) /
        (u.a.stdDev.val * u.a.stdDev.val / u.a.count * (u.a.stdDev.val * u.a.stdDev.val / u.a.count) /
          (u.a.count + 1) +
          u.b.stdDev.val * u.b.stdDev.val / u.b.count * (u.b.stdDev.val * u.b.stdDev.val / u.b.count) /
          (u.b.count + 1)) - 1 - 1 := by
    unfold StatsCI.MeanLemmas.welchDof; ring
  rw [← e]; exact hge

/-- `Paired::ci_mean` is `Arithmetic::ci_mean` of the differences: `dof = n − 1` again -/
theorem paired_is_arith {F W : Type} [Scalar F] [Scalar W] [Widen F W] (crit : Crit W)
    (p : Paired F) (conf : Confidence W) : p.ciMean crit conf = p.stats.ciMean crit conf := rfl

/-! ## 4. inverse -/

/-- a critical-value oracle that implements quantile functions `Qt ν` (Student-t) and `Qz` (normal) -/
def Implements (crit : Crit Rex) (Qt : ℝ → ℝ → ℝ) (Qz : ℝ → ℝ) : Prop :=
  (∀ dof p : Rex, (crit (.t dof p)).val = Qt dof.val p.val) ∧ (∀ p : Rex, (crit (.z p)).val = Qz p.val)

/-- IF the external routines are right inverses of the CDFs `Ft ν` (for `ν > 0`) and `Φ` on `(0,1)`
    THEN the critical value `c` with which `interval_bounds` builds `mean ∓ c·sem` satisfies
    `Ft dof c = (1+L)/2` resp. `L` below the population limit and `Φ c =` the same from it on. -/
theorem inverse (Ft Qt : ℝ → ℝ → ℝ) (Φ Qz : ℝ → ℝ)
    (hQt : ∀ ν : ℝ, 0 < ν → ∀ p ∈ Set.Ioo (0 : ℝ) 1, Ft ν (Qt ν p) = p)
    (hQz : ∀ p ∈ Set.Ioo (0 : ℝ) 1, Φ (Qz p) = p)
    (crit : Crit Rex) (hc : Implements crit Qt Qz)
    (conf : Confidence Rex) (hv : Confidence.validLevel conf.level = true)
    (m s dof : Rex) (hd : 0 < dof.val) :
    ∃ c : ℝ, intervalBounds crit conf m s dof = .ok (⟨m.val - c * s.val⟩, ⟨m.val + c * s.val⟩) ∧
      (dof.val < 100000 → Ft dof.val c = target conf) ∧
      (100000 ≤ dof.val → Φ c = target conf) := by
  have hq := Confidence.probOk_of_valid_Rex conf hv
  have ht := target_mem_Ioo conf hv
  refine ⟨(crit (critReq conf dof)).val, intervalBounds_eq crit conf m s dof hq hd, ?_, ?_⟩
  · intro hl
    rw [(critReq_t_iff conf dof).mpr hl, hc.1, quantile_map]
    exact hQt _ hd _ ht
  · intro hl
    rw [(critReq_z_iff conf dof).mpr hl, hc.2, quantile_map]
    exact hQz _ ht

/-- the hypotheses of `inverse` are satisfiable: the logistic distribution `F x = 1/(1+e^{-x})` with
    its quantile function `Q p = ln(p/(1−p))` (for every `ν`), and an oracle implementing it -/
example : ∃ (Ft Qt : ℝ → ℝ → ℝ) (Φ Qz : ℝ → ℝ) (crit : Crit Rex),
    (∀ ν : ℝ, 0 < ν → ∀ p ∈ Set.Ioo (0 : ℝ) 1, Ft ν (Qt ν p) = p) ∧
    (∀ p ∈ Set.Ioo (0 : ℝ) 1, Φ (Qz p) = p) ∧ Implements crit Qt Qz := by
  have key : ∀ p ∈ Set.Ioo (0 : ℝ) 1, 1 / (1 + Real.exp (-Real.log (p / (1 - p)))) = p := by
    intro p ⟨h0, h1⟩
    have h1p : 0 < 1 - p := by linarith
    rw [Real.exp_neg, Real.exp_log (div_pos h0 h1p)]
    field_simp
    ring
  refine ⟨fun _ x => 1 / (1 + Real.exp (-x)), fun _ p => Real.log (p / (1 - p)),
    fun x => 1 / (1 + Real.exp (-x)), fun p => Real.log (p / (1 - p)),
    fun r => match r with
      | .t _ p => ⟨Real.log (p.val / (1 - p.val))⟩
      | .z p => ⟨Real.log (p.val / (1 - p.val))⟩,
    fun _ _ p hp => key p hp, key, fun _ _ => rfl, fun _ => rfl⟩

/-! ## 5. implied_c -/

/-- the standard error `ci_mean` uses: `sd/√n` -/
noncomputable def semOf (a : Arith Rex) : ℝ := a.stdDev.val / Real.sqrt a.count

/-- the critical value `ci_mean` uses: the oracle's answer to the request for `dof = n − 1` -/
noncomputable def cOf (crit : Crit Rex) (a : Arith Rex) (conf : Confidence Rex) : ℝ :=
  (crit (critReq conf (inj ((a.count : ℝ) - 1)))).val

/-- every `Ok` of `Arithmetic::ci_mean` at exact reals is `mean ∓ c·sem`, `c` the answer to the one
    request `critReq conf (n−1)`; in particular `Ok` implies the guards passed -/
theorem arith_ok_bounds (crit : Crit Rex) (a : Arith Rex) (conf : Confidence Rex) (i : Interval Rex)
    (h : Arith.ciMean crit a conf = .ok i) :
    2 ≤ a.count ∧ probOk conf.quantile = true ∧
    (conf.kind = .twoSided → i = .twoSided ⟨a.mean.val - cOf crit a conf * semOf a⟩
        ⟨a.mean.val + cOf crit a conf * semOf a⟩) ∧
    (conf.kind = .upper → i = .upper ⟨a.mean.val - cOf crit a conf * semOf a⟩) ∧
    (conf.kind = .lower → i = .lower ⟨a.mean.val + cOf crit a conf * semOf a⟩) := by
  obtain ⟨h2, hm, hs, _⟩ := Arith.ciMean_eq_ok h
  have hq : probOk conf.quantile = true := by
    by_contra hq
    have hp : (Arith.ciMean crit a conf).isPanic = true :=
      (Arith.ciMean_isPanic_iff crit a conf).mpr ⟨h2, hm, hs, Or.inr (by simpa using hq)⟩
    rw [h] at hp; cases hp
  rw [Arith.ciMean_eq crit a conf h2 hm hs hq] at h
  obtain ⟨h1, hu, hl⟩ := intervalOfKind_eq_ok h
  refine ⟨h2, hq, fun hk => ?_, fun hk => ?_, fun hk => ?_⟩
  · exact (h1 hk).1
  · exact hu hk
  · exact hl hk

/-- two-sided: the critical value is half the width over the standard error -/
theorem implied_c_twoSided (crit : Crit Rex) (a : Arith Rex) (l lo hi : Rex)
    (h : Arith.ciMean crit a (.twoSided l) = .ok (.twoSided lo hi)) (hsem : semOf a ≠ 0) :
    (hi.val - lo.val) / 2 / semOf a = cOf crit a (.twoSided l) := by
  obtain ⟨_, _, h1, _, _⟩ := arith_ok_bounds crit a _ _ h
  have := h1 rfl
  simp only [Interval.twoSided.injEq] at this
  obtain ⟨rfl, rfl⟩ := this
  field_simp
  ring

/-- upper one-sided `[lo, ∞)`: `(mean − lo)/sem` -/
theorem implied_c_upper (crit : Crit Rex) (a : Arith Rex) (l lo : Rex)
    (h : Arith.ciMean crit a (.upper l) = .ok (.upper lo)) (hsem : semOf a ≠ 0) :
    (a.mean.val - lo.val) / semOf a = cOf crit a (.upper l) := by
  obtain ⟨_, _, _, h1, _⟩ := arith_ok_bounds crit a _ _ h
  have := h1 rfl
  simp only [Interval.upper.injEq] at this
  subst this
  field_simp
  ring

/-- lower one-sided `(−∞, hi]`: `(hi − mean)/sem` -/
theorem implied_c_lower (crit : Crit Rex) (a : Arith Rex) (l hi : Rex)
    (h : Arith.ciMean crit a (.lower l) = .ok (.lower hi)) (hsem : semOf a ≠ 0) :
    (hi.val - a.mean.val) / semOf a = cOf crit a (.lower l) := by
  obtain ⟨_, _, _, _, h1⟩ := arith_ok_bounds crit a _ _ h
  have := h1 rfl
  simp only [Interval.lower.injEq] at this
  subst this
  field_simp
  ring

/-- the hypotheses are satisfiable: the sample `1, 2` (a reachable state) with `c = 2` gives an `Ok`
    two-sided interval and a non-zero standard error, at a valid level -/
example : Examples.a12 = Arith.fromList [inj 1, inj 2] ∧
    Confidence.validLevel (inj 0.95 : Rex) = true ∧
    ∃ lo hi : Rex,
      Arith.ciMean (constCrit 2 : Crit Rex) Examples.a12 (.twoSided (inj 0.95)) = .ok (.twoSided lo hi) ∧
      semOf Examples.a12 ≠ 0 :=
  ⟨Examples.a12_reachable, Examples.conf95_valid, Examples.arith_ok⟩

/-! ## the headline: the CDF at the implied critical value -/

/-- two-sided `Arithmetic::ci_mean` (hence `Paired::ci_mean`): IF the external routines invert the
    CDFs THEN the critical value read off the returned interval, `(hi − lo)/2/sem`, has CDF value
    `(1+L)/2` — Student-t with `n − 1` degrees of freedom below the limit, normal from it on -/
theorem arith_twoSided_cdf (Ft Qt : ℝ → ℝ → ℝ) (Φ Qz : ℝ → ℝ)
    (hQt : ∀ ν : ℝ, 0 < ν → ∀ p ∈ Set.Ioo (0 : ℝ) 1, Ft ν (Qt ν p) = p)
    (hQz : ∀ p ∈ Set.Ioo (0 : ℝ) 1, Φ (Qz p) = p)
    (crit : Crit Rex) (hc : Implements crit Qt Qz)
    (a : Arith Rex) (l lo hi : Rex) (hv : Confidence.validLevel l = true)
    (h : Arith.ciMean crit a (.twoSided l) = .ok (.twoSided lo hi)) (hsem : semOf a ≠ 0) :
    ((a.count : ℝ) - 1 < 100000 →
      Ft ((a.count : ℝ) - 1) ((hi.val - lo.val) / 2 / semOf a) = (1 + l.val) / 2) ∧
    (100000 ≤ (a.count : ℝ) - 1 → Φ ((hi.val - lo.val) / 2 / semOf a) = (1 + l.val) / 2) := by
  rw [implied_c_twoSided crit a l lo hi h hsem]
  obtain ⟨h2, _⟩ := arith_ok_bounds crit a _ _ h
  have hd : 0 < (inj ((a.count : ℝ) - 1) : Rex).val := by
    have : (2 : ℝ) ≤ a.count := by exact_mod_cast h2
    simp; linarith
  obtain ⟨c, hb, h1, h2⟩ := inverse Ft Qt Φ Qz hQt hQz crit hc (.twoSided l) hv (inj 0) (inj 1)
    (inj ((a.count : ℝ) - 1)) hd
  rw [intervalBounds_eq crit _ _ _ _ (Confidence.probOk_of_valid_Rex (.twoSided l) hv) hd] at hb
  have hc' : c = cOf crit a (.twoSided l) := by
    simp only [Outcome.ok.injEq, Prod.mk.injEq, RR.mk.injEq, inj_val] at hb
    have := hb.2
    unfold cOf
    linarith
  rw [← hc']
  exact ⟨h1, h2⟩

/-- one-sided `Arithmetic::ci_mean`: the CDF at `(mean − lo)/sem` resp. `(hi − mean)/sem` is `L` -/
theorem arith_oneSided_cdf (Ft Qt : ℝ → ℝ → ℝ) (Φ Qz : ℝ → ℝ)
    (hQt : ∀ ν : ℝ, 0 < ν → ∀ p ∈ Set.Ioo (0 : ℝ) 1, Ft ν (Qt ν p) = p)
    (hQz : ∀ p ∈ Set.Ioo (0 : ℝ) 1, Φ (Qz p) = p)
    (crit : Crit Rex) (hc : Implements crit Qt Qz)
    (a : Arith Rex) (l b : Rex) (hv : Confidence.validLevel l = true) (hsem : semOf a ≠ 0) :
    (Arith.ciMean crit a (.upper l) = .ok (.upper b) →
      ((a.count : ℝ) - 1 < 100000 → Ft ((a.count : ℝ) - 1) ((a.mean.val - b.val) / semOf a) = l.val) ∧
      (100000 ≤ (a.count : ℝ) - 1 → Φ ((a.mean.val - b.val) / semOf a) = l.val)) ∧
    (Arith.ciMean crit a (.lower l) = .ok (.lower b) →
      ((a.count : ℝ) - 1 < 100000 → Ft ((a.count : ℝ) - 1) ((b.val - a.mean.val) / semOf a) = l.val) ∧
      (100000 ≤ (a.count : ℝ) - 1 → Φ ((b.val - a.mean.val) / semOf a) = l.val)) := by
  have aux : ∀ conf : Confidence Rex, Confidence.validLevel conf.level = true → 2 ≤ a.count →
      ((a.count : ℝ) - 1 < 100000 → Ft ((a.count : ℝ) - 1) (cOf crit a conf) = target conf) ∧
      (100000 ≤ (a.count : ℝ) - 1 → Φ (cOf crit a conf) = target conf) := by
    intro conf hv' h2
    have hd : 0 < (inj ((a.count : ℝ) - 1) : Rex).val := by
      have : (2 : ℝ) ≤ a.count := by exact_mod_cast h2
      simp; linarith
    obtain ⟨c, hb, h1, h2⟩ := inverse Ft Qt Φ Qz hQt hQz crit hc conf hv' (inj 0) (inj 1)
      (inj ((a.count : ℝ) - 1)) hd
    rw [intervalBounds_eq crit _ _ _ _ (Confidence.probOk_of_valid_Rex conf hv') hd] at hb
    have hc' : c = cOf crit a conf := by
      simp only [Outcome.ok.injEq, Prod.mk.injEq, RR.mk.injEq, inj_val] at hb
      have := hb.2
      unfold cOf
      linarith
    rw [← hc']
    exact ⟨h1, h2⟩
  constructor
  · intro h
    rw [implied_c_upper crit a l b h hsem]
    exact aux (.upper l) hv (arith_ok_bounds crit a _ _ h).1
  · intro h
    rw [implied_c_lower crit a l b h hsem]
    exact aux (.lower l) hv (arith_ok_bounds crit a _ _ h).1

/-! ## comparisons and proportions -/

/-- `Unpaired::ci_mean` on a state that passes the guards builds `Δmean ∓ c·sem` with `c` the answer
    to the request for the *effective* degrees of freedom (`unpaired_dof`), on every carrier -/
theorem unpaired_uses_effective_dof {F W : Type} [Scalar F] [Scalar W] [Widen F W]
    (crit : Crit W) (u : Unpaired F) (conf : Confidence W) (i : Interval F)
    (h : Unpaired.ciMean crit u conf = .ok i) :
    ∃ p : Arith.Prep W, (Unpaired.ciPrep u : Outcome (Err W) (Arith.Prep W)) = .ok p ∧
      p.dof = Unpaired.dofW u ∧
      intervalBounds crit conf p.mean p.sem p.dof =
        .ok (sub p.mean (mul (crit (critReq conf p.dof)) p.sem),
             add p.mean (mul (crit (critReq conf p.dof)) p.sem)) := by
  unfold Unpaired.ciMean at h
  obtain ⟨p, hp, h⟩ := Outcome.bind_eq_ok h
  obtain ⟨b, hb, _⟩ := Outcome.bind_eq_ok h
  obtain ⟨_, _, _, _, hp'⟩ := Unpaired.ciPrep_eq_ok hp
  refine ⟨p, hp, by rw [hp'], ?_⟩
  have hnp : (intervalBounds crit conf p.mean p.sem p.dof).isPanic = false := by rw [hb]; rfl
  have hiff := intervalBounds_isPanic_iff crit conf p.mean p.sem p.dof
  have hq : probOk conf.quantile = true := by
    by_contra hq
    have := hiff.mpr (Or.inr (by simpa using hq))
    rw [hnp] at this; cases this
  refine StatsCI.intervalBounds_eq crit conf _ _ _ hq fun hl => ?_
  by_contra hg
  have := hiff.mpr (Or.inl ⟨hl, by simpa using hg⟩)
  rw [hnp] at this; cases this

/-- every `Ok` of `Unpaired::ci_mean` at exact reals is `Δmean ∓ c·sem` with `c` the answer to the
    request for the effective degrees of freedom `ν`, and `ν > 0` -/
theorem unpaired_ok_bounds (crit : Crit Rex) (u : Unpaired Rex) (conf : Confidence Rex)
    (i : Interval Rex) (h : Unpaired.ciMean crit u conf = .ok i) :
    0 < (Unpaired.dofF u).val ∧ probOk conf.quantile = true ∧
    (conf.kind = .twoSided → i = .twoSided
        ⟨(Unpaired.meanDiff u).val - (crit (critReq conf (Unpaired.dofF u))).val * (Unpaired.semF u).val⟩
        ⟨(Unpaired.meanDiff u).val + (crit (critReq conf (Unpaired.dofF u))).val * (Unpaired.semF u).val⟩) ∧
    (conf.kind = .upper → i = .upper
        ⟨(Unpaired.meanDiff u).val - (crit (critReq conf (Unpaired.dofF u))).val * (Unpaired.semF u).val⟩) ∧
    (conf.kind = .lower → i = .lower
        ⟨(Unpaired.meanDiff u).val + (crit (critReq conf (Unpaired.dofF u))).val * (Unpaired.semF u).val⟩) := by
  obtain ⟨h1, h2, h3, h4, _⟩ := Unpaired.ciMean_eq_ok h
  have hnp : (Unpaired.ciMean crit u conf).isPanic = false := by rw [h]; rfl
  have hiff := Unpaired.ciMean_isPanic_iff crit u conf
  rw [Unpaired.dofW_eq_dofF_RR] at hiff
  have hq : probOk conf.quantile = true := by
    by_contra hq
    have := hiff.mpr ⟨h1, h2, h3, h4, Or.inr (by simpa using hq)⟩
    rw [hnp] at this; cases this
  have hd : 0 < (Unpaired.dofF u).val := by
    by_contra hd
    have hlt : (Unpaired.dofF u).val < 100000 := by linarith [not_lt.mp hd]
    have := hiff.mpr ⟨h1, h2, h3, h4, Or.inl ⟨by simpa [populationLimit_val] using hlt, by
      rw [← Bool.not_eq_true, RR.gt_iff]; simpa using hd⟩⟩
    rw [hnp] at this; cases this
  rw [Unpaired.ciMean_eq crit u conf h1 h2 h3 h4 hq
    (fun _ => by rw [Unpaired.dofW_eq_dofF_RR]; simpa using hd)] at h
  obtain ⟨k1, ku, kl⟩ := intervalOfKind_eq_ok h
  exact ⟨hd, hq, fun hk => (k1 hk).1, ku, kl⟩

/-- two-sided `Unpaired::ci_mean`: IF the external routines invert the CDFs THEN the critical value
    read off the returned interval, `(hi − lo)/2/sem`, has CDF value `(1+L)/2` — Student-t with the
    real-valued effective degrees of freedom `ν` (`unpaired_dof_val`) below the limit, normal from it on -/
theorem unpaired_twoSided_cdf (Ft Qt : ℝ → ℝ → ℝ) (Φ Qz : ℝ → ℝ)
    (hQt : ∀ ν : ℝ, 0 < ν → ∀ p ∈ Set.Ioo (0 : ℝ) 1, Ft ν (Qt ν p) = p)
    (hQz : ∀ p ∈ Set.Ioo (0 : ℝ) 1, Φ (Qz p) = p)
    (crit : Crit Rex) (hc : Implements crit Qt Qz)
    (u : Unpaired Rex) (l lo hi : Rex) (hv : Confidence.validLevel l = true)
    (h : Unpaired.ciMean crit u (.twoSided l) = .ok (.twoSided lo hi))
    (hsem : (Unpaired.semF u).val ≠ 0) :
    ((Unpaired.dofF u).val < 100000 →
      Ft (Unpaired.dofF u).val ((hi.val - lo.val) / 2 / (Unpaired.semF u).val) = (1 + l.val) / 2) ∧
    (100000 ≤ (Unpaired.dofF u).val →
      Φ ((hi.val - lo.val) / 2 / (Unpaired.semF u).val) = (1 + l.val) / 2) := by
  obtain ⟨hd, hq, h1, _, _⟩ := unpaired_ok_bounds crit u _ _ h
  have := h1 rfl
  simp only [Interval.twoSided.injEq] at this
  obtain ⟨rfl, rfl⟩ := this
  have hcv : ((Unpaired.meanDiff u).val +
        (crit (critReq (.twoSided l) (Unpaired.dofF u))).val * (Unpaired.semF u).val -
      ((Unpaired.meanDiff u).val -
        (crit (critReq (.twoSided l) (Unpaired.dofF u))).val * (Unpaired.semF u).val)) / 2 /
      (Unpaired.semF u).val = (crit (critReq (.twoSided l) (Unpaired.dofF u))).val := by
    field_simp; ring
  rw [hcv]
  obtain ⟨c, hb, k1, k2⟩ := inverse Ft Qt Φ Qz hQt hQz crit hc (.twoSided l) hv (inj 0) (inj 1)
    (Unpaired.dofF u) hd
  rw [intervalBounds_eq crit _ _ _ _ hq hd] at hb
  have hc' : c = (crit (critReq (.twoSided l) (Unpaired.dofF u))).val := by
    simp only [Outcome.ok.injEq, Prod.mk.injEq, RR.mk.injEq, inj_val] at hb
    have := hb.2
    linarith
  rw [← hc']
  exact ⟨k1, k2⟩

/-- the hypotheses are satisfiable: the samples `1, 2` and `1, 2` with `c = 2` -/
example : ∃ lo hi : Rex,
    Unpaired.ciMean (constCrit 2 : Crit Rex) ⟨Examples.a12, Examples.a12⟩ (.twoSided (inj 0.95)) =
      .ok (.twoSided lo hi) ∧
    (Unpaired.semF (⟨Examples.a12, Examples.a12⟩ : Unpaired Rex)).val ≠ 0 := Examples.unpaired_ok

/-- the `z` of a proportion interval: `ci_wilson` asks the normal quantile for the same probability,
    once; under the inverse hypothesis `Φ z = (1+L)/2` resp. `L`. (`ci_wilson` clamps its bounds into
    `[0, 1]`; in exact arithmetic both Wilson roots are proportions, so the clamp is inert and the
    result is still the plain constructor `finish` on centre ∓ span at that `z`:
    `Wilson.ciWilson_of_domain`.) -/
theorem proportion_z (Φ Qz : ℝ → ℝ) (hQz : ∀ p ∈ Set.Ioo (0 : ℝ) 1, Φ (Qz p) = p)
    (crit : Crit Rex) (hcz : ∀ p : Rex, (crit (.z p)).val = Qz p.val)
    (conf : Confidence Rex) (hv : Confidence.validLevel conf.level = true) :
    zValue crit conf = .ok (crit (.z conf.quantile)) ∧
    Φ (crit (.z conf.quantile)).val = target conf ∧
    (∀ n k : Nat, k ≤ n → 2 ≤ k → 2 ≤ n - k →
      Proportion.ciWilson crit conf n k =
        Proportion.finish conf
          (Proportion.wilsonCentre (Scalar.ofNat n) (Scalar.ofNat k) (crit (.z conf.quantile)))
          (Proportion.wilsonSpan (Scalar.ofNat n) (Scalar.ofNat k) (crit (.z conf.quantile)))) ∧
    (∀ n k : Nat, k ≤ n → 10 ≤ k → 10 ≤ n - k →
      Proportion.ciZNormal crit conf n k =
        Proportion.finish conf (Proportion.waldP n k)
          (mul (crit (.z conf.quantile)) (Proportion.waldSd n k))) := by
  have hq := Confidence.probOk_of_valid_Rex conf hv
  refine ⟨zValue_eq crit conf hq, ?_, ?_, ?_⟩
  · rw [hcz, quantile_map]; exact hQz _ (target_mem_Ioo conf hv)
  · intro n k h1 h2 h3
    have hl : 0 < conf.level.val ∧ conf.level.val < 1 := by
      simpa [Confidence.validLevel] using hv
    exact Wilson.ciWilson_of_domain crit conf hl.1 hl.2 n k h2 (by omega)
  · intro n k h1 h2 h3
    rcases Proportion.ciZNormal_cases crit conf n k with ⟨h, _⟩ | ⟨_, h, _⟩ | ⟨_, _, h, _⟩ | ⟨_, _, _, h⟩
    · omega
    · omega
    · omega
    · rw [h, zValue_eq crit conf hq]; rfl

end StatsCI.C06
