/-
  C10 — Coherence of every interval producer across confidence kinds and levels.

  Producers: `Arith.ciMean`, `Paired.ciMean`, `Unpaired.ciMean`, `Geometric.ciMean`,
  `Harmonic.ciMean`, `Proportion.ciWilson`, `Proportion.ciZNormal`, `Quantile.ciIndices`
  (the model functions themselves). Unless a theorem says "any carrier", the setting is exact real
  arithmetic `Rex = RR id`, with the external quantile routine `crit : Crit Rex` a parameter.

  What is assumed about `crit` is always an explicit hypothesis (`Lemmas/Coherence.lean`):
  * `CritMono crit`: `p ≤ q → crit (.t dof p) ≤ crit (.t dof q)` for every `dof`, and the same for `.z`;
  * `CritHalf crit`: `crit (.t dof ⟨1/2⟩) = 0` for every `dof`, and `crit (.z ⟨1/2⟩) = 0`;
  that `crit` depends on its argument only through `.val` is automatic (`RR.ext'`).
  `linCrit` (`p ↦ p − 1/2`) satisfies both (non-vacuity).

  Vocabulary:
  * `ValidLevel conf`: `0 < level < 1` (`QSpec`);
  * `KindMatch conf I`: `I` is `.twoSided _ _` / `.upper _` / `.lower _` according to the kind of
    `conf` (`kindMatch_def`);  `PropKindMatch conf I`: `I` is `.twoSided lo hi`, `.twoSided lo 1`,
    `.twoSided 0 hi` (`propKindMatch_def`);
  * `cOf crit conf dof = (crit (critReq conf dof)).val`, `zOf crit conf = (crit (.z conf.quantile)).val`;
  * `lowerR n k z`, `upperR n k z`: the model's Wilson ends `centre ∓ span` at `Rex` (`WilsonMono`);
  * `PosBounds J`: every finite bound of the reciprocal-space interval `J` is `> 0` (there the
    model's `Harmonic.recipBound r` is `1/r`; elsewhere it is `+∞`, which `Rex` does not represent).

  Summary of what holds with *fewer* hypotheses than the informal property asks for:
  * items 1, 2 hold for every real `L` (not only `1/2 < L < 1`), every state, every oracle (for the
    quantile ranks `1/2 < L < 1` is used);
  * nesting (item 3) needs only `CritMono` — no sign condition on the critical value: a two-sided
    success forces `c·sem ≥ 0` resp. `z ≥ 0`, and the one-sided bounds are monotone in the critical
    value over all of ℝ (for Wilson: `lowerR_anti`, `upperR_mono`);
  * a two-sided interval that is returned contains the point estimate whatever `crit` is; only the
    one-sided kinds need `c ≥ 0` (which follows from `CritMono`, `CritHalf` and `L ≥ 1/2`).
-/
import StatsCI.Lemmas.Coherence
import StatsCI.Properties.C03
import StatsCI.Properties.C04

namespace StatsCI.C10
open StatsCI NumOps Scalar Proportion QSpec Coherence MeanLemmas WilsonMono

/-! ## 0. vocabulary -/

/-- `KindMatch`, unfolded -/
theorem kindMatch_def {W α : Type} (conf : Confidence W) (I : Interval α) :
    KindMatch conf I ↔
      match conf with
      | .twoSided _ => ∃ lo hi, I = .twoSided lo hi
      | .upper _ => ∃ lo, I = .upper lo
      | .lower _ => ∃ hi, I = .lower hi := by
  cases conf <;> rfl

/-- `PropKindMatch`, unfolded: the far end of a one-sided proportion interval is exactly `1` / `0` -/
theorem propKindMatch_def {W α : Type} [NumOps α] (conf : Confidence W) (I : Interval α) :
    PropKindMatch conf I ↔
      match conf with
      | .twoSided _ => ∃ lo hi, I = .twoSided lo hi
      | .upper _ => ∃ lo, I = .twoSided lo (one : α)
      | .lower _ => ∃ hi, I = .twoSided (zero : α) hi := by
  cases conf <;> rfl

/-- what `CritMono` and `CritHalf` give: a non-negative critical value (Student or normal, any
    degrees of freedom) for a valid two-sided confidence and for a one-sided one at level `≥ 1/2` -/
theorem crit_nonneg_of_level {crit : Crit Rex} (hm : CritMono crit) (hh : CritHalf crit)
    (conf : Confidence Rex) (hv : ValidLevel conf)
    (hs : conf.isTwoSided = true ∨ 1 / 2 ≤ conf.level.val) :
    (∀ dof : Rex, 0 ≤ (crit (critReq conf dof)).val) ∧ 0 ≤ (crit (.z conf.quantile)).val :=
  ⟨fun dof => cOf_nonneg hm hh conf dof (half_le_quantile conf hv.1.le hs),
   zOf_nonneg hm hh conf (half_le_quantile conf hv.1.le hs)⟩

/-- monotonicity of the requested critical value in the level, within a kind -/
theorem crit_mono_of_level {crit : Crit Rex} (hm : CritMono crit) (c₁ c₂ : Confidence Rex)
    (hk : c₁.kind = c₂.kind) (hl : c₁.level.val ≤ c₂.level.val) :
    (∀ dof : Rex, (crit (critReq c₁ dof)).val ≤ (crit (critReq c₂ dof)).val) ∧
    (crit (.z c₁.quantile)).val ≤ (crit (.z c₂.quantile)).val :=
  ⟨fun dof => cOf_mono hm c₁ c₂ dof (quantile_le_of_level c₁ c₂ hk hl),
   zOf_mono hm c₁ c₂ (quantile_le_of_level c₁ c₂ hk hl)⟩

/-! ## 1. the one-sided confidence at `L` and the two-sided one at `2L − 1` ask the same question -/

/-- as `Rex` values: `1 − (1 − (2L−1))/(1+1) = L`, for every real `L` -/
theorem quantile_one_vs_two (L : ℝ) :
    (Confidence.upper ⟨L⟩ : Confidence Rex).quantile = (Confidence.twoSided ⟨2 * L - 1⟩).quantile ∧
    (Confidence.lower ⟨L⟩ : Confidence Rex).quantile = (Confidence.twoSided ⟨2 * L - 1⟩).quantile := by
  rw [quantile_two]; exact ⟨rfl, rfl⟩

/-- hence the same request is made to the external routine, at every `dof` -/
theorem critReq_one_vs_two (L : ℝ) (dof : Rex) :
    critReq (.upper ⟨L⟩) dof = critReq (.twoSided ⟨2 * L - 1⟩) dof ∧
    critReq (.lower ⟨L⟩) dof = critReq (.twoSided ⟨2 * L - 1⟩) dof :=
  ⟨critReq_congr _ _ (quantile_one_vs_two L).1 dof, critReq_congr _ _ (quantile_one_vs_two L).2 dof⟩

/-- and `z_value`, `t_value`, `interval_bounds` coincide (value, error or panic alike) -/
theorem intervalBounds_one_vs_two (crit : Crit Rex) (L : ℝ) (m s dof : Rex) :
    zValue crit (.upper ⟨L⟩) = zValue crit (.twoSided ⟨2 * L - 1⟩) ∧
    tValue crit (.upper ⟨L⟩) dof = tValue crit (.twoSided ⟨2 * L - 1⟩) dof ∧
    intervalBounds crit (.upper ⟨L⟩) m s dof = intervalBounds crit (.twoSided ⟨2 * L - 1⟩) m s dof ∧
    intervalBounds crit (.lower ⟨L⟩) m s dof = intervalBounds crit (.twoSided ⟨2 * L - 1⟩) m s dof := by
  refine ⟨?_, ?_, intervalBounds_congr crit _ _ (quantile_one_vs_two L).1 m s dof,
    intervalBounds_congr crit _ _ (quantile_one_vs_two L).2 m s dof⟩
  · simp only [zValue, (quantile_one_vs_two L).1]
  · simp only [tValue, (quantile_one_vs_two L).1]

/-! ## 2. the finite bound of the one-sided interval at `L` is the bound of the two-sided one at `2L − 1` -/

/-- what the common-bounds form (`*_bounds` below) entails, stated once: the two-sided result
    determines both one-sided results; the one-sided results determine the two-sided outcome
    (which additionally passes `Interval::new`); one one-sided call succeeds iff the other does;
    errors and panics are shared -/
theorem one_vs_two_of_bounds {W α : Type} [Cmp α] (B : Outcome (Err W) (α × α))
    (two up low : Outcome (Err W) (Interval α))
    (h2 : two = B.bind (fun b => liftI (Interval.new b.1 b.2)))
    (hu : up = B.map (fun b => Interval.upper b.1))
    (hl : low = B.map (fun b => Interval.lower b.2)) :
    (∀ lo hi, two = .ok (.twoSided lo hi) → up = .ok (.upper lo) ∧ low = .ok (.lower hi)) ∧
    (∀ lo hi, up = .ok (.upper lo) → low = .ok (.lower hi) →
      two = liftI (Interval.new lo hi)) ∧
    (∀ lo, up = .ok (.upper lo) → ∃ hi, low = .ok (.lower hi)) ∧
    (∀ hi, low = .ok (.lower hi) → ∃ lo, up = .ok (.upper lo)) ∧
    (∀ e, up = .err e ↔ low = .err e) ∧ (∀ e, up = .err e → two = .err e) ∧
    (∀ t, up = .panic t ↔ low = .panic t) ∧ (∀ t, up = .panic t → two = .panic t) :=
  common_bounds_cases B two up low h2 hu hl

/-- **Arithmetic, any carrier.** Whenever the one-sided level `l` is the probability the two-sided
    level `l₂` asks for, the three calls compute one and the same pair of bounds `B` (or fail in the
    same way): two-sided passes it to `Interval::new`, upper keeps the first component, lower the
    second. The same for `Unpaired`. -/
theorem one_vs_two_carrier {F W : Type} [Scalar F] [Scalar W] [Widen F W] (crit : Crit W)
    (l l₂ : W) (hq : l = (Confidence.twoSided l₂).quantile) (a : Arith F) (u : Unpaired F) :
    (∃ B : Outcome (Err W) (F × F),
      a.ciMean crit (.twoSided l₂) = B.bind (fun b => liftI (Interval.new b.1 b.2)) ∧
      a.ciMean crit (.upper l) = B.map (fun b => Interval.upper b.1) ∧
      a.ciMean crit (.lower l) = B.map (fun b => Interval.lower b.2)) ∧
    (∃ B : Outcome (Err W) (F × F),
      u.ciMean crit (.twoSided l₂) = B.bind (fun b => liftI (Interval.new b.1 b.2)) ∧
      u.ciMean crit (.upper l) = B.map (fun b => Interval.upper b.1) ∧
      u.ciMean crit (.lower l) = B.map (fun b => Interval.lower b.2)) :=
  ⟨finish_one_vs_two crit l l₂ hq _, finish_one_vs_two crit l l₂ hq _⟩

/-- **Arithmetic** at `Rex`: common bounds for every state, every oracle, every real `L` -/
theorem one_vs_two_arith_bounds (crit : Crit Rex) (a : Arith Rex) (L : ℝ) :
    ∃ B : Outcome (Err Rex) (Rex × Rex),
      a.ciMean crit (.twoSided ⟨2 * L - 1⟩) = B.bind (fun b => liftI (Interval.new b.1 b.2)) ∧
      a.ciMean crit (.upper ⟨L⟩) = B.map (fun b => Interval.upper b.1) ∧
      a.ciMean crit (.lower ⟨L⟩) = B.map (fun b => Interval.lower b.2) :=
  finish_one_vs_two crit ⟨L⟩ ⟨2 * L - 1⟩ (quantile_two L).symm _

/-- **Arithmetic**: the two-sided bounds at `2L − 1` are the one-sided bounds at `L`, and
    conversely the one-sided results give the two-sided outcome `Interval::new lo hi` -/
theorem one_vs_two_arith (crit : Crit Rex) (a : Arith Rex) (L : ℝ) :
    (∀ lo hi, a.ciMean crit (.twoSided ⟨2 * L - 1⟩) = .ok (.twoSided lo hi) →
      a.ciMean crit (.upper ⟨L⟩) = .ok (.upper lo) ∧ a.ciMean crit (.lower ⟨L⟩) = .ok (.lower hi)) ∧
    (∀ lo hi, a.ciMean crit (.upper ⟨L⟩) = .ok (.upper lo) →
      a.ciMean crit (.lower ⟨L⟩) = .ok (.lower hi) →
      a.ciMean crit (.twoSided ⟨2 * L - 1⟩) = liftI (Interval.new lo hi)) := by
  obtain ⟨B, h2, hu, hl⟩ := one_vs_two_arith_bounds crit a L
  have h := common_bounds_cases B _ _ _ h2 hu hl
  exact ⟨h.1, h.2.1⟩

/-- **Paired**: the arithmetic statement on the differences -/
theorem one_vs_two_paired_bounds (crit : Crit Rex) (p : Paired Rex) (L : ℝ) :
    ∃ B : Outcome (Err Rex) (Rex × Rex),
      p.ciMean crit (.twoSided ⟨2 * L - 1⟩) = B.bind (fun b => liftI (Interval.new b.1 b.2)) ∧
      p.ciMean crit (.upper ⟨L⟩) = B.map (fun b => Interval.upper b.1) ∧
      p.ciMean crit (.lower ⟨L⟩) = B.map (fun b => Interval.lower b.2) :=
  one_vs_two_arith_bounds crit p.stats L

theorem one_vs_two_paired (crit : Crit Rex) (p : Paired Rex) (L : ℝ) :
    (∀ lo hi, p.ciMean crit (.twoSided ⟨2 * L - 1⟩) = .ok (.twoSided lo hi) →
      p.ciMean crit (.upper ⟨L⟩) = .ok (.upper lo) ∧ p.ciMean crit (.lower ⟨L⟩) = .ok (.lower hi)) ∧
    (∀ lo hi, p.ciMean crit (.upper ⟨L⟩) = .ok (.upper lo) →
      p.ciMean crit (.lower ⟨L⟩) = .ok (.lower hi) →
      p.ciMean crit (.twoSided ⟨2 * L - 1⟩) = liftI (Interval.new lo hi)) :=
  one_vs_two_arith crit p.stats L

/-- **Unpaired**: the degrees of freedom do not depend on the confidence, so again one pair of
    bounds (or one failure, including the `t_value` panic at non-positive `dof`) -/
theorem one_vs_two_unpaired_bounds (crit : Crit Rex) (u : Unpaired Rex) (L : ℝ) :
    ∃ B : Outcome (Err Rex) (Rex × Rex),
      u.ciMean crit (.twoSided ⟨2 * L - 1⟩) = B.bind (fun b => liftI (Interval.new b.1 b.2)) ∧
      u.ciMean crit (.upper ⟨L⟩) = B.map (fun b => Interval.upper b.1) ∧
      u.ciMean crit (.lower ⟨L⟩) = B.map (fun b => Interval.lower b.2) :=
  finish_one_vs_two crit ⟨L⟩ ⟨2 * L - 1⟩ (quantile_two L).symm _

theorem one_vs_two_unpaired (crit : Crit Rex) (u : Unpaired Rex) (L : ℝ) :
    (∀ lo hi, u.ciMean crit (.twoSided ⟨2 * L - 1⟩) = .ok (.twoSided lo hi) →
      u.ciMean crit (.upper ⟨L⟩) = .ok (.upper lo) ∧ u.ciMean crit (.lower ⟨L⟩) = .ok (.lower hi)) ∧
    (∀ lo hi, u.ciMean crit (.upper ⟨L⟩) = .ok (.upper lo) →
      u.ciMean crit (.lower ⟨L⟩) = .ok (.lower hi) →
      u.ciMean crit (.twoSided ⟨2 * L - 1⟩) = liftI (Interval.new lo hi)) := by
  obtain ⟨B, h2, hu, hl⟩ := one_vs_two_unpaired_bounds crit u L
  have h := common_bounds_cases B _ _ _ h2 hu hl
  exact ⟨h.1, h.2.1⟩

/-- **Geometric and harmonic, any carrier**: the bounds of a successful two-sided call at `l₂`
    are the bounds of the one-sided calls at `l` (which then succeed). For the harmonic mean the
    upper one-sided call works on the *lower* one-sided reciprocal-space interval (flipped
    confidence) and takes `recipBound` of its end: it is the two-sided call's lower bound. -/
theorem one_vs_two_geo_harm_carrier {F W : Type} [Scalar F] [Scalar W] [Widen F W] (crit : Crit W)
    (l l₂ : W) (hq : l = (Confidence.twoSided l₂).quantile) (g : Geometric F) (h : Harmonic F) :
    (∀ lo hi, g.ciMean crit (.twoSided l₂) = .ok (.twoSided lo hi) →
      g.ciMean crit (.upper l) = .ok (.upper lo) ∧ g.ciMean crit (.lower l) = .ok (.lower hi)) ∧
    (∀ lo hi, h.ciMean crit (.twoSided l₂) = .ok (.twoSided lo hi) →
      h.ciMean crit (.upper l) = .ok (.upper lo) ∧ h.ciMean crit (.lower l) = .ok (.lower hi)) :=
  ⟨Geometric.one_vs_two crit g l l₂ hq, Harmonic.one_vs_two crit h l l₂ hq⟩

/-- **Geometric** at `Rex`, every `L`; conversely a successful two-sided result is made of the
    one-sided bounds -/
theorem one_vs_two_geometric (crit : Crit Rex) (g : Geometric Rex) (L : ℝ) :
    (∀ lo hi, g.ciMean crit (.twoSided ⟨2 * L - 1⟩) = .ok (.twoSided lo hi) →
      g.ciMean crit (.upper ⟨L⟩) = .ok (.upper lo) ∧ g.ciMean crit (.lower ⟨L⟩) = .ok (.lower hi)) ∧
    (∀ lo hi, g.ciMean crit (.upper ⟨L⟩) = .ok (.upper lo) →
      g.ciMean crit (.lower ⟨L⟩) = .ok (.lower hi) →
      ∀ I, g.ciMean crit (.twoSided ⟨2 * L - 1⟩) = .ok I → I = .twoSided lo hi) := by
  have hfw := Geometric.one_vs_two crit g ⟨L⟩ ⟨2 * L - 1⟩ (quantile_two L).symm
  refine ⟨hfw, fun lo hi hu hl I h2 => ?_⟩
  exact converse_of_forward _ _ _ Interval.upper Interval.lower
    (fun _ _ h => by injection h) (fun _ _ h => by injection h) hfw
    (fun I h => Geometric.ciMean_kind crit g _ I h) lo hi hu hl I h2

/-- **Harmonic** at `Rex`, every `L` (no positivity needed here: the same `recipBound` is applied
    to the same reciprocal-space bound in both calls) -/
theorem one_vs_two_harmonic (crit : Crit Rex) (g : Harmonic Rex) (L : ℝ) :
    (∀ lo hi, g.ciMean crit (.twoSided ⟨2 * L - 1⟩) = .ok (.twoSided lo hi) →
      g.ciMean crit (.upper ⟨L⟩) = .ok (.upper lo) ∧ g.ciMean crit (.lower ⟨L⟩) = .ok (.lower hi)) ∧
    (∀ lo hi, g.ciMean crit (.upper ⟨L⟩) = .ok (.upper lo) →
      g.ciMean crit (.lower ⟨L⟩) = .ok (.lower hi) →
      ∀ I, g.ciMean crit (.twoSided ⟨2 * L - 1⟩) = .ok I → I = .twoSided lo hi) := by
  have hfw := Harmonic.one_vs_two crit g ⟨L⟩ ⟨2 * L - 1⟩ (quantile_two L).symm
  refine ⟨hfw, fun lo hi hu hl I h2 => ?_⟩
  exact converse_of_forward _ _ _ Interval.upper Interval.lower
    (fun _ _ h => by injection h) (fun _ _ h => by injection h) hfw
    (fun I h => Harmonic.ciMean_kind crit g _ I h) lo hi hu hl I h2

/-- **Wilson**: one-sided results are `[lo, 1]` / `[0, hi]` with `lo`, `hi` the two-sided bounds
    (every `L`, every oracle: the Wilson numbers lie in `[0,1]` whatever the sign of `z`) -/
theorem one_vs_two_wilson (crit : Crit Rex) (L : ℝ) (n k : ℕ) :
    (∀ lo hi, ciWilson crit (.twoSided ⟨2 * L - 1⟩) n k = .ok (.twoSided lo hi) →
      ciWilson crit (.upper ⟨L⟩) n k = .ok (.twoSided lo ⟨1⟩) ∧
      ciWilson crit (.lower ⟨L⟩) n k = .ok (.twoSided ⟨0⟩ hi)) ∧
    (∀ lo hi, ciWilson crit (.upper ⟨L⟩) n k = .ok (.twoSided lo ⟨1⟩) →
      ciWilson crit (.lower ⟨L⟩) n k = .ok (.twoSided ⟨0⟩ hi) →
      ∀ I, ciWilson crit (.twoSided ⟨2 * L - 1⟩) n k = .ok I → I = .twoSided lo hi) := by
  have hfw := Wilson.one_vs_two crit L n k
  refine ⟨hfw, fun lo hi hu hl I h2 => ?_⟩
  exact converse_of_forward _ _ _ (fun x => Interval.twoSided x ⟨1⟩) (fun x => Interval.twoSided ⟨0⟩ x)
    (fun _ _ h => by injection h) (fun _ _ h => by injection h) hfw
    (fun I h => ciWilson_kind crit (.twoSided ⟨2 * L - 1⟩) n k I h) lo hi hu hl I h2

/-- **Wald** (`ci_z_normal`) -/
theorem one_vs_two_wald (crit : Crit Rex) (L : ℝ) (n k : ℕ) :
    (∀ lo hi, ciZNormal crit (.twoSided ⟨2 * L - 1⟩) n k = .ok (.twoSided lo hi) →
      ciZNormal crit (.upper ⟨L⟩) n k = .ok (.twoSided lo ⟨1⟩) ∧
      ciZNormal crit (.lower ⟨L⟩) n k = .ok (.twoSided ⟨0⟩ hi)) ∧
    (∀ lo hi, ciZNormal crit (.upper ⟨L⟩) n k = .ok (.twoSided lo ⟨1⟩) →
      ciZNormal crit (.lower ⟨L⟩) n k = .ok (.twoSided ⟨0⟩ hi) →
      ∀ I, ciZNormal crit (.twoSided ⟨2 * L - 1⟩) n k = .ok I → I = .twoSided lo hi) := by
  have hfw := Wald.one_vs_two crit L n k
  refine ⟨hfw, fun lo hi hu hl I h2 => ?_⟩
  exact converse_of_forward _ _ _ (fun x => Interval.twoSided x ⟨1⟩) (fun x => Interval.twoSided ⟨0⟩ x)
    (fun _ _ h => by injection h) (fun _ _ h => by injection h) hfw
    (fun I h => ciZNormal_kind crit (.twoSided ⟨2 * L - 1⟩) n k I h) lo hi hu hl I h2

/-- **Quantile ranks**, `1/2 < L < 1` -/
theorem one_vs_two_quantile (crit : Crit Rex) (L : ℝ) (h1 : 1 / 2 < L) (h2 : L < 1) (n : ℕ) (q : Rex) :
    (∀ lo hi, Quantile.ciIndices crit (.twoSided ⟨2 * L - 1⟩) n q = .ok (.twoSided lo hi) →
      Quantile.ciIndices crit (.upper ⟨L⟩) n q = .ok (.upper lo) ∧
      Quantile.ciIndices crit (.lower ⟨L⟩) n q = .ok (.lower hi)) ∧
    (∀ lo hi, Quantile.ciIndices crit (.upper ⟨L⟩) n q = .ok (.upper lo) →
      Quantile.ciIndices crit (.lower ⟨L⟩) n q = .ok (.lower hi) →
      ∀ I, Quantile.ciIndices crit (.twoSided ⟨2 * L - 1⟩) n q = .ok I → I = .twoSided lo hi) := by
  have hfw := Quantile.one_vs_two crit L h1 h2 n q
  refine ⟨hfw, fun lo hi hu hl I h2 => ?_⟩
  exact converse_of_forward _ _ _ Interval.upper Interval.lower
    (fun _ _ h => by injection h) (fun _ _ h => by injection h) hfw
    (fun I h => ciIndices_kind crit _ n q I h) lo hi hu hl I h2

/-! ## 5. the kind of the result is the kind of the confidence (any carrier) -/

section kinds
variable {F W : Type} [Scalar F] [Scalar W] [Widen F W]

/-- arithmetic, paired, unpaired, geometric, harmonic: two-sided ↦ `.twoSided`, upper one-sided ↦
    `.upper` (bounded below only), lower one-sided ↦ `.lower` (bounded above only) -/
theorem kind_arith (crit : Crit W) (a : Arith F) (conf : Confidence W) (I : Interval F)
    (h : a.ciMean crit conf = .ok I) : KindMatch conf I := finish_kind crit conf _ I h

theorem kind_paired (crit : Crit W) (p : Paired F) (conf : Confidence W) (I : Interval F)
    (h : p.ciMean crit conf = .ok I) : KindMatch conf I := finish_kind crit conf _ I h

theorem kind_unpaired (crit : Crit W) (u : Unpaired F) (conf : Confidence W) (I : Interval F)
    (h : u.ciMean crit conf = .ok I) : KindMatch conf I := finish_kind crit conf _ I h

theorem kind_geometric (crit : Crit W) (g : Geometric F) (conf : Confidence W) (I : Interval F)
    (h : g.ciMean crit conf = .ok I) : KindMatch conf I := Geometric.ciMean_kind crit g conf I h

theorem kind_harmonic (crit : Crit W) (g : Harmonic F) (conf : Confidence W) (I : Interval F)
    (h : g.ciMean crit conf = .ok I) : KindMatch conf I := Harmonic.ciMean_kind crit g conf I h

/-- quantile ranks -/
theorem kind_quantile (crit : Crit W) (conf : Confidence W) (n : ℕ) (q : W) (I : Interval ℕ)
    (h : Quantile.ciIndices crit conf n q = .ok I) : KindMatch conf I :=
  ciIndices_kind crit conf n q I h

/-- proportions: always `.twoSided`, with far end exactly `1` (upper) resp. `0` (lower) -/
theorem kind_wilson (crit : Crit W) (conf : Confidence W) (n k : ℕ) (I : Interval W)
    (h : ciWilson crit conf n k = .ok I) : PropKindMatch conf I := ciWilson_kind crit conf n k I h

theorem kind_wald (crit : Crit W) (conf : Confidence W) (n k : ℕ) (I : Interval W)
    (h : ciZNormal crit conf n k = .ok I) : PropKindMatch conf I := ciZNormal_kind crit conf n k I h

end kinds

/-! ## 4. the interval contains the point estimate -/

/-- **Arithmetic**: a returned two-sided interval contains the sample mean whatever the oracle
    says (`Interval::new` accepted `mean − c·sem ≤ mean + c·sem`); a one-sided one does as soon as
    the critical value is non-negative -/
theorem contains_estimate_arith (crit : Crit Rex) (a : Arith Rex) (conf : Confidence Rex)
    (I : Interval Rex) (h : a.ciMean crit conf = .ok I)
    (hc : conf.isTwoSided = true ∨
      0 ≤ (crit (critReq conf (sub (Scalar.ofNat a.count) one))).val) :
    I.contains a.mean = true := Arith.contains_mean crit a conf I h hc

/-- with a monotone oracle vanishing at `1/2`: two-sided, or one-sided at level `≥ 1/2` -/
theorem contains_estimate_arith_of_level {crit : Crit Rex} (hm : CritMono crit) (hh : CritHalf crit)
    (a : Arith Rex) (conf : Confidence Rex) (hv : ValidLevel conf)
    (hs : conf.isTwoSided = true ∨ 1 / 2 ≤ conf.level.val) (I : Interval Rex)
    (h : a.ciMean crit conf = .ok I) : I.contains a.mean = true :=
  Arith.contains_mean crit a conf I h (Or.inr ((crit_nonneg_of_level hm hh conf hv hs).1 _))

/-- **Paired**: contains the mean difference -/
theorem contains_estimate_paired (crit : Crit Rex) (p : Paired Rex) (conf : Confidence Rex)
    (I : Interval Rex) (h : p.ciMean crit conf = .ok I)
    (hc : conf.isTwoSided = true ∨
      0 ≤ (crit (critReq conf (sub (Scalar.ofNat p.stats.count) one))).val) :
    I.contains p.mean = true := Arith.contains_mean crit p.stats conf I h hc

theorem contains_estimate_paired_of_level {crit : Crit Rex} (hm : CritMono crit) (hh : CritHalf crit)
    (p : Paired Rex) (conf : Confidence Rex) (hv : ValidLevel conf)
    (hs : conf.isTwoSided = true ∨ 1 / 2 ≤ conf.level.val) (I : Interval Rex)
    (h : p.ciMean crit conf = .ok I) : I.contains p.mean = true :=
  Arith.contains_mean crit p.stats conf I h (Or.inr ((crit_nonneg_of_level hm hh conf hv hs).1 _))

/-- **Unpaired**: contains the difference of the two sample means -/
theorem contains_estimate_unpaired (crit : Crit Rex) (u : Unpaired Rex) (conf : Confidence Rex)
    (I : Interval Rex) (h : u.ciMean crit conf = .ok I)
    (hc : conf.isTwoSided = true ∨ ∀ dof : Rex, 0 ≤ (crit (critReq conf dof)).val) :
    I.contains (sub u.a.mean u.b.mean) = true := Unpaired.contains_mean crit u conf I h hc

theorem contains_estimate_unpaired_of_level {crit : Crit Rex} (hm : CritMono crit)
    (hh : CritHalf crit) (u : Unpaired Rex) (conf : Confidence Rex) (hv : ValidLevel conf)
    (hs : conf.isTwoSided = true ∨ 1 / 2 ≤ conf.level.val) (I : Interval Rex)
    (h : u.ciMean crit conf = .ok I) : I.contains (sub u.a.mean u.b.mean) = true :=
  Unpaired.contains_mean crit u conf I h (Or.inr (crit_nonneg_of_level hm hh conf hv hs).1)

/-- **Geometric**: contains the geometric mean `exp (mean of the logarithms)` -/
theorem contains_estimate_geometric (crit : Crit Rex) (g : Geometric Rex) (conf : Confidence Rex)
    (I : Interval Rex) (h : g.ciMean crit conf = .ok I)
    (hc : conf.isTwoSided = true ∨
      0 ≤ (crit (critReq conf (sub (Scalar.ofNat g.logs.count) one))).val) :
    I.contains g.mean = true := Geometric.contains_mean crit g conf I h hc

theorem contains_estimate_geometric_of_level {crit : Crit Rex} (hm : CritMono crit)
    (hh : CritHalf crit) (g : Geometric Rex) (conf : Confidence Rex) (hv : ValidLevel conf)
    (hs : conf.isTwoSided = true ∨ 1 / 2 ≤ conf.level.val) (I : Interval Rex)
    (h : g.ciMean crit conf = .ok I) : I.contains g.mean = true :=
  Geometric.contains_mean crit g conf I h (Or.inr ((crit_nonneg_of_level hm hh conf hv hs).1 _))

/-- **Harmonic**: contains the harmonic mean `1 / (mean of the reciprocals)`, provided that mean is
    positive (it is for accepted data) and the finite bounds of the reciprocal-space interval are
    positive (`PosBounds`: there `recipBound r = 1/r`) -/
theorem contains_estimate_harmonic (crit : Crit Rex) (g : Harmonic Rex) (conf : Confidence Rex)
    (I : Interval Rex) (h : g.ciMean crit conf = .ok I)
    (hc : conf.isTwoSided = true ∨
      0 ≤ (crit (critReq conf (sub (Scalar.ofNat g.recip.count) one))).val)
    (hmean : 0 < g.recip.mean.val)
    (hpos : ∀ J, g.recip.ciMean crit conf.flipped = .ok J → PosBounds J) :
    I.contains g.mean = true := Harmonic.contains_mean crit g conf I h hc hmean hpos

theorem contains_estimate_harmonic_of_level {crit : Crit Rex} (hm : CritMono crit)
    (hh : CritHalf crit) (g : Harmonic Rex) (conf : Confidence Rex) (hv : ValidLevel conf)
    (hs : conf.isTwoSided = true ∨ 1 / 2 ≤ conf.level.val) (I : Interval Rex)
    (h : g.ciMean crit conf = .ok I) (hmean : 0 < g.recip.mean.val)
    (hpos : ∀ J, g.recip.ciMean crit conf.flipped = .ok J → PosBounds J) :
    I.contains g.mean = true :=
  Harmonic.contains_mean crit g conf I h
    (Or.inr ((crit_nonneg_of_level hm hh conf hv hs).1 _)) hmean hpos

/-- **Wilson**: contains the observed proportion `k/n` -/
theorem contains_estimate_wilson (crit : Crit Rex) (conf : Confidence Rex) (n k : ℕ)
    (I : Interval Rex) (h : ciWilson crit conf n k = .ok I)
    (hz : conf.isTwoSided = true ∨ 0 ≤ (crit (.z conf.quantile)).val) :
    I.contains (div (Scalar.ofNat k) (Scalar.ofNat n) : Rex) = true :=
  Wilson.contains_ratio crit conf n k I h hz

theorem contains_estimate_wilson_of_level {crit : Crit Rex} (hm : CritMono crit) (hh : CritHalf crit)
    (conf : Confidence Rex) (hv : ValidLevel conf)
    (hs : conf.isTwoSided = true ∨ 1 / 2 ≤ conf.level.val) (n k : ℕ) (I : Interval Rex)
    (h : ciWilson crit conf n k = .ok I) :
    I.contains (div (Scalar.ofNat k) (Scalar.ofNat n) : Rex) = true :=
  Wilson.contains_ratio crit conf n k I h (Or.inr (crit_nonneg_of_level hm hh conf hv hs).2)

/-- **Wald**: contains `k/n` -/
theorem contains_estimate_wald (crit : Crit Rex) (conf : Confidence Rex) (n k : ℕ)
    (I : Interval Rex) (h : ciZNormal crit conf n k = .ok I)
    (hz : conf.isTwoSided = true ∨ 0 ≤ (crit (.z conf.quantile)).val) :
    I.contains (div (Scalar.ofNat k) (Scalar.ofNat n) : Rex) = true :=
  Wald.contains_ratio crit conf n k I h hz

theorem contains_estimate_wald_of_level {crit : Crit Rex} (hm : CritMono crit) (hh : CritHalf crit)
    (conf : Confidence Rex) (hv : ValidLevel conf)
    (hs : conf.isTwoSided = true ∨ 1 / 2 ≤ conf.level.val) (n k : ℕ) (I : Interval Rex)
    (h : ciZNormal crit conf n k = .ok I) :
    I.contains (div (Scalar.ofNat k) (Scalar.ofNat n) : Rex) = true :=
  Wald.contains_ratio crit conf n k I h (Or.inr (crit_nonneg_of_level hm hh conf hv hs).2)

/-- **Quantile ranks**: the ranks bracket the rank `k = round(q·n)` of the sample quantile
    (`C03.bracket`; with `z > 0` the lower rank is even `≤ k − 1`: "to within one position") -/
theorem contains_estimate_quantile (crit : Crit Rex) (conf : Confidence Rex) (hv : ValidLevel conf)
    (n : ℕ) (q : Rex) (I : Interval ℕ) (h : Quantile.ciIndices crit conf n q = .ok I)
    (hz : conf.isTwoSided = true ∨ 0 ≤ (crit (.z conf.quantile)).val) :
    I.contains (successes q.val n) = true := by
  have hz' : 0 ≤ zOf crit conf :=
    hz.elim (ciIndices_twoSided_nonneg crit conf hv n q I h) id
  obtain ⟨_, _, hb⟩ := C03.bracket crit conf n q hv I h hz'
  cases I <;> simp only [Interval.contains, Cmp.le, Bool.and_eq_true, decide_eq_true_eq] at hb ⊢
  · exact ⟨hb.1, hb.2.1⟩
  · exact hb.1
  · exact hb

theorem contains_estimate_quantile_of_level {crit : Crit Rex} (hm : CritMono crit)
    (hh : CritHalf crit) (conf : Confidence Rex) (hv : ValidLevel conf)
    (hs : conf.isTwoSided = true ∨ 1 / 2 ≤ conf.level.val) (n : ℕ) (q : Rex) (I : Interval ℕ)
    (h : Quantile.ciIndices crit conf n q = .ok I) : I.contains (successes q.val n) = true :=
  contains_estimate_quantile crit conf hv n q I h
    (Or.inr (crit_nonneg_of_level hm hh conf hv hs).2)

/-! ## 3. raising the level never shrinks the interval -/

/-- **Arithmetic**: same kind, `L₁ ≤ L₂`, monotone oracle: `CI(L₂)` includes `CI(L₁)`
    (`sem ≥ 0`, so the half-width `c·sem` is monotone in `c`; no validity or sign condition) -/
theorem nested_arith {crit : Crit Rex} (hm : CritMono crit) (a : Arith Rex)
    (c₁ c₂ : Confidence Rex) (hk : c₁.kind = c₂.kind) (hl : c₁.level.val ≤ c₂.level.val)
    (i₁ i₂ : Interval Rex) (h₁ : a.ciMean crit c₁ = .ok i₁) (h₂ : a.ciMean crit c₂ = .ok i₂) :
    i₂.includes i₁ = true := Arith.nested hm a c₁ c₂ hk hl i₁ i₂ h₁ h₂

/-- with an oracle that also vanishes at `1/2`, success does not depend on the valid confidence at
    all: if some call succeeds, so does the call at any valid `c₁` (of any kind) -/
theorem nested_arith_ok {crit : Crit Rex} (hm : CritMono crit) (hh : CritHalf crit) (a : Arith Rex)
    (c₁ c₂ : Confidence Rex) (hv₁ : ValidLevel c₁) (i₂ : Interval Rex)
    (h₂ : a.ciMean crit c₂ = .ok i₂) : ∃ i₁ : Interval Rex, a.ciMean crit c₁ = .ok i₁ :=
  Arith.ok_transfer hm hh a c₁ c₂ hv₁ i₂ h₂

theorem nested_paired {crit : Crit Rex} (hm : CritMono crit) (p : Paired Rex)
    (c₁ c₂ : Confidence Rex) (hk : c₁.kind = c₂.kind) (hl : c₁.level.val ≤ c₂.level.val)
    (i₁ i₂ : Interval Rex) (h₁ : p.ciMean crit c₁ = .ok i₁) (h₂ : p.ciMean crit c₂ = .ok i₂) :
    i₂.includes i₁ = true := Arith.nested hm p.stats c₁ c₂ hk hl i₁ i₂ h₁ h₂

theorem nested_paired_ok {crit : Crit Rex} (hm : CritMono crit) (hh : CritHalf crit)
    (p : Paired Rex) (c₁ c₂ : Confidence Rex) (hv₁ : ValidLevel c₁) (i₂ : Interval Rex)
    (h₂ : p.ciMean crit c₂ = .ok i₂) : ∃ i₁ : Interval Rex, p.ciMean crit c₁ = .ok i₁ :=
  Arith.ok_transfer hm hh p.stats c₁ c₂ hv₁ i₂ h₂

/-- **Unpaired**: the effective degrees of freedom do not depend on the level -/
theorem nested_unpaired {crit : Crit Rex} (hm : CritMono crit) (u : Unpaired Rex)
    (c₁ c₂ : Confidence Rex) (hk : c₁.kind = c₂.kind) (hl : c₁.level.val ≤ c₂.level.val)
    (i₁ i₂ : Interval Rex) (h₁ : u.ciMean crit c₁ = .ok i₁) (h₂ : u.ciMean crit c₂ = .ok i₂) :
    i₂.includes i₁ = true := Unpaired.nested hm u c₁ c₂ hk hl i₁ i₂ h₁ h₂

theorem nested_unpaired_ok {crit : Crit Rex} (hm : CritMono crit) (hh : CritHalf crit)
    (u : Unpaired Rex) (c₁ c₂ : Confidence Rex) (hv₁ : ValidLevel c₁) (i₂ : Interval Rex)
    (h₂ : u.ciMean crit c₂ = .ok i₂) : ∃ i₁ : Interval Rex, u.ciMean crit c₁ = .ok i₁ :=
  Unpaired.ok_transfer hm hh u c₁ c₂ hv₁ i₂ h₂

/-- **Geometric**: `exp` is monotone -/
theorem nested_geometric {crit : Crit Rex} (hm : CritMono crit) (g : Geometric Rex)
    (c₁ c₂ : Confidence Rex) (hk : c₁.kind = c₂.kind) (hl : c₁.level.val ≤ c₂.level.val)
    (i₁ i₂ : Interval Rex) (h₁ : g.ciMean crit c₁ = .ok i₁) (h₂ : g.ciMean crit c₂ = .ok i₂) :
    i₂.includes i₁ = true := Geometric.nested hm g c₁ c₂ hk hl i₁ i₂ h₁ h₂

theorem nested_geometric_ok {crit : Crit Rex} (hm : CritMono crit) (hh : CritHalf crit)
    (g : Geometric Rex) (c₁ c₂ : Confidence Rex) (hv₁ : ValidLevel c₁) (i₂ : Interval Rex)
    (h₂ : g.ciMean crit c₂ = .ok i₂) : ∃ i₁ : Interval Rex, g.ciMean crit c₁ = .ok i₁ :=
  Geometric.ok_transfer hm hh g c₁ c₂ hv₁ i₂ h₂

/-- **Harmonic**: the reciprocal is antitone on positive reciprocal-space bounds. (No `_ok`
    companion: at `Rex` a two-sided call fails with `InvalidBounds` when the reciprocal-space lower
    bound is `≤ 0` — `recipBound` is then the stand-in of `+∞` — which does depend on the level.) -/
theorem nested_harmonic {crit : Crit Rex} (hm : CritMono crit) (g : Harmonic Rex)
    (c₁ c₂ : Confidence Rex) (hk : c₁.kind = c₂.kind) (hl : c₁.level.val ≤ c₂.level.val)
    (i₁ i₂ : Interval Rex) (h₁ : g.ciMean crit c₁ = .ok i₁) (h₂ : g.ciMean crit c₂ = .ok i₂)
    (hpos₁ : ∀ J, g.recip.ciMean crit c₁.flipped = .ok J → PosBounds J)
    (hpos₂ : ∀ J, g.recip.ciMean crit c₂.flipped = .ok J → PosBounds J) :
    i₂.includes i₁ = true := Harmonic.nested hm g c₁ c₂ hk hl i₁ i₂ h₁ h₂ hpos₁ hpos₂

/-- **Wilson**: only monotonicity of the normal quantile is used; in particular this covers
    one-sided levels below `1/2`, where the critical value is negative -/
theorem nested_wilson {crit : Crit Rex} (hm : CritMono crit) (c₁ c₂ : Confidence Rex)
    (hk : c₁.kind = c₂.kind) (hl : c₁.level.val ≤ c₂.level.val) (n k : ℕ)
    (i₁ i₂ : Interval Rex) (h₁ : ciWilson crit c₁ n k = .ok i₁)
    (h₂ : ciWilson crit c₂ n k = .ok i₂) : i₂.includes i₁ = true :=
  Wilson.nested hm c₁ c₂ hk hl n k i₁ i₂ h₁ h₂

/-- success of `ci_wilson` transfers to any valid confidence; only the two-sided kind needs a
    non-negative critical value (a negative one inverts the Wilson ends: `InvalidBounds`) -/
theorem nested_wilson_ok (crit : Crit Rex) (c₁ c₂ : Confidence Rex) (hv₁ : ValidLevel c₁)
    (hz₁ : c₁.isTwoSided = true → 0 ≤ (crit (.z c₁.quantile)).val) (n k : ℕ) (i₂ : Interval Rex)
    (h₂ : ciWilson crit c₂ n k = .ok i₂) : ∃ i₁ : Interval Rex, ciWilson crit c₁ n k = .ok i₁ :=
  Wilson.ok_transfer crit c₁ c₂ hv₁ hz₁ n k i₂ h₂

/-- **Wald** -/
theorem nested_wald {crit : Crit Rex} (hm : CritMono crit) (c₁ c₂ : Confidence Rex)
    (hk : c₁.kind = c₂.kind) (hl : c₁.level.val ≤ c₂.level.val) (n k : ℕ)
    (i₁ i₂ : Interval Rex) (h₁ : ciZNormal crit c₁ n k = .ok i₁)
    (h₂ : ciZNormal crit c₂ n k = .ok i₂) : i₂.includes i₁ = true :=
  Wald.nested hm c₁ c₂ hk hl n k i₁ i₂ h₁ h₂

/-- for Wald a negative critical value can also break a one-sided call (`p − z·sd > 1` is
    rejected by `Interval::new`), so success transfers to valid confidences with `z ≥ 0` -/
theorem nested_wald_ok (crit : Crit Rex) (c₁ c₂ : Confidence Rex) (hv₁ : ValidLevel c₁)
    (hz₁ : 0 ≤ (crit (.z c₁.quantile)).val) (n k : ℕ) (i₂ : Interval Rex)
    (h₂ : ciZNormal crit c₂ n k = .ok i₂) : ∃ i₁ : Interval Rex, ciZNormal crit c₁ n k = .ok i₁ :=
  Wald.ok_transfer crit c₁ c₂ hv₁ hz₁ n k i₂ h₂

/-- **Quantile ranks**: `⌊·⌋` and `min · (n−1)` are monotone, the Wilson bounds are monotone in `z` -/
theorem nested_quantile {crit : Crit Rex} (hm : CritMono crit) (c₁ c₂ : Confidence Rex)
    (hv₁ : ValidLevel c₁) (hv₂ : ValidLevel c₂) (hk : c₁.kind = c₂.kind)
    (hl : c₁.level.val ≤ c₂.level.val) (n : ℕ) (q : Rex) (i₁ i₂ : Interval ℕ)
    (h₁ : Quantile.ciIndices crit c₁ n q = .ok i₁) (h₂ : Quantile.ciIndices crit c₂ n q = .ok i₂) :
    i₂.includes i₁ = true := Quantile.nested hm c₁ c₂ hv₁ hv₂ hk hl n q i₁ i₂ h₁ h₂

theorem nested_quantile_ok (crit : Crit Rex) (c₁ c₂ : Confidence Rex) (hv₁ : ValidLevel c₁)
    (hv₂ : ValidLevel c₂) (hz₁ : c₁.isTwoSided = true → 0 ≤ (crit (.z c₁.quantile)).val) (n : ℕ)
    (q : Rex) (i₂ : Interval ℕ) (h₂ : Quantile.ciIndices crit c₂ n q = .ok i₂) :
    ∃ i₁ : Interval ℕ, Quantile.ciIndices crit c₁ n q = .ok i₁ :=
  Quantile.ok_transfer crit c₁ c₂ hv₁ hv₂ hz₁ n q i₂ h₂

/-! ## non-vacuity

  Oracle `linCrit` (`p ↦ p − 1/2`: monotone, zero at `1/2`); states built from the sample `1, 2, 4`
  (`exArith`, and the paired / geometric / harmonic states over it), the two samples `1, 2` and
  `3, 5` (`exUnpaired`), `k = 3` of `n = 10` (Wilson), `k = 12` of `n = 30` (Wald), the median of
  `n = 10` (quantile ranks). Every producer succeeds on them for **every** valid confidence, so each
  hypothesis `… = .ok I` above is met, at any kind and at any pair of levels. -/

section nonvacuity

example : CritMono linCrit ∧ CritHalf linCrit := ⟨linCrit_mono, linCrit_half⟩

/-- levels: `L = 0.95` one-sided, `2L − 1` two-sided; two levels of one kind, `L₁ ≤ L₂`;
    the side condition "two-sided, or level `≥ 1/2`" -/
example : (1 / 2 : ℝ) < 0.95 ∧ (0.95 : ℝ) < 1 ∧ ValidLevel (.twoSided (⟨2 * 0.95 - 1⟩ : Rex)) ∧
    ValidLevel (.upper (⟨0.95⟩ : Rex)) ∧ ValidLevel (.lower (⟨0.95⟩ : Rex)) := by
  have h1 : (1 / 2 : ℝ) < 0.95 := by norm_num
  have h2 : (0.95 : ℝ) < 1 := by norm_num
  exact ⟨h1, h2, validLevel_two _ h1 h2, validLevel_upper _ h1 h2, validLevel_lower _ h1 h2⟩

example : ∃ c₁ c₂ : Confidence Rex, ValidLevel c₁ ∧ ValidLevel c₂ ∧ c₁.kind = c₂.kind ∧
    c₁.level.val ≤ c₂.level.val ∧ c₁.level.val ≠ c₂.level.val ∧
    (c₁.isTwoSided = true ∨ 1 / 2 ≤ c₁.level.val) := by
  refine ⟨.upper ⟨0.6⟩, .upper ⟨0.9⟩, ?_, ?_, rfl, ?_, ?_, Or.inr ?_⟩ <;>
    simp only [ValidLevel, Confidence.level] <;> norm_num

/-- the premise of every `one_vs_two_*`: the two-sided call at `2L − 1` succeeds -/
example : (∃ lo hi, exArith.ciMean linCrit (.twoSided ⟨2 * 0.95 - 1⟩) = .ok (.twoSided lo hi)) ∧
    (∃ lo hi, ciWilson linCrit (.twoSided ⟨2 * 0.95 - 1⟩) 10 3 = .ok (.twoSided lo hi)) := by
  have hv := validLevel_two 0.95 (by norm_num) (by norm_num)
  constructor
  · obtain ⟨J, hJ, ⟨lo, hi, rfl⟩, _⟩ := exArith_ok _ hv
    exact ⟨lo, hi, hJ⟩
  · obtain ⟨I, hI⟩ := exWilson_ok _ hv
    obtain ⟨lo, hi, rfl⟩ := ciWilson_kind linCrit _ 10 3 I hI
    exact ⟨lo, hi, hI⟩

/-- every producer succeeds for every valid confidence on the instances above (Wald: with a
    non-negative critical value); the harmonic side conditions hold as well -/
example (conf : Confidence Rex) (hv : ValidLevel conf) :
    (∃ I, exArith.ciMean linCrit conf = .ok I) ∧ (∃ I, exPaired.ciMean linCrit conf = .ok I) ∧
    (∃ I, exUnpaired.ciMean linCrit conf = .ok I) ∧ (∃ I, exGeo.ciMean linCrit conf = .ok I) ∧
    ((∃ I, exHarm.ciMean linCrit conf = .ok I) ∧ 0 < exHarm.recip.mean.val ∧
      ∀ J, exHarm.recip.ciMean linCrit conf.flipped = .ok J → PosBounds J) ∧
    (∃ I, ciWilson linCrit conf 10 3 = .ok I) ∧
    (conf.isTwoSided = true ∨ 1 / 2 ≤ conf.level.val → ∃ I, ciZNormal linCrit conf 30 12 = .ok I) ∧
    (∃ I, Quantile.ciIndices linCrit conf 10 (inj (1 / 2)) = .ok I) := by
  obtain ⟨J, hJ, _, _⟩ := exArith_ok conf hv
  exact ⟨⟨J, hJ⟩, ⟨J, hJ⟩, exUnpaired_ok conf hv, exGeo_ok conf hv, exHarm_ok conf hv,
    exWilson_ok conf hv, exWald_ok conf hv, exQuantile_ok conf hv⟩

/-- the carrier-generic hypothesis `l = (twoSided l₂).quantile` is met at `Rex` by `l = L`,
    `l₂ = 2L − 1` -/
example : (⟨0.95⟩ : Rex) = (Confidence.twoSided (⟨2 * 0.95 - 1⟩ : Rex)).quantile :=
  (quantile_two 0.95).symm

/-- the side condition of `contains_estimate_wilson` cannot be dropped for the one-sided kinds: at the
    valid upper one-sided level `0.3 < 1/2` the (monotone, symmetric) oracle `linCrit` answers
    `z = −0.2`, the call succeeds, and the interval `[lo, 1]` has `lo > k/n`: the observed
    proportion is *not* contained. -/
example : ∃ I, ciWilson linCrit (.upper ⟨0.3⟩) 10 3 = .ok I ∧
    I.contains (div (Scalar.ofNat 3) (Scalar.ofNat 10) : Rex) = false := by
  have hv : ValidLevel (.upper (⟨0.3⟩ : Rex)) := by
    constructor <;> simp only [Confidence.level] <;> norm_num
  refine ⟨_, ciWilson_rex_eq linCrit _ 10 3 (by norm_num) (by norm_num) (probOk_of_valid _ hv)
    (by simp [Confidence.isTwoSided]), ?_⟩
  have hz : zOf linCrit (.upper (⟨0.3⟩ : Rex)) = -0.2 := by
    rw [zOf_linCrit]; simp only [Confidence.quantile]; norm_num
  rw [hz, lowerR_neg]
  have h1 := ratio_le_upperR ((10 : ℕ) : ℝ) ((3 : ℕ) : ℝ) 0 (by norm_num) le_rfl (by norm_num)
    (by norm_num)
  have h2 := upperR_strictMono_z ((10 : ℕ) : ℝ) ((3 : ℕ) : ℝ) 0 0.2 (by norm_num) le_rfl
    (by norm_num) (by norm_num) (by norm_num)
  simp only [propShape, Interval.contains, Bool.and_eq_false_imp, RR.le_iff, RR.div_val,
    RR.ofNat_val, id_eq]
  intro h
  linarith

end nonvacuity

end StatsCI.C10
